/-
  Props/C04/NT.lean — `Tensor.eager_subs` is the simultaneous substitution (tensor_subs_sem), its inputs clause,
  and the witness that the pre-fix diagonal handling violates both on a 2x2 tensor.
-/
import FunsorVerif.Model.C04.NT
namespace FV.Props.C04
open FV FV.C04
theorem names_odSet (d : Inputs) (k : Name) (v : Nat) :
    names (odSet d k v) = if k ∈ names d then names d else names d ++ [k] := by
  induction d with
  | nil => simp [odSet, names]
  | cons p r ih =>
    obtain ⟨k', v'⟩ := p
    by_cases h : k' = k
    · subst h; simp [odSet, names]
    · have h' : ¬ k = k' := fun e => h e.symm
      simp only [odSet, h, if_false, names, List.map_cons, List.mem_cons, h', false_or] at ih ⊢
      split <;> rename_i hm <;> simp_all

theorem mem_names_odSet (d : Inputs) (k : Name) (v : Nat) (n : Name) :
    n ∈ names (odSet d k v) ↔ n ∈ names d ∨ n = k := by
  rw [names_odSet]; split <;> rename_i h
  · constructor
    · exact Or.inl
    · rintro (h' | rfl) <;> assumption
  · simp

theorem nodup_odSet (d : Inputs) (k : Name) (v : Nat) (h : (names d).Nodup) : (names (odSet d k v)).Nodup := by
  rw [names_odSet]; split <;> rename_i hm
  · exact h
  · simp [List.nodup_append, h]; intro a ha e; exact hm (e ▸ ha)

theorem mem_names_odUpdate (kvs d : Inputs) (n : Name) :
    n ∈ names (odUpdate d kvs) ↔ n ∈ names d ∨ n ∈ names kvs := by
  induction kvs generalizing d with
  | nil => simp [odUpdate, names]
  | cons p r ih =>
    have := ih (odSet d p.1 p.2)
    simp only [odUpdate, List.foldl_cons] at this ⊢
    rw [this, names_odSet]; split <;> simp_all [names] <;> grind

theorem nodup_odUpdate (kvs d : Inputs) (h : (names d).Nodup) : (names (odUpdate d kvs)).Nodup := by
  induction kvs generalizing d with
  | nil => simpa [odUpdate]
  | cons p r ih => exact ih _ (nodup_odSet d p.1 p.2 h)

/-- Assigning distinct new keys appends them in order. -/
theorem odUpdate_fresh (kvs d : Inputs) (h : (names (d ++ kvs)).Nodup) : odUpdate d kvs = d ++ kvs := by
  induction kvs generalizing d with
  | nil => simp [odUpdate]
  | cons p r ih =>
    have hp : p.1 ∉ names d := by
      have h' : (names d ++ names (p :: r)).Nodup := by simpa [names] using h
      intro hm
      exact (List.nodup_append.mp h').2.2 _ hm p.1 (by simp [names]) rfl
    have hs : odSet d p.1 p.2 = d ++ [p] := by
      clear ih h
      induction d with
      | nil => simp [odSet]
      | cons q d ihd =>
        simp [names] at hp
        simp [odSet, Ne.symm hp.1]; exact ihd (by simpa [names] using hp.2)
    simp only [odUpdate, List.foldl_cons, hs]
    have := ih (d ++ [p]) (by simpa using h)
    simpa [odUpdate] using this

theorem odOf_nodup (l : Inputs) (h : (names l).Nodup) : odOf l = l := by
  simpa [odOf] using odUpdate_fresh l [] (by simpa using h)

/-! ### Environments encoded by positional indices -/

theorem envOf_map (ns : List Name) (env : Name → Nat) (rest : List Nat) (n : Name) (h : n ∈ ns) :
    envOf ns (ns.map env ++ rest) n = env n := by
  induction ns with
  | nil => cases h
  | cons k ks ih =>
    simp only [List.map_cons, List.cons_append, envOf]
    by_cases hk : k = n
    · simp [hk]
    · simp only [hk, if_false]
      exact ih (by simpa [Ne.symm hk] using h)

theorem SVal.eval_congr (v : SVal) (e1 e2 : Name → Nat) (h : ∀ n ∈ names v.inputs, e1 n = e2 n) :
    v.eval e1 = v.eval e2 := by
  cases v with
  | num n => rfl
  | var x d => exact h x (by simp [SVal.inputs, names])
  | slice x a b s => simp only [SVal.eval]; rw [h x (by simp [SVal.inputs, names])]
  | tensor v =>
    simp only [SVal.eval, NT.at]
    congr 2
    apply List.map_congr_left
    intro p hp
    exact h p.1 (by simp only [SVal.inputs, names, List.mem_map]; exact ⟨p, hp, rfl⟩)

theorem materialize_eval (v : SVal) (env : Name → Nat) : v.materialize.eval env = v.eval env := by
  cases v <;> simp [SVal.materialize, SVal.eval, NT.at]

theorem materialize_inputs (v : SVal) : v.materialize.inputs = v.inputs := by
  cases v <;> rfl

theorem materialize_not_ren (v : SVal) : v.materialize.isRen = false := by
  cases v <;> rfl

/-! ### Pass 3: advanced indexing -/

/-- Names of the result of the "compute result shapes" loop, with an accumulator. -/
theorem mem_names_advFold (ins : Inputs) (σ : Sigma) (acc : Inputs) (n : Name) :
    n ∈ names (ins.foldl (advStep σ) acc) ↔
      n ∈ names acc ∨ ∃ p ∈ ins, (sget σ p.1 = none ∧ n = p.1) ∨ ∃ v, sget σ p.1 = some v ∧ n ∈ names v.inputs := by
  induction ins generalizing acc with
  | nil => simp
  | cons p r ih =>
    simp only [List.foldl_cons]
    rw [ih]
    unfold advStep
    cases hs : sget σ p.1 with
    | none =>
      simp only [mem_names_odSet]
      constructor
      · rintro ((h | h) | ⟨q, hq, h⟩)
        · exact Or.inl h
        · exact Or.inr ⟨p, by simp, Or.inl ⟨hs, h⟩⟩
        · exact Or.inr ⟨q, by simp [hq], h⟩
      · rintro (h | ⟨q, hq, h⟩)
        · exact Or.inl (Or.inl h)
        · rcases List.mem_cons.mp hq with rfl | hq
          · rcases h with ⟨_, h⟩ | ⟨v, hv, _⟩
            · exact Or.inl (Or.inr h)
            · rw [hs] at hv; cases hv
          · exact Or.inr ⟨q, hq, h⟩
    | some v =>
      simp only [mem_names_odUpdate]
      constructor
      · rintro ((h | h) | ⟨q, hq, h⟩)
        · exact Or.inl h
        · exact Or.inr ⟨p, by simp, Or.inr ⟨v, hs, h⟩⟩
        · exact Or.inr ⟨q, by simp [hq], h⟩
      · rintro (h | ⟨q, hq, h⟩)
        · exact Or.inl (Or.inl h)
        · rcases List.mem_cons.mp hq with rfl | hq
          · rcases h with ⟨h0, _⟩ | ⟨w, hw, h⟩
            · rw [hs] at h0; cases h0
            · rw [hs] at hw; cases hw; exact Or.inl (Or.inr h)
          · exact Or.inr ⟨q, hq, h⟩

theorem mem_names_advInputs (ins : Inputs) (σ : Sigma) (n : Name) :
    n ∈ names (advInputs ins σ) ↔
      ∃ p ∈ ins, (sget σ p.1 = none ∧ n = p.1) ∨ ∃ v, sget σ p.1 = some v ∧ n ∈ names v.inputs := by
  unfold advInputs; rw [mem_names_advFold]; simp [names]

theorem nodup_advInputs (ins : Inputs) (σ : Sigma) : (names (advInputs ins σ)).Nodup := by
  unfold advInputs
  suffices h : ∀ acc : Inputs, (names acc).Nodup → (names (ins.foldl (advStep σ) acc)).Nodup from
    h [] (by simp [names])
  induction ins with
  | nil => intro acc h; simpa
  | cons p r ih =>
    intro acc h
    simp only [List.foldl_cons]
    apply ih
    unfold advStep
    cases sget σ p.1 with
    | none => exact nodup_odSet _ _ _ h
    | some v => exact nodup_odUpdate _ _ h

/-- Advanced indexing is the simultaneous substitution (numbers and index tensors; in fact any value). -/
theorem advIndex_at {V : Type} (t : NT V) (σ : Sigma) (env : Name → Nat) (ev : List Nat) :
    (advIndex t σ).at env ev = t.at (updEnv env σ) ev := by
  simp only [advIndex, NT.at]
  have hlen : (List.map (fun p => env p.1) (advInputs t.inputs σ)).length = (advInputs t.inputs σ).length := by simp
  rw [← hlen, List.drop_left]
  congr 2
  apply List.map_congr_left
  intro p hp
  have hmap : List.map (fun p => env p.1) (advInputs t.inputs σ) = (names (advInputs t.inputs σ)).map env := by
    simp [names, List.map_map, Function.comp_def]
  simp only [updEnv]
  cases hs : sget σ p.1 with
  | none =>
    simp only []
    rw [hmap]
    exact envOf_map _ env ev p.1 ((mem_names_advInputs _ _ _).mpr ⟨p, hp, Or.inl ⟨hs, rfl⟩⟩)
  | some v =>
    simp only []
    apply SVal.eval_congr
    intro n hn
    rw [hmap]
    exact envOf_map _ env ev n ((mem_names_advInputs _ _ _).mpr ⟨p, hp, Or.inr ⟨v, hs, hn⟩⟩)


/-! ### Pass 2: renaming + slicing -/

/-- The index the renaming pass feeds to axis `k`. -/
def renVal (σ : Sigma) (env : Name → Nat) (k : Name) : Nat :=
  match sget σ k with
  | some (.var x _) => env x
  | some (.slice x a _ s) => a + s * env x
  | _ => env k

theorem applySl_ren (σ : Sigma) (env : Name → Nat) (ev : List Nat) (l : Inputs) :
    applySl (l.map (fun p => (renEntry σ p).2)) (l.map (fun p => env (renEntry σ p).1.1) ++ ev) =
      l.map (fun p => renVal σ env p.1) ++ ev := by
  induction l with
  | nil => simp [applySl]
  | cons p r ih =>
    simp only [List.map_cons, List.cons_append, applySl, ih]
    congr 1
    unfold renEntry renVal
    cases sget σ p.1 with
    | none => rfl
    | some v => cases v <;> rfl

/-- New keys of the renaming pass. -/
def newKeys (ins : Inputs) (σ : Sigma) : Inputs := ins.map (fun p => (renEntry σ p).1)

theorem renamePass_inputs {V : Type} (t : NT V) (σ : Sigma) (hnd : (names (newKeys t.inputs σ)).Nodup) :
    (renamePass t σ).inputs = newKeys t.inputs σ := by
  simp only [renamePass, List.map_map]
  exact odOf_nodup _ hnd

theorem renamePass_shape {V : Type} (t : NT V) (σ : Sigma) (hnd : (names (newKeys t.inputs σ)).Nodup) :
    (renamePass t σ).shape = t.shape := by
  have hi := renamePass_inputs t σ hnd
  simp only [renamePass] at hi ⊢
  rw [hi]
  have : (newKeys t.inputs σ).length = (List.map (fun x => x.1.2) (List.map (renEntry σ) t.inputs)).length := by
    simp [newKeys]
  rw [this, List.drop_left]

/-- Without collisions among the new keys, the renaming pass reads axis `k` at the renamed/sliced index. -/
theorem renamePass_at {V : Type} (t : NT V) (σ : Sigma) (env : Name → Nat) (ev : List Nat)
    (hnd : (names (newKeys t.inputs σ)).Nodup) :
    (renamePass t σ).at env ev = t.data (t.inputs.map (fun p => renVal σ env p.1) ++ ev) := by
  have hi := renamePass_inputs t σ hnd
  simp only [NT.at, hi]
  simp only [renamePass, newKeys, List.map_map, Function.comp_def]
  exact congrArg t.data (applySl_ren σ env ev t.inputs)


/-! ### Lookup lemmas -/

theorem sget_mem {σ : Sigma} {k : Name} {v : SVal} (h : sget σ k = some v) : (k, v) ∈ σ := by
  induction σ with
  | nil => cases h
  | cons p r ih =>
    obtain ⟨k', v'⟩ := p
    simp only [sget] at h
    split at h
    · rename_i e; cases h; subst e; simp
    · exact List.mem_cons_of_mem _ (ih h)

theorem sget_none_iff {σ : Sigma} {k : Name} : sget σ k = none ↔ k ∉ skeys σ := by
  induction σ with
  | nil => simp [sget, skeys]
  | cons p r ih =>
    obtain ⟨k', v'⟩ := p
    simp only [sget, skeys, List.map_cons, List.mem_cons, not_or]
    split
    · rename_i e; subst e; simp
    · rename_i e; simp only [skeys] at ih; rw [ih]; constructor
      · intro h; exact ⟨fun e' => e e'.symm, h⟩
      · exact fun h => h.2

theorem sget_of_mem_nodup {σ : Sigma} {k : Name} {v : SVal} (hn : (skeys σ).Nodup) (h : (k, v) ∈ σ) :
    sget σ k = some v := by
  induction σ with
  | nil => cases h
  | cons p r ih =>
    obtain ⟨k', v'⟩ := p
    simp only [skeys, List.map_cons, List.nodup_cons] at hn
    rcases List.mem_cons.mp h with e | h'
    · cases e; simp [sget]
    · have : k' ≠ k := by
        intro e; subst e
        exact hn.1 (List.mem_map.mpr ⟨(k', v), h', rfl⟩)
      simp only [sget, this, if_false]
      exact ih hn.2 h'

theorem sget_filter_key (f : Name → Bool) (σ : Sigma) (k : Name) :
    sget (σ.filter (fun q => f q.1)) k = if f k = true then sget σ k else none := by
  induction σ with
  | nil => simp [sget]
  | cons p r ih =>
    obtain ⟨k', v'⟩ := p
    by_cases hf : f k' = true
    · simp only [List.filter_cons, hf, if_true, sget]
      by_cases e : k' = k
      · subst e; simp [hf]
      · simp only [e, if_false]; exact ih
    · have hf' : f k' = false := by simpa using hf
      simp only [List.filter_cons, hf', sget, Bool.false_eq_true, if_false]
      by_cases e : k' = k
      · subst e; simp only [if_true]; rw [ih]; simp [hf']
      · simp only [e, if_false]; exact ih

theorem sget_restrictTo (ins : Inputs) (σ : Sigma) (k : Name) :
    sget (restrictTo ins σ) k = if k ∈ names ins then sget σ k else none := by
  have := sget_filter_key (fun n => decide (n ∈ names ins)) σ k
  simpa [restrictTo] using this

theorem sget_dropRen_some {σ : Sigma} {k : Name} {v : SVal} (h : sget σ k = some v) (hv : v.isRen = false) :
    sget (dropRen σ) k = some v := by
  induction σ with
  | nil => cases h
  | cons p r ih =>
    obtain ⟨k', v'⟩ := p
    simp only [sget] at h
    by_cases e : k' = k
    · subst e; simp only [if_true] at h; cases h
      simp [dropRen, hv, sget]
    · simp only [e, if_false] at h
      simp only [dropRen, List.filter_cons]
      split
      · simp only [sget, e, if_false]; exact ih h
      · exact ih h

theorem mem_dropRen {σ : Sigma} {q : Name × SVal} : q ∈ dropRen σ ↔ q ∈ σ ∧ q.2.isRen = false := by
  simp [dropRen, List.mem_filter]

theorem inj_of_nodup_map {α β : Type} (f : α → β) : ∀ l : List α, (l.map f).Nodup →
    ∀ a ∈ l, ∀ b ∈ l, f a = f b → a = b := by
  intro l
  induction l with
  | nil => intro _ a ha; cases ha
  | cons x l ih =>
    intro hn a ha b hb e
    simp only [List.map_cons, List.nodup_cons, List.mem_map, not_exists, not_and] at hn
    rcases List.mem_cons.mp ha with rfl | ha' <;> rcases List.mem_cons.mp hb with rfl | hb'
    · rfl
    · exact absurd e.symm (hn.1 b hb')
    · exact absurd e (hn.1 a ha')
    · exact ih hn.2 a ha' b hb' e

theorem NT.at_congr {V : Type} (t : NT V) (e1 e2 : Name → Nat) (ev : List Nat)
    (h : ∀ n ∈ names t.inputs, e1 n = e2 n) : t.at e1 ev = t.at e2 ev := by
  simp only [NT.at]
  congr 2
  apply List.map_congr_left
  intro p hp
  exact h p.1 (List.mem_map.mpr ⟨p, hp, rfl⟩)


/-! ### Renaming pass followed by the recursive call -/

theorem renEntry_nonren (σ : Sigma) (p : Name × Nat)
    (h : ∀ v, sget σ p.1 = some v → v.isRen = false) : (renEntry σ p).1 = p := by
  unfold renEntry
  cases hs : sget σ p.1 with
  | none => rfl
  | some v =>
    have := h v hs
    cases v <;> simp_all [SVal.isRen]

theorem names_newKeys (ins : Inputs) (σ : Sigma) :
    names (newKeys ins σ) = ins.map (fun p => (renEntry σ p).1.1) := by
  simp [names, newKeys, List.map_map, Function.comp_def]

theorem updEnv_nil (env : Name → Nat) : updEnv env [] = env := by
  funext n; simp [updEnv, sget]

/-- Pass 2 then the recursive call (pass 3 on what is left) is the simultaneous substitution, provided the
    new keys of the renaming pass do not collide. -/
theorem renThenIdx_at {V : Type} (t : NT V) (σ2 : Sigma) (env : Name → Nat) (ev : List Nat)
    (hk : (skeys σ2).Nodup) (hsub : ∀ k ∈ skeys σ2, k ∈ names t.inputs)
    (hnd : (names (newKeys t.inputs σ2)).Nodup) :
    (eagerSubsIdx (renamePass t σ2) (dropRen σ2)).at env ev = t.at (updEnv env σ2) ev := by
  have hti := renamePass_inputs t σ2 hnd
  have h1 : (eagerSubsIdx (renamePass t σ2) (dropRen σ2)).at env ev =
      (renamePass t σ2).at (updEnv env (restrictTo (renamePass t σ2).inputs (dropRen σ2))) ev := by
    unfold eagerSubsIdx
    simp only []
    split
    · rename_i he
      have : restrictTo (renamePass t σ2).inputs (dropRen σ2) = [] := by simpa using he
      rw [this, updEnv_nil]
    · exact advIndex_at _ _ _ _
  rw [h1, renamePass_at t σ2 _ ev hnd]
  generalize hσ3 : restrictTo (renamePass t σ2).inputs (dropRen σ2) = σ3
  -- facts about what is left for the recursive call
  have F1 : ∀ x w, sget σ3 x = some w → sget σ2 x = some w ∧ w.isRen = false := by
    intro x w h
    rw [← hσ3, sget_restrictTo] at h
    split at h
    · have hm := mem_dropRen.mp (sget_mem h)
      exact ⟨sget_of_mem_nodup hk hm.1, hm.2⟩
    · cases h
  have F2 : ∀ p ∈ t.inputs, ∀ v, sget σ2 p.1 = some v → v.isRen = false → sget σ3 p.1 = some v := by
    intro p hp v hv hr
    rw [← hσ3, sget_restrictTo, hti]
    have hmem : p.1 ∈ names (newKeys t.inputs σ2) := by
      rw [names_newKeys]
      refine List.mem_map.mpr ⟨p, hp, ?_⟩
      rw [renEntry_nonren σ2 p (by intro v' hv'; rw [hv] at hv'; cases hv'; exact hr)]
    simp only [hmem, if_true]
    exact sget_dropRen_some hv hr
  have F3 : ∀ k, sget σ2 k = none → sget σ3 k = none := by
    intro k h
    cases h3 : sget σ3 k with
    | none => rfl
    | some w => rw [(F1 k w h3).1] at h; cases h
  -- a renamed-to name is not a key of what is left
  have F4 : ∀ p ∈ t.inputs, ∀ v x, sget σ2 p.1 = some v → v.target? = some x → sget σ3 x = none := by
    intro p hp v x hv hx
    cases h3 : sget σ3 x with
    | none => rfl
    | some w =>
      exfalso
      obtain ⟨hw, hwr⟩ := F1 x w h3
      have hxk : x ∈ skeys σ2 := by
        have := sget_mem hw
        exact List.mem_map.mpr ⟨(x, w), this, rfl⟩
      obtain ⟨q, hq, hqx⟩ := List.mem_map.mp (hsub x hxk)
      have hqn : (renEntry σ2 q).1.1 = x := by
        rw [renEntry_nonren σ2 q (by intro v' hv'; rw [hqx, hw] at hv'; cases hv'; exact hwr)]; exact hqx
      have hpn : (renEntry σ2 p).1.1 = x := by
        unfold renEntry; rw [hv]
        cases v <;> simp_all [SVal.target?]
      have hnd' := hnd
      rw [names_newKeys] at hnd'
      have hqp := inj_of_nodup_map _ t.inputs hnd' q hq p hp (hqn.trans hpn.symm)
      subst hqp
      rw [hqx, hw] at hv
      have hwv : w = v := Option.some.inj hv
      rw [hwv] at hwr
      cases v <;> simp_all [SVal.target?, SVal.isRen]
  simp only [NT.at]
  congr 2
  apply List.map_congr_left
  intro p hp
  simp only [renVal, updEnv]
  cases hv : sget σ2 p.1 with
  | none => simp only [F3 _ hv]
  | some v =>
    cases v with
    | num n => simp only [F2 p hp _ hv rfl, SVal.eval]
    | tensor w => simp only [F2 p hp _ hv rfl]
    | var x d => simp only [F4 p hp _ x hv rfl, SVal.eval]
    | slice x a b s => simp only [F4 p hp _ x hv rfl, SVal.eval]


/-! ### The whole method, for any materialization policy that is semantically neutral and leaves no collision -/

/-- What pass 1 must establish for passes 2–3 to be right. -/
structure MatOK (ins : Inputs) (σ σ2 : Sigma) : Prop where
  keys : skeys σ2 = skeys σ
  sem : ∀ k env, (sget σ2 k).map (fun v => v.eval env) = (sget σ k).map (fun v => v.eval env)
  nocoll : σ2.any (fun p => p.2.isRen) = true → (names (newKeys ins σ2)).Nodup

theorem updEnv_congr_sem (σ σ2 : Sigma) (env : Name → Nat)
    (h : ∀ k env, (sget σ2 k).map (fun v => v.eval env) = (sget σ k).map (fun v => v.eval env)) :
    updEnv env σ2 = updEnv env σ := by
  funext n
  have := h n env
  simp only [updEnv]
  cases h2 : sget σ2 n <;> cases h1 : sget σ n <;> simp_all

theorem skeys_restrictTo_sub (ins : Inputs) (σ : Sigma) : ∀ k ∈ skeys (restrictTo ins σ), k ∈ names ins := by
  intro k hk
  obtain ⟨q, hq, rfl⟩ := List.mem_map.mp hk
  have := (List.mem_filter.mp hq).2
  simpa using this

theorem nodup_skeys_restrictTo (ins : Inputs) (σ : Sigma) (h : (skeys σ).Nodup) :
    (skeys (restrictTo ins σ)).Nodup := by
  unfold skeys restrictTo
  exact (List.Nodup.sublist ((List.filter_sublist).map _) h)

theorem eagerSubsWith_at {V : Type} (mat : Inputs → Sigma → Sigma) (t : NT V) (σ0 : Sigma)
    (env : Name → Nat) (ev : List Nat) (hk : (skeys σ0).Nodup)
    (hmat : MatOK t.inputs (restrictTo t.inputs σ0) (mat t.inputs (restrictTo t.inputs σ0))) :
    (eagerSubsWith mat t σ0).at env ev = t.at (updEnv env σ0) ev := by
  -- only the keys that are inputs matter
  have hres : t.at (updEnv env σ0) ev = t.at (updEnv env (restrictTo t.inputs σ0)) ev := by
    apply NT.at_congr
    intro n hn
    simp only [updEnv, sget_restrictTo, hn, if_true]
  rw [hres]
  generalize hσ : restrictTo t.inputs σ0 = σ at hmat
  have hkσ : (skeys σ).Nodup := hσ ▸ nodup_skeys_restrictTo _ _ hk
  have hsub : ∀ k ∈ skeys σ, k ∈ names t.inputs := hσ ▸ skeys_restrictTo_sub _ _
  unfold eagerSubsWith
  simp only [hσ]
  split
  · rename_i he
    have : σ = [] := by simpa using he
    rw [this, updEnv_nil]
  · split
    · rename_i hany
      rw [renThenIdx_at t _ env ev (hmat.keys ▸ hkσ) (by rw [hmat.keys]; exact hsub) (hmat.nocoll hany)]
      rw [updEnv_congr_sem _ _ env hmat.sem]
    · rw [advIndex_at]
      apply NT.at_congr
      intro n _
      have := hmat.sem n env
      simp only [updEnv]
      have hm : sget (List.map (fun p => (p.1, p.2.materialize)) (mat t.inputs σ)) n =
          (sget (mat t.inputs σ) n).map SVal.materialize := by
        generalize mat t.inputs σ = l
        induction l with
        | nil => rfl
        | cons p r ih => simp only [List.map_cons, sget]; split <;> simp_all
      rw [hm]
      cases h2 : sget (mat t.inputs σ) n <;> cases h1 : sget σ n <;> simp_all [materialize_eval]

/-! ### Pass 1: the `kept` fix-point -/

theorem clashes_mem (σ : Sigma) (tg kept : List Name) (c : Name) :
    c ∈ clashes σ tg kept ↔
      ∃ v x, (c, v) ∈ σ ∧ v.target? = some x ∧ c ∉ kept ∧ (tg.count x > 1 ∨ x ∈ kept) := by
  unfold clashes
  simp only [List.mem_filterMap]
  constructor
  · rintro ⟨⟨k, v⟩, hm, h⟩
    cases ht : v.target? with
    | none => simp [ht] at h
    | some x =>
      simp only [ht] at h
      split at h
      · rename_i hc; cases h; exact ⟨v, x, hm, ht, hc.1, hc.2⟩
      · cases h
  · rintro ⟨v, x, hm, ht, hc1, hc2⟩
    exact ⟨(c, v), hm, by simp [ht, hc1, hc2]⟩

theorem keptLoop_mono (σ : Sigma) (tg : List Name) (fuel : Nat) (kept : List Name) (k : Name) (h : k ∈ kept) :
    k ∈ keptLoop σ tg fuel kept := by
  induction fuel generalizing kept with
  | zero => exact h
  | succ n ih =>
    unfold keptLoop
    split
    · exact h
    · exact ih _ (List.mem_append_left _ h)

theorem filter_length_lt {α : Type} (l : List α) (p q : α → Bool) (hqp : ∀ a, q a = true → p a = true)
    (c : α) (hc : c ∈ l) (hpc : p c = true) (hqc : q c = false) :
    (l.filter q).length < (l.filter p).length := by
  induction l with
  | nil => cases hc
  | cons a l ih =>
    have hle : (l.filter q).length ≤ (l.filter p).length := by
      clear ih hc
      induction l with
      | nil => simp
      | cons b l ihl =>
        simp only [List.filter_cons]
        cases hq : q b
        · cases hp : p b <;> simp <;> omega
        · simp [hqp b hq]; omega
    rcases List.mem_cons.mp hc with rfl | hc'
    · simp only [List.filter_cons, hpc, hqc, if_true, Bool.false_eq_true, if_false, List.length_cons]; omega
    · have := ih hc'
      simp only [List.filter_cons]
      cases hq : q a
      · cases hp : p a <;> simp <;> omega
      · simp [hqp a hq]; omega

/-- The `while True` loop has reached its fix-point after at most `len(subs)` rounds. -/
theorem keptLoop_stable (σ : Sigma) (tg : List Name) : ∀ (fuel : Nat) (kept : List Name),
    ((skeys σ).filter (fun k => decide (k ∉ kept))).length ≤ fuel →
    clashes σ tg (keptLoop σ tg fuel kept) = [] := by
  intro fuel
  induction fuel with
  | zero =>
    intro kept h
    simp only [keptLoop]
    apply List.eq_nil_iff_forall_not_mem.mpr
    intro c hc
    obtain ⟨v, x, hm, _, hnk, _⟩ := (clashes_mem σ tg kept c).mp hc
    have : c ∈ (skeys σ).filter (fun k => decide (k ∉ kept)) :=
      List.mem_filter.mpr ⟨List.mem_map.mpr ⟨(c, v), hm, rfl⟩, by simpa using hnk⟩
    have hl := List.length_pos_of_mem this
    omega
  | succ n ih =>
    intro kept h
    unfold keptLoop
    split
    · assumption
    · rename_i c cs hc
      apply ih
      have hcm : c ∈ clashes σ tg kept := by rw [hc]; simp
      obtain ⟨v, x, hm, _, hnk, _⟩ := (clashes_mem σ tg kept c).mp hcm
      have := filter_length_lt (skeys σ) (fun k => decide (k ∉ kept)) (fun k => decide (k ∉ kept ++ c :: cs))
        (by intro a; simp; intro h1 _ _; exact h1) c (List.mem_map.mpr ⟨(c, v), hm, rfl⟩) (by simpa using hnk) (by simp)
      omega

theorem keptOf_stable (ins : Inputs) (σ : Sigma) : clashes σ (targets σ) (keptOf ins σ) = [] := by
  unfold keptOf
  apply keptLoop_stable
  calc _ ≤ (skeys σ).length := List.length_filter_le _ _
    _ = σ.length := by simp [skeys]

theorem kept0_sub_keptOf (ins : Inputs) (σ : Sigma) (k : Name) (h : k ∈ kept0 ins σ) : k ∈ keptOf ins σ :=
  keptLoop_mono _ _ _ _ _ h

/-- Outside `kept`: a renaming whose target is counted once and is not itself kept. -/
theorem not_kept_spec (ins : Inputs) (σ : Sigma) (k : Name) (hk : k ∈ names ins) (hn : k ∉ keptOf ins σ) :
    ∃ v x, sget σ k = some v ∧ v.target? = some x ∧ (targets σ).count x ≤ 1 ∧ x ∉ keptOf ins σ := by
  have h0 : k ∉ kept0 ins σ := fun h => hn (kept0_sub_keptOf ins σ k h)
  simp only [kept0, List.mem_filter, not_and] at h0
  have h0 := h0 hk
  cases hs : sget σ k with
  | none => simp [hs] at h0
  | some v =>
    simp only [hs] at h0
    have hr : v.isRen = true := by simpa using h0
    obtain ⟨x, hx⟩ : ∃ x, v.target? = some x := by
      cases v <;> simp_all [SVal.isRen, SVal.target?]
    have hst := keptOf_stable ins σ
    have hnc : k ∉ clashes σ (targets σ) (keptOf ins σ) := by rw [hst]; simp
    rw [clashes_mem] at hnc
    refine ⟨v, x, rfl, hx, ?_, ?_⟩
    · apply Nat.le_of_not_lt; intro hgt
      exact hnc ⟨v, x, sget_mem hs, hx, hn, Or.inl hgt⟩
    · intro hxk
      exact hnc ⟨v, x, sget_mem hs, hx, hn, Or.inr hxk⟩

theorem one_target (σ : Sigma) (k : Name) (v : SVal) (x : Name) (hm : (k, v) ∈ σ) (hx : v.target? = some x) :
    1 ≤ (targets σ).count x := by
  apply List.count_pos_iff.mpr
  exact List.mem_filterMap.mpr ⟨(k, v), hm, hx⟩

theorem two_targets (σ : Sigma) (k1 k2 : Name) (v1 v2 : SVal) (x : Name) (h1 : (k1, v1) ∈ σ) (h2 : (k2, v2) ∈ σ)
    (hne : k1 ≠ k2) (hx1 : v1.target? = some x) (hx2 : v2.target? = some x) : 2 ≤ (targets σ).count x := by
  induction σ with
  | nil => cases h1
  | cons p r ih =>
    have hmono : (targets r).count x ≤ (targets (p :: r)).count x := by
      unfold targets
      simp only [List.filterMap_cons]
      split
      · exact Nat.le_refl _
      · simp only [List.count_cons]; omega
    rcases List.mem_cons.mp h1 with e1 | h1' <;> rcases List.mem_cons.mp h2 with e2 | h2'
    · exfalso; rw [← e1] at e2; cases e2; exact hne rfl
    · have := one_target r k2 v2 x h2' hx2
      subst e1
      unfold targets at this ⊢
      simp only [List.filterMap_cons, hx1, List.count_cons, beq_self_eq_true, if_true]; omega
    · have := one_target r k1 v1 x h1' hx1
      subst e2
      unfold targets at this ⊢
      simp only [List.filterMap_cons, hx2, List.count_cons, beq_self_eq_true, if_true]; omega
    · exact Nat.le_trans (ih h1' h2') hmono


/-! ### HEAD's materialization policy establishes `MatOK` -/

theorem sget_map_val (g : Name → SVal → SVal) (σ : Sigma) (k : Name) :
    sget (σ.map (fun p => (p.1, g p.1 p.2))) k = (sget σ k).map (g k) := by
  induction σ with
  | nil => rfl
  | cons p r ih =>
    simp only [List.map_cons, sget]
    split
    · rename_i e; subst e; rfl
    · exact ih

theorem nodup_map_of_inj_on {α β : Type} (f : α → β) : ∀ l : List α, l.Nodup →
    (∀ a ∈ l, ∀ b ∈ l, f a = f b → a = b) → (l.map f).Nodup := by
  intro l
  induction l with
  | nil => intro _ _; simp
  | cons x l ih =>
    intro hn hinj
    simp only [List.nodup_cons] at hn
    simp only [List.map_cons, List.nodup_cons, List.mem_map, not_exists, not_and]
    refine ⟨?_, ih hn.2 (fun a ha b hb => hinj a (List.mem_cons_of_mem _ ha) b (List.mem_cons_of_mem _ hb))⟩
    intro a ha e
    have := hinj a (List.mem_cons_of_mem _ ha) x (by simp) e
    subst this
    exact hn.1 ha

theorem nodup_of_nodup_map {α β : Type} (f : α → β) : ∀ l : List α, (l.map f).Nodup → l.Nodup := by
  intro l
  induction l with
  | nil => intro _; simp
  | cons x l ih =>
    intro h
    simp only [List.map_cons, List.nodup_cons, List.mem_map, not_exists, not_and] at h
    exact List.nodup_cons.mpr ⟨fun hx => h.1 x hx rfl, ih h.2⟩

theorem matFixed_sget (ins : Inputs) (σ : Sigma) (k : Name) :
    sget (matFixed ins σ) k =
      (sget σ k).map (fun v => if k ∈ keptOf ins σ ∧ v.isRen = true then v.materialize else v) := by
  unfold matFixed
  exact sget_map_val (fun k v => if k ∈ keptOf ins σ ∧ v.isRen = true then v.materialize else v) σ k

theorem matFixed_ok (ins : Inputs) (σ : Sigma) (hins : (names ins).Nodup) : MatOK ins σ (matFixed ins σ) where
  keys := by simp [matFixed, skeys, List.map_map, Function.comp_def]
  sem := by
    intro k env
    rw [matFixed_sget]
    cases sget σ k with
    | none => rfl
    | some v =>
      simp only [Option.map_some]
      split
      · rw [materialize_eval]
      · rfl
  nocoll := by
    intro _
    rw [names_newKeys]
    have hnd : ins.Nodup := nodup_of_nodup_map _ _ hins
    -- new key of an input, by cases on membership in `kept`
    have hA : ∀ p ∈ ins, p.1 ∈ keptOf ins σ → (renEntry (matFixed ins σ) p).1.1 = p.1 := by
      intro p _ hk
      rw [renEntry_nonren]
      intro v hv
      rw [matFixed_sget] at hv
      cases hs : sget σ p.1 with
      | none => rw [hs] at hv; cases hv
      | some w =>
        rw [hs] at hv
        simp only [Option.map_some, Option.some.injEq] at hv
        by_cases hr : w.isRen = true
        · simp only [hk, hr, and_self, if_true] at hv
          rw [← hv]; exact materialize_not_ren w
        · simp only [hr] at hv
          rw [← hv]; simpa using hr
    have hB : ∀ p ∈ ins, p.1 ∉ keptOf ins σ →
        ∃ v x, sget σ p.1 = some v ∧ v.target? = some x ∧ (targets σ).count x ≤ 1 ∧ x ∉ keptOf ins σ ∧
          (renEntry (matFixed ins σ) p).1.1 = x := by
      intro p hp hk
      obtain ⟨v, x, hs, hx, hc, hxk⟩ := not_kept_spec ins σ p.1 (List.mem_map.mpr ⟨p, hp, rfl⟩) hk
      refine ⟨v, x, hs, hx, hc, hxk, ?_⟩
      unfold renEntry
      rw [matFixed_sget, hs]
      simp only [Option.map_some, hk, false_and, if_false]
      cases v <;> simp_all [SVal.target?]
    apply nodup_map_of_inj_on _ _ hnd
    intro p hp q hq e
    have hname : p.1 = q.1 := by
      by_cases hpk : p.1 ∈ keptOf ins σ <;> by_cases hqk : q.1 ∈ keptOf ins σ
      · rw [hA p hp hpk, hA q hq hqk] at e; exact e
      · obtain ⟨v, x, _, _, _, hxk, hx⟩ := hB q hq hqk
        rw [hA p hp hpk, hx] at e
        exact absurd (e ▸ hpk) hxk
      · obtain ⟨v, x, _, _, _, hxk, hx⟩ := hB p hp hpk
        rw [hA q hq hqk, hx] at e
        exact absurd (e ▸ hqk) hxk
      · obtain ⟨v1, x1, hs1, ht1, hc1, _, hx1⟩ := hB p hp hpk
        obtain ⟨v2, x2, hs2, ht2, _, _, hx2⟩ := hB q hq hqk
        rw [hx1, hx2] at e
        subst e
        apply Classical.byContradiction
        intro hne
        have := two_targets σ p.1 q.1 v1 v2 x1 (sget_mem hs1) (sget_mem hs2) hne ht1 ht2
        omega
    exact inj_of_nodup_map (fun p : Name × Nat => p.1) ins hins p hp q hq hname

/-! ### tensor_subs_sem -/

/-- **`Tensor.eager_subs` is the simultaneous substitution.**  For every tensor with distinct input names and
    every substitution with distinct keys over {number, variable (fresh, colliding with a surviving input,
    swapped, repeated/diagonal, chained), slice, index tensor with arbitrary inputs}: the value of the result at
    any point is the value of the tensor at the point updated, simultaneously, with every value of σ taken at
    that same point. -/
theorem tensor_subs_sem {V : Type} (t : NT V) (σ : Sigma) (env : Name → Nat) (ev : List Nat)
    (hins : (names t.inputs).Nodup) (hk : (skeys σ).Nodup) :
    (eagerSubs t σ).at env ev = t.at (updEnv env σ) ev :=
  eagerSubsWith_at matFixed t σ env ev hk (matFixed_ok _ _ hins)


/-! ### The inputs clause -/

/-- What input `p` of the tensor contributes to the result's inputs under σ. -/
def Contrib (σ : Sigma) (p : Name × Nat) (n : Name) : Prop :=
  (sget σ p.1 = none ∧ n = p.1) ∨ ∃ v, sget σ p.1 = some v ∧ n ∈ names v.inputs

theorem names_eagerSubsIdx {V : Type} (t : NT V) (σ : Sigma) (n : Name) :
    n ∈ names (eagerSubsIdx t σ).inputs ↔ ∃ q ∈ t.inputs, Contrib (restrictTo t.inputs σ) q n := by
  unfold eagerSubsIdx
  simp only []
  split
  · rename_i he
    have : restrictTo t.inputs σ = [] := by simpa using he
    rw [this]
    simp only [Contrib, sget, true_and, reduceCtorEq, false_and, exists_false, or_false, names, List.mem_map]
    constructor
    · rintro ⟨q, hq, rfl⟩; exact ⟨q, hq, rfl⟩
    · rintro ⟨q, hq, rfl⟩; exact ⟨q, hq, rfl⟩
  · simp only [advIndex]
    exact mem_names_advInputs _ _ _

/-- The facts about what is left for the recursive call after the renaming pass. -/
theorem recFacts {V : Type} (t : NT V) (σ2 : Sigma)
    (hk : (skeys σ2).Nodup) (hsub : ∀ k ∈ skeys σ2, k ∈ names t.inputs)
    (hnd : (names (newKeys t.inputs σ2)).Nodup) :
    let σ3 := restrictTo (renamePass t σ2).inputs (dropRen σ2)
    (∀ p ∈ t.inputs, ∀ v, sget σ2 p.1 = some v → v.isRen = false → sget σ3 p.1 = some v) ∧
    (∀ k, sget σ2 k = none → sget σ3 k = none) ∧
    (∀ p ∈ t.inputs, ∀ v x, sget σ2 p.1 = some v → v.target? = some x → sget σ3 x = none) := by
  intro σ3
  have hti := renamePass_inputs t σ2 hnd
  have F1 : ∀ x w, sget σ3 x = some w → sget σ2 x = some w ∧ w.isRen = false := by
    intro x w h
    simp only [σ3, sget_restrictTo] at h
    split at h
    · have hm := mem_dropRen.mp (sget_mem h)
      exact ⟨sget_of_mem_nodup hk hm.1, hm.2⟩
    · cases h
  refine ⟨?_, ?_, ?_⟩
  · intro p hp v hv hr
    simp only [σ3, sget_restrictTo, hti]
    have hmem : p.1 ∈ names (newKeys t.inputs σ2) := by
      rw [names_newKeys]
      refine List.mem_map.mpr ⟨p, hp, ?_⟩
      rw [renEntry_nonren σ2 p (by intro v' hv'; rw [hv] at hv'; cases hv'; exact hr)]
    simp only [hmem, if_true]
    exact sget_dropRen_some hv hr
  · intro k h
    cases h3 : sget σ3 k with
    | none => rfl
    | some w => rw [(F1 k w h3).1] at h; cases h
  · intro p hp v x hv hx
    cases h3 : sget σ3 x with
    | none => rfl
    | some w =>
      exfalso
      obtain ⟨hw, hwr⟩ := F1 x w h3
      have hxk : x ∈ skeys σ2 := List.mem_map.mpr ⟨(x, w), sget_mem hw, rfl⟩
      obtain ⟨q, hq, hqx⟩ := List.mem_map.mp (hsub x hxk)
      have hqn : (renEntry σ2 q).1.1 = x := by
        rw [renEntry_nonren σ2 q (by intro v' hv'; rw [hqx, hw] at hv'; cases hv'; exact hwr)]; exact hqx
      have hpn : (renEntry σ2 p).1.1 = x := by
        unfold renEntry; rw [hv]
        cases v <;> simp_all [SVal.target?]
      have hnd' := hnd
      rw [names_newKeys] at hnd'
      have hqp := inj_of_nodup_map _ t.inputs hnd' q hq p hp (hqn.trans hpn.symm)
      subst hqp
      rw [hqx, hw] at hv
      have hwv : w = v := Option.some.inj hv
      rw [hwv] at hwr
      cases v <;> simp_all [SVal.target?, SVal.isRen]

theorem eagerSubsWith_inputs {V : Type} (mat : Inputs → Sigma → Sigma) (t : NT V) (σ0 : Sigma)
    (_hins : (names t.inputs).Nodup) (hk : (skeys σ0).Nodup)
    (hmat : MatOK t.inputs (restrictTo t.inputs σ0) (mat t.inputs (restrictTo t.inputs σ0)))
    (hmi : ∀ k, (sget (mat t.inputs (restrictTo t.inputs σ0)) k).map (fun v => names v.inputs) =
                (sget (restrictTo t.inputs σ0) k).map (fun v => names v.inputs)) (n : Name) :
    n ∈ names (eagerSubsWith mat t σ0).inputs ↔ ∃ p ∈ t.inputs, Contrib σ0 p n := by
  -- restricting σ0 to the inputs changes no contribution
  have hres : ∀ p ∈ t.inputs, (Contrib σ0 p n ↔ Contrib (restrictTo t.inputs σ0) p n) := by
    intro p hp
    have : p.1 ∈ names t.inputs := List.mem_map.mpr ⟨p, hp, rfl⟩
    simp only [Contrib, sget_restrictTo, this, if_true]
  have hres' : (∃ p ∈ t.inputs, Contrib σ0 p n) ↔ ∃ p ∈ t.inputs, Contrib (restrictTo t.inputs σ0) p n := by
    constructor <;> rintro ⟨p, hp, h⟩
    · exact ⟨p, hp, (hres p hp).mp h⟩
    · exact ⟨p, hp, (hres p hp).mpr h⟩
  rw [hres']
  generalize hσ : restrictTo t.inputs σ0 = σ at hmat hmi
  have hkσ : (skeys σ).Nodup := hσ ▸ nodup_skeys_restrictTo _ _ hk
  have hsub : ∀ k ∈ skeys σ, k ∈ names t.inputs := hσ ▸ skeys_restrictTo_sub _ _
  -- contributions are the same under σ and under the materialized σ2
  have hc2 : ∀ p, Contrib (mat t.inputs σ) p n ↔ Contrib σ p n := by
    intro p
    have := hmi p.1
    simp only [Contrib]
    cases h2 : sget (mat t.inputs σ) p.1 <;> cases h1 : sget σ p.1 <;> simp_all
  unfold eagerSubsWith
  simp only [hσ]
  split
  · rename_i he
    have : σ = [] := by simpa using he
    subst this
    simp only [Contrib, sget, true_and, reduceCtorEq, false_and, exists_false, or_false, names, List.mem_map]
    constructor <;> (rintro ⟨q, hq, rfl⟩; exact ⟨q, hq, rfl⟩)
  · split
    · rename_i hany
      have hk2 : (skeys (mat t.inputs σ)).Nodup := hmat.keys ▸ hkσ
      have hsub2 : ∀ k ∈ skeys (mat t.inputs σ), k ∈ names t.inputs := by rw [hmat.keys]; exact hsub
      have hnd := hmat.nocoll hany
      have hti := renamePass_inputs t (mat t.inputs σ) hnd
      rw [names_eagerSubsIdx]
      obtain ⟨F2, F3, F4⟩ := recFacts t (mat t.inputs σ) hk2 hsub2 hnd
      rw [hti]
      -- per input
      have hper : ∀ p ∈ t.inputs,
          (Contrib (restrictTo (newKeys t.inputs (mat t.inputs σ)) (dropRen (mat t.inputs σ)))
              (renEntry (mat t.inputs σ) p).1 n ↔ Contrib σ p n) := by
        intro p hp
        rw [← hc2 p, ← hti]
        simp only [Contrib]
        cases hv : sget (mat t.inputs σ) p.1 with
        | none =>
          rw [renEntry_nonren _ p (by intro v hv'; rw [hv] at hv'; cases hv')]
          simp [F3 _ hv]
        | some v =>
          cases v with
          | num m =>
            rw [renEntry_nonren _ p (by intro v hv'; rw [hv] at hv'; cases hv'; rfl)]
            simp [F2 p hp _ hv rfl]
          | tensor w =>
            rw [renEntry_nonren _ p (by intro v hv'; rw [hv] at hv'; cases hv'; rfl)]
            simp [F2 p hp _ hv rfl]
          | var x d =>
            have : (renEntry (mat t.inputs σ) p).1 = (x, p.2) := by unfold renEntry; rw [hv]
            rw [this]
            simp [F4 p hp _ x hv rfl, SVal.inputs, names]
          | slice x a b s =>
            have : (renEntry (mat t.inputs σ) p).1 = (x, sliceLen a b s) := by unfold renEntry; rw [hv]
            rw [this]
            simp [F4 p hp _ x hv rfl, SVal.inputs, names]
      constructor
      · rintro ⟨q, hq, h⟩
        obtain ⟨p, hp, rfl⟩ := List.mem_map.mp hq
        exact ⟨p, hp, (hper p hp).mp h⟩
      · rintro ⟨p, hp, h⟩
        exact ⟨_, List.mem_map.mpr ⟨p, hp, rfl⟩, (hper p hp).mpr h⟩
    · simp only [advIndex]
      rw [mem_names_advInputs]
      have hm : ∀ k, sget (List.map (fun p => (p.1, p.2.materialize)) (mat t.inputs σ)) k =
          (sget (mat t.inputs σ) k).map SVal.materialize := by
        intro k
        generalize mat t.inputs σ = l
        induction l with
        | nil => rfl
        | cons p r ih => simp only [List.map_cons, sget]; split <;> simp_all
      constructor <;> rintro ⟨p, hp, h⟩ <;> refine ⟨p, hp, ?_⟩
      · rw [← hc2 p]
        simp only [Contrib, hm] at h ⊢
        cases h2 : sget (mat t.inputs σ) p.1 <;> simp_all [materialize_inputs]
      · rw [← hc2 p] at h
        simp only [Contrib, hm] at h ⊢
        cases h2 : sget (mat t.inputs σ) p.1 <;> simp_all [materialize_inputs]

/-- **The inputs clause**: the inputs of `t(**σ)` are t's unsubstituted inputs together with the inputs of the
    substituted values — exactly these (each name once). -/
theorem tensor_subs_inputs {V : Type} (t : NT V) (σ : Sigma) (hins : (names t.inputs).Nodup)
    (hk : (skeys σ).Nodup) (n : Name) :
    n ∈ names (eagerSubs t σ).inputs ↔
      (n ∈ names t.inputs ∧ sget σ n = none) ∨
      ∃ k v, k ∈ names t.inputs ∧ sget σ k = some v ∧ n ∈ names v.inputs := by
  have h := eagerSubsWith_inputs matFixed t σ hins hk (matFixed_ok _ _ hins)
    (by
      intro k
      rw [matFixed_sget]
      cases sget (restrictTo t.inputs σ) k with
      | none => rfl
      | some v => simp only [Option.map_some]; split <;> simp [materialize_inputs]) n
  unfold eagerSubs
  rw [h]
  simp only [Contrib]
  constructor
  · rintro ⟨p, hp, (⟨h0, rfl⟩ | ⟨v, hv, hn⟩)⟩
    · exact Or.inl ⟨List.mem_map.mpr ⟨p, hp, rfl⟩, h0⟩
    · exact Or.inr ⟨p.1, v, List.mem_map.mpr ⟨p, hp, rfl⟩, hv, hn⟩
  · rintro (⟨hn, h0⟩ | ⟨k, v, hk', hv, hn⟩)
    · obtain ⟨p, hp, rfl⟩ := List.mem_map.mp hn
      exact ⟨p, hp, Or.inl ⟨h0, rfl⟩⟩
    · obtain ⟨p, hp, rfl⟩ := List.mem_map.mp hk'
      exact ⟨p, hp, Or.inr ⟨v, hv, hn⟩⟩


/-! ### What a revert looks like: the pre-fix diagonal handling on a 2×2 tensor -/

/-- `t[i, j] = 1 + 2 i + j` over `i, j : Bint[2]`. -/
def w22 : NT Nat := ⟨[("i", 2), ("j", 2)], [], fun idx => match idx with | [a, b] => 1 + 2 * a + b | _ => 0⟩

/-- `t(j='i')`: the renamed-to name is a surviving input. -/
def wσ1 : Sigma := [("j", SVal.var "i" 2)]
/-- `t(i='k', j=Slice('k', 0, 2, 1))`: a variable and a slice onto the same fresh name (a7b9cd2). -/
def wσ2 : Sigma := [("i", SVal.var "k" 2), ("j", SVal.slice "k" 0 2 1)]
/-- `t3(l='i', j='l')` with `i` surviving, a chain (93ae599), on a 2×2×2 tensor. -/
def w222 : NT Nat := ⟨[("i", 2), ("j", 2), ("l", 2)], [], fun idx => match idx with | [a, b, c] => 1 + 4 * a + 2 * b + c | _ => 0⟩
def wσ3 : Sigma := [("l", SVal.var "i" 2), ("j", SVal.var "l" 2)]

def envI (i : Nat) : Name → Nat := fun n => if n = "i" then i else 0

/-- On the pinned tree the renaming pass overwrote the surviving key: the result has ONE input for TWO
    positional axes (a batch dimension became an event dimension: shape [2] instead of []), and its value at
    `i = 1` is not `t[1, 1] = 4` — the statement of `tensor_subs_sem` and the inputs clause both fail. -/
theorem tensor_subs_collision_witness :
    (eagerSubsPre w22 wσ1).inputs = [("i", 2)] ∧ (eagerSubsPre w22 wσ1).shape = [2] ∧
    (eagerSubsPre w22 wσ1).at (envI 1) [] ≠ w22.at (updEnv (envI 1) wσ1) [] ∧
    -- HEAD: the diagonal
    (eagerSubs w22 wσ1).inputs = [("i", 2)] ∧ (eagerSubs w22 wσ1).shape = [] ∧
    (eagerSubs w22 wσ1).at (envI 1) [] = 4 ∧ w22.at (updEnv (envI 1) wσ1) [] = 4 := by
  decide

/-- The two later fixes, same shape of failure: variable + slice onto one name; a chain through a kept input. -/
theorem tensor_subs_collision_witness_slice :
    (eagerSubsPre w22 wσ2).inputs = [("k", 2)] ∧ (eagerSubsPre w22 wσ2).shape = [2] ∧
    (eagerSubs w22 wσ2).inputs = [("k", 2)] ∧ (eagerSubs w22 wσ2).shape = [] := by
  decide

theorem tensor_subs_collision_witness_chain :
    (names (eagerSubsPre w222 wσ3).inputs) = ["i", "l"] ∧ (eagerSubsPre w222 wσ3).shape = [2] ∧
    (names (eagerSubs w222 wσ3).inputs) = ["i", "l"] ∧ (eagerSubs w222 wσ3).shape = [] := by
  decide

/-- Non-vacuity: the hypotheses of `tensor_subs_sem` hold for the witnesses (so HEAD is right on them). -/
example : (names w22.inputs).Nodup ∧ (skeys wσ1).Nodup ∧ (skeys wσ2).Nodup := by decide
example : (eagerSubs w22 wσ1).at (envI 1) [] = w22.at (updEnv (envI 1) wσ1) [] :=
  tensor_subs_sem w22 wσ1 (envI 1) [] (by decide) (by decide)


/-- Each input name of the result occurs once. -/
theorem tensor_subs_inputs_nodup {V : Type} (t : NT V) (σ : Sigma) (hins : (names t.inputs).Nodup) :
    (names (eagerSubs t σ).inputs).Nodup := by
  have hmat := matFixed_ok t.inputs (restrictTo t.inputs σ) hins
  unfold eagerSubs eagerSubsWith
  simp only []
  split
  · exact hins
  · split
    · rename_i hany
      unfold eagerSubsIdx
      simp only []
      split
      · rw [renamePass_inputs _ _ (hmat.nocoll hany)]; exact hmat.nocoll hany
      · exact nodup_advInputs _ _
    · exact nodup_advInputs _ _

end FV.Props.C04
