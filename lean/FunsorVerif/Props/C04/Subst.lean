/-
  Props/C04/Subst.lean — substitution: the syntactic traversal `substitute` (funsor/terms.py) means
  the simultaneous substitution `denote (Term.subs t σ)`; foreign keys are ignored; nested
  substitutions fuse; `SubstituteInterpretation` applies only the names fresh in the ORIGINAL node.

  Everything rests on `denote_coincidence` (the value of a term depends only on its free names),
  proved by mutual structural induction over `Term`.
-/
import FunsorVerif.Model.C04.Subst
namespace FV.Props.C04
open FV FV.C04

/-! ## Environments -/

def AgreeOn (ns : List Name) (e1 e2 : Env) : Prop := ∀ n ∈ ns, e1.lookup n = e2.lookup n

theorem AgreeOn.left {a b : List Name} {e1 e2 : Env} (h : AgreeOn (a ++ b) e1 e2) : AgreeOn a e1 e2 :=
  fun n hn => h n (List.mem_append_left _ hn)
theorem AgreeOn.right {a b : List Name} {e1 e2 : Env} (h : AgreeOn (a ++ b) e1 e2) : AgreeOn b e1 e2 :=
  fun n hn => h n (List.mem_append_right _ hn)
theorem AgreeOn.refl (ns : List Name) (e : Env) : AgreeOn ns e e := fun _ _ => rfl
theorem AgreeOn.symm {ns : List Name} {e1 e2 : Env} (h : AgreeOn ns e1 e2) : AgreeOn ns e2 e1 :=
  fun n hn => (h n hn).symm

theorem lookup_cons (k : Name) (v : Sem) (e : Env) (n : Name) :
    Env.lookup ((k, v) :: e) n = if k = n then some v else e.lookup n := by
  simp [Env.lookup]

theorem lookup_append (a e : Env) (n : Name) :
    Env.lookup (a ++ e) n = match a.lookup n with | some v => some v | none => e.lookup n := by
  induction a with
  | nil => simp [Env.lookup]
  | cons kv a ih =>
    obtain ⟨k, v⟩ := kv
    simp only [List.cons_append, lookup_cons]
    by_cases hk : k = n <;> simp [hk, ih]

theorem lookup_none_not_mem (a : Env) (n : Name) (h : a.lookup n = none) : n ∉ a.map (·.1) := by
  induction a with
  | nil => simp
  | cons kv a ih =>
    obtain ⟨k, v⟩ := kv
    rw [lookup_cons] at h
    by_cases hk : k = n
    · simp [hk] at h
    · simp [hk] at h
      simp only [List.map_cons, List.mem_cons, not_or]
      exact ⟨fun e => hk e.symm, ih h⟩

/-- Prefixing both environments with the same bindings: agreement is only needed on the names the
    prefix does not bind. -/
theorem agree_append (a : Env) {ns : List Name} {e1 e2 : Env}
    (h : ∀ n ∈ ns, n ∉ a.map (·.1) → e1.lookup n = e2.lookup n) : AgreeOn ns (a ++ e1) (a ++ e2) := by
  intro n hn
  rw [lookup_append, lookup_append]
  cases hl : a.lookup n with
  | some v => rfl
  | none => exact h n hn (lookup_none_not_mem a n hl)

theorem agree_cons (k : Name) (v : Sem) {ns : List Name} {e1 e2 : Env}
    (h : ∀ n ∈ ns, n ≠ k → e1.lookup n = e2.lookup n) : AgreeOn ns ((k, v) :: e1) ((k, v) :: e2) := by
  intro n hn
  rw [lookup_cons, lookup_cons]
  by_cases hk : k = n
  · simp [hk]
  · simp [hk]; exact h n hn (fun e => hk e.symm)

/-- Every assignment produced by `assignments vars` binds exactly the names of `vars`. -/
theorem assignments_keys : ∀ (vars : List (Name × Dom)) (asgs : List Env), assignments vars = some asgs →
    ∀ a ∈ asgs, a.map (·.1) = vars.map (·.1)
  | [], asgs, h, a, ha => by
    simp [assignments] at h; subst h; simp at ha; subst ha; rfl
  | (n, d) :: rest, asgs, h, a, ha => by
    unfold assignments at h
    split at h
    · rename_i k tails hd hs hr
      simp at h; subst h
      simp only [List.mem_flatMap, List.mem_range, List.mem_map] at ha
      obtain ⟨i, _, t, ht, rfl⟩ := ha
      simp [assignments_keys rest tails hr t ht]
    · simp at h

theorem denoteAll_map_congr {α : Type} (t : Term) (f1 f2 : α → Env) :
    ∀ (l : List α), (∀ x ∈ l, denote t (f1 x) = denote t (f2 x)) →
      denoteAll t (l.map f1) = denoteAll t (l.map f2)
  | [], _ => by simp [denoteAll]
  | x :: xs, h => by
    simp only [List.map_cons, denoteAll]
    rw [h x (List.mem_cons_self ..), denoteAll_map_congr t f1 f2 xs (fun y hy => h y (List.mem_cons_of_mem _ hy))]

theorem mapM_congr_opt {α β : Type} (f g : α → Option β) :
    ∀ (l : List α), (∀ x ∈ l, f x = g x) → l.mapM f = l.mapM g
  | [], _ => rfl
  | x :: xs, h => by
    simp only [List.mapM_cons]
    rw [h x (List.mem_cons_self ..), mapM_congr_opt f g xs (fun y hy => h y (List.mem_cons_of_mem _ hy))]

theorem denoteSubs_keys : ∀ (σ : List (Name × Term)) (env b : Env), denoteSubs σ env = some b →
    b.map (·.1) = σ.map (·.1)
  | [], env, b, h => by simp [denoteSubs] at h; subst h; rfl
  | (n, t) :: rest, env, b, h => by
    simp only [denoteSubs] at h
    split at h
    · rename_i v vs hv hvs
      simp at h; subst h
      simp [denoteSubs_keys rest env vs hvs]
    · simp at h

theorem mem_filter_not_contains {n : Name} {l ks : List Name} (h1 : n ∈ l) (h2 : n ∉ ks) :
    n ∈ l.filter (fun m => !ks.contains m) := by
  simp [List.mem_filter, h1, h2]

/-! ## Coincidence: the value depends only on the free names -/
mutual
  theorem denote_coincidence : ∀ (t : Term) (e1 e2 : Env), AgreeOn t.fv e1 e2 → denote t e1 = denote t e2
    | Term.var n d, e1, e2, h => by
      simp only [denote]; exact h n (by simp [Term.fv])
    | Term.num v d, e1, e2, h => by simp only [denote]
    | Term.tensor inputs dom data, e1, e2, h => by
      simp only [denote]
      rw [mapM_congr_opt (fun (x : Name × Nat) => (e1.lookup x.1).bind Sem.toNat?)
            (fun (x : Name × Nat) => (e2.lookup x.1).bind Sem.toNat?) inputs
            (fun x hx => by
              have : e1.lookup x.1 = e2.lookup x.1 := h x.1 (by simp [Term.fv]; exact ⟨x.2, hx⟩)
              simp [this])]
    | Term.unary op a, e1, e2, h => by
      simp only [denote]; rw [denote_coincidence a e1 e2 (by simpa [Term.fv] using h)]
    | Term.binary op l r, e1, e2, h => by
      have h' : AgreeOn (l.fv ++ r.fv) e1 e2 := by simpa [Term.fv] using h
      simp only [denote]
      rw [denote_coincidence l e1 e2 h'.left, denote_coincidence r e1 e2 h'.right]
    | Term.reduce op a vars, e1, e2, h => by
      simp only [denote]
      cases ha : assignments vars with
      | none => rfl
      | some asgs =>
        simp only []
        rw [denoteAll_map_congr a (fun x => x ++ e1) (fun x => x ++ e2) asgs (fun x hx => by
          apply denote_coincidence a
          apply agree_append
          intro n hn hnot
          rw [assignments_keys vars asgs ha x hx] at hnot
          exact h n (by simp only [Term.fv]; exact mem_filter_not_contains hn hnot))]
    | Term.subs a σ, e1, e2, h => by
      have h' : AgreeOn ((a.fv.filter (fun n => !(σ.map (·.1)).contains n)) ++ fvSubs σ) e1 e2 := by
        simpa [Term.fv] using h
      simp only [denote]
      rw [denoteSubs_coincidence σ e1 e2 h'.right]
      cases hb : denoteSubs σ e2 with
      | none => rfl
      | some b =>
        simp only []
        apply denote_coincidence a
        apply agree_append
        intro n hn hnot
        rw [denoteSubs_keys σ e2 b hb] at hnot
        exact h'.left n (mem_filter_not_contains hn hnot)
    | Term.slice n a b c d, e1, e2, h => by
      simp only [denote]; rw [h n (by simp [Term.fv])]
    | Term.stack n ps, e1, e2, h => by
      simp only [denote]; rw [h n (by simp [Term.fv])]
      cases (e2.lookup n).bind Sem.toNat? with
      | none => rfl
      | some i =>
        simp only []
        exact denoteNth_coincidence ps i e1 e2 (fun m hm => h m (by simp [Term.fv, hm]))
    | Term.cat n pn sizes ps, e1, e2, h => by
      simp only [denote]; rw [h n (by simp [Term.fv])]
      cases (e2.lookup n).bind Sem.toNat? with
      | none => rfl
      | some g =>
        simp only []
        cases locate sizes g 0 with
        | none => rfl
        | some kl =>
          simp only []
          apply denoteNth_coincidence ps kl.1
          apply agree_cons
          intro m hm hne
          exact h m (by simp [Term.fv, List.mem_filter, hm, hne])
    | Term.lambda n size b, e1, e2, h => by
      simp only [denote]
      rw [denoteAll_map_congr b (fun i => (n, Sem.ofNat i) :: e1) (fun i => (n, Sem.ofNat i) :: e2)
        (List.range size) (fun i _ => by
          apply denote_coincidence b
          apply agree_cons
          intro m hm hne
          exact h m (by simp [Term.fv, List.mem_filter, hm, hne]))]
    | Term.independent fn rv bv dv size, e1, e2, h => by
      simp only [denote]; rw [h rv (by simp [Term.fv])]
      cases e2.lookup rv with
      | none => rfl
      | some x =>
        simp only []
        rw [denoteAll_map_congr fn
          (fun i => (dv, (⟨x.shape.drop 1, fun idx => x.get (i :: idx)⟩ : Sem)) :: (bv, Sem.ofNat i) :: e1)
          (fun i => (dv, (⟨x.shape.drop 1, fun idx => x.get (i :: idx)⟩ : Sem)) :: (bv, Sem.ofNat i) :: e2)
          (List.range size) (fun i _ => by
            apply denote_coincidence fn
            apply agree_cons
            intro m hm hne
            apply agree_cons (ns := [m]) bv _ _ m (List.mem_singleton_self m)
            intro m' hm' hne'
            simp at hm'; subst hm'
            exact h m' (by simp [Term.fv, List.mem_filter, hm, hne, hne']))]
    | Term.align a names, e1, e2, h => by
      simp only [denote]; exact denote_coincidence a e1 e2 (by simpa [Term.fv] using h)
    | Term.contraction r b vars ts, e1, e2, h => by
      simp only [denote]
      cases ha : assignments vars with
      | none => rfl
      | some asgs =>
        simp only []
        rw [mapM_congr_opt (fun x => denoteProd b ts (x ++ e1)) (fun x => denoteProd b ts (x ++ e2)) asgs
          (fun x hx => by
            apply denoteProd_coincidence b ts
            apply agree_append
            intro n hn hnot
            rw [assignments_keys vars asgs ha x hx] at hnot
            exact h n (by simp only [Term.fv]; exact mem_filter_not_contains hn hnot))]
    | Term.finitary op args, e1, e2, h => by simp only [denote]
    | Term.delta ts, e1, e2, h => by
      simp only [denote]; exact denoteDelta_coincidence ts e1 e2 (by simpa [Term.fv] using h)

  theorem denoteNth_coincidence : ∀ (ts : List Term) (i : Nat) (e1 e2 : Env),
      AgreeOn (fvList ts) e1 e2 → denoteNth ts i e1 = denoteNth ts i e2
    | [], i, e1, e2, h => by simp only [denoteNth]
    | t :: ts, 0, e1, e2, h => by
      have h' : AgreeOn (t.fv ++ fvList ts) e1 e2 := by simpa [fvList] using h
      simp only [denoteNth]; exact denote_coincidence t e1 e2 h'.left
    | t :: ts, i + 1, e1, e2, h => by
      have h' : AgreeOn (t.fv ++ fvList ts) e1 e2 := by simpa [fvList] using h
      simp only [denoteNth]; exact denoteNth_coincidence ts i e1 e2 h'.right

  theorem denoteSubs_coincidence : ∀ (σ : List (Name × Term)) (e1 e2 : Env),
      AgreeOn (fvSubs σ) e1 e2 → denoteSubs σ e1 = denoteSubs σ e2
    | [], e1, e2, h => by simp only [denoteSubs]
    | (n, t) :: rest, e1, e2, h => by
      have h' : AgreeOn (t.fv ++ fvSubs rest) e1 e2 := by simpa [fvSubs] using h
      simp only [denoteSubs]
      rw [denote_coincidence t e1 e2 h'.left, denoteSubs_coincidence rest e1 e2 h'.right]

  theorem denoteProd_coincidence : ∀ (b : String) (ts : List Term) (e1 e2 : Env),
      AgreeOn (fvList ts) e1 e2 → denoteProd b ts e1 = denoteProd b ts e2
    | b, [], e1, e2, h => by simp only [denoteProd]
    | b, [t], e1, e2, h => by
      have h' : AgreeOn (t.fv ++ fvList []) e1 e2 := by simpa [fvList] using h
      simp only [denoteProd]; exact denote_coincidence t e1 e2 h'.left
    | b, t :: t' :: ts, e1, e2, h => by
      have h' : AgreeOn (t.fv ++ fvList (t' :: ts)) e1 e2 := by simpa [fvList] using h
      simp only [denoteProd]
      rw [denote_coincidence t e1 e2 h'.left, denoteProd_coincidence b (t' :: ts) e1 e2 h'.right]

  theorem denoteDelta_coincidence : ∀ (ts : List (Name × Term × Term)) (e1 e2 : Env),
      AgreeOn (fvDelta ts) e1 e2 → denoteDelta ts e1 = denoteDelta ts e2
    | [], e1, e2, h => by simp only [denoteDelta]
    | (n, p, d) :: rest, e1, e2, h => by
      have h' : AgreeOn (n :: (p.fv ++ (d.fv ++ fvDelta rest))) e1 e2 := by simpa [fvDelta] using h
      have h2 : AgreeOn (p.fv ++ (d.fv ++ fvDelta rest)) e1 e2 := fun m hm => h' m (List.mem_cons_of_mem _ hm)
      simp only [denoteDelta]
      rw [h' n (List.mem_cons_self ..), denote_coincidence p e1 e2 h2.left,
        denote_coincidence d e1 e2 h2.right.left, denoteDelta_coincidence rest e1 e2 h2.right.right]
end

/-! ## More environment lemmas -/

theorem lookup_append_or (a e : Env) (n : Name) :
    Env.lookup (a ++ e) n = (a.lookup n).or (e.lookup n) := by
  rw [lookup_append]; cases a.lookup n <;> rfl

theorem lookup_isSome_iff (a : Env) (n : Name) : (a.lookup n).isSome = true ↔ n ∈ a.map (·.1) := by
  induction a with
  | nil => simp [Env.lookup]
  | cons kv a ih =>
    obtain ⟨k, v⟩ := kv
    rw [lookup_cons]
    by_cases hk : k = n
    · simp [hk]
    · have : ¬ n = k := fun e => hk e.symm
      simp [hk, ih, this]

theorem lookup_eq_none_iff (a : Env) (n : Name) : a.lookup n = none ↔ n ∉ a.map (·.1) := by
  rw [← lookup_isSome_iff]; cases a.lookup n <;> simp

/-- Lookup in an environment filtered by a predicate on keys. -/
theorem lookup_filter (p : Name → Bool) (b : Env) (n : Name) :
    Env.lookup (b.filter (fun q => p q.1)) n = if p n then b.lookup n else none := by
  induction b with
  | nil => simp [Env.lookup]
  | cons kv b ih =>
    obtain ⟨k, v⟩ := kv
    by_cases hp : p k = true
    · rw [List.filter_cons_of_pos (by simpa using hp), lookup_cons, lookup_cons, ih]
      by_cases hk : k = n
      · subst hk; simp [hp]
      · simp [hk]
    · rw [List.filter_cons_of_neg (by simpa using hp), lookup_cons, ih]
      by_cases hk : k = n
      · subst hk; simp [hp]
      · simp [hk]

/-- Two environments that agree everywhere give the same meaning. -/
theorem denote_congr_env (t : Term) (e1 e2 : Env) (h : ∀ n, e1.lookup n = e2.lookup n) :
    denote t e1 = denote t e2 := denote_coincidence t e1 e2 (fun n _ => h n)

/-! ## `denoteSubs`: filters, concatenation, lookup -/

theorem denoteSubs_filter (p : Name → Bool) : ∀ (σ : Subst) (env b : Env), denoteSubs σ env = some b →
    denoteSubs (σ.filter (fun q => p q.1)) env = some (b.filter (fun q => p q.1))
  | [], env, b, h => by simp [denoteSubs] at h; subst h; simp [denoteSubs]
  | (n, t) :: rest, env, b, h => by
    simp only [denoteSubs] at h
    split at h
    · rename_i v vs hv hvs
      simp at h; subst h
      have ih := denoteSubs_filter p rest env vs hvs
      by_cases hp : p n = true
      · rw [List.filter_cons_of_pos (by simpa using hp), List.filter_cons_of_pos (by simpa using hp)]
        simp only [denoteSubs, hv, ih]
      · rw [List.filter_cons_of_neg (by simpa using hp), List.filter_cons_of_neg (by simpa using hp)]
        exact ih
    · simp at h

theorem denoteSubs_append : ∀ (x y : Subst) (env : Env),
    denoteSubs (x ++ y) env = (denoteSubs x env).bind (fun X => (denoteSubs y env).map (X ++ ·))
  | [], y, env => by simp [denoteSubs]
  | (n, t) :: rest, y, env => by
    simp only [List.cons_append, denoteSubs, denoteSubs_append rest y env]
    cases denote t env <;> cases denoteSubs rest env <;> cases denoteSubs y env <;> simp

/-- The binding of `n` in the evaluated substitution is the value of the first binding of `n`. -/
theorem denoteSubs_lookup : ∀ (σ : Subst) (env b : Env) (n : Name), denoteSubs σ env = some b →
    b.lookup n = (tget σ n).bind (fun v => denote v env)
  | [], env, b, n, h => by simp [denoteSubs] at h; subst h; simp [tget, Env.lookup]
  | (k, t) :: rest, env, b, n, h => by
    simp only [denoteSubs] at h
    split at h
    · rename_i v vs hv hvs
      simp at h; subst h
      rw [lookup_cons, tget]
      by_cases hk : k = n
      · simp [hk, hv]
      · simp [hk, denoteSubs_lookup rest env vs n hvs]
    · simp at h

theorem subs_denote (t : Term) (σ : Subst) (env : Env) :
    denote (Term.subs t σ) env = (denoteSubs σ env).bind (fun b => denote t (b ++ env)) := by
  simp only [denote]; cases denoteSubs σ env <;> rfl

theorem subs_ignores_foreign_keys (t : Term) (σ : Subst) (env : Env) :
    (denoteSubs σ env).isSome = true →
    denote (Term.subs t (dropForeign t σ)) env = denote (Term.subs t σ) env := by
  intro h
  obtain ⟨b, hb⟩ := Option.isSome_iff_exists.mp h
  rw [subs_denote, subs_denote, hb]
  have := denoteSubs_filter (fun k => decide (k ∈ t.fv)) σ env b hb
  unfold dropForeign
  rw [this]
  simp only [Option.bind_some]
  apply denote_coincidence
  intro n hn
  rw [lookup_append_or, lookup_append_or, lookup_filter (fun k => decide (k ∈ t.fv))]
  simp [hn]

theorem denoteSubs_map_subs (b : Subst) (env B : Env) (hB : denoteSubs b env = some B) :
    ∀ (a : Subst), denoteSubs (a.map (fun p => (p.1, Term.subs p.2 b))) env = denoteSubs a (B ++ env)
  | [] => by simp [denoteSubs]
  | (k, v) :: rest => by
    simp only [List.map_cons, denoteSubs, denoteSubs_map_subs b env B hB rest, subs_denote, hB,
      Option.bind_some]

theorem subs_fuse_sound (f : Term) (a b : Subst) (env : Env) :
    denote (Term.subs (Term.subs f a) b) env = denote (Term.subs f (fuseEager a b)) env := by
  rw [subs_denote, subs_denote f (fuseEager a b)]
  unfold fuseEager
  rw [denoteSubs_append]
  cases hB : denoteSubs b env with
  | none => cases denoteSubs (a.map _) env <;> simp
  | some B =>
    rw [denoteSubs_map_subs b env B hB]
    simp only [Option.bind_some, subs_denote]
    cases denoteSubs a (B ++ env) <;> simp


theorem subs_fuse_normalize_sound (f : Term) (a b : Subst) (env : Env) :
    (∀ k ∈ tkeys a, k ∉ tkeys b) →
    denote (Term.subs (Term.subs f a) b) env = denote (Term.subs f (fuseNormalize a b)) env := by
  intro hdis
  rw [subs_denote, subs_denote f (fuseNormalize a b)]
  unfold fuseNormalize
  rw [denoteSubs_append]
  cases hB : denoteSubs b env with
  | none => simp
  | some B =>
    rw [denoteSubs_map_subs b env B hB]
    simp only [Option.bind_some, subs_denote]
    cases hA : denoteSubs a (B ++ env) with
    | none => simp
    | some A =>
      simp only [Option.bind_some, Option.map_some]
      apply denote_congr_env
      intro n
      simp only [lookup_append_or]
      cases hAn : A.lookup n with
      | none => simp
      | some x =>
        have hn : n ∈ tkeys a := by
          have := (lookup_isSome_iff A n).mp (by simp [hAn])
          rw [denoteSubs_keys a _ A hA] at this; exact this
        have hBn : B.lookup n = none := by
          rw [lookup_eq_none_iff, denoteSubs_keys b _ B hB]; exact hdis n hn
        simp [hBn]

/-- Without disjoint keys the `normalize_fuse_subs` order differs from the nested substitution:
    `i ↦ i + 1` then `i ↦ 5` gives 6, the fused `(i ↦ 5, i ↦ (i+1)(i ↦ 5))` gives 5. -/
theorem subs_fuse_normalize_needs_disjoint : ∃ (f : Term) (a b : Subst) (env : Env),
    (denote (Term.subs (Term.subs f a) b) env).map (·.get []) ≠
      (denote (Term.subs f (fuseNormalize a b)) env).map (·.get []) := by
  refine ⟨Term.var "i" ⟨DType.bint 10, []⟩,
    [("i", Term.binary ⟨"add", Sexp.list []⟩ (Term.var "i" ⟨DType.bint 10, []⟩) (Term.num 1 (DType.bint 10)))],
    [("i", Term.num 5 (DType.bint 10))], [], ?_⟩
  simp [denote, denoteSubs, fuseNormalize, Env.lookup, evalBinary, Sem.zip?, broadcastShapes,
    broadcastShapes.go, allIdx, Sem.scalar, binop, XR.add]
  decide +kernel

/-! ## Helpers for `substitute_sound` -/

theorem denoteAll_map_congr2 {α : Type} (t1 t2 : Term) (f1 f2 : α → Env) :
    ∀ (l : List α), (∀ x ∈ l, denote t1 (f1 x) = denote t2 (f2 x)) →
      denoteAll t1 (l.map f1) = denoteAll t2 (l.map f2)
  | [], _ => by simp [denoteAll]
  | x :: xs, h => by
    simp only [List.map_cons, denoteAll]
    rw [h x (List.mem_cons_self ..),
      denoteAll_map_congr2 t1 t2 f1 f2 xs (fun y hy => h y (List.mem_cons_of_mem _ hy))]

theorem guardStop_true {t : Term} {σ : Subst} (h : stop t σ = true) (r : Term) : guardStop t σ r = t := by
  simp [guardStop, h]
theorem guardStop_false {t : Term} {σ : Subst} (h : stop t σ = false) (r : Term) : guardStop t σ r = r := by
  simp [guardStop, h]

/-- `if stop(x): return x` is sound: the bindings of σ miss the free names of `t`. -/
theorem stop_sound (t : Term) (σ : Subst) (env b : Env) (hs : stop t σ = true)
    (hb : denoteSubs σ env = some b) : denote t env = denote t (b ++ env) := by
  apply denote_coincidence
  intro n hn
  have hk : n ∉ tkeys σ := by
    have := List.all_eq_true.mp hs n hn
    simpa using this
  have : b.lookup n = none := by
    rw [lookup_eq_none_iff, denoteSubs_keys σ env b hb]; exact hk
  rw [lookup_append_or, this]; rfl

theorem denoteSubs_tget : ∀ (σ : Subst) (env b : Env) (n : Name) (v : Term), denoteSubs σ env = some b →
    tget σ n = some v → ∃ x, denote v env = some x ∧ b.lookup n = some x
  | [], env, b, n, v, h, hg => by simp [tget] at hg
  | (k, t) :: rest, env, b, n, v, h, hg => by
    simp only [denoteSubs] at h
    split at h
    · rename_i x vs hx hvs
      simp at h; subst h
      rw [tget] at hg
      rw [lookup_cons]
      by_cases hk : k = n
      · simp [hk] at hg; subst hg; exact ⟨x, hx, by simp [hk]⟩
      · simp [hk] at hg
        obtain ⟨y, hy, hl⟩ := denoteSubs_tget rest env vs n v hvs hg
        exact ⟨y, hy, by simp [hk, hl]⟩
    · simp at h

/-- The node's own `eager_subs` (a `Subs` restricted to its own names) binds exactly those names. -/
theorem wrapOwn_denote (t' : Term) (N : List Name) (σ : Subst) (env b : Env)
    (hb : denoteSubs σ env = some b) :
    denote (wrapOwn t' N σ) env = denote t' (b.filter (fun q => decide (q.1 ∈ N)) ++ env) := by
  have h := denoteSubs_filter (fun k => decide (k ∈ N)) σ env b hb
  unfold wrapOwn srestrict
  split
  · rename_i heq
    rw [heq, denoteSubs] at h
    rw [← Option.some.inj h]; rfl
  · rename_i p ps heq
    rw [← heq, subs_denote, h]; rfl

theorem own_lookup (b env : Env) (N : List Name) (n : Name) (hn : n ∈ N) :
    Env.lookup (b.filter (fun q => decide (q.1 ∈ N)) ++ env) n = Env.lookup (b ++ env) n := by
  rw [lookup_append_or, lookup_append_or, lookup_filter (fun k => decide (k ∈ N))]
  simp [hn]

theorem own_agree (t : Term) (b env : Env) (N : List Name) (h : ∀ n ∈ t.fv, n ∈ N) :
    denote t (b.filter (fun q => decide (q.1 ∈ N)) ++ env) = denote t (b ++ env) :=
  denote_coincidence _ _ _ (fun n hn => own_lookup b env N n (h n hn))

theorem valuesAvoid_spec {σ : Subst} {S : List Name} (h : valuesAvoid σ S = true) :
    ∀ n ∈ fvSubs σ, n ∉ S := by
  intro n hn
  have := List.all_eq_true.mp h n hn
  simpa using this

/-- Below a node with shield `S`, own names `N ⊆ S`, and bindings `ext` added by the node's own
    evaluation (keys of `ext` ⊆ `S`, every shielded name is own or bound by `ext`):
    the shadowed substitution evaluates in the extended environment to a `b'` such that
    `b' ++ ext ++ b|N ++ env` and `ext ++ b ++ env` agree everywhere. -/
theorem below_node (σ : Subst) (b env ext : Env) (S N : List Name)
    (hb : denoteSubs σ env = some b) (hv : valuesAvoid (sremove σ S) S = true)
    (hNS : ∀ m ∈ N, m ∈ S) (h1 : ∀ m ∈ ext.map (·.1), m ∈ S)
    (h2 : ∀ m ∈ S, m ∈ N ∨ m ∈ ext.map (·.1)) :
    ∃ b', denoteSubs (sremove σ S) (ext ++ (b.filter (fun q => decide (q.1 ∈ N)) ++ env)) = some b' ∧
      ∀ n, Env.lookup (b' ++ (ext ++ (b.filter (fun q => decide (q.1 ∈ N)) ++ env))) n
        = Env.lookup (ext ++ (b ++ env)) n := by
  refine ⟨b.filter (fun q => decide (q.1 ∉ S)), ?_, ?_⟩
  · rw [← denoteSubs_filter (fun k => decide (k ∉ S)) σ env b hb]
    apply denoteSubs_coincidence
    intro n hn
    have hnS : n ∉ S := valuesAvoid_spec hv n hn
    have he : ext.lookup n = none := by
      rw [lookup_eq_none_iff]; exact fun hm => hnS (h1 n hm)
    have hN : n ∉ N := fun hm => hnS (hNS n hm)
    rw [lookup_append_or, lookup_append_or, he, lookup_filter (fun k => decide (k ∈ N))]
    simp [hN]
  · intro n
    simp only [lookup_append_or, lookup_filter (fun k => decide (k ∉ S)),
      lookup_filter (fun k => decide (k ∈ N))]
    by_cases hS : n ∈ S
    · by_cases hN : n ∈ N
      · simp [hS, hN]
      · have := (lookup_isSome_iff ext n).mpr ((h2 n hS).resolve_left hN)
        obtain ⟨x, hx⟩ := Option.isSome_iff_exists.mp this
        simp [hS, hx]
    · have he : ext.lookup n = none := by
        rw [lookup_eq_none_iff]; exact fun hm => hS (h1 n hm)
      have hN : n ∉ N := fun hm => hS (hNS n hm)
      simp [hS, hN, he]

/-- Binder without own names: `ext` binds exactly the shielded names. -/
theorem below_binder (σ : Subst) (b env ext : Env) (S : List Name)
    (hb : denoteSubs σ env = some b) (hv : valuesAvoid (sremove σ S) S = true)
    (hk : ext.map (·.1) = S) :
    ∃ b', denoteSubs (sremove σ S) (ext ++ env) = some b' ∧
      ∀ n, Env.lookup (b' ++ (ext ++ env)) n = Env.lookup (ext ++ (b ++ env)) n := by
  have := below_node σ b env ext S [] hb hv (by simp) (by simp [hk]) (by simp [hk])
  have hf : b.filter (fun q => decide (q.1 ∈ ([] : List Name))) = [] := by simp
  rw [hf] at this
  exact this

theorem mem_tkeys_sremove {σ : Subst} {S : List Name} {k : Name} (h : k ∈ tkeys (sremove σ S)) : k ∉ S := by
  simp only [tkeys, sremove, List.mem_map, List.mem_filter] at h
  obtain ⟨p, ⟨_, hp⟩, rfl⟩ := h
  simpa using hp


/-! ## `substitute` is the simultaneous substitution -/
mutual
  theorem substitute_sound : ∀ (t : Term) (σ : Subst) (env b : Env), boundFresh t σ = true →
      denoteSubs σ env = some b → denote (substitute t σ) env = denote t (b ++ env)
    | Term.var n d, σ, env, b, hf, hb => by
      simp only [substitute]
      cases hg : tget σ n with
      | none =>
        have hl := denoteSubs_lookup σ env b n hb
        simp only [denote]; rw [lookup_append_or, hl, hg]; rfl
      | some v =>
        obtain ⟨x, hx, hl⟩ := denoteSubs_tget σ env b n v hb hg
        simp only [denote]; rw [lookup_append_or, hl, hx]; rfl
    | Term.num v d, σ, env, b, hf, hb => by simp only [substitute, denote]
    | Term.tensor ins d data, σ, env, b, hf, hb => by
      simp only [substitute]
      rw [wrapOwn_denote _ _ _ _ _ hb]
      exact own_agree _ _ _ _ (fun n hn => by simpa [Term.fv] using hn)
    | Term.unary op a, σ, env, b, hf, hb => by
      cases hs : stop (Term.unary op a) σ with
      | true => rw [substitute, guardStop_true hs]; exact stop_sound _ _ _ _ hs hb
      | false =>
        simp only [boundFresh, hs, Bool.false_or] at hf
        rw [substitute, guardStop_false hs]
        simp only [denote]; rw [substitute_sound a σ env b hf hb]
    | Term.binary op l r, σ, env, b, hf, hb => by
      cases hs : stop (Term.binary op l r) σ with
      | true => rw [substitute, guardStop_true hs]; exact stop_sound _ _ _ _ hs hb
      | false =>
        simp only [boundFresh, hs, Bool.false_or, Bool.and_eq_true] at hf
        rw [substitute, guardStop_false hs]
        simp only [denote]
        rw [substitute_sound l σ env b hf.1 hb, substitute_sound r σ env b hf.2 hb]
    | Term.reduce op a vars, σ, env, b, hf, hb => by
      cases hs : stop (Term.reduce op a vars) σ with
      | true => rw [substitute, guardStop_true hs]; exact stop_sound _ _ _ _ hs hb
      | false =>
        simp only [boundFresh, hs, Bool.false_or, Bool.and_eq_true] at hf
        rw [substitute, guardStop_false hs]
        simp only [denote]
        cases ha : assignments vars with
        | none => rfl
        | some asgs =>
          simp only []
          rw [denoteAll_map_congr2 (substitute a (sremove σ (vars.map (·.1)))) a
            (fun x => x ++ env) (fun x => x ++ (b ++ env)) asgs (fun x hx => by
              obtain ⟨b', hb', hag⟩ := below_binder σ b env x (vars.map (·.1)) hb hf.1
                (assignments_keys vars asgs ha x hx)
              rw [substitute_sound a _ _ b' hf.2 hb']
              exact denote_congr_env _ _ _ hag)]
    | Term.subs a τ, σ, env, b, hf, hb => by
      cases hs : stop (Term.subs a τ) σ with
      | true => rw [substitute, guardStop_true hs]; exact stop_sound _ _ _ _ hs hb
      | false =>
        simp only [boundFresh, hs, Bool.false_or, Bool.and_eq_true] at hf
        rw [substitute, guardStop_false hs]
        simp only [denote]
        rw [substSubs_sound τ σ env b hf.2 hb]
        cases hτ : denoteSubs τ (b ++ env) with
        | none => rfl
        | some bound =>
          simp only []
          obtain ⟨b', hb', hag⟩ := below_binder σ b env bound (τ.map (·.1)) hb hf.1.1
            (denoteSubs_keys τ _ bound hτ)
          rw [substitute_sound a _ _ b' hf.1.2 hb']
          exact denote_congr_env _ _ _ hag
    | Term.slice n a1 a2 a3 a4, σ, env, b, hf, hb => by
      simp only [substitute]
      rw [wrapOwn_denote _ _ _ _ _ hb]
      exact own_agree _ _ _ _ (fun m hm => by simpa [Term.fv] using hm)
    | Term.stack n parts, σ, env, b, hf, hb => by
      cases hs : stop (Term.stack n parts) σ with
      | true => rw [substitute, guardStop_true hs]; exact stop_sound _ _ _ _ hs hb
      | false =>
        simp only [boundFresh, hs, Bool.false_or, Bool.and_eq_true] at hf
        rw [substitute, guardStop_false hs, wrapOwn_denote _ _ _ _ _ hb]
        simp only [denote]
        rw [own_lookup b env [n] n (by simp)]
        cases ((b ++ env).lookup n).bind Sem.toNat? with
        | none => rfl
        | some i =>
          simp only []
          obtain ⟨b', hb', hag⟩ := below_node σ b env [] [n] [n] hb hf.1 (by simp) (by simp) (by simp)
          simp only [List.nil_append] at hb' hag
          rw [substList_nth_sound parts _ _ b' i hf.2 hb']
          exact denoteNth_coincidence _ _ _ _ (fun m _ => hag m)
    | Term.cat n pn sizes parts, σ, env, b, hf, hb => by
      cases hs : stop (Term.cat n pn sizes parts) σ with
      | true => rw [substitute, guardStop_true hs]; exact stop_sound _ _ _ _ hs hb
      | false =>
        simp only [boundFresh, hs, Bool.false_or, Bool.and_eq_true] at hf
        rw [substitute, guardStop_false hs, wrapOwn_denote _ _ _ _ _ hb]
        simp only [denote]
        rw [own_lookup b env [n] n (by simp)]
        cases ((b ++ env).lookup n).bind Sem.toNat? with
        | none => rfl
        | some g =>
          simp only []
          cases locate sizes g 0 with
          | none => rfl
          | some kl =>
            simp only []
            obtain ⟨b', hb', hag⟩ := below_node σ b env [(pn, Sem.ofNat kl.2)] [pn, n] [n] hb hf.1
              (by simp) (by simp) (by simp)
            simp only [List.cons_append, List.nil_append] at hb' hag
            rw [substList_nth_sound parts _ _ b' kl.1 hf.2 hb']
            exact denoteNth_coincidence _ _ _ _ (fun m _ => hag m)
    | Term.lambda n size body, σ, env, b, hf, hb => by
      cases hs : stop (Term.lambda n size body) σ with
      | true => rw [substitute, guardStop_true hs]; exact stop_sound _ _ _ _ hs hb
      | false =>
        simp only [boundFresh, hs, Bool.false_or, Bool.and_eq_true] at hf
        rw [substitute, guardStop_false hs]
        simp only [denote]
        rw [denoteAll_map_congr2 (substitute body (sremove σ [n])) body
          (fun i => (n, Sem.ofNat i) :: env) (fun i => (n, Sem.ofNat i) :: (b ++ env)) (List.range size)
          (fun i _ => by
            obtain ⟨b', hb', hag⟩ := below_binder σ b env [(n, Sem.ofNat i)] [n] hb hf.1 (by simp)
            simp only [List.cons_append, List.nil_append] at hb' hag
            rw [substitute_sound body _ _ b' hf.2 hb']
            exact denote_congr_env _ _ _ hag)]
    | Term.independent fn rv bv dv size, σ, env, b, hf, hb => by
      cases hs : stop (Term.independent fn rv bv dv size) σ with
      | true => rw [substitute, guardStop_true hs]; exact stop_sound _ _ _ _ hs hb
      | false =>
        simp only [boundFresh, hs, Bool.false_or, Bool.and_eq_true] at hf
        rw [substitute, guardStop_false hs, wrapOwn_denote _ _ _ _ _ hb]
        simp only [denote]
        rw [own_lookup b env [rv] rv (by simp)]
        cases (b ++ env).lookup rv with
        | none => rfl
        | some x =>
          simp only []
          rw [denoteAll_map_congr2 (substitute fn (sremove σ [bv, dv, rv])) fn
            (fun i => (dv, (⟨x.shape.drop 1, fun idx => x.get (i :: idx)⟩ : Sem)) :: (bv, Sem.ofNat i) ::
              (b.filter (fun q => decide (q.1 ∈ [rv])) ++ env))
            (fun i => (dv, (⟨x.shape.drop 1, fun idx => x.get (i :: idx)⟩ : Sem)) :: (bv, Sem.ofNat i) ::
              (b ++ env))
            (List.range size) (fun i _ => by
              obtain ⟨b', hb', hag⟩ := below_node σ b env
                [(dv, (⟨x.shape.drop 1, fun idx => x.get (i :: idx)⟩ : Sem)), (bv, Sem.ofNat i)]
                [bv, dv, rv] [rv] hb hf.1 (by simp) (by simp) (by simp)
              simp only [List.cons_append, List.nil_append] at hb' hag
              rw [substitute_sound fn _ _ b' hf.2 hb']
              exact denote_congr_env _ _ _ hag)]
    | Term.align a ns, σ, env, b, hf, hb => by
      cases hs : stop (Term.align a ns) σ with
      | true => rw [substitute, guardStop_true hs]; exact stop_sound _ _ _ _ hs hb
      | false =>
        simp only [boundFresh, hs, Bool.false_or] at hf
        rw [substitute, guardStop_false hs]
        simp only [denote]; exact substitute_sound a σ env b hf hb
    | Term.contraction r bo vars ts, σ, env, b, hf, hb => by
      cases hs : stop (Term.contraction r bo vars ts) σ with
      | true => rw [substitute, guardStop_true hs]; exact stop_sound _ _ _ _ hs hb
      | false =>
        simp only [boundFresh, hs, Bool.false_or, Bool.and_eq_true] at hf
        rw [substitute, guardStop_false hs]
        simp only [denote]
        cases ha : assignments vars with
        | none => rfl
        | some asgs =>
          simp only []
          rw [mapM_congr_opt
            (fun x => denoteProd bo (substList ts (sremove σ (vars.map (·.1)))) (x ++ env))
            (fun x => denoteProd bo ts (x ++ (b ++ env))) asgs (fun x hx => by
              obtain ⟨b', hb', hag⟩ := below_binder σ b env x (vars.map (·.1)) hb hf.1
                (assignments_keys vars asgs ha x hx)
              rw [substList_prod_sound bo ts _ _ b' hf.2 hb']
              exact denoteProd_coincidence _ _ _ _ (fun m _ => hag m))]
    | Term.finitary op args, σ, env, b, hf, hb => by simp only [substitute, denote]
    | Term.delta ts, σ, env, b, hf, hb => by
      cases hs : stop (Term.delta ts) σ with
      | true => rw [substitute, guardStop_true hs]; exact stop_sound _ _ _ _ hs hb
      | false =>
        simp only [boundFresh, hs, Bool.false_or, Bool.and_eq_true] at hf
        rw [substitute, guardStop_false hs, wrapOwn_denote _ _ _ _ _ hb]
        simp only [denote]
        obtain ⟨b', hb', hag⟩ := below_node σ b env [] (ts.map (·.1)) (ts.map (·.1)) hb hf.1
          (fun _ h => h) (by simp) (fun _ h => Or.inl h)
        simp only [List.nil_append] at hb' hag
        rw [substDelta_sound ts _ _ b' hf.2 (fun n hn hk => mem_tkeys_sremove hk hn) hb']
        exact denoteDelta_coincidence _ _ _ (fun m _ => hag m)

  theorem substList_nth_sound : ∀ (ts : List Term) (σ : Subst) (env b : Env) (i : Nat),
      boundFreshList ts σ = true → denoteSubs σ env = some b →
      denoteNth (substList ts σ) i env = denoteNth ts i (b ++ env)
    | [], σ, env, b, i, hf, hb => by simp only [substList, denoteNth]
    | t :: ts, σ, env, b, 0, hf, hb => by
      simp only [boundFreshList, Bool.and_eq_true] at hf
      simp only [substList, denoteNth]; exact substitute_sound t σ env b hf.1 hb
    | t :: ts, σ, env, b, i + 1, hf, hb => by
      simp only [boundFreshList, Bool.and_eq_true] at hf
      simp only [substList, denoteNth]; exact substList_nth_sound ts σ env b i hf.2 hb

  theorem substList_prod_sound : ∀ (bo : String) (ts : List Term) (σ : Subst) (env b : Env),
      boundFreshList ts σ = true → denoteSubs σ env = some b →
      denoteProd bo (substList ts σ) env = denoteProd bo ts (b ++ env)
    | bo, [], σ, env, b, hf, hb => by simp only [substList, denoteProd]
    | bo, [t], σ, env, b, hf, hb => by
      simp only [boundFreshList, Bool.and_eq_true] at hf
      simp only [substList, denoteProd]; exact substitute_sound t σ env b hf.1 hb
    | bo, t :: t' :: ts, σ, env, b, hf, hb => by
      simp only [boundFreshList, Bool.and_eq_true] at hf
      have ih := substList_prod_sound bo (t' :: ts) σ env b (by simp [boundFreshList, hf.2]) hb
      simp only [substList] at ih
      simp only [substList, denoteProd]
      rw [substitute_sound t σ env b hf.1 hb, ih]

  theorem substSubs_sound : ∀ (τ : List (Name × Term)) (σ : Subst) (env b : Env),
      boundFreshSubs τ σ = true → denoteSubs σ env = some b →
      denoteSubs (substSubs τ σ) env = denoteSubs τ (b ++ env)
    | [], σ, env, b, hf, hb => by simp only [substSubs, denoteSubs]
    | (n, t) :: rest, σ, env, b, hf, hb => by
      simp only [boundFreshSubs, Bool.and_eq_true] at hf
      simp only [substSubs, denoteSubs]
      rw [substitute_sound t σ env b hf.1 hb, substSubs_sound rest σ env b hf.2 hb]

  theorem substDelta_sound : ∀ (ts : List (Name × Term × Term)) (σ : Subst) (env b : Env),
      boundFreshDelta ts σ = true → (∀ n ∈ ts.map (·.1), n ∉ tkeys σ) → denoteSubs σ env = some b →
      denoteDelta (substDelta ts σ) env = denoteDelta ts (b ++ env)
    | [], σ, env, b, hf, hk, hb => by simp only [substDelta, denoteDelta]
    | (n, p, d) :: rest, σ, env, b, hf, hk, hb => by
      simp only [boundFreshDelta, Bool.and_eq_true] at hf
      have hn : b.lookup n = none := by
        rw [lookup_eq_none_iff, denoteSubs_keys σ env b hb]; exact hk n (by simp)
      simp only [substDelta, denoteDelta]
      rw [substitute_sound p σ env b hf.1.1 hb, substitute_sound d σ env b hf.1.2 hb,
        substDelta_sound rest σ env b hf.2 (fun m hm => hk m (by simp [hm])) hb,
        lookup_append_or b env n, hn]
      rfl
end

theorem substitute_sound_subs (t : Term) (σ : Subst) (env : Env) :
    boundFresh t σ = true → (denoteSubs σ env).isSome = true →
    denote (substitute t σ) env = denote (Term.subs t σ) env := by
  intro hf h
  obtain ⟨b, hb⟩ := Option.isSome_iff_exists.mp h
  rw [substitute_sound t σ env b hf hb, subs_denote, hb]; rfl

/-! ### The side condition is satisfiable on a non-trivial term

`(Σ_k  T[i,k] + j)` with `σ = (i ↦ j, j ↦ 1)`: the traversal passes the binder `k`, renames `i` to
`j` inside the tensor and replaces the variable `j` simultaneously. -/

def exT : Term :=
  Term.reduce "add"
    (Term.binary ⟨"add", Sexp.list []⟩
      (Term.tensor [("i", 2), ("k", 2)] ⟨DType.real, []⟩ #[1, 2, 3, 4])
      (Term.var "j" ⟨DType.bint 2, []⟩))
    [("k", ⟨DType.bint 2, []⟩)]
def exσ : Subst := [("i", Term.var "j" ⟨DType.bint 2, []⟩), ("j", Term.num 1 (DType.bint 2))]

example : boundFresh exT exσ = true := by decide +kernel
example : stop exT exσ = false := by decide
example : (denoteSubs exσ [("j", Sem.ofNat 0)]).isSome = true := by
  simp [exσ, denoteSubs, denote, Env.lookup]
/-- A capturing substitution is rejected: `k ↦ …` is shadowed, but `i ↦ k` would be captured. -/
example : boundFresh exT [("i", Term.var "k" ⟨DType.bint 2, []⟩)] = false := by decide +kernel

/-- The theorem applies to the example: the traversal result means the `Subs` node. -/
example : denote (substitute exT exσ) [("j", Sem.ofNat 0)] = denote (Term.subs exT exσ) [("j", Sem.ofNat 0)] :=
  substitute_sound_subs exT exσ _ (by decide +kernel) (by simp [exσ, denoteSubs, denote, Env.lookup])

/-! ## `SubstituteInterpretation.interpret`: only names fresh in the ORIGINAL node (86bd40d) -/

theorem interpretNode_denote (new : Bool) (origOwn eFresh : List Name) (e : Term) (σ : Subst)
    (env b : Env) (hb : denoteSubs σ env = some b) :
    denote (interpretNode new origOwn eFresh e σ) env =
      denote e (b.filter (fun q => decide (q.1 ∈ eFresh) && (!new || decide (q.1 ∈ origOwn))) ++ env) := by
  have h := denoteSubs_filter (fun k => decide (k ∈ eFresh) && (!new || decide (k ∈ origOwn))) σ env b hb
  unfold interpretNode freshSubs
  split
  · rename_i heq
    rw [heq, denoteSubs] at h
    rw [← Option.some.inj h]; rfl
  · rename_i p ps heq
    rw [← heq, subs_denote, h]; rfl

/-- With HEAD's rule the rebuilt node, evaluated to any `e` with the meaning of the rebuilt `r`,
    gets exactly the substitutions of the names the original node introduces — provided the names
    of the original node that are still free in `e` are reported fresh by `e`. -/
theorem interpret_new_sound (e r : Term) (origOwn eFresh : List Name) (σ : Subst) (env : Env) :
    (∀ env', denote e env' = denote r env') →
    (∀ k ∈ origOwn, k ∈ tkeys σ → k ∈ e.fv → k ∈ eFresh) →
    (denoteSubs σ env).isSome = true →
    denote (interpretNode true origOwn eFresh e σ) env = denote (wrapOwn r origOwn σ) env := by
  intro her hfresh h
  obtain ⟨b, hb⟩ := Option.isSome_iff_exists.mp h
  rw [interpretNode_denote _ _ _ _ _ _ b hb, wrapOwn_denote _ _ _ _ b hb, ← her]
  apply denote_coincidence
  intro n hn
  rw [lookup_append_or, lookup_append_or,
    lookup_filter (fun k => decide (k ∈ eFresh) && (!true || decide (k ∈ origOwn))),
    lookup_filter (fun k => decide (k ∈ origOwn))]
  by_cases ho : n ∈ origOwn
  · by_cases hf : n ∈ eFresh
    · simp [ho, hf]
    · have hk : n ∉ tkeys σ := fun hk => hf (hfresh n ho hk hn)
      have : b.lookup n = none := by
        rw [lookup_eq_none_iff, denoteSubs_keys σ env b hb]; exact hk
      simp [ho, hf, this]
  · simp [ho]

/-! ### The pinned behaviour: every key fresh in the REBUILT node is applied again -/

def wS : Term := Term.tensor [("i", 2)] ⟨DType.real, []⟩ #[10, 20]
def wU : Term := Term.tensor [("j", 2)] ⟨DType.real, []⟩ #[1, 2]
def wT : Term := Term.binary ⟨"add", Sexp.list []⟩ wS wU
def wσ : Subst := [("j", Term.num 1 (DType.bint 2)), ("i", Term.var "j" ⟨DType.bint 2, []⟩)]
/-- `s(i=j) + u(j=1)`, the rebuilt node after evaluation. -/
def wE : Term := Term.tensor [("j", 2)] ⟨DType.real, []⟩ #[12, 22]
def wEnv : Env := [("j", Sem.ofNat 0)]

theorem interpret_old_witness :
    (denote (interpretNode false [] ["j"] wE wσ) wEnv).map (·.get []) = some 22 ∧
    (denote (Term.subs wT wσ) wEnv).map (·.get []) = some 12 ∧
    (denote (interpretNode true [] ["j"] wE wσ) wEnv).map (·.get []) = some 12 := by
  refine ⟨?_, ?_, ?_⟩
  · simp [interpretNode, freshSubs, wE, wσ, wEnv, denote, denoteSubs, Env.lookup, Sem.scalar,
      Sem.toNat?, Sem.ofNat, ravel, prodList]
  · simp [wT, wS, wU, wσ, wEnv, denote, denoteSubs, Env.lookup, Sem.scalar,
      Sem.toNat?, Sem.ofNat, ravel, prodList, evalBinary, Sem.zip?, broadcastShapes,
      broadcastShapes.go, allIdx, binop, XR.add, bcastIdx]
    decide +kernel
  · simp [interpretNode, freshSubs, wE, wσ, wEnv, denote, Env.lookup, Sem.scalar,
      Sem.toNat?, Sem.ofNat, ravel, prodList]

/-! ## HEAD: the original node's own keys that are inputs of the rebuilt node -/

theorem interpretHead_denote (origOwn : List Name) (e : Term) (σ : Subst)
    (env b : Env) (hb : denoteSubs σ env = some b) :
    denote (interpretHead origOwn e σ) env =
      denote e (b.filter (fun q => decide (q.1 ∈ origOwn) && decide (q.1 ∈ e.fv)) ++ env) := by
  have h := denoteSubs_filter (fun k => decide (k ∈ origOwn) && decide (k ∈ e.fv)) σ env b hb
  unfold interpretHead freshSubsHead
  split
  · rename_i heq
    rw [heq, denoteSubs] at h
    rw [← Option.some.inj h]; rfl
  · rename_i p ps heq
    rw [← heq, subs_denote, h]; rfl

/-- HEAD's rule (`k in self.fresh and k in expr.inputs`) needs no freshness side condition: the
    keys dropped by the `∈ e.fv` filter cannot influence `e` (coincidence), so the rebuilt node —
    evaluated to any `e` with the meaning of the rebuilt `r` — gets exactly the substitutions of
    the names the original node introduces. -/
theorem interpret_head_sound (e r : Term) (origOwn : List Name) (σ : Subst) (env : Env) :
    (∀ env', denote e env' = denote r env') →
    (denoteSubs σ env).isSome = true →
    denote (interpretHead origOwn e σ) env = denote (wrapOwn r origOwn σ) env := by
  intro her h
  obtain ⟨b, hb⟩ := Option.isSome_iff_exists.mp h
  rw [interpretHead_denote _ _ _ _ b hb, wrapOwn_denote _ _ _ _ b hb, ← her]
  apply denote_coincidence
  intro n hn
  rw [lookup_append_or, lookup_append_or,
    lookup_filter (fun k => decide (k ∈ origOwn) && decide (k ∈ e.fv)),
    lookup_filter (fun k => decide (k ∈ origOwn))]
  simp [hn]

/-! ### The 86bd40d rule drops a substitution when the base interpretation rewrites the node

`Cat('i', (p + x,))` is rebuilt by `eager_cat` into the Binary `p + x`, whose fresh set is empty
while the original Cat introduces `i`. -/

def fE : Term :=
  Term.binary ⟨"add", Sexp.list []⟩ (Term.tensor [("i", 3)] ⟨DType.real, []⟩ #[0, 1, 2])
    (Term.var "x" ⟨DType.real, []⟩)
def fσ : Subst := [("i", Term.num 1 (DType.bint 3))]
def fEnv : Env := [("i", Sem.ofNat 0), ("x", Sem.scalar 0)]

theorem interpret_fix86_witness :
    (denote (interpretNode true ["i"] [] fE fσ) fEnv).map (·.get []) = some 0 ∧
    (denote (interpretHead ["i"] fE fσ) fEnv).map (·.get []) = some 1 ∧
    (denote (Term.subs fE fσ) fEnv).map (·.get []) = some 1 := by
  refine ⟨?_, ?_, ?_⟩
  · simp [interpretNode, freshSubs, fE, fσ, fEnv, denote, Env.lookup, Sem.scalar,
      Sem.toNat?, Sem.ofNat, ravel, prodList, evalBinary, Sem.zip?, broadcastShapes,
      broadcastShapes.go, allIdx, binop, XR.add, bcastIdx]
    decide +kernel
  · simp [interpretHead, freshSubsHead, Term.fv, fE, fσ, fEnv, denote, denoteSubs, Env.lookup, Sem.scalar,
      Sem.toNat?, Sem.ofNat, ravel, prodList, evalBinary, Sem.zip?, broadcastShapes,
      broadcastShapes.go, allIdx, binop, XR.add, bcastIdx]
    decide +kernel
  · simp [fE, fσ, fEnv, denote, denoteSubs, Env.lookup, Sem.scalar,
      Sem.toNat?, Sem.ofNat, ravel, prodList, evalBinary, Sem.zip?, broadcastShapes,
      broadcastShapes.go, allIdx, binop, XR.add, bcastIdx]
    decide +kernel

end FV.Props.C04
