/-
  Props/C05.lean — bound variables are invisible: no leakage, renaming-invariant, no capture.
  Model: Model/Term.lean (`Term`, `denote`, `Term.fv`) + Model/C05.lean.

  Props/C05/Coincidence.lean   denote_coincidence (+ list companions): `denote t` depends only on `t.fv`
  Props/C05/Alpha.lean         bound_not_free (every binder class), bound_invisible, cat_same_name_witness,
                               alpha_rename_reduce / _contraction / _lambda / _cat / _independent / _subs
  Props/C05/Subst.lean         subs_under_reduce / _lambda / _contraction / _subs, subs_under_binder,
                               capture_witness (the side condition is needed), self_substitution_ok
  Props/C05/Mangle.lean        hasMarker_mangledName, stampOf_mangledName, mangledName_stamp_inj,
                               alphaMangle_ok, alphaMangle_fresh, reflectT_inv, reflect_marks, no_capture_user,
                               reflect_subsFresh, mangle_bound_not_free,
                               shared_binder_witness_names, shared_binder_unfold_witness (KF-shared-binder-unfold),
                               distinct_without_cache, distinct_binders_unfold_ok
  Props/C05/Fusion.lean        alphaMangle_mixed_ok (mixed bound sets produced by fusing nested binders),
                               mixed_bound_per_name, mixed_bound_whole_term_witness, mixed_bound_capture_witness
  Props/C05/Gensym.lean        gensym_source_form (over Gen/C05Gensym.lean, regenerated from interpreter.py every run),
                               supply_injective, supply_fresh_for_old, per_context_supply_witness
  Props/C05/CallForm.lean      callPairs (the ONE Subs that x(*args, **kwargs) builds), call_simultaneous,
                               sequential_eq_simultaneous (positional-then-keyword = one call only when no keyword key
                               is a positional key / free in a positional value), sequential_call_witness (f(j, j=2))
  this file                    alpha_rename_denote: the six class statements as one

  All statements are for every term / environment / substitution / cache state (structural induction over
  `Term`); the witnesses are concrete.  Not proved here: soundness of the optimizer's merge rule under its
  freshness hypothesis (C02/C08), and the binder classes the shared `Term` lacks (MarkovProduct, Integrate,
  Scatter, Approximate: harness only, against a Python oracle).
-/
import FunsorVerif.Props.C05.Coincidence
import FunsorVerif.Props.C05.Alpha
import FunsorVerif.Props.C05.Subst
import FunsorVerif.Props.C05.Mangle
import FunsorVerif.Props.C05.Fusion
import FunsorVerif.Props.C05.CallForm
import FunsorVerif.Props.C05.Gensym
namespace FV.Props.C05
open FV FV.C05

/-- **The user's choice of a bound name is irrelevant.**  For every binder class: renaming a root binder
    `x` to any `y` that is not itself a root binder and not free in the term preserves the value at every
    environment. -/
theorem alpha_rename_denote (t : Term) (x y : Name) (d : Dom)
    (hx : x ∈ bound t) (hy : y ∉ bound t) (hfree : y ∉ t.fv) (env : Env) :
    denote (renameRoot x y d t) env = denote t env := by
  cases t with
  | reduce op a vars => exact alpha_rename_reduce op a vars x y d hx hy hfree env
  | contraction r bo vars ts => exact alpha_rename_contraction r bo vars ts x y d hx hy hfree env
  | lambda n size b =>
    simp only [bound, List.mem_singleton] at hx hy; subst hx
    exact alpha_rename_lambda x y size b d hfree hy env
  | cat n pn sizes ps =>
    simp only [bound, List.mem_singleton] at hx hy; subst hx
    exact alpha_rename_cat n x y sizes ps d (fun h => hfree (by simp only [Term.fv]; exact List.mem_cons_of_mem _ h)) hy env
  | subs a σ =>
    exact alpha_rename_subs a σ x y d hx hy
      (fun h => hfree (by simp only [Term.fv]; exact List.mem_append_left _ h)) env
  | independent fn rv bv dv size =>
    simp only [bound, List.mem_cons, List.not_mem_nil, or_false, not_or] at hx hy
    refine alpha_rename_independent fn rv bv dv x y size d hx hy.1 hy.2 (fun h => hfree ?_) env
    simp only [Term.fv, List.mem_cons, List.mem_filter]
    right; exact ⟨h, by simp [hy.1, hy.2]⟩
  | var _ _ => simp [bound] at hx
  | num _ _ => simp [bound] at hx
  | tensor _ _ _ => simp [bound] at hx
  | unary _ _ => simp [bound] at hx
  | binary _ _ _ => simp [bound] at hx
  | slice _ _ _ _ _ => simp [bound] at hx
  | stack _ _ => simp [bound] at hx
  | align _ _ => simp [bound] at hx
  | finitary _ _ => simp [bound] at hx
  | delta _ => simp [bound] at hx

/-- The hypotheses are satisfiable: `λ i. f(i, j)` renamed to `λ k. …`; and they exclude renaming to the
    free name `j` (which would capture it). -/
example : let t := Term.lambda "i" 2 (Term.tensor [("i", 2), ("j", 2)] ⟨DType.real, []⟩ #[1, 2, 3, 4])
    "i" ∈ bound t ∧ "k" ∉ bound t ∧ "k" ∉ t.fv ∧ "j" ∈ t.fv := by
  simp [bound, Term.fv]

end FV.Props.C05
