/-
  Props/C05/Alpha.lean — bound names are not free (`bound_not_free`, one corollary per binder class,
  `bound_invisible`) and the user's choice of a bound name is irrelevant (`alpha_rename_*`: renaming a
  root binder the way the class's `_alpha_convert` does — body substituted `old ↦ Variable(new)`, binder
  field renamed — preserves `denote` at every environment, provided the new name is not free in the scope).
-/
import FunsorVerif.Props.C05.Coincidence
namespace FV.Props.C05
open FV FV.C05

/-! ## Bound names are not free -/

/-- The root binders are distinct from the names the node takes from outside the binders' scope
    (what `_alpha_mangle` establishes: binders are marked, outside names are not). -/
def RootFresh (t : Term) : Prop := ∀ b ∈ bound t, b ∉ external t

theorem not_mem_filter_contains {b : Name} {l ks : List Name} (h : b ∈ ks) :
    b ∉ l.filter (fun m => !ks.contains m) := by
  simp [List.mem_filter, h]

/-- funsor's `.bound ∩ .inputs = ∅`, for every binder class. -/
theorem bound_not_free : ∀ (t : Term), RootFresh t → ∀ b ∈ bound t, b ∉ t.fv
  | Term.reduce op a vars, _, b, hb => by
    simp only [bound] at hb; simp only [Term.fv]; exact not_mem_filter_contains hb
  | Term.contraction r bo vars ts, _, b, hb => by
    simp only [bound] at hb; simp only [Term.fv]; exact not_mem_filter_contains hb
  | Term.lambda n size body, _, b, hb => by
    simp only [bound, List.mem_singleton] at hb; subst hb; simp [Term.fv, List.mem_filter]
  | Term.subs a σ, h, b, hb => by
    have hext := h b hb
    simp only [bound] at hb; simp only [external] at hext
    simp only [Term.fv, List.mem_append, not_or]
    exact ⟨not_mem_filter_contains hb, hext⟩
  | Term.cat n pn sizes ps, h, b, hb => by
    have hext := h b hb
    simp only [bound, List.mem_singleton] at hb; subst hb
    simp only [external, List.mem_singleton] at hext
    simp [Term.fv, List.mem_filter, hext]
  | Term.independent fn rv bv dv size, h, b, hb => by
    have hext := h b hb
    simp only [external, List.mem_singleton] at hext
    simp only [bound, List.mem_cons, List.not_mem_nil, or_false] at hb
    simp only [Term.fv, List.mem_cons, List.mem_filter, not_or]
    refine ⟨hext, ?_⟩
    rcases hb with hb | hb <;> subst hb <;> simp
  | Term.var _ _, _, b, hb => by simp [bound] at hb
  | Term.num _ _, _, b, hb => by simp [bound] at hb
  | Term.tensor _ _ _, _, b, hb => by simp [bound] at hb
  | Term.unary _ _, _, b, hb => by simp [bound] at hb
  | Term.binary _ _ _, _, b, hb => by simp [bound] at hb
  | Term.slice _ _ _ _ _, _, b, hb => by simp [bound] at hb
  | Term.stack _ _, _, b, hb => by simp [bound] at hb
  | Term.align _ _, _, b, hb => by simp [bound] at hb
  | Term.finitary _ _, _, b, hb => by simp [bound] at hb
  | Term.delta _, _, b, hb => by simp [bound] at hb

theorem reduce_bound_not_free (op : String) (a : Term) (vars : List (Name × Dom)) :
    ∀ b ∈ vars.map (·.1), b ∉ (Term.reduce op a vars).fv :=
  bound_not_free (Term.reduce op a vars) (fun _ _ => by simp [external])
theorem lambda_bound_not_free (n : Name) (size : Nat) (b : Term) : n ∉ (Term.lambda n size b).fv :=
  bound_not_free _ (fun _ _ => by simp [external]) n (by simp [bound])
theorem contraction_bound_not_free (r bo : String) (vars : List (Name × Dom)) (ts : List Term) :
    ∀ b ∈ vars.map (·.1), b ∉ (Term.contraction r bo vars ts).fv :=
  bound_not_free (Term.contraction r bo vars ts) (fun _ _ => by simp [external])
theorem subs_bound_not_free (a : Term) (σ : List (Name × Term))
    (h : ∀ k ∈ σ.map (·.1), k ∉ fvSubs σ) : ∀ k ∈ σ.map (·.1), k ∉ (Term.subs a σ).fv :=
  bound_not_free (Term.subs a σ) (fun b hb => by
    simp only [bound] at hb; simp only [external]; exact h b hb)
theorem cat_bound_not_free (n pn : Name) (sizes : List Nat) (ps : List Term) (h : pn ≠ n) :
    pn ∉ (Term.cat n pn sizes ps).fv :=
  bound_not_free _ (fun b hb => by simp [bound] at hb; subst hb; simpa [external] using h) pn (by simp [bound])
theorem independent_bound_not_free (fn : Term) (rv bv dv : Name) (size : Nat) (h1 : bv ≠ rv) (h2 : dv ≠ rv) :
    bv ∉ (Term.independent fn rv bv dv size).fv ∧ dv ∉ (Term.independent fn rv bv dv size).fv := by
  have hf : RootFresh (Term.independent fn rv bv dv size) := by
    intro b hb; simp [bound] at hb; rcases hb with hb | hb <;> subst hb <;> simpa [external]
  exact ⟨bound_not_free _ hf bv (by simp [bound]), bound_not_free _ hf dv (by simp [bound])⟩

/-- Without `RootFresh` the statement is false at the *user* level: `Cat("i", parts)` binds `part_name = "i"`
    and has the input `"i"`.  This is why `reflect` mangles the binder (Props/C05/Mangle.lean). -/
theorem cat_same_name_witness :
    ¬ (∀ b ∈ bound (Term.cat "i" "i" [1] [Term.var "i" ⟨DType.bint 1, []⟩]),
        b ∉ (Term.cat "i" "i" [1] [Term.var "i" ⟨DType.bint 1, []⟩]).fv) := by
  simp [bound, Term.fv]

/-- A value never depends on what the environment says about a bound name (no leakage). -/
theorem bound_invisible (t : Term) (h : RootFresh t) (b : Name) (hb : b ∈ bound t) (v : Sem) (env : Env) :
    denote t ((b, v) :: env) = denote t env := by
  apply denote_coincidence
  intro n hn
  have : ¬ b = n := fun e => bound_not_free t h b hb (e ▸ hn)
  rw [lookup_cons]; simp [this]

/-! ## Renaming a binder -/

/-- Rename the key `x` to `y` in a block of bindings. -/
def renEnv (x y : Name) (a : Env) : Env := a.map fun (kv : Name × Sem) => (renName x y kv.1, kv.2)

theorem not_mem_lookup_none (a : Env) (n : Name) (h : n ∉ a.map (·.1)) : a.lookup n = none := by
  induction a with
  | nil => rfl
  | cons kv a ih =>
    obtain ⟨k, v⟩ := kv
    simp only [List.map_cons, List.mem_cons, not_or] at h
    have hkn : ¬ k = n := fun e => h.1 e.symm
    rw [lookup_cons]; simp [hkn, ih h.2]

theorem lookup_renEnv (x y : Name) (a : Env) (hy : y ∉ a.map (·.1)) (n : Name) :
    (renEnv x y a).lookup n = if n = y then a.lookup x else if n = x then none else a.lookup n := by
  induction a with
  | nil => simp [renEnv, Env.lookup]
  | cons kv a ih =>
    obtain ⟨k, v⟩ := kv
    simp only [List.map_cons, List.mem_cons, not_or] at hy
    have ih := ih hy.2
    simp only [renEnv, List.map_cons] at ih ⊢
    rw [lookup_cons, lookup_cons, lookup_cons, ih]
    unfold renName
    by_cases hkx : k = x
    · subst hkx
      by_cases hny : n = y
      · subst hny; simp
      · have hyn : ¬ y = n := fun e => hny e.symm
        by_cases hnk : n = k
        · subst hnk; simp [hny, hyn]
        · have hkn : ¬ k = n := fun e => hnk e.symm
          simp [hny, hnk, hyn, hkn]
    · by_cases hny : n = y
      · subst hny
        have hkn : ¬ k = n := fun e => hy.1 e.symm
        simp [hkx, hkn]
      · by_cases hkn : k = n
        · subst hkn; simp [hkx, hny]
        · simp [hkx, hny, hkn]

theorem keys_renEnv (x y : Name) (a : Env) : (renEnv x y a).map (·.1) = (a.map (·.1)).map (renName x y) := by
  simp [renEnv, List.map_map, Function.comp_def]

theorem denote_renBody (x y : Name) (d : Dom) (b : Term) (e : Env) (v : Sem) (h : e.lookup y = some v) :
    denote (renBody x y d b) e = denote b ((x, v) :: e) := by
  simp [renBody, denote, denoteSubs, h]

theorem denote_renBody_none (x y : Name) (d : Dom) (b : Term) (e : Env) (h : e.lookup y = none) :
    denote (renBody x y d b) e = none := by
  simp [renBody, denote, denoteSubs, h]

theorem mem_keys_lookup_some (a : Env) (x : Name) (h : x ∈ a.map (·.1)) : ∃ v, a.lookup x = some v := by
  cases hl : a.lookup x with
  | some v => exact ⟨v, rfl⟩
  | none => exact absurd h (lookup_none_not_mem a x hl)

/-- The core of every alpha-renaming statement: evaluate the renamed body under the renamed block of
    binder values = evaluate the body under the original block. -/
theorem alpha_core (x y : Name) (d : Dom) (b : Term) (pre env : Env)
    (hx : x ∈ pre.map (·.1)) (hy : y ∉ pre.map (·.1))
    (hfree : ∀ n ∈ b.fv, n ∉ pre.map (·.1) → n ≠ y) :
    denote (renBody x y d b) (renEnv x y pre ++ env) = denote b (pre ++ env) := by
  obtain ⟨v, hv⟩ := mem_keys_lookup_some pre x hx
  have hly : (renEnv x y pre ++ env).lookup y = some v := by
    rw [lookup_append, lookup_renEnv x y pre hy]; simp [hv]
  rw [denote_renBody x y d b _ v hly]
  apply denote_coincidence
  intro n hn
  rw [lookup_cons, lookup_append, lookup_append, lookup_renEnv x y pre hy]
  by_cases hnx : x = n
  · subst hnx; simp [hv]
  · have hnx' : n ≠ x := fun e => hnx e.symm
    by_cases hny : n = y
    · subst hny
      have : n ∈ pre.map (·.1) := Decidable.byContradiction fun hc => hfree n hn hc rfl
      exact absurd this hy
    · simp [hnx, hnx', hny]

theorem assignments_renVars (x y : Name) : ∀ (vars : List (Name × Dom)),
    assignments (renVars x y vars) = (assignments vars).map (List.map (renEnv x y))
  | [] => by simp [renVars, assignments, renEnv]
  | (n, d) :: rest => by
    have ih := assignments_renVars x y rest
    simp only [renVars, List.map_cons] at ih ⊢
    unfold assignments
    rw [ih]
    cases hr : assignments rest with
    | none => cases d.dtype <;> cases d.shape <;> simp
    | some tails =>
      cases d.dtype with
      | real => simp
      | bint k =>
        cases d.shape with
        | cons _ _ => simp
        | nil =>
          simp [List.map_flatMap, renEnv, Function.comp_def]

theorem mapM_map_opt {α β γ : Type} (f : α → β) (g : β → Option γ) (l : List α) :
    (l.map f).mapM g = l.mapM (fun x => g (f x)) := by
  induction l with
  | nil => rfl
  | cons x xs ih => simp [List.mapM_cons, ih]

theorem denoteAll_eq_mapM (t : Term) : ∀ (es : List Env), denoteAll t es = es.mapM (denote t)
  | [] => by simp [denoteAll]
  | e :: es => by
    simp only [denoteAll, List.mapM_cons, denoteAll_eq_mapM t es]
    cases denote t e <;> cases es.mapM (denote t) <;> rfl

theorem renVars_keys (x y : Name) (vars : List (Name × Dom)) :
    (renVars x y vars).map (·.1) = (vars.map (·.1)).map (renName x y) := by
  simp [renVars, List.map_map, Function.comp_def]

theorem denoteProd_renBody (x y : Name) (d : Dom) (bo : String) (e e' : Env) :
    ∀ (ts : List Term), (∀ t ∈ ts, denote (renBody x y d t) e = denote t e') →
      denoteProd bo (ts.map (renBody x y d)) e = denoteProd bo ts e'
  | [], _ => by simp [denoteProd]
  | [t], h => by simp only [List.map, denoteProd]; exact h t (by simp)
  | t :: t' :: ts, h => by
    have ih := denoteProd_renBody x y d bo e e' (t' :: ts) (fun u hu => h u (List.mem_cons_of_mem _ hu))
    simp only [List.map_cons] at ih ⊢
    simp only [denoteProd]
    rw [h t (by simp), ih]

theorem denoteNth_renBody (x y : Name) (d : Dom) (e e' : Env) :
    ∀ (ts : List Term) (i : Nat), (∀ t ∈ ts, denote (renBody x y d t) e = denote t e') →
      denoteNth (ts.map (renBody x y d)) i e = denoteNth ts i e'
  | [], i, _ => by simp [denoteNth]
  | t :: ts, 0, h => by simp only [List.map_cons, denoteNth]; exact h t (by simp)
  | t :: ts, i + 1, h => by
    simp only [List.map_cons, denoteNth]
    exact denoteNth_renBody x y d e e' ts i (fun u hu => h u (List.mem_cons_of_mem _ hu))

theorem fvList_mem {t : Term} {ts : List Term} {n : Name} (ht : t ∈ ts) (hn : n ∈ t.fv) : n ∈ fvList ts := by
  induction ts with
  | nil => simp at ht
  | cons u us ih =>
    simp only [fvList, List.mem_append]
    rcases List.mem_cons.mp ht with h | h
    · subst h; exact Or.inl hn
    · exact Or.inr (ih h)

/-- **The user's choice of a bound name is irrelevant** — `Reduce`. -/
theorem alpha_rename_reduce (op : String) (a : Term) (vars : List (Name × Dom)) (x y : Name) (d : Dom)
    (hx : x ∈ vars.map (·.1)) (hy : y ∉ vars.map (·.1)) (hfree : y ∉ (Term.reduce op a vars).fv) (env : Env) :
    denote (renameRoot x y d (Term.reduce op a vars)) env = denote (Term.reduce op a vars) env := by
  simp only [renameRoot, denote, assignments_renVars]
  cases ha : assignments vars with
  | none => rfl
  | some asgs =>
    simp only [Option.map_some, denoteAll_eq_mapM, mapM_map_opt]
    rw [mapM_congr_opt _ (fun z => denote a (z ++ env)) asgs (fun z hz => by
      have hk := assignments_keys vars asgs ha z hz
      exact alpha_core x y d a z env (hk ▸ hx) (hk ▸ hy) (fun n hn hnot heq => by
        subst heq
        exact hfree (by simp only [Term.fv]; exact mem_filter_not_contains hn (hk ▸ hnot))))]

/-- — `Contraction`. -/
theorem alpha_rename_contraction (r bo : String) (vars : List (Name × Dom)) (ts : List Term) (x y : Name) (d : Dom)
    (hx : x ∈ vars.map (·.1)) (hy : y ∉ vars.map (·.1)) (hfree : y ∉ (Term.contraction r bo vars ts).fv)
    (env : Env) :
    denote (renameRoot x y d (Term.contraction r bo vars ts)) env = denote (Term.contraction r bo vars ts) env := by
  simp only [renameRoot, denote, assignments_renVars]
  cases ha : assignments vars with
  | none => rfl
  | some asgs =>
    simp only [Option.map_some, mapM_map_opt]
    rw [mapM_congr_opt _ (fun z => denoteProd bo ts (z ++ env)) asgs (fun z hz => by
      have hk := assignments_keys vars asgs ha z hz
      apply denoteProd_renBody
      intro t ht
      exact alpha_core x y d t z env (hk ▸ hx) (hk ▸ hy) (fun n hn hnot heq => by
        subst heq
        exact hfree (by simp only [Term.fv]; exact mem_filter_not_contains (fvList_mem ht hn) (hk ▸ hnot))))]

/-- — `Lambda`. -/
theorem alpha_rename_lambda (x y : Name) (size : Nat) (b : Term) (d : Dom)
    (hfree : y ∉ (Term.lambda x size b).fv) (hne : y ≠ x) (env : Env) :
    denote (renameRoot x y d (Term.lambda x size b)) env = denote (Term.lambda x size b) env := by
  simp only [renameRoot, denote, denoteAll_eq_mapM, mapM_map_opt, renName, if_true]
  rw [mapM_congr_opt _ (fun i => denote b ((x, Sem.ofNat i) :: env)) (List.range size) (fun i _ => by
    have := alpha_core x y d b [(x, Sem.ofNat i)] env (by simp) (by simpa using hne) (fun n hn hnot heq => by
      subst heq
      exact hfree (by simp [Term.fv, List.mem_filter, hn, hne]))
    simpa [renEnv, renName] using this)]

/-- — `Cat` (`part_name`). -/
theorem alpha_rename_cat (n pn y : Name) (sizes : List Nat) (ps : List Term) (d : Dom)
    (hfree : y ∉ (fvList ps).filter (· != pn)) (hne : y ≠ pn) (env : Env) :
    denote (renameRoot pn y d (Term.cat n pn sizes ps)) env = denote (Term.cat n pn sizes ps) env := by
  simp only [renameRoot, denote, renName, if_true]
  cases (env.lookup n).bind Sem.toNat? with
  | none => rfl
  | some g =>
    simp only []
    cases locate sizes g 0 with
    | none => rfl
    | some kl =>
      simp only []
      apply denoteNth_renBody
      intro t ht
      have := alpha_core pn y d t [(pn, Sem.ofNat kl.2)] env (by simp) (by simpa using hne) (fun m hm hnot heq => by
        subst heq
        exact hfree (by simp [List.mem_filter, fvList_mem ht hm, hne]))
      simpa [renEnv, renName] using this

/-- — `Independent` (either binder: `bint_var` or `diag_var`). -/
theorem alpha_rename_independent (fn : Term) (rv bv dv x y : Name) (size : Nat) (d : Dom)
    (hx : x = bv ∨ x = dv) (hy1 : y ≠ bv) (hy2 : y ≠ dv) (hfree : y ∉ fn.fv) (env : Env) :
    denote (renameRoot x y d (Term.independent fn rv bv dv size)) env =
      denote (Term.independent fn rv bv dv size) env := by
  simp only [renameRoot, denote]
  cases env.lookup rv with
  | none => rfl
  | some xv =>
    simp only [denoteAll_eq_mapM, mapM_map_opt]
    rw [mapM_congr_opt _ (fun i => denote fn ((dv, (⟨xv.shape.drop 1, fun idx => xv.get (i :: idx)⟩ : Sem))
        :: (bv, Sem.ofNat i) :: env)) (List.range size) (fun i _ => by
      have := alpha_core x y d fn [(dv, (⟨xv.shape.drop 1, fun idx => xv.get (i :: idx)⟩ : Sem)), (bv, Sem.ofNat i)] env
        (by rcases hx with h | h <;> simp [h]) (by simp [hy1, hy2]) (fun m hm _ heq => by
          subst heq; exact hfree hm)
      simpa [renEnv] using this)]

theorem denoteSubs_renKeys (x y : Name) : ∀ (σ : List (Name × Term)) (env : Env),
    denoteSubs (σ.map fun (kv : Name × Term) => (renName x y kv.1, kv.2)) env = (denoteSubs σ env).map (renEnv x y)
  | [], env => by simp [denoteSubs, renEnv]
  | (k, t) :: rest, env => by
    simp only [List.map_cons, denoteSubs, denoteSubs_renKeys x y rest env]
    cases denote t env <;> cases denoteSubs rest env <;> simp [renEnv]

/-- — `Subs` (a substituted key). -/
theorem alpha_rename_subs (a : Term) (σ : List (Name × Term)) (x y : Name) (d : Dom)
    (hx : x ∈ σ.map (·.1)) (hy : y ∉ σ.map (·.1))
    (hfree : y ∉ a.fv.filter (fun n => !(σ.map (·.1)).contains n)) (env : Env) :
    denote (renameRoot x y d (Term.subs a σ)) env = denote (Term.subs a σ) env := by
  simp only [renameRoot, denote, denoteSubs_renKeys]
  cases hb : denoteSubs σ env with
  | none => rfl
  | some b =>
    simp only [Option.map_some]
    have hk := denoteSubs_keys σ env b hb
    exact alpha_core x y d a b env (hk ▸ hx) (hk ▸ hy) (fun n hn hnot heq => by
      subst heq
      exact hfree (mem_filter_not_contains hn (hk ▸ hnot)))

end FV.Props.C05
