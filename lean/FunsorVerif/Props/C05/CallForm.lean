/-
  Props/C05/CallForm.lean — the surface forms of ONE substitution call.

  `Funsor.__call__` (funsor/terms.py) desugars `x(a₀, …, a_{p-1}, k = v, …)` to ONE `Subs` whose pairs are
  `callPairs x.inputs args kwargs`: the leading inputs zipped with the positional arguments, a keyword
  replacing/adding the pair of its input, keywords that are not inputs dropped.  The keys of that one call are
  its binders: every value — positional or keyword — is evaluated in the CALLER's environment
  (`call_simultaneous`).  Binding the positional arguments first and the keywords on the result (two `Subs` in
  sequence) is the same thing only when no keyword key is a positional key or free in a positional value
  (`sequential_eq_simultaneous`); without that side condition a keyword key captures the free variable of a
  positionally substituted value (`sequential_call_witness`: `f(j, j=2)`).
-/
import FunsorVerif.Props.C05.Subst
namespace FV.Props.C05
open FV FV.C05

/-- The pairs of the one `Subs` that `x(*args, **kwargs)` builds, `inputs` = `x.inputs` in order. -/
def callPairs : List Name → List Term → List (Name × Term) → List (Name × Term)
  | [], _, _ => []
  | k :: ks, args, kw =>
    match kw.lookup k, args with
    | some v, _ => (k, v) :: callPairs ks args.tail kw
    | none, a :: _ => (k, a) :: callPairs ks args.tail kw
    | none, [] => callPairs ks [] kw

/-- The keys of a call are inputs of the callee, in input order (nothing else is ever substituted). -/
theorem callPairs_keys_sublist : ∀ (ins : List Name) (args : List Term) (kw : List (Name × Term)),
    ((callPairs ins args kw).map (·.1)).Sublist ins
  | [], _, _ => by simp [callPairs]
  | k :: ks, args, kw => by
    simp only [callPairs]
    split
    · exact (callPairs_keys_sublist ks _ kw).cons_cons k
    · exact (callPairs_keys_sublist ks _ kw).cons_cons k
    · exact (callPairs_keys_sublist ks [] kw).cons k

theorem subs_step (a : Term) (σ : List (Name × Term)) (env : Env) :
    denote (Term.subs a σ) env =
      match denoteSubs σ env with
      | none => none
      | some s => denote a (s ++ env) := by
  simp only [denote]
  try (cases denoteSubs σ env <;> rfl)

/-- One call = one simultaneous substitution: all values (positional and keyword alike) are evaluated in the
    caller's environment `env`, none of them sees a key of the same call. -/
theorem call_simultaneous (x : Term) (ins : List Name) (args : List Term) (kw : List (Name × Term)) (env : Env) :
    denote (Term.subs x (callPairs ins args kw)) env =
      match denoteSubs (callPairs ins args kw) env with
      | none => none
      | some s => denote x (s ++ env) := subs_step x _ env

theorem denoteSubs_append : ∀ (σ τ : List (Name × Term)) (env : Env),
    denoteSubs (σ ++ τ) env =
      match denoteSubs σ env, denoteSubs τ env with
      | some a, some b => some (a ++ b)
      | _, _ => none
  | [], τ, env => by
    simp only [List.nil_append, denoteSubs]
    cases denoteSubs τ env <;> rfl
  | (n, t) :: σ, τ, env => by
    simp only [List.cons_append, denoteSubs, denoteSubs_append σ τ env]
    cases denote t env <;> cases denoteSubs σ env <;> cases denoteSubs τ env <;> rfl

/-- Positional arguments first, keywords on the result — equal to the one simultaneous call PROVIDED no keyword
    key is a positional key or free in a positional value. -/
theorem sequential_eq_simultaneous (t : Term) (pos kw : List (Name × Term)) (env : Env)
    (h : ∀ k ∈ kw.map (·.1), k ∉ pos.map (·.1) ∧ k ∉ fvSubs pos) :
    denote (Term.subs (Term.subs t pos) kw) env = denote (Term.subs t (pos ++ kw)) env := by
  rw [subs_step (Term.subs t pos) kw env, subs_step t (pos ++ kw) env, denoteSubs_append]
  cases hb : denoteSubs kw env with
  | none => cases denoteSubs pos env <;> rfl
  | some b =>
    have hkb := denoteSubs_keys kw env b hb
    simp only []
    rw [denote_subs_under t pos b env (fun n hn => h n (hkb ▸ hn))]
    cases hs : denoteSubs pos env with
    | none => rfl
    | some s =>
      simp only [List.append_assoc]
      apply denote_coincidence
      intro n _
      have hks := denoteSubs_keys pos env s hs
      exact lookup_swap b s env (fun m hm => hks ▸ (h m (hkb ▸ hm)).1) n

/-! ### Without the side condition the sequence is wrong: `f(j, j=2)` on `f = i` (inputs `i, j`) at `j = 1` -/

def seqT : Term := Term.var "i" ⟨DType.bint 3, []⟩
def seqPos : List (Name × Term) := [("i", Term.var "j" ⟨DType.bint 3, []⟩)]
def seqKw : List (Name × Term) := [("j", Term.num (XR.fin 2) (DType.bint 3))]
def seqEnv : Env := [("j", Sem.ofNat 1)]

theorem sequential_call_two_steps :
    getAt (denote (Term.subs (Term.subs seqT seqPos) seqKw) seqEnv) [] = some (XR.fin 2) := by
  simp [getAt, seqT, seqPos, seqKw, seqEnv, denote, denoteSubs, Env.lookup, Sem.ofNat, Sem.scalar]
theorem sequential_call_pairs :
    callPairs ["i", "j"] [Term.var "j" ⟨DType.bint 3, []⟩] seqKw = seqPos ++ seqKw := by
  simp [callPairs, seqPos, seqKw, List.lookup]
theorem sequential_call_one_call :
    getAt (denote (Term.subs seqT (callPairs ["i", "j"] [Term.var "j" ⟨DType.bint 3, []⟩] seqKw)) seqEnv) []
      = some (XR.fin 1) := by
  rw [sequential_call_pairs]
  simp [getAt, seqT, seqPos, seqKw, seqEnv, denote, denoteSubs, Env.lookup, Sem.ofNat, Sem.scalar]

/-- Binding the positional arguments first and the keywords afterwards is NOT the call's meaning. -/
theorem sequential_call_witness : ¬ (∀ (t : Term) (pos kw : List (Name × Term)) (env : Env),
    denote (Term.subs (Term.subs t pos) kw) env = denote (Term.subs t (pos ++ kw)) env) := by
  intro h
  have h1 := congrArg (fun o => getAt o []) (h seqT seqPos seqKw seqEnv)
  have h3 := sequential_call_one_call
  rw [sequential_call_pairs] at h3
  simp only [sequential_call_two_steps, h3] at h1
  exact absurd h1 (by decide)

/-- The hypothesis of `sequential_eq_simultaneous` is satisfiable (and excludes the witness). -/
example : ∀ k ∈ seqKw.map (·.1), k ∉ [("i", Term.var "k" ⟨DType.bint 3, []⟩)].map (·.1) ∧
    k ∉ fvSubs [("i", Term.var "k" ⟨DType.bint 3, []⟩)] := by
  intro k hk; simp [seqKw] at hk; subst hk; simp [fvSubs, Term.fv]

end FV.Props.C05
