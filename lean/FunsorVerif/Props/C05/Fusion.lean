/-
  Props/C05/Fusion.lean — binders created by FUSING nested binders (normalize / unfold:
  `Contraction(…, reduced_vars | v.reduced_vars, …)`), whose bound set mixes already-mangled names with
  fresh user names.

  `alphaMangle_mixed_ok`: `_alpha_mangle` as the code has it (per-name filter `"__BOUND" not in name`,
  Model/C05.lean `toMangle`) marks every binder of such a node.  `mixed_bound_whole_term_witness`,
  `mixed_bound_capture_witness`: a whole-term early exit ("a node that already has a marked binder keeps its
  names") leaves the user name as a real binder, and the later substitution `h(k = 'i')` is captured.
-/
import FunsorVerif.Props.C05.Mangle
namespace FV.Props.C05
open FV FV.C05

/-! ## Mixed bound sets (binders created by fusing nested binders)

`normalize` / `unfold` build `Contraction(…, reduced_vars | v.reduced_vars, …)`: a NEW node whose bound set
mixes names that are already mangled with fresh user names.  `_alpha_mangle` filters PER NAME
(`if "__BOUND" not in name`), so the user names are still renamed. -/

theorem lookupName_stampNames_not_mem {b : Name} : ∀ (names : List Name) (c : Nat), b ∉ names →
    lookupName (stampNames names c) b = b
  | [], _, _ => rfl
  | m :: names, c, h => by
    simp only [List.mem_cons, not_or] at h
    have hm : ¬ m = b := fun e => h.1 e.symm
    simp [stampNames, lookupName, hm, lookupName_stampNames_not_mem names (c + 1) h.2]

/-- `alphaMangle_ok` for a root whose binders are a MIX of user names and names stamped earlier: after
    `_alpha_mangle` every binder is stamped (hence marked); the already-stamped ones are kept. -/
theorem alphaMangle_mixed_ok (t : Term) (c : Nat)
    (hroot : ∀ b ∈ bound t, hasMarker b = false ∨ Stamped 0 c b)
    (hin : AllStamped 0 c (innerBound t)) :
    AllStamped 0 (alphaMangle t c).2 (allBound (alphaMangle t c).1) ∧
    (∀ b ∈ bound (alphaMangle t c).1, hasMarker b = true) := by
  have hb : ∀ b ∈ bound t, Stamped 0 (c + (toMangle t).length) (lookupName (stampNames (toMangle t) c) b) := by
    intro b hb
    by_cases hm : hasMarker b = true
    · have hnot : b ∉ toMangle t := by
        unfold toMangle; rw [mem_dedup]; simp [List.mem_filter, hm]
      rw [lookupName_stampNames_not_mem _ _ hnot]
      rcases hroot b hb with h | h
      · simp [h] at hm
      · exact h.mono (Nat.le_add_right _ _)
    · have hm' : hasMarker b = false := by simpa using hm
      have hmem : b ∈ toMangle t := by
        unfold toMangle; rw [mem_dedup]; simp [List.mem_filter, hb, hm']
      obtain ⟨k, h1, h2, h3⟩ := lookup_stampNames (toMangle t) c hmem
      exact ⟨b, k, h3, Nat.lt_of_le_of_lt (Nat.zero_le _) h1, h2⟩
  simp only [alphaMangle]
  constructor
  · intro b' hb'
    rw [allBound_mangleRoot, List.mem_append, List.mem_map] at hb'
    rcases hb' with ⟨b, hbb, rfl⟩ | hb'
    · exact hb b hbb
    · exact (hin b' hb').mono (Nat.le_add_right _ _)
  · intro b' hb'
    rw [bound_mangleRoot, List.mem_map] at hb'
    obtain ⟨b, hbb, rfl⟩ := hb'
    exact (hb b hbb).marked

/-- The variant "a term that already has a marked binder keeps its names" (whole-term early exit instead of
    the per-name filter). -/
def alphaMangleWholeTerm (t : Term) (counter : Nat) : Term × Nat :=
  if (bound t).any hasMarker then (t, counter) else alphaMangle t counter

/-- the fused binder `Σ_{i, j__BOUND_1} x[i, j__BOUND_1, k]` -/
def fusedT : Term :=
  Term.reduce "add" (Term.tensor [("i", 2), ("j__BOUND_1", 2), ("k", 2)] ⟨DType.real, []⟩
      #[XR.fin 1, XR.fin 2, XR.fin 3, XR.fin 4, XR.fin 5, XR.fin 6, XR.fin 7, XR.fin 8])
    [("i", ⟨DType.bint 2, []⟩), ("j__BOUND_1", ⟨DType.bint 2, []⟩)]

/-- The per-name filter (the code, `alphaMangle`) renames the fresh user name of a mixed bound set … -/
theorem mixed_bound_per_name : bound (alphaMangle fusedT 1).1 = ["i__BOUND_2", "j__BOUND_1"] := by
  decide +kernel

/-- … the whole-term early exit leaves it as a real, unmarked bound name. -/
theorem mixed_bound_whole_term_witness :
    bound (alphaMangleWholeTerm fusedT 1).1 = ["i", "j__BOUND_1"] ∧
    ¬ (∀ b ∈ bound (alphaMangleWholeTerm fusedT 1).1, hasMarker b = true) := by
  constructor
  · decide +kernel
  · intro h; exact absurd (h "i" (by decide +kernel)) (by decide +kernel)

def fusedσ : List (Name × Term) := [("k", Term.var "i" ⟨DType.bint 2, []⟩)]
def fusedEnv : Env := [("i", Sem.ofNat 1)]

set_option maxRecDepth 8000 in
theorem fused_capture_pushed :
    getAt (denote (pushUnder fusedσ (alphaMangleWholeTerm fusedT 1).1) fusedEnv) [] = some (XR.fin 18) := by
  have : (alphaMangleWholeTerm fusedT 1).1 = fusedT := by
    unfold alphaMangleWholeTerm
    have : (bound fusedT).any hasMarker = true := by decide +kernel
    simp [this]
  rw [this]
  simp [getAt, fusedT, fusedσ, fusedEnv, pushUnder, denote, denoteAll, denoteSubs, assignments, Env.lookup,
    List.range, List.range.loop, Sem.ofNat, Sem.scalar, Sem.toNat?, Sem.foldList, allIdx, foldOp, binop, ravel,
    prodList, XR.add]
  decide +kernel

set_option maxRecDepth 8000 in
theorem fused_capture_spec :
    getAt (denote (Term.subs fusedT fusedσ) fusedEnv) [] = some (XR.fin 20) := by
  simp [getAt, fusedT, fusedσ, fusedEnv, denote, denoteAll, denoteSubs, assignments, Env.lookup,
    List.range, List.range.loop, Sem.ofNat, Sem.scalar, Sem.toNat?, Sem.foldList, allIdx, foldOp, binop, ravel,
    prodList, XR.add]
  decide +kernel

/-- With the whole-term early exit the later substitution `h(k = 'i')` is captured: `substitute` pushes it
    under the unmarked binder `i` and the value changes (Σ_{i,j} x[i,j,i] = 18 instead of Σ_{a,b} x[a,b,1] = 20). -/
theorem mixed_bound_capture_witness :
    denote (pushUnder fusedσ (alphaMangleWholeTerm fusedT 1).1) fusedEnv ≠ denote (Term.subs fusedT fusedσ) fusedEnv := by
  intro h
  have := congrArg (fun o => getAt o []) h
  simp only [fused_capture_pushed, fused_capture_spec] at this
  exact absurd this (by decide +kernel)

/-- …while with the code's per-name filter the side condition of `subs_under_binder` holds for it. -/
theorem mixed_bound_no_capture : SubsFresh (alphaMangle fusedT 1).1 fusedσ := by
  intro b hb
  rw [mixed_bound_per_name] at hb
  simp at hb
  rcases hb with rfl | rfl <;> simp [fusedσ, fvSubs, Term.fv]

/-! ## `_alpha_convert` must substitute in EVERY sub-term

`alpha_rename_contraction` (Props/C05/Alpha.lean) is about `renameRoot`, which renames the binder list AND
substitutes `old ↦ Variable(new)` in all operands.  Renaming the binder list while substituting only in a subset
of the sub-terms (e.g. only those a particular sub-term's inputs mention) un-binds the remaining occurrences. -/

/-- rename the binder list, substitute in the FIRST operand only -/
def renameRootFirstOnly (old new : Name) (dom : Dom) : Term → Term
  | Term.contraction r b vars (t :: ts) => Term.contraction r b (renVars old new vars) (renBody old new dom t :: ts)
  | t => t

/-- `Σ_k m · f(k)`: the measure-like first operand does not mention `k`, the integrand-like second one does -/
def partialT : Term :=
  Term.contraction "add" "mul" [("k", ⟨DType.bint 2, []⟩)]
    [Term.num (XR.fin 1) DType.real, Term.tensor [("k", 2)] ⟨DType.real, []⟩ #[XR.fin 1, XR.fin 2]]

/-- the bound `k` is not free in the term, but IS free after the partial conversion: it has been un-bound -/
theorem partial_alpha_unbinds :
    "k" ∉ partialT.fv ∧ "k" ∈ (renameRootFirstOnly "k" "k__BOUND_1" ⟨DType.bint 2, []⟩ partialT).fv := by
  constructor <;> simp [partialT, renameRootFirstOnly, renVars, renName, renBody, Term.fv, fvList, fvSubs]

set_option maxRecDepth 8000 in
theorem partial_alpha_value_full :
    getAt (denote (renameRoot "k" "k__BOUND_1" ⟨DType.bint 2, []⟩ partialT) [("k", Sem.ofNat 0)]) [] = some (XR.fin 3) := by
  simp [getAt, partialT, renameRoot, renVars, renName, renBody, denote, denoteProd, denoteSubs, assignments, Env.lookup,
    List.range, List.range.loop, Sem.ofNat, Sem.scalar, Sem.toNat?, Sem.foldList, Sem.zip?, broadcastShapes,
    broadcastShapes.go, bcastIdx, allIdx, foldOp, binop, ravel, prodList, XR.add, XR.mul]
  decide +kernel

set_option maxRecDepth 8000 in
theorem partial_alpha_value_partial :
    getAt (denote (renameRootFirstOnly "k" "k__BOUND_1" ⟨DType.bint 2, []⟩ partialT) [("k", Sem.ofNat 0)]) [] = some (XR.fin 2) := by
  simp [getAt, partialT, renameRootFirstOnly, renVars, renName, renBody, denote, denoteProd, denoteSubs, assignments, Env.lookup,
    List.range, List.range.loop, Sem.ofNat, Sem.scalar, Sem.toNat?, Sem.foldList, Sem.zip?, broadcastShapes,
    broadcastShapes.go, bcastIdx, allIdx, foldOp, binop, ravel, prodList, XR.add, XR.mul]
  decide +kernel

/-- …and the value now depends on the caller's `k` (a free `k` of a sibling is merged with it): Σ_k f(k) = 3
    becomes 2·f(k) = 2 at k = 0, whereas the full conversion keeps 3 (`alpha_rename_contraction`). -/
theorem partial_alpha_witness :
    denote (renameRootFirstOnly "k" "k__BOUND_1" ⟨DType.bint 2, []⟩ partialT) [("k", Sem.ofNat 0)] ≠
      denote (renameRoot "k" "k__BOUND_1" ⟨DType.bint 2, []⟩ partialT) [("k", Sem.ofNat 0)] := by
  intro h
  have := congrArg (fun o => getAt o []) h
  simp only [partial_alpha_value_full, partial_alpha_value_partial] at this
  exact absurd this (by decide +kernel)

end FV.Props.C05
