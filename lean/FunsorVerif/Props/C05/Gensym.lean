/-
  Props/C05/Gensym.lean — the fresh-name supply (funsor/interpreter.py:148-156).

  `gensym_source_form`: obligation over the table regenerated from the source on every run
  (Gen/C05Gensym.lean): the counter is ONE module-global integer incremented by one per call, with no
  per-thread / per-context state.  `supply_injective`: under that model the supply never returns a name
  twice over the whole history — the fact `alphaMangle_fresh` / `reflect_marks` rest on.
  `per_context_supply_witness`: a counter kept per context (thread) violates it.
-/
import FunsorVerif.Gen.C05Gensym
import FunsorVerif.Props.C05.Mangle
namespace FV.Props.C05
open FV FV.C05

/-- The source of `gensym` has the form the model assumes. -/
theorem gensym_source_form :
    FV.Gen.C05.gensymForm.found = true ∧ FV.Gen.C05.gensymForm.counterIsModuleGlobal = true ∧
    FV.Gen.C05.gensymForm.incrementsByOne = true ∧ FV.Gen.C05.gensymForm.usesPerContextState = false ∧
    FV.Gen.C05.gensymForm.nameFromCounter = true ∧ FV.Gen.C05.gensymForm.liveCounterIsInt = true := by
  decide

/-- The global supply: the `t`-th call of the whole history (whatever thread or context makes it), asked for
    base name `b t`, returns the name stamped with the counter value `c0 + t + 1`. -/
def issueGlobal (c0 : Nat) (b : Nat → Name) (t : Nat) : Name := mangledName (b t) (c0 + t + 1)

/-- **Freshness**: the supply never returns a name twice, whatever base names are asked for. -/
theorem supply_injective (c0 : Nat) (b : Nat → Name) {t1 t2 : Nat}
    (h : issueGlobal c0 b t1 = issueGlobal c0 b t2) : t1 = t2 := by
  have := mangledName_stamp_inj h
  omega

/-- Every name issued later than a state with counter `c` differs from every name stamped up to `c`
    (the form in which `alphaMangle_fresh` uses it). -/
theorem supply_fresh_for_old (c0 : Nat) (b : Nat → Name) (t : Nat) {lo : Nat} {old : Name}
    (hold : Stamped lo (c0 + t) old) : issueGlobal c0 b t ≠ old :=
  fresh_ne_old ⟨b t, c0 + t + 1, rfl, by omega, Nat.le_refl _⟩ hold

/-- A supply with one counter PER CONTEXT (e.g. `threading.local()`): an event is (context, local index). -/
def issuePerContext (b : Nat × Nat → Name) (e : Nat × Nat) : Name := mangledName (b e) (e.2 + 1)

/-- …is not injective: the first call in two different contexts returns the same name. -/
theorem per_context_supply_witness :
    ¬ (∀ (b : Nat × Nat → Name) (e1 e2 : Nat × Nat), issuePerContext b e1 = issuePerContext b e2 → e1 = e2) := by
  intro h
  have := h (fun _ => "i") (0, 0) (1, 0) rfl
  exact absurd this (by decide)

end FV.Props.C05
