/-
  Props/C05/Mangle.lean — `gensym`, `_alpha_mangle`, `reflect` (funsor/interpreter.py:148-156,
  funsor/terms.py:105-158).

  * `hasMarker_mangledName`, `stampOf_mangledName`, `mangledName_stamp_inj`: generated names carry the
    marker and determine the counter value they were generated at;
  * `allBound_rename`, `allBound_mangleRoot`: renaming free names never touches a binder; `_alpha_mangle`
    renames the root binders only;
  * `alphaMangle_ok`: every unmarked root binder gets a stamp `> counter` (fresh at creation);
  * `reflectT_inv` (mutual induction) and its corollaries `reflect_marks`, `no_capture_user`,
    `reflect_subsFresh`, `mangle_bound_not_free`, for ANY cons-cache comparison function;
  * `shared_binder_witness*`: what the model does NOT give — sibling nodes that are structurally equal
    come from the cons cache and share one mangled binder; merging their reductions (optimizer.unfold /
    normalize `reduced_vars | v.reduced_vars`) computes Σ_i f² instead of (Σ_i f)².
    Finding KF-shared-binder-unfold.
-/
import Std.Data.String.ToNat
import FunsorVerif.Props.C05.Subst
namespace FV.Props.C05
open FV FV.C05

/-! ## gensym: marker and stamps -/

theorem isPrefixL_append : ∀ (p r : List Char), isPrefixL p (p ++ r) = true
  | [], r => by simp [isPrefixL]
  | c :: p, r => by simp [isPrefixL, isPrefixL_append p r]

theorem hasInfixL_append (pat : List Char) : ∀ (a r : List Char), hasInfixL pat (a ++ (pat ++ r)) = true
  | [], r => by
    cases h : pat ++ r with
    | nil =>
      have : pat = [] := by cases pat <;> simp_all
      simp [hasInfixL, this]
    | cons c cs =>
      simp only [List.nil_append, hasInfixL, Bool.or_eq_true]
      left; rw [← h]; exact isPrefixL_append pat r
  | x :: a, r => by
    simp only [List.cons_append, hasInfixL, Bool.or_eq_true]
    right; exact hasInfixL_append pat a r

theorem mangledName_toList (b : Name) (k : Nat) :
    (mangledName b k).toList = b.toList ++ (markerChars ++ ('_' :: Nat.toDigits 10 k)) := by
  simp [mangledName, String.toList_append, markerChars, List.append_assoc, toString, Nat.toList_repr]

/-- Every name produced by `gensym(name + "__BOUND")` carries the marker. -/
theorem hasMarker_mangledName (b : Name) (k : Nat) : hasMarker (mangledName b k) = true := by
  unfold hasMarker; rw [mangledName_toList]; exact hasInfixL_append _ _ _

theorem takeWhile_append_stop {α : Type} (p : α → Bool) (x : α) (l2 : List α) :
    ∀ (l1 : List α), (∀ c ∈ l1, p c = true) → p x = false → (l1 ++ x :: l2).takeWhile p = l1
  | [], _, hx => by simp [hx]
  | c :: l1, h, hx => by
    simp only [List.cons_append, List.takeWhile, h c (List.mem_cons_self ..)]
    rw [takeWhile_append_stop p x l2 l1 (fun d hd => h d (List.mem_cons_of_mem _ hd)) hx]

/-- The counter value is recoverable from a generated name … -/
theorem stampOf_mangledName (b : Name) (k : Nat) : stampOf (mangledName b k) = some k := by
  unfold stampOf
  rw [mangledName_toList]
  have : (b.toList ++ (markerChars ++ '_' :: Nat.toDigits 10 k)).reverse
      = (Nat.toDigits 10 k).reverse ++ '_' :: (b.toList ++ markerChars).reverse := by
    simp [List.reverse_append]
  rw [this, takeWhile_append_stop (· != '_') '_' _ _ (fun c hc => by
      have : c ≠ '_' := fun e => Nat.underscore_not_in_toDigits (n := k) (by simp [e] at hc)
      simpa using this) (by simp)]
  rw [List.reverse_reverse, ← Nat.toList_repr, String.ofList_toList]
  exact Nat.toNat?_repr k

/-- … hence names generated at different counter values are different (whatever the base names). -/
theorem mangledName_stamp_inj {b1 b2 : Name} {k1 k2 : Nat} (h : mangledName b1 k1 = mangledName b2 k2) :
    k1 = k2 := by
  have := congrArg stampOf h
  simpa [stampOf_mangledName] using this

/-! ## Renaming free names does not touch binders -/

theorem renameSubs_keys (x y : Name) : ∀ (σ : List (Name × Term)), (renameSubs x y σ).map (·.1) = σ.map (·.1)
  | [] => by simp [renameSubs]
  | (k, t) :: r => by simp [renameSubs, renameSubs_keys x y r]

mutual
  theorem allBound_rename (x y : Name) : ∀ (t : Term), allBound (rename x y t) = allBound t
    | Term.var _ _ => by simp [rename, allBound]
    | Term.num _ _ => by simp [rename, allBound]
    | Term.tensor _ _ _ => by simp [rename, allBound]
    | Term.slice _ _ _ _ _ => by simp [rename, allBound]
    | Term.unary _ a => by simp [rename, allBound, allBound_rename x y a]
    | Term.binary _ l r => by simp [rename, allBound, allBound_rename x y l, allBound_rename x y r]
    | Term.reduce _ a vars => by
      simp only [rename]; split <;> simp [allBound, allBound_rename x y a]
    | Term.subs a σ => by
      simp only [rename, allBound, renameSubs_keys, allBoundSubs_rename x y σ]
      split <;> simp [allBound_rename x y a]
    | Term.stack _ ps => by simp [rename, allBound, allBoundList_rename x y ps]
    | Term.cat _ pn _ ps => by
      simp only [rename, allBound]; split <;> simp [allBoundList_rename x y ps]
    | Term.lambda n _ b => by
      simp only [rename]; split <;> simp [allBound, allBound_rename x y b]
    | Term.independent fn _ bv dv _ => by
      simp only [rename, allBound]; split <;> simp [allBound_rename x y fn]
    | Term.align a _ => by simp [rename, allBound, allBound_rename x y a]
    | Term.contraction _ _ vars ts => by
      simp only [rename]; split <;> simp [allBound, allBoundList_rename x y ts]
    | Term.finitary _ args => by simp [rename, allBound, allBoundList_rename x y args]
    | Term.delta ts => by simp [rename, allBound, allBoundDelta_rename x y ts]
  theorem allBoundList_rename (x y : Name) : ∀ (ts : List Term), allBoundList (renameList x y ts) = allBoundList ts
    | [] => by simp [renameList, allBoundList]
    | t :: ts => by simp [renameList, allBoundList, allBound_rename x y t, allBoundList_rename x y ts]
  theorem allBoundSubs_rename (x y : Name) : ∀ (σ : List (Name × Term)), allBoundSubs (renameSubs x y σ) = allBoundSubs σ
    | [] => by simp [renameSubs, allBoundSubs]
    | (k, t) :: r => by simp [renameSubs, allBoundSubs, allBound_rename x y t, allBoundSubs_rename x y r]
  theorem allBoundDelta_rename (x y : Name) : ∀ (ts : List (Name × Term × Term)),
      allBoundDelta (renameDelta x y ts) = allBoundDelta ts
    | [] => by simp [renameDelta, allBoundDelta]
    | (n, p, d) :: r => by
      simp [renameDelta, allBoundDelta, allBound_rename x y p, allBound_rename x y d, allBoundDelta_rename x y r]
end

theorem allBound_renameAll : ∀ (m : List (Name × Name)) (t : Term), allBound (renameAll m t) = allBound t
  | [], t => rfl
  | (k, v) :: m, t => by
    have := allBound_renameAll m (rename k v t)
    simp only [renameAll, List.foldl_cons] at this ⊢
    rw [this, allBound_rename]

theorem allBoundList_map_renameAll (m : List (Name × Name)) : ∀ (ts : List Term),
    allBoundList (ts.map (renameAll m)) = allBoundList ts
  | [] => rfl
  | t :: ts => by simp [allBoundList, allBound_renameAll, allBoundList_map_renameAll m ts]

theorem allBoundSubs_mapKeys (f : Name → Name) : ∀ (σ : List (Name × Term)),
    allBoundSubs (σ.map fun (kv : Name × Term) => (f kv.1, kv.2)) = allBoundSubs σ
  | [] => rfl
  | (k, t) :: r => by simp [allBoundSubs, allBoundSubs_mapKeys f r]

theorem allBound_split : ∀ (t : Term), allBound t = bound t ++ innerBound t
  | Term.var _ _ => by simp [allBound, bound, innerBound]
  | Term.num _ _ => by simp [allBound, bound, innerBound]
  | Term.tensor _ _ _ => by simp [allBound, bound, innerBound]
  | Term.slice _ _ _ _ _ => by simp [allBound, bound, innerBound]
  | Term.unary _ _ => by simp [allBound, bound, innerBound]
  | Term.binary _ _ _ => by simp [allBound, bound, innerBound]
  | Term.reduce _ _ _ => by simp [allBound, bound, innerBound]
  | Term.subs _ _ => by simp [allBound, bound, innerBound]
  | Term.stack _ _ => by simp [allBound, bound, innerBound]
  | Term.cat _ _ _ _ => by simp [allBound, bound, innerBound]
  | Term.lambda _ _ _ => by simp [allBound, bound, innerBound]
  | Term.independent _ _ _ _ _ => by simp [allBound, bound, innerBound]
  | Term.align _ _ => by simp [allBound, bound, innerBound]
  | Term.contraction _ _ _ _ => by simp [allBound, bound, innerBound]
  | Term.finitary _ _ => by simp [allBound, bound, innerBound]
  | Term.delta _ => by simp [allBound, bound, innerBound]

/-- `_alpha_mangle` renames the root binders and nothing else. -/
theorem allBound_mangleRoot (m : List (Name × Name)) : ∀ (t : Term),
    allBound (mangleRoot m t) = (bound t).map (lookupName m) ++ innerBound t
  | Term.var _ _ => by simp [mangleRoot, allBound, bound, innerBound]
  | Term.num _ _ => by simp [mangleRoot, allBound, bound, innerBound]
  | Term.tensor _ _ _ => by simp [mangleRoot, allBound, bound, innerBound]
  | Term.slice _ _ _ _ _ => by simp [mangleRoot, allBound, bound, innerBound]
  | Term.unary _ _ => by simp [mangleRoot, allBound, bound, innerBound]
  | Term.binary _ _ _ => by simp [mangleRoot, allBound, bound, innerBound]
  | Term.reduce _ _ _ => by
    simp [mangleRoot, allBound, bound, innerBound, allBound_renameAll, List.map_map, Function.comp_def]
  | Term.subs _ _ => by
    simp [mangleRoot, allBound, bound, innerBound, allBound_renameAll, List.map_map, Function.comp_def,
      allBoundSubs_mapKeys]
  | Term.stack _ _ => by simp [mangleRoot, allBound, bound, innerBound]
  | Term.cat _ _ _ _ => by
    simp [mangleRoot, allBound, bound, innerBound, allBoundList_map_renameAll]
  | Term.lambda _ _ _ => by simp [mangleRoot, allBound, bound, innerBound, allBound_renameAll]
  | Term.independent _ _ _ _ _ => by simp [mangleRoot, allBound, bound, innerBound, allBound_renameAll]
  | Term.align _ _ => by simp [mangleRoot, allBound, bound, innerBound]
  | Term.contraction _ _ _ _ => by
    simp [mangleRoot, allBound, bound, innerBound, allBoundList_map_renameAll, List.map_map, Function.comp_def]
  | Term.finitary _ _ => by simp [mangleRoot, allBound, bound, innerBound]
  | Term.delta _ => by simp [mangleRoot, allBound, bound, innerBound]

/-! ## Stamps -/

/-- `b` was produced by `gensym` at a counter value in `(lo, hi]`. -/
def Stamped (lo hi : Nat) (b : Name) : Prop := ∃ base k, b = mangledName base k ∧ lo < k ∧ k ≤ hi

def AllStamped (lo hi : Nat) (l : List Name) : Prop := ∀ b ∈ l, Stamped lo hi b

theorem Stamped.mono {lo hi hi' : Nat} {b : Name} (h : Stamped lo hi b) (hh : hi ≤ hi') : Stamped lo hi' b := by
  obtain ⟨base, k, e, h1, h2⟩ := h; exact ⟨base, k, e, h1, Nat.le_trans h2 hh⟩
theorem Stamped.weaken {lo lo' hi : Nat} {b : Name} (h : Stamped lo hi b) (hh : lo' ≤ lo) : Stamped lo' hi b := by
  obtain ⟨base, k, e, h1, h2⟩ := h; exact ⟨base, k, e, Nat.lt_of_le_of_lt hh h1, h2⟩
theorem AllStamped.mono {lo hi hi' : Nat} {l : List Name} (h : AllStamped lo hi l) (hh : hi ≤ hi') :
    AllStamped lo hi' l := fun b hb => (h b hb).mono hh
theorem Stamped.marked {lo hi : Nat} {b : Name} (h : Stamped lo hi b) : hasMarker b = true := by
  obtain ⟨base, k, e, _, _⟩ := h; rw [e]; exact hasMarker_mangledName base k

theorem mem_dedup {n : Name} : ∀ {l : List Name}, n ∈ dedup l ↔ n ∈ l
  | [] => by simp [dedup]
  | m :: l => by
    simp only [dedup]
    split
    · rename_i hc
      rw [mem_dedup (l := l)]
      constructor
      · exact fun h => List.mem_cons_of_mem _ h
      · intro h
        rcases List.mem_cons.mp h with h | h
        · subst h; simpa using hc
        · exact h
    · simp [mem_dedup (l := l)]

theorem lookup_stampNames {n : Name} : ∀ (names : List Name) (c : Nat), n ∈ names →
    ∃ k, c < k ∧ k ≤ c + names.length ∧ lookupName (stampNames names c) n = mangledName n k
  | [], _, h => by simp at h
  | m :: names, c, h => by
    simp only [stampNames, lookupName]
    by_cases hm : m = n
    · subst hm; exact ⟨c + 1, by omega, by simp, by simp⟩
    · have hn : n ∈ names := by
        rcases List.mem_cons.mp h with h | h
        · exact absurd h.symm hm
        · exact h
      obtain ⟨k, h1, h2, h3⟩ := lookup_stampNames names (c + 1) hn
      exact ⟨k, by omega, by simp only [List.length_cons]; omega, by simp [hm, h3]⟩

theorem bound_mangleRoot (m : List (Name × Name)) : ∀ (t : Term),
    bound (mangleRoot m t) = (bound t).map (lookupName m)
  | Term.var _ _ => by simp [mangleRoot, bound]
  | Term.num _ _ => by simp [mangleRoot, bound]
  | Term.tensor _ _ _ => by simp [mangleRoot, bound]
  | Term.slice _ _ _ _ _ => by simp [mangleRoot, bound]
  | Term.unary _ _ => by simp [mangleRoot, bound]
  | Term.binary _ _ _ => by simp [mangleRoot, bound]
  | Term.reduce _ _ _ => by simp [mangleRoot, bound, List.map_map, Function.comp_def]
  | Term.subs _ _ => by simp [mangleRoot, bound, List.map_map, Function.comp_def]
  | Term.stack _ _ => by simp [mangleRoot, bound]
  | Term.cat _ _ _ _ => by simp [mangleRoot, bound]
  | Term.lambda _ _ _ => by simp [mangleRoot, bound]
  | Term.independent _ _ _ _ _ => by simp [mangleRoot, bound]
  | Term.align _ _ => by simp [mangleRoot, bound]
  | Term.contraction _ _ _ _ => by simp [mangleRoot, bound, List.map_map, Function.comp_def]
  | Term.finitary _ _ => by simp [mangleRoot, bound]
  | Term.delta _ => by simp [mangleRoot, bound]

/-- One `_alpha_mangle`: every unmarked root binder becomes a name stamped with a counter value that
    did not exist before (`> counter`); the inner binders are untouched. -/
theorem alphaMangle_ok (t : Term) (c : Nat) (hroot : ∀ b ∈ bound t, hasMarker b = false)
    (hin : AllStamped 0 c (innerBound t)) :
    AllStamped 0 (alphaMangle t c).2 (allBound (alphaMangle t c).1) ∧ c ≤ (alphaMangle t c).2 ∧
    AllStamped c (alphaMangle t c).2 (bound (alphaMangle t c).1) := by
  have hb : ∀ b ∈ bound t, Stamped c (c + (toMangle t).length) (lookupName (stampNames (toMangle t) c) b) := by
    intro b hb
    have hm : b ∈ toMangle t := by
      unfold toMangle; rw [mem_dedup]; simp [List.mem_filter, hb, hroot b hb]
    obtain ⟨k, h1, h2, h3⟩ := lookup_stampNames (toMangle t) c hm
    exact ⟨b, k, h3, h1, h2⟩
  simp only [alphaMangle]
  refine ⟨?_, Nat.le_add_right _ _, ?_⟩
  · intro b' hb'
    rw [allBound_mangleRoot, List.mem_append, List.mem_map] at hb'
    rcases hb' with ⟨b, hbb, rfl⟩ | hb'
    · exact (hb b hbb).weaken (Nat.zero_le _)
    · exact (hin b' hb').mono (Nat.le_add_right _ _)
  · intro b' hb'
    rw [bound_mangleRoot, List.mem_map] at hb'
    obtain ⟨b, hbb, rfl⟩ := hb'
    exact hb b hbb

/-! ## `reflect` -/

/-- Cache invariant: every cached term has all its binders stamped with counter values already used. -/
def CacheOK (s : RState) : Prop := ∀ kv ∈ s.cache, AllStamped 0 s.counter (allBound kv.2)

theorem lookupCache_mem (same : Term → Term → Bool) : ∀ (c : List (Term × Term)) (t v : Term),
    lookupCache same c t = some v → ∃ k, (k, v) ∈ c
  | [], _, _, h => by simp [lookupCache] at h
  | (k, v') :: r, t, v, h => by
    simp only [lookupCache] at h
    split at h
    · simp at h; subst h; exact ⟨k, List.mem_cons_self ..⟩
    · obtain ⟨k', hk⟩ := lookupCache_mem same r t v h
      exact ⟨k', List.mem_cons_of_mem _ hk⟩

/-- `reflect` of one node whose children are built: either a cache hit (an older term, whose binders
    all carry older stamps) or a fresh `_alpha_mangle`. -/
theorem reflectNode_ok (same : Term → Term → Bool) (t : Term) (s : RState) (hc : CacheOK s)
    (hroot : ∀ b ∈ bound t, hasMarker b = false) (hin : AllStamped 0 s.counter (innerBound t)) :
    CacheOK (reflectNode same t s).2 ∧ s.counter ≤ (reflectNode same t s).2.counter ∧
    AllStamped 0 (reflectNode same t s).2.counter (allBound (reflectNode same t s).1) := by
  unfold reflectNode
  cases hl : lookupCache same s.cache t with
  | some v =>
    obtain ⟨k, hk⟩ := lookupCache_mem same s.cache t v hl
    exact ⟨hc, Nat.le_refl _, hc (k, v) hk⟩
  | none =>
    obtain ⟨h1, h2, _⟩ := alphaMangle_ok t s.counter hroot hin
    refine ⟨?_, h2, h1⟩
    intro kv hkv
    simp only [List.mem_cons] at hkv
    rcases hkv with rfl | rfl | hkv
    · exact h1
    · exact h1
    · exact (hc kv hkv).mono h2

/-- User-chosen names: no `__BOUND` marker (the property's quantifier excludes reserved names). -/
def UserNames (l : List Name) : Prop := ∀ b ∈ l, hasMarker b = false

theorem UserNames.sub {l l' : List Name} (h : UserNames l) (hs : ∀ b ∈ l', b ∈ l) : UserNames l' :=
  fun b hb => h b (hs b hb)

theorem node_step (same : Term → Term → Bool) (t' : Term) (s0 s1 : RState) (hc : CacheOK s1)
    (hle : s0.counter ≤ s1.counter) (hroot : ∀ b ∈ bound t', hasMarker b = false)
    (hin : AllStamped 0 s1.counter (innerBound t')) :
    CacheOK (reflectNode same t' s1).2 ∧ s0.counter ≤ (reflectNode same t' s1).2.counter ∧
    AllStamped 0 (reflectNode same t' s1).2.counter (allBound (reflectNode same t' s1).1) := by
  obtain ⟨g1, g2, g3⟩ := reflectNode_ok same t' s1 hc hroot hin
  exact ⟨g1, Nat.le_trans hle g2, g3⟩

theorem reflectSubs_keys (same : Term → Term → Bool) : ∀ (σ : List (Name × Term)) (s : RState),
    (reflectSubs same σ s).1.map (·.1) = σ.map (·.1)
  | [], s => by simp [reflectSubs]
  | (k, t) :: r, s => by simp [reflectSubs, reflectSubs_keys same r]

theorem AllStamped.append {lo hi : Nat} {a b : List Name} (ha : AllStamped lo hi a) (hb : AllStamped lo hi b) :
    AllStamped lo hi (a ++ b) := fun x hx => (List.mem_append.mp hx).elim (ha x) (hb x)

mutual
  theorem reflectT_inv (same : Term → Term → Bool) : ∀ (t : Term) (s : RState),
      UserNames (allBound t) → CacheOK s →
      CacheOK (reflectT same t s).2 ∧ s.counter ≤ (reflectT same t s).2.counter ∧
      AllStamped 0 (reflectT same t s).2.counter (allBound (reflectT same t s).1)
    | Term.var _ _, s, _, hc => ⟨hc, Nat.le_refl _, by simp [reflectT, allBound, AllStamped]⟩
    | Term.num _ _, s, _, hc => ⟨hc, Nat.le_refl _, by simp [reflectT, allBound, AllStamped]⟩
    | Term.tensor _ _ _, s, _, hc => ⟨hc, Nat.le_refl _, by simp [reflectT, allBound, AllStamped]⟩
    | Term.slice _ _ _ _ _, s, _, hc => ⟨hc, Nat.le_refl _, by simp [reflectT, allBound, AllStamped]⟩
    | Term.unary op a, s, hu, hc => by
      obtain ⟨h1, h2, h3⟩ := reflectT_inv same a s (hu.sub (by simp [allBound])) hc
      simp only [reflectT]
      exact node_step same _ s _ h1 h2 (by simp [bound]) (by simpa [innerBound, allBound] using h3)
    | Term.binary op l r, s, hu, hc => by
      obtain ⟨h1, h2, h3⟩ := reflectT_inv same l s (hu.sub (by simp [allBound]; grind)) hc
      obtain ⟨k1, k2, k3⟩ := reflectT_inv same r (reflectT same l s).2 (hu.sub (by simp [allBound]; grind)) h1
      simp only [reflectT]
      exact node_step same _ s _ k1 (Nat.le_trans h2 k2) (by simp [bound])
        (by simp only [innerBound, allBound]; exact (h3.mono k2).append k3)
    | Term.reduce op a vars, s, hu, hc => by
      obtain ⟨h1, h2, h3⟩ := reflectT_inv same a s (hu.sub (by simp [allBound]; grind)) hc
      simp only [reflectT]
      exact node_step same _ s _ h1 h2 (by intro b hb; exact hu b (by simp [allBound, bound] at hb ⊢; grind))
        (by simpa [innerBound] using h3)
    | Term.subs a σ, s, hu, hc => by
      obtain ⟨h1, h2, h3⟩ := reflectT_inv same a s (hu.sub (by simp [allBound]; grind)) hc
      obtain ⟨k1, k2, k3⟩ := reflectSubs_inv same σ (reflectT same a s).2 (hu.sub (by simp [allBound]; grind)) h1
      simp only [reflectT]
      exact node_step same _ s _ k1 (Nat.le_trans h2 k2)
        (by intro b hb; simp only [bound, reflectSubs_keys] at hb; exact hu b (by simp [allBound]; grind))
        (by simp only [innerBound]; exact (h3.mono k2).append k3)
    | Term.stack n ps, s, hu, hc => by
      obtain ⟨h1, h2, h3⟩ := reflectList_inv same ps s (hu.sub (by simp [allBound])) hc
      simp only [reflectT]
      exact node_step same _ s _ h1 h2 (by simp [bound]) (by simpa [innerBound, allBound] using h3)
    | Term.cat n pn sizes ps, s, hu, hc => by
      obtain ⟨h1, h2, h3⟩ := reflectList_inv same ps s (hu.sub (by simp [allBound]; grind)) hc
      simp only [reflectT]
      exact node_step same _ s _ h1 h2 (by intro b hb; exact hu b (by simp [allBound, bound] at hb ⊢; grind))
        (by simpa [innerBound] using h3)
    | Term.lambda n size b, s, hu, hc => by
      obtain ⟨h1, h2, h3⟩ := reflectT_inv same b s (hu.sub (by simp [allBound]; grind)) hc
      simp only [reflectT]
      exact node_step same _ s _ h1 h2 (by intro b hb; exact hu b (by simp [allBound, bound] at hb ⊢; grind))
        (by simpa [innerBound] using h3)
    | Term.independent fn rv bv dv size, s, hu, hc => by
      obtain ⟨h1, h2, h3⟩ := reflectT_inv same fn s (hu.sub (by simp [allBound]; grind)) hc
      simp only [reflectT]
      exact node_step same _ s _ h1 h2 (by intro b hb; exact hu b (by simp [allBound, bound] at hb ⊢; grind))
        (by simpa [innerBound] using h3)
    | Term.align a names, s, hu, hc => by
      obtain ⟨h1, h2, h3⟩ := reflectT_inv same a s (hu.sub (by simp [allBound])) hc
      simp only [reflectT]
      exact node_step same _ s _ h1 h2 (by simp [bound]) (by simpa [innerBound, allBound] using h3)
    | Term.contraction ro bo vars ts, s, hu, hc => by
      obtain ⟨h1, h2, h3⟩ := reflectList_inv same ts s (hu.sub (by simp [allBound]; grind)) hc
      simp only [reflectT]
      exact node_step same _ s _ h1 h2 (by intro b hb; exact hu b (by simp [allBound, bound] at hb ⊢; grind))
        (by simpa [innerBound] using h3)
    | Term.finitary op args, s, hu, hc => by
      obtain ⟨h1, h2, h3⟩ := reflectList_inv same args s (hu.sub (by simp [allBound])) hc
      simp only [reflectT]
      exact node_step same _ s _ h1 h2 (by simp [bound]) (by simpa [innerBound, allBound] using h3)
    | Term.delta ts, s, hu, hc => by
      obtain ⟨h1, h2, h3⟩ := reflectDelta_inv same ts s (hu.sub (by simp [allBound])) hc
      simp only [reflectT]
      exact node_step same _ s _ h1 h2 (by simp [bound]) (by simpa [innerBound, allBound] using h3)

  theorem reflectList_inv (same : Term → Term → Bool) : ∀ (ts : List Term) (s : RState),
      UserNames (allBoundList ts) → CacheOK s →
      CacheOK (reflectList same ts s).2 ∧ s.counter ≤ (reflectList same ts s).2.counter ∧
      AllStamped 0 (reflectList same ts s).2.counter (allBoundList (reflectList same ts s).1)
    | [], s, _, hc => ⟨hc, Nat.le_refl _, by simp [reflectList, allBoundList, AllStamped]⟩
    | t :: ts, s, hu, hc => by
      obtain ⟨h1, h2, h3⟩ := reflectT_inv same t s (hu.sub (by simp [allBoundList]; grind)) hc
      obtain ⟨k1, k2, k3⟩ := reflectList_inv same ts (reflectT same t s).2 (hu.sub (by simp [allBoundList]; grind)) h1
      simp only [reflectList, allBoundList]
      exact ⟨k1, Nat.le_trans h2 k2, (h3.mono k2).append k3⟩

  theorem reflectSubs_inv (same : Term → Term → Bool) : ∀ (σ : List (Name × Term)) (s : RState),
      UserNames (allBoundSubs σ) → CacheOK s →
      CacheOK (reflectSubs same σ s).2 ∧ s.counter ≤ (reflectSubs same σ s).2.counter ∧
      AllStamped 0 (reflectSubs same σ s).2.counter (allBoundSubs (reflectSubs same σ s).1)
    | [], s, _, hc => ⟨hc, Nat.le_refl _, by simp [reflectSubs, allBoundSubs, AllStamped]⟩
    | (k, t) :: ts, s, hu, hc => by
      obtain ⟨h1, h2, h3⟩ := reflectT_inv same t s (hu.sub (by simp [allBoundSubs]; grind)) hc
      obtain ⟨k1, k2, k3⟩ := reflectSubs_inv same ts (reflectT same t s).2 (hu.sub (by simp [allBoundSubs]; grind)) h1
      simp only [reflectSubs, allBoundSubs]
      exact ⟨k1, Nat.le_trans h2 k2, (h3.mono k2).append k3⟩

  theorem reflectDelta_inv (same : Term → Term → Bool) : ∀ (ts : List (Name × Term × Term)) (s : RState),
      UserNames (allBoundDelta ts) → CacheOK s →
      CacheOK (reflectDelta same ts s).2 ∧ s.counter ≤ (reflectDelta same ts s).2.counter ∧
      AllStamped 0 (reflectDelta same ts s).2.counter (allBoundDelta (reflectDelta same ts s).1)
    | [], s, _, hc => ⟨hc, Nat.le_refl _, by simp [reflectDelta, allBoundDelta, AllStamped]⟩
    | (n, p, d) :: ts, s, hu, hc => by
      obtain ⟨h1, h2, h3⟩ := reflectT_inv same p s (hu.sub (by simp [allBoundDelta]; grind)) hc
      obtain ⟨k1, k2, k3⟩ := reflectT_inv same d (reflectT same p s).2 (hu.sub (by simp [allBoundDelta]; grind)) h1
      obtain ⟨m1, m2, m3⟩ := reflectDelta_inv same ts (reflectT same d (reflectT same p s).2).2
        (hu.sub (by simp [allBoundDelta]; grind)) k1
      simp only [reflectDelta, allBoundDelta]
      exact ⟨m1, Nat.le_trans h2 (Nat.le_trans k2 m2),
        ((h3.mono (Nat.le_trans k2 m2))).append (((k3.mono m2)).append m3)⟩
end

/-! ## The statements of the property -/

theorem cacheOK_init (c : Nat) : CacheOK ⟨c, []⟩ := by intro kv h; simp at h

/-- **reflect_marks.**  A term built by `reflect` from user names without the marker has every binder
    marked, each generated at a counter value that had been used by the time it was returned, whatever
    the cons cache contained before (any state satisfying the invariant, which `reflect` preserves). -/
theorem reflect_marks (same : Term → Term → Bool) (t : Term) (s : RState)
    (hu : UserNames (allBound t)) (hc : CacheOK s) :
    (∀ b ∈ allBound (reflectT same t s).1, hasMarker b = true) ∧
    AllStamped 0 (reflectT same t s).2.counter (allBound (reflectT same t s).1) ∧
    CacheOK (reflectT same t s).2 ∧ s.counter ≤ (reflectT same t s).2.counter := by
  obtain ⟨h1, h2, h3⟩ := reflectT_inv same t s hu hc
  exact ⟨fun b hb => (h3 b hb).marked, h3, h1, h2⟩

/-- Fresh at creation: a name stamped above the counter differs from every name stamped up to it —
    i.e. from every binder in the cache and in the children at the moment `_alpha_mangle` runs. -/
theorem fresh_ne_old {lo c c' : Nat} {b b' : Name} (hnew : Stamped c c' b) (hold : Stamped lo c b') : b ≠ b' := by
  obtain ⟨b1, k1, e1, h1, _⟩ := hnew
  obtain ⟨b2, k2, e2, _, h2⟩ := hold
  intro e
  have := mangledName_stamp_inj (e1 ▸ e2 ▸ e)
  omega

theorem alphaMangle_fresh (t : Term) (c : Nat) (hroot : UserNames (bound t))
    (hin : AllStamped 0 c (innerBound t)) :
    ∀ b ∈ bound (alphaMangle t c).1, ∀ b' ∈ innerBound t, b ≠ b' :=
  fun b hb b' hb' => fresh_ne_old ((alphaMangle_ok t c hroot hin).2.2 b hb) (hin b' hb')

/-- **no_capture_user.**  For a user term and a user substitution (marker-free keys and free names) the
    freshness side condition of capture-avoiding substitution holds at EVERY binder of the reflected
    term, so every step `subs_under_binder` is sound. -/
theorem no_capture_user (same : Term → Term → Bool) (t : Term) (σ : List (Name × Term)) (s : RState)
    (hu : UserNames (allBound t)) (hc : CacheOK s)
    (hk : UserNames (σ.map (·.1))) (hv : UserNames (fvSubs σ)) :
    ∀ b ∈ allBound (reflectT same t s).1, b ∉ σ.map (·.1) ∧ b ∉ fvSubs σ := by
  intro b hb
  have hm := (reflect_marks same t s hu hc).1 b hb
  exact ⟨fun h => by simp [hk b h] at hm, fun h => by simp [hv b h] at hm⟩

theorem reflect_subsFresh (same : Term → Term → Bool) (t : Term) (σ : List (Name × Term)) (s : RState)
    (hu : UserNames (allBound t)) (hc : CacheOK s)
    (hk : UserNames (σ.map (·.1))) (hv : UserNames (fvSubs σ)) (env : Env) :
    denote (pushUnder σ (reflectT same t s).1) env = denote (Term.subs (reflectT same t s).1 σ) env := by
  apply subs_under_binder
  intro b hb
  exact no_capture_user same t σ s hu hc hk hv b (by rw [allBound_split]; exact List.mem_append_left _ hb)

theorem external_mangleRoot (m : List (Name × Name)) : ∀ (t : Term), external (mangleRoot m t) = external t
  | Term.var _ _ => rfl
  | Term.num _ _ => rfl
  | Term.tensor _ _ _ => rfl
  | Term.slice _ _ _ _ _ => rfl
  | Term.unary _ _ => rfl
  | Term.binary _ _ _ => rfl
  | Term.reduce _ _ _ => rfl
  | Term.subs _ σ => by
    simp only [mangleRoot, external]
    induction σ with
    | nil => rfl
    | cons kv r ih => obtain ⟨k, v⟩ := kv; simp [fvSubs, ih]
  | Term.stack _ _ => rfl
  | Term.cat _ _ _ _ => rfl
  | Term.lambda _ _ _ => rfl
  | Term.independent _ _ _ _ _ => rfl
  | Term.align _ _ => rfl
  | Term.contraction _ _ _ _ => rfl
  | Term.finitary _ _ => rfl
  | Term.delta _ => rfl

/-- After `_alpha_mangle`, funsor's `.bound ∩ .inputs = ∅` — including the classes where it fails at the
    user level (`Cat` with `part_name == name`, `x(i = i + 1)`). -/
theorem mangle_bound_not_free (t : Term) (c : Nat) (hroot : UserNames (bound t)) (hext : UserNames (external t))
    (hin : AllStamped 0 c (innerBound t)) :
    ∀ b ∈ bound (alphaMangle t c).1, b ∉ (alphaMangle t c).1.fv := by
  apply bound_not_free
  intro b hb hext'
  have hm := ((alphaMangle_ok t c hroot hin).2.2 b hb).marked
  simp only [alphaMangle, external_mangleRoot] at hext'
  simp [hext b hext'] at hm

/-! ## What is NOT implied: sibling binders are not separated (KF-shared-binder-unfold) -/

def shDom : Dom := ⟨DType.bint 3, []⟩
def mulOp : Op := ⟨"mul", Sexp.list []⟩
/-- user level: `f.reduce(add, "i") * f.reduce(add, "i")`, `f = Tensor([1,2,3], i)`. -/
def shUserF : Term := Term.tensor [("i", 3)] ⟨DType.real, []⟩ #[XR.fin 1, XR.fin 2, XR.fin 3]
def shUser : Term := Term.binary mulOp (Term.reduce "add" shUserF [("i", shDom)]) (Term.reduce "add" shUserF [("i", shDom)])

/-- With the cons cache the second factor IS the first: one `gensym`, one shared binder name. -/
theorem shared_binder_witness_names :
    allBound (reflect0 shUser).1 = ["i__BOUND_1", "i__BOUND_1"] ∧ (reflect0 shUser).2.counter = 1 := by
  decide +kernel

/-- Without hash-consing the two binders would be distinct. -/
theorem distinct_without_cache :
    allBound (reflectT (fun _ _ => false) shUser ⟨0, []⟩).1 = ["i__BOUND_1", "i__BOUND_2"] := by
  decide +kernel

/-- `Reduce(r, Binary(op, a, Reduce(r, b, vs')), vs) ↦ Reduce(r, Binary(op, a, b), vs ∪ vs')` — the merge
    `reduced_vars | v.reduced_vars` of optimizer.py:45-63 / cnf.py:497-508 (set union: an equal variable
    is merged).  Sound only if `vs'` is disjoint from `vs` and from the free names of `a`. -/
def mergeReduce : Term → Term
  | Term.reduce r (Term.binary op a (Term.reduce r' b vs')) vs =>
    if r = r' then Term.reduce r (Term.binary op a b) (vs ++ vs'.filter (fun v => !(vs.map (·.1)).contains v.1))
    else Term.reduce r (Term.binary op a (Term.reduce r' b vs')) vs
  | t => t

def shF (n : Name) : Term := Term.tensor [(n, 3)] ⟨DType.real, []⟩ #[XR.fin 1, XR.fin 2, XR.fin 3]
def shR (n : Name) : Term := Term.reduce "add" (shF n) [(n, shDom)]
/-- the reflected product with the binder names `n1`, `n2` of the two factors -/
def shT (n1 n2 : Name) : Term := Term.binary mulOp (shR n1) (shR n2)

theorem shT_unfolded (n1 n2 : Name) (h : n1 = n2) : mergeReduce (pullReduce (shT n1 n2)) =
    Term.reduce "add" (Term.binary mulOp (shF n1) (shF n2)) [(n1, shDom)] := by
  subst h; simp [shT, shR, pullReduce, mergeReduce, mulOp]

set_option maxRecDepth 4000 in
theorem shared_value_before : getAt (denote (shT "i__BOUND_1" "i__BOUND_1") []) [] = some (XR.fin 36) := by
  simp [getAt, shT, shR, shF, shDom, mulOp, denote, denoteAll, assignments, Env.lookup, List.range, List.range.loop,
    Sem.ofNat, Sem.scalar, Sem.toNat?, Sem.foldList, allIdx, foldOp, binop, ravel, prodList, evalBinary,
    Sem.zip?, broadcastShapes, broadcastShapes.go, bcastIdx, XR.add, XR.mul]
  decide +kernel

set_option maxRecDepth 4000 in
theorem shared_value_after :
    getAt (denote (mergeReduce (pullReduce (shT "i__BOUND_1" "i__BOUND_1"))) []) [] = some (XR.fin 14) := by
  rw [shT_unfolded _ _ rfl]
  simp [getAt, shF, shDom, mulOp, denote, denoteAll, assignments, Env.lookup, List.range, List.range.loop,
    Sem.ofNat, Sem.scalar, Sem.toNat?, Sem.foldList, allIdx, foldOp, binop, ravel, prodList, evalBinary,
    Sem.zip?, broadcastShapes, broadcastShapes.go, bcastIdx, XR.add, XR.mul]
  decide +kernel

/-- **KF-shared-binder-unfold.**  Rule-level freshness is not implied by `reflect_marks`: on the term
    `reflect` actually builds for `(Σ_i f)·(Σ_i f)` the unfold/merge step changes the value (36 ↦ 14). -/
theorem shared_binder_unfold_witness :
    denote (mergeReduce (pullReduce (shT "i__BOUND_1" "i__BOUND_1"))) [] ≠ denote (shT "i__BOUND_1" "i__BOUND_1") [] := by
  intro h
  have := congrArg (fun o => getAt o []) h
  simp only [shared_value_after, shared_value_before] at this
  exact absurd this (by decide +kernel)

set_option maxRecDepth 8000 in
/-- With distinct binders (what a binder-separating `_alpha_mangle` would produce) the same two steps
    preserve the value: Σ_{i1,i2} f(i1) f(i2) = 36. -/
theorem distinct_binders_unfold_ok :
    getAt (denote (mergeReduce (pullReduce (shT "i__BOUND_1" "i__BOUND_2"))) []) [] = some (XR.fin 36) := by
  simp [getAt, shT, shR, shF, shDom, mulOp, pullReduce, mergeReduce, denote, denoteAll, assignments, Env.lookup,
    List.range, List.range.loop, Sem.ofNat, Sem.scalar, Sem.toNat?, Sem.foldList, allIdx, foldOp, binop, ravel,
    prodList, evalBinary, Sem.zip?, broadcastShapes, broadcastShapes.go, bcastIdx, XR.add, XR.mul]
  decide +kernel

/-! ## Hypotheses are satisfiable -/

example : UserNames (allBound shUser) := by
  intro b hb; simp [shUser, shUserF, allBound] at hb; subst hb; decide +kernel
example : UserNames ["i", "j", "k", "x_1", "__BOUN", "BOUND__"] := by
  intro b hb; simp at hb; rcases hb with h | h | h | h | h | h <;> subst h <;> decide +kernel
example : hasMarker "i__BOUND_7" = true := by decide +kernel
example : stampOf "i__BOUND_17" = some 17 := stampOf_mangledName "i" 17

end FV.Props.C05
