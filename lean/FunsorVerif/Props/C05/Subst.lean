/-
  Props/C05/Subst.lean — no capture.

  `terms.substitute` pushes a substitution through a binder node WITHOUT filtering it (it rebuilds the
  node from substituted children).  `subs_under_reduce / _lambda / _contraction / _subs` and
  `subs_under_binder`: this equals the specification `Subs` node whenever the root binders are fresh for
  the substitution (`SubsFresh`: not a key, not free in a value).  `capture_witness`: without freshness it
  is false.  `self_substitution_ok`: names *bound inside* the substituted value are irrelevant, so a lazy
  term substituted into itself is shadowing, not capture.
-/
import FunsorVerif.Props.C05.Alpha
namespace FV.Props.C05
open FV FV.C05

/-! ## No capture: one step of `substitute` through a binder -/

/-- The freshness side condition of capture-avoiding substitution at the root of `t`:
    no root binder is a key of `σ` or free in a value of `σ`.  (Names *bound inside* the values are
    irrelevant.) -/
def SubsFresh (t : Term) (σ : List (Name × Term)) : Prop :=
  ∀ b ∈ bound t, b ∉ σ.map (·.1) ∧ b ∉ fvSubs σ

theorem lookup_swap (a b e : Env) (h : ∀ n ∈ a.map (·.1), n ∉ b.map (·.1)) (n : Name) :
    (a ++ (b ++ e)).lookup n = (b ++ (a ++ e)).lookup n := by
  simp only [lookup_append]
  cases ha : a.lookup n with
  | none => rfl
  | some v =>
    have : n ∈ a.map (·.1) := Decidable.byContradiction fun hc => by
      rw [not_mem_lookup_none a n hc] at ha; cases ha
    rw [not_mem_lookup_none b n (h n this)]

theorem denoteSubs_prefix (σ : List (Name × Term)) (pre env : Env)
    (h : ∀ n ∈ pre.map (·.1), n ∉ fvSubs σ) : denoteSubs σ (pre ++ env) = denoteSubs σ env := by
  apply denoteSubs_coincidence
  intro n hn
  rw [lookup_append, not_mem_lookup_none pre n (fun hc => h n hc hn)]

theorem denote_subs_under (a : Term) (σ : List (Name × Term)) (pre env : Env)
    (hk : ∀ n ∈ pre.map (·.1), n ∉ σ.map (·.1) ∧ n ∉ fvSubs σ) :
    denote (Term.subs a σ) (pre ++ env) =
      match denoteSubs σ env with
      | none => none
      | some s => denote a (pre ++ (s ++ env)) := by
  simp only [denote]
  rw [denoteSubs_prefix σ pre env (fun n hn => (hk n hn).2)]
  cases hs : denoteSubs σ env with
  | none => rfl
  | some s =>
    simp only []
    apply denote_coincidence
    intro n _
    have hks := denoteSubs_keys σ env s hs
    exact (lookup_swap pre s env (fun m hm => hks ▸ (hk m hm).1) n).symm

theorem mapM_none {α β : Type} : ∀ (l : List α), l ≠ [] → l.mapM (fun _ => (none : Option β)) = none
  | [], h => absurd rfl h
  | _ :: _, _ => by simp [List.mapM_cons]

/-- `substitute` pushes a substitution under `Reduce` without filtering it; sound when the reduced
    names are fresh for `σ`. -/
theorem subs_under_reduce (op : String) (a : Term) (vars : List (Name × Dom)) (σ : List (Name × Term))
    (h : SubsFresh (Term.reduce op a vars) σ) (env : Env) :
    denote (pushUnder σ (Term.reduce op a vars)) env = denote (Term.subs (Term.reduce op a vars) σ) env := by
  simp only [pushUnder]
  rw [denote.eq_6, denote.eq_7]
  cases ha : assignments vars with
  | none => cases denoteSubs σ env <;> simp [denote, ha]
  | some asgs =>
    simp only [denoteAll_eq_mapM, mapM_map_opt]
    rw [mapM_congr_opt _ _ asgs (fun z hz => denote_subs_under a σ z env (fun n hn => by
      have hk := assignments_keys vars asgs ha z hz
      exact h n (by simpa [bound, hk] using hn)))]
    cases hs : denoteSubs σ env with
    | none =>
      cases asgs with
      | nil => simp
      | cons z zs => simp [List.mapM_cons]
    | some s => simp [denote, ha, denoteAll_eq_mapM, Function.comp_def]

theorem subs_under_lambda (n : Name) (size : Nat) (b : Term) (σ : List (Name × Term))
    (h : SubsFresh (Term.lambda n size b) σ) (env : Env) :
    denote (pushUnder σ (Term.lambda n size b)) env = denote (Term.subs (Term.lambda n size b) σ) env := by
  simp only [pushUnder]
  rw [denote.eq_11, denote.eq_7]
  simp only [denoteAll_eq_mapM, mapM_map_opt]
  rw [mapM_congr_opt (fun i => denote (Term.subs b σ) ((n, Sem.ofNat i) :: env))
    (fun i => match denoteSubs σ env with
      | none => none
      | some s => denote b ((n, Sem.ofNat i) :: (s ++ env))) (List.range size) (fun i _ => by
    simpa using denote_subs_under b σ [(n, Sem.ofNat i)] env (fun m hm => by
      simp at hm; subst hm; exact h m (by simp [bound])))]
  cases hs : denoteSubs σ env with
  | none =>
    cases List.range size with
    | nil => simp
    | cons z zs => simp [List.mapM_cons]
  | some s => simp [denote, denoteAll_eq_mapM, Function.comp_def]

theorem denoteProd_map_subs (bo : String) (σ : List (Name × Term)) (pre env : Env)
    (hk : ∀ n ∈ pre.map (·.1), n ∉ σ.map (·.1) ∧ n ∉ fvSubs σ) :
    ∀ (ts : List Term), denoteProd bo (ts.map (Term.subs · σ)) (pre ++ env) =
      match denoteSubs σ env with
      | none => none
      | some s => denoteProd bo ts (pre ++ (s ++ env))
  | [] => by cases denoteSubs σ env <;> simp [denoteProd]
  | [t] => by simp only [List.map, denoteProd]; exact denote_subs_under t σ pre env hk
  | t :: t' :: ts => by
    have ih := denoteProd_map_subs bo σ pre env hk (t' :: ts)
    simp only [List.map_cons] at ih ⊢
    simp only [denoteProd]
    rw [denote_subs_under t σ pre env hk, ih]
    cases denoteSubs σ env <;> rfl

theorem subs_under_contraction (r bo : String) (vars : List (Name × Dom)) (ts : List Term)
    (σ : List (Name × Term)) (h : SubsFresh (Term.contraction r bo vars ts) σ) (env : Env) :
    denote (pushUnder σ (Term.contraction r bo vars ts)) env =
      denote (Term.subs (Term.contraction r bo vars ts) σ) env := by
  simp only [pushUnder]
  rw [denote.eq_14, denote.eq_7]
  cases ha : assignments vars with
  | none => cases denoteSubs σ env <;> simp [denote, ha]
  | some asgs =>
    simp only []
    rw [mapM_congr_opt _ _ asgs (fun z hz => denoteProd_map_subs bo σ z env (fun n hn => by
      have hk := assignments_keys vars asgs ha z hz
      exact h n (by simpa [bound, hk] using hn)) ts)]
    cases hs : denoteSubs σ env with
    | none =>
      cases asgs with
      | nil => simp
      | cons z zs => simp [List.mapM_cons]
    | some s => simp [denote, ha]

/-- Values of the inner substitution, each with `σ` pushed into it. -/
theorem denoteSubs_map_subs (σ : List (Name × Term)) (env : Env) :
    ∀ (τ : List (Name × Term)),
      denoteSubs (τ.map fun (kv : Name × Term) => (kv.1, Term.subs kv.2 σ)) env =
        match denoteSubs σ env with
        | none => if τ = [] then some [] else none
        | some s => denoteSubs τ (s ++ env)
  | [] => by cases denoteSubs σ env <;> simp [denoteSubs]
  | (k, v) :: rest => by
    simp only [List.map_cons, denoteSubs, denoteSubs_map_subs σ env rest, denote]
    cases hs : denoteSubs σ env with
    | none => simp
    | some s => simp

/-- Nested lazy substitution: `σ` goes into the argument *and* into the inner values. -/
theorem subs_under_subs (a : Term) (τ σ : List (Name × Term))
    (h : SubsFresh (Term.subs a τ) σ) (env : Env) :
    denote (pushUnder σ (Term.subs a τ)) env = denote (Term.subs (Term.subs a τ) σ) env := by
  simp only [pushUnder]
  rw [denote.eq_7, denote.eq_7 env (Term.subs a τ) σ, denoteSubs_map_subs]
  cases hs : denoteSubs σ env with
  | none =>
    by_cases hτ : τ = []
    · subst hτ; simp [denote, hs]
    · simp [hτ]
  | some s =>
    simp only [denote.eq_7 (s ++ env)]
    cases ht : denoteSubs τ (s ++ env) with
    | none => rfl
    | some bt =>
      simp only []
      have hk := denoteSubs_keys τ (s ++ env) bt ht
      have := denote_subs_under a σ bt env (fun n hn => h n (by simpa [bound, hk] using hn))
      rw [this, hs]

/-- All four cases at once. -/
theorem subs_under_binder (t : Term) (σ : List (Name × Term)) (h : SubsFresh t σ) (env : Env) :
    denote (pushUnder σ t) env = denote (Term.subs t σ) env := by
  cases t with
  | reduce op a vars => exact subs_under_reduce op a vars σ h env
  | lambda n size b => exact subs_under_lambda n size b σ h env
  | contraction r bo vars ts => exact subs_under_contraction r bo vars ts σ h env
  | subs a τ => exact subs_under_subs a τ σ h env
  | _ => rfl

/-- **Self-substitution: shadowing, not capture.**  Substituting a lazy binder term into itself (or
    anything with the same *bound* names) needs no side condition beyond the substituted key not being
    a binder: a term's own binders are never free in it (`bound_not_free`). -/
theorem self_substitution_ok (t : Term) (y : Name) (hroot : RootFresh t) (hy : y ∉ bound t) (env : Env) :
    denote (pushUnder [(y, t)] t) env = denote (Term.subs t [(y, t)]) env := by
  apply subs_under_binder
  intro b hb
  refine ⟨by simp only [List.map_cons, List.map_nil, List.mem_singleton]; intro e; exact hy (e ▸ hb), ?_⟩
  simpa [fvSubs] using bound_not_free t hroot b hb

/-! ### Without freshness the step is wrong (capture) -/

def getAt (o : Option Sem) (i : List Nat) : Option XR := o.map (·.get i)

def capT : Term := Term.lambda "i" 2 (Term.var "j" ⟨DType.bint 2, []⟩)
def capσ : List (Name × Term) := [("j", Term.var "i" ⟨DType.bint 2, []⟩)]
def capEnv : Env := [("i", Sem.ofNat 1)]

theorem capture_witness_pushed : getAt (denote (pushUnder capσ capT) capEnv) [0] = some (XR.fin 0) := by
  simp [getAt, capT, capσ, capEnv, pushUnder, denote, denoteAll, denoteSubs, Env.lookup, List.range,
    List.range.loop, Sem.ofNat, Sem.scalar]
theorem capture_witness_spec : getAt (denote (Term.subs capT capσ) capEnv) [0] = some (XR.fin 1) := by
  simp [getAt, capT, capσ, capEnv, denote, denoteAll, denoteSubs, Env.lookup, List.range,
    List.range.loop, Sem.ofNat, Sem.scalar]

/-- `(λ i. j)(j := i)` at `i = 1`: pushing the substitution under the binder captures `i`. -/
theorem capture_witness : ¬ (∀ (t : Term) (σ : List (Name × Term)) (env : Env),
    denote (pushUnder σ t) env = denote (Term.subs t σ) env) := by
  intro h
  have := congrArg (fun o => getAt o [0]) (h capT capσ capEnv)
  simp only [capture_witness_pushed, capture_witness_spec] at this
  exact absurd this (by decide)

/-- The hypothesis of `subs_under_binder` is satisfiable (and excludes the witness). -/
example : SubsFresh capT [("j", Term.var "k" ⟨DType.bint 2, []⟩)] := by
  intro b hb; simp [capT, bound] at hb; subst hb; simp [fvSubs, Term.fv]
example : ¬ SubsFresh capT capσ := by
  intro h; have := (h "i" (by simp [capT, bound])).2; simp [capσ, fvSubs, Term.fv] at this

end FV.Props.C05
