/-
  Props/C06.lean — the shape half of C06: the domain `find_domain` computes statically for an op
  equals the shape the array op returns (numpy result-shape specification `np…` in Model/C06.lean),
  for ALL shapes and parameters (no rank or size bound).

    broadcasting      bcRev_eq_np, broadcast2_eq_np, findDomain_binary_broadcast_sound (+ converse)
    reductions        findDomain_reduction_sound  (every axis: None / int / tuple, negative axes, keepdims)
    getitem / reshape findDomain_getitem_sound, findDomain_reshape_sound
    slices            rangeLen_pos_spec, rangeLen_neg_spec, sliceIndices_in_bounds
    tensor data       tensor_data_shape, eager_binary_data_shape

  Integer ranges are in Props/C06/Ranges.lean, matmul/stack in Props/C06/Shapes.lean, the obligations over
  the table regenerated from /repo in Props/C06/Table.lean.
-/
import FunsorVerif.Model.C06
namespace FV.Props.C06
open FV.C06

/-! ### broadcasting: funsor.util.broadcast_shape = numpy broadcasting -/

theorem toOption_map {α β : Type} (f : α → β) (e : Except Err α) :
    (e.map f).toOption = e.toOption.map f := by
  cases e <;> rfl

/-- funsor's asymmetric formulation (`acc == 1 → take size; acc != size and size != 1 → raise`) is
    numpy's symmetric per-dimension rule, on every pair of shapes. -/
theorem bcRev_eq_np : ∀ (a b : List Nat), (bcRev a b).toOption = npBcRev a b
  | [], ys => by simp [bcRev, npBcRev, Except.toOption]
  | _ :: _, [] => by simp [bcRev, npBcRev, Except.toOption]
  | a :: xs, x :: ys => by
    have ih := bcRev_eq_np xs ys
    simp only [bcRev, npBcRev]
    by_cases h1 : a = 1
    · subst h1
      simp only [if_true]
      rw [toOption_map, ih]
      have : npDim 1 x = some x := by
        simp only [npDim]
        by_cases hx : 1 = x
        · simp [hx]
        · simp [hx]
      rw [this]
      cases npBcRev xs ys <;> rfl
    · simp only [h1, if_false]
      by_cases h2 : a ≠ x ∧ x ≠ 1
      · have : npDim a x = none := by
          simp only [npDim]; simp [h1, h2.1, h2.2]
        simp [h2, this, Except.toOption]
      · simp only [h2, if_false]
        rw [toOption_map, ih]
        have : npDim a x = some a := by
          simp only [npDim]
          by_cases hax : a = x
          · simp [hax]
          · have hx : x = 1 := by
              by_cases hx : x = 1
              · exact hx
              · exact absurd ⟨hax, hx⟩ h2
            simp [h1, hx]
        rw [this]
        cases npBcRev xs ys <;> rfl

theorem broadcast2_eq_np (a b : List Nat) : (broadcast2 a b).toOption = npBroadcast2 a b := by
  simp [broadcast2, npBroadcast2, toOption_map, bcRev_eq_np]

theorem toOption_eq_some {α : Type} (e : Except Err α) (x : α) : e.toOption = some x ↔ e = .ok x := by
  cases e <;> simp [Except.toOption]

theorem broadcast2_ok_iff (a b s : List Nat) : broadcast2 a b = .ok s ↔ npBroadcast2 a b = some s := by
  rw [← broadcast2_eq_np, toOption_eq_some]

/-- numpy's rule is symmetric -/
theorem npDim_comm (a b : Nat) : npDim a b = npDim b a := by
  simp only [npDim]
  by_cases h : a = b
  · subst h; rfl
  · have h' : ¬ b = a := fun e => h e.symm
    simp only [h, h', if_false]
    by_cases ha : a = 1 <;> by_cases hb : b = 1 <;> simp [ha, hb] <;> omega

theorem npBcRev_comm (a b : List Nat) : npBcRev a b = npBcRev b a := by
  induction a generalizing b with
  | nil => cases b <;> simp [npBcRev]
  | cons x xs ih =>
    cases b with
    | nil => simp [npBcRev]
    | cons y ys => simp only [npBcRev]; rw [npDim_comm x y, ih ys]

/-- the broadcast result has the rank of the longer operand -/
theorem npBcRev_length (a b r : List Nat) (h : npBcRev a b = some r) :
    r.length = max a.length b.length := by
  induction a generalizing b r with
  | nil => simp [npBcRev] at h; subst h; simp
  | cons x xs ih =>
    cases b with
    | nil => simp [npBcRev] at h; subst h; simp
    | cons y ys =>
      simp only [npBcRev] at h
      cases hd : npDim x y with
      | none => simp [hd] at h
      | some d =>
        cases hr : npBcRev xs ys with
        | none => simp [hd, hr] at h
        | some r' =>
          simp [hd, hr] at h
          subst h
          have := ih ys r' hr
          simp [this] <;> omega

/-- every operand dimension either equals the result's or is 1 (it is broadcast) -/
theorem npBcRev_dims (a b r : List Nat) (h : npBcRev a b = some r) (i : Nat) (x : Nat)
    (hx : a[i]? = some x) : ∃ d, r[i]? = some d ∧ (x = d ∨ x = 1) := by
  induction a generalizing b r i with
  | nil => simp at hx
  | cons x0 xs ih =>
    cases b with
    | nil => simp [npBcRev] at h; subst h; exact ⟨x, hx, Or.inl rfl⟩
    | cons y ys =>
      simp only [npBcRev] at h
      cases hd : npDim x0 y with
      | none => simp [hd] at h
      | some d =>
        cases hr : npBcRev xs ys with
        | none => simp [hd, hr] at h
        | some r' =>
          simp [hd, hr] at h
          subst h
          cases i with
          | zero =>
            simp at hx; subst hx
            refine ⟨d, by simp, ?_⟩
            simp only [npDim] at hd
            split at hd
            · left; simp_all
            · split at hd
              · right; assumption
              · split at hd
                · left; simp_all
                · simp at hd
          | succ j =>
            simp at hx
            obtain ⟨d', h1, h2⟩ := ih ys r' hr j hx
            exact ⟨d', by simpa using h1, h2⟩

/-- Binary pointwise ops and comparisons: whenever numpy broadcasts the operand shapes to `s`, that is
    the declared shape; and whenever `find_domain` returns, numpy broadcasts to the declared shape. -/
theorem findDomain_binary_broadcast_sound (l r : Dom) (s : List Nat) (hdt : l.dtype = r.dtype)
    (h : npBroadcast2 l.shape r.shape = some s) :
    fdBinaryGeneric l r = .ok ⟨l.dtype, s⟩ ∧ fdComparison l r = .ok ⟨.bint 2, s⟩ := by
  have hb := (broadcast2_ok_iff _ _ _).mpr h
  simp [fdBinaryGeneric, fdComparison, hdt, hb]

theorem findDomain_binary_returns_np (l r d : Dom) (h : fdBinaryGeneric l r = .ok d) :
    npBroadcast2 l.shape r.shape = some d.shape ∧ d.dtype = l.dtype := by
  unfold fdBinaryGeneric at h
  split at h
  · cases hb : broadcast2 l.shape r.shape with
    | error e => simp [hb] at h
    | ok s =>
      simp [hb] at h
      subst h
      exact ⟨(broadcast2_ok_iff _ _ _).mp hb, rfl⟩
  · simp at h

theorem findDomain_comparison_returns_np (l r d : Dom) (h : fdComparison l r = .ok d) :
    npBroadcast2 l.shape r.shape = some d.shape ∧ d.dtype = .bint 2 := by
  unfold fdComparison at h
  cases hb : broadcast2 l.shape r.shape with
  | error e => simp [hb] at h
  | ok s =>
    simp [hb] at h
    subst h
    exact ⟨(broadcast2_ok_iff _ _ _).mp hb, rfl⟩

example : fdBinaryGeneric ⟨.real, [2, 1]⟩ ⟨.real, [3]⟩ = .ok ⟨.real, [2, 3]⟩ := by decide
example : npBroadcast2 [2, 1] [3] = some [2, 3] := by decide
example : fdBinaryGeneric ⟨.real, [2]⟩ ⟨.real, [3]⟩ = .error .value := by decide

/-! ### reductions -/

/-- index-level reading of the shape clause -/
def specFilter (dims : List Nat) (keep : Bool) (shape : List Nat) (off : Nat) : List Nat :=
  (List.range shape.length).filterMap fun j =>
    if (off + j) ∈ dims then (if keep then some 1 else none) else shape[j]?

theorem reduceFrom_eq (dims : List Nat) (keep : Bool) :
    ∀ (shape : List Nat) (off : Nat), reduceFrom dims keep off shape = specFilter dims keep shape off := by
  intro shape
  induction shape with
  | nil => intro off; simp [reduceFrom, specFilter]
  | cons s rest ih =>
    intro off
    have hfun : (fun j => if off + (j + 1) ∈ dims then (if keep then some 1 else none) else (s :: rest)[j + 1]?)
        = (fun j => if (off + 1) + j ∈ dims then (if keep then some 1 else none) else rest[j]?) := by
      funext j
      have : off + (j + 1) = off + 1 + j := by omega
      simp [this]
    simp only [reduceFrom, specFilter, List.length_cons, List.range_succ_eq_map, List.filterMap_cons,
      List.filterMap_map, Function.comp_def, Nat.add_zero, List.getElem?_cons_zero]
    rw [hfun]
    have ih' := ih (off + 1)
    simp only [specFilter] at ih'
    by_cases hm : off ∈ dims
    · cases keep <;> simp [hm, ih']
    · simp [hm, ih']

theorem normAxis_mod (nd : Nat) (a : Int) (k : Nat) (_hnd : 0 < nd) (h : npNormAxis nd a = some k) :
    (a % (nd : Int)).toNat = k := by
  unfold npNormAxis at h
  split at h
  · split at h
    · simp at h; subst h
      rw [Int.emod_eq_of_lt (by assumption) (by assumption)]
    · simp at h
  · split at h
    · simp at h; subst h
      have h1 : (a + nd) % (nd : Int) = a % (nd : Int) := Int.add_emod_right a nd
      rw [← h1, Int.emod_eq_of_lt (by omega) (by omega)]
    · simp at h

theorem normAxes_map_mod (nd : Nat) (hnd : 0 < nd) :
    ∀ (l : List Int) (ks : List Nat), npNormAxes nd l = some ks →
      l.map (fun a => (a % (nd : Int)).toNat) = ks := by
  intro l
  induction l with
  | nil => intro ks h; simp [npNormAxes] at h; subst h; rfl
  | cons a rest ih =>
    intro ks h
    simp only [npNormAxes] at h
    cases h1 : npNormAxis nd a with
    | none => simp [h1] at h
    | some x =>
      cases h2 : npNormAxes nd rest with
      | none => simp [h1, h2] at h
      | some xs =>
        simp only [h1, h2] at h
        split at h
        · simp at h
        · simp at h; subst h
          simp [normAxis_mod nd a x hnd h1, ih xs h2]

/-- the op parameter value that stands for a numpy `axis` argument -/
def axisPVal : Axis → PVal
  | .all => .none
  | .one a => .int a
  | .many l => .ints l

/-- **Reductions.**  For every operand shape, every `axis` (None, an int, a tuple; negative entries
    allowed) and `keepdims`: whenever `find_domain` returns and numpy's reduce returns, the declared
    shape is numpy's.  (`op.defaults` is any parameter list holding `axis` and `keepdims` under the
    names the reduction ops declare.) -/
theorem findDomain_reduction_sound (opName : String) (ps : Params) (d d' : Dom) (axis : Axis)
    (keep : Bool) (r : List Nat)
    (hax : lookup ps "axis" = some (axisPVal axis))
    (hk : lookup ps "keepdims" = some (.bool keep))
    (h : fdReduction opName ps d = .ok d')
    (hnp : npReduceShape d.shape axis keep = some r) : d'.shape = r := by
  unfold fdReduction at h
  rw [hax, hk] at h
  simp only [truthy] at h
  -- the set of reduced positions agrees with numpy's normalised axes
  have key : ∀ dims, reductionDims (some (axisPVal axis)) d.shape.length = .ok dims →
      reduceFrom dims keep 0 d.shape = r := by
    intro dims hd
    rw [reduceFrom_eq]
    unfold npReduceShape at hnp
    cases axis with
    | all =>
      simp [axisPVal, reductionDims] at hd
      subst hd
      simp at hnp
      subst hnp
      simp [specFilter]
    | one a =>
      simp only [axisPVal, reductionDims] at hd
      by_cases h0 : d.shape.length = 0
      · simp [h0] at hd
      · simp only [h0, if_false] at hd hnp
        cases hn : npNormAxis d.shape.length a with
        | none => simp [hn] at hnp
        | some k =>
          simp [hn] at hnp
          have hk' := normAxis_mod _ a k (by omega) hn
          simp at hd
          subst hd hnp
          simp [specFilter, hk']
    | many l =>
      simp only [axisPVal, reductionDims] at hd
      by_cases hl : l = []
      · subst hl
        simp at hd; subst hd
        simp [npNormAxes] at hnp; subst hnp
        simp [specFilter]
      · simp only [hl, if_false] at hd
        by_cases h0 : d.shape.length = 0
        · simp [h0] at hd
        · simp only [h0, if_false] at hd
          cases hn : npNormAxes d.shape.length l with
          | none => simp [hn] at hnp
          | some ks =>
            simp [hn] at hnp
            have hm := normAxes_map_mod _ (by omega) l ks hn
            simp at hd
            subst hd hnp
            simp [specFilter, hm]
  cases hd : reductionDims (some (axisPVal axis)) d.shape.length with
  | error e => simp [hd] at h
  | ok dims =>
    simp only [hd] at h
    have hs := key dims hd
    split at h
    · simp at h; subst h; exact hs
    · split at h
      · simp at h; subst h; exact hs
      · simp at h

/-- the hypotheses are satisfiable, and this is the case the pinned tree used to get wrong
    (lazy `x.sum(0)` on `Reals[4,3]` typed `Real`): -/
example : fdReduction "sum" [("axis", .int 0), ("keepdims", .bool false)] ⟨.real, [4, 3]⟩ = .ok ⟨.real, [3]⟩ := by
  decide
example : npReduceShape [4, 3] (.one 0) false = some [3] := by decide
example : fdReduction "sum" [("axis", .ints [-1, 0]), ("keepdims", .bool true)] ⟨.real, [4, 3, 2]⟩
    = .ok ⟨.real, [1, 3, 1]⟩ := by decide
example : npReduceShape [4, 3, 2] (.many [-1, 0]) true = some [1, 3, 1] := by decide
/-- reading a key the ops do not declare (`dim`) is the pinned defect: the axis is silently ignored -/
example : fdReduction "sum" [("dim", .int 0), ("keepdims", .bool false)] ⟨.real, [4, 3]⟩ = .ok ⟨.real, []⟩ := by
  decide

/-! ### getitem / reshape -/

theorem findDomain_getitem_sound (ps : Params) (lhs rhs : Dom) (off : Nat)
    (h : lookup ps "offset" = some (.int (off : Int))) (hoff : off < lhs.shape.length) :
    fdGetitem ps lhs rhs = .ok ⟨lhs.dtype, lhs.shape.eraseIdx off⟩ ∧
    npGetitemShape lhs.shape off = some (lhs.shape.eraseIdx off) := by
  constructor
  · have e1 : pyTake lhs.shape (off : Int) = lhs.shape.take off := by simp [pyTake]
    have e2 : pyDrop lhs.shape (1 + (off : Int)) = lhs.shape.drop (off + 1) := by
      have h0 : (0 : Int) ≤ 1 + (off : Int) := by omega
      have h' : (1 + (off : Int)).toNat = off + 1 := by omega
      simp only [pyDrop, h0, if_true, h']
    simp only [fdGetitem, h, e1, e2, List.eraseIdx_eq_take_drop_succ]
  · simp [npGetitemShape, hoff]

example : fdGetitem [("offset", .int 1)] ⟨.real, [2, 3, 4]⟩ ⟨.bint 3, []⟩ = .ok ⟨.real, [2, 4]⟩ := by decide

theorem natShape?_eq (s : List Nat) : natShape? (s.map (fun n : Nat => (n : Int))) = some s := by
  induction s with
  | nil => rfl
  | cons x xs ih =>
    have : ¬ ((x : Int) < 0) := by omega
    simp [natShape?, this, ih]

/-- reshape declares exactly the requested shape (numpy returns it whenever the sizes multiply up) -/
theorem findDomain_reshape_sound (ps : Params) (d : Dom) (s : List Nat)
    (h : lookup ps "shape" = some (.ints (s.map (fun n : Nat => (n : Int))))) :
    fdReshape ps d = .ok ⟨d.dtype, s⟩ := by
  simp [fdReshape, h, natShape?_eq]

/-! ### slices: `len(range(*slice.indices(size)))` -/

theorem rangeLen_pos_spec (start stop step : Int) (hs : 0 < step) (k : Nat) :
    k < rangeLen start stop step ↔ start + (k : Int) * step < stop := by
  unfold rangeLen
  simp only [hs, if_true]
  have hk : (0 : Int) ≤ (k : Int) * step := Int.mul_nonneg (by omega) (by omega)
  split
  · rename_i hlt
    have hq : (0 : Int) ≤ (stop - start - 1) / step := Int.ediv_nonneg (by omega) (by omega)
    have h1 : ((k : Int) ≤ (stop - start - 1) / step) ↔ (k : Int) * step ≤ stop - start - 1 :=
      Int.le_ediv_iff_mul_le hs
    constructor
    · intro h
      have : (k : Int) ≤ (stop - start - 1) / step := by omega
      have := h1.mp this
      omega
    · intro h
      have : (k : Int) ≤ (stop - start - 1) / step := h1.mpr (by omega)
      omega
  · constructor
    · intro h; omega
    · intro h; omega

theorem rangeLen_neg_spec (start stop step : Int) (hs : step < 0) (k : Nat) :
    k < rangeLen start stop step ↔ stop < start + (k : Int) * step := by
  unfold rangeLen
  have hns : ¬ (0 < step) := by omega
  simp only [hns, if_false]
  have hmul : (k : Int) * step = -((k : Int) * (-step)) := by
    rw [Int.mul_neg, Int.neg_neg]
  have hk : (0 : Int) ≤ (k : Int) * (-step) := Int.mul_nonneg (by omega) (by omega)
  split
  · rename_i hlt
    have hq : (0 : Int) ≤ (start - stop - 1) / (-step) := Int.ediv_nonneg (by omega) (by omega)
    have h1 : ((k : Int) ≤ (start - stop - 1) / (-step)) ↔ (k : Int) * (-step) ≤ start - stop - 1 :=
      Int.le_ediv_iff_mul_le (by omega)
    constructor
    · intro h
      have : (k : Int) ≤ (start - stop - 1) / (-step) := by omega
      have := h1.mp this
      omega
    · intro h
      have : (k : Int) ≤ (start - stop - 1) / (-step) := h1.mpr (by omega)
      omega
  · constructor
    · intro h; omega
    · intro h; omega

/-- the positions a slice visits are valid indices of the sliced axis -/
theorem sliceIndices_in_bounds (a b c : Option Int) (size : Nat) (start stop step : Int)
    (h : sliceIndices a b c size = .ok (start, stop, step)) (k : Nat)
    (hk : k < rangeLen start stop step) :
    0 ≤ start + (k : Int) * step ∧ start + (k : Int) * step < size := by
  by_cases hz : c.getD 1 = 0
  · simp [sliceIndices, hz] at h
  · simp only [sliceIndices, hz, if_false, Except.ok.injEq, Prod.mk.injEq] at h
    obtain ⟨h1, h2, h3⟩ := h
    by_cases hpos : 0 < step
    · have hspec := (rangeLen_pos_spec start stop step hpos k).mp hk
      have hk0 : (0 : Int) ≤ (k : Int) * step := Int.mul_nonneg (by omega) (by omega)
      have hneg : ¬ (c.getD 1 < 0) := by omega
      simp only [hneg, if_false] at h1 h2
      have hstart : 0 ≤ start := by
        rw [← h1]; unfold clipBound; split <;> (try split) <;> omega
      have hstop : stop ≤ size := by
        rw [← h2]; unfold clipBound; split <;> (try split) <;> omega
      omega
    · have hneg : step < 0 := by omega
      have hspec := (rangeLen_neg_spec start stop step hneg k).mp hk
      have hmul : (k : Int) * step = -((k : Int) * (-step)) := by
        rw [Int.mul_neg, Int.neg_neg]
      have hk0 : (0 : Int) ≤ (k : Int) * (-step) := Int.mul_nonneg (by omega) (by omega)
      have hneg' : c.getD 1 < 0 := by omega
      simp only [hneg', if_true] at h1 h2
      have hstart : start ≤ (size : Int) - 1 := by
        rw [← h1]; unfold clipBound; split <;> (try split) <;> omega
      have hstop : -1 ≤ stop := by
        rw [← h2]; unfold clipBound; split <;> (try split) <;> omega
      omega

/-- `x[::-1]` on an axis of size 3 has 3 elements (the pinned tree used to declare 0) -/
example : sliceLen none none (some (-1)) 3 = .ok 3 := by decide
example : sliceLen (some 5) (some 0) (some (-2)) 3 = .ok 1 := by decide
example : fdGetslice [("index", .index [.slice none none (some (-1)), .ellipsis, .int 0])] ⟨.real, [3, 4, 5]⟩
    = .ok ⟨.real, [3, 4]⟩ := by decide

/-! ### tensor data layout -/

/-- a tensor built from data of shape `batch ++ event` with `batch.length` inputs declares `event` -/
theorem tensor_data_shape (batch event : List Nat) :
    tensorOutputShape (batch ++ event) batch.length = event := by
  simp [tensorOutputShape]

/-- identical leading (batch) dimensions pass through numpy broadcasting unchanged -/
theorem npBcRev_append_same (x y r b : List Nat) (h : npBcRev x y = some r)
    (hl : x.length = y.length) : npBcRev (x ++ b) (y ++ b) = some (r ++ b) := by
  induction x generalizing y r with
  | nil =>
    cases y with
    | nil =>
      simp [npBcRev] at h; subst h
      simp only [List.nil_append]
      induction b with
      | nil => simp [npBcRev]
      | cons z zs ihz => simp [npBcRev, npDim, ihz]
    | cons _ _ => simp at hl
  | cons x0 xs ih =>
    cases y with
    | nil => simp at hl
    | cons y0 ys =>
      simp only [npBcRev] at h
      cases hd : npDim x0 y0 with
      | none => simp [hd] at h
      | some d =>
        cases hr : npBcRev xs ys with
        | none => simp [hd, hr] at h
        | some r' =>
          simp [hd, hr] at h; subst h
          have := ih ys r' hr (by simpa using hl)
          simp [npBcRev, hd, this]

/-- `eager_binary_tensor_tensor`: after aligning batch inputs and padding the lower-rank operand with
    unit dims between batch and event dims, numpy broadcasting of the data yields
    `batch ++ (broadcast of the event shapes)`, i.e. batch sizes followed by the declared output shape.
    (Event shapes padded to equal rank; `npBcRev` works on reversed shapes.) -/
theorem eager_binary_data_shape (batch e1 e2 r : List Nat) (hl : e1.length = e2.length)
    (h : npBcRev e1.reverse e2.reverse = some r) :
    npBroadcast2 (batch ++ e1) (batch ++ e2) = some (batch ++ r.reverse) := by
  unfold npBroadcast2
  simp only [List.reverse_append]
  rw [npBcRev_append_same _ _ r batch.reverse h (by simpa using hl)]
  simp

end FV.Props.C06
