/-
  Props/C06/Assoc.lean — re-association of the associative typing rule on WHOLE domains (dtype and shape),
  for the ops with a computed bound (add, mul, max, min), operands real or Bint[n] with n ≥ 1:

    assocTy_eq_partial              find_domain(op, l, r) in closed form (dtype bound × numpy broadcast)
    fdAssociative_assoc_partial     find_domain(op, find_domain(op,a,b), c) = find_domain(op, a, find_domain(op,b,c))
                                    (same type, or both decline with ValueError)
    leftNested_eq_rightNested_three_partial   Binary(op, Binary(op,a,b), c) and Binary(op, a, Binary(op,b,c)) — and by
                                    contractionOutput_eq_rightNested the normal form — declare the same type
  The hypotheses are necessary: see assoc_fallback_witness / assoc_empty_type_witness (Contraction.lean).
-/
import FunsorVerif.Model.C06
import FunsorVerif.Props.C06
import FunsorVerif.Props.C06.Contraction
namespace FV.Props.C06
open FV.C06

/-- inhabited operand dtype: real, or Bint[n] with n ≥ 1 -/
def PosDT : DType → Prop
  | .real => True
  | .bint n => 1 ≤ n

/-- ops typed by a computed bound (not by the same-dtype fallback) -/
def BoundOp (op : String) : Prop := op = "add" ∨ op = "mul" ∨ op = "max" ∨ op = "min"

def sizeComb (op : String) (n m : Nat) : Nat :=
  if op = "add" then n + m - 1 else if op = "mul" then (n - 1) * (m - 1) + 1
  else if op = "max" then max n m else min n m

def dtComb (op : String) : DType → DType → DType
  | .real, _ => .real
  | .bint _, .real => .real
  | .bint n, .bint m => .bint (sizeComb op n m)

theorem assocSize_eq (op : String) (hop : BoundOp op) (n m : Nat) (hn : 1 ≤ n) (hm : 1 ≤ m) :
    assocSize op n m = some ((sizeComb op n m : Nat) : Int) := by
  rcases hop with h | h | h | h <;> subst h
  · simp [assocSize, sizeComb]; omega
  · have e1 : ((n : Int) - 1) = ((n - 1 : Nat) : Int) := by omega
    have e2 : ((m : Int) - 1) = ((m - 1 : Nat) : Int) := by omega
    simp [assocSize, sizeComb]
    rw [e1, e2, ← Int.natCast_mul]
  · simp [assocSize, sizeComb]; omega
  · simp [assocSize, sizeComb]; omega

theorem sizeComb_pos (op : String) (n m : Nat) (hn : 1 ≤ n) (hm : 1 ≤ m) : 1 ≤ sizeComb op n m := by
  simp only [sizeComb]
  split
  · omega
  · split
    · omega
    · split <;> omega

theorem dtComb_pos (op : String) (a b : DType) (ha : PosDT a) (hb : PosDT b) : PosDT (dtComb op a b) := by
  cases a <;> cases b <;> simp_all [dtComb, PosDT]
  exact sizeComb_pos op _ _ ha hb

theorem sizeComb_assoc (op : String) (hop : BoundOp op) (n m k : Nat) (hn : 1 ≤ n) (hm : 1 ≤ m) (hk : 1 ≤ k) :
    sizeComb op (sizeComb op n m) k = sizeComb op n (sizeComb op m k) := by
  rcases hop with h | h | h | h <;> subst h
  · simp [sizeComb]; omega
  · simp [sizeComb, Nat.mul_assoc]
  · simp [sizeComb] <;> omega
  · simp [sizeComb] <;> omega

theorem dtComb_assoc (op : String) (hop : BoundOp op) (a b c : DType) (ha : PosDT a) (hb : PosDT b)
    (hc : PosDT c) : dtComb op (dtComb op a b) c = dtComb op a (dtComb op b c) := by
  cases a <;> cases b <;> cases c <;> simp_all [dtComb, PosDT]
  exact sizeComb_assoc op hop _ _ _ ha hb hc

/-- funsor's broadcast_shape as numpy's, at the level of `Except` (the only error is ValueError) -/
theorem broadcast2_eq (a b : List Nat) :
    broadcast2 a b = (match npBroadcast2 a b with | some s => .ok s | none => .error .value) := by
  have h := broadcast2_eq_np a b
  cases hb : broadcast2 a b with
  | ok s =>
    rw [hb] at h
    simp [Except.toOption] at h
    rw [← h]
  | error e =>
    rw [hb] at h
    simp [Except.toOption] at h
    rw [← h]
    simp only [broadcast2] at hb
    cases hr : bcRev a.reverse b.reverse with
    | ok r => simp [hr, Except.map] at hb
    | error e' =>
      simp [hr, Except.map] at hb
      subst hb
      rw [bcRev_error_value _ _ _ hr]

theorem npBroadcast2_assoc (a b c : List Nat) :
    (npBroadcast2 a b).bind (fun d => npBroadcast2 d c) = (npBroadcast2 b c).bind (fun d => npBroadcast2 a d) := by
  have h := npBcRev_assoc a.reverse b.reverse c.reverse
  simp only [npBroadcast2]
  cases h1 : npBcRev a.reverse b.reverse with
  | none =>
    cases h2 : npBcRev b.reverse c.reverse with
    | none => simp
    | some y =>
      simp only [h1, h2, Option.bind_none, Option.bind_some] at h
      simp only [Option.map_none, Option.map_some, Option.bind_none, Option.bind_some, List.reverse_reverse, ← h]
  | some x =>
    cases h2 : npBcRev b.reverse c.reverse with
    | none =>
      simp only [h1, h2, Option.bind_none, Option.bind_some] at h
      simp only [Option.map_none, Option.map_some, Option.bind_none, Option.bind_some, List.reverse_reverse, h]
    | some y =>
      simp only [h1, h2, Option.bind_some] at h
      simp only [Option.map_some, Option.bind_some, List.reverse_reverse, h]

/-- closed form of `find_domain(op, l, r)` for a computed-bound op on inhabited dtypes -/
theorem assocTy_eq_partial (op : String) (hop : BoundOp op) (l r : Dom) (hl : PosDT l.dtype) (hr : PosDT r.dtype) :
    assocTy op l r = (match npBroadcast2 l.shape r.shape with
      | some s => .ok ⟨dtComb op l.dtype r.dtype, s⟩
      | none => .error .value) := by
  simp only [assocTy, fdAssociative, broadcast2_eq]
  cases hld : l.dtype <;> cases hrd : r.dtype
  · simp only [dtComb]; cases npBroadcast2 l.shape r.shape <;> rfl
  · simp only [dtComb]; cases npBroadcast2 l.shape r.shape <;> rfl
  · simp only [dtComb]; cases npBroadcast2 l.shape r.shape <;> rfl
  · rename_i n m
    rw [hld] at hl
    rw [hrd] at hr
    simp only [PosDT] at hl hr
    simp only [assocSize_eq op hop n m hl hr, dtComb]
    have : ¬ (((sizeComb op n m : Nat) : Int) < 0) := by omega
    simp only [this, if_false, Int.toNat_natCast]
    cases npBroadcast2 l.shape r.shape <;> rfl

/-- **Re-association on whole domains**: for add/mul/max/min and operands that are real or Bint[n≥1] (any shapes),
    typing `(a ∘ b) ∘ c` and `a ∘ (b ∘ c)` gives the same domain, or both raise ValueError (incompatible shapes). -/
theorem fdAssociative_assoc_partial (op : String) (hop : BoundOp op) (a b c : Dom)
    (ha : PosDT a.dtype) (hb : PosDT b.dtype) (hc : PosDT c.dtype) :
    (match assocTy op a b with | .ok d => assocTy op d c | .error e => .error e) =
    (match assocTy op b c with | .ok d => assocTy op a d | .error e => .error e) := by
  have hs := npBroadcast2_assoc a.shape b.shape c.shape
  rw [assocTy_eq_partial op hop a b ha hb, assocTy_eq_partial op hop b c hb hc]
  cases hab : npBroadcast2 a.shape b.shape with
  | none =>
    cases hbc : npBroadcast2 b.shape c.shape with
    | none => rfl
    | some s2 =>
      simp only [hab, hbc, Option.bind_none, Option.bind_some] at hs
      have e := assocTy_eq_partial op hop a ⟨dtComb op b.dtype c.dtype, s2⟩ ha (dtComb_pos op _ _ hb hc)
      simp only [] at e ⊢
      rw [e, ← hs]
  | some s1 =>
    cases hbc : npBroadcast2 b.shape c.shape with
    | none =>
      simp only [hab, hbc, Option.bind_none, Option.bind_some] at hs
      have e := assocTy_eq_partial op hop ⟨dtComb op a.dtype b.dtype, s1⟩ c (dtComb_pos op _ _ ha hb) hc
      simp only [] at e ⊢
      rw [e, hs]
    | some s2 =>
      simp only [hab, hbc, Option.bind_some] at hs
      have e1 := assocTy_eq_partial op hop ⟨dtComb op a.dtype b.dtype, s1⟩ c (dtComb_pos op _ _ ha hb) hc
      have e2 := assocTy_eq_partial op hop a ⟨dtComb op b.dtype c.dtype, s2⟩ ha (dtComb_pos op _ _ hb hc)
      simp only [] at e1 e2 ⊢
      rw [e1, e2, hs, dtComb_assoc op hop _ _ _ ha hb hc]

/-- the two binary syntax trees over three operands declare the same type -/
theorem leftNested_eq_rightNested_three_partial (op : String) (hop : BoundOp op) (a b c : Dom)
    (ha : PosDT a.dtype) (hb : PosDT b.dtype) (hc : PosDT c.dtype) :
    leftNested (assocTy op) [a, b, c] = rightNested (assocTy op) [a, b, c] := by
  have h := fdAssociative_assoc_partial op hop a b c ha hb hc
  have hL : leftNested (assocTy op) [a, b, c]
      = (match assocTy op a b with | .ok d => assocTy op d c | .error e => .error e) := by
    simp only [leftNested, foldTy]
    cases assocTy op a b with
    | error e => rfl
    | ok d => simp only []; cases assocTy op d c <;> rfl
  have hR : rightNested (assocTy op) [a, b, c]
      = (match assocTy op b c with | .ok d => assocTy op a d | .error e => .error e) := by
    simp only [rightNested]
    cases assocTy op b c <;> rfl
  rw [hL, hR, h]

example : leftNested (assocTy "mul") [⟨.bint 3, [2, 1]⟩, ⟨.real, [3]⟩, ⟨.bint 2, []⟩] = .ok ⟨.real, [2, 3]⟩ := by decide
example : PosDT (.bint 3) ∧ BoundOp "mul" := by simp [PosDT, BoundOp]

end FV.Props.C06
