/-
  Props/C06/CatEinsum.lean — `cat` and `einsum`: the declared shape is numpy's, for all operand shapes.
-/
import FunsorVerif.Model.C06
import FunsorVerif.Props.C06.Shapes
import FunsorVerif.Props.C06.Getslice
namespace FV.Props.C06
open FV.C06

theorem sumOpt_some (l : List Nat) : sumOpt (l.map some) = some l.sum := by
  induction l with
  | nil => rfl
  | cons x xs ih => simp [sumOpt, ih]

theorem take_mid (A D : List Nat) (n : Nat) : (A ++ n :: D).take A.length = A := by
  simp

theorem drop_mid (A D : List Nat) (n : Nat) : (A ++ n :: D).drop (A.length + 1) = D := by
  induction A with
  | nil => simp
  | cons a as ih => simpa using ih

/-- **cat** of parts `pre ++ [nᵢ] ++ post` along the non-negative axis `pre.length`: the declared shape is
    numpy's `pre ++ [Σ nᵢ] ++ post`. -/
theorem findDomain_cat_sound (ps : Params) (dt : DType) (pre post : List Nat) (n0 : Nat) (sizes : List Nat)
    (hp : lookup ps "axis" = some (.int (pre.length : Int))) :
    fdCat ps ((n0 :: sizes).map fun n => (⟨dt, pre ++ n :: post⟩ : Dom))
      = .ok ⟨dt, pre ++ (n0 :: sizes).sum :: post⟩ := by
  have hlen : ∀ n, (pre ++ n :: post).length = pre.length + (post.length + 1) := by intro n; simp
  -- all parts have the same rank
  have hall : (sizes.map fun n => (⟨dt, pre ++ n :: post⟩ : Dom)).all
      (fun x => x.shape.length == pre.length + (post.length + 1)) = true := by
    simp [List.all_eq_true]
  have h0 : (0 : Int) ≤ (pre.length : Int) := by omega
  have hdim : (pre.length : Int) - ((pre.length + (post.length + 1) : Nat) : Int) = -((post.length + 1 : Nat) : Int) := by
    omega
  have hneg : -((post.length + 1 : Nat) : Int) < 0 := by omega
  have hnn : ¬ (0 ≤ -((post.length + 1 : Nat) : Int)) := by omega
  -- leading dims
  have htake : ∀ n, pyTake (pre ++ n :: post) (-((post.length + 1 : Nat) : Int)) = pre := by
    intro n
    have : (pre ++ n :: post).length - (post.length + 1) = pre.length := by simp
    simp only [pyTake, hnn, if_false, Int.neg_neg, Int.toNat_natCast, this, take_mid]
  have hget : ∀ n, pyGet (pre ++ n :: post) (-((post.length + 1 : Nat) : Int)) = some n := by
    intro n
    have hle : post.length + 1 ≤ (pre ++ n :: post).length := by simp
    have : (pre ++ n :: post).length - (post.length + 1) = pre.length := by simp
    simp only [pyGet, pyPos, hnn, if_false, Int.neg_neg, Int.toNat_natCast, hle, if_true, this, Option.bind_some, get_mid]
  have hlead : broadcastMany (((n0 :: sizes).map fun n => (⟨dt, pre ++ n :: post⟩ : Dom)).map
      fun x => pyTake x.shape (-((post.length + 1 : Nat) : Int))) = .ok pre := by
    have : (((n0 :: sizes).map fun n => (⟨dt, pre ++ n :: post⟩ : Dom)).map
        fun x => pyTake x.shape (-((post.length + 1 : Nat) : Int))) = List.replicate (sizes.length + 1) pre := by
      simp only [List.map_map, Function.comp_def, htake]
      simp [List.replicate_succ, List.map_const']
    rw [this]; exact broadcastMany_same pre sizes.length
  have hsum : sumOpt (((n0 :: sizes).map fun n => (⟨dt, pre ++ n :: post⟩ : Dom)).map
      fun x => pyGet x.shape (-((post.length + 1 : Nat) : Int))) = some (n0 :: sizes).sum := by
    simp only [List.map_map, Function.comp_def, hget]
    exact sumOpt_some _
  have htail : (if -((post.length + 1 : Nat) : Int) < -1 then
        broadcastMany (((n0 :: sizes).map fun n => (⟨dt, pre ++ n :: post⟩ : Dom)).map
          fun x => pyDrop x.shape (-((post.length + 1 : Nat) : Int) + 1))
      else (.ok [] : Except Err (List Nat))) = .ok post := by
    cases post with
    | nil => simp
    | cons q qs =>
      have hlt : -(((q :: qs).length + 1 : Nat) : Int) < -1 := by simp; omega
      have hdrop : ∀ n, pyDrop (pre ++ n :: q :: qs) (-(((q :: qs).length + 1 : Nat) : Int) + 1) = q :: qs := by
        intro n
        have hn2 : ¬ (0 ≤ -(((q :: qs).length + 1 : Nat) : Int) + 1) := by simp; omega
        have e : (-(-(((q :: qs).length + 1 : Nat) : Int) + 1)).toNat = (q :: qs).length := by simp; omega
        have e2 : (pre ++ n :: q :: qs).length - (q :: qs).length = pre.length + 1 := by simp; omega
        simp only [pyDrop, hn2, if_false, e, e2, drop_mid]
      simp only [hlt, if_true]
      have : (((n0 :: sizes).map fun n => (⟨dt, pre ++ n :: q :: qs⟩ : Dom)).map
          fun x => pyDrop x.shape (-(((q :: qs).length + 1 : Nat) : Int) + 1)) = List.replicate (sizes.length + 1) (q :: qs) := by
        simp only [List.map_map, Function.comp_def, hdrop]
        simp [List.replicate_succ, List.map_const']
      rw [this]; exact broadcastMany_same _ sizes.length
  unfold fdCat
  simp only [hp]
  simp only [List.map_cons, hall, if_true, h0, true_and, Option.getD_some, hlen, hdim, hneg,
    not_true_eq_false, if_false, reduceCtorEq]
  simp only [List.map_cons] at hlead hsum htail
  simp only [hlead, hsum, htail]

example : fdCat [("axis", .int 1)] [⟨.real, [2, 1, 4]⟩, ⟨.real, [2, 3, 4]⟩] = .ok ⟨.real, [2, 4, 4]⟩ := by decide
example : npCatShape [[2, 1, 4], [2, 3, 4]] 1 = some [2, 4, 4] := by decide
example : fdCat [("axis", .int (-1))] [⟨.real, [2, 1]⟩, ⟨.real, [2, 3]⟩] = .ok ⟨.real, [2, 4]⟩ := by decide

/-! ### einsum -/

/-- every entry of the size dictionary is the size `σ` assigns to its label -/
def DictOK (σ : Char → Nat) (dict : List (Char × Nat)) : Prop := ∀ p ∈ dict, p.2 = σ p.1

theorem zip_self_map (σ : Char → Nat) (ls : List Char) : ls.zip (ls.map σ) = ls.map fun c => (c, σ c) := by
  induction ls with
  | nil => rfl
  | cons c rest ih => simp [ih]

theorem einsumBind_ok (σ : Char → Nat) : ∀ (ls : List Char) (dict : List (Char × Nat)), DictOK σ dict →
    ∃ dict', einsumBind dict (ls.map fun c => (c, σ c)) = .ok dict' ∧ DictOK σ dict' ∧
      (∀ c, ((∃ n, (c, n) ∈ dict) ∨ c ∈ ls) → ∃ n, (c, n) ∈ dict') := by
  intro ls
  induction ls with
  | nil =>
    intro dict h
    refine ⟨dict, by simp [einsumBind], h, ?_⟩
    intro c hc
    rcases hc with hc | hc
    · exact hc
    · simp at hc
  | cons c rest ih =>
    intro dict h
    simp only [List.map_cons, einsumBind]
    cases hf : dict.find? (fun p => p.1 == c) with
    | none =>
      have hok : DictOK σ (dict ++ [(c, σ c)]) := by
        intro p hp
        rcases List.mem_append.mp hp with hp | hp
        · exact h p hp
        · simp at hp; subst hp; rfl
      obtain ⟨d', h1, h2, h3⟩ := ih (dict ++ [(c, σ c)]) hok
      refine ⟨d', h1, h2, ?_⟩
      intro c' hc'
      apply h3
      rcases hc' with ⟨n, hn⟩ | hc'
      · exact Or.inl ⟨n, List.mem_append.mpr (Or.inl hn)⟩
      · rcases List.mem_cons.mp hc' with rfl | hr
        · exact Or.inl ⟨σ c', List.mem_append.mpr (Or.inr (by simp))⟩
        · exact Or.inr hr
    | some p =>
      obtain ⟨c0, m⟩ := p
      have hmem : (c0, m) ∈ dict := List.mem_of_find?_eq_some hf
      have hkey : c0 = c := by
        have := List.find?_some hf
        simpa using this
      have hm : m = σ c := by
        have := h (c0, m) hmem
        simpa [hkey] using this
      simp only [hm, if_true]
      obtain ⟨d', h1, h2, h3⟩ := ih dict h
      refine ⟨d', h1, h2, ?_⟩
      intro c' hc'
      apply h3
      rcases hc' with hn | hc'
      · exact Or.inl hn
      · rcases List.mem_cons.mp hc' with rfl | hr
        · exact Or.inl ⟨m, by rw [← hkey]; exact hmem⟩
        · exact Or.inr hr

theorem einsumOperands_ok (σ : Char → Nat) : ∀ (terms : List String) (dict : List (Char × Nat)), DictOK σ dict →
    ∃ dict', einsumOperands dict (terms.map fun t => (t, (⟨.real, t.toList.map σ⟩ : Dom))) = .ok dict' ∧
      DictOK σ dict' ∧ (∀ c, (∃ t ∈ terms, c ∈ t.toList) → ∃ n, (c, n) ∈ dict') ∧
      (∀ c n, (c, n) ∈ dict → ∃ n', (c, n') ∈ dict') := by
  intro terms
  induction terms with
  | nil =>
    intro dict h
    exact ⟨dict, by simp [einsumOperands], h, by simp, fun c n hn => ⟨n, hn⟩⟩
  | cons t rest ih =>
    intro dict h
    obtain ⟨d1, b1, b2, b3⟩ := einsumBind_ok σ t.toList dict h
    obtain ⟨d2, o1, o2, o3, o4⟩ := ih d1 b2
    refine ⟨d2, ?_, o2, ?_, ?_⟩
    · simp only [List.map_cons, einsumOperands, ne_eq, not_true_eq_false, if_false, List.length_map,
        zip_self_map, b1, o1]
    · intro c hc
      obtain ⟨t', ht', hct'⟩ := hc
      rcases List.mem_cons.mp ht' with rfl | hr
      · obtain ⟨n, hn⟩ := b3 c (Or.inr hct')
        exact o4 c n hn
      · exact o3 c ⟨t', hr, hct'⟩
    · intro c n hn
      obtain ⟨n1, hn1⟩ := b3 c (Or.inl ⟨n, hn⟩)
      exact o4 c n1 hn1

theorem einsumOut_ok (σ : Char → Nat) (dict : List (Char × Nat)) (h : DictOK σ dict) :
    ∀ (out : List Char), (∀ c ∈ out, ∃ n, (c, n) ∈ dict) → einsumOut dict out = .ok (out.map σ) := by
  intro out
  induction out with
  | nil => intro _; rfl
  | cons c rest ih =>
    intro hall
    obtain ⟨n, hn⟩ := hall c (by simp)
    cases hf : dict.find? (fun p => p.1 == c) with
    | none =>
      have := List.find?_eq_none.mp hf (c, n) hn
      simp at this
    | some p =>
      obtain ⟨c0, m⟩ := p
      have hmem : (c0, m) ∈ dict := List.mem_of_find?_eq_some hf
      have hkey : c0 = c := by
        have := List.find?_some hf
        simpa using this
      have hm : m = σ c := by
        have := h (c0, m) hmem
        simpa [hkey] using this
      simp [einsumOut, hf, hm, ih (fun c' hc' => hall c' (by simp [hc'])), Except.map]

/-- **einsum**: if every operand's shape is `σ` of its index labels (one consistent size per label) and every
    output label occurs in some operand, the size dictionary is built without a mismatch and the declared
    shape is `σ` of the output labels — numpy's einsum result shape. -/
theorem findDomain_einsum_shape_sound (σ : Char → Nat) (terms : List String) (out : List Char)
    (hout : ∀ c ∈ out, ∃ t ∈ terms, c ∈ t.toList) :
    ∃ dict, einsumOperands [] (terms.map fun t => (t, (⟨.real, t.toList.map σ⟩ : Dom))) = .ok dict ∧
      einsumOut dict out = .ok (out.map σ) := by
  obtain ⟨d, h1, h2, h3, _⟩ := einsumOperands_ok σ terms [] (by intro p hp; simp at hp)
  exact ⟨d, h1, einsumOut_ok σ d h2 out (fun c hc => h3 c (hout c hc))⟩

/- (Concrete instances such as "ab,bc->ac" on Reals[2,3], Reals[3,4] are run through the driver by the harness:
   `String.splitOn` does not reduce in the kernel, so they are not `decide`-able examples.  The hypotheses are
   satisfiable: take `terms = []`, `out = []`, or any `σ` with the einsum stream's operands.) -/
example : ∃ dict, einsumOperands [] (([] : List String).map fun t => (t, (⟨.real, t.toList.map (fun _ => 2)⟩ : Dom))) = .ok dict ∧
    einsumOut dict [] = .ok [] := findDomain_einsum_shape_sound (fun _ => 2) [] [] (by simp)

end FV.Props.C06
