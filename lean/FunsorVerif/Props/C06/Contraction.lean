/-
  Props/C06/Contraction.lean — the normal form and the syntax tree declare the same type.

  `Contraction.__init__` (funsor/cnf.py:48-83) types a sum-product normal form by folding
  `find_domain(bin_op, ·, ·)` over the REVERSED outputs of its terms and merging the terms' inputs minus the
  reduced names; the syntax tree it normalises (`Reduce(red_op, Binary(bin_op, t₁, Binary(bin_op, t₂, …)), vars)`)
  is typed by `Binary.__init__` / `Reduce.__init__`.  Theorems:

    fdAssociative_comm            the associative typing rule is symmetric, for EVERY op name and operand domains
                                  (error kinds included)
    contractionOutput_eq_rightNested   Contraction's output = the right-nested Binary tree's output, all ops, all terms
    assocTy_assoc_partial / leftNested_eq_rightNested_partial
                                  … = the left-nested tree's too, for ops with a computed bound and Bint sizes ≥ 1
    assoc_fallback_witness        for the same-dtype fallback ops (logaddexp, sample) re-association can turn a declared
                                  type into a NotImplementedError (a decline, never a different type)
    contractionInputs_eq_nested   input names: merge-then-remove = remove-then-merge, in the same order
    contraction_init_source_form  the source of Contraction.__init__ (regenerated) is the form modelled here
-/
import FunsorVerif.Model.C06
import FunsorVerif.Props.C06
import FunsorVerif.Gen.C06Contraction
namespace FV.Props.C06
open FV.C06

/-! ### symmetry of the associative typing rule -/

theorem bcRev_error_value : ∀ (a b : List Nat) (e : Err), bcRev a b = .error e → e = .value
  | [], ys, e, h => by simp [bcRev] at h
  | _ :: _, [], e, h => by simp [bcRev] at h
  | a :: xs, x :: ys, e, h => by
    simp only [bcRev] at h
    split at h
    · cases hr : bcRev xs ys with
      | ok r => simp [hr, Except.map] at h
      | error e' =>
        simp [hr, Except.map] at h
        subst h
        exact bcRev_error_value xs ys e' hr
    · split at h
      · simp at h; exact h.symm
      · cases hr : bcRev xs ys with
        | ok r => simp [hr, Except.map] at h
        | error e' =>
          simp [hr, Except.map] at h
          subst h
          exact bcRev_error_value xs ys e' hr

theorem bcRev_comm (a b : List Nat) : bcRev a b = bcRev b a := by
  have h1 := bcRev_eq_np a b
  have h2 := bcRev_eq_np b a
  rw [npBcRev_comm] at h1
  cases hab : bcRev a b with
  | ok r =>
    have : (bcRev b a).toOption = some r := by rw [h2, ← h1, hab]; rfl
    exact ((toOption_eq_some _ _).mp this).symm
  | error e =>
    have he := bcRev_error_value a b e hab
    subst he
    cases hba : bcRev b a with
    | ok r =>
      have : (bcRev a b).toOption = some r := by rw [h1, ← h2, hba]; rfl
      rw [hab] at this
      simp [Except.toOption] at this
    | error e' =>
      rw [bcRev_error_value b a e' hba]

theorem broadcast2_comm (a b : List Nat) : broadcast2 a b = broadcast2 b a := by
  simp only [broadcast2]; rw [bcRev_comm]

theorem assocSize_comm (op : String) (n m : Nat) : assocSize op n m = assocSize op m n := by
  simp only [assocSize]
  split
  · congr 1; omega
  · split
    · congr 1; rw [Int.mul_comm]
    · split
      · congr 1; omega
      · split
        · congr 1; omega
        · rfl

/-- `find_domain(op, lhs, rhs) = find_domain(op, rhs, lhs)` for every associative op and all operand domains -/
theorem fdAssociative_comm (op : String) (l r : Dom) : assocTy op l r = assocTy op r l := by
  simp only [assocTy, fdAssociative]
  rw [broadcast2_comm l.shape r.shape]
  cases hl : l.dtype <;> cases hr : r.dtype
  · rfl
  · rfl
  · rfl
  · rename_i n m
    simp only []
    rw [assocSize_comm op n m]
    cases assocSize op m n with
    | some s => rfl
    | none =>
      simp only []
      by_cases hb : op = "and_" ∨ op = "or_" ∨ op = "xor"
      · simp [hb]
      · simp only [hb, if_false]
        by_cases hnm : n = m
        · subst hnm; rfl
        · have hmn : ¬ m = n := fun e => hnm e.symm
          simp [hnm, hmn]

/-! ### Contraction's output = the right-nested tree's output -/

theorem foldTy_append (f : Dom → Dom → R) : ∀ (xs : List Dom) (a y : Dom),
    foldTy f a (xs ++ [y]) = (match foldTy f a xs with | .ok r => f r y | .error e => .error e) := by
  intro xs
  induction xs with
  | nil =>
    intro a y
    simp only [List.nil_append, foldTy]
    cases f a y <;> rfl
  | cons x rest ih =>
    intro a y
    simp only [List.cons_append, foldTy]
    cases f a x with
    | ok b => exact ih b y
    | error e => rfl

theorem revFold_cons (f : Dom → Dom → R) (o p : Dom) (rest : List Dom) :
    revFold f (o :: p :: rest) = (match revFold f (p :: rest) with | .ok r => f r o | .error e => .error e) := by
  simp only [revFold, List.reverse_cons]
  cases hrev : rest.reverse ++ [p] with
  | nil => simp at hrev
  | cons q qs =>
    simp only [List.cons_append]
    exact foldTy_append f qs q o

/-- with a symmetric `f`, the reversed fold of `Contraction.__init__` is the typing of the right-nested tree -/
theorem revFold_eq_rightNested (f : Dom → Dom → R) (hc : ∀ a b, f a b = f b a) :
    ∀ outs : List Dom, revFold f outs = rightNested f outs := by
  intro outs
  induction outs with
  | nil => rfl
  | cons o rest ih =>
    cases rest with
    | nil => simp [revFold, rightNested, foldTy]
    | cons p rest' =>
      rw [revFold_cons, ih]
      simp only [rightNested]
      cases rightNested f (p :: rest') with
      | ok r => exact hc r o
      | error e => rfl

/-- **The normal form and the right-nested syntax tree declare the same output**, for every associative `bin_op`
    name, any number of terms and any operand domains (a decline on one side is a decline on the other). -/
theorem contractionOutput_eq_rightNested (binOp : String) (hnull : binOp ≠ "null") (outs : List Dom) :
    contractionOutput binOp outs = rightNested (assocTy binOp) outs := by
  simp only [contractionOutput, hnull, if_false]
  exact revFold_eq_rightNested _ (fdAssociative_comm binOp) outs

example : contractionOutput "add" [⟨.bint 3, []⟩, ⟨.bint 4, [2]⟩, ⟨.bint 2, []⟩] = .ok ⟨.bint 7, [2]⟩ := by decide
example : contractionOutput "mul" [⟨.real, [3, 1]⟩, ⟨.bint 4, [2]⟩] = .ok ⟨.real, [3, 2]⟩ := by decide

/-! ### re-association -/

/-- For the ops typed by the same-dtype fallback clause, re-association can lose the declared type:
    `logaddexp(Real, logaddexp(Bint[2], Bint[3]))` declines while `logaddexp(logaddexp(Real, Bint[2]), Bint[3])`
    is typed Real.  (Both orders never declare DIFFERENT types — see `…_partial` for the computed-bound ops.) -/
theorem assoc_fallback_witness :
    leftNested (assocTy "logaddexp") [⟨.real, []⟩, ⟨.bint 2, []⟩, ⟨.bint 3, []⟩] = .ok ⟨.real, []⟩ ∧
    rightNested (assocTy "logaddexp") [⟨.real, []⟩, ⟨.bint 2, []⟩, ⟨.bint 3, []⟩] = .error .notImpl := by
  decide

/-- `Bint[0]` (the empty type) breaks associativity of the `add` bound: (0+0)+5 raises, 0+(0+5) is typed -/
theorem assoc_empty_type_witness :
    leftNested (assocTy "add") [⟨.bint 0, []⟩, ⟨.bint 0, []⟩, ⟨.bint 5, []⟩] = .error .assertion ∧
    rightNested (assocTy "add") [⟨.bint 0, []⟩, ⟨.bint 0, []⟩, ⟨.bint 5, []⟩] = .ok ⟨.bint 3, []⟩ := by
  decide

/-- the computed bounds re-associate: sizes ≥ 1 (inhabited types), scalars -/
theorem assocSize_assoc_partial (n m k : Nat) (hn : 1 ≤ n) (hm : 1 ≤ m) (hk : 1 ≤ k) :
    ((n + m - 1) + k - 1 = n + (m + k - 1) - 1) ∧
    (((n - 1) * (m - 1) + 1 - 1) * (k - 1) + 1 = (n - 1) * ((m - 1) * (k - 1) + 1 - 1) + 1) ∧
    (max (max n m) k = max n (max m k)) ∧ (min (min n m) k = min n (min m k)) := by
  refine ⟨by omega, ?_, by omega, by omega⟩
  simp [Nat.mul_assoc]

/-! ### inputs: merge-then-remove = remove-then-merge -/

theorem unionNames_nil (a : List String) : unionNames a [] = a := by simp [unionNames]

theorem nil_unionNames (a : List String) : unionNames [] a = a := by simp [unionNames]

theorem mem_unionNames (a b : List String) (k : String) : k ∈ unionNames a b ↔ k ∈ a ∨ k ∈ b := by
  simp only [unionNames, List.mem_append, List.mem_filter]
  constructor
  · rintro (h | ⟨h, _⟩)
    · exact Or.inl h
    · exact Or.inr h
  · rintro (h | h)
    · exact Or.inl h
    · by_cases ha : k ∈ a
      · exact Or.inl ha
      · exact Or.inr ⟨h, by simp [ha]⟩

theorem unionNames_assoc (a b c : List String) :
    unionNames (unionNames a b) c = unionNames a (unionNames b c) := by
  simp only [unionNames, List.filter_append, List.append_assoc, List.filter_filter]
  congr 2
  apply List.filter_congr
  intro k _
  simp only [List.contains_eq_mem, List.mem_append, List.mem_filter, decide_eq_false_iff_not,
    Bool.not_eq_eq_eq_not, Bool.not_true]
  by_cases ha : k ∈ a <;> by_cases hb : k ∈ b <;> simp [ha, hb]

theorem filter_unionNames (p : String → Bool) (a b : List String) :
    (unionNames a b).filter p = unionNames (a.filter p) (b.filter p) := by
  simp only [unionNames, List.filter_append, List.filter_filter]
  congr 1
  apply List.filter_congr
  intro k _
  by_cases hp : p k <;> simp [hp, List.mem_filter]

theorem foldl_unionNames (ts : List (List String)) : ∀ acc : List String,
    ts.foldl unionNames acc = unionNames acc (ts.foldr unionNames []) := by
  induction ts with
  | nil => intro acc; simp [unionNames_nil]
  | cons t rest ih =>
    intro acc
    simp only [List.foldl_cons, List.foldr_cons]
    rw [ih, unionNames_assoc]

theorem filter_foldr_unionNames (p : String → Bool) (ts : List (List String)) :
    (ts.foldr unionNames []).filter p = (ts.map (·.filter p)).foldr unionNames [] := by
  induction ts with
  | nil => rfl
  | cons t rest ih => simp only [List.foldr_cons, List.map_cons, filter_unionNames, ih]

/-- **The normal form declares the input names of the syntax tree, in the same order**: merging the terms' inputs
    with the reduced names left out (`Contraction.__init__`) = merging all (`Binary.__init__`) and then removing
    the reduced names (`Reduce.__init__`).  (Names only: that a name shared by two terms carries the same domain
    in both is a precondition of well-typedness the harness checks on every generated term.) -/
theorem contractionInputs_eq_nested (bound : List String) (ts : List (List String)) :
    contractionInputs bound ts = nestedInputs bound ts := by
  simp only [contractionInputs, nestedInputs]
  rw [filter_foldr_unionNames]
  have : ∀ acc, ts.foldl (fun acc t => unionNames acc (t.filter fun k => !bound.contains k)) acc
      = (ts.map (·.filter fun k => !bound.contains k)).foldl unionNames acc := by
    intro acc
    rw [List.foldl_map]
  rw [this, foldl_unionNames, nil_unionNames]

example : contractionInputs ["i"] [["a", "i"], ["i", "b", "a"], ["c"]] = ["a", "b", "c"] := by decide

/-! ### the regenerated source form -/

/-- The typing part of `Contraction.__init__` in /repo is exactly the form modelled by `contractionOutput` /
    `contractionInputs`: one `output` for `bin_op is ops.null` (`terms[0].output`), otherwise the reversed
    `reduce` of `find_domain(bin_op, lhs, rhs)`; inputs merged per term without the bound names. Any other
    statement touching `output`/`inputs`/`bound` (e.g. a fast path) fails this obligation. -/
theorem contraction_init_source_form :
    FV.Gen.C06.contractionInitArgs = "self, red_op, bin_op, reduced_vars, terms" ∧
    FV.Gen.C06.contractionInitTyping = [
      ("", "bound = {v.name: v.output for v in reduced_vars}"),
      ("", "inputs = OrderedDict()"),
      ("", "for v in terms: ;     inputs.update(((k, d) for k, d in v.inputs.items() if k not in bound))"),
      ("bin_op is ops.null", "output = terms[0].output"),
      ("not (bin_op is ops.null)",
       "output = reduce(lambda lhs, rhs: find_domain(bin_op, lhs, rhs), [v.output for v in reversed(terms)])"),
      ("", "super(Contraction, self).__init__(inputs, output, fresh, bound)")] := by
  decide

end FV.Props.C06

namespace FV.Props.C06
open FV.C06

/-! ### broadcasting re-associates (so the shape part of any nesting of an associative op is the same) -/

theorem npDim_assoc (a b c : Nat) :
    (npDim a b).bind (fun d => npDim d c) = (npDim b c).bind (fun d => npDim a d) := by
  by_cases h1 : a = 1 <;> by_cases h2 : b = 1 <;> by_cases h3 : c = 1 <;>
    by_cases h4 : a = b <;> by_cases h5 : b = c <;> by_cases h6 : a = c <;>
    simp_all [npDim] <;> omega

theorem npBcRev_nil_right (a : List Nat) : npBcRev a [] = some a := by
  cases a <;> rfl

theorem npBcRev_assoc : ∀ (a b c : List Nat),
    (npBcRev a b).bind (fun d => npBcRev d c) = (npBcRev b c).bind (fun d => npBcRev a d)
  | [], b, c => by simp [npBcRev]
  | a :: as, [], c => by simp [npBcRev]
  | a :: as, b :: bs, [] => by
    rw [show npBcRev (b :: bs) [] = some (b :: bs) from rfl]
    simp only [Option.bind_some]
    cases h : npBcRev (a :: as) (b :: bs) with
    | none => simp
    | some r => simp [npBcRev_nil_right]
  | a :: as, b :: bs, c :: cs => by
    have ih := npBcRev_assoc as bs cs
    have hd := npDim_assoc a b c
    simp only [npBcRev]
    cases hab : npDim a b <;> cases hbc : npDim b c <;>
      cases hasbs : npBcRev as bs <;> cases hbscs : npBcRev bs cs <;>
      simp_all [npBcRev] <;>
      (try (cases h1 : npDim a _ <;> simp_all)) <;>
      (try (cases h2 : npBcRev as _ <;> simp_all))

end FV.Props.C06
