/-
  Props/C06/Dependent.lean — dependent return-type hints of user-made ops (`funsor.make_op`,
  `Dependent[lambda …]`): the lambda is applied BY NAME to the operand domains.

    kwGet_perm / dependentArgs_perm    the arguments the lambda receives do not depend on the order of the keyword
                                       dictionary (any permutation of `dict(zip(parameters, domains))` with distinct
                                       parameter names gives the same result) — so only the NAMES matter
    dependentArgs_positional_witness   a positional implementation is NOT equivalent: with the lambda's names in
                                       reversed order it swaps the operand domains
    dependentArgs_signature_order      … and coincides with the by-name rule when the lambda lists all parameters in
                                       signature order (why tests with in-order lambdas cannot see the difference)
    dependent_source_form              the regenerated source of Dependent.__init__/__call__ and of make_op's
                                       find_domain rule is the by-name form modelled here
-/
import FunsorVerif.Model.C06
import FunsorVerif.Gen.C06Contraction
namespace FV.Props.C06
open FV.C06

theorem kwGet_perm (k : String) : ∀ {kw kw' : List (String × Dom)}, kw.Perm kw' →
    (kw.map (·.1)).Nodup → kwGet kw k = kwGet kw' k := by
  intro kw kw' h
  induction h with
  | nil => intro _; rfl
  | cons x _ ih =>
    intro hn
    simp only [List.map_cons, List.nodup_cons] at hn
    simp only [kwGet, List.find?_cons]
    by_cases hx : (x.1 == k) = true
    · simp [hx]
    · simp only [hx]
      exact ih hn.2
  | swap x y l =>
    intro hn
    simp only [List.map_cons, List.nodup_cons, List.mem_cons, not_or] at hn
    simp only [kwGet, List.find?_cons]
    by_cases hx : (x.1 == k) = true <;> by_cases hy : (y.1 == k) = true
    · have e1 : x.1 = k := by simpa using hx
      have e2 : y.1 = k := by simpa using hy
      exact absurd (e2.trans e1.symm) hn.1.1
    · simp [hx, hy]
    · simp [hx, hy]
    · simp [hx, hy]
  | trans h1 _ ih1 ih2 =>
    intro hn
    have hn' := (List.Perm.nodup_iff (h1.map (·.1))).mp hn
    exact (ih1 hn).trans (ih2 hn')

/-- **Order of the keyword dictionary cannot matter**: by-name application is invariant under permuting
    `(parameter name, operand domain)` pairs with distinct names. -/
theorem dependentArgs_perm (lambdaArgs : List String) {kw kw' : List (String × Dom)} (h : kw.Perm kw')
    (hn : (kw.map (·.1)).Nodup) : dependentArgs lambdaArgs kw = dependentArgs lambdaArgs kw' := by
  simp only [dependentArgs]
  congr 1
  funext k
  exact kwGet_perm k h hn

/-- the defect class of seeded C06_6: `Dependent[lambda y, x: …]` on `def f(x, y)` — by name the lambda gets
    (dom y, dom x); positionally it gets (dom x, dom y) -/
theorem dependentArgs_positional_witness :
    dependentArgs ["y", "x"] [("x", ⟨.real, [3]⟩), ("y", ⟨.real, [4]⟩)] = some [⟨.real, [4]⟩, ⟨.real, [3]⟩] ∧
    dependentArgsPositional ["y", "x"] [("x", ⟨.real, [3]⟩), ("y", ⟨.real, [4]⟩)] = [⟨.real, [3]⟩, ⟨.real, [4]⟩] := by
  decide

theorem mapM_option_congr {α β : Type} (f g : α → Option β) : ∀ (l : List α), (∀ k ∈ l, f k = g k) →
    l.mapM f = l.mapM g := by
  intro l
  induction l with
  | nil => intro _; rfl
  | cons x xs ih =>
    intro h
    simp only [List.mapM_cons]
    rw [h x (by simp), ih (fun k hk => h k (by simp [hk]))]

/-- when the lambda lists exactly the parameters in signature order the two coincide -/
theorem dependentArgs_signature_order : ∀ (kw : List (String × Dom)), (kw.map (·.1)).Nodup →
    dependentArgs (kw.map (·.1)) kw = some (kw.map (·.2)) := by
  intro kw
  induction kw with
  | nil => intro _; rfl
  | cons p rest ih =>
    intro hn
    simp only [List.map_cons, List.nodup_cons] at hn
    have hrest : ∀ k ∈ rest.map (·.1), kwGet (p :: rest) k = kwGet rest k := by
      intro k hk
      have : ¬ ((p.1 == k) = true) := by
        intro e
        have : p.1 = k := by simpa using e
        exact hn.1 (this ▸ hk)
      simp [kwGet, this]
    have hmap : (rest.map (·.1)).mapM (kwGet (p :: rest)) = (rest.map (·.1)).mapM (kwGet rest) := by
      exact mapM_option_congr _ _ _ hrest
    have ih' := ih hn.2
    simp only [dependentArgs] at ih' ⊢
    simp only [List.map_cons, List.mapM_cons]
    have h0 : kwGet (p :: rest) p.1 = some p.2 := by simp [kwGet]
    rw [h0, hmap, ih']
    rfl

example : dependentArgs ["y"] [("x", ⟨.real, [3]⟩), ("y", ⟨.real, [4]⟩)] = some [⟨.real, [4]⟩] := by decide
example : dependentArgs ["z"] [("x", ⟨.real, [3]⟩)] = none := by decide

/-- the regenerated source is the by-name form: `self.args = inspect.getfullargspec(fn)[0]`,
    `self.fn(*map(kwargs.__getitem__, self.args))`, called as `output_type(**dict(zip(parameters, args)))` -/
theorem dependent_source_form :
    FV.Gen.C06.dependentSource = [
      ("Dependent.__init__", "self, fn",
       "function = type(lambda: None) ; self.fn = fn if isinstance(fn, function) else lambda: fn ; self.args = inspect.getfullargspec(fn)[0]"),
      ("Dependent.__call__", "self, **kwargs", "return self.fn(*map(kwargs.__getitem__, self.args))"),
      ("make_op.parameters", "", "parameters = tuple(inspect.Signature.from_callable(as_callable(fn)).parameters)"),
      ("find_domain_made_op.return", "op, *args", "return output_type"),
      ("find_domain_made_op.return", "op, *args", "return output_type(**dict(zip(parameters, args)))")] := by
  rfl

end FV.Props.C06
