/-
  Props/C06/Getslice.lean — `findDomain_getslice_sound`: for the FULL index tuple (None / Ellipsis / int /
  slice parts, slices with any bounds and positive or negative steps), whenever numpy's basic indexing returns a
  shape (`npIndexShape`), `_find_domain_getslice` declares exactly that shape.  The slice sizes are
  `len(range(*slice.indices(n)))`, whose range semantics are `rangeLen_pos_spec` / `rangeLen_neg_spec` /
  `sliceIndices_in_bounds` in Props/C06.lean.
-/
import FunsorVerif.Model.C06
namespace FV.Props.C06
open FV.C06

theorem insertAt_mid (A D : List Nat) (x : Nat) : insertAt (A ++ D) A.length x = A ++ x :: D := by
  simp [insertAt]

theorem eraseIdx_mid (A D : List Nat) (n : Nat) : (A ++ n :: D).eraseIdx A.length = A ++ D := by
  induction A with
  | nil => simp
  | cons a as ih => simp [ih]

theorem set_mid (A D : List Nat) (n m : Nat) : (A ++ n :: D).set A.length m = A ++ m :: D := by
  induction A with
  | nil => simp
  | cons a as ih => simp [ih]

theorem get_mid (A D : List Nat) (n : Nat) : (A ++ n :: D)[A.length]? = some n := by
  induction A with
  | nil => simp
  | cons a as ih => simpa using ih

/-- the loop over the parts left of the Ellipsis realises numpy's front matching -/
theorem sliceLeft_front : ∀ (ps : List IdxPart) (pre sh pre' sh' : List Nat),
    npFront ps pre sh = some (pre', sh') →
    sliceLeft ps pre.length (pre ++ sh) = .ok (pre' ++ sh') := by
  intro ps
  induction ps with
  | nil =>
    intro pre sh pre' sh' h
    simp [npFront] at h
    obtain ⟨h1, h2⟩ := h
    subst h1 h2
    simp [sliceLeft]
  | cons p rest ih =>
    intro pre sh pre' sh' h
    cases p with
    | newaxis =>
      simp only [npFront] at h
      have := ih (pre ++ [1]) sh pre' sh' h
      simp only [sliceLeft, insertAt_mid]
      simpa using this
    | int k =>
      cases sh with
      | nil => simp [npFront] at h
      | cons n sh0 =>
        simp only [npFront] at h
        split at h
        · have := ih pre sh0 pre' sh' h
          have hlt : pre.length < (pre ++ n :: sh0).length := by simp
          simp only [sliceLeft, hlt, if_true, eraseIdx_mid]
          exact this
        · simp at h
    | slice a b c =>
      cases sh with
      | nil => simp [npFront] at h
      | cons n sh0 =>
        simp only [npFront] at h
        cases hl : sliceLen a b c n with
        | error e => simp [hl] at h
        | ok m =>
          simp only [hl] at h
          have := ih (pre ++ [m]) sh0 pre' sh' h
          simp only [sliceLeft, get_mid, hl, set_mid]
          simpa using this
    | ellipsis => simp [npFront] at h

/-- the loop over `reversed(right)` realises numpy's matching of the trailing axes; `P` are leading dims
    it never touches -/
theorem sliceRight_back : ∀ (qs : List IdxPart) (P fr done fr' done' : List Nat),
    npBack qs fr done = some (fr', done') →
    sliceRight qs (done.length + 1) (P ++ fr.reverse ++ done) = .ok (P ++ fr'.reverse ++ done') := by
  intro qs
  induction qs with
  | nil =>
    intro P fr done fr' done' h
    simp [npBack] at h
    obtain ⟨h1, h2⟩ := h
    subst h1 h2
    simp [sliceRight]
  | cons q rest ih =>
    intro P fr done fr' done' h
    cases q with
    | newaxis =>
      simp only [npBack] at h
      have := ih P fr (1 :: done) fr' done' h
      have hlen : (P ++ fr.reverse ++ done).length = (P ++ fr.reverse).length + done.length := by
        simp; omega
      have hpos : ((P ++ fr.reverse ++ done).length : Int) - ((done.length + 1 : Nat) : Int) + 1
          = ((P ++ fr.reverse).length : Int) := by
        rw [hlen]; omega
      have h0 : (0 : Int) ≤ ((P ++ fr.reverse).length : Int) := by omega
      simp only [sliceRight, hpos, h0, if_true, Int.toNat_natCast, insertAt_mid]
      simpa using this
    | int k =>
      cases fr with
      | nil => simp [npBack] at h
      | cons n fr0 =>
        simp only [npBack] at h
        split at h
        · have := ih P fr0 done fr' done' h
          have hshape : P ++ (n :: fr0).reverse ++ done = (P ++ fr0.reverse) ++ n :: done := by simp
          have hle : done.length + 1 ≤ ((P ++ fr0.reverse) ++ n :: done).length := by simp; omega
          have hidx : ((P ++ fr0.reverse) ++ n :: done).length - (done.length + 1) = (P ++ fr0.reverse).length := by
            simp; omega
          rw [hshape]
          simp only [sliceRight, hle, if_true, hidx, eraseIdx_mid]
          exact this
        · simp at h
    | slice a b c =>
      cases fr with
      | nil => simp [npBack] at h
      | cons n fr0 =>
        simp only [npBack] at h
        cases hl : sliceLen a b c n with
        | error e => simp [hl] at h
        | ok m =>
          simp only [hl] at h
          have := ih P fr0 (m :: done) fr' done' h
          have hshape : P ++ (n :: fr0).reverse ++ done = (P ++ fr0.reverse) ++ n :: done := by simp
          have hle : done.length + 1 ≤ ((P ++ fr0.reverse) ++ n :: done).length := by simp; omega
          have hidx : ((P ++ fr0.reverse) ++ n :: done).length - (done.length + 1) = (P ++ fr0.reverse).length := by
            simp; omega
          rw [hshape]
          simp only [sliceRight, hle, if_true, hidx, get_mid, hl, set_mid]
          simpa using this
    | ellipsis => simp [npBack] at h

theorem takeUntil_noEll : ∀ (l : List IdxPart), ellCount l = 0 → takeUntilEllipsis l = l := by
  intro l
  induction l with
  | nil => intro _; rfl
  | cons p ps ih =>
    intro h
    cases p <;> simp_all [ellCount, takeUntilEllipsis]

theorem ellCount_append (a b : List IdxPart) : ellCount (a ++ b) = ellCount a + ellCount b := by
  induction a with
  | nil => simp [ellCount]
  | cons p ps ih => cases p <;> simp [ellCount, ih] <;> omega

theorem ellCount_reverse (l : List IdxPart) : ellCount l.reverse = ellCount l := by
  induction l with
  | nil => rfl
  | cons p ps ih =>
    rw [List.reverse_cons, ellCount_append, ih]
    cases p <;> simp [ellCount] <;> omega

theorem dropThrough_noEll : ∀ (l : List IdxPart), ellCount l ≤ 1 → ellCount (dropThroughEllipsis l) = 0 := by
  intro l
  induction l with
  | nil => intro _; rfl
  | cons p ps ih =>
    intro h
    cases p with
    | ellipsis => simp [ellCount] at h; simpa [dropThroughEllipsis] using h
    | newaxis => simp [ellCount] at h; simpa [dropThroughEllipsis] using ih h
    | int k => simp [ellCount] at h; simpa [dropThroughEllipsis] using ih h
    | slice a b c => simp [ellCount] at h; simpa [dropThroughEllipsis] using ih h

/-- with at most one Ellipsis, `parse_ellipsis` splits the index at it -/
theorem parseEllipsis_eq (idx : List IdxPart) (h : ellCount idx ≤ 1) :
    parseEllipsis idx = (takeUntilEllipsis idx, dropThroughEllipsis idx) := by
  have h0 := dropThrough_noEll idx h
  have h1 : ellCount (dropThroughEllipsis idx).reverse = 0 := by rw [ellCount_reverse]; exact h0
  simp [parseEllipsis, takeUntil_noEll _ h1]

/-- **getslice, full index tuple**: whenever numpy's basic indexing with `index` (None, Ellipsis, ints,
    slices with arbitrary bounds and steps of either sign) returns a shape, that is the declared shape. -/
theorem findDomain_getslice_sound (ps : Params) (d : Dom) (idx : List IdxPart) (r : List Nat)
    (hp : lookup ps "index" = some (.index idx))
    (hnp : npIndexShape idx d.shape = some r) :
    fdGetslice ps d = .ok ⟨d.dtype, r⟩ := by
  unfold npIndexShape at hnp
  split at hnp
  · simp at hnp
  · rename_i hcount
    have hc : ellCount idx ≤ 1 := by omega
    cases hf : npFront (takeUntilEllipsis idx) [] d.shape with
    | none => simp [hf] at hnp
    | some pr =>
      obtain ⟨pre, rest⟩ := pr
      simp only [hf] at hnp
      cases hb : npBack (dropThroughEllipsis idx).reverse rest.reverse [] with
      | none => simp [hb] at hnp
      | some fd =>
        obtain ⟨fr, done⟩ := fd
        simp only [hb, Option.some.injEq] at hnp
        have h1 := sliceLeft_front _ [] d.shape pre rest hf
        have h2 := sliceRight_back _ pre rest.reverse [] fr done hb
        simp only [List.length_nil, List.nil_append, List.reverse_reverse, List.append_nil, Nat.zero_add] at h1 h2
        simp only [fdGetslice, hp, parseEllipsis_eq idx hc, h1, h2, hnp]

example : npIndexShape [.slice none none (some (-1)), .ellipsis, .int 0] [3, 4, 5] = some [3, 4] := by decide
example : npIndexShape [.newaxis, .int (-1), .slice (some 1) none (some 2)] [3, 5, 2] = some [1, 2, 2] := by decide
example : npIndexShape [.int 3] [3] = none := by decide

end FV.Props.C06

namespace FV.Props.C06
open FV.C06

/-! ### the slice length is a length: `0 ≤ len(range(*slice.indices(n))) ≤ n` -/

/-- bounds `slice.indices` guarantees: positive step: `0 ≤ start, stop ≤ n`; negative: `-1 ≤ start, stop ≤ n-1` -/
theorem sliceIndices_range (a b c : Option Int) (n : Nat) (start stop step : Int)
    (h : sliceIndices a b c n = .ok (start, stop, step)) :
    step ≠ 0 ∧ (0 < step → 0 ≤ start ∧ start ≤ n ∧ 0 ≤ stop ∧ stop ≤ n) ∧
    (step < 0 → -1 ≤ start ∧ start ≤ (n : Int) - 1 ∧ -1 ≤ stop ∧ stop ≤ (n : Int) - 1) := by
  by_cases hz : c.getD 1 = 0
  · simp [sliceIndices, hz] at h
  · simp only [sliceIndices, hz, if_false, Except.ok.injEq, Prod.mk.injEq] at h
    obtain ⟨h1, h2, h3⟩ := h
    refine ⟨by omega, ?_, ?_⟩
    · intro hpos
      have hneg : ¬ (c.getD 1 < 0) := by omega
      simp only [hneg, if_false] at h1 h2
      rw [← h1, ← h2]
      unfold clipBound
      refine ⟨?_, ?_, ?_, ?_⟩ <;> (split <;> (try split) <;> omega)
    · intro hneg
      have hneg' : c.getD 1 < 0 := by omega
      simp only [hneg', if_true] at h1 h2
      rw [← h1, ← h2]
      unfold clipBound
      refine ⟨?_, ?_, ?_, ?_⟩ <;> (split <;> (try split) <;> omega)

theorem rangeLen_le (start stop step : Int) (n : Nat) (hstep : step ≠ 0)
    (hp : 0 < step → 0 ≤ start ∧ stop ≤ n) (hn : step < 0 → start ≤ (n : Int) - 1 ∧ -1 ≤ stop) :
    rangeLen start stop step ≤ n := by
  unfold rangeLen
  by_cases hs : 0 < step
  · simp only [hs, if_true]
    obtain ⟨h1, h2⟩ := hp hs
    split
    · have hd : (stop - start - 1) / step ≤ stop - start - 1 := Int.ediv_le_self _ (by omega)
      have h0 : 0 ≤ (stop - start - 1) / step := Int.ediv_nonneg (by omega) (by omega)
      omega
    · omega
  · simp only [hs, if_false]
    have hneg : step < 0 := by omega
    obtain ⟨h1, h2⟩ := hn hneg
    split
    · have hd : (start - stop - 1) / (-step) ≤ start - stop - 1 := Int.ediv_le_self _ (by omega)
      have h0 : 0 ≤ (start - stop - 1) / (-step) := Int.ediv_nonneg (by omega) (by omega)
      omega
    · omega

/-- **a slice never yields more elements than the axis has** (for every start/stop/step, either step sign,
    `None` parts, out-of-range and negative bounds) -/
theorem sliceLen_le_size (a b c : Option Int) (n m : Nat) (h : sliceLen a b c n = .ok m) : m ≤ n := by
  unfold sliceLen at h
  cases hi : sliceIndices a b c n with
  | error e => simp [hi] at h
  | ok t =>
    obtain ⟨start, stop, step⟩ := t
    simp [hi] at h
    subst h
    obtain ⟨hz, hp, hn⟩ := sliceIndices_range a b c n start stop step hi
    exact rangeLen_le start stop step n hz (fun hs => ⟨(hp hs).1, (hp hs).2.2.2⟩)
      (fun hs => ⟨(hn hs).2.1, (hn hs).2.2.1⟩)

/-- `x[:]` and `x[::-1]` keep the axis (the latter is the case fix 43987c7 repaired) -/
theorem sliceLen_full (n : Nat) : sliceLen none none none n = .ok n := by
  simp only [sliceLen, sliceIndices, Option.getD_none, clipBound, rangeLen]
  have h1 : ¬ ((1 : Int) = 0) := by omega
  have h2 : ¬ ((1 : Int) < 0) := by omega
  simp only [h1, h2, if_false]
  by_cases hn : (0 : Int) < n
  · simp only [hn, if_true, Int.zero_lt_one]; congr 1; simp <;> omega
  · simp only [hn, if_false, Int.zero_lt_one, if_true]; congr 1; omega

theorem sliceLen_reverse (n : Nat) : sliceLen none none (some (-1)) n = .ok n := by
  simp only [sliceLen, sliceIndices, Option.getD_some, clipBound, rangeLen]
  have h1 : ¬ ((-1 : Int) = 0) := by omega
  have h2 : ((-1 : Int) < 0) := by omega
  have h3 : ¬ ((0 : Int) < -1) := by omega
  simp only [h1, h2, h3, if_false, if_true]
  by_cases hn : (-1 : Int) < (n : Int) - 1
  · simp only [hn, if_true]; congr 1; simp <;> omega
  · simp only [hn, if_false]; congr 1; omega

/-- a zero step is the only way a slice part makes `find_domain` raise -/
theorem sliceLen_error_iff (a b c : Option Int) (n : Nat) :
    (∃ e, sliceLen a b c n = .error e) ↔ c = some 0 := by
  unfold sliceLen sliceIndices
  cases c with
  | none => simp
  | some s =>
    by_cases hs : s = 0
    · subst hs; simp
    · simp [hs]

end FV.Props.C06
