/-
  Props/C06/InputsDom.lean — the DOMAIN part of `contractionInputs_eq_nested`: the inputs `Contraction.__init__`
  declares carry, for every unreduced name of every term, exactly that term's domain — under the explicit,
  decidable hypothesis `consistent terms` (a name shared by two terms has the same domain in both).

    contractionInputsD_mem_source    every declared (name, domain) pair is some term's pair, and the name is not reduced
    contractionInputsD_covers        every unreduced name of every term is declared
    contractionInputsD_domain        consistent terms → the declared domain of a name IS the term's domain
    contractionInputsD_keys          the declared names are `contractionInputs` (the names/order theorem), for
                                     terms whose inputs have distinct names
-/
import FunsorVerif.Model.C06
import FunsorVerif.Props.C06.Contraction
namespace FV.Props.C06
open FV.C06

theorem mem_odSet (a : Inputs) (k : String) (v : Dom) (p : String × Dom) (h : p ∈ odSet a k v) :
    p = (k, v) ∨ p ∈ a := by
  unfold odSet at h
  split at h
  · simp only [List.mem_map] at h
    obtain ⟨q, hq, he⟩ := h
    split at he
    · exact Or.inl he.symm
    · exact Or.inr (he ▸ hq)
  · simp only [List.mem_append, List.mem_singleton] at h
    rcases h with h | h
    · exact Or.inr h
    · exact Or.inl h

theorem key_odSet (a : Inputs) (k : String) (v : Dom) : ∃ q ∈ odSet a k v, q.1 = k := by
  unfold odSet
  by_cases h : a.any (fun p => p.1 == k) = true
  · simp only [h, if_true]
    simp only [List.any_eq_true] at h
    obtain ⟨q, hq, hk⟩ := h
    exact ⟨(k, v), List.mem_map.mpr ⟨q, hq, by simp [hk]⟩, rfl⟩
  · simp only [h]
    exact ⟨(k, v), by simp, rfl⟩

theorem keys_mono_odSet (a : Inputs) (k : String) (v : Dom) (k' : String) (h : ∃ q ∈ a, q.1 = k') :
    ∃ q ∈ odSet a k v, q.1 = k' := by
  obtain ⟨q, hq, hk⟩ := h
  unfold odSet
  split
  · by_cases hqk : (q.1 == k) = true
    · refine ⟨(k, v), List.mem_map.mpr ⟨q, hq, by simp [hqk]⟩, ?_⟩
      simp at hqk; simp [← hk, hqk]
    · exact ⟨q, List.mem_map.mpr ⟨q, hq, by simp [hqk]⟩, hk⟩
  · exact ⟨q, by simp [hq], hk⟩

theorem mem_odUpdate : ∀ (b a : Inputs) (p : String × Dom), p ∈ odUpdate a b → p ∈ a ∨ p ∈ b := by
  intro b
  induction b with
  | nil => intro a p h; exact Or.inl h
  | cons x rest ih =>
    intro a p h
    simp only [odUpdate, List.foldl_cons] at h
    rcases ih (odSet a x.1 x.2) p h with h1 | h1
    · rcases mem_odSet a x.1 x.2 p h1 with h2 | h2
      · exact Or.inr (by simp [h2])
      · exact Or.inl h2
    · exact Or.inr (by simp [h1])

theorem keys_odUpdate : ∀ (b a : Inputs) (k : String), ((∃ q ∈ a, q.1 = k) ∨ (∃ q ∈ b, q.1 = k)) →
    ∃ q ∈ odUpdate a b, q.1 = k := by
  intro b
  induction b with
  | nil =>
    intro a k h
    rcases h with h | ⟨q, hq, _⟩
    · exact h
    · simp at hq
  | cons x rest ih =>
    intro a k h
    simp only [odUpdate, List.foldl_cons]
    apply ih
    rcases h with h | ⟨q, hq, hk⟩
    · exact Or.inl (keys_mono_odSet a x.1 x.2 k h)
    · rcases List.mem_cons.mp hq with rfl | hr
      · exact Or.inl (hk ▸ key_odSet a q.1 q.2)
      · exact Or.inr ⟨q, hr, hk⟩

theorem foldl_mem_source (bound : List String) : ∀ (terms : List Inputs) (acc : Inputs) (p : String × Dom),
    p ∈ terms.foldl (fun acc t => odUpdate acc (t.filter fun p => !bound.contains p.1)) acc →
    p ∈ acc ∨ ∃ t ∈ terms, p ∈ t ∧ p.1 ∉ bound := by
  intro terms
  induction terms with
  | nil => intro acc p h; exact Or.inl h
  | cons t rest ih =>
    intro acc p h
    simp only [List.foldl_cons] at h
    rcases ih _ p h with h1 | ⟨t', ht', hp⟩
    · rcases mem_odUpdate _ _ p h1 with h2 | h2
      · exact Or.inl h2
      · simp only [List.mem_filter, Bool.not_eq_true', List.contains_eq_mem, decide_eq_false_iff_not] at h2
        exact Or.inr ⟨t, by simp, h2.1, h2.2⟩
    · exact Or.inr ⟨t', by simp [ht'], hp⟩

/-- every declared pair is a pair of some term, with an unreduced name -/
theorem contractionInputsD_mem_source (bound : List String) (terms : List Inputs) (p : String × Dom)
    (h : p ∈ contractionInputsD bound terms) : ∃ t ∈ terms, p ∈ t ∧ p.1 ∉ bound := by
  rcases foldl_mem_source bound terms [] p h with h | h
  · simp at h
  · exact h

theorem foldl_covers (bound : List String) : ∀ (terms : List Inputs) (acc : Inputs) (k : String),
    ((∃ q ∈ acc, q.1 = k) ∨ ∃ t ∈ terms, ∃ q ∈ t, q.1 = k ∧ k ∉ bound) →
    ∃ q ∈ terms.foldl (fun acc t => odUpdate acc (t.filter fun p => !bound.contains p.1)) acc, q.1 = k := by
  intro terms
  induction terms with
  | nil =>
    intro acc k h
    rcases h with h | ⟨t, ht, _⟩
    · exact h
    · simp at ht
  | cons t rest ih =>
    intro acc k h
    simp only [List.foldl_cons]
    apply ih
    rcases h with h | ⟨t', ht', q, hq, hk, hb⟩
    · exact Or.inl (keys_odUpdate _ _ k (Or.inl h))
    · rcases List.mem_cons.mp ht' with rfl | hr
      · refine Or.inl (keys_odUpdate _ _ k (Or.inr ⟨q, ?_, hk⟩))
        simp only [List.mem_filter, Bool.not_eq_true', List.contains_eq_mem, decide_eq_false_iff_not]
        exact ⟨hq, hk ▸ hb⟩
      · exact Or.inr ⟨t', hr, q, hq, hk, hb⟩

/-- every unreduced name of every term is declared -/
theorem contractionInputsD_covers (bound : List String) (terms : List Inputs) (t : Inputs) (ht : t ∈ terms)
    (q : String × Dom) (hq : q ∈ t) (hb : q.1 ∉ bound) : ∃ r ∈ contractionInputsD bound terms, r.1 = q.1 :=
  foldl_covers bound terms [] q.1 (Or.inr ⟨t, ht, q, hq, rfl, hb⟩)

theorem consistent_spec (terms : List Inputs) (h : consistent terms = true) (t1 t2 : Inputs)
    (h1 : t1 ∈ terms) (h2 : t2 ∈ terms) (p q : String × Dom) (hp : p ∈ t1) (hq : q ∈ t2) (hk : p.1 = q.1) :
    p.2 = q.2 := by
  simp only [consistent, List.all_eq_true] at h
  have := h t1 h1 t2 h2 p hp q hq
  simp [hk] at this
  exact this

/-- **Domains.**  If shared names carry equal domains (`consistent`), the inputs the normal form declares map every
    unreduced name of every term to that term's domain for it: the name is declared, and every declared entry for
    it has exactly that domain. -/
theorem contractionInputsD_domain (bound : List String) (terms : List Inputs) (hc : consistent terms = true)
    (t : Inputs) (ht : t ∈ terms) (q : String × Dom) (hq : q ∈ t) (hb : q.1 ∉ bound) :
    (∃ r ∈ contractionInputsD bound terms, r.1 = q.1) ∧
    (∀ r ∈ contractionInputsD bound terms, r.1 = q.1 → r.2 = q.2) := by
  refine ⟨contractionInputsD_covers bound terms t ht q hq hb, ?_⟩
  intro r hr hk
  obtain ⟨t', ht', hrt, _⟩ := contractionInputsD_mem_source bound terms r hr
  exact consistent_spec terms hc t' t ht' ht r q hrt hq hk

/-! ### the declared names are those of the names/order theorem -/

theorem odSet_keys (a : Inputs) (k : String) (v : Dom) :
    (odSet a k v).map (·.1) = if k ∈ a.map (·.1) then a.map (·.1) else a.map (·.1) ++ [k] := by
  unfold odSet
  by_cases h : a.any (fun p => p.1 == k) = true
  · have hk : k ∈ a.map (·.1) := by
      simp only [List.any_eq_true] at h
      obtain ⟨q, hq, he⟩ := h
      exact List.mem_map.mpr ⟨q, hq, by simpa using he⟩
    simp only [h, if_true, hk, List.map_map]
    apply List.map_congr_left
    intro p _
    by_cases hp : p.1 = k
    · simp [hp]
    · simp [hp]
  · have hk : k ∉ a.map (·.1) := by
      intro hk
      obtain ⟨q, hq, he⟩ := List.mem_map.mp hk
      exact h (List.any_eq_true.mpr ⟨q, hq, by simp [he]⟩)
    simp [h, hk]

theorem unionNames_step (a : List String) (k : String) (rest : List String) (hk : k ∉ rest) :
    unionNames (if k ∈ a then a else a ++ [k]) rest = unionNames a (k :: rest) := by
  by_cases h : k ∈ a
  · simp [unionNames, h]
  · simp only [h, if_false, unionNames, List.filter_cons, List.contains_eq_mem, decide_false, Bool.not_false,
      if_true, List.append_assoc, List.singleton_append]
    congr 2
    apply List.filter_congr
    intro x hx
    have : x ≠ k := fun e => hk (e ▸ hx)
    simp [this]

theorem odUpdate_keys : ∀ (b a : Inputs), (b.map (·.1)).Nodup →
    (odUpdate a b).map (·.1) = unionNames (a.map (·.1)) (b.map (·.1)) := by
  intro b
  induction b with
  | nil => intro a _; simp [odUpdate, unionNames]
  | cons x rest ih =>
    intro a hn
    simp only [List.map_cons, List.nodup_cons] at hn
    simp only [odUpdate, List.foldl_cons, List.map_cons]
    have := ih (odSet a x.1 x.2) hn.2
    simp only [odUpdate] at this
    rw [this, odSet_keys, unionNames_step _ _ _ hn.1]

theorem filter_keys (bound : List String) (t : Inputs) :
    (t.filter fun p => !bound.contains p.1).map (·.1) = (t.map (·.1)).filter fun k => !bound.contains k := by
  induction t with
  | nil => rfl
  | cons p rest ih =>
    have ih' : List.map (fun x => x.fst) (List.filter (fun p => !decide (p.fst ∈ bound)) rest) =
        List.filter (fun k => !decide (k ∈ bound)) (List.map (fun x => x.fst) rest) := by simpa using ih
    by_cases h : p.1 ∈ bound
    · simp [List.filter_cons, h, ih']
    · simp [List.filter_cons, h, ih']

theorem foldl_keys (bound : List String) : ∀ (terms : List Inputs) (acc : Inputs),
    (∀ t ∈ terms, (t.map (·.1)).Nodup) →
    (terms.foldl (fun acc t => odUpdate acc (t.filter fun p => !bound.contains p.1)) acc).map (·.1) =
    (terms.map (·.map (·.1))).foldl (fun acc t => unionNames acc (t.filter fun k => !bound.contains k)) (acc.map (·.1)) := by
  intro terms
  induction terms with
  | nil => intro acc _; rfl
  | cons t rest ih =>
    intro acc hn
    simp only [List.foldl_cons, List.map_cons]
    rw [ih _ (fun t' ht' => hn t' (by simp [ht']))]
    congr 1
    have hnt : ((t.filter fun p => !bound.contains p.1).map (·.1)).Nodup := by
      rw [filter_keys]
      exact (hn t (by simp)).filter _
    rw [odUpdate_keys _ _ hnt, filter_keys]

/-- the names of the declared inputs-with-domains are exactly `contractionInputs` on the terms' names (hence, by
    `contractionInputs_eq_nested`, the names and order of the nested syntax tree) -/
theorem contractionInputsD_keys (bound : List String) (terms : List Inputs)
    (hn : ∀ t ∈ terms, (t.map (·.1)).Nodup) :
    (contractionInputsD bound terms).map (·.1) = contractionInputs bound (terms.map (·.map (·.1))) := by
  simp only [contractionInputsD, contractionInputs]
  exact foldl_keys bound terms [] hn

example : contractionInputsD ["i"] [[("a", ⟨.bint 2, []⟩), ("i", ⟨.bint 3, []⟩)], [("i", ⟨.bint 3, []⟩), ("b", ⟨.bint 4, []⟩),
    ("a", ⟨.bint 2, []⟩)]] = [("a", ⟨.bint 2, []⟩), ("b", ⟨.bint 4, []⟩)] := by decide
example : consistent [[("a", ⟨.bint 2, []⟩)], [("a", ⟨.bint 2, []⟩), ("b", ⟨.real, [3]⟩)]] = true := by decide
/-- without consistency the LAST term's domain wins (OrderedDict.update), so the hypothesis is needed -/
example : contractionInputsD [] [[("a", ⟨.bint 2, []⟩)], [("a", ⟨.bint 3, []⟩)]] = [("a", ⟨.bint 3, []⟩)] := by decide

end FV.Props.C06
