/-
  Props/C06/Product.lean — `Tuple`-valued terms: indexing a `Product[d₁,…,dₙ]` domain.
-/
import FunsorVerif.Model.C06
import FunsorVerif.Props.C06
namespace FV.Props.C06
open FV.C06

/-- an in-range int index (negative counted from the end) selects exactly that component's domain -/
theorem fdGetsliceProduct_int (ps : Params) (args : List Dom) (k : Int) (i : Nat) (d : Dom)
    (hp : lookup ps "index" = some (.index [.int k]))
    (hpos : pyPos args.length k = some i) (hd : args[i]? = some d) :
    fdGetsliceProduct ps args = .ok (.arr d) := by
  simp [fdGetsliceProduct, hp, hpos, hd]

theorem pyPos_lt (n : Nat) (k : Int) (i : Nat) (h : pyPos n k = some i) :
    i < n ∧ ((0 ≤ k ∧ (i : Int) = k) ∨ (k < 0 ∧ (i : Int) = n + k)) := by
  unfold pyPos at h
  split at h
  · split at h
    · simp at h; subst h; omega
    · simp at h
  · split at h
    · simp at h; subst h; omega
    · simp at h

theorem filterMap_all_some_length {α β : Type} (f : α → Option β) :
    ∀ l : List α, (∀ x ∈ l, (f x).isSome) → (l.filterMap f).length = l.length := by
  intro l
  induction l with
  | nil => intro _; rfl
  | cons x xs ih =>
    intro h
    have hx := h x (by simp)
    cases hfx : f x with
    | none => simp [hfx] at hx
    | some y =>
      simp [List.filterMap_cons, hfx, ih (fun z hz => h z (by simp [hz]))]

/-- **a slice of a product has exactly `len(range(*slice.indices(n)))` components**, for every start/stop/step
    (either sign, None, out of range) — every visited position is a valid component index -/
theorem pySliceList_length (l : List Dom) (a b c : Option Int) (r : List Dom)
    (h : pySliceList l a b c = .ok r) : sliceLen a b c l.length = .ok r.length := by
  unfold pySliceList at h
  unfold sliceLen
  cases hi : sliceIndices a b c l.length with
  | error e => simp [hi] at h
  | ok t =>
    obtain ⟨start, stop, step⟩ := t
    simp only [hi] at h ⊢
    simp only [Except.ok.injEq] at h
    subst h
    congr 1
    rw [filterMap_all_some_length]
    · simp
    · intro k hk
      have hk' : k < rangeLen start stop step := List.mem_range.mp hk
      obtain ⟨h0, h1⟩ := sliceIndices_in_bounds a b c l.length start stop step hi k hk'
      have : (start + (k : Int) * step).toNat < l.length := by omega
      simp [List.getElem?_eq_getElem this]

/-- the sub-product never has more components than the product -/
theorem fdGetsliceProduct_slice_le (ps : Params) (args r : List Dom) (a b c : Option Int)
    (hp : lookup ps "index" = some (.index [.slice a b c]))
    (h : fdGetsliceProduct ps args = .ok (.prod r)) : sliceLen a b c args.length = .ok r.length := by
  simp only [fdGetsliceProduct, hp] at h
  cases hs : pySliceList args a b c with
  | error e => simp [hs, Except.map] at h
  | ok r' =>
    simp [hs, Except.map] at h
    subst h
    exact pySliceList_length args a b c r' hs

example : fdGetsliceProduct [("index", .index [.int (-1)])] [⟨.real, [3]⟩, ⟨.bint 2, []⟩] = .ok (.arr ⟨.bint 2, []⟩) := by
  decide
example : fdGetsliceProduct [("index", .index [.slice none none (some (-1))])] [⟨.real, [3]⟩, ⟨.bint 2, []⟩]
    = .ok (.prod [⟨.bint 2, []⟩, ⟨.real, [3]⟩]) := by decide
example : fdGetsliceProduct [("index", .index [.int 2])] [⟨.real, [3]⟩, ⟨.bint 2, []⟩] = .error .index := by decide

end FV.Props.C06
