/-
  Props/C06/Ranges.lean — the bounded-integer half of C06: a value computed from operands inside their
  declared ranges lies inside the declared range of the result ("bounded-integer outputs lie in [0,size)").

  Statements are over all sizes n, m and all operand values; the declared sizes are the model's
  (`assocSize`, `modSize`, `floordivSize`, the same-dtype rule), i.e. what `find_domain` computes.
  Where the code's rule is unsound the full-strength statement is kept, proved FALSE by a witness,
  and the part that does hold is proved as `…_partial` (known findings KF-generic-int-range,
  KF-floordiv-bound, KF-bitwise-int-range).
-/
import FunsorVerif.Model.C06
namespace FV.Props.C06
open FV.C06

/-! ### associative ops with a computed bound: add, mul, max, min -/

/-- `Bint[n] + Bint[m] : Bint[n+m-1]` -/
theorem add_range (n m a b : Nat) (ha : a < n) (hb : b < m) :
    assocSize "add" n m = some ((n : Int) + m - 1) ∧ ((a + b : Nat) : Int) < (n : Int) + m - 1 := by
  constructor
  · simp [assocSize]; omega
  · omega

/-- the declared bound of `add` is attained (the rule is tight, not merely sound) -/
theorem add_range_tight (n m : Nat) (hn : 0 < n) (hm : 0 < m) :
    (((n - 1) + (m - 1) : Nat) : Int) + 1 = (n : Int) + m - 1 := by omega

/-- `Bint[n] * Bint[m] : Bint[(n-1)*(m-1)+1]` -/
theorem mul_range (n m a b : Nat) (ha : a < n) (hb : b < m) :
    assocSize "mul" n m = some (((n : Int) - 1) * ((m : Int) - 1) + 1) ∧
    ((a * b : Nat) : Int) < ((n : Int) - 1) * ((m : Int) - 1) + 1 := by
  constructor
  · simp [assocSize]
  · have h : a * b ≤ (n - 1) * (m - 1) := Nat.mul_le_mul (by omega) (by omega)
    have e1 : ((n : Int) - 1) = ((n - 1 : Nat) : Int) := by omega
    have e2 : ((m : Int) - 1) = ((m - 1 : Nat) : Int) := by omega
    rw [e1, e2, ← Int.natCast_mul]
    omega

/-- `max(Bint[n], Bint[m]) : Bint[max(n-1,m-1)+1]` -/
theorem max_range (n m a b : Nat) (ha : a < n) (hb : b < m) :
    assocSize "max" n m = some (max ((n : Int) - 1) ((m : Int) - 1) + 1) ∧
    ((max a b : Nat) : Int) < max ((n : Int) - 1) ((m : Int) - 1) + 1 := by
  constructor
  · simp [assocSize]
  · omega

/-- `min(Bint[n], Bint[m]) : Bint[min(n-1,m-1)+1]` -/
theorem min_range (n m a b : Nat) (ha : a < n) (hb : b < m) :
    assocSize "min" n m = some (min ((n : Int) - 1) ((m : Int) - 1) + 1) ∧
    ((min a b : Nat) : Int) < min ((n : Int) - 1) ((m : Int) - 1) + 1 := by
  constructor
  · simp [assocSize]
  · omega

/-- the model's associative clause returns exactly these sizes as the dtype (tie to `fdAssociative`) -/
theorem fdAssociative_add_dtype (n m : Nat) (s1 s2 s : List Nat) (hn : 0 < n) (hm : 0 < m)
    (hs : broadcast2 s1 s2 = .ok s) :
    fdAssociative "add" [⟨.bint n, s1⟩, ⟨.bint m, s2⟩] = .ok ⟨.bint (n + m - 1), s⟩ := by
  have h1 : ¬ ((n : Int) - 1 + ((m : Int) - 1) + 1 < 0) := by omega
  have h2 : ((n : Int) - 1 + ((m : Int) - 1) + 1).toNat = n + m - 1 := by omega
  simp [fdAssociative, assocSize, hs, h1, h2]

example : fdAssociative "add" [⟨.bint 3, []⟩, ⟨.bint 4, [2]⟩] = .ok ⟨.bint 6, [2]⟩ := by decide

/-! ### mod -/

/-- `Bint[n] % Bint[m] : Bint[m-1]` for a non-zero divisor -/
theorem mod_range (m a b : Nat) (hb0 : 0 < b) (hb : b < m) : a % b < modSize m := by
  have := Nat.mod_lt a hb0
  simp only [modSize]; omega

example : (4 % 2 < modSize 3) := by decide

/-! ### floor division (KF-floordiv-bound) -/

/-- Full-strength statement: every quotient of in-range operands with a non-zero divisor is below the
    declared size `(n-1)/(m-1)+1`.  It is FALSE. -/
def FloordivRangeSound : Prop :=
  ∀ n m a b s : Nat, a < n → 0 < b → b < m → floordivSize n m = .ok s → a / b < s

theorem floordiv_range_witness : ¬ FloordivRangeSound := by
  intro h
  have := h 5 3 4 1 3 (by decide) (by decide) (by decide) (by decide)
  exact absurd this (by decide)

/-- the declared size of `Bint[n] // Bint[m]` for `m ≥ 2`, `n ≥ 1` (what the model computes) -/
theorem floordivSize_eq (n m : Nat) (hn : 0 < n) (hm : 2 ≤ m) :
    floordivSize n m = .ok ((n - 1) / (m - 1) + 1) := by
  unfold floordivSize
  have h1 : ¬ ((m : Int) - 1 = 0) := by omega
  have e1 : ((n : Int) - 1) = ((n - 1 : Nat) : Int) := by omega
  have e2 : ((m : Int) - 1) = ((m - 1 : Nat) : Int) := by omega
  simp only [h1, if_false]
  rw [e1, e2, Int.fdiv_eq_ediv_of_nonneg _ (by omega)]
  have hq := Int.natCast_ediv (n - 1) (m - 1)
  have h0 : (0 : Int) ≤ ((n - 1 : Nat) : Int) / ((m - 1 : Nat) : Int) :=
    Int.ediv_nonneg (by omega) (by omega)
  have h3 : ¬ (((n - 1 : Nat) : Int) / ((m - 1 : Nat) : Int) + 1 < 0) := by omega
  simp only [h3, if_false]
  congr 1

/-- what does hold: with the maximal divisor `m-1` the quotient is inside the declared range -/
theorem floordiv_range_partial (n m a : Nat) (hn : 0 < n) (hm : 2 ≤ m) (ha : a < n) :
    ∃ s, floordivSize n m = .ok s ∧ a / (m - 1) < s := by
  refine ⟨_, floordivSize_eq n m hn hm, ?_⟩
  have : a / (m - 1) ≤ (n - 1) / (m - 1) := Nat.div_le_div_right (by omega)
  omega

/-- the sound bound a fix would declare: `a / b ≤ a < n` -/
theorem floordiv_sound_bound (n a b : Nat) (ha : a < n) : a / b < n :=
  Nat.lt_of_le_of_lt (Nat.div_le_self a b) ha

/-- a unit-size divisor type makes the rule divide by zero (ZeroDivisionError, a decline) -/
theorem floordivSize_unit_divisor (n : Nat) : floordivSize n 1 = .error .zeroDiv := by
  simp [floordivSize]

/-! ### generic same-dtype rule (KF-generic-int-range) -/

/-- Full-strength statement for subtraction typed `Bint[n] - Bint[n] : Bint[n]`: FALSE. -/
def SubRangeSound : Prop := ∀ n a b : Nat, a < n → b < n → 0 ≤ (a : Int) - b ∧ (a : Int) - b < n

theorem sub_range_witness : ¬ SubRangeSound := by
  intro h
  have := (h 3 0 2 (by decide) (by decide)).1
  omega

theorem sub_range_partial (n a b : Nat) (ha : a < n) (hba : b ≤ a) :
    0 ≤ (a : Int) - b ∧ (a : Int) - b < n := by omega

/-- Full-strength statement for `Bint[n] ** Bint[n] : Bint[n]`: FALSE (2 ** 2 = 4 ≥ 3). -/
def PowRangeSound : Prop := ∀ n a b : Nat, a < n → b < n → a ^ b < n

theorem pow_range_witness : ¬ PowRangeSound := by
  intro h
  exact absurd (h 3 2 2 (by decide) (by decide)) (by decide)

theorem pow_range_partial (n a b : Nat) (ha : a < n) (hb : b ≤ 1) (hn : 1 < n) : a ^ b < n := by
  have : b = 0 ∨ b = 1 := by omega
  rcases this with rfl | rfl <;> simp <;> omega

/-- Full-strength statement for unary negation typed `-Bint[n] : Bint[n]`: FALSE. -/
def NegRangeSound : Prop := ∀ n a : Nat, a < n → 0 ≤ -(a : Int)

theorem neg_range_witness : ¬ NegRangeSound := by
  intro h
  have := h 3 2 (by decide)
  omega

theorem neg_range_partial (n a : Nat) (_ha : a < n) (h0 : a = 0) : 0 ≤ -(a : Int) := by omega

/-- the model's generic rules do keep the dtype (tie: this is what `find_domain` declares) -/
theorem fdBinaryGeneric_same_dtype (dt : DType) (s1 s2 s : List Nat) (hs : broadcast2 s1 s2 = .ok s) :
    fdBinaryGeneric ⟨dt, s1⟩ ⟨dt, s2⟩ = .ok ⟨dt, s⟩ := by
  simp [fdBinaryGeneric, hs]

theorem fdUnaryGeneric_same (d : Dom) : fdUnaryGeneric d = .ok d := rfl

/-! ### bitwise ops typed `Bint[2]` (KF-bitwise-int-range) -/

def BitwiseRangeSound : Prop := ∀ n m a b : Nat, a < n → b < m → a &&& b < 2 ∧ a ||| b < 2 ∧ a ^^^ b < 2

theorem bitwise_range_witness : ¬ BitwiseRangeSound := by
  intro h
  exact absurd (h 4 4 3 3 (by decide) (by decide)).1 (by decide)

theorem bitwise_range_partial (n m a b : Nat) (hn : n ≤ 2) (hm : m ≤ 2) (ha : a < n) (hb : b < m) :
    a &&& b < 2 ∧ a ||| b < 2 ∧ a ^^^ b < 2 := by
  have ha' : a = 0 ∨ a = 1 := by omega
  have hb' : b = 0 ∨ b = 1 := by omega
  rcases ha' with rfl | rfl <;> rcases hb' with rfl | rfl <;> decide

theorem fdAssociative_bitwise_dtype (n m : Nat) (s1 s2 s : List Nat) (hs : broadcast2 s1 s2 = .ok s) :
    fdAssociative "and_" [⟨.bint n, s1⟩, ⟨.bint m, s2⟩] = .ok ⟨.bint 2, s⟩ := by
  simp [fdAssociative, assocSize, hs]

/-! ### comparisons, all/any: `Bint[2]` -/

theorem comparison_range (p : Bool) : (if p then 1 else 0 : Nat) < 2 := by cases p <;> decide

end FV.Props.C06
