/-
  Props/C06/Shapes.lean — matmul and stack: the declared shape is numpy's, for all operand shapes.
-/
import FunsorVerif.Model.C06
import FunsorVerif.Props.C06
namespace FV.Props.C06
open FV.C06

theorem drop_rev2 (l : List Nat) (m q : Nat) :
    List.drop (l.length + 1) (l.reverse ++ [m, q]) = [q] := by
  have h : l.length = l.reverse.length := by simp
  rw [h, List.drop_append]
  have h1 : List.drop (l.reverse.length + 1) l.reverse = [] := List.drop_eq_nil_of_le (by omega)
  have h2 : l.reverse.length + 1 - l.reverse.length = 1 := by omega
  rw [h1, h2]
  rfl

theorem bcRev_ok_of_np (a b r : List Nat) (h : npBcRev a b = some r) : bcRev a b = .ok r :=
  (toOption_eq_some _ _).mp (by rw [bcRev_eq_np]; exact h)

/-- broadcasting `lhs[:-1]` against `rhs[:-2] + (1,)`: the row dimension `p` of the left matrix survives
    and the batch dimensions broadcast. -/
theorem bcRev_row (p : Nat) (x y r : List Nat) (h : npBcRev x y = some r) :
    bcRev (p :: x) (1 :: y) = .ok (p :: r) := by
  have hb := bcRev_ok_of_np x y r h
  simp only [bcRev]
  by_cases hp : p = 1
  · simp [hp, hb, Except.map]
  · simp [hp, hb, Except.map]

/-- **matmul**, stated on reversed shapes (last axis first): whenever numpy's matmul returns a shape,
    `find_domain` declares `Reals[that shape]`. -/
theorem findDomain_matmul_sound_rev (dl dr : DType) (ar br r : List Nat)
    (h : npMatmulShape ar.reverse br.reverse = some r) :
    fdMatmul ⟨dl, ar.reverse⟩ ⟨dr, br.reverse⟩ = .ok ⟨.real, r⟩ := by
  unfold npMatmulShape at h
  unfold fdMatmul
  simp only [List.reverse_reverse] at h ⊢
  match ar, br with
  | [], _ => simp at h
  | _ :: _, [] => simp at h
  | [n], [m] =>
    simp only at h ⊢
    by_cases hnm : n = m
    · simp [hnm] at h ⊢; exact h
    · simp [hnm] at h
  | n :: p :: ar', [m] =>
    simp only at h ⊢
    by_cases hnm : n = m
    · simp [hnm] at h ⊢
      try (rw [← h])
      try simp
    · simp [hnm] at h
  | [n], q :: m :: br' =>
    simp only at h ⊢
    by_cases hnm : n = m
    · simp [hnm] at h ⊢
      rw [← h]
      simp [pyTake, pyDrop, drop_rev2]
    · simp [hnm] at h
  | n :: p :: ar', q :: m :: br' =>
    simp only at h ⊢
    by_cases hnm : n = m
    · simp only [hnm, if_true] at h ⊢
      cases hr : npBcRev ar' br' with
      | none => simp [hr] at h
      | some r0 =>
        simp [hr] at h
        have hrow := bcRev_row p ar' br' r0 hr
        have e1 : ((m :: p :: ar').reverse).dropLast = (p :: ar').reverse := by
          simp
        have e2 : pyTake ((q :: m :: br').reverse) (-2) ++ [1] = (1 :: br').reverse := by
          simp [pyTake]
        have e3 : pyDrop ((q :: m :: br').reverse) (-1) = [q] := by
          simp [pyDrop, drop_rev2]
        rw [e1, e2, e3]
        simp only [broadcast2, List.reverse_reverse, hrow, Except.map]
        rw [← h]
        simp
    · simp [hnm] at h

theorem findDomain_matmul_sound (l r : Dom) (s : List Nat)
    (h : npMatmulShape l.shape r.shape = some s) : fdMatmul l r = .ok ⟨.real, s⟩ := by
  have := findDomain_matmul_sound_rev l.dtype r.dtype l.shape.reverse r.shape.reverse s
    (by simpa using h)
  simpa using this

example : fdMatmul ⟨.real, [5, 1, 2, 3]⟩ ⟨.real, [4, 3, 6]⟩ = .ok ⟨.real, [5, 4, 2, 6]⟩ := by decide
example : npMatmulShape [5, 1, 2, 3] [4, 3, 6] = some [5, 4, 2, 6] := by decide
example : fdMatmul ⟨.real, [3]⟩ ⟨.real, [3]⟩ = .ok ⟨.real, []⟩ := by decide

/-! ### stack -/

theorem bcRev_self (s : List Nat) : bcRev s s = .ok s := by
  induction s with
  | nil => simp [bcRev]
  | cons x xs ih =>
    simp only [bcRev]
    by_cases hx : x = 1
    · simp [hx, ih, Except.map]
    · simp [hx, ih, Except.map]

theorem bcRevMany_same (s : List Nat) (n : Nat) :
    bcRevMany s.reverse (List.replicate n s) = .ok s.reverse := by
  induction n with
  | zero => simp [bcRevMany]
  | succ k ih => simp [List.replicate_succ, bcRevMany, bcRev_self, ih]

theorem broadcastMany_same (s : List Nat) (n : Nat) :
    broadcastMany (List.replicate (n + 1) s) = .ok s := by
  simp only [broadcastMany, List.replicate_succ, bcRevMany, bcRev]
  rw [bcRevMany_same]
  simp [Except.map]

/-- **stack** of `n+1` parts of one shape `s` along a non-negative `dim ≤ rank`: the declared shape is
    numpy's (`s[:dim] + (n+1,) + s[dim:]`). -/
theorem findDomain_stack_sound (ps : Params) (dt : DType) (s : List Nat) (n dim : Nat)
    (hp : lookup ps "dim" = some (.int (dim : Int))) (hd : dim ≤ s.length) :
    fdStack ps (List.replicate (n + 1) ⟨dt, s⟩) = .ok ⟨dt, s.take dim ++ (n + 1) :: s.drop dim⟩ ∧
    npStackShape (List.replicate (n + 1) s) (dim : Int) = some (s.take dim ++ (n + 1) :: s.drop dim) := by
  constructor
  · have hb : broadcastMany ((List.replicate (n + 1) (⟨dt, s⟩ : Dom)).map (·.shape)) = .ok s := by
      rw [List.map_replicate]; exact broadcastMany_same s n
    have h0 : (0 : Int) ≤ (dim : Int) := by omega
    have h1 : (dim : Int) - (s.length : Int) - 1 < 0 := by omega
    have h2 : (dim : Int) - (s.length : Int) - 1 + (s.length : Int) + 1 = (dim : Int) := by omega
    simp only [fdStack, hb, hp, h0, if_true, h1, not_true_eq_false, if_false, h2]
    simp [List.replicate_succ, pyTake, pyDrop]
  · have hn : npNormAxis (s.length + 1) (dim : Int) = some dim := by
      have h0 : (0 : Int) ≤ (dim : Int) := by omega
      have h1 : (dim : Int) < ((s.length + 1 : Nat) : Int) := by omega
      simp [npNormAxis, h0]
      omega
    simp [npStackShape, List.replicate_succ, hn]

example : fdStack [("dim", .int 1)] [⟨.real, [2, 3]⟩, ⟨.real, [2, 3]⟩] = .ok ⟨.real, [2, 2, 3]⟩ := by decide
example : npStackShape [[2, 3], [2, 3]] (-1) = some [2, 3, 2] := by decide
example : fdStack [("dim", .int (-1))] [⟨.real, [2, 3]⟩, ⟨.real, [2, 3]⟩] = .ok ⟨.real, [2, 3, 2]⟩ := by decide

end FV.Props.C06

namespace FV.Props.C06
open FV.C06

/-! ### eager reductions on batched data (funsor/tensor.py `eager_reduction_tensor`) -/

theorem reduceFrom_prefix (dims : List Nat) (keep : Bool) (S : List Nat) :
    ∀ (B : List Nat) (off : Nat), (∀ i, i < B.length → off + i ∉ dims) →
      reduceFrom dims keep off (B ++ S) = B ++ reduceFrom dims keep (off + B.length) S := by
  intro B
  induction B with
  | nil => intro off _; simp
  | cons b bs ih =>
    intro off h
    have h0 : off ∉ dims := by simpa using h 0 (by simp)
    have hrest : ∀ i, i < bs.length → off + 1 + i ∉ dims := by
      intro i hi
      have := h (i + 1) (by simp; omega)
      rwa [show off + (i + 1) = off + 1 + i by omega] at this
    have e : off + 1 + bs.length = off + (bs.length + 1) := by omega
    simp [reduceFrom, h0, ih (off + 1) hrest, e]

theorem reduceFrom_shift (dims : List Nat) (keep : Bool) (c : Nat) :
    ∀ (S : List Nat) (off : Nat),
      reduceFrom (dims.map (· + c)) keep (off + c) S = reduceFrom dims keep off S := by
  intro S
  induction S with
  | nil => intro off; simp [reduceFrom]
  | cons s rest ih =>
    intro off
    have hm : (off + c ∈ dims.map (· + c)) ↔ off ∈ dims := by
      simp
    have e : off + c + 1 = off + 1 + c := by omega
    have ih' := ih (off + 1)
    simp only [reduceFrom, hm, e, ih']

/-- numpy's reduce shape written with the model's shape clause -/
theorem specFilter_eq_reduceFrom (dims : List Nat) (keep : Bool) (shape : List Nat) :
    ((List.range shape.length).filterMap fun i =>
      if i ∈ dims then (if keep then some 1 else none) else shape[i]?) = reduceFrom dims keep 0 shape := by
  rw [reduceFrom_eq]
  simp [specFilter]

/-- Batched data of shape `B ++ S`, reduced over the axes `eager_reduction_tensor` passes to the array op
    (`axis % ndims - ndims`, counted from the end), has shape `B ++ (declared shape)`: batch dims are
    untouched.  Stated for `dims` already normalised w.r.t. the event shape `S`. -/
theorem eager_reduction_keeps_batch (B S : List Nat) (dims : List Nat) (keep : Bool) :
    reduceFrom (dims.map (· + B.length)) keep 0 (B ++ S) = B ++ reduceFrom dims keep 0 S := by
  rw [reduceFrom_prefix]
  · have := reduceFrom_shift dims keep B.length S 0
    simpa using this
  · intro i hi hmem
    simp at hmem
    obtain ⟨a, _, ha⟩ := hmem
    omega

/-- an int axis: the eager rule's rewritten axis addresses position `B.length + k` of the batched data,
    where `k` is numpy's normalisation of the axis w.r.t. the event shape -/
theorem eagerReductionAxis_one (nb nd : Nat) (a : Int) (k : Nat) (hnd : 0 < nd)
    (h : npNormAxis nd a = some k) :
    npNormAxis (nb + nd) (a % (nd : Int) - nd) = some (nb + k) := by
  have hk := normAxis_mod nd a k hnd h
  have h0 : 0 ≤ a % (nd : Int) := Int.emod_nonneg a (by omega)
  have h1 : a % (nd : Int) < nd := Int.emod_lt_of_pos a (by omega)
  unfold npNormAxis
  have hneg : ¬ (0 ≤ a % (nd : Int) - nd) := by omega
  have hge : -((nb + nd : Nat) : Int) ≤ a % (nd : Int) - nd := by omega
  simp only [hneg, if_false, hge, if_true]
  congr 1
  omega

/-- **Eager reduction over an int axis keeps the batch dims**: the array op applied to data of shape
    `B ++ S` with the rewritten axis returns `B ++ r` where `r` is numpy's (= the declared) reduced
    event shape.  (Tuple axes and `axis=None` go through the same `eager_reduction_keeps_batch`; their
    normalisation lemma is tied by the harness' `eagerred` comparison on every enumerated case.) -/
theorem eager_reduction_data_shape_partial (B S : List Nat) (a : Int) (keep : Bool) (r : List Nat)
    (hS : S ≠ []) (h : npReduceShape S (.one a) keep = some r) :
    npReduceShape (B ++ S) (eagerReductionAxis (.one a) S.length) keep = some (B ++ r) := by
  have hnd : 0 < S.length := List.length_pos_iff.mpr hS
  have hnd0 : S.length ≠ 0 := by omega
  unfold npReduceShape at h ⊢
  simp only [eagerReductionAxis, hnd0, if_false] at h ⊢
  cases hn : npNormAxis S.length a with
  | none => simp [hn] at h
  | some k =>
    have hB : (B ++ S).length = B.length + S.length := by simp
    have hB0 : (B ++ S).length ≠ 0 := by omega
    have hone := eagerReductionAxis_one B.length S.length a k hnd hn
    simp only [hn, Option.map_some] at h
    have hone' : npNormAxis (B ++ S).length (a % (S.length : Int) - S.length) = some (B.length + k) := by
      rw [hB]; exact hone
    simp only [hB0, if_false, hone', Option.map_some]
    rw [specFilter_eq_reduceFrom]
    rw [specFilter_eq_reduceFrom] at h
    simp only [Option.some.injEq] at h ⊢
    have := eager_reduction_keeps_batch B S [k] keep
    simp only [List.map_cons, List.map_nil] at this
    rw [Nat.add_comm k B.length] at this
    rw [this, h]

example : npReduceShape ([2] ++ [4, 3]) (eagerReductionAxis (.one 0) 2) false = some ([2] ++ [3]) := by decide

end FV.Props.C06

namespace FV.Props.C06
open FV.C06

/-- tuple axes: each entry rewritten as `d % ndims - ndims` addresses `B.length +` its normalised position -/
theorem normAxes_shift (nb nd : Nat) (hnd : 0 < nd) :
    ∀ (l : List Int) (ks : List Nat), npNormAxes nd l = some ks →
      npNormAxes (nb + nd) (l.map fun d => d % (nd : Int) - nd) = some (ks.map (· + nb)) := by
  intro l
  induction l with
  | nil => intro ks h; simp [npNormAxes] at h; subst h; simp [npNormAxes]
  | cons a rest ih =>
    intro ks h
    simp only [npNormAxes] at h
    cases h1 : npNormAxis nd a with
    | none => simp [h1] at h
    | some x =>
      cases h2 : npNormAxes nd rest with
      | none => simp [h1, h2] at h
      | some xs =>
        simp only [h1, h2] at h
        split at h
        · simp at h
        · rename_i hmem
          simp at h; subst h
          have e1 := eagerReductionAxis_one nb nd a x hnd h1
          have e2 := ih xs h2
          have hm : ¬ (nb + x ∈ xs.map (· + nb)) := by
            simp only [List.mem_map, not_exists, not_and]
            intro y hy hxy
            have : y = x := by omega
            subst this
            exact hmem hy
          simp only [List.map_cons, npNormAxes, e1, e2, hm, if_false]
          simp [Nat.add_comm]

/-- `axis=None`: the eager rule passes `range(-ndims, 0)` -/
theorem normAxes_range_shift (nb nd : Nat) :
    ∀ (js : List Nat), js.Nodup → (∀ j ∈ js, j < nd) →
      npNormAxes (nb + nd) (js.map fun (j : Nat) => (j : Int) - (nd : Int)) = some (js.map (· + nb)) := by
  intro js
  induction js with
  | nil => intro _ _; simp [npNormAxes]
  | cons j rest ih =>
    intro hnd hlt
    have hj : j < nd := hlt j (by simp)
    have hrest := ih (List.nodup_cons.mp hnd).2 (fun k hk => hlt k (by simp [hk]))
    have hnotin : j ∉ rest := (List.nodup_cons.mp hnd).1
    have e1 : npNormAxis (nb + nd) ((j : Int) - (nd : Int)) = some (nb + j) := by
      unfold npNormAxis
      have hneg : ¬ (0 ≤ (j : Int) - (nd : Int)) := by omega
      have hge : -((nb + nd : Nat) : Int) ≤ (j : Int) - (nd : Int) := by omega
      simp only [hneg, if_false, hge, if_true]
      congr 1
      omega
    have hm : ¬ (nb + j ∈ rest.map (· + nb)) := by
      simp only [List.mem_map, not_exists, not_and]
      intro y hy hxy
      have : y = j := by omega
      subst this
      exact hnotin hy
    simp only [List.map_cons, npNormAxes, e1, hrest, hm, if_false]
    simp [Nat.add_comm]

/-- **Eager reductions keep the batch dims, for every axis** (None, int, tuple; negative entries):
    the array op applied to data of shape `B ++ S` with the axis `eager_reduction_tensor` passes returns
    `B ++ r`, where `r` is numpy's (= by `findDomain_reduction_sound` the declared) reduced event shape. -/
theorem eager_reduction_data_shape (B S : List Nat) (axis : Axis) (keep : Bool) (r : List Nat)
    (hS : S ≠ []) (h : npReduceShape S axis keep = some r) :
    npReduceShape (B ++ S) (eagerReductionAxis axis S.length) keep = some (B ++ r) := by
  have hnd : 0 < S.length := List.length_pos_iff.mpr hS
  have hB : (B ++ S).length = B.length + S.length := by simp
  cases axis with
  | one a => exact eager_reduction_data_shape_partial B S a keep r hS h
  | all =>
    unfold npReduceShape at h ⊢
    simp only [eagerReductionAxis, Option.map_some] at h ⊢
    have hn : npNormAxes (B ++ S).length
        ((List.range S.length).map fun (i : Nat) => (i : Int) - (S.length : Int))
        = some ((List.range S.length).map (· + B.length)) := by
      rw [hB]
      exact normAxes_range_shift B.length S.length _ List.nodup_range (fun j hj => List.mem_range.mp hj)
    simp only [hn, Option.map_some]
    rw [specFilter_eq_reduceFrom]
    rw [specFilter_eq_reduceFrom] at h
    simp only [Option.some.injEq] at h ⊢
    rw [eager_reduction_keeps_batch, h]
  | many l =>
    unfold npReduceShape at h ⊢
    simp only [eagerReductionAxis] at h ⊢
    cases hn : npNormAxes S.length l with
    | none => simp [hn] at h
    | some ks =>
      have hs : npNormAxes (B ++ S).length (l.map fun d => d % (S.length : Int) - S.length)
          = some (ks.map (· + B.length)) := by
        rw [hB]; exact normAxes_shift B.length S.length hnd l ks hn
      simp only [hn, Option.map_some] at h
      simp only [hs, Option.map_some]
      rw [specFilter_eq_reduceFrom]
      rw [specFilter_eq_reduceFrom] at h
      simp only [Option.some.injEq] at h ⊢
      rw [eager_reduction_keeps_batch, h]

example : npReduceShape ([2] ++ [4, 3]) (eagerReductionAxis (.many [-1, 0]) 2) true = some ([2] ++ [1, 1]) := by decide
example : npReduceShape ([2, 5] ++ [4, 3]) (eagerReductionAxis .all 2) false = some ([2, 5] ++ []) := by decide

end FV.Props.C06
