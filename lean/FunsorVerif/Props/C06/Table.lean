/-
  Props/C06/Table.lean — obligations over Gen/C06OpSignatures.lean, the table regenerated from
  /repo on every run (funsor/ops/*.py: every op's declared parameters; funsor/domains.py: which
  `op.defaults` keys each `find_domain` clause reads and for which op classes it is registered).

  The `find_domain` model reads op parameters by key.  These obligations tie the keys to the source:
  every key a clause reads is a parameter that every op dispatched to that clause declares
  (`reads_declared` — a clause reading `"dim"` from ops that declare `"axis"` fails here), the model
  reads exactly the keys the source reads (`model_reads_source_keys`), each catalogue op is typed by the
  clause the model uses for it (`dispatch_expected`), and dispatch is what the registrations say
  (`dispatch_follows_mro`).
-/
import FunsorVerif.Model.C06
import FunsorVerif.Gen.C06OpSignatures
namespace FV.Props.C06
open FV.Gen.C06

/-- every key clause `r` reads is declared by op `e` -/
def readsDeclared (r : RuleReads) (e : OpSig) : Bool :=
  (r.bracketKeys ++ r.getKeys).all fun k => (e.params.map (·.1)).contains k

/-- Every key a `find_domain` clause reads from `op.defaults` is a parameter declared by every op that
    is dispatched to that clause. -/
theorem reads_declared :
    ∀ r ∈ rules, ∀ e ∈ ops, e.rule = r.rule → readsDeclared r e = true := by decide

/-- the declared parameters that have a default are the keys of the live default instance's
    `op.defaults`, and the declared names agree with the AST of the defining function where there is one -/
theorem params_are_defaults_keys :
    ∀ e ∈ ops, (e.params.filter (·.2 != "<required>")).map (·.1) = e.defaultsKeys ∧
      (e.astParams = none ∨ e.astParams = some (e.params.map (·.1))) := by decide

/-- keys the Lean model reads per clause: (`op.defaults[k]` keys, `.get(k, …)` keys) -/
def modelReads : String → Option (List String × List String)
  | "_find_domain_pointwise_unary_generic" => some ([], [])
  | "_find_domain_astype" => some (["dtype"], [])
  | "_find_domain_log_exp" => some ([], [])
  | "_find_domain_reduction" => some ([], ["axis", "keepdims"])
  | "_find_domain_reshape" => some (["shape"], [])
  | "_find_domain_getitem" => some (["offset"], [])
  | "_find_domain_getslice" => some (["index"], [])
  | "_find_domain_pointwise_binary_generic" => some ([], [])
  | "_find_domain_comparison" => some ([], [])
  | "_find_domain_floordiv" => some ([], [])
  | "_find_domain_mod" => some ([], [])
  | "_find_domain_matmul" => some ([], [])
  | "_find_domain_associative_generic" => some ([], [])
  | "_find_domain_stack" => some (["dim"], [])
  | "_find_domain_cat" => some (["axis"], [])
  | "_find_domain_einsum" => some (["equation"], [])
  | _ => none

/-- clauses outside the model (need backend transform objects) -/
def unmodelled : List String := ["_transform_find_domain", "_transform_log_abs_det_jacobian"]

/-- The model reads exactly the keys the source reads, clause by clause; every clause in the source is
    either modelled or listed as unmodelled (a new clause fails closed). -/
theorem model_reads_source_keys :
    ∀ r ∈ rules, modelReads r.rule = some (r.bracketKeys, r.getKeys) ∨
      (r.rule ∈ unmodelled ∧ modelReads r.rule = none) := by decide

/-- the model's own key reads are satisfiable on the ops' declared defaults: e.g. the default
    `sum` instance carries `axis` and `keepdims` -/
example : ∃ e ∈ ops, e.name = "sum" ∧ e.params.map (·.1) = ["axis", "keepdims"] := by decide

/-- the clause each catalogue op is expected to be typed by (the one the harness sends to the model) -/
def expectedRule : String → Option String
  | "abs" | "neg" | "pos" | "sqrt" | "log1p" | "sigmoid" | "tanh" | "atanh" | "reciprocal" | "lgamma"
  | "invert" | "detach" | "isnan" | "clamp" | "flip" => some "_find_domain_pointwise_unary_generic"
  | "unsqueeze" | "transpose" | "permute" | "argmax" | "argmin" | "expand" | "diagonal" | "new_zeros" =>
      some "_find_domain_pointwise_unary_generic"      -- KF-generic-unary-shape: no rule of their own
  | "exp" | "log" => some "_find_domain_log_exp"
  | "astype" => some "_find_domain_astype"
  | "all" | "any" | "amax" | "amin" | "sum" | "prod" | "logsumexp" | "mean" | "std" | "var" =>
      some "_find_domain_reduction"
  | "reshape" => some "_find_domain_reshape"
  | "getitem" => some "_find_domain_getitem"
  | "getslice" => some "_find_domain_getslice"
  | "sub" | "pow" | "truediv" | "lshift" | "rshift" | "safesub" | "safediv" =>
      some "_find_domain_pointwise_binary_generic"
  | "eq" | "ne" | "lt" | "le" | "gt" | "ge" => some "_find_domain_comparison"
  | "floordiv" => some "_find_domain_floordiv"
  | "mod" => some "_find_domain_mod"
  | "matmul" => some "_find_domain_matmul"
  | "add" | "mul" | "max" | "min" | "and_" | "or_" | "xor" | "logaddexp" | "sample" | "null" =>
      some "_find_domain_associative_generic"
  | "stack" => some "_find_domain_stack"
  | "cat" => some "_find_domain_cat"
  | "einsum" => some "_find_domain_einsum"
  | _ => none

def catalogue : List String :=
  ["abs", "neg", "pos", "sqrt", "log1p", "sigmoid", "tanh", "atanh", "reciprocal", "lgamma", "invert", "detach",
   "isnan", "clamp", "flip", "exp", "log", "astype", "all", "any", "amax", "amin", "sum", "prod", "logsumexp",
   "mean", "std", "var", "reshape", "getitem", "getslice", "sub", "pow", "truediv", "lshift", "rshift", "safesub",
   "safediv", "eq", "ne", "lt", "le", "gt", "ge", "floordiv", "mod", "matmul", "add", "mul", "max", "min", "and_",
   "or_", "xor", "logaddexp", "sample", "null", "stack", "cat", "einsum"]

/-- every op is typed by the clause the model uses for it, and the whole catalogue is present -/
theorem dispatch_expected :
    (∀ e ∈ ops, expectedRule e.name = none ∨ expectedRule e.name = some e.rule) ∧
    (∀ n ∈ catalogue, (expectedRule n).isSome ∧ (ops.any fun e => e.name == n) = true) := by decide

/-- every reduction op (class chain through `ReductionOp`) is typed by the reduction clause and
    declares `axis` and `keepdims` — the keys `findDomain_reduction_sound` assumes -/
theorem reductions_declare_axis_keepdims :
    ∀ e ∈ ops, e.mro.contains "ReductionOp" = true →
      e.rule = "_find_domain_reduction" ∧
      (e.params.map (·.1)).contains "axis" = true ∧ (e.params.map (·.1)).contains "keepdims" = true := by
  decide

/-- singledispatch resolution: the first class of the op's MRO that some clause is registered for -/
def resolve (rs : List RuleReads) : List String → Option String
  | [] => none
  | c :: rest => match rs.find? (fun r => r.registeredFor.contains c) with
    | some r => some r.rule
    | none => resolve rs rest

/-- the live dispatch (`find_domain.dispatch(type(op))`) is what the `@find_domain.register`
    decorators in the source say (ops with no clause fall through to the raising base function) -/
theorem dispatch_follows_mro :
    ∀ e ∈ ops, resolve rules e.mro = some e.rule ∨ (resolve rules e.mro = none ∧ e.rule = "find_domain") := by
  decide

end FV.Props.C06
