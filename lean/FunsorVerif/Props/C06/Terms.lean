/-
  Props/C06/Terms.lean — C06 for the `Lambda` and `Stack` term constructors (Model/C06Terms.lean):
  the eager Tensor rule returns a tensor whose declared inputs and output are EXACTLY what the lazy
  constructor declares, and whose data array has exactly `batch sizes ++ declared output shape`
  (`TDecl.WF`, the Tensor invariant of tensor.py).  For all inputs, sizes, names.
-/
import FunsorVerif.Model.C06Terms
import FunsorVerif.Props.C06.InputsDom
namespace FV.Props.C06
open FV.C06

/-- the declaration is honoured by the data: data shape = batch sizes ++ output shape -/
def TDecl.WF (t : TDecl) : Prop := ∃ bs, sizes? t.inputs = some bs ∧ t.data = bs ++ t.output.shape

/-! ### `allSome` -/

theorem allSome_append : ∀ (x y : List (Option Nat)) (a b : List Nat),
    allSome x = some a → allSome y = some b → allSome (x ++ y) = some (a ++ b)
  | [], y, a, b, hx, hy => by simp [allSome] at hx; subst hx; simpa using hy
  | o :: r, y, a, b, hx, hy => by
    cases o with
    | none => simp [allSome] at hx
    | some n =>
      cases hr : allSome r with
      | none => simp [allSome, hr] at hx
      | some l =>
        simp [allSome, hr] at hx
        subst hx
        have := allSome_append r y l b hr hy
        simp [allSome, this]

theorem allSome_length : ∀ (x : List (Option Nat)) (a : List Nat), allSome x = some a → a.length = x.length
  | [], a, h => by simp [allSome] at h; subst h; rfl
  | o :: r, a, h => by
    cases o with
    | none => simp [allSome] at h
    | some n =>
      cases hr : allSome r with
      | none => simp [allSome, hr] at h
      | some l =>
        simp [allSome, hr] at h
        subst h
        simp [allSome_length r l hr]

theorem allSome_of_forall : ∀ (x : List (Option Nat)), (∀ o ∈ x, o ≠ none) → ∃ a, allSome x = some a
  | [], _ => ⟨[], rfl⟩
  | o :: r, h => by
    obtain ⟨l, hl⟩ := allSome_of_forall r (fun o ho => h o (List.mem_cons_of_mem _ ho))
    cases o with
    | none => exact absurd rfl (h none (List.mem_cons_self))
    | some n => exact ⟨n :: l, by simp [allSome, hl]⟩

theorem forall_of_allSome : ∀ (x : List (Option Nat)) (a : List Nat), allSome x = some a → ∀ o ∈ x, o ≠ none
  | [], _, _ => by simp
  | o :: r, a, h => by
    cases o with
    | none => simp [allSome] at h
    | some n =>
      cases hr : allSome r with
      | none => simp [allSome, hr] at h
      | some l =>
        intro o ho
        rcases List.mem_cons.mp ho with rfl | ho
        · simp
        · exact forall_of_allSome r l hr o ho

/-- sizes of a sub-dictionary exist when the sizes of the dictionary do -/
theorem sizes?_filter (a : Inputs) (q : String × Dom → Bool) (bs : List Nat) (h : sizes? a = some bs) :
    ∃ bs1, sizes? (a.filter q) = some bs1 := by
  unfold sizes? at h ⊢
  apply allSome_of_forall
  intro o ho
  have hall := forall_of_allSome _ _ h
  obtain ⟨p, hp, rfl⟩ := List.mem_map.mp ho
  exact hall _ (List.mem_map.mpr ⟨p, (List.mem_filter.mp hp).1, rfl⟩)

/-! ### OrderedDict lookups -/

theorem odGet_of_mem : ∀ (a : Inputs), (a.map (·.1)).Nodup → ∀ p ∈ a, odGet a p.1 = some p.2
  | [], _, p, hp => by simp at hp
  | q :: r, hnd, p, hp => by
    simp only [List.map_cons, List.nodup_cons] at hnd
    rcases List.mem_cons.mp hp with rfl | hp
    · simp [odGet, List.find?]
    · have hne : q.1 ≠ p.1 := fun e => hnd.1 (e ▸ List.mem_map.mpr ⟨p, hp, rfl⟩)
      have hb : (q.1 == p.1) = false := by simpa using hne
      have := odGet_of_mem r hnd.2 p hp
      simpa [odGet, List.find?, hb] using this

theorem hasKey_odPop (a : Inputs) (v : String) : hasKey (odPop a v) v = false := by
  simp [hasKey, odPop, List.any_eq_false]

theorem odPop_of_not_hasKey (a : Inputs) (v : String) (h : hasKey a v = false) : odPop a v = a := by
  unfold odPop
  apply List.filter_eq_self.mpr
  intro p hp
  simp only [hasKey, List.any_eq_false] at h
  simpa using h p hp

theorem odSet_fresh (a : Inputs) (k : String) (d : Dom) (h : hasKey a k = false) : odSet a k d = a ++ [(k, d)] := by
  unfold odSet
  unfold hasKey at h
  simp [h]

theorem odPop_append_self (a : Inputs) (v : String) (d : Dom) (h : hasKey a v = false) :
    odPop (a ++ [(v, d)]) v = a := by
  have := odPop_of_not_hasKey a v h
  unfold odPop at this ⊢
  simp [List.filter_append, this]

/-- aligning to a sub-dictionary of the tensor's own inputs reads back exactly the declared sizes -/
theorem alignSizes_sub (old new : Inputs) (hnd : (old.map (·.1)).Nodup) (hsub : ∀ p ∈ new, p ∈ old) :
    alignSizes old new = sizes? new := by
  unfold alignSizes sizes?
  congr 1
  apply List.map_congr_left
  intro p hp
  simp [odGet_of_mem old hnd p (hsub p hp)]

/-! ### Lambda -/

/-- **Lambda, eager = lazy, data honours the declaration.**  For a well-formed Tensor body `t`
    (unique input names; if the bound variable occurs in the body it has the variable's domain
    `Bint[n]`), `eager_lambda` succeeds and returns a Tensor declaring exactly
    `Lambda.__init__`'s inputs and output, with data of shape batch sizes ++ `(n,) + expr.output.shape`. -/
theorem eagerLambda_sound (v : String) (n : Nat) (t : TDecl) (hwf : TDecl.WF t)
    (hnd : (t.inputs.map (·.1)).Nodup)
    (hv : hasKey t.inputs v = true → odGet t.inputs v = some ⟨.bint n, []⟩) :
    ∃ r, eagerLambda v n t = some r ∧ (r.inputs, r.output) = lambdaTy v n t.inputs t.output ∧ TDecl.WF r := by
  obtain ⟨bs, hbs, hdata⟩ := hwf
  have hlen : bs.length = t.inputs.length := by
    have := allSome_length _ _ hbs; simpa using this
  unfold eagerLambda
  by_cases hk : hasKey t.inputs v = true
  · -- the bound variable is an input of the body
    simp only [hk, if_true]
    have hpk := hasKey_odPop t.inputs v
    rw [odSet_fresh _ _ _ hpk, odPop_append_self _ _ _ hpk]
    obtain ⟨bs1, hbs1⟩ := sizes?_filter t.inputs (fun p => !(p.1 == v)) bs hbs
    have hbs1' : sizes? (odPop t.inputs v) = some bs1 := hbs1
    have hlen1 : bs1.length = (odPop t.inputs v).length := by
      have := allSome_length _ _ hbs1'; simpa using this
    have halign : alignSizes t.inputs (odPop t.inputs v ++ [(v, ⟨.bint n, []⟩)]) = some (bs1 ++ [n]) := by
      have h1 : alignSizes t.inputs (odPop t.inputs v) = some bs1 := by
        have hsub : ∀ p ∈ odPop t.inputs v, p ∈ t.inputs := fun p hp => (List.mem_filter.mp hp).1
        rw [alignSizes_sub t.inputs _ hnd hsub]; exact hbs1'
      unfold alignSizes at h1 ⊢
      rw [List.map_append]
      apply allSome_append _ _ _ _ h1
      simp [hv hk, dsize?, allSome]
    simp only [halign]
    unfold mkTensor
    simp only [hbs1']
    have hcond : (odPop t.inputs v).length ≤ (bs1 ++ [n] ++ t.output.shape).length ∧
        (bs1 ++ [n] ++ t.output.shape).take (odPop t.inputs v).length = bs1 := by
      constructor
      · simp; omega
      · rw [← hlen1]; simp [List.append_assoc]
    simp only [hcond, and_self, if_true]
    refine ⟨_, rfl, ?_, ?_⟩
    · simp only [lambdaTy, Prod.mk.injEq, true_and]
      rw [← hlen1]; simp [List.append_assoc]
    · refine ⟨bs1, hbs1', ?_⟩
      show bs1 ++ [n] ++ t.output.shape = bs1 ++ List.drop _ (bs1 ++ [n] ++ t.output.shape)
      rw [← hlen1]; simp [List.append_assoc]
  · -- the body does not depend on the bound variable: a new axis of size n is inserted and expanded
    have hk' : hasKey t.inputs v = false := by simpa using hk
    simp only [hk', Bool.false_eq_true, if_false]
    have hdim : t.data.length - t.output.shape.length = t.inputs.length := by
      rw [hdata]; simp; omega
    rw [hdim]
    have htake : t.data.take t.inputs.length = bs := by rw [hdata, ← hlen]; simp
    have hdrop : t.data.drop t.inputs.length = t.output.shape := by rw [hdata, ← hlen]; simp
    rw [htake, hdrop]
    unfold mkTensor
    simp only [hbs]
    have hcond : t.inputs.length ≤ (bs ++ n :: t.output.shape).length ∧
        (bs ++ n :: t.output.shape).take t.inputs.length = bs := by
      constructor
      · simp; omega
      · rw [← hlen]; simp
    simp only [hcond, and_self, if_true]
    refine ⟨_, rfl, ?_, ?_⟩
    · simp only [lambdaTy, odPop_of_not_hasKey _ _ hk', Prod.mk.injEq, true_and]
      rw [← hlen]; simp
    · refine ⟨bs, hbs, ?_⟩
      show bs ++ n :: t.output.shape = bs ++ List.drop _ (bs ++ n :: t.output.shape)
      rw [← hlen]; simp

-- hypotheses are satisfiable, both branches
example : eagerLambda "i" 3 ⟨[("j", ⟨.bint 2, []⟩), ("i", ⟨.bint 3, []⟩)], ⟨.real, [5]⟩, [2, 3, 5]⟩
    = some ⟨[("j", ⟨.bint 2, []⟩)], ⟨.real, [3, 5]⟩, [2, 3, 5]⟩ := by decide
example : eagerLambda "k" 4 ⟨[("j", ⟨.bint 2, []⟩)], ⟨.real, [5]⟩, [2, 5]⟩
    = some ⟨[("j", ⟨.bint 2, []⟩)], ⟨.real, [4, 5]⟩, [2, 4, 5]⟩ := by decide

/-- the hypothesis on the bound variable's domain is needed: with a body declaring `i : Bint[2]`,
    `Lambda(Variable("i", Bint[3]), body)` declares output shape (3, …) while the eager rule returns (2, …). -/
theorem eagerLambda_mismatch_witness :
    ∃ t r, eagerLambda "i" 3 t = some r ∧ r.output ≠ (lambdaTy "i" 3 t.inputs t.output).2 :=
  ⟨⟨[("i", ⟨.bint 2, []⟩)], ⟨.real, []⟩, [2]⟩, ⟨[], ⟨.real, [2]⟩, [2]⟩, by decide, by decide⟩

/-! ### Stack -/

theorem hasKey_false_iff (a : Inputs) (k : String) : hasKey a k = false ↔ k ∉ a.map (·.1) := by
  simp only [hasKey, List.any_eq_false, List.mem_map, not_exists, not_and]
  constructor
  · intro h q hq e; exact h q hq (by simp [e])
  · intro h q hq e; exact h q hq (by simpa using e)

theorem odSet_append_left (a acc : Inputs) (k : String) (v : Dom) (h : hasKey a k = false) :
    odSet (a ++ acc) k v = a ++ odSet acc k v := by
  have hmap : a.map (fun p => if p.1 == k then (k, v) else p) = a := by
    conv => rhs; rw [← List.map_id a]
    apply List.map_congr_left
    intro p hp
    simp only [hasKey, List.any_eq_false] at h
    have := h p hp
    simp [this]
  unfold odSet
  unfold hasKey at h
  simp only [List.any_append, h, Bool.false_or]
  split
  · simp only [List.map_append, hmap]
  · simp only [List.append_assoc]

theorem odUpdate_append_left : ∀ (t a acc : Inputs), (∀ p ∈ t, hasKey a p.1 = false) →
    odUpdate (a ++ acc) t = a ++ odUpdate acc t
  | [], a, acc, _ => by simp [odUpdate]
  | q :: r, a, acc, h => by
    have ih := odUpdate_append_left r a (odSet acc q.1 q.2) (fun p hp => h p (List.mem_cons_of_mem _ hp))
    simp only [odUpdate, List.foldl_cons] at ih ⊢
    rw [odSet_append_left a acc q.1 q.2 (h q List.mem_cons_self)]
    exact ih

theorem foldl_odUpdate_append_left {β : Type} (f : β → Inputs) : ∀ (parts : List β) (a acc : Inputs),
    (∀ x ∈ parts, ∀ p ∈ f x, hasKey a p.1 = false) →
    parts.foldl (fun acc x => odUpdate acc (f x)) (a ++ acc) = a ++ parts.foldl (fun acc x => odUpdate acc (f x)) acc
  | [], a, acc, _ => by simp
  | x :: r, a, acc, h => by
    simp only [List.foldl_cons]
    rw [odUpdate_append_left (f x) a acc (h x List.mem_cons_self)]
    exact foldl_odUpdate_append_left f r a _ (fun y hy => h y (List.mem_cons_of_mem _ hy))

/-- updating with a dictionary of fresh, distinct names appends it -/
theorem odUpdate_fresh : ∀ (b acc : Inputs), (∀ p ∈ b, hasKey acc p.1 = false) → (b.map (·.1)).Nodup →
    odUpdate acc b = acc ++ b
  | [], acc, _, _ => by simp [odUpdate]
  | q :: r, acc, h, hnd => by
    simp only [List.map_cons, List.nodup_cons] at hnd
    have hq := odSet_fresh acc q.1 q.2 (h q List.mem_cons_self)
    have ih := odUpdate_fresh r (acc ++ [q]) (by
      intro p hp
      have h1 := (hasKey_false_iff acc p.1).mp (h p (List.mem_cons_of_mem _ hp))
      apply (hasKey_false_iff _ _).mpr
      simp only [List.map_append, List.map_cons, List.map_nil, List.mem_append, List.mem_singleton, not_or]
      refine ⟨h1, fun e => hnd.1 (e ▸ List.mem_map.mpr ⟨p, hp, rfl⟩)⟩) hnd.2
    simp only [odUpdate, List.foldl_cons] at ih ⊢
    rw [hq, ih]; simp

theorem nodup_odSet (a : Inputs) (k : String) (v : Dom) (h : (a.map (·.1)).Nodup) :
    ((odSet a k v).map (·.1)).Nodup := by
  rw [odSet_keys]
  by_cases hk : k ∈ a.map (·.1)
  · simpa [hk] using h
  · simp only [hk, if_false]
    exact List.nodup_append.mpr ⟨h, by simp, by
      intro x hx y hy
      simp only [List.mem_singleton] at hy
      subst hy
      exact fun e => hk (e ▸ hx)⟩

theorem nodup_odUpdate : ∀ (b a : Inputs), (a.map (·.1)).Nodup → ((odUpdate a b).map (·.1)).Nodup
  | [], a, h => by simpa [odUpdate] using h
  | q :: r, a, h => by
    have := nodup_odUpdate r (odSet a q.1 q.2) (nodup_odSet a q.1 q.2 h)
    simpa [odUpdate] using this

theorem nodup_foldl_odUpdate {β : Type} (f : β → Inputs) : ∀ (parts : List β) (acc : Inputs),
    (acc.map (·.1)).Nodup → ((parts.foldl (fun acc x => odUpdate acc (f x)) acc).map (·.1)).Nodup
  | [], acc, h => by simpa using h
  | x :: r, acc, h => by
    simp only [List.foldl_cons]
    exact nodup_foldl_odUpdate f r _ (nodup_odUpdate (f x) acc h)

theorem mem_foldl_odUpdate {β : Type} (f : β → Inputs) : ∀ (parts : List β) (acc : Inputs) (p : String × Dom),
    p ∈ parts.foldl (fun acc x => odUpdate acc (f x)) acc → p ∈ acc ∨ ∃ x ∈ parts, p ∈ f x
  | [], acc, p, h => by simpa using h
  | x :: r, acc, p, h => by
    simp only [List.foldl_cons] at h
    rcases mem_foldl_odUpdate f r _ p h with h1 | ⟨y, hy, hp⟩
    · rcases mem_odUpdate (f x) acc p h1 with h2 | h2
      · exact Or.inl h2
      · exact Or.inr ⟨x, List.mem_cons_self, h2⟩
    · exact Or.inr ⟨y, List.mem_cons_of_mem _ hy, hp⟩

/-- **Stack, eager = lazy, data honours the declaration.**  For well-formed Tensor parts with equal
    output domains, none of which has the stacking name as an input (the asserts of `Stack.__init__`),
    `eager_stack_homogeneous` succeeds and returns a Tensor declaring exactly `Stack.__init__`'s
    inputs (same names, same order, same domains) and output, whose data has shape
    `(len(parts),) + sizes(part inputs) + output.shape`. -/
theorem eagerStack_sound (name : String) (p : TDecl) (rest : List TDecl)
    (hwf : ∀ x ∈ p :: rest, TDecl.WF x)
    (hname : ∀ x ∈ p :: rest, hasKey x.inputs name = false)
    (hout : ∀ x ∈ rest, x.output = p.output) :
    ∃ r, eagerStack name (p :: rest) = some r ∧
      some (r.inputs, r.output) = stackTy name ((p :: rest).map fun x => (x.inputs, x.output)) ∧
      TDecl.WF r := by
  obtain ⟨d, hd⟩ : ∃ d : Dom, d = ⟨.bint (p :: rest).length, []⟩ := ⟨_, rfl⟩
  let P := (p :: rest).foldl (fun acc x => odUpdate acc x.inputs) []
  have hPmem : ∀ q ∈ P, ∃ x ∈ p :: rest, q ∈ x.inputs := by
    intro q hq
    rcases mem_foldl_odUpdate (fun x : TDecl => x.inputs) (p :: rest) [] q hq with h | h
    · simp at h
    · exact h
  have hPnd : (P.map (·.1)).Nodup := nodup_foldl_odUpdate (fun x : TDecl => x.inputs) (p :: rest) [] (by simp)
  have hPname : ∀ q ∈ P, hasKey [(name, d)] q.1 = false := by
    intro q hq
    obtain ⟨x, hx, hqx⟩ := hPmem q hq
    have := (hasKey_false_iff x.inputs name).mp (hname x hx)
    apply (hasKey_false_iff _ _).mpr
    simp only [List.map_cons, List.map_nil, List.mem_singleton]
    exact fun e => this (e ▸ List.mem_map.mpr ⟨q, hqx, rfl⟩)
  obtain ⟨bs, hbs⟩ : ∃ bs, sizes? P = some bs := by
    apply allSome_of_forall
    intro o ho
    obtain ⟨q, hq, rfl⟩ := List.mem_map.mp ho
    obtain ⟨x, hx, hqx⟩ := hPmem q hq
    obtain ⟨bx, hbx, _⟩ := hwf x hx
    exact forall_of_allSome _ _ hbx _ (List.mem_map.mpr ⟨q, hqx, rfl⟩)
  have hlen : bs.length = P.length := by have := allSome_length _ _ hbs; simpa using this
  have hany : (p :: rest).any (fun x => hasKey x.inputs name) = false := by
    simp only [List.any_eq_false]; intro x hx; simp [hname x hx]
  have hall : rest.all (fun x => x.output == p.output) = true := by
    simp only [List.all_eq_true]; intro x hx; simp [hout x hx]
  have hupd : odUpdate [(name, d)] P = (name, d) :: P := by
    rw [odUpdate_fresh P [(name, d)] hPname hPnd]; rfl
  have hsz : sizes? ((name, d) :: P) = some ((p :: rest).length :: bs) := by
    have : sizes? P = some bs := hbs
    have hds : dsize? d = some (p :: rest).length := by rw [hd]; rfl
    unfold sizes? at this ⊢
    simp only [List.map_cons, allSome, hds, this]
  refine ⟨⟨(name, d) :: P, ⟨p.output.dtype, p.output.shape⟩, (p :: rest).length :: (bs ++ p.output.shape)⟩, ?_, ?_, ?_⟩
  · unfold eagerStack
    simp only [hany, hall, Bool.false_eq_true, if_false, if_true]
    rw [← hd]
    show (match sizes? P with
      | none => none
      | some bs => mkTensor ((p :: rest).length :: (bs ++ p.output.shape)) (odUpdate [(name, d)] P) p.output.dtype) = _
    rw [hbs, hupd]
    unfold mkTensor
    simp only [hsz]
    have hcond : ((name, d) :: P).length ≤ ((p :: rest).length :: (bs ++ p.output.shape)).length ∧
        ((p :: rest).length :: (bs ++ p.output.shape)).take ((name, d) :: P).length = (p :: rest).length :: bs := by
      constructor
      · simp; omega
      · simp only [List.length_cons, List.take_succ_cons]; rw [← hlen]; simp
    simp only [hcond, and_self, if_true]
    simp only [List.length_cons, List.drop_succ_cons]
    rw [← hlen]; simp
  · unfold stackTy
    have hany' : ((p :: rest).map fun x => (x.inputs, x.output)).any (fun x => hasKey x.1 name) = false := by
      simpa [List.any_map, Function.comp_def] using hany
    have hall' : (rest.map fun x => (x.inputs, x.output)).all (fun x => x.2 == (p.inputs, p.output).2) = true := by
      simpa [List.all_map, Function.comp_def] using hall
    simp only [List.map_cons] at hany' ⊢
    simp only [hany', hall', Bool.false_eq_true, if_false, if_true]
    have hfold := foldl_odUpdate_append_left (fun x : TDecl => x.inputs) (p :: rest) [(name, d)] [] (by
      intro x hx q hq
      have := (hasKey_false_iff x.inputs name).mp (hname x hx)
      apply (hasKey_false_iff _ _).mpr
      simp only [List.map_cons, List.map_nil, List.mem_singleton]
      exact fun e => this (e ▸ List.mem_map.mpr ⟨q, hq, rfl⟩))
    have hfold' : List.foldl (fun acc (x : Inputs × Dom) => odUpdate acc x.1) [(name, d)]
        ((p.inputs, p.output) :: rest.map fun x => (x.inputs, x.output)) = (name, d) :: P := by
      have e : ((p.inputs, p.output) :: rest.map fun x => (x.inputs, x.output))
          = (p :: rest).map fun x => (x.inputs, x.output) := rfl
      rw [e, List.foldl_map]
      exact hfold
    simp only [List.length_cons, List.length_map]
    simp only [List.length_cons] at hd
    rw [← hd, hfold']
  · exact ⟨(p :: rest).length :: bs, hsz, by simp⟩

example : eagerStack "s" [⟨[("i", ⟨.bint 2, []⟩)], ⟨.real, [5]⟩, [2, 5]⟩,
                          ⟨[("j", ⟨.bint 3, []⟩), ("i", ⟨.bint 2, []⟩)], ⟨.real, [5]⟩, [3, 2, 5]⟩]
    = some ⟨[("s", ⟨.bint 2, []⟩), ("i", ⟨.bint 2, []⟩), ("j", ⟨.bint 3, []⟩)], ⟨.real, [5]⟩, [2, 2, 3, 5]⟩ := by decide

end FV.Props.C06
