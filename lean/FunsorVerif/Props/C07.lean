/-
  Props/C07.lean — hash-consing: structural equality is object identity, held weakly.

  The invariant `Inv` of the state machine `FV.C07` is preserved by every step (any address
  recycling, any reclamation order, any interleaving of construct / drop / reclaim / sweep / gc /
  pickle- or reinterpret-style rebuilds): `inv_run`.  Under `Inv`:
    * two live interned objects are the same object iff they have the same class and equal cons
      keys (`identity_iff_structural`), and two successive constructor calls return the same
      object iff class and `make_hash_key` agree (`construct_same_iff`);
    * a table lookup never returns a dead object or one keyed differently (`lookup_sound`), and
      the object it returns holds the arrays that are *now* at the requested addresses, not an
      earlier allocation that once lived there (`no_stale_arrays`);
    * tables never outgrow the heap (`cache_len_eq_live`), freeing an object removes its entry
      (`free_purges`), after `gc` nothing unreferenced is left (`gc_complete`), and with no
      handle held everything is reclaimed (`weak_reclaim`);
    * rebuilding a live object from its own arguments (reinterpret under reflect) returns the
      object itself and changes nothing (`rebuild_self`).
-/
import FunsorVerif.Model.C07
import FunsorVerif.Gen.C07Table
namespace FV.Props.C07
open FV.C07

/-! ## Obligations over the table generated from /repo -/

/-- Every interned class owns its table (no inherited/shared dict) and holds its values weakly. -/
theorem table_own_weak : ∀ e ∈ FV.Gen.C07.classes, e.ownCache = true ∧ e.weak = true := by
  decide +kernel

/-- No two classes share one table object: the per-class key `(cls, key)` of the model. -/
theorem table_caches_distinct : (FV.Gen.C07.classes.map (·.cacheId)).Nodup := by
  decide +kernel

/-- `_ast_fields` (what `reflect` zips the args with) are the `__init__` parameters in the source. -/
theorem table_fields_agree :
    ∀ e ∈ FV.Gen.C07.classes, e.astFound = true → e.fields = e.astFields := by
  decide +kernel

/-- The code the model transcribes still reads as transcribed. -/
theorem source_forms_modelled :
    FV.Gen.C07.hashKeyForm =
      "return tuple((id(arg) if not isinstance(arg, Hashable) else arg for arg in args))" ∧
    FV.Gen.C07.reflectCacheForm =
      "cache_key = reflect.make_hash_key(cls, *args) ;; if cache_key in cls._cons_cache: return cls._cons_cache[cache_key] ;; cls._cons_cache[cache_key] = result" ∧
    FV.Gen.C07.funsorHashForm = "return id(self)" ∧
    FV.Gen.C07.funsorReduceForm = "return (type(self).__origin__, self._ast_values)" ∧
    FV.Gen.C07.funsorCopyForm = "return self" := by
  refine ⟨?_, ?_, ?_, ?_, ?_⟩ <;> rfl

/-- The op instance cache is keyed by the tuple `(args, kwargs items)` itself (compared with `==`
    by the dict), looked up and inserted as the model's `construct` does; `ReshapeMeta` only
    turns the shape into a tuple first. -/
theorem op_source_forms_modelled :
    FV.Gen.C07.opHashForm = "return (args, tuple(kwargs.items()))" ∧
    FV.Gen.C07.opCallForm =
      "args = (None,) * cls.arity + args ;; bound = cls.signature.bind_partial(*args, **kwargs) ;; bound.apply_defaults() ;; args = bound.args[cls.arity:] ;; kwargs = bound.kwargs ;; key = cls.hash_args_kwargs(args, kwargs) ;; op = cls._instance_cache.get(key, None) ;; if op is None: op = cls._instance_cache[key] = super().__call__(*args, **kwargs) ;; return op" ∧
    FV.Gen.C07.reshapeHashForm =
      "assert not kwargs ;; if args: shape, = args shape = tuple(shape) args = (shape,) ;; return super().hash_args_kwargs(args, kwargs)" := by
  refine ⟨?_, ?_, ?_⟩ <;> rfl

/-- Unpickling rebuilds an interned domain through `Array[(dtype, shape)]` — exactly the key it was
    interned under, which is what the model's `rebuild` re-constructs from (`o.args`) — for all three
    metaclasses; an op through its class with its bound parameters; deep copies of ops are the op. -/
theorem reduce_source_forms_modelled :
    FV.Gen.C07.domainReduceForm =
      "if cls in (Array, Bint, Real, Reals): return cls.__name__ ;; return (operator.getitem, (Array, (cls.dtype, cls.shape)))" ∧
    FV.Gen.C07.domainCopyregForm =
      "copyreg.pickle(ArrayType, _pickle_array) ;; copyreg.pickle(BintType, _pickle_array) ;; copyreg.pickle(RealsType, _pickle_array)" ∧
    FV.Gen.C07.opReduceForm = "return (apply, (type(self), (), self.defaults))" ∧
    FV.Gen.C07.opDeepcopyForm = "return self" := by
  refine ⟨?_, ?_, ?_, ?_⟩ <;> rfl

/-- `Bint[2,3]` and `Array[2,(3,)]` are one key, different from the scalar `Bint[2]`'s: a reducer
    that dropped the shape would rebuild a different object. -/
theorem shaped_bint_key :
    ((splitTop [.lp, .int 2, .int 3, .rp] >>= normArgs "Bint").map List.flatten >>= mkKey) =
    ((splitTop [.int 2, .lp, .int 3, .rp] >>= normArgs "Array").map List.flatten >>= mkKey) ∧
    ((splitTop [.lp, .int 2, .int 3, .rp] >>= normArgs "Bint").map List.flatten >>= mkKey) ≠
    ((splitTop [.int 2] >>= normArgs "Bint").map List.flatten >>= mkKey) := by
  decide

/-- `GetsliceMeta` keys a parametrised getslice op by its index made a tuple, each slice unpacked to
    `(start, stop, step)` exactly as given — `None` is not `0`, `None` is not `1`. -/
theorem getslice_source_form_modelled :
    FV.Gen.C07.getsliceHashForm =
      "index = args[0] if args else kwargs['index'] ;; if not isinstance(index, tuple): index = (index,) ;; key = tuple(((x.start, x.stop, x.step) if isinstance(x, slice) else x for x in index)) ;; return key" := by
  rfl

/-- `x[::-1]` and `x[0::-1]`, `x[:3]` and `x[0:3]` and `x[0:3:1]` have different keys; `x[2]` and
    `x[(2,)]`, `x[:3]` and `x[:3:None]` have the same. -/
theorem getslice_key_as_given :
    let k := fun (a : List ArgTok) =>
      ((splitTop a >>= normArgs "GetsliceMeta").map List.flatten >>= mkKey)
    k [.sl, .lp, .none, .none, .int (-1), .rp] ≠ k [.sl, .lp, .int 0, .none, .int (-1), .rp] ∧
    k [.sl, .lp, .none, .int 3, .none, .rp] ≠ k [.sl, .lp, .int 0, .int 3, .none, .rp] ∧
    k [.sl, .lp, .int 0, .int 3, .none, .rp] ≠ k [.sl, .lp, .int 0, .int 3, .int 1, .rp] ∧
    k [.int 2] = k [.lp, .int 2, .rp] ∧
    k [.lp, .ellipsis, .sl, .lp, .int 0, .none, .int (-1), .rp, .rp] ≠
      k [.lp, .ellipsis, .sl, .lp, .none, .none, .int (-1), .rp, .rp] ∧
    k [.int 2] ≠ k [.sl, .lp, .int 2, .int 3, .none, .rp] := by
  decide

/-- Hash-equal is not key-equal: `SumOp(axis=-1)` and `SumOp(axis=-2)` have different keys,
    `SumOp(1)`, `SumOp(1.0)`, `SumOp(True)` have the same. -/
theorem op_key_eq_not_hash :
    ((splitTop [.int (-1), .bool false] >>= normArgs "OpMeta").map List.flatten >>= mkKey) ≠
    ((splitTop [.int (-2), .bool false] >>= normArgs "OpMeta").map List.flatten >>= mkKey) ∧
    ((splitTop [.int 1, .bool false] >>= normArgs "OpMeta").map List.flatten >>= mkKey) =
    ((splitTop [.flt 1 1, .int 0] >>= normArgs "OpMeta").map List.flatten >>= mkKey) ∧
    ((splitTop [.lp, .int (-1), .rp] >>= normArgs "ReshapeMeta").map List.flatten >>= mkKey) ≠
    ((splitTop [.lp, .int (-2), .rp] >>= normArgs "ReshapeMeta").map List.flatten >>= mkKey) := by
  decide

/-- The metaclasses whose `__call__` the model normalises are the ones the table reports. -/
theorem table_metaclasses_modelled :
    ∀ e ∈ FV.Gen.C07.classes,
      (e.name = "funsor.tensor.Tensor" → e.mcls = "TensorMeta") ∧
      (e.name = "funsor.terms.Number" → e.mcls = "NumberMeta") ∧
      (e.name = "funsor.terms.Slice" → e.mcls = "SliceMeta") ∧
      (e.name = "funsor.terms.Cat" → e.mcls = "CatMeta") ∧
      (e.name = "funsor.terms.Subs" → e.mcls = "SubsMeta") ∧
      (e.name = "funsor.ops.ReshapeOp" → e.mcls = "ReshapeMeta") ∧
      (e.name = "funsor.ops.GetsliceOp" → e.mcls = "GetsliceMeta") ∧
      (e.name ∈ ["funsor.ops.SumOp", "funsor.ops.AmaxOp", "funsor.ops.ProdOp", "funsor.ops.ArgmaxOp",
                 "funsor.ops.UnsqueezeOp", "funsor.ops.StackOp", "funsor.ops.GetitemOp"] →
        e.mcls = "OpMeta") ∧
      (e.name ∈ ["funsor.terms.Variable", "funsor.terms.Unary", "funsor.terms.Binary",
                 "funsor.terms.Reduce", "funsor.terms.Lambda", "funsor.terms.Align",
                 "funsor.terms.Stack", "funsor.terms.Tuple"] → e.mcls = "FunsorMeta") := by
  decide +kernel

/-! ## Python's key equality, as `make_hash_key` + dict lookup see it -/

theorem key_int_float_bool :
    normTok (.int 1) = normTok (.flt 1 1) ∧ normTok (.int 1) = normTok (.bool true) ∧
    normTok (.int 0) = normTok (.bool false) ∧ normTok (.flt 4 2) = normTok (.int 2) := by decide

theorem key_negzero : normTok .negz = normTok (.flt 0 1) ∧ normTok .negz = normTok (.int 0) := by
  decide

/-- A NaN key component equals only the very same NaN object. -/
theorem key_nan_identity (a b : Id) : normTok (.nan a) = normTok (.nan b) ↔ a = b := by
  simp [normTok]

/-- `id(arr)` is an `int`: an unhashable argument and the integer equal to its address give the
    same key component (see `id_collision_witness`). -/
theorem key_array_is_int (a : Id) : mkKey [.arr a] = mkKey [.int (Int.ofNat a)] := by
  simp [mkKey, mkKeyAux, normTok]

/-! ## The invariant -/

def keyOf (p : Id × Obj) : CKey := (p.2.cls, p.2.key)

structure Inv (s : St) : Prop where
  cacheEq : s.cache = s.objs.map entryOf
  idsNodup : (s.objs.map (·.1)).Nodup
  keysNodup : (s.objs.map keyOf).Nodup
  keyOfArgs : ∀ p ∈ s.objs, mkKey p.2.args = some p.2.key
  refsLive : ∀ p ∈ s.objs, ∀ j ∈ refsOf p.2.key, j ∈ objIds s
  refsOlder : ∀ p ∈ s.objs, ∀ q ∈ s.objs, q.1 ∈ refsOf p.2.key → q.2.stamp < p.2.stamp
  arrsHeld : ∀ p ∈ s.objs, ∀ a ∈ p.2.arrs, a ∈ s.arrs
  arrsOfArgs : ∀ p ∈ s.objs, p.2.arrs.map (·.1) = arrIds p.2.args
  arrNodup : (s.arrs.map (·.1)).Nodup
  rootsLive : ∀ r ∈ s.roots, r.2 ∈ objIds s ∨ r.2 ∈ arrIdsLive s
  stampsLt : ∀ p ∈ s.objs, p.2.stamp < s.clock
  disjoint : ∀ i ∈ objIds s, i ∉ arrIdsLive s

theorem inv_init : Inv St.init := by
  constructor <;> simp [St.init, objIds, arrIdsLive]

/-! ### list lemmas -/

theorem nodup_map_inj {α β : Type} (f : α → β) :
    ∀ (l : List α), (l.map f).Nodup → ∀ a ∈ l, ∀ b ∈ l, f a = f b → a = b
  | [], _, a, ha, _, _, _ => by cases ha
  | x :: xs, h, a, ha, b, hb, hab => by
    simp only [List.map_cons, List.nodup_cons, List.mem_map, not_exists, not_and] at h
    rcases List.mem_cons.mp ha with rfl | ha'
    · rcases List.mem_cons.mp hb with rfl | hb'
      · rfl
      · exact absurd hab.symm (h.1 b hb')
    · rcases List.mem_cons.mp hb with rfl | hb'
      · exact absurd hab (h.1 a ha')
      · exact nodup_map_inj f xs h.2 a ha' b hb' hab

theorem mem_objIds {s : St} {i : Id} : i ∈ objIds s ↔ ∃ o, (i, o) ∈ s.objs := by
  simp [objIds]

theorem lookup_none_iff (objs : List (Id × Obj)) (k : CKey) :
    lookup (objs.map entryOf) k = Option.none ↔ k ∉ objs.map keyOf := by
  induction objs with
  | nil => simp [lookup]
  | cons p ps ih =>
    simp only [List.map_cons, lookup, List.mem_cons, not_or]
    by_cases h : (entryOf p).1 = k
    · simp only [h, if_true]
      constructor
      · intro hh; cases hh
      · intro hh; exact absurd (show k = keyOf p from h.symm) hh.1
    · simp only [h, if_false, ih]
      constructor
      · intro hh; exact ⟨fun e => h (show (entryOf p).1 = k from e.symm), hh⟩
      · intro hh; exact hh.2

theorem lookup_some (objs : List (Id × Obj)) (k : CKey) (i : Id) :
    lookup (objs.map entryOf) k = some i → ∃ p ∈ objs, p.1 = i ∧ keyOf p = k := by
  induction objs with
  | nil => simp [lookup]
  | cons p ps ih =>
    simp only [List.map_cons, lookup]
    by_cases h : (entryOf p).1 = k
    · simp only [h, if_true, Option.some.injEq]
      intro hi
      exact ⟨p, List.mem_cons_self, hi, h⟩
    · simp only [h, if_false]
      intro hh
      obtain ⟨q, hq, h1, h2⟩ := ih hh
      exact ⟨q, List.mem_cons_of_mem _ hq, h1, h2⟩

/-- Under distinct keys, looking an object's own key up finds that object. -/
theorem lookup_self_aux (objs : List (Id × Obj)) (hn : (objs.map keyOf).Nodup) :
    ∀ p ∈ objs, lookup (objs.map entryOf) (keyOf p) = some p.1 := by
  induction objs with
  | nil => intro p hp; cases hp
  | cons x xs ih =>
    intro p hp
    simp only [List.map_cons, List.nodup_cons, List.mem_map, not_exists, not_and] at hn
    simp only [List.map_cons, lookup]
    rcases List.mem_cons.mp hp with rfl | hp'
    · simp [entryOf, keyOf]
    · have hne : ¬ (entryOf x).1 = keyOf p := fun e => hn.1 p hp' (show keyOf p = keyOf x from e.symm)
      simp only [hne, if_false]
      exact ih hn.2 p hp'

theorem findArr_some {arrs : List (Id × Nat)} {i : Id} {p : Id × Nat} :
    findArr arrs i = some p → p ∈ arrs ∧ p.1 = i := by
  induction arrs with
  | nil => simp [findArr]
  | cons a as ih =>
    simp only [findArr]
    by_cases h : a.1 = i
    · simp only [h, if_true, Option.some.injEq]
      intro e; subst e; exact ⟨List.mem_cons_self, h⟩
    · simp only [h, if_false]
      intro hh
      exact ⟨List.mem_cons_of_mem _ (ih hh).1, (ih hh).2⟩

theorem resolveArrs_some {arrs : List (Id × Nat)} :
    ∀ {ids : List Id} {held : List (Id × Nat)}, resolveArrs arrs ids = some held →
      (∀ a ∈ held, a ∈ arrs) ∧ held.map (·.1) = ids
  | [], held, h => by
    simp only [resolveArrs, Option.some.injEq] at h; subst h; simp
  | i :: is, held, h => by
    simp only [resolveArrs] at h
    split at h
    · rename_i p ps hp hps
      simp only [Option.some.injEq] at h; subst h
      obtain ⟨h1, h2⟩ := resolveArrs_some hps
      obtain ⟨g1, g2⟩ := findArr_some hp
      constructor
      · intro a ha
        rcases List.mem_cons.mp ha with rfl | ha'
        · exact g1
        · exact h1 a ha'
      · simp [g2, h2]
    · cases h

theorem findObj_mem {objs : List (Id × Obj)} {i : Id} {o : Obj} :
    findObj objs i = some o → (i, o) ∈ objs := by
  induction objs with
  | nil => simp [findObj]
  | cons p ps ih =>
    simp only [findObj]
    by_cases h : p.1 = i
    · simp only [h, if_true, Option.some.injEq]
      intro e; subst e; subst h; exact List.mem_cons_self
    · simp only [h, if_false]
      intro hh; exact List.mem_cons_of_mem _ (ih hh)

/-! ### `construct` -/

/-- What a successful `construct` did: either a hit (state unchanged, live object with the
    requested class and key) or a fresh insertion at `nid`. -/
theorem construct_cases {s s' : St} {cls : Nat} {cyc : Bool} {args : List ArgTok} {nid r : Id}
    (hc : construct s cls cyc args nid = .ok (s', r)) :
    ∃ key held, mkKey args = some key ∧ (∀ j ∈ refsOf key, j ∈ objIds s) ∧
      resolveArrs s.arrs (arrIds args) = some held ∧
      ((lookup s.cache (cls, key) = some r ∧ s' = s) ∨
       (lookup s.cache (cls, key) = Option.none ∧ r = nid ∧ nid ∉ objIds s ∧ nid ∉ arrIdsLive s ∧
        s' = { s with objs := (nid, { cls := cls, key := key, args := args, arrs := held,
                                       cyc := cyc, stamp := s.clock }) :: s.objs,
                      cache := ((cls, key), nid) :: s.cache,
                      clock := s.clock + 1 })) := by
  unfold construct at hc
  split at hc
  · cases hc
  · rename_i key hk
    split at hc
    · cases hc
    · rename_i hrefs
      split at hc
      · cases hc
      · rename_i held hheld
        have hrefs' : ∀ j ∈ refsOf key, j ∈ objIds s := by
          have : (refsOf key).all (fun j => decide (j ∈ objIds s)) = true := by
            cases hh : (refsOf key).all (fun j => decide (j ∈ objIds s)) with
            | true => rfl
            | false => exact absurd hh hrefs
          intro j hj
          exact of_decide_eq_true (List.all_eq_true.mp this j hj)
        refine ⟨key, held, hk, hrefs', hheld, ?_⟩
        split at hc
        · rename_i i hi
          simp only [Except.ok.injEq, Prod.mk.injEq] at hc
          obtain ⟨h1, h2⟩ := hc
          subst h1; subst h2
          exact Or.inl ⟨hi, rfl⟩
        · rename_i hmiss
          split at hc
          · cases hc
          · rename_i hfresh
            simp only [Except.ok.injEq, Prod.mk.injEq] at hc
            obtain ⟨h1, h2⟩ := hc
            simp only [not_or] at hfresh
            exact Or.inr ⟨hmiss, h2.symm, hfresh.1, hfresh.2, h1.symm⟩

theorem construct_inv {s s' : St} {cls : Nat} {cyc : Bool} {args : List ArgTok} {nid r : Id}
    (h : Inv s) (hc : construct s cls cyc args nid = .ok (s', r)) : Inv s' := by
  obtain ⟨key, held, hk, hrefs, hheld, hcase⟩ := construct_cases hc
  rcases hcase with ⟨_, rfl⟩ | ⟨hmiss, _, hf1, hf2, rfl⟩
  · exact h
  · obtain ⟨hh1, hh2⟩ := resolveArrs_some hheld
    have hkey : (cls, key) ∉ s.objs.map keyOf := by
      rw [h.cacheEq] at hmiss
      exact (lookup_none_iff _ _).mp hmiss
    constructor
    · simp [h.cacheEq, entryOf]
    · simp only [List.map_cons, List.nodup_cons]
      exact ⟨hf1, h.idsNodup⟩
    · simp only [List.map_cons, List.nodup_cons]
      exact ⟨hkey, h.keysNodup⟩
    · intro p hp
      rcases List.mem_cons.mp hp with rfl | hp'
      · exact hk
      · exact h.keyOfArgs p hp'
    · intro p hp j hj
      have : j ∈ objIds s := by
        rcases List.mem_cons.mp hp with rfl | hp'
        · exact hrefs j hj
        · exact h.refsLive p hp' j hj
      simp only [objIds, List.map_cons, List.mem_cons]
      exact Or.inr this
    · intro p hp q hq hqp
      rcases List.mem_cons.mp hp with rfl | hp'
      · rcases List.mem_cons.mp hq with rfl | hq'
        · exact absurd (hrefs _ hqp) hf1
        · exact h.stampsLt q hq'
      · rcases List.mem_cons.mp hq with rfl | hq'
        · exact absurd (h.refsLive p hp' _ hqp) hf1
        · exact h.refsOlder p hp' q hq' hqp
    · intro p hp a ha
      rcases List.mem_cons.mp hp with rfl | hp'
      · exact hh1 a ha
      · exact h.arrsHeld p hp' a ha
    · intro p hp
      rcases List.mem_cons.mp hp with rfl | hp'
      · exact hh2
      · exact h.arrsOfArgs p hp'
    · exact h.arrNodup
    · intro r hr
      rcases h.rootsLive r hr with h1 | h1
      · left; simp only [objIds, List.map_cons, List.mem_cons]; exact Or.inr h1
      · right; exact h1
    · intro p hp
      rcases List.mem_cons.mp hp with rfl | hp'
      · exact Nat.lt_succ_self _
      · exact Nat.lt_succ_of_lt (h.stampsLt p hp')
    · intro i hi
      simp only [objIds, List.map_cons, List.mem_cons] at hi
      rcases hi with rfl | hi
      · exact hf2
      · exact h.disjoint i hi

/-! ### `free` (the primitive reclamation step) -/

theorem not_referenced {s : St} {i : Id} (h : referenced s i = false) :
    (∀ r ∈ s.roots, r.2 ≠ i) ∧ (∀ p ∈ s.objs, i ∉ refsOf p.2.key) ∧
    (∀ p ∈ s.objs, ∀ a ∈ p.2.arrs, a.1 ≠ i) := by
  unfold referenced at h
  rw [Bool.or_eq_false_iff] at h
  obtain ⟨h1, h2⟩ := h
  rw [List.any_eq_false] at h1 h2
  refine ⟨?_, ?_, ?_⟩
  · intro r hr e
    exact h1 r hr (by simp [e])
  · intro p hp hm
    exact h2 p hp (by simp [hm])
  · intro p hp a ha e
    apply h2 p hp
    simp only [Bool.or_eq_true, List.any_eq_true, decide_eq_true_eq]
    exact Or.inr ⟨a, ha, e⟩

theorem mem_free_objs {s : St} {i : Id} {p : Id × Obj} :
    p ∈ (free s i).objs ↔ p ∈ s.objs ∧ p.1 ≠ i := by
  simp [free, List.mem_filter]

theorem free_inv {s : St} {i : Id} (h : Inv s) (hr : referenced s i = false) : Inv (free s i) := by
  obtain ⟨r1, r2, r3⟩ := not_referenced hr
  have hobjs : (free s i).objs = s.objs.filter (fun p => decide (p.1 ≠ i)) := rfl
  have hsub : ((free s i).objs).Sublist s.objs := by rw [hobjs]; exact List.filter_sublist
  have idmem : ∀ j, j ∈ objIds s → j ≠ i → j ∈ objIds (free s i) := by
    intro j hj hne
    obtain ⟨o, ho⟩ := mem_objIds.mp hj
    exact mem_objIds.mpr ⟨o, mem_free_objs.mpr ⟨ho, hne⟩⟩
  constructor
  · show s.cache.filter (fun e => decide (e.2 ≠ i)) = (s.objs.filter (fun p => decide (p.1 ≠ i))).map entryOf
    rw [h.cacheEq, List.filter_map]
    rfl
  · exact List.Nodup.sublist (List.Sublist.map _ hsub) h.idsNodup
  · exact List.Nodup.sublist (List.Sublist.map _ hsub) h.keysNodup
  · intro p hp; exact h.keyOfArgs p (mem_free_objs.mp hp).1
  · intro p hp j hj
    have hp' := (mem_free_objs.mp hp).1
    refine idmem j (h.refsLive p hp' j hj) ?_
    intro e; subst e; exact r2 p hp' hj
  · intro p hp q hq hqp
    exact h.refsOlder p (mem_free_objs.mp hp).1 q (mem_free_objs.mp hq).1 hqp
  · intro p hp a ha
    have hp' := (mem_free_objs.mp hp).1
    show a ∈ s.arrs.filter (fun a => decide (a.1 ≠ i))
    rw [List.mem_filter]
    exact ⟨h.arrsHeld p hp' a ha, by simpa using r3 p hp' a ha⟩
  · intro p hp; exact h.arrsOfArgs p (mem_free_objs.mp hp).1
  · exact List.Nodup.sublist (List.Sublist.map _ List.filter_sublist) h.arrNodup
  · intro r hr'
    have hne : r.2 ≠ i := r1 r hr'
    rcases h.rootsLive r hr' with h1 | h1
    · exact Or.inl (idmem _ h1 hne)
    · right
      simp only [arrIdsLive, List.mem_map] at h1 ⊢
      obtain ⟨a, ha, e⟩ := h1
      refine ⟨a, ?_, e⟩
      show a ∈ s.arrs.filter (fun a => decide (a.1 ≠ i))
      rw [List.mem_filter]
      exact ⟨ha, by simpa [e] using hne⟩
  · intro p hp; exact h.stampsLt p (mem_free_objs.mp hp).1
  · intro j hj hja
    obtain ⟨o, ho⟩ := mem_objIds.mp hj
    refine h.disjoint j (mem_objIds.mpr ⟨o, (mem_free_objs.mp ho).1⟩) ?_
    simp only [arrIdsLive, List.mem_map] at hja ⊢
    obtain ⟨a, ha, e⟩ := hja
    exact ⟨a, (List.mem_filter.mp ha).1, e⟩

theorem reclaim_inv {s s' : St} {i : Id} (h : Inv s) (hr : reclaim s i = .ok s') : Inv s' := by
  unfold reclaim at hr
  split at hr
  · cases hr
  · rename_i hh
    simp only [Except.ok.injEq] at hr
    subst hr
    exact free_inv h (by simpa using hh)

theorem findUnref_unreferenced {s : St} {c : Bool} {i : Id} (h : findUnref s c = some i) :
    referenced s i = false := by
  unfold findUnref at h
  split at h
  · rename_i p hp
    simp only [Option.some.injEq] at h
    subst h
    have := List.find?_some hp
    simp only [Bool.and_eq_true, Bool.not_eq_true'] at this
    exact this.2
  · simp only [Option.map_eq_some_iff] at h
    obtain ⟨a, ha, e⟩ := h
    subst e
    have := List.find?_some ha
    simpa using this

theorem collect_inv (c : Bool) : ∀ (fuel : Nat) (s : St), Inv s → Inv (collect c fuel s)
  | 0, _, h => h
  | fuel + 1, s, h => by
    simp only [collect]
    split
    · rename_i i hi
      exact collect_inv c fuel _ (free_inv h (findUnref_unreferenced hi))
    · exact h

/-! ### roots -/

theorem setRoot_inv {s : St} {slot : Nat} {i : Id} (h : Inv s)
    (hi : i ∈ objIds s ∨ i ∈ arrIdsLive s) : Inv { s with roots := setRoot s.roots slot i } := by
  constructor
  · exact h.cacheEq
  · exact h.idsNodup
  · exact h.keysNodup
  · exact h.keyOfArgs
  · exact h.refsLive
  · exact h.refsOlder
  · exact h.arrsHeld
  · exact h.arrsOfArgs
  · exact h.arrNodup
  · intro r hr
    simp only [setRoot, List.mem_cons, List.mem_filter] at hr
    rcases hr with rfl | hr
    · exact hi
    · exact h.rootsLive r hr.1
  · exact h.stampsLt
  · exact h.disjoint

theorem dropRoot_inv {s : St} {slot : Nat} (h : Inv s) :
    Inv { s with roots := s.roots.filter (fun r => r.1 ≠ slot) } := by
  constructor
  · exact h.cacheEq
  · exact h.idsNodup
  · exact h.keysNodup
  · exact h.keyOfArgs
  · exact h.refsLive
  · exact h.refsOlder
  · exact h.arrsHeld
  · exact h.arrsOfArgs
  · exact h.arrNodup
  · intro r hr
    exact h.rootsLive r (List.mem_filter.mp hr).1
  · exact h.stampsLt
  · exact h.disjoint

/-- The object a successful `construct` returns is live afterwards. -/
theorem construct_live {s s' : St} {cls : Nat} {cyc : Bool} {args : List ArgTok} {nid r : Id}
    (h : Inv s) (hc : construct s cls cyc args nid = .ok (s', r)) : r ∈ objIds s' := by
  obtain ⟨key, held, _, _, _, hcase⟩ := construct_cases hc
  rcases hcase with ⟨hhit, rfl⟩ | ⟨_, rfl, _, _, rfl⟩
  · rw [h.cacheEq] at hhit
    obtain ⟨p, hp, e, _⟩ := lookup_some _ _ _ hhit
    exact mem_objIds.mpr ⟨p.2, by rw [← e]; exact hp⟩
  · simp [objIds]

/-! ### `rebuild` -/

theorem mapArgsM_inv (f : St → Id → Except Err (St × Id)) (remap : List (Id × Id))
    (hf : ∀ s j s' j', Inv s → f s j = .ok (s', j') → Inv s') :
    ∀ (ts : List ArgTok) (s s' : St) (ts' : List ArgTok),
      Inv s → mapArgsM f remap s ts = .ok (s', ts') → Inv s'
  | [], s, s', ts', h, hm => by
    simp only [mapArgsM, Except.ok.injEq, Prod.mk.injEq] at hm
    obtain ⟨rfl, _⟩ := hm; exact h
  | t :: ts, s, s', ts', h, hm => by
    cases t with
    | obj j =>
      simp only [mapArgsM] at hm
      split at hm
      · cases hm
      · rename_i s1 j' hfj
        split at hm
        · cases hm
        · rename_i s2 ts2 hrec
          simp only [Except.ok.injEq, Prod.mk.injEq] at hm
          obtain ⟨rfl, _⟩ := hm
          exact mapArgsM_inv f remap hf ts s1 _ _ (hf _ _ _ _ h hfj) hrec
    | arr a =>
      simp only [mapArgsM] at hm
      split at hm
      · cases hm
      · rename_i s2 ts2 hrec
        simp only [Except.ok.injEq, Prod.mk.injEq] at hm
        obtain ⟨rfl, _⟩ := hm
        exact mapArgsM_inv f remap hf ts s _ _ h hrec
    | _ =>
      simp only [mapArgsM] at hm
      split at hm
      · cases hm
      · rename_i s2 ts2 hrec
        simp only [Except.ok.injEq, Prod.mk.injEq] at hm
        obtain ⟨rfl, _⟩ := hm
        exact mapArgsM_inv f remap hf ts s _ _ h hrec

theorem rebuild_inv (remap : List (Id × Id)) :
    ∀ (fuel : Nat) (s : St) (i : Id) (s' : St) (j : Id),
      Inv s → rebuild fuel remap s i = .ok (s', j) → Inv s'
  | 0, _, _, _, _, _, hr => by simp [rebuild] at hr
  | fuel + 1, s, i, s', j, h, hr => by
    simp only [rebuild] at hr
    split at hr
    · cases hr
    · rename_i o ho
      split at hr
      · cases hr
      · rename_i s1 args' hm
        have h1 : Inv s1 :=
          mapArgsM_inv (rebuild fuel remap) remap (fun s j s' j' hs hh => rebuild_inv remap fuel s j s' j' hs hh)
            o.args s s1 args' h hm
        exact construct_inv h1 hr

/-! ### every step, every history -/

theorem step_inv {s s' : St} (op : Step) (h : Inv s) (hs : step s op = .ok s') : Inv s' := by
  cases op with
  | alloc slot id =>
    simp only [step] at hs
    split at hs
    · cases hs
    · rename_i hfresh
      simp only [not_or] at hfresh
      simp only [Except.ok.injEq] at hs
      subst hs
      constructor
      · exact h.cacheEq
      · exact h.idsNodup
      · exact h.keysNodup
      · exact h.keyOfArgs
      · exact h.refsLive
      · exact h.refsOlder
      · intro p hp a ha; exact List.mem_cons_of_mem _ (h.arrsHeld p hp a ha)
      · exact h.arrsOfArgs
      · simp only [List.map_cons, List.nodup_cons]
        exact ⟨hfresh.2, h.arrNodup⟩
      · intro r hr
        simp only [setRoot, List.mem_cons, List.mem_filter] at hr
        rcases hr with rfl | hr
        · right; simp [arrIdsLive]
        · rcases h.rootsLive r hr.1 with h1 | h1
          · exact Or.inl h1
          · right; simp only [arrIdsLive, List.map_cons, List.mem_cons]; exact Or.inr h1
      · intro p hp; exact Nat.lt_succ_of_lt (h.stampsLt p hp)
      · intro i hi hia
        simp only [arrIdsLive, List.map_cons, List.mem_cons] at hia
        rcases hia with rfl | hia
        · exact hfresh.1 hi
        · exact h.disjoint i hi hia
  | mk slot cls cyc args nid =>
    simp only [step] at hs
    split at hs
    · cases hs
    · rename_i s1 i hc
      simp only [Except.ok.injEq] at hs
      subst hs
      exact setRoot_inv (construct_inv h hc) (Or.inl (construct_live h hc))
  | drop slot =>
    simp only [step, Except.ok.injEq] at hs
    subst hs
    exact dropRoot_inv h
  | reclaim id => exact reclaim_inv h hs
  | sweep =>
    simp only [step, Except.ok.injEq] at hs
    subst hs
    exact collect_inv _ _ _ h
  | gc =>
    simp only [step, Except.ok.injEq] at hs
    subst hs
    exact collect_inv _ _ _ h
  | rebuild src dst remap =>
    simp only [step] at hs
    split at hs
    · cases hs
    · rename_i i hi
      split at hs
      · cases hs
      · rename_i s1 j hr
        simp only [Except.ok.injEq] at hs
        subst hs
        have h1 := rebuild_inv remap _ _ _ _ _ h hr
        refine setRoot_inv h1 (Or.inl ?_)
        -- the rebuilt object is live: the last action of `rebuild` is a `construct`
        cases hf : s.objs.length + 1 with
        | zero => omega
        | succ fuel =>
          rw [hf] at hr
          simp only [FV.C07.rebuild] at hr
          split at hr
          · cases hr
          · split at hr
            · cases hr
            · rename_i s2 args' hm
              have h2 : Inv s2 :=
                mapArgsM_inv (FV.C07.rebuild fuel remap) remap
                  (fun s j s' j' hs hh => rebuild_inv remap fuel s j s' j' hs hh) _ _ _ _ h hm
              exact construct_live h2 hr

/-- The invariant holds along every history, whatever the interleaving. -/
theorem inv_run : ∀ (ops : List Step) (s s' : St), Inv s → run s ops = .ok s' → Inv s'
  | [], s, s', h, hr => by
    simp only [run, Except.ok.injEq] at hr; subst hr; exact h
  | op :: ops, s, s', h, hr => by
    simp only [run] at hr
    split at hr
    · cases hr
    · rename_i s1 hs
      exact inv_run ops s1 s' (step_inv op h hs) hr

theorem inv_reachable (ops : List Step) (s : St) (hr : run St.init ops = .ok s) : Inv s :=
  inv_run ops _ _ inv_init hr

/-! ## The property -/

/-- **Structural equality is identity**: two live interned objects are the same object iff they
    have the same class and equal cons keys. -/
theorem identity_iff_structural {s : St} (h : Inv s) {i j : Id} {o o' : Obj}
    (hi : (i, o) ∈ s.objs) (hj : (j, o') ∈ s.objs) :
    i = j ↔ (o.cls = o'.cls ∧ o.key = o'.key) := by
  constructor
  · intro e; subst e
    have := nodup_map_inj (·.1) s.objs h.idsNodup _ hi _ hj rfl
    cases this; exact ⟨rfl, rfl⟩
  · intro ⟨e1, e2⟩
    have := nodup_map_inj keyOf s.objs h.keysNodup _ hi _ hj (by simp [keyOf, e1, e2])
    exact congrArg Prod.fst this

/-- The tables hold exactly one entry per live object: they cannot grow beyond the heap. -/
theorem cache_len_eq_live {s : St} (h : Inv s) : s.cache.length = s.objs.length := by
  rw [h.cacheEq, List.length_map]

/-- **No stale object, part 1**: a lookup only ever returns a live object that was inserted
    under exactly the requested class and key, built from arguments with that key. -/
theorem lookup_sound {s : St} (h : Inv s) {k : CKey} {i : Id} (hl : lookup s.cache k = some i) :
    ∃ o, (i, o) ∈ s.objs ∧ (o.cls, o.key) = k ∧ mkKey o.args = some o.key := by
  rw [h.cacheEq] at hl
  obtain ⟨p, hp, e1, e2⟩ := lookup_some _ _ _ hl
  exact ⟨p.2, by rw [← e1]; exact hp, e2, h.keyOfArgs p hp⟩

/-- An object's own key finds the object. -/
theorem lookup_self {s : St} (h : Inv s) {i : Id} {o : Obj} (ho : (i, o) ∈ s.objs) :
    lookup s.cache (o.cls, o.key) = some i := by
  rw [h.cacheEq]
  exact lookup_self_aux s.objs h.keysNodup (i, o) ho

/-- **No stale object, part 2** (recycled addresses): if the request passes arrays where the
    object found has arrays, then the arrays the object holds at those addresses are the very
    allocations that are live there *now* (same ghost serial) — never an earlier array whose
    address has since been handed out again. -/
theorem no_stale_arrays {s : St} (h : Inv s) {i : Id} {o : Obj} {args : List ArgTok}
    (ho : (i, o) ∈ s.objs) (hpos : arrIds o.args = arrIds args) :
    ∀ a ∈ arrIds args, ∀ ser, (a, ser) ∈ s.arrs → (a, ser) ∈ o.arrs := by
  intro a ha ser hser
  rw [← hpos, ← h.arrsOfArgs (i, o) ho, List.mem_map] at ha
  obtain ⟨p, hp, e⟩ := ha
  have hps := h.arrsHeld (i, o) ho p hp
  have := nodup_map_inj (·.1) s.arrs h.arrNodup p hps (a, ser) hser e
  rw [← this]; exact hp

/-- Without that hypothesis the key alone cannot tell an array from the integer equal to its
    address (`id(arg)` *is* an int): the request `Tensor(<int 7>)` finds the tensor built on the
    array that lives at address 7. -/
theorem id_collision_witness :
    ∃ s s1 r, run St.init [.alloc 0 7, .mk 1 0 false [.arr 7, .lp, .rp, .str "real"] 9] = .ok s ∧
      construct s 0 false [.int 7, .lp, .rp, .str "real"] 10 = .ok (s1, r) ∧ r = 9 := by
  refine ⟨_, _, _, rfl, rfl, rfl⟩

theorem construct_hit {s : St} {cls : Nat} {cyc : Bool} {args : List ArgTok} {nid r : Id}
    {key : List Tok} {held : List (Id × Nat)} (hk : mkKey args = some key)
    (hrefs : ∀ j ∈ refsOf key, j ∈ objIds s)
    (hheld : resolveArrs s.arrs (arrIds args) = some held)
    (hl : lookup s.cache (cls, key) = some r) : construct s cls cyc args nid = .ok (s, r) := by
  have hall : (refsOf key).all (fun j => decide (j ∈ objIds s)) = true :=
    List.all_eq_true.mpr (fun j hj => decide_eq_true (hrefs j hj))
  unfold construct
  simp only [hk, hall, hheld, hl]
  simp

/-- Asking again (under any interpretation, with any spare address) returns the same object and
    changes nothing. -/
theorem construct_idem {s s1 : St} {cls : Nat} {cyc : Bool} {args : List ArgTok} {nid r : Id}
    (hc : construct s cls cyc args nid = .ok (s1, r)) (cyc' : Bool) (nid' : Id) :
    construct s1 cls cyc' args nid' = .ok (s1, r) := by
  obtain ⟨key, held, hk, hrefs, hheld, hcase⟩ := construct_cases hc
  rcases hcase with ⟨hhit, rfl⟩ | ⟨_, rfl, _, _, rfl⟩
  · exact construct_hit hk hrefs hheld hhit
  · refine construct_hit hk ?_ hheld ?_
    · intro j hj
      simp only [objIds, List.map_cons, List.mem_cons]
      exact Or.inr (hrefs j hj)
    · simp [lookup]

/-- The object a successful `construct` returns carries the requested class and key. -/
theorem construct_spec {s s' : St} {cls : Nat} {cyc : Bool} {args : List ArgTok} {nid r : Id}
    (h : Inv s) (hc : construct s cls cyc args nid = .ok (s', r)) :
    ∃ o, (r, o) ∈ s'.objs ∧ o.cls = cls ∧ mkKey args = some o.key := by
  obtain ⟨key, held, hk, _, _, hcase⟩ := construct_cases hc
  rcases hcase with ⟨hhit, rfl⟩ | ⟨_, rfl, _, _, rfl⟩
  · obtain ⟨o, ho, e, _⟩ := lookup_sound h hhit
    simp only [Prod.mk.injEq] at e
    exact ⟨o, ho, e.1, by rw [e.2]; exact hk⟩
  · exact ⟨_, List.mem_cons_self, rfl, hk⟩

/-- `construct` only adds: whatever was live stays live, unchanged. -/
theorem construct_mono {s s' : St} {cls : Nat} {cyc : Bool} {args : List ArgTok} {nid r : Id}
    (hc : construct s cls cyc args nid = .ok (s', r)) : ∀ p ∈ s.objs, p ∈ s'.objs := by
  obtain ⟨key, held, _, _, _, hcase⟩ := construct_cases hc
  rcases hcase with ⟨_, rfl⟩ | ⟨_, _, _, _, rfl⟩
  · intro p hp; exact hp
  · intro p hp; exact List.mem_cons_of_mem _ hp

/-- **Refinement**: two successive constructor calls yield the same object iff they name the
    same class and their arguments have the same `make_hash_key` — whatever else is in the heap,
    whichever addresses the allocator offers. -/
theorem construct_same_iff {s s1 s2 : St} {c c' : Nat} {cy cy' : Bool} {a a' : List ArgTok}
    {n n' r1 r2 : Id} (h : Inv s) (h1 : construct s c cy a n = .ok (s1, r1))
    (h2 : construct s1 c' cy' a' n' = .ok (s2, r2)) :
    r1 = r2 ↔ (c = c' ∧ mkKey a = mkKey a') := by
  have i1 := construct_inv h h1
  have i2 := construct_inv i1 h2
  obtain ⟨o1, m1, c1, k1⟩ := construct_spec h h1
  obtain ⟨o2, m2, c2, k2⟩ := construct_spec i1 h2
  have m1' := construct_mono h2 _ m1
  rw [identity_iff_structural i2 m1' m2, c1, c2, k1, k2]
  simp

/-- DESIGN.md names: `construct_identity` = `construct_same_iff`, `no_stale` = `lookup_sound`. -/
theorem construct_identity {s s1 s2 : St} {c c' : Nat} {cy cy' : Bool} {a a' : List ArgTok}
    {n n' r1 r2 : Id} (h : Inv s) (h1 : construct s c cy a n = .ok (s1, r1))
    (h2 : construct s1 c' cy' a' n' = .ok (s2, r2)) :
    r1 = r2 ↔ (c = c' ∧ mkKey a = mkKey a') := construct_same_iff h h1 h2

theorem no_stale {s : St} (h : Inv s) {k : CKey} {i : Id} (hl : lookup s.cache k = some i) :
    ∃ o, (i, o) ∈ s.objs ∧ (o.cls, o.key) = k ∧ mkKey o.args = some o.key := lookup_sound h hl

/-- `TensorMeta.__call__` normalises `inputs` (None / dict -> tuple) and converts a NumPy *scalar*
    (`np.generic`, hashable) to a fresh 0-d array — the only conversion of `data` that allocates, and
    it applies to scalars only: an `ndarray` argument reaches the key as the object that was passed. -/
theorem tensor_meta_source_form_modelled :
    FV.Gen.C07.tensorMetaCallForm =
      "if inputs is None: inputs = tuple() elif isinstance(inputs, dict): inputs = tuple(inputs.items()) ;; if isinstance(data, np.generic): data = data.__array__() ;; return super(TensorMeta, cls).__call__(data, inputs, dtype)" := by
  rfl

/-- The model's `TensorMeta` normalisation never touches the array token. -/
theorem tensor_norm_keeps_array (a : Id) (inputs dtype : List ArgTok) :
    (∃ i', normArgs "TensorMeta" [[.arr a], inputs, dtype] = some [[.arr a], i', dtype]) ∧
    (∃ i', normArgs "TensorMeta" [[.arr a], inputs] = some [[.arr a], i', [.str "real"]]) ∧
    normArgs "TensorMeta" [[.arr a]] = some [[.arr a], [.lp, .rp], [.str "real"]] := by
  refine ⟨⟨_, rfl⟩, ⟨_, rfl⟩, rfl⟩

/-- The key of a term whose first argument is an array determines that array's address. -/
theorem arr_key_inj {a b : Id} {rest : List ArgTok} {k : List Tok}
    (h1 : mkKey (.arr a :: rest) = some k) (h2 : mkKey (.arr b :: rest) = some k) : a = b := by
  simp only [mkKey, mkKeyAux] at h1 h2
  cases hr : mkKeyAux rest 0 Option.none with
  | none => simp [hr] at h1
  | some r =>
    simp only [hr, Option.map_some, Option.some.injEq] at h1 h2
    rw [← h2] at h1
    simp only [List.cons.injEq, Tok.num.injEq, and_true] at h1
    exact Int.ofNat_inj.mp h1

/-- **Witness for allocating normalisation**: if a constructor wrapper replaces the array passed by
    a copy (a different address) before the key is built, two calls with the *same* argument give
    two different live objects — `same args ⇒ same object` needs the array to reach the key as is. -/
theorem copying_normaliser_breaks_identity {s s1 s2 : St} {c : Nat} {cy cy' : Bool}
    {rest : List ArgTok} {a b n n' r1 r2 : Id} (h : Inv s)
    (h1 : construct s c cy (.arr a :: rest) n = .ok (s1, r1))
    (h2 : construct s1 c cy' (.arr b :: rest) n' = .ok (s2, r2)) (hab : a ≠ b) : r1 ≠ r2 := by
  intro e
  have hk := ((construct_same_iff h h1 h2).mp e).2
  obtain ⟨k1, _, hk1, _⟩ := construct_cases h1
  obtain ⟨k2, _, hk2, _⟩ := construct_cases h2
  rw [hk1, hk2] at hk
  have : k1 = k2 := Option.some.inj hk
  subst this
  exact hab (arr_key_inj hk1 hk2)

/-! ### keyword call forms -/

/-- The kwargs -> args step of `FunsorMeta.__call__` walks the FIELD list. -/
theorem meta_call_source_form_modelled :
    FV.Gen.C07.metaCallForm =
      "if cls.__args__: cls = cls.__origin__ ;; if kwargs: args = list(args) for name in cls._ast_fields[len(args):]: args.append(kwargs.pop(name)) assert not kwargs, kwargs args = tuple(args) ;; return interpret(cls, *args)" := by
  rfl

theorem lookupKw_perm {kws kws' : List (String × List ArgTok)} (h : kws.Perm kws')
    (hn : (kws.map (·.1)).Nodup) (n : String) : lookupKw kws n = lookupKw kws' n := by
  induction h with
  | nil => rfl
  | cons x _ ih =>
    simp only [List.map_cons, List.nodup_cons] at hn
    simp only [lookupKw]
    split
    · rfl
    · exact ih hn.2
  | swap x y l =>
    simp only [List.map_cons, List.nodup_cons, List.mem_cons, not_or] at hn
    simp only [lookupKw]
    by_cases hx : x.1 = n
    · by_cases hy : y.1 = n
      · exact absurd (hy.trans hx.symm) hn.1.1
      · simp [hx, hy]
    · by_cases hy : y.1 = n <;> simp [hx, hy]
  | trans h1 _ ih1 ih2 =>
    rw [ih1 hn]
    exact ih2 ((h1.map (·.1)).nodup_iff.mp hn)

/-- **Any permutation of the keyword list gives the same argument tuple, hence the same key and the
    same object**: the call order of keyword arguments is invisible to the cons cache. -/
theorem key_of_kwargs_permutation_invariant (fields : List String) (pos : List (List ArgTok))
    {kws kws' : List (String × List ArgTok)} (h : kws.Perm kws') (hn : (kws.map (·.1)).Nodup) :
    kwargsToArgs fields pos kws = kwargsToArgs fields pos kws' := by
  unfold kwargsToArgs
  have he : kws.isEmpty = kws'.isEmpty := by
    cases kws with
    | nil => rw [List.Perm.nil_eq h]
    | cons a l =>
      cases kws' with
      | nil => exact absurd (List.Perm.eq_nil h) (by simp)
      | cons b l' => rfl
  have hm : (fields.drop pos.length).mapM (lookupKw kws) =
      (fields.drop pos.length).mapM (lookupKw kws') := by
    congr 1
    funext n
    exact lookupKw_perm h hn n
  have ha : kws.all (fun kv => decide (kv.1 ∈ fields.drop pos.length)) =
      kws'.all (fun kv => decide (kv.1 ∈ fields.drop pos.length)) := by
    rw [Bool.eq_iff_iff, List.all_eq_true, List.all_eq_true]
    constructor
    · intro hh x hx; exact hh x (h.mem_iff.mpr hx)
    · intro hh x hx; exact hh x (h.mem_iff.mp hx)
  simp only [he, hm, ha]

theorem callKw_perm (s : St) (fields : List String) (mcls : String) (cls : Nat) (cyc : Bool)
    (pos : List (List ArgTok)) {kws kws' : List (String × List ArgTok)} (nid : Id)
    (h : kws.Perm kws') (hn : (kws.map (·.1)).Nodup) :
    callKw s fields mcls cls cyc pos kws nid = callKw s fields mcls cls cyc pos kws' nid := by
  unfold callKw
  rw [key_of_kwargs_permutation_invariant fields pos h hn]

/-- All-keyword, mixed and all-positional forms of `Binary(op, lhs, rhs)` agree; -/
theorem kwargs_forms_agree :
    let f := ["op", "lhs", "rhs"]
    kwargsToArgs f [] [("rhs", [.obj 3]), ("op", [.obj 1]), ("lhs", [.obj 2])] =
      some [[.obj 1], [.obj 2], [.obj 3]] ∧
    kwargsToArgs f [[.obj 1]] [("rhs", [.obj 3]), ("lhs", [.obj 2])] =
      some [[.obj 1], [.obj 2], [.obj 3]] ∧
    kwargsToArgs f [[.obj 1], [.obj 2], [.obj 3]] [] = some [[.obj 1], [.obj 2], [.obj 3]] ∧
    kwargsToArgs f [[.obj 1]] [("rhs", [.obj 3])] = Option.none ∧
    kwargsToArgs f [[.obj 1], [.obj 2]] [("rhs", [.obj 3]), ("lhs", [.obj 2])] = Option.none := by
  decide

/-- **Witness for call-order keys**: appending the keyword values in call order keys
    `Binary(op, rhs=y, lhs=x)` as `Binary(op, y, x)` — a different key from `Binary(op, x, y)`. -/
theorem call_order_keys_witness :
    kwargsToArgsCallOrder [[.obj 1]] [("rhs", [.obj 3]), ("lhs", [.obj 2])] =
      [[.obj 1], [.obj 3], [.obj 2]] ∧
    mkKey (kwargsToArgsCallOrder [[.obj 1]] [("rhs", [.obj 3]), ("lhs", [.obj 2])]).flatten ≠
      mkKey [.obj 1, .obj 2, .obj 3] ∧
    mkKey (kwargsToArgsCallOrder [[.obj 1]] [("rhs", [.obj 3]), ("lhs", [.obj 2])]).flatten =
      mkKey [.obj 1, .obj 3, .obj 2] := by
  decide

/-! ### strong memos: the reviewed list -/

/-- The memoising decorators and cache-like tables of the pinned tree, each reviewed for what it
    keeps alive (kind, module, name, source, verdict).  A memo that holds interned objects strongly
    (an `lru_cache` over domains, terms, ops or frozensets of them) defeats "held weakly" without
    touching any intern table, so a NEW entry must be reviewed: `memos_reviewed` then fails and the
    check runs the reclamation histories (fresh domains passed through every typing path). -/
def reviewedMemos : List (String × String × String × String × String) := [
  ("decorator", "funsor.distribution", "Distribution._infer_param_domain", "functools.lru_cache(maxsize=5000)",
    "bounded: at most 5000 (class, param name, shape) entries; distributions only (outside the numpy pool)"),
  ("decorator", "funsor.distribution", "Distribution._infer_value_domain", "functools.lru_cache(maxsize=5000)",
    "bounded: at most 5000 (class, domains) entries; distributions only (outside the numpy pool)"),
  ("decorator", "funsor.typing", "deep_issubclass", "functools.lru_cache(maxsize=None)",
    "arguments are classes: parametrised funsor types whose parameters are metaclass-level types (RealsType, BintType), never interned domain objects; measured every run by the passed-through stream"),
  ("table", "funsor.domains", "ArrayType._type_cache", "WeakValueDictionary()", "weak (table_own_weak)"),
  ("table", "funsor.domains", "ProductDomain._type_cache", "WeakValueDictionary()", "weak (table_own_weak)"),
  ("table", "funsor.interpretations", "Memoize.__init__.cache", "{}",
    "scoped: lives with the memoize() context / the dict the caller passes (property C03)"),
  ("table", "funsor.ops.op", "OpMeta.__init__.cls._instance_cache", "weakref.WeakValueDictionary()",
    "weak (table_own_weak)"),
  ("table", "funsor.terms", "FunsorMeta.__init__.cls._cons_cache", "WeakValueDictionary()",
    "weak (table_own_weak)"),
  ("table", "funsor.typing", "GenericTypeMeta.__init__.cls._type_cache", "weakref.WeakValueDictionary()",
    "weak: parametrised classes")]

theorem memos_reviewed :
    FV.Gen.C07.memos = reviewedMemos.map (fun e => (e.1, e.2.1, e.2.2.1, e.2.2.2.1)) := by
  decide

/-- Intern lookups never rely on the truth value of the stored object (an interned class may be
    falsy — e.g. a domain with a `__len__` of 0 — and a term's `__bool__` raises): the domain table
    tests `is None`, the product table catches `KeyError`, `reflect` tests `in`
    (`source_forms_modelled`) and the op table tests `is None` (`op_source_forms_modelled`).
    The model's `lookup` returns an `Option`: presence, not truthiness. -/
theorem lookup_source_forms_modelled :
    FV.Gen.C07.domainLookupForm =
      "result = ArrayType._type_cache.get(key, None) ;; if result is None ;; ArrayType._type_cache[key] = result" ∧
    FV.Gen.C07.productLookupForm =
      "try: return ProductDomain._type_cache[arg_domains] except KeyError: assert isinstance(arg_domains, tuple) assert all((isinstance(arg_domain, Domain) for arg_domain in arg_domains)) subcls = type('Product_', (Product,), {'__args__': arg_domains}) ProductDomain._type_cache[arg_domains] = subcls return subcls" := by
  refine ⟨?_, ?_⟩ <;> rfl

/-- Zero-size event shapes are ordinary keys: `Bint[2,0]` = `Array[2,(0,)]` ≠ `Bint[2]`, `Reals[0]` ≠ `Real`. -/
theorem zero_shape_keys :
    let k := fun (m : String) (a : List ArgTok) => ((splitTop a >>= normArgs m).map List.flatten >>= mkKey)
    k "Bint" [.lp, .int 2, .int 0, .rp] = k "Array" [.int 2, .lp, .int 0, .rp] ∧
    k "Bint" [.lp, .int 2, .int 0, .rp] ≠ k "Bint" [.int 2] ∧
    k "Reals" [.int 0] ≠ k "Reals" [] ∧
    k "Bint" [.lp, .int 3, .int 0, .int 2, .rp] ≠ k "Bint" [.lp, .int 3, .int 2, .int 0, .rp] := by
  decide

/-! ### weakly held -/

/-- Freeing an object removes its table entry with it: no later lookup can return it. -/
theorem free_purges {s : St} {i : Id} (h : Inv s) (hr : referenced s i = false) :
    i ∉ objIds (free s i) ∧ ∀ k, lookup (free s i).cache k ≠ some i := by
  have hi := free_inv h hr
  have h1 : i ∉ objIds (free s i) := by
    intro hm
    obtain ⟨o, ho⟩ := mem_objIds.mp hm
    exact (mem_free_objs.mp ho).2 rfl
  refine ⟨h1, ?_⟩
  intro k hk
  obtain ⟨o, ho, _, _⟩ := lookup_sound hi hk
  exact h1 (mem_objIds.mpr ⟨o, ho⟩)

theorem collect_roots (c : Bool) : ∀ (fuel : Nat) (s : St), (collect c fuel s).roots = s.roots
  | 0, _ => rfl
  | fuel + 1, s => by
    simp only [collect]
    split
    · rw [collect_roots c fuel]; rfl
    · rfl

theorem length_filter_lt {α : Type} (p : α → Bool) :
    ∀ (l : List α) (x : α), x ∈ l → p x = false → (l.filter p).length < l.length
  | [], _, hx, _ => by cases hx
  | y :: ys, x, hx, hp => by
    rcases List.mem_cons.mp hx with rfl | hx'
    · simp only [List.filter_cons, hp]
      have := List.length_filter_le p ys
      simp only [Bool.false_eq_true, if_false, List.length_cons]
      omega
    · have ih := length_filter_lt p ys x hx' hp
      simp only [List.filter_cons]
      split <;> simp only [List.length_cons] <;> omega

theorem findUnref_mem {s : St} {c : Bool} {i : Id} (h : findUnref s c = some i) :
    i ∈ objIds s ∨ i ∈ arrIdsLive s := by
  unfold findUnref at h
  split at h
  · rename_i p hp
    simp only [Option.some.injEq] at h
    subst h
    exact Or.inl (List.mem_map.mpr ⟨p, List.mem_of_find?_eq_some hp, rfl⟩)
  · simp only [Option.map_eq_some_iff] at h
    obtain ⟨a, ha, e⟩ := h
    exact Or.inr (List.mem_map.mpr ⟨a, List.mem_of_find?_eq_some ha, e⟩)

theorem free_measure {s : St} {i : Id} (hm : i ∈ objIds s ∨ i ∈ arrIdsLive s) :
    (free s i).objs.length + (free s i).arrs.length < s.objs.length + s.arrs.length := by
  have l1 : (free s i).objs.length ≤ s.objs.length := List.length_filter_le _ _
  have l2 : (free s i).arrs.length ≤ s.arrs.length := List.length_filter_le _ _
  rcases hm with hm | hm
  · obtain ⟨p, hp, e⟩ := List.mem_map.mp hm
    have : (free s i).objs.length < s.objs.length :=
      length_filter_lt _ s.objs p hp (by simp [e])
    omega
  · obtain ⟨a, ha, e⟩ := List.mem_map.mp hm
    have : (free s i).arrs.length < s.arrs.length :=
      length_filter_lt _ s.arrs a ha (by simp [e])
    omega

theorem collect_fixpoint (c : Bool) : ∀ (fuel : Nat) (s : St),
    s.objs.length + s.arrs.length ≤ fuel → findUnref (collect c fuel s) c = Option.none
  | 0, s, hle => by
    have h1 : s.objs = [] := List.eq_nil_of_length_eq_zero (by omega)
    have h2 : s.arrs = [] := List.eq_nil_of_length_eq_zero (by omega)
    simp [collect, findUnref, h1, h2]
  | fuel + 1, s, hle => by
    simp only [collect]
    split
    · rename_i i hi
      have := free_measure (findUnref_mem hi)
      exact collect_fixpoint c fuel _ (by omega)
    · rename_i hnone; exact hnone

/-- After `gc` nothing unreferenced is left: every survivor is held by a handle or by the key
    (or the array slots) of another survivor. -/
theorem gc_complete (s : St) : findUnref (gc s) true = Option.none :=
  collect_fixpoint true _ s (Nat.le_refl _)

/-- After `sweep` (reference counting) the only unreferenced survivors are cyclic garbage. -/
theorem sweep_complete (s : St) : findUnref (sweep s) false = Option.none :=
  collect_fixpoint false _ s (Nat.le_refl _)

theorem exists_max_stamp : ∀ (l : List (Id × Obj)), l ≠ [] →
    ∃ p ∈ l, ∀ q ∈ l, q.2.stamp ≤ p.2.stamp
  | [], h => absurd rfl h
  | [x], _ => ⟨x, List.mem_cons_self, by intro q hq; simp at hq; subst hq; exact Nat.le_refl _⟩
  | x :: y :: ys, _ => by
    obtain ⟨p, hp, hmax⟩ := exists_max_stamp (y :: ys) (by simp)
    by_cases hc : p.2.stamp ≤ x.2.stamp
    · refine ⟨x, List.mem_cons_self, ?_⟩
      intro q hq
      rcases List.mem_cons.mp hq with rfl | hq'
      · exact Nat.le_refl _
      · exact Nat.le_trans (hmax q hq') hc
    · refine ⟨p, List.mem_cons_of_mem _ hp, ?_⟩
      intro q hq
      rcases List.mem_cons.mp hq with rfl | hq'
      · omega
      · exact hmax q hq'

/-- A state with no handles and nothing unreferenced left is empty: the reference graph is
    acyclic (keys only mention older objects), so the youngest object would be unreferenced. -/
theorem empty_of_no_roots {s : St} (h : Inv s) (hroots : s.roots = [])
    (hfix : findUnref s true = Option.none) : s.objs = [] ∧ s.arrs = [] ∧ s.cache = [] := by
  have hobjs : s.objs = [] := by
    cases hl : s.objs with
    | nil => rfl
    | cons x xs =>
      exfalso
      obtain ⟨p, hp, hmax⟩ := exists_max_stamp s.objs (by rw [hl]; simp)
      have hunref : referenced s p.1 = false := by
        unfold referenced
        rw [hroots]
        simp only [List.any_nil, Bool.false_or, List.any_eq_false, Bool.or_eq_true, decide_eq_true_eq,
          List.any_eq_true, not_or, not_exists, not_and]
        intro q hq
        constructor
        · intro hm
          have := h.refsOlder q hq p hp hm
          have := hmax q hq
          omega
        · intro a ha e
          have ha' := h.arrsHeld q hq a ha
          exact h.disjoint p.1 (List.mem_map.mpr ⟨p, hp, rfl⟩) (List.mem_map.mpr ⟨a, ha', e⟩)
      unfold findUnref at hfix
      split at hfix
      · cases hfix
      · rename_i hnone
        rw [List.find?_eq_none] at hnone
        exact hnone p hp (by simp [hunref])
  have harrs : s.arrs = [] := by
    cases hl : s.arrs with
    | nil => rfl
    | cons a as =>
      exfalso
      have hunref : referenced s a.1 = false := by
        unfold referenced
        rw [hroots, hobjs]; rfl
      unfold findUnref at hfix
      split at hfix
      · cases hfix
      · simp only [Option.map_eq_none_iff] at hfix
        rw [List.find?_eq_none] at hfix
        exact hfix a (by rw [hl]; exact List.mem_cons_self) (by simp [hunref])
  exact ⟨hobjs, harrs, by rw [h.cacheEq, hobjs]; rfl⟩

/-- **Weakly held**: once every handle is dropped, `gc` reclaims everything — heap and tables
    are empty again, whatever history came before. -/
theorem weak_reclaim {s : St} (h : Inv s) (hroots : s.roots = []) :
    (gc s).objs = [] ∧ (gc s).arrs = [] ∧ (gc s).cache = [] := by
  apply empty_of_no_roots (collect_inv _ _ _ h)
  · show (collect true _ s).roots = []
    rw [collect_roots]; exact hroots
  · exact gc_complete s

/-! ### reinterpret under reflect -/

theorem mapArgsM_self (f : St → Id → Except Err (St × Id)) (s : St)
    (hf : ∀ j s' j', f s j = .ok (s', j') → s' = s ∧ j' = j) :
    ∀ (ts : List ArgTok) (s' : St) (ts' : List ArgTok),
      mapArgsM f [] s ts = .ok (s', ts') → s' = s ∧ ts' = ts
  | [], s', ts', hm => by
    simp only [mapArgsM, Except.ok.injEq, Prod.mk.injEq] at hm
    exact ⟨hm.1.symm, hm.2.symm⟩
  | t :: ts, s', ts', hm => by
    cases t with
    | obj j =>
      simp only [mapArgsM] at hm
      split at hm
      · cases hm
      · rename_i s1 j' hfj
        obtain ⟨rfl, rfl⟩ := hf _ _ _ hfj
        split at hm
        · cases hm
        · rename_i s2 ts2 hrec
          obtain ⟨rfl, rfl⟩ := mapArgsM_self f _ hf ts _ _ hrec
          simp only [Except.ok.injEq, Prod.mk.injEq] at hm
          exact ⟨hm.1.symm, hm.2.symm⟩
    | arr a =>
      simp only [mapArgsM] at hm
      split at hm
      · cases hm
      · rename_i s2 ts2 hrec
        obtain ⟨rfl, rfl⟩ := mapArgsM_self f _ hf ts _ _ hrec
        simp only [remapId, Except.ok.injEq, Prod.mk.injEq] at hm
        exact ⟨hm.1.symm, hm.2.symm⟩
    | _ =>
      simp only [mapArgsM] at hm
      split at hm
      · cases hm
      · rename_i s2 ts2 hrec
        obtain ⟨rfl, rfl⟩ := mapArgsM_self f _ hf ts _ _ hrec
        simp only [Except.ok.injEq, Prod.mk.injEq] at hm
        exact ⟨hm.1.symm, hm.2.symm⟩

/-- **Reinterpretation under reflect is the identity**: rebuilding a live object bottom-up from
    its own arguments (same arrays) returns the object itself and leaves heap and tables
    untouched — whenever it returns (`rebuild` needs fuel ≥ the term's depth). -/
theorem rebuild_self : ∀ (fuel : Nat) (s : St) (i : Id) (s' : St) (j : Id),
    Inv s → rebuild fuel [] s i = .ok (s', j) → s' = s ∧ j = i
  | 0, _, _, _, _, _, hr => by simp [rebuild] at hr
  | fuel + 1, s, i, s', j, h, hr => by
    simp only [rebuild] at hr
    split at hr
    · cases hr
    · rename_i o ho
      split at hr
      · cases hr
      · rename_i s1 args' hm
        obtain ⟨rfl, rfl⟩ := mapArgsM_self (rebuild fuel []) s
          (fun j s' j' hh => rebuild_self fuel s j s' j' h hh) _ _ _ hm
        have hmem := findObj_mem ho
        simp only [remapId] at hr
        obtain ⟨key, held, hk, _, _, hcase⟩ := construct_cases hr
        have hkey : key = o.key := by
          have := h.keyOfArgs (i, o) hmem
          simp only at this
          rw [this] at hk
          exact (Option.some.inj hk).symm
        have hself := lookup_self h hmem
        rw [hkey] at hcase
        rcases hcase with ⟨hhit, rfl⟩ | ⟨hmiss, _⟩
        · rw [hself] at hhit
          exact ⟨rfl, (Option.some.inj hhit).symm⟩
        · rw [hself] at hmiss; cases hmiss

/-! ## The hypotheses are satisfiable; the model says what the design notes observed -/

/-- A reachable, non-trivial state: an array, a tensor on it, a variable, a binary term. -/
def demoOps : List Step :=
  [.alloc 0 50, .mk 1 8 false [.arr 50, .lp, .rp, .str "real"] 51,
   .mk 2 26 false [.str "x", .obj 51] 52,
   .mk 3 11 false [.obj 52, .obj 51] 53]

example : ∃ s, run St.init demoOps = .ok s ∧ s.objs.length = 3 ∧ Inv s := by
  refine ⟨_, rfl, rfl, inv_reachable demoOps _ rfl⟩

/-- Pickle round trip of a tensor: the array is copied (new address 60), so the rebuilt tensor is
    a *different* object (address 61 ≠ 51); reinterpretation (same array) is the same object. -/
example : ∃ s, run St.init (demoOps ++ [.alloc 9 60, .rebuild 1 4 [(50, 60), (51, 61)]]) = .ok s ∧
    getRoot s.roots 4 = some 61 ∧ getRoot s.roots 1 = some 51 := ⟨_, rfl, rfl, rfl⟩

example : ∃ s, run St.init (demoOps ++ [.rebuild 3 4 []]) = .ok s ∧
    getRoot s.roots 4 = some 53 := ⟨_, rfl, rfl⟩

/-- Recycling: drop the tensor and its array, let the allocator hand address 50 out again — the
    request on the new array builds a new tensor (the old entry is gone), it does not find a
    stale one. -/
example : ∃ s, run St.init [.alloc 0 50, .mk 1 8 false [.arr 50, .lp, .rp, .str "real"] 51,
      .drop 1, .drop 0, .sweep, .alloc 0 50, .mk 1 8 false [.arr 50, .lp, .rp, .str "real"] 51] = .ok s ∧
    (s.objs.map (·.2.stamp) = [3]) ∧ s.cache.length = 1 := ⟨_, rfl, rfl, rfl⟩

/-- `Number(1)`, `Number(1.0)`, `Number(True)` (dtype defaulted) are one object;
    `Number(-0.0)` is `Number(0.0)`. -/
example :
    (splitTop [.int 1] >>= normArgs "NumberMeta").map List.flatten >>= mkKey =
    ((splitTop [.flt 1 1, .none] >>= normArgs "NumberMeta").map List.flatten >>= mkKey) ∧
    (splitTop [.bool true] >>= normArgs "NumberMeta").map List.flatten >>= mkKey =
    ((splitTop [.int 1, .str "real"] >>= normArgs "NumberMeta").map List.flatten >>= mkKey) ∧
    (splitTop [.negz] >>= normArgs "NumberMeta").map List.flatten >>= mkKey =
    ((splitTop [.flt 0 1] >>= normArgs "NumberMeta").map List.flatten >>= mkKey) := by
  decide

end FV.Props.C07
