/-
  Props/C07.lean — hash-consing: structural equality is object identity, held weakly.
-/
import FunsorVerif.Model.C07
import FunsorVerif.Gen.C07Table
namespace FV.Props.C07
open FV.C07

/-! ## Obligations over the table generated from /repo -/

/-- Every interned class owns its table (no inherited/shared dict) and holds its values weakly. -/
theorem table_own_weak : ∀ e ∈ FV.Gen.C07.classes, e.ownCache = true ∧ e.weak = true := by
  decide +kernel

end FV.Props.C07
