/-
  Props/C07.lean — hash-consing: structural equality is object identity, held weakly.

  The invariant `Inv` of the state machine `FV.C07` is preserved by every step (any address
  recycling, any reclamation order, any interleaving of construct / drop / reclaim / sweep / gc /
  pickle- or reinterpret-style rebuilds): `inv_run`.  Under `Inv`:
    * two live interned objects are the same object iff they have the same class and equal cons
      keys (`identity_iff_structural`), and two successive constructor calls return the same
      object iff class and `make_hash_key` agree (`construct_same_iff`);
    * a table lookup never returns a dead object or one keyed differently (`lookup_sound`), and
      the object it returns holds the arrays that are *now* at the requested addresses, not an
      earlier allocation that once lived there (`no_stale_arrays`);
    * tables never outgrow the heap (`cache_len_eq_live`), freeing an object removes its entry
      (`free_purges`), after `gc` nothing unreferenced is left (`gc_complete`), and with no
      handle held everything is reclaimed (`weak_reclaim`);
    * rebuilding a live object from its own arguments (reinterpret under reflect) returns the
      object itself and changes nothing (`rebuild_self`).
-/
import FunsorVerif.Model.C07
import FunsorVerif.Gen.C07Table
namespace FV.Props.C07
open FV.C07

/-! ## Obligations over the table generated from /repo -/

/-- Every interned class owns its table (no inherited/shared dict) and holds its values weakly. -/
theorem table_own_weak : ∀ e ∈ FV.Gen.C07.classes, e.ownCache = true ∧ e.weak = true := by
  decide +kernel

/-- No two classes share one table object: the per-class key `(cls, key)` of the model. -/
theorem table_caches_distinct : (FV.Gen.C07.classes.map (·.cacheId)).Nodup := by
  decide +kernel

/-- `_ast_fields` (what `reflect` zips the args with) are the `__init__` parameters in the source. -/
theorem table_fields_agree :
    ∀ e ∈ FV.Gen.C07.classes, e.astFound = true → e.fields = e.astFields := by
  decide +kernel

/-- The code the model transcribes still reads as transcribed. -/
theorem source_forms_modelled :
    FV.Gen.C07.hashKeyForm =
      "return tuple((id(arg) if not isinstance(arg, Hashable) else arg for arg in args))" ∧
    FV.Gen.C07.reflectCacheForm =
      "cache_key = reflect.make_hash_key(cls, *args) ;; if cache_key in cls._cons_cache: return cls._cons_cache[cache_key] ;; cls._cons_cache[cache_key] = result" ∧
    FV.Gen.C07.funsorHashForm = "return id(self)" ∧
    FV.Gen.C07.funsorReduceForm = "return (type(self).__origin__, self._ast_values)" ∧
    FV.Gen.C07.funsorCopyForm = "return self" := by
  refine ⟨?_, ?_, ?_, ?_, ?_⟩ <;> rfl

/-- The metaclasses whose `__call__` the model normalises are the ones the table reports. -/
theorem table_metaclasses_modelled :
    ∀ e ∈ FV.Gen.C07.classes,
      (e.name = "funsor.tensor.Tensor" → e.mcls = "TensorMeta") ∧
      (e.name = "funsor.terms.Number" → e.mcls = "NumberMeta") ∧
      (e.name = "funsor.terms.Slice" → e.mcls = "SliceMeta") ∧
      (e.name = "funsor.terms.Cat" → e.mcls = "CatMeta") ∧
      (e.name = "funsor.terms.Subs" → e.mcls = "SubsMeta") ∧
      (e.name ∈ ["funsor.terms.Variable", "funsor.terms.Unary", "funsor.terms.Binary",
                 "funsor.terms.Reduce", "funsor.terms.Lambda", "funsor.terms.Align",
                 "funsor.terms.Stack", "funsor.terms.Tuple"] → e.mcls = "FunsorMeta") := by
  decide +kernel

/-! ## Python's key equality, as `make_hash_key` + dict lookup see it -/

theorem key_int_float_bool :
    normTok (.int 1) = normTok (.flt 1 1) ∧ normTok (.int 1) = normTok (.bool true) ∧
    normTok (.int 0) = normTok (.bool false) ∧ normTok (.flt 4 2) = normTok (.int 2) := by decide

theorem key_negzero : normTok .negz = normTok (.flt 0 1) ∧ normTok .negz = normTok (.int 0) := by
  decide

/-- A NaN key component equals only the very same NaN object. -/
theorem key_nan_identity (a b : Id) : normTok (.nan a) = normTok (.nan b) ↔ a = b := by
  simp [normTok]

/-- `id(arr)` is an `int`: an unhashable argument and the integer equal to its address give the
    same key component (see `id_collision_witness`). -/
theorem key_array_is_int (a : Id) : mkKey [.arr a] = mkKey [.int (Int.ofNat a)] := by
  simp [mkKey, mkKeyAux, normTok]

/-! ## The invariant -/

def keyOf (p : Id × Obj) : CKey := (p.2.cls, p.2.key)

structure Inv (s : St) : Prop where
  cacheEq : s.cache = s.objs.map entryOf
  idsNodup : (s.objs.map (·.1)).Nodup
  keysNodup : (s.objs.map keyOf).Nodup
  keyOfArgs : ∀ p ∈ s.objs, mkKey p.2.args = some p.2.key
  refsLive : ∀ p ∈ s.objs, ∀ j ∈ refsOf p.2.key, j ∈ objIds s
  refsOlder : ∀ p ∈ s.objs, ∀ q ∈ s.objs, q.1 ∈ refsOf p.2.key → q.2.stamp < p.2.stamp
  arrsHeld : ∀ p ∈ s.objs, ∀ a ∈ p.2.arrs, a ∈ s.arrs
  arrsOfArgs : ∀ p ∈ s.objs, p.2.arrs.map (·.1) = arrIds p.2.args
  arrNodup : (s.arrs.map (·.1)).Nodup
  rootsLive : ∀ r ∈ s.roots, r.2 ∈ objIds s ∨ r.2 ∈ arrIdsLive s
  stampsLt : ∀ p ∈ s.objs, p.2.stamp < s.clock

theorem inv_init : Inv St.init := by
  constructor <;> simp [St.init, objIds, arrIdsLive]

/-! ### list lemmas -/

theorem nodup_map_inj {α β : Type} (f : α → β) :
    ∀ (l : List α), (l.map f).Nodup → ∀ a ∈ l, ∀ b ∈ l, f a = f b → a = b
  | [], _, a, ha, _, _, _ => by cases ha
  | x :: xs, h, a, ha, b, hb, hab => by
    simp only [List.map_cons, List.nodup_cons, List.mem_map, not_exists, not_and] at h
    rcases List.mem_cons.mp ha with rfl | ha'
    · rcases List.mem_cons.mp hb with rfl | hb'
      · rfl
      · exact absurd hab.symm (h.1 b hb')
    · rcases List.mem_cons.mp hb with rfl | hb'
      · exact absurd hab (h.1 a ha')
      · exact nodup_map_inj f xs h.2 a ha' b hb' hab

theorem mem_objIds {s : St} {i : Id} : i ∈ objIds s ↔ ∃ o, (i, o) ∈ s.objs := by
  simp [objIds]

theorem lookup_none_iff (objs : List (Id × Obj)) (k : CKey) :
    lookup (objs.map entryOf) k = Option.none ↔ k ∉ objs.map keyOf := by
  induction objs with
  | nil => simp [lookup]
  | cons p ps ih =>
    simp only [List.map_cons, lookup, List.mem_cons, not_or]
    by_cases h : (entryOf p).1 = k
    · simp only [h, if_true]
      constructor
      · intro hh; cases hh
      · intro hh; exact absurd (show k = keyOf p from h.symm) hh.1
    · simp only [h, if_false, ih]
      constructor
      · intro hh; exact ⟨fun e => h (show (entryOf p).1 = k from e.symm), hh⟩
      · intro hh; exact hh.2

theorem lookup_some (objs : List (Id × Obj)) (k : CKey) (i : Id) :
    lookup (objs.map entryOf) k = some i → ∃ p ∈ objs, p.1 = i ∧ keyOf p = k := by
  induction objs with
  | nil => simp [lookup]
  | cons p ps ih =>
    simp only [List.map_cons, lookup]
    by_cases h : (entryOf p).1 = k
    · simp only [h, if_true, Option.some.injEq]
      intro hi
      exact ⟨p, List.mem_cons_self, hi, h⟩
    · simp only [h, if_false]
      intro hh
      obtain ⟨q, hq, h1, h2⟩ := ih hh
      exact ⟨q, List.mem_cons_of_mem _ hq, h1, h2⟩

/-- Under distinct keys, looking an object's own key up finds that object. -/
theorem lookup_self_aux (objs : List (Id × Obj)) (hn : (objs.map keyOf).Nodup) :
    ∀ p ∈ objs, lookup (objs.map entryOf) (keyOf p) = some p.1 := by
  induction objs with
  | nil => intro p hp; cases hp
  | cons x xs ih =>
    intro p hp
    simp only [List.map_cons, List.nodup_cons, List.mem_map, not_exists, not_and] at hn
    simp only [List.map_cons, lookup]
    rcases List.mem_cons.mp hp with rfl | hp'
    · simp [entryOf, keyOf]
    · have hne : ¬ (entryOf x).1 = keyOf p := fun e => hn.1 p hp' (show keyOf p = keyOf x from e.symm)
      simp only [hne, if_false]
      exact ih hn.2 p hp'

theorem findArr_some {arrs : List (Id × Nat)} {i : Id} {p : Id × Nat} :
    findArr arrs i = some p → p ∈ arrs ∧ p.1 = i := by
  induction arrs with
  | nil => simp [findArr]
  | cons a as ih =>
    simp only [findArr]
    by_cases h : a.1 = i
    · simp only [h, if_true, Option.some.injEq]
      intro e; subst e; exact ⟨List.mem_cons_self, h⟩
    · simp only [h, if_false]
      intro hh
      exact ⟨List.mem_cons_of_mem _ (ih hh).1, (ih hh).2⟩

theorem resolveArrs_some {arrs : List (Id × Nat)} :
    ∀ {ids : List Id} {held : List (Id × Nat)}, resolveArrs arrs ids = some held →
      (∀ a ∈ held, a ∈ arrs) ∧ held.map (·.1) = ids
  | [], held, h => by
    simp only [resolveArrs, Option.some.injEq] at h; subst h; simp
  | i :: is, held, h => by
    simp only [resolveArrs] at h
    split at h
    · rename_i p ps hp hps
      simp only [Option.some.injEq] at h; subst h
      obtain ⟨h1, h2⟩ := resolveArrs_some hps
      obtain ⟨g1, g2⟩ := findArr_some hp
      constructor
      · intro a ha
        rcases List.mem_cons.mp ha with rfl | ha'
        · exact g1
        · exact h1 a ha'
      · simp [g2, h2]
    · cases h

theorem findObj_mem {objs : List (Id × Obj)} {i : Id} {o : Obj} :
    findObj objs i = some o → (i, o) ∈ objs := by
  induction objs with
  | nil => simp [findObj]
  | cons p ps ih =>
    simp only [findObj]
    by_cases h : p.1 = i
    · simp only [h, if_true, Option.some.injEq]
      intro e; subst e; subst h; exact List.mem_cons_self
    · simp only [h, if_false]
      intro hh; exact List.mem_cons_of_mem _ (ih hh)

/-! ### `construct` -/

/-- What a successful `construct` did: either a hit (state unchanged, live object with the
    requested class and key) or a fresh insertion at `nid`. -/
theorem construct_cases {s s' : St} {cls : Nat} {cyc : Bool} {args : List ArgTok} {nid r : Id}
    (hc : construct s cls cyc args nid = .ok (s', r)) :
    ∃ key held, mkKey args = some key ∧ (∀ j ∈ refsOf key, j ∈ objIds s) ∧
      resolveArrs s.arrs (arrIds args) = some held ∧
      ((lookup s.cache (cls, key) = some r ∧ s' = s) ∨
       (lookup s.cache (cls, key) = Option.none ∧ r = nid ∧ nid ∉ objIds s ∧ nid ∉ arrIdsLive s ∧
        s' = { s with objs := (nid, { cls := cls, key := key, args := args, arrs := held,
                                       cyc := cyc, stamp := s.clock }) :: s.objs,
                      cache := ((cls, key), nid) :: s.cache,
                      clock := s.clock + 1 })) := by
  unfold construct at hc
  split at hc
  · cases hc
  · rename_i key hk
    split at hc
    · cases hc
    · rename_i hrefs
      split at hc
      · cases hc
      · rename_i held hheld
        have hrefs' : ∀ j ∈ refsOf key, j ∈ objIds s := by
          have : (refsOf key).all (fun j => decide (j ∈ objIds s)) = true := by
            cases hh : (refsOf key).all (fun j => decide (j ∈ objIds s)) with
            | true => rfl
            | false => exact absurd hh hrefs
          intro j hj
          exact of_decide_eq_true (List.all_eq_true.mp this j hj)
        refine ⟨key, held, hk, hrefs', hheld, ?_⟩
        split at hc
        · rename_i i hi
          simp only [Except.ok.injEq, Prod.mk.injEq] at hc
          obtain ⟨h1, h2⟩ := hc
          subst h1; subst h2
          exact Or.inl ⟨hi, rfl⟩
        · rename_i hmiss
          split at hc
          · cases hc
          · rename_i hfresh
            simp only [Except.ok.injEq, Prod.mk.injEq] at hc
            obtain ⟨h1, h2⟩ := hc
            simp only [not_or] at hfresh
            exact Or.inr ⟨hmiss, h2.symm, hfresh.1, hfresh.2, h1.symm⟩

theorem construct_inv {s s' : St} {cls : Nat} {cyc : Bool} {args : List ArgTok} {nid r : Id}
    (h : Inv s) (hc : construct s cls cyc args nid = .ok (s', r)) : Inv s' := by
  obtain ⟨key, held, hk, hrefs, hheld, hcase⟩ := construct_cases hc
  rcases hcase with ⟨_, rfl⟩ | ⟨hmiss, _, hf1, hf2, rfl⟩
  · exact h
  · obtain ⟨hh1, hh2⟩ := resolveArrs_some hheld
    have hkey : (cls, key) ∉ s.objs.map keyOf := by
      rw [h.cacheEq] at hmiss
      exact (lookup_none_iff _ _).mp hmiss
    constructor
    · simp [h.cacheEq, entryOf]
    · simp only [List.map_cons, List.nodup_cons]
      exact ⟨hf1, h.idsNodup⟩
    · simp only [List.map_cons, List.nodup_cons]
      exact ⟨hkey, h.keysNodup⟩
    · intro p hp
      rcases List.mem_cons.mp hp with rfl | hp'
      · exact hk
      · exact h.keyOfArgs p hp'
    · intro p hp j hj
      have : j ∈ objIds s := by
        rcases List.mem_cons.mp hp with rfl | hp'
        · exact hrefs j hj
        · exact h.refsLive p hp' j hj
      simp only [objIds, List.map_cons, List.mem_cons]
      exact Or.inr this
    · intro p hp q hq hqp
      rcases List.mem_cons.mp hp with rfl | hp'
      · rcases List.mem_cons.mp hq with rfl | hq'
        · exact absurd (hrefs _ hqp) hf1
        · exact h.stampsLt q hq'
      · rcases List.mem_cons.mp hq with rfl | hq'
        · exact absurd (h.refsLive p hp' _ hqp) hf1
        · exact h.refsOlder p hp' q hq' hqp
    · intro p hp a ha
      rcases List.mem_cons.mp hp with rfl | hp'
      · exact hh1 a ha
      · exact h.arrsHeld p hp' a ha
    · intro p hp
      rcases List.mem_cons.mp hp with rfl | hp'
      · exact hh2
      · exact h.arrsOfArgs p hp'
    · exact h.arrNodup
    · intro r hr
      rcases h.rootsLive r hr with h1 | h1
      · left; simp only [objIds, List.map_cons, List.mem_cons]; exact Or.inr h1
      · right; exact h1
    · intro p hp
      rcases List.mem_cons.mp hp with rfl | hp'
      · exact Nat.lt_succ_self _
      · exact Nat.lt_succ_of_lt (h.stampsLt p hp')

/-! ### `free` (the primitive reclamation step) -/

theorem not_referenced {s : St} {i : Id} (h : referenced s i = false) :
    (∀ r ∈ s.roots, r.2 ≠ i) ∧ (∀ p ∈ s.objs, i ∉ refsOf p.2.key) ∧
    (∀ p ∈ s.objs, ∀ a ∈ p.2.arrs, a.1 ≠ i) := by
  unfold referenced at h
  rw [Bool.or_eq_false_iff] at h
  obtain ⟨h1, h2⟩ := h
  rw [List.any_eq_false] at h1 h2
  refine ⟨?_, ?_, ?_⟩
  · intro r hr e
    exact h1 r hr (by simp [e])
  · intro p hp hm
    exact h2 p hp (by simp [hm])
  · intro p hp a ha e
    apply h2 p hp
    simp only [Bool.or_eq_true, List.any_eq_true, decide_eq_true_eq]
    exact Or.inr ⟨a, ha, e⟩

theorem mem_free_objs {s : St} {i : Id} {p : Id × Obj} :
    p ∈ (free s i).objs ↔ p ∈ s.objs ∧ p.1 ≠ i := by
  simp [free, List.mem_filter]

theorem free_inv {s : St} {i : Id} (h : Inv s) (hr : referenced s i = false) : Inv (free s i) := by
  obtain ⟨r1, r2, r3⟩ := not_referenced hr
  have hobjs : (free s i).objs = s.objs.filter (fun p => decide (p.1 ≠ i)) := rfl
  have hsub : ((free s i).objs).Sublist s.objs := by rw [hobjs]; exact List.filter_sublist
  have idmem : ∀ j, j ∈ objIds s → j ≠ i → j ∈ objIds (free s i) := by
    intro j hj hne
    obtain ⟨o, ho⟩ := mem_objIds.mp hj
    exact mem_objIds.mpr ⟨o, mem_free_objs.mpr ⟨ho, hne⟩⟩
  constructor
  · show s.cache.filter (fun e => decide (e.2 ≠ i)) = (s.objs.filter (fun p => decide (p.1 ≠ i))).map entryOf
    rw [h.cacheEq, List.filter_map]
    rfl
  · exact List.Nodup.sublist (List.Sublist.map _ hsub) h.idsNodup
  · exact List.Nodup.sublist (List.Sublist.map _ hsub) h.keysNodup
  · intro p hp; exact h.keyOfArgs p (mem_free_objs.mp hp).1
  · intro p hp j hj
    have hp' := (mem_free_objs.mp hp).1
    refine idmem j (h.refsLive p hp' j hj) ?_
    intro e; subst e; exact r2 p hp' hj
  · intro p hp q hq hqp
    exact h.refsOlder p (mem_free_objs.mp hp).1 q (mem_free_objs.mp hq).1 hqp
  · intro p hp a ha
    have hp' := (mem_free_objs.mp hp).1
    show a ∈ s.arrs.filter (fun a => decide (a.1 ≠ i))
    rw [List.mem_filter]
    exact ⟨h.arrsHeld p hp' a ha, by simpa using r3 p hp' a ha⟩
  · intro p hp; exact h.arrsOfArgs p (mem_free_objs.mp hp).1
  · exact List.Nodup.sublist (List.Sublist.map _ List.filter_sublist) h.arrNodup
  · intro r hr'
    have hne : r.2 ≠ i := r1 r hr'
    rcases h.rootsLive r hr' with h1 | h1
    · exact Or.inl (idmem _ h1 hne)
    · right
      simp only [arrIdsLive, List.mem_map] at h1 ⊢
      obtain ⟨a, ha, e⟩ := h1
      refine ⟨a, ?_, e⟩
      show a ∈ s.arrs.filter (fun a => decide (a.1 ≠ i))
      rw [List.mem_filter]
      exact ⟨ha, by simpa [e] using hne⟩
  · intro p hp; exact h.stampsLt p (mem_free_objs.mp hp).1

theorem reclaim_inv {s s' : St} {i : Id} (h : Inv s) (hr : reclaim s i = .ok s') : Inv s' := by
  unfold reclaim at hr
  split at hr
  · cases hr
  · rename_i hh
    simp only [Except.ok.injEq] at hr
    subst hr
    exact free_inv h (by simpa using hh)

theorem findUnref_unreferenced {s : St} {c : Bool} {i : Id} (h : findUnref s c = some i) :
    referenced s i = false := by
  unfold findUnref at h
  split at h
  · rename_i p hp
    simp only [Option.some.injEq] at h
    subst h
    have := List.find?_some hp
    simp only [Bool.and_eq_true, Bool.not_eq_true'] at this
    exact this.2
  · simp only [Option.map_eq_some_iff] at h
    obtain ⟨a, ha, e⟩ := h
    subst e
    have := List.find?_some ha
    simpa using this

theorem collect_inv (c : Bool) : ∀ (fuel : Nat) (s : St), Inv s → Inv (collect c fuel s)
  | 0, _, h => h
  | fuel + 1, s, h => by
    simp only [collect]
    split
    · rename_i i hi
      exact collect_inv c fuel _ (free_inv h (findUnref_unreferenced hi))
    · exact h

/-! ### roots -/

theorem setRoot_inv {s : St} {slot : Nat} {i : Id} (h : Inv s)
    (hi : i ∈ objIds s ∨ i ∈ arrIdsLive s) : Inv { s with roots := setRoot s.roots slot i } := by
  constructor
  · exact h.cacheEq
  · exact h.idsNodup
  · exact h.keysNodup
  · exact h.keyOfArgs
  · exact h.refsLive
  · exact h.refsOlder
  · exact h.arrsHeld
  · exact h.arrsOfArgs
  · exact h.arrNodup
  · intro r hr
    simp only [setRoot, List.mem_cons, List.mem_filter] at hr
    rcases hr with rfl | hr
    · exact hi
    · exact h.rootsLive r hr.1
  · exact h.stampsLt

theorem dropRoot_inv {s : St} {slot : Nat} (h : Inv s) :
    Inv { s with roots := s.roots.filter (fun r => r.1 ≠ slot) } := by
  constructor
  · exact h.cacheEq
  · exact h.idsNodup
  · exact h.keysNodup
  · exact h.keyOfArgs
  · exact h.refsLive
  · exact h.refsOlder
  · exact h.arrsHeld
  · exact h.arrsOfArgs
  · exact h.arrNodup
  · intro r hr
    exact h.rootsLive r (List.mem_filter.mp hr).1
  · exact h.stampsLt

/-- The object a successful `construct` returns is live afterwards. -/
theorem construct_live {s s' : St} {cls : Nat} {cyc : Bool} {args : List ArgTok} {nid r : Id}
    (h : Inv s) (hc : construct s cls cyc args nid = .ok (s', r)) : r ∈ objIds s' := by
  obtain ⟨key, held, _, _, _, hcase⟩ := construct_cases hc
  rcases hcase with ⟨hhit, rfl⟩ | ⟨_, rfl, _, _, rfl⟩
  · rw [h.cacheEq] at hhit
    obtain ⟨p, hp, e, _⟩ := lookup_some _ _ _ hhit
    exact mem_objIds.mpr ⟨p.2, by rw [← e]; exact hp⟩
  · simp [objIds]

/-! ### `rebuild` -/

theorem mapArgsM_inv (f : St → Id → Except Err (St × Id)) (remap : List (Id × Id))
    (hf : ∀ s j s' j', Inv s → f s j = .ok (s', j') → Inv s') :
    ∀ (ts : List ArgTok) (s s' : St) (ts' : List ArgTok),
      Inv s → mapArgsM f remap s ts = .ok (s', ts') → Inv s'
  | [], s, s', ts', h, hm => by
    simp only [mapArgsM, Except.ok.injEq, Prod.mk.injEq] at hm
    obtain ⟨rfl, _⟩ := hm; exact h
  | t :: ts, s, s', ts', h, hm => by
    cases t with
    | obj j =>
      simp only [mapArgsM] at hm
      split at hm
      · cases hm
      · rename_i s1 j' hfj
        split at hm
        · cases hm
        · rename_i s2 ts2 hrec
          simp only [Except.ok.injEq, Prod.mk.injEq] at hm
          obtain ⟨rfl, _⟩ := hm
          exact mapArgsM_inv f remap hf ts s1 _ _ (hf _ _ _ _ h hfj) hrec
    | arr a =>
      simp only [mapArgsM] at hm
      split at hm
      · cases hm
      · rename_i s2 ts2 hrec
        simp only [Except.ok.injEq, Prod.mk.injEq] at hm
        obtain ⟨rfl, _⟩ := hm
        exact mapArgsM_inv f remap hf ts s _ _ h hrec
    | _ =>
      simp only [mapArgsM] at hm
      split at hm
      · cases hm
      · rename_i s2 ts2 hrec
        simp only [Except.ok.injEq, Prod.mk.injEq] at hm
        obtain ⟨rfl, _⟩ := hm
        exact mapArgsM_inv f remap hf ts s _ _ h hrec

theorem rebuild_inv (remap : List (Id × Id)) :
    ∀ (fuel : Nat) (s : St) (i : Id) (s' : St) (j : Id),
      Inv s → rebuild fuel remap s i = .ok (s', j) → Inv s'
  | 0, _, _, _, _, _, hr => by simp [rebuild] at hr
  | fuel + 1, s, i, s', j, h, hr => by
    simp only [rebuild] at hr
    split at hr
    · cases hr
    · rename_i o ho
      split at hr
      · cases hr
      · rename_i s1 args' hm
        have h1 : Inv s1 :=
          mapArgsM_inv (rebuild fuel remap) remap (fun s j s' j' hs hh => rebuild_inv remap fuel s j s' j' hs hh)
            o.args s s1 args' h hm
        exact construct_inv h1 hr

/-! ### every step, every history -/

theorem step_inv {s s' : St} (op : Step) (h : Inv s) (hs : step s op = .ok s') : Inv s' := by
  cases op with
  | alloc slot id =>
    simp only [step] at hs
    split at hs
    · cases hs
    · rename_i hfresh
      simp only [not_or] at hfresh
      simp only [Except.ok.injEq] at hs
      subst hs
      constructor
      · exact h.cacheEq
      · exact h.idsNodup
      · exact h.keysNodup
      · exact h.keyOfArgs
      · exact h.refsLive
      · exact h.refsOlder
      · intro p hp a ha; exact List.mem_cons_of_mem _ (h.arrsHeld p hp a ha)
      · exact h.arrsOfArgs
      · simp only [List.map_cons, List.nodup_cons]
        exact ⟨hfresh.2, h.arrNodup⟩
      · intro r hr
        simp only [setRoot, List.mem_cons, List.mem_filter] at hr
        rcases hr with rfl | hr
        · right; simp [arrIdsLive]
        · rcases h.rootsLive r hr.1 with h1 | h1
          · exact Or.inl h1
          · right; simp only [arrIdsLive, List.map_cons, List.mem_cons]; exact Or.inr h1
      · intro p hp; exact Nat.lt_succ_of_lt (h.stampsLt p hp)
  | mk slot cls cyc args nid =>
    simp only [step] at hs
    split at hs
    · cases hs
    · rename_i s1 i hc
      simp only [Except.ok.injEq] at hs
      subst hs
      exact setRoot_inv (construct_inv h hc) (Or.inl (construct_live h hc))
  | drop slot =>
    simp only [step, Except.ok.injEq] at hs
    subst hs
    exact dropRoot_inv h
  | reclaim id => exact reclaim_inv h hs
  | sweep =>
    simp only [step, Except.ok.injEq] at hs
    subst hs
    exact collect_inv _ _ _ h
  | gc =>
    simp only [step, Except.ok.injEq] at hs
    subst hs
    exact collect_inv _ _ _ h
  | rebuild src dst remap =>
    simp only [step] at hs
    split at hs
    · cases hs
    · rename_i i hi
      split at hs
      · cases hs
      · rename_i s1 j hr
        simp only [Except.ok.injEq] at hs
        subst hs
        have h1 := rebuild_inv remap _ _ _ _ _ h hr
        refine setRoot_inv h1 (Or.inl ?_)
        -- the rebuilt object is live: the last action of `rebuild` is a `construct`
        cases hf : s.objs.length + 1 with
        | zero => omega
        | succ fuel =>
          rw [hf] at hr
          simp only [FV.C07.rebuild] at hr
          split at hr
          · cases hr
          · split at hr
            · cases hr
            · rename_i s2 args' hm
              have h2 : Inv s2 :=
                mapArgsM_inv (FV.C07.rebuild fuel remap) remap
                  (fun s j s' j' hs hh => rebuild_inv remap fuel s j s' j' hs hh) _ _ _ _ h hm
              exact construct_live h2 hr

/-- The invariant holds along every history, whatever the interleaving. -/
theorem inv_run : ∀ (ops : List Step) (s s' : St), Inv s → run s ops = .ok s' → Inv s'
  | [], s, s', h, hr => by
    simp only [run, Except.ok.injEq] at hr; subst hr; exact h
  | op :: ops, s, s', h, hr => by
    simp only [run] at hr
    split at hr
    · cases hr
    · rename_i s1 hs
      exact inv_run ops s1 s' (step_inv op h hs) hr

theorem inv_reachable (ops : List Step) (s : St) (hr : run St.init ops = .ok s) : Inv s :=
  inv_run ops _ _ inv_init hr

end FV.Props.C07
