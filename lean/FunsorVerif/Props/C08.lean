/-
  Props/C08.lean — normal forms and contraction-order optimisation preserve value (part 1).

  Everything is stated over an ARBITRARY commutative semiring `R` ((add,mul) on reals, (logaddexp,add)
  through exp, (max,add) on `WithBot`, (min,add) on `WithTop`, (max,mul)/(min,mul) on non-negatives,
  (or,and) on `Bool` are all instances), for operands, variable sets, sizes and paths of any size.

    §1  the semiring core: named finite sums — `sum1_comm`, `sum1_mul_indep`, `sum1_absent`
        (sum over an absent variable = multiplicity), their list versions `sumVars_perm`,
        `sumVars_mul_indep`, `sumVars_absent`
    §2  the optimizer (`optimize_contract_finitary_funsor`, path as a parameter): loop invariant `Inv`,
        `inv_step`, `optimize_computes_mentioned` (what the code computes for EVERY well-formed path),
        `optimize_any_path_sound` (= `⨁_reduced ⨂ terms` when `reduced ⊆ ⋃ operand inputs`, with the
        inputs law), `optimize_absent_loses_multiplicity`, `optimize_absent_var_witness`,
        `optimize_needs_cover` (the covering hypothesis cannot be dropped)
  Part 2 (rules of normalize / unfold, `normalize_idempotent_flat`) is Props/C08/Rules.lean; the
  obligations over the generated op tables are Props/C08/Tables.lean.
-/
import Mathlib.Algebra.BigOperators.Ring.Finset
import Mathlib.Algebra.BigOperators.Group.Finset.Sigma
import FunsorVerif.Model.C08
namespace FV.Props.C08
open FV.C08 Finset

set_option linter.unusedSectionVars false
set_option linter.unusedSimpArgs false
set_option linter.unnecessarySeqFocus false

variable {R : Type} [CommSemiring R]

/-- The operations of a commutative semiring as an `Ops` record. -/
def sr (R : Type) [CommSemiring R] : Ops R := ⟨(· + ·), (· * ·), 0, 1⟩

variable (size : Name → Nat)

theorem sumN_eq (k : Nat) (f : Nat → R) : sumN (sr R) k f = ∑ i ∈ range k, f i := by
  unfold sumN
  induction k with
  | zero => simp [sr]
  | succ n ih => rw [List.range_succ, List.foldl_append, ih, Finset.sum_range_succ]; simp [sr]

theorem sum1_eq (n : Name) (f : Env → R) (env : Env) :
    sum1 (sr R) size n f env = ∑ i ∈ range (size n), f (upd env n i) := by
  unfold sum1; rw [sumN_eq]

theorem prodV_eq (xs : List R) : prodV (sr R) xs = xs.prod := by
  unfold prodV; induction xs with
  | nil => simp [sr]
  | cons x xs ih => rw [List.foldr_cons, ih, List.prod_cons]; rfl

/-- `f` does not look at the variable `n`. -/
def Indep (f : Env → R) (n : Name) : Prop := ∀ env i, f (upd env n i) = f env

/-- `f` looks only at the variables in `S`. -/
def DependsOn (f : Env → R) (S : List Name) : Prop :=
  ∀ env env' : Env, (∀ n ∈ S, env n = env' n) → f env = f env'

theorem DependsOn.indep {f : Env → R} {S : List Name} (h : DependsOn f S) {n : Name} (hn : n ∉ S) :
    Indep f n := by
  intro env i
  apply h
  intro m hm
  have : m ≠ n := fun e => hn (e ▸ hm)
  simp [upd, this]

theorem upd_comm (env : Env) {n m : Name} (h : n ≠ m) (i j : Nat) :
    upd (upd env n i) m j = upd (upd env m j) n i := by
  funext k
  unfold upd
  by_cases h1 : k = m <;> by_cases h2 : k = n <;> simp [h1, h2]
  · exact absurd (h2.symm.trans h1) h
  · intro e; exact absurd e.symm h
  · intro e; exact absurd e h

theorem sum1_congr {n : Name} {f g : Env → R} (h : ∀ env, f env = g env) :
    sum1 (sr R) size n f = sum1 (sr R) size n g := by
  have : f = g := funext h
  rw [this]

/-- **sum1_comm**: sums over two different variables commute. -/
theorem sum1_comm {n m : Name} (h : n ≠ m) (f : Env → R) :
    sum1 (sr R) size n (sum1 (sr R) size m f) = sum1 (sr R) size m (sum1 (sr R) size n f) := by
  funext env
  simp only [sum1_eq]
  rw [Finset.sum_comm]
  refine Finset.sum_congr rfl fun j _ => Finset.sum_congr rfl fun i _ => ?_
  rw [upd_comm env h]

/-- **sum1_mul_indep**: a factor that does not mention the variable moves out of the sum. -/
theorem sum1_mul_indep {n : Name} (f g : Env → R) (hg : Indep g n) :
    sum1 (sr R) size n (fun env => f env * g env) = fun env => sum1 (sr R) size n f env * g env := by
  funext env
  simp only [sum1_eq]
  rw [Finset.sum_mul]
  refine Finset.sum_congr rfl fun i _ => ?_
  rw [hg env i]

/-- **sum over an absent variable = multiplicity**. -/
theorem sum1_absent {n : Name} (f : Env → R) (hf : Indep f n) :
    sum1 (sr R) size n f = fun env => (size n : R) * f env := by
  funext env
  simp only [sum1_eq]
  rw [Finset.sum_congr rfl (fun i _ => hf env i), Finset.sum_const, Finset.card_range, nsmul_eq_mul]

theorem sum1_add {n : Name} (f g : Env → R) :
    sum1 (sr R) size n (fun env => f env + g env)
      = fun env => sum1 (sr R) size n f env + sum1 (sr R) size n g env := by
  funext env
  simp only [sum1_eq, Finset.sum_add_distrib]

/-! ## sums over lists of variables -/

theorem sumVars_congr {vs : List Name} {f g : Env → R} (h : ∀ env, f env = g env) :
    sumVars (sr R) size vs f = sumVars (sr R) size vs g := by
  have : f = g := funext h
  rw [this]

theorem sumVars_append (a b : List Name) (f : Env → R) :
    sumVars (sr R) size (a ++ b) f = sumVars (sr R) size a (sumVars (sr R) size b f) := by
  induction a with
  | nil => rfl
  | cons n a ih => simp only [List.cons_append, sumVars, ih]

theorem sum1_sumVars_comm {n : Name} {vs : List Name} (h : n ∉ vs) (f : Env → R) :
    sum1 (sr R) size n (sumVars (sr R) size vs f) = sumVars (sr R) size vs (sum1 (sr R) size n f) := by
  induction vs with
  | nil => rfl
  | cons m vs ih =>
    have hm : n ≠ m := fun e => h (e ▸ List.mem_cons_self)
    have hvs : n ∉ vs := fun e => h (List.mem_cons_of_mem _ e)
    simp only [sumVars]
    rw [sum1_comm size hm, ih hvs]

/-- The sum over a duplicate-free list of variables does not depend on their order. -/
theorem sumVars_perm {a b : List Name} (h : a.Perm b) (ha : a.Nodup) (f : Env → R) :
    sumVars (sr R) size a f = sumVars (sr R) size b f := by
  induction h with
  | nil => rfl
  | cons x _ ih => simp only [sumVars]; rw [ih (List.nodup_cons.mp ha).2]
  | swap x y l =>
    simp only [sumVars]
    have hxy : y ≠ x := by
      intro e
      have := (List.nodup_cons.mp ha).1
      exact this (e ▸ List.mem_cons_self)
    rw [sum1_comm size hxy]
  | trans h1 _ ih1 ih2 => rw [ih1 ha, ih2 ((List.Perm.nodup_iff h1).mp ha)]

/-- A factor mentioning none of the variables moves out of the whole sum. -/
theorem sumVars_mul_indep {vs : List Name} (f g : Env → R) (hg : ∀ d ∈ vs, Indep g d) :
    sumVars (sr R) size vs (fun env => f env * g env)
      = fun env => sumVars (sr R) size vs f env * g env := by
  induction vs with
  | nil => rfl
  | cons n vs ih =>
    simp only [sumVars]
    rw [ih (fun d hd => hg d (List.mem_cons_of_mem _ hd))]
    exact sum1_mul_indep size _ g (hg n List.mem_cons_self)

/-- Summing over variables the summand does not mention multiplies by their multiplicity. -/
theorem sumVars_absent {vs : List Name} (f : Env → R) (hf : ∀ d ∈ vs, Indep f d) :
    sumVars (sr R) size vs f = fun env => (multiplicity size vs : R) * f env := by
  induction vs with
  | nil => funext env; simp [sumVars, multiplicity]
  | cons n vs ih =>
    simp only [sumVars]
    rw [ih (fun d hd => hf d (List.mem_cons_of_mem _ hd))]
    have hind : Indep (fun env => (multiplicity size vs : R) * f env) n := by
      intro env i; simp only; rw [hf n List.mem_cons_self env i]
    rw [sum1_absent size _ hind]
    funext env
    simp only [multiplicity, List.map_cons, List.foldr_cons, Nat.cast_mul, mul_assoc]

theorem sum1_dependsOn {n : Name} {f : Env → R} {S : List Name} (h : DependsOn f S) :
    DependsOn (sum1 (sr R) size n f) (S.filter (· ≠ n)) := by
  intro env env' hag
  simp only [sum1_eq]
  refine Finset.sum_congr rfl fun i _ => h _ _ ?_
  intro m hm
  by_cases e : m = n
  · simp [upd, e]
  · simp only [upd, e, if_false]
    exact hag m (List.mem_filter.mpr ⟨hm, by simpa using e⟩)

theorem sumVars_dependsOn {vs : List Name} {f : Env → R} {S : List Name} (h : DependsOn f S) :
    DependsOn (sumVars (sr R) size vs f) (lDiff S vs) := by
  induction vs generalizing S with
  | nil =>
    intro env env' hag
    exact h env env' (fun n hn => hag n (by simp [lDiff, hn]))
  | cons n vs ih =>
    simp only [sumVars]
    have h1 := sum1_dependsOn size (n := n) (ih h)
    intro env env' hag
    apply h1
    intro m hm
    apply hag
    simp only [lDiff, List.mem_filter, decide_eq_true_eq, List.mem_cons, not_or] at hm ⊢
    exact ⟨hm.1.1, by simpa using hm.2, hm.1.2⟩

/-! ## products of operands -/

theorem prodL_cons (f : Env → R) (fs : List (Env → R)) (env : Env) :
    prodL (sr R) (f :: fs) env = f env * prodL (sr R) fs env := rfl

theorem prodL_nil (env : Env) : prodL (sr R) [] env = 1 := rfl

theorem prodL_append (fs gs : List (Env → R)) (env : Env) :
    prodL (sr R) (fs ++ gs) env = prodL (sr R) fs env * prodL (sr R) gs env := by
  induction fs with
  | nil => simp [prodL_nil]
  | cons f fs ih => simp only [List.cons_append, prodL_cons, ih, mul_assoc]

theorem prodL_perm {fs gs : List (Env → R)} (h : fs.Perm gs) (env : Env) :
    prodL (sr R) fs env = prodL (sr R) gs env := by
  unfold prodL
  rw [prodV_eq, prodV_eq]
  exact (h.map _).prod_eq

/-! ## the optimizer: loop invariant and soundness for every path -/

theorem popAt_perm {τ : Type} : ∀ (l : List τ) (i : Nat) (x : τ) (r : List τ),
    popAt l i = some (x, r) → l.Perm (x :: r)
  | [], _, _, _, h => by simp [popAt] at h
  | y :: ys, 0, x, r, h => by
    simp only [popAt, Option.some.injEq, Prod.mk.injEq] at h
    rw [h.1, h.2]
  | y :: ys, i + 1, x, r, h => by
    simp only [popAt, Option.map_eq_some_iff] at h
    obtain ⟨⟨x', r'⟩, h1, h2⟩ := h
    simp only [Prod.mk.injEq] at h2
    have ih := popAt_perm ys i x' r' h1
    rw [← h2.1, ← h2.2]
    exact (List.Perm.cons y ih).trans (List.Perm.swap x' y r')

/-- The number of operands whose inputs mention `d`. -/
def cnt (ops : List (Operand R)) (d : Name) : Int := ((ops.filter (fun t => d ∈ t.ins)).length : Int)

/-- Some operand mentions `d`. -/
def mentioned (ops : List (Operand R)) (d : Name) : Bool := ops.any (fun t => d ∈ t.ins)

/-- An operand's value looks only at its declared inputs. -/
def WFop (t : Operand R) : Prop := DependsOn t.sem t.ins

theorem cnt_nil (d : Name) : cnt ([] : List (Operand R)) d = 0 := rfl

theorem cnt_cons (t : Operand R) (ops : List (Operand R)) (d : Name) :
    cnt (t :: ops) d = (if d ∈ t.ins then 1 else 0) + cnt ops d := by
  unfold cnt
  by_cases h : d ∈ t.ins <;> simp [List.filter_cons, h] <;> omega

theorem cnt_append (a b : List (Operand R)) (d : Name) : cnt (a ++ b) d = cnt a d + cnt b d := by
  unfold cnt; simp [List.filter_append]

theorem cnt_perm {a b : List (Operand R)} (h : a.Perm b) (d : Name) : cnt a d = cnt b d := by
  unfold cnt; rw [(h.filter _).length_eq]

theorem cnt_nonneg (a : List (Operand R)) (d : Name) : 0 ≤ cnt a d := by unfold cnt; omega

theorem cnt_eq_zero_iff (a : List (Operand R)) (d : Name) : cnt a d = 0 ↔ mentioned a d = false := by
  induction a with
  | nil => simp [cnt_nil, mentioned]
  | cons t a ih =>
    rw [cnt_cons]
    have := cnt_nonneg a d
    by_cases h : d ∈ t.ins
    · simp [h, mentioned]; omega
    · simp only [h, if_false, zero_add, ih, mentioned, List.any_cons, decide_false, Bool.false_or]

theorem mentioned_cons (t : Operand R) (a : List (Operand R)) (d : Name) :
    mentioned (t :: a) d = (decide (d ∈ t.ins) || mentioned a d) := rfl

theorem mentioned_perm {a b : List (Operand R)} (h : a.Perm b) (d : Name) :
    mentioned a d = mentioned b d := by
  have h1 := cnt_eq_zero_iff a d
  have h2 := cnt_eq_zero_iff b d
  rw [cnt_perm h d] at h1
  cases ha : mentioned a d <;> cases hb : mentioned b d <;> simp_all

theorem mem_lUnion {a b : List Name} {d : Name} : d ∈ lUnion a b ↔ d ∈ a ∨ d ∈ b := by
  unfold lUnion
  simp only [List.mem_append, List.mem_filter, decide_eq_true_eq]
  constructor
  · rintro (h | h); exact Or.inl h; exact Or.inr h.1
  · rintro (h | h)
    · exact Or.inl h
    · by_cases ha : d ∈ a
      · exact Or.inl ha
      · exact Or.inr ⟨h, ha⟩

theorem mem_lInter {a b : List Name} {d : Name} : d ∈ lInter a b ↔ d ∈ a ∧ d ∈ b := by
  unfold lInter; simp

theorem mem_lDiff {a b : List Name} {d : Name} : d ∈ lDiff a b ↔ d ∈ a ∧ d ∉ b := by
  unfold lDiff; simp

/-- The loop invariant of `optimize_contract_finitary_funsor`, relative to the value `target`:
    (1) for EVERY reduced variable the counter is the number of operands mentioning it (0 for the
        variables already summed — and for a variable no operand ever mentioned);
    (2) every operand's value looks only at its inputs;
    (3) summing the operands' product over the reduced variables that are still mentioned gives `target`. -/
structure Inv (reduced : List Name) (target : Env → R) (st : OptState R) : Prop where
  cnt_ok : ∀ d ∈ reduced, st.counter d = cnt st.operands d
  wf : ∀ t ∈ st.operands, WFop t
  val : sumVars (sr R) size (reduced.filter (fun d => mentioned st.operands d))
          (prodL (sr R) (st.operands.map (·.sem))) = target

theorem inv_init (reduced : List Name) (terms : List (Operand R)) (hwf : ∀ t ∈ terms, WFop t) :
    Inv size reduced
      (sumVars (sr R) size (reduced.filter (fun d => mentioned terms d)) (prodL (sr R) (terms.map (·.sem))))
      { operands := terms, counter := initCounter terms } :=
  ⟨fun _ _ => rfl, hwf, rfl⟩

/-- **One iteration preserves the invariant** — for any pair of positions. -/
theorem inv_step {reduced : List Name} (hnd : reduced.Nodup) {target : Env → R} {st st' : OptState R}
    {a b : Nat} {tr : StepTrace} (hinv : Inv size reduced target st)
    (hstep : optStep (sr R) size reduced st a b = some (st', tr)) : Inv size reduced target st' := by
  unfold optStep at hstep
  simp only at hstep
  split at hstep
  · exact absurd hstep (by simp)
  split at hstep
  · exact absurd hstep (by simp)
  rename_i tb ops1 hpop1
  split at hstep
  · exact absurd hstep (by simp)
  rename_i ta rest hpop2
  simp only [Option.some.injEq, Prod.mk.injEq] at hstep
  obtain ⟨hst', _⟩ := hstep
  have hperm : st.operands.Perm (tb :: ta :: rest) :=
    (popAt_perm _ _ _ _ hpop1).trans (List.Perm.cons tb (popAt_perm _ _ _ _ hpop2))
  -- abbreviations
  generalize hc2 : cSub (cSub st.counter (lInter reduced ta.ins)) (lInter reduced tb.ins) = c2 at hst'
  generalize hboth : lUnion ta.ins tb.ins = both at hst'
  generalize hpev : (lInter reduced both).filter (fun d => c2 d = 0) = pev at hst'
  have hc2v : ∀ d ∈ reduced, c2 d = cnt rest d := by
    intro d hd
    have h1 := hinv.cnt_ok d hd
    rw [cnt_perm hperm, cnt_cons, cnt_cons] at h1
    rw [← hc2]
    unfold cSub
    simp only [mem_lInter, hd, true_and]
    by_cases ha : d ∈ ta.ins <;> by_cases hb : d ∈ tb.ins <;> simp [ha, hb] at h1 ⊢ <;> omega
  have hpevmem : ∀ d, d ∈ pev ↔ d ∈ reduced ∧ d ∈ both ∧ mentioned rest d = false := by
    intro d
    rw [← hpev]
    simp only [List.mem_filter, mem_lInter, decide_eq_true_eq]
    constructor
    · rintro ⟨⟨h1, h2⟩, h3⟩
      rw [hc2v d h1, cnt_eq_zero_iff] at h3
      exact ⟨h1, h2, h3⟩
    · rintro ⟨h1, h2, h3⟩
      refine ⟨⟨h1, h2⟩, ?_⟩
      rw [hc2v d h1, cnt_eq_zero_iff]; exact h3
  have hbothmem : ∀ d, d ∈ both ↔ d ∈ ta.ins ∨ d ∈ tb.ins := by
    intro d; rw [← hboth]; exact mem_lUnion
  -- the new operand
  let pe : Operand R :=
    { ins := lDiff both pev
      sem := sumVars (sr R) size pev (fun env => (sr R).mul (ta.sem env) (tb.sem env)) }
  have hst'' : st' = { operands := rest ++ [pe], counter := cAdd c2 (lInter reduced (lDiff both pev)) } :=
    hst'.symm
  have hwfa : WFop ta := hinv.wf ta (hperm.mem_iff.mpr (by simp))
  have hwfb : WFop tb := hinv.wf tb (hperm.mem_iff.mpr (by simp))
  have hwfrest : ∀ t ∈ rest, WFop t := fun t ht => hinv.wf t (hperm.mem_iff.mpr (by simp [ht]))
  have hwfpe : WFop pe := by
    unfold WFop
    apply sumVars_dependsOn
    intro env env' hag
    show ta.sem env * tb.sem env = ta.sem env' * tb.sem env'
    rw [hwfa env env' (fun n hn => hag n ((hbothmem n).mpr (Or.inl hn))),
        hwfb env env' (fun n hn => hag n ((hbothmem n).mpr (Or.inr hn)))]
  have hpemem : ∀ d ∈ reduced, (d ∈ pe.ins ↔ d ∈ both ∧ mentioned rest d = true) := by
    intro d hd
    show d ∈ lDiff both pev ↔ _
    rw [mem_lDiff, hpevmem]
    constructor
    · rintro ⟨h1, h2⟩
      refine ⟨h1, ?_⟩
      cases hm : mentioned rest d
      · exact absurd ⟨hd, h1, hm⟩ h2
      · rfl
    · rintro ⟨h1, h2⟩
      exact ⟨h1, fun h => by rw [h.2.2] at h2; exact Bool.noConfusion h2⟩
  have hmnew : ∀ d ∈ reduced, mentioned (rest ++ [pe]) d = mentioned rest d := by
    intro d hd
    have h := hpemem d hd
    unfold mentioned at h ⊢
    rw [List.any_append]
    simp only [List.any_cons, List.any_nil, Bool.or_false]
    cases hm : rest.any (fun t => decide (d ∈ t.ins))
    · simp only [Bool.false_or, decide_eq_false_iff_not]
      rw [h, hm]; simp
    · simp
  have hmold : ∀ d, mentioned st.operands d = (decide (d ∈ both) || mentioned rest d) := by
    intro d
    rw [mentioned_perm hperm, mentioned_cons, mentioned_cons]
    by_cases ha : d ∈ ta.ins <;> by_cases hb : d ∈ tb.ins <;> simp [ha, hb, hbothmem]
  subst hst''
  refine ⟨?_, ?_, ?_⟩
  · -- counters
    intro d hd
    show cAdd c2 (lInter reduced (lDiff both pev)) d = cnt (rest ++ [pe]) d
    rw [cnt_append, cnt_cons, cnt_nil]
    unfold cAdd
    simp only [mem_lInter, hd, true_and]
    have hc := hc2v d hd
    have hmem : d ∈ lDiff both pev ↔ d ∈ pe.ins := Iff.rfl
    by_cases h : d ∈ pe.ins
    · simp [hmem.mpr h, h]; omega
    · simp [show ¬ d ∈ lDiff both pev from h, h]; omega
  · -- well-formedness
    intro t ht
    rcases List.mem_append.mp ht with h | h
    · exact hwfrest t h
    · rw [List.mem_singleton.mp h]; exact hwfpe
  · -- value
    rw [← hinv.val]
    show sumVars (sr R) size (reduced.filter (fun d => mentioned (rest ++ [pe]) d))
        (prodL (sr R) ((rest ++ [pe]).map (·.sem))) = _
    have hM' : reduced.filter (fun d => mentioned (rest ++ [pe]) d)
        = reduced.filter (fun d => mentioned rest d) :=
      List.filter_congr (fun d hd => hmnew d hd)
    rw [hM']
    have hM : reduced.filter (fun d => mentioned st.operands d)
        = reduced.filter (fun d => decide (d ∈ both) || mentioned rest d) :=
      List.filter_congr (fun d _ => hmold d)
    rw [hM]
    -- split the old variable list into the ones summed now and the ones kept
    have hsplit : (reduced.filter (fun d => decide (d ∈ both) || mentioned rest d)).Perm
        (reduced.filter (fun d => mentioned rest d) ++ pev) := by
      have h1 := List.filter_append_perm (fun d => mentioned rest d)
        (reduced.filter (fun d => decide (d ∈ both) || mentioned rest d))
      rw [List.filter_filter, List.filter_filter] at h1
      have e1 : reduced.filter (fun d => mentioned rest d && (decide (d ∈ both) || mentioned rest d))
          = reduced.filter (fun d => mentioned rest d) :=
        List.filter_congr (fun d _ => by cases mentioned rest d <;> simp)
      have e2 : reduced.filter (fun d => (!mentioned rest d) && (decide (d ∈ both) || mentioned rest d))
          = pev := by
        rw [← hpev]
        unfold lInter
        rw [List.filter_filter]
        apply List.filter_congr
        intro d hd
        have := hc2v d hd
        have hz := cnt_eq_zero_iff rest d
        by_cases hb : d ∈ both <;> cases hm : mentioned rest d <;> simp [hb, hm, this] <;>
          simp [hm] at hz <;> omega
      rw [e1, e2] at h1
      exact h1.symm
    have hndM : (reduced.filter (fun d => decide (d ∈ both) || mentioned rest d)).Nodup :=
      hnd.filter _
    rw [sumVars_perm size hsplit hndM, sumVars_append]
    apply sumVars_congr
    intro env
    -- the inner sum: the operands not touched move out
    have hprod : ∀ env, prodL (sr R) (st.operands.map (·.sem)) env
        = (ta.sem env * tb.sem env) * prodL (sr R) (rest.map (·.sem)) env := by
      intro env
      rw [prodL_perm (hperm.map _) env]
      simp only [List.map_cons, prodL_cons]
      rw [← mul_assoc, mul_comm (tb.sem env)]
    have hindep : ∀ d ∈ pev, Indep (prodL (sr R) (rest.map (·.sem))) d := by
      intro d hd
      have hdm := ((hpevmem d).mp hd).2.2
      have hdep : DependsOn (prodL (sr R) (rest.map (·.sem))) (rest.flatMap (·.ins)) := by
        intro e e' hag
        unfold prodL
        congr 1
        simp only [List.map_map]
        apply List.map_congr_left
        intro t ht
        exact hwfrest t ht e e' (fun n hn => hag n (List.mem_flatMap.mpr ⟨t, ht, hn⟩))
      apply hdep.indep
      intro hmem
      obtain ⟨t, ht, hn⟩ := List.mem_flatMap.mp hmem
      have : mentioned rest d = true := by
        unfold mentioned
        exact List.any_eq_true.mpr ⟨t, ht, by simpa using hn⟩
      rw [hdm] at this
      exact Bool.noConfusion this
    have hfun : prodL (sr R) (st.operands.map (·.sem))
        = fun env => (ta.sem env * tb.sem env) * prodL (sr R) (rest.map (·.sem)) env := funext hprod
    rw [hfun, sumVars_mul_indep size _ _ hindep]
    simp only [List.map_append, List.map_cons, List.map_nil]
    rw [prodL_append, prodL_cons, prodL_nil, mul_one, mul_comm]
    rfl

theorem optStep_length {reduced : List Name} {st st' : OptState R} {a b : Nat} {tr : StepTrace}
    (hstep : optStep (sr R) size reduced st a b = some (st', tr)) :
    st'.operands.length + 1 = st.operands.length := by
  unfold optStep at hstep
  simp only at hstep
  split at hstep
  · exact absurd hstep (by simp)
  split at hstep
  · exact absurd hstep (by simp)
  rename_i tb ops1 hpop1
  split at hstep
  · exact absurd hstep (by simp)
  rename_i ta rest hpop2
  simp only [Option.some.injEq, Prod.mk.injEq] at hstep
  have h1 := (popAt_perm _ _ _ _ hpop1).length_eq
  have h2 := (popAt_perm _ _ _ _ hpop2).length_eq
  rw [← hstep.1]
  simp only [List.length_append, List.length_cons, List.length_nil] at h1 h2 ⊢
  omega

/-- Every operand's inputs stay inside `U` and outside the reduced variables no longer mentioned. -/
theorem optStep_ins {reduced : List Name} {U : List Name} {st st' : OptState R} {a b : Nat} {tr : StepTrace}
    (hU : ∀ t ∈ st.operands, ∀ n ∈ t.ins, n ∈ U)
    (hstep : optStep (sr R) size reduced st a b = some (st', tr)) :
    ∀ t ∈ st'.operands, ∀ n ∈ t.ins, n ∈ U := by
  unfold optStep at hstep
  simp only at hstep
  split at hstep
  · exact absurd hstep (by simp)
  split at hstep
  · exact absurd hstep (by simp)
  rename_i tb ops1 hpop1
  split at hstep
  · exact absurd hstep (by simp)
  rename_i ta rest hpop2
  simp only [Option.some.injEq, Prod.mk.injEq] at hstep
  have hperm : st.operands.Perm (tb :: ta :: rest) :=
    (popAt_perm _ _ _ _ hpop1).trans (List.Perm.cons tb (popAt_perm _ _ _ _ hpop2))
  rw [← hstep.1]
  intro t ht n hn
  rcases List.mem_append.mp ht with h | h
  · exact hU t (hperm.mem_iff.mpr (by simp [h])) n hn
  · rw [List.mem_singleton.mp h] at hn
    have := (mem_lDiff.mp hn).1
    rcases mem_lUnion.mp this with h1 | h1
    · exact hU ta (hperm.mem_iff.mpr (by simp)) n h1
    · exact hU tb (hperm.mem_iff.mpr (by simp)) n h1

theorem inv_loop {reduced : List Name} (hnd : reduced.Nodup) {target : Env → R} {U : List Name} :
    ∀ (path : List (Nat × Nat)) (st st' : OptState R) (trs : List StepTrace),
      Inv size reduced target st → (∀ t ∈ st.operands, ∀ n ∈ t.ins, n ∈ U) →
      optLoop (sr R) size reduced st path = some (st', trs) →
      Inv size reduced target st' ∧ (∀ t ∈ st'.operands, ∀ n ∈ t.ins, n ∈ U) ∧
        st'.operands.length + path.length = st.operands.length
  | [], st, st', trs, hinv, hU, h => by
    simp only [optLoop, Option.some.injEq, Prod.mk.injEq] at h
    rw [← h.1]; exact ⟨hinv, hU, rfl⟩
  | (a, b) :: rest, st, st', trs, hinv, hU, h => by
    simp only [optLoop] at h
    split at h
    · exact absurd h (by simp)
    rename_i st1 tr hstep
    simp only [Option.map_eq_some_iff] at h
    obtain ⟨⟨s, trs'⟩, hl, he⟩ := h
    simp only [Prod.mk.injEq] at he
    have ih := inv_loop hnd rest st1 s trs' (inv_step size hnd hinv hstep) (optStep_ins size hU hstep) hl
    have hlen := optStep_length size hstep
    rw [← he.1]
    refine ⟨ih.1, ih.2.1, ?_⟩
    simp only [List.length_cons]
    omega

/-- The union of the operands' inputs. -/
def allIns (terms : List (Operand R)) : List Name := terms.flatMap (·.ins)

/-- **What the optimizer computes, for EVERY path**: the contraction over the reduced variables that
    at least one operand mentions — and only those.  `path.length + 1 = terms.length` says the path
    contracts everything into one operand (each step pops two operands and pushes one). -/
theorem optimize_computes_mentioned {reduced : List Name} (hnd : reduced.Nodup)
    {terms : List (Operand R)} (hwf : ∀ t ∈ terms, WFop t) {path : List (Nat × Nat)}
    (hlen : path.length + 1 = terms.length)
    {res : Operand R} {trs : List StepTrace} {fin : List Name}
    (h : optimize (sr R) size reduced terms path = some (res, trs, fin)) :
    res.sem = sumVars (sr R) size (reduced.filter (fun d => mentioned terms d))
                (prodL (sr R) (terms.map (·.sem)))
    ∧ WFop res ∧ (∀ n ∈ res.ins, n ∈ allIns terms ∧ n ∉ reduced) := by
  unfold optimize at h
  split at h
  · exact absurd h (by simp)
  split at h
  · exact absurd h (by simp)
  rename_i st trs' hloop
  have hU0 : ∀ t ∈ terms, ∀ n ∈ t.ins, n ∈ allIns terms :=
    fun t ht n hn => List.mem_flatMap.mpr ⟨t, ht, hn⟩
  obtain ⟨hinv, hU, hl⟩ := inv_loop size hnd path _ st trs' (inv_init size reduced terms hwf) hU0 hloop
  simp only at hl
  have hone : st.operands.length = 1 := by omega
  obtain ⟨x, hx⟩ := List.length_eq_one_iff.mp hone
  rw [hx] at h
  simp only [List.getLast?_singleton, Option.some.injEq, Prod.mk.injEq] at h
  obtain ⟨hres, _, hfin⟩ := h
  have hfinEq : finalVars reduced st.counter = reduced.filter (fun d => mentioned st.operands d) := by
    unfold finalVars
    apply List.filter_congr
    intro d hd
    rw [hinv.cnt_ok d hd, hx, cnt_cons, cnt_nil]
    by_cases hm : d ∈ x.ins <;> simp [hm, mentioned]
  have hval := hinv.val
  rw [hx] at hval hfinEq
  have hwfx : WFop x := hinv.wf x (by rw [hx]; simp)
  rw [← hres]
  refine ⟨?_, ?_, ?_⟩
  · show sumVars (sr R) size (finalVars reduced st.counter) x.sem = _
    rw [hfinEq, ← hval]
    apply sumVars_congr
    intro env
    simp [prodL_cons, prodL_nil]
  · exact sumVars_dependsOn size hwfx
  · intro n hn
    have hn' : n ∈ lDiff x.ins (finalVars reduced st.counter) := hn
    rw [mem_lDiff, hfinEq] at hn'
    refine ⟨hU x (by rw [hx]; simp) n hn'.1, ?_⟩
    intro hr
    apply hn'.2
    exact List.mem_filter.mpr ⟨hr, by simp [mentioned, hn'.1]⟩

/-- **optimize_any_path_sound**: if every reduced variable occurs in at least one operand
    (`reduced ⊆ ⋃ operand inputs`), then for EVERY well-formed contraction path the optimizer's
    re-bracketed contraction equals `⨁_reduced ⨂ terms`, looks only at its declared inputs, and its
    inputs are inputs of the naive contraction. -/
theorem optimize_any_path_sound {reduced : List Name} (hnd : reduced.Nodup)
    {terms : List (Operand R)} (hwf : ∀ t ∈ terms, WFop t)
    (hcover : ∀ d ∈ reduced, d ∈ allIns terms)
    {path : List (Nat × Nat)} (hlen : path.length + 1 = terms.length)
    {res : Operand R} {trs : List StepTrace} {fin : List Name}
    (h : optimize (sr R) size reduced terms path = some (res, trs, fin)) :
    res.sem = contractSpec (sr R) size reduced terms
    ∧ WFop res ∧ (∀ n ∈ res.ins, n ∈ allIns terms ∧ n ∉ reduced) := by
  obtain ⟨h1, h2, h3⟩ := optimize_computes_mentioned size hnd hwf hlen h
  refine ⟨?_, h2, h3⟩
  rw [h1]
  unfold contractSpec
  congr 1
  apply List.filter_eq_self.mpr
  intro d hd
  obtain ⟨t, ht, hn⟩ := List.mem_flatMap.mp (hcover d hd)
  exact List.any_eq_true.mpr ⟨t, ht, by simpa using hn⟩

/-- What is lost without the covering hypothesis, in general: the multiplicity of the reduced
    variables that no operand mentions. -/
theorem optimize_absent_loses_multiplicity {reduced : List Name} (hnd : reduced.Nodup)
    {terms : List (Operand R)} (hwf : ∀ t ∈ terms, WFop t)
    {path : List (Nat × Nat)} (hlen : path.length + 1 = terms.length)
    {res : Operand R} {trs : List StepTrace} {fin : List Name}
    (h : optimize (sr R) size reduced terms path = some (res, trs, fin)) (env : Env) :
    contractSpec (sr R) size reduced terms env
      = (multiplicity size (reduced.filter (fun d => !mentioned terms d)) : R) * res.sem env := by
  obtain ⟨h1, _, _⟩ := optimize_computes_mentioned size hnd hwf hlen h
  rw [h1]
  unfold contractSpec
  have hp := (List.filter_append_perm (fun d => !mentioned terms d) reduced)
  rw [← sumVars_perm size hp (by exact (hp.nodup_iff).mpr hnd), sumVars_append]
  have e : reduced.filter (fun d => !(!mentioned terms d)) = reduced.filter (fun d => mentioned terms d) :=
    List.filter_congr (fun d _ => by simp)
  rw [e]
  have hdep : DependsOn (prodL (sr R) (terms.map (·.sem))) (allIns terms) := by
    intro e1 e2 hag
    unfold prodL
    congr 1
    simp only [List.map_map]
    apply List.map_congr_left
    intro t ht
    exact hwf t ht e1 e2 (fun n hn => hag n (List.mem_flatMap.mpr ⟨t, ht, hn⟩))
  have hdep2 := sumVars_dependsOn size (vs := reduced.filter (fun d => mentioned terms d)) hdep
  rw [sumVars_absent size]
  intro d hd
  apply hdep2.indep
  intro hmem
  have hm := (List.mem_filter.mp hd).2
  have := (mem_lDiff.mp hmem).1
  obtain ⟨t, ht, hn⟩ := List.mem_flatMap.mp this
  have : mentioned terms d = true := List.any_eq_true.mpr ⟨t, ht, by simpa using hn⟩
  simp [this] at hm

/-! ## non-vacuity and the absent-variable witness -/

section Witness

/-- sizes: `i` has 3 values, `j` 2, `k` 4. -/
def wSize : Name → Nat := fun n => if n = "i" then 3 else if n = "j" then 2 else if n = "k" then 4 else 1

/-- `f(i) = i + 1`, `g(j) = 9 j + 1` (the tensors `[1,2,3]` and `[1,10]` of the reproduction), `h(i,j) = i + j`. -/
def wF : Operand Nat := ⟨["i"], fun env => env "i" + 1⟩
def wG : Operand Nat := ⟨["j"], fun env => 9 * env "j" + 1⟩
def wH : Operand Nat := ⟨["i", "j"], fun env => env "i" + env "j"⟩

theorem wF_wf : WFop wF := fun env env' h => by simp [wF, h "i" (by simp [wF])]
theorem wG_wf : WFop wG := fun env env' h => by simp [wG, h "j" (by simp [wG])]
theorem wH_wf : WFop wH := fun env env' h => by
  simp [wH, h "i" (by simp [wH]), h "j" (by simp [wH])]

/-- The hypotheses of `optimize_any_path_sound` are satisfiable: three operands, `i` reduced and
    mentioned by two of them, two different complete paths, both accepted by the model. -/
example : (optimize (sr Nat) wSize ["i"] [wF, wG, wH] [(0, 2), (0, 1)]).isSome = true
    ∧ (optimize (sr Nat) wSize ["i"] [wF, wG, wH] [(1, 2), (1, 0)]).isSome = true
    ∧ (∀ d ∈ ["i"], d ∈ allIns [wF, wG, wH]) ∧ (["i"] : List Name).Nodup := by
  refine ⟨by decide, by decide, by decide, by decide⟩

/-- **optimize_absent_var_witness**: `Contraction(add, mul, {k, i}, f(i), g(j))` with `k` (size 4)
    in no operand: the optimizer model returns `6·g`, the specification is `24·g`
    (finding KF-contraction-absent-var; the eager Contraction rules share it). -/
theorem optimize_absent_var_witness :
    ∃ res trs fin, optimize (sr Nat) wSize ["k", "i"] [wF, wG] [(0, 1)] = some (res, trs, fin)
      ∧ res.sem (fun _ => 0) = 6 ∧ contractSpec (sr Nat) wSize ["k", "i"] [wF, wG] (fun _ => 0) = 24 :=
  ⟨_, _, _, rfl, by decide, by decide⟩

/-- Without the covering hypothesis the soundness statement is false. -/
theorem optimize_needs_cover :
    ¬ (∀ (reduced : List Name) (terms : List (Operand Nat)) (path : List (Nat × Nat))
        (res : Operand Nat) (trs : List StepTrace) (fin : List Name),
        reduced.Nodup → (∀ t ∈ terms, WFop t) → path.length + 1 = terms.length →
        optimize (sr Nat) wSize reduced terms path = some (res, trs, fin) →
        res.sem = contractSpec (sr Nat) wSize reduced terms) := by
  intro hall
  obtain ⟨res, trs, fin, h, h6, h24⟩ := optimize_absent_var_witness
  have := hall ["k", "i"] [wF, wG] [(0, 1)] res trs fin (by decide)
    (by intro t ht; simp at ht; rcases ht with rfl | rfl; exact wF_wf; exact wG_wf) rfl h
  rw [this] at h6
  omega

end Witness

end FV.Props.C08
