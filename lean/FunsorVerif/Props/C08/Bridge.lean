/-
  Props/C08/Bridge.lean — the bridge between the model's `Ex.eval` and the SHARED specification
  `denote : Term → Env → Option Sem` (Model/Term.lean), on the sum-product fragment, over ℚ — the
  commutative semiring (add, mul) on the finite values of XR.

    Val o q            `o` is a defined scalar with the finite value `q`
    Rep size S L env   the list environment `L` represents the assignment `env` on the names `S`
                       (each within its size)
    Denotes size S t f `denote t L` is the finite scalar `f env` whenever `L` represents `env` on `S`
    denotes_num / denotes_tensor / denotes_binary                     leaves and ⊕ / ⊗ of two terms
    assignments_sum    the heart: `assignments vars` + `mapM` + `Sem.foldList` = the nested named sum
    denotes_contraction / denotes_product / denotes_reduction         the four admissible operator pairs
    bridge             `ExB` (sum-product syntax with wire-term leaves): `denote e.toTerm = e.toEx.eval`
    denote_norm, denote_optimize    `norm_sound` and `optimize_any_path_sound` as statements about `denote`
  Not covered: the other carriers ((max,add), … need XR's order operations on ±∞; the semiring laws fail
  on NaN / ∞−∞ so the embedding must stay on finite values), `Subs` / `Unary` nodes.
-/
import FunsorVerif.Props.C08.Closure
import FunsorVerif.Model.Term

set_option linter.unusedSimpArgs false
set_option linter.unusedVariables false
namespace FV.Props.C08.Bridge
open FV FV.C08

/-- `o` is a defined scalar with the finite value `q`. -/
def Val (o : Option Sem) (q : ℚ) : Prop := ∃ s, o = some s ∧ s.shape = [] ∧ s.get [] = XR.fin q

theorem allIdx_nil : allIdx [] = [[]] := rfl

theorem zip_scalar {name : String} {f : ℚ → ℚ → ℚ}
    (hf : ∀ a b, binop name (XR.fin a) (XR.fin b) = some (XR.fin (f a b)))
    {a b : Sem} {x y : ℚ} (ha : a.shape = [] ∧ a.get [] = XR.fin x) (hb : b.shape = [] ∧ b.get [] = XR.fin y) :
    Val (Sem.zip? (binop name) a b) (f x y) := by
  unfold Sem.zip?
  have hbc : broadcastShapes a.shape b.shape = some [] := by
    rw [ha.1, hb.1]; rfl
  rw [hbc]
  simp only [allIdx_nil, ha.1, hb.1]
  have hb0 : bcastIdx [] [] = [] := rfl
  simp only [List.mapM_cons, List.mapM_nil, hb0, ha.2, hb.2, hf]
  exact ⟨_, rfl, rfl, by simp [hb0, ha.2, hb.2, hf]⟩

theorem binop_add (a b : ℚ) : binop "add" (XR.fin a) (XR.fin b) = some (XR.fin (a + b)) := rfl
theorem binop_mul (a b : ℚ) : binop "mul" (XR.fin a) (XR.fin b) = some (XR.fin (a * b)) := rfl

theorem foldlM_add_fin (x : ℚ) (xs : List ℚ) :
    (xs.map XR.fin).foldlM (fun acc y => binop "add" acc y) (XR.fin x) = some (XR.fin (x + xs.sum)) := by
  induction xs generalizing x with
  | nil => simp
  | cons y ys ih =>
    simp only [List.map_cons, List.foldlM_cons, binop_add, Option.bind_eq_bind, Option.bind_some, List.sum_cons]
    rw [ih (x + y), add_assoc]

theorem foldOp_add_fin (x : ℚ) (xs : List ℚ) :
    foldOp "add" ((x :: xs).map XR.fin) = some (XR.fin ((x :: xs).sum)) := by
  simp only [List.map_cons, foldOp, List.sum_cons]
  exact foldlM_add_fin x xs

/-- ⊕-folding a non-empty list of finite scalars gives their sum. -/
theorem foldList_scalar {vals : List Sem} {qs : List ℚ} (hne : qs ≠ [])
    (h : List.Forall₂ (fun (s : Sem) q => s.shape = [] ∧ s.get [] = XR.fin q) vals qs) :
    Val (Sem.foldList "add" [] vals) qs.sum := by
  have hmap : vals.map (·.get []) = qs.map XR.fin := by
    clear hne
    induction h with
    | nil => rfl
    | cons hh _ ih => simp [hh.2, ih]
  unfold Sem.foldList
  simp only [allIdx_nil, List.mapM_cons, List.mapM_nil, hmap]
  cases qs with
  | nil => exact absurd rfl hne
  | cons q qs =>
    rw [foldOp_add_fin]
    refine ⟨_, rfl, rfl, ?_⟩
    simp only [hmap]
    rw [foldOp_add_fin]
    rfl

/-! ## environments -/

/-- The list environment `L` represents the assignment `env` on the names in `S`. -/
def Rep (size : Name → Nat) (S : List Name) (L : FV.Env) (env : C08.Env) : Prop :=
  ∀ n ∈ S, L.lookup n = some (Sem.ofNat (env n)) ∧ env n < size n

/-- The shared specification gives the wire term `t` the value `f env` (a finite scalar) at every
    environment that represents `env` on `S`. -/
def Denotes (size : Name → Nat) (S : List Name) (t : Term) (f : C08.Env → ℚ) : Prop :=
  ∀ L env, Rep size S L env → Val (denote t L) (f env)

theorem Denotes.mono {size : Name → Nat} {S S' : List Name} {t : Term} {f : C08.Env → ℚ} (h : Denotes size S t f)
    (hs : ∀ n ∈ S, n ∈ S') : Denotes size S' t f :=
  fun L env hr => h L env (fun n hn => hr n (hs n hn))

theorem lookup_cons_self (L : FV.Env) (n : Name) (v : Sem) : FV.Env.lookup ((n, v) :: L) n = some v := by
  simp [FV.Env.lookup]

theorem lookup_cons_ne (L : FV.Env) {n m : Name} (h : m ≠ n) (v : Sem) :
    FV.Env.lookup ((n, v) :: L) m = FV.Env.lookup L m := by
  have : (n == m) = false := by simpa using fun e => h e.symm
  simp [FV.Env.lookup, this]

theorem Rep.cons {size : Name → Nat} {S : List Name} {L : FV.Env} {env : C08.Env} (h : Rep size S L env) (n : Name) {i : Nat}
    (hi : i < size n) : Rep size (n :: S) ((n, Sem.ofNat i) :: L) (upd env n i) := by
  intro m hm
  by_cases e : m = n
  · subst e; rw [lookup_cons_self]; simp [upd, hi]
  · rw [lookup_cons_ne L e]
    simp only [upd, e, if_false]
    rcases List.mem_cons.mp hm with h1 | h1
    · exact absurd h1 e
    · exact h m h1

theorem denotes_num {size : Name → Nat} (S : List Name) (c : ℚ) (dt : DType) : Denotes size S (Term.num (XR.fin c) dt) (fun _ => c) := by
  intro L env _
  exact ⟨Sem.scalar (XR.fin c), by simp [denote], rfl, rfl⟩

theorem denotes_binary {size : Name → Nat} {S : List Name} {name : String} {g : ℚ → ℚ → ℚ}
    (hname : name ≠ "getitem" ∧ name ≠ "matmul")
    (hg : ∀ a b, binop name (XR.fin a) (XR.fin b) = some (XR.fin (g a b)))
    {l r : Term} {f1 f2 : C08.Env → ℚ} (h1 : Denotes size S l f1) (h2 : Denotes size S r f2) (params : Sexp) :
    Denotes size S (Term.binary ⟨name, params⟩ l r) (fun env => g (f1 env) (f2 env)) := by
  intro L env hr
  obtain ⟨a, ha, ha1, ha2⟩ := h1 L env hr
  obtain ⟨b, hb, hb1, hb2⟩ := h2 L env hr
  simp only [denote, ha, hb, evalBinary]
  split
  · exact absurd rfl hname.1
  · exact absurd rfl hname.2
  · exact zip_scalar hg ⟨ha1, ha2⟩ ⟨hb1, hb2⟩

/-! ## ⊗ of the operands -/

/-- `denoteProd` on operands that denote finite scalars: the right-nested ⊗ of their values. -/
theorem denoteProd_val {name : String} {g : ℚ → ℚ → ℚ} {u : ℚ} (hu : ∀ x, g x u = x)
    (hg : ∀ a b, binop name (XR.fin a) (XR.fin b) = some (XR.fin (g a b))) {size : Name → Nat} {S : List Name} :
    ∀ (terms : List Term) (fs : List (C08.Env → ℚ)), List.Forall₂ (Denotes size S) terms fs → terms ≠ [] →
      ∀ L env, Rep size S L env → Val (denoteProd name terms L) ((fs.map (· env)).foldr g u)
  | [], _, _, hne, _, _, _ => absurd rfl hne
  | [t], fs, h, _, L, env, hr => by
    cases h with
    | cons h1 h2 =>
      cases h2
      simp only [denoteProd, List.map_cons, List.map_nil, List.foldr_cons, List.foldr_nil, hu]
      exact h1 L env hr
  | t :: t2 :: rest, fs, h, _, L, env, hr => by
    cases h with
    | cons h1 h2 =>
      rename_i f fs'
      have ih := denoteProd_val hu hg (t2 :: rest) fs' h2 (by simp) L env hr
      obtain ⟨a, ha, ha1, ha2⟩ := h1 L env hr
      obtain ⟨b, hb, hb1, hb2⟩ := ih
      simp only [denoteProd, ha, hb, List.map_cons, List.foldr_cons]
      exact zip_scalar hg ⟨ha1, ha2⟩ ⟨hb1, hb2⟩

/-! ## assignments of the reduced variables -/

def bdom (k : Nat) : Dom := ⟨DType.bint k, []⟩

/-- The list `assignments` builds (row-major, the first variable outermost and on top). -/
def asgL : List (Name × Nat) → List FV.Env
  | [] => [[]]
  | (n, k) :: rest => (List.range k).flatMap fun i => (asgL rest).map fun t => (n, Sem.ofNat i) :: t

theorem assignments_eq (vars : List (Name × Nat)) :
    assignments (vars.map fun p => (p.1, bdom p.2)) = some (asgL vars) := by
  induction vars with
  | nil => rfl
  | cons p rest ih =>
    obtain ⟨n, k⟩ := p
    simp only [List.map_cons, assignments, bdom] at ih ⊢
    rw [ih]
    rfl

theorem Rep.push {size : Name → Nat} {S : List Name} {L : FV.Env} {env : C08.Env} (h : Rep size S L env) (n : Name) {i : Nat}
    (hi : i < size n) : Rep size (n :: S) ((n, Sem.ofNat i) :: L) (upd env n i) := Rep.cons h n hi

theorem mapM_map_opt {α β γ : Type} (f : β → Option γ) (h : α → β) (l : List α) :
    (l.map h).mapM f = l.mapM (fun a => f (h a)) := by
  induction l with
  | nil => rfl
  | cons a l ih => simp [List.mapM_cons, ih]

theorem sumVars_upd_comm (size : Name → Nat) {n : Name} {vs : List Name} (hn : n ∉ vs) (G : C08.Env → ℚ)
    (i : Nat) (env : C08.Env) :
    sumVars (sr ℚ) size vs (fun e => G (upd e n i)) env = sumVars (sr ℚ) size vs G (upd env n i) := by
  induction vs generalizing env with
  | nil => rfl
  | cons m vs ih =>
    have hm : n ≠ m := fun e => hn (e ▸ List.mem_cons_self)
    have hvs : n ∉ vs := fun e => hn (List.mem_cons_of_mem _ e)
    simp only [sumVars, sum1_eq]
    refine Finset.sum_congr rfl fun j _ => ?_
    rw [ih hvs, upd_comm env hm.symm]

theorem sumN_list (k : Nat) (f : Nat → ℚ) : sumN (sr ℚ) k f = ((List.range k).map f).sum := by
  rw [sumN_eq]
  induction k with
  | zero => simp
  | succ k ih => rw [Finset.sum_range_succ, ih, List.range_succ]; simp

/-- The heart of the bridge: evaluating `P` at every assignment of `vars` (stacked on `top`, over `L`)
    yields finite scalars whose sum is the nested named sum. -/
theorem assignments_sum (size : Name → Nat) {S' : List Name} (P : FV.Env → Option Sem) (F : C08.Env → ℚ)
    (hP : ∀ L' e', Rep size S' L' e' → Val (P L') (F e')) :
    ∀ (vars : List (Name × Nat)), (vars.map (·.1)).Nodup → (∀ p ∈ vars, 0 < p.2 ∧ p.2 = size p.1) →
    ∀ (top : FV.Env) (τ : C08.Env → C08.Env) (T S : List Name) (L : FV.Env) (env : C08.Env),
      (∀ S0 L0 e0, Rep size S0 L0 e0 → Rep size (T ++ S0) (top ++ L0) (τ e0)) →
      (∀ m ∈ S', m ∈ T ∨ m ∈ vars.map (·.1) ∨ m ∈ S) →
      Rep size S L env →
      ∃ vals qs, (asgL vars).mapM (fun a => P (top ++ a ++ L)) = some vals ∧
        List.Forall₂ (fun (s : Sem) q => s.shape = [] ∧ s.get [] = XR.fin q) vals qs ∧ qs ≠ [] ∧
        qs.sum = sumVars (sr ℚ) size (vars.map (·.1)) (fun e => F (τ e)) env
  | [], _, _, top, τ, T, S, L, env, hτ, hS', hr => by
    have hrep : Rep size S' (top ++ L) (τ env) := by
      intro m hm
      have := hτ S L env hr
      apply this m
      rcases hS' m hm with h | h | h
      · exact List.mem_append.mpr (Or.inl h)
      · simp at h
      · exact List.mem_append.mpr (Or.inr h)
    obtain ⟨s, hs, hs1, hs2⟩ := hP _ _ hrep
    refine ⟨[s], [F (τ env)], ?_, ?_, by simp, by simp [sumVars]⟩
    · simp [asgL, hs]
    · exact List.Forall₂.cons ⟨hs1, hs2⟩ List.Forall₂.nil
  | (n, k) :: rest, hnd, hsz, top, τ, T, S, L, env, hτ, hS', hr => by
    have hnd' : (rest.map (·.1)).Nodup := (List.nodup_cons.mp hnd).2
    have hn : n ∉ rest.map (·.1) := (List.nodup_cons.mp hnd).1
    have hk := hsz (n, k) (by simp)
    simp only at hk
    -- the inner problem for a fixed value `i` of `n`
    have inner : ∀ i : Nat, i < size n → ∃ vals qs,
        (asgL rest).mapM (fun a => P ((top ++ [(n, Sem.ofNat i)]) ++ a ++ L)) = some vals ∧
        List.Forall₂ (fun (s : Sem) q => s.shape = [] ∧ s.get [] = XR.fin q) vals qs ∧ qs ≠ [] ∧
        qs.sum = sumVars (sr ℚ) size (rest.map (·.1)) (fun e => F (τ (upd e n i))) env := by
      intro i hi
      refine assignments_sum size P F hP rest hnd' (fun p hp => hsz p (List.mem_cons_of_mem _ hp))
        (top ++ [(n, Sem.ofNat i)]) (fun e => τ (upd e n i)) (T ++ [n]) S L env ?_ ?_ hr
      · intro S0 L0 e0 h0
        have h1 := hτ (n :: S0) ((n, Sem.ofNat i) :: L0) (upd e0 n i) (Rep.push h0 n hi)
        intro m hm
        have := h1 m (by
          simp only [List.mem_append, List.mem_cons, List.not_mem_nil, or_false] at hm ⊢
          rcases hm with (h | h) | h
          · exact Or.inl h
          · exact Or.inr (Or.inl h)
          · exact Or.inr (Or.inr h))
        simpa using this
      · intro m hm
        rcases hS' m hm with h | h | h
        · exact Or.inl (List.mem_append.mpr (Or.inl h))
        · simp only [List.map_cons, List.mem_cons] at h
          rcases h with h | h
          · exact Or.inl (List.mem_append.mpr (Or.inr (by simp [h])))
          · exact Or.inr (Or.inl h)
        · exact Or.inr (Or.inr h)
    -- glue the `k` inner results together
    have glue : ∀ is : List Nat, (∀ i ∈ is, i < size n) → ∃ vals qs,
        (is.flatMap fun i => (asgL rest).map fun t => (n, Sem.ofNat i) :: t).mapM (fun a => P (top ++ a ++ L))
          = some vals ∧
        List.Forall₂ (fun (s : Sem) q => s.shape = [] ∧ s.get [] = XR.fin q) vals qs ∧ (is ≠ [] → qs ≠ []) ∧
        qs.sum = (is.map fun i => sumVars (sr ℚ) size (rest.map (·.1)) (fun e => F (τ (upd e n i))) env).sum := by
      intro is his
      induction is with
      | nil => exact ⟨[], [], by simp, List.Forall₂.nil, by simp, by simp⟩
      | cons i is ih =>
        obtain ⟨v1, q1, h1, h2, h3, h4⟩ := inner i (his i (by simp))
        obtain ⟨v2, q2, g1, g2, _, g4⟩ := ih (fun j hj => his j (List.mem_cons_of_mem _ hj))
        refine ⟨v1 ++ v2, q1 ++ q2, ?_, ?_, ?_, ?_⟩
        · simp only [List.flatMap_cons, List.mapM_append, mapM_map_opt]
          have h1' : (asgL rest).mapM (fun a => P (top ++ (n, Sem.ofNat i) :: a ++ L)) = some v1 := by
            simpa [List.append_assoc] using h1
          rw [h1', g1]
          rfl
        · exact List.rel_append h2 g2
        · intro _ e; exact h3 (List.append_eq_nil_iff.mp e).1
        · simp only [List.sum_append, List.map_cons, List.sum_cons, h4, g4]
    obtain ⟨vals, qs, e1, e2, e3, e4⟩ := glue (List.range k) (fun i hi => by
      rw [← hk.2]; exact List.mem_range.mp hi)
    refine ⟨vals, qs, by simpa [asgL] using e1, e2, e3 (by
      intro e
      have := congrArg List.length e
      simp at this; omega), ?_⟩
    rw [e4]
    simp only [List.map_cons, sumVars, sum1]
    rw [sumN_list, ← hk.2]
    congr 1
    apply List.map_congr_left
    intro i _
    exact sumVars_upd_comm size hn (fun e => F (τ e)) i env

theorem forall2_ne_nil {vals : List Sem} {qs : List ℚ}
    (h : List.Forall₂ (fun (s : Sem) q => s.shape = [] ∧ s.get [] = XR.fin q) vals qs) (hq : qs ≠ []) :
    ∃ v vs, vals = v :: vs ∧ v.shape = [] := by
  cases h with
  | nil => exact absurd rfl hq
  | cons h1 _ => exact ⟨_, _, rfl, h1.1⟩

/-- **`Contraction(⊕, bin, vars, *terms)` under the shared `denote`** is the named sum over `vars` of
    the `bin`-fold of the operands' values (`g`, `u`: the fold `bin` denotes on finite values). -/
theorem denotes_contraction (size : Name → Nat) {S : List Name} (vars : List (Name × Nat))
    (hnd : (vars.map (·.1)).Nodup) (hsz : ∀ p ∈ vars, 0 < p.2 ∧ p.2 = size p.1)
    {binName : String} {g : ℚ → ℚ → ℚ} {u : ℚ} (hu : ∀ x, g x u = x)
    (hg : ∀ a b, binop binName (XR.fin a) (XR.fin b) = some (XR.fin (g a b)))
    {terms : List Term} {fs : List (C08.Env → ℚ)}
    (hts : List.Forall₂ (Denotes size (vars.map (·.1) ++ S)) terms fs) (hne : terms ≠ []) :
    Denotes size S (Term.contraction "add" binName (vars.map fun p => (p.1, bdom p.2)) terms)
      (sumVars (sr ℚ) size (vars.map (·.1)) (fun e => (fs.map (· e)).foldr g u)) := by
  intro L env hr
  have hP : ∀ L' e', Rep size (vars.map (·.1) ++ S) L' e' →
      Val (denoteProd binName terms L') ((fs.map (· e')).foldr g u) :=
    fun L' e' h => denoteProd_val hu hg terms fs hts hne L' e' h
  obtain ⟨vals, qs, h1, h2, h3, h4⟩ := assignments_sum size (denoteProd binName terms) _ hP vars hnd hsz
    [] id [] S L env (fun S0 L0 e0 h0 => by simpa using h0)
    (fun m hm => by
      rcases List.mem_append.mp hm with h | h
      · exact Or.inr (Or.inl h)
      · exact Or.inr (Or.inr h)) hr
  obtain ⟨v, vs, rfl, hv⟩ := forall2_ne_nil h2 h3
  simp only [List.nil_append] at h1
  simp only [denote, assignments_eq, h1]
  have : (("add" : String) == "null") = false := by decide
  simp only [this, Bool.false_eq_true, if_false, hv]
  have := foldList_scalar h3 h2
  rw [h4] at this
  exact this

/-- `Contraction(null, bin, {}, *terms)`: the plain `bin`-fold of the operands. -/
theorem denotes_product {size : Name → Nat} {S : List Name} {binName : String} {g : ℚ → ℚ → ℚ} {u : ℚ} (hu : ∀ x, g x u = x)
    (hg : ∀ a b, binop binName (XR.fin a) (XR.fin b) = some (XR.fin (g a b)))
    {terms : List Term} {fs : List (C08.Env → ℚ)}
    (hts : List.Forall₂ (Denotes size S) terms fs) (hne : terms ≠ []) :
    Denotes size S (Term.contraction "null" binName [] terms) (fun e => (fs.map (· e)).foldr g u) := by
  intro L env hr
  obtain ⟨s, hs, hs1, hs2⟩ := denoteProd_val hu hg terms fs hts hne L env hr
  have hasg : assignments [] = some [[]] := rfl
  simp only [denote, hasg, List.mapM_cons, List.mapM_nil, List.nil_append, hs]
  exact ⟨s, by simp, hs1, hs2⟩

/-- `Contraction(⊕, null, vars, term)` (what `Reduce` normalises to). -/
theorem denotes_reduction (size : Name → Nat) {S : List Name} (vars : List (Name × Nat))
    (hnd : (vars.map (·.1)).Nodup) (hsz : ∀ p ∈ vars, 0 < p.2 ∧ p.2 = size p.1)
    {t : Term} {f : C08.Env → ℚ} (ht : Denotes size (vars.map (·.1) ++ S) t f) :
    Denotes size S (Term.contraction "add" "null" (vars.map fun p => (p.1, bdom p.2)) [t])
      (sumVars (sr ℚ) size (vars.map (·.1)) f) := by
  intro L env hr
  have hP : ∀ L' e', Rep size (vars.map (·.1) ++ S) L' e' → Val (denoteProd "null" [t] L') (f e') := by
    intro L' e' h
    simp only [denoteProd]
    exact ht L' e' h
  obtain ⟨vals, qs, h1, h2, h3, h4⟩ := assignments_sum size (denoteProd "null" [t]) _ hP vars hnd hsz
    [] id [] S L env (fun S0 L0 e0 h0 => by simpa using h0)
    (fun m hm => by
      rcases List.mem_append.mp hm with h | h
      · exact Or.inr (Or.inl h)
      · exact Or.inr (Or.inr h)) hr
  obtain ⟨v, vs, rfl, hv⟩ := forall2_ne_nil h2 h3
  simp only [List.nil_append] at h1
  simp only [denote, assignments_eq, h1]
  have : (("add" : String) == "null") = false := by decide
  simp only [this, Bool.false_eq_true, if_false, hv]
  have := foldList_scalar h3 h2
  rw [h4] at this
  exact this


/-! ## tensor leaves -/

theorem toNat_ofNat (k : Nat) : Sem.toNat? (Sem.ofNat k) = some k := by
  simp [Sem.toNat?, Sem.ofNat, Sem.scalar]

theorem ravel_exists : ∀ (sizes idx : List Nat), List.Forall₂ (fun i s => i < s) idx sizes →
    ∃ k, ravel sizes idx = some k
  | [], [], _ => ⟨0, rfl⟩
  | s :: ss, i :: is, h => by
    cases h with
    | cons h1 h2 =>
      obtain ⟨k, hk⟩ := ravel_exists ss is h2
      exact ⟨i * prodList ss + k, by simp [ravel, h1, hk]⟩
  | [], _ :: _, h => by cases h
  | _ :: _, [], h => by cases h

/-- The value of a scalar real Tensor with named bounded-integer inputs (row-major table lookup). -/
def tval (ins : List (Name × Nat)) (raw : Array ℚ) (env : C08.Env) : ℚ :=
  match ravel (ins.map (·.2)) (ins.map fun p => env p.1) with
  | some k => raw.getD k 0
  | none => 0

/-- A Tensor leaf denotes its table lookup (its inputs are in scope with their declared sizes, and the
    data array covers every in-range offset). -/
theorem denotes_tensor {size : Name → Nat} {S : List Name} (ins : List (Name × Nat)) (raw : Array ℚ)
    (hins : ∀ p ∈ ins, p.1 ∈ S ∧ p.2 = size p.1)
    (hdata : ∀ idx k, ravel (ins.map (·.2)) idx = some k → k < raw.size) :
    Denotes size S (Term.tensor ins ⟨DType.real, []⟩ (raw.map XR.fin)) (tval ins raw) := by
  intro L env hr
  have hmap : ∀ l : List (Name × Nat), (∀ p ∈ l, p.1 ∈ S) →
      l.mapM (fun (p : Name × Nat) => (FV.Env.lookup L p.1).bind Sem.toNat?) = some (l.map fun p => env p.1) := by
    intro l hl
    induction l with
    | nil => rfl
    | cons p l ih =>
      have h1 := (hr p.1 (hl p (by simp))).1
      simp only [List.mapM_cons, h1, Option.bind_some, toNat_ofNat, List.map_cons,
        ih (fun q hq => hl q (List.mem_cons_of_mem _ hq))]
      rfl
  have hb : List.Forall₂ (fun i s => i < s) (ins.map fun p => env p.1) (ins.map (·.2)) := by
    clear hdata
    induction ins with
    | nil => exact List.Forall₂.nil
    | cons p l ih =>
      have h1 := hins p (by simp)
      have h2 := (hr p.1 h1.1).2
      refine List.Forall₂.cons ?_ (ih (fun q hq => hins q (List.mem_cons_of_mem _ hq)))
      show env p.1 < p.2
      rw [h1.2]; exact h2
  have hall_gen : ∀ (a b : List Nat), List.Forall₂ (fun i s => i < s) a b →
      ((a.zip b).all fun (i, s) => decide (i < s)) = true := by
    intro a b h
    induction h with
    | nil => rfl
    | cons h _ ih => simp [h, ih]
  have hall := hall_gen _ _ hb
  obtain ⟨k, hk⟩ := ravel_exists _ _ hb
  have hklt := hdata _ k hk
  simp only [denote, hmap ins (fun p hp => (hins p hp).1), hall, if_true]
  refine ⟨_, rfl, rfl, ?_⟩
  simp only [List.append_nil, hk, tval]
  simp [Array.getD, hklt]

/-! ## the syntactic bridge: `Ex.eval` is the shared `denote` on the sum-product fragment -/

/-- Sum-product syntax with wire-term leaves: `leaf t ins f` is any wire term `t` together with the
    value `f` the specification gives it (hypothesis `Denotes` in `OKB`; for tensors and numbers this is
    C01's leaf semantics). -/
inductive ExB where
  | leaf (t : Term) (ins : List Name) (f : C08.Env → ℚ)
  | num (c : ℚ)
  | binary (op : OpK) (l r : ExB)
  | contr (red bin : OpK) (vars : List (Name × Nat)) (ts : List ExB)

def opName : OpK → String
  | .null => "null"
  | .add => "add"
  | .mul => "mul"

mutual
  /-- The wire term (what `fv/ser.py` sends for the corresponding funsor term). -/
  def ExB.toTerm : ExB → Term
    | .leaf t _ _ => t
    | .num c => Term.num (XR.fin c) DType.real
    | .binary op l r => Term.binary ⟨opName op, Sexp.list []⟩ l.toTerm r.toTerm
    | .contr red bin vars ts =>
        Term.contraction (opName red) (opName bin) (vars.map fun p => (p.1, bdom p.2)) (toTermList ts)
  def toTermList : List ExB → List Term
    | [] => []
    | t :: ts => t.toTerm :: toTermList ts
end

mutual
  /-- The model term the theorems of Props/C08 speak about. -/
  def ExB.toEx : ExB → Ex ℚ
    | .leaf _ ins f => .leaf ins f
    | .num c => .num c
    | .binary op l r => .binary op l.toEx r.toEx
    | .contr red bin vars ts => .contr red bin (vars.map (·.1)) (toExList ts)
  def toExList : List ExB → List (Ex ℚ)
    | [] => []
    | t :: ts => t.toEx :: toExList ts
end

mutual
  /-- Well-formedness for the bridge: leaves denote what they claim, binders are distinct with positive
      sizes equal to the global size function, operator pairs are the ones `Contraction.__init__` admits. -/
  def OKB (size : Name → Nat) : List Name → ExB → Prop
    | S, .leaf t _ f => Denotes size S t f
    | _, .num _ => True
    | S, .binary op l r => op ≠ .null ∧ OKB size S l ∧ OKB size S r
    | S, .contr red bin vars ts =>
        (vars.map (·.1)).Nodup ∧ (∀ p ∈ vars, 0 < p.2 ∧ p.2 = size p.1) ∧ ts ≠ [] ∧
        ((red = .add ∧ (bin = .null → ts.length = 1)) ∨ (red = .null ∧ vars = [] ∧ bin ≠ .null)) ∧
        OKBList size (vars.map (·.1) ++ S) ts
  def OKBList (size : Name → Nat) : List Name → List ExB → Prop
    | _, [] => True
    | S, t :: ts => OKB size S t ∧ OKBList size S ts
end

theorem Denotes.congr {size : Name → Nat} {S : List Name} {t : Term} {f f' : C08.Env → ℚ} (h : Denotes size S t f)
    (hf : ∀ env, f env = f' env) : Denotes size S t f' := by
  have : f = f' := funext hf
  rw [← this]; exact h

theorem toTermList_ne {ts : List ExB} (h : ts ≠ []) : toTermList ts ≠ [] := by
  cases ts with
  | nil => exact absurd rfl h
  | cons t ts => simp [toTermList]

theorem evalList_toExList (size : Name → Nat) (ts : List ExB) (env : C08.Env) :
    evalList (sr ℚ) size (toExList ts) env = ts.map (fun t => t.toEx.eval (sr ℚ) size env) := by
  induction ts with
  | nil => simp [toExList, evalList]
  | cons t ts ih => simp [toExList, evalList, ih]

mutual
  /-- **The bridge**: on the sum-product fragment, the shared specification `denote` of the wire term is
      the value `Ex.eval` of the model term (over ℚ, the commutative semiring (add, mul)).  Hence every
      value-preservation theorem of Props/C08 (`norm_sound`, `optimize_any_path_sound`, the rule
      theorems), instantiated at `R = ℚ`, is a statement about `denote`. -/
  theorem bridge (size : Name → Nat) : ∀ (e : ExB) (S : List Name), OKB size S e →
      Denotes size S e.toTerm (fun env => e.toEx.eval (sr ℚ) size env)
    | .leaf t ins f, S, h => by
      simp only [OKB] at h
      simpa [ExB.toTerm, ExB.toEx, Ex.eval] using h
    | .num c, S, _ => by
      simpa [ExB.toTerm, ExB.toEx, Ex.eval] using denotes_num S c DType.real
    | .binary op l r, S, h => by
      simp only [OKB] at h
      have hl := bridge size l S h.2.1
      have hr := bridge size r S h.2.2
      cases op with
      | null => exact absurd rfl h.1
      | add =>
        simp only [ExB.toTerm, ExB.toEx, opName]
        refine (denotes_binary (by decide) binop_add hl hr _).congr ?_
        intro env; simp [Ex.eval, binFold, sumV, sr]
      | mul =>
        simp only [ExB.toTerm, ExB.toEx, opName]
        refine (denotes_binary (by decide) binop_mul hl hr _).congr ?_
        intro env; simp [Ex.eval, binFold, prodV, sr]
    | .contr red bin vars ts, S, h => by
      simp only [OKB] at h
      obtain ⟨hnd, hsz, hne, hops, hts⟩ := h
      have hl := bridgeList size ts _ hts
      simp only [ExB.toTerm, ExB.toEx]
      rcases hops with ⟨rfl, hb⟩ | ⟨rfl, rfl, hb⟩
      · cases bin with
        | null =>
          obtain ⟨x, rfl⟩ := List.length_eq_one_iff.mp (hb rfl)
          simp only [toTermList, opName]
          cases hl with
          | cons h1 _ =>
            refine (denotes_reduction size vars hnd hsz h1).congr ?_
            intro env
            simp only [Ex.eval, redFold, toExList, evalList, binFold]
        | add =>
          simp only [opName]
          refine (denotes_contraction size vars hnd hsz (g := (· + ·)) (u := 0) (by simp) binop_add hl
            (toTermList_ne hne)).congr ?_
          intro env
          simp only [Ex.eval, redFold]
          apply congrFun
          apply sumVars_congr
          intro e
          rw [evalList_toExList, List.map_map]
          rfl
        | mul =>
          simp only [opName]
          refine (denotes_contraction size vars hnd hsz (g := (· * ·)) (u := 1) (by simp) binop_mul hl
            (toTermList_ne hne)).congr ?_
          intro env
          simp only [Ex.eval, redFold]
          apply congrFun
          apply sumVars_congr
          intro e
          rw [evalList_toExList, List.map_map]
          rfl
      · cases bin with
        | null => exact absurd rfl hb
        | add =>
          simp only [opName, List.map_nil, List.nil_append] at hl ⊢
          refine (denotes_product (g := (· + ·)) (u := 0) (by simp) binop_add hl (toTermList_ne hne)).congr ?_
          intro env
          simp only [Ex.eval, redFold]
          rw [evalList_toExList, List.map_map]
          rfl
        | mul =>
          simp only [opName, List.map_nil, List.nil_append] at hl ⊢
          refine (denotes_product (g := (· * ·)) (u := 1) (by simp) binop_mul hl (toTermList_ne hne)).congr ?_
          intro env
          simp only [Ex.eval, redFold]
          rw [evalList_toExList, List.map_map]
          rfl
  theorem bridgeList (size : Name → Nat) : ∀ (ts : List ExB) (S : List Name), OKBList size S ts →
      List.Forall₂ (Denotes size S) (toTermList ts) (ts.map fun t => fun env => t.toEx.eval (sr ℚ) size env)
    | [], _, _ => by simp [toTermList]
    | t :: ts, S, h => by
      simp only [OKBList] at h
      simp only [toTermList, List.map_cons]
      exact List.Forall₂.cons (bridge size t S h.1) (bridgeList size ts S h.2)
end

/-! ## the theorems of Props/C08, read through the shared specification -/

/-- **`norm_sound` about `denote`**: the value the shared specification gives the wire term is the
    value of the NORMALISED model term — for every fuel, every environment. -/
theorem denote_norm {size : Name → Nat} {S : List Name} {e : ExB} (hok : OKB size S e) (hg : Good e.toEx)
    {isU : OpK → ℚ → Bool} (hmul : ∀ c, isU .mul c = true → c = 1) (hadd : ∀ c, isU .add c = true → c = 0)
    (fuel : Nat) :
    Denotes size S e.toTerm (fun env => (norm isU fuel e.toEx).eval (sr ℚ) size env) :=
  (bridge size e S hok).congr (fun env => (norm_sound size hmul hadd hg fuel env).symm)

/-- **`optimize_any_path_sound` about `denote`**: for every well-formed path, the optimizer model's
    re-bracketed contraction has the value the shared specification gives `Contraction(add, mul, vars,
    *terms)`. -/
theorem denote_optimize {size : Name → Nat} {S : List Name} (vars : List (Name × Nat))
    (hnd : (vars.map (·.1)).Nodup) (hsz : ∀ p ∈ vars, 0 < p.2 ∧ p.2 = size p.1)
    {terms : List Term} {operands : List (Operand ℚ)}
    (hts : List.Forall₂ (Denotes size (vars.map (·.1) ++ S)) terms (operands.map (·.sem)))
    (hne : terms ≠ []) (hwf : ∀ t ∈ operands, WFop t)
    (hcover : ∀ d ∈ vars.map (·.1), d ∈ allIns operands)
    {path : List (Nat × Nat)} (hlen : path.length + 1 = operands.length)
    {res : Operand ℚ} {trs : List StepTrace} {fin : List Name}
    (h : optimize (sr ℚ) size (vars.map (·.1)) operands path = some (res, trs, fin)) :
    Denotes size S (Term.contraction "add" "mul" (vars.map fun p => (p.1, bdom p.2)) terms) res.sem := by
  have hs := (optimize_any_path_sound size hnd hwf hcover hlen h).1
  refine (denotes_contraction size vars hnd hsz (g := (· * ·)) (u := 1) (by simp) binop_mul hts hne).congr ?_
  intro env
  rw [hs]
  unfold contractSpec
  apply congrFun
  apply sumVars_congr
  intro e
  simp only [prodL, prodV, List.map_map]
  rfl

/-- Non-vacuity: `Σ_i f(i) · g(i)` with two Tensor leaves satisfies the bridge's hypotheses. -/
example :
    let size : Name → Nat := fun _ => 3
    let f : ExB := .leaf (Term.tensor [("i", 3)] ⟨DType.real, []⟩ (#[1, 2, 3].map XR.fin)) ["i"] (tval [("i", 3)] #[1, 2, 3])
    let g : ExB := .leaf (Term.tensor [("i", 3)] ⟨DType.real, []⟩ (#[4, 5, 6].map XR.fin)) ["i"] (tval [("i", 3)] #[4, 5, 6])
    OKB size [] (.contr .add .mul [("i", 3)] [f, g]) := by
  intro size f g
  have hrav : ∀ idx k, ravel ([("i", 3)].map (·.2)) idx = some k → k < 3 := by
    intro idx k h
    match idx, h with
    | [], h => simp [ravel] at h
    | [i], h =>
      simp only [List.map_cons, List.map_nil, ravel] at h
      split at h
      · simp [prodList] at h; omega
      · simp at h
    | _ :: _ :: _, h => simp [ravel] at h
  simp only [OKB, OKBList, f, g]
  refine ⟨by simp, by simp [size], by simp, Or.inl (by simp), ?_, ?_, trivial⟩
  · exact denotes_tensor [("i", 3)] #[1, 2, 3] (by simp [size]) (by simpa using hrav)
  · exact denotes_tensor [("i", 3)] #[4, 5, 6] (by simp [size]) (by simpa using hrav)

end FV.Props.C08.Bridge
