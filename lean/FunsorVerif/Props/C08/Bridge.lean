/-
  Props/C08/Bridge.lean — the bridge between the model's `Ex.eval` and the SHARED specification
  `denote : Term → Env → Option Sem` (Model/Term.lean), on the sum-product fragment, GENERIC over a
  `Carrier`: any commutative semiring embedded in XR whose `+` / `*` two wire operators compute
  (instances in Carriers.lean: (add,mul) on ℚ, (min,add), (max,add), (or,and)).

    Val C o q          `o` is a defined scalar with the embedded value `C.ι q`
    Rep size S L env   the list environment `L` represents the assignment `env` on the names `S`
                       (each within its size)
    Denotes size S t f `denote t L` is the finite scalar `f env` whenever `L` represents `env` on `S`
    denotes_num / denotes_tensor / denotes_binary                     leaves and ⊕ / ⊗ of two terms
    assignments_sum    the heart: `assignments vars` + `mapM` + `Sem.foldList` = the nested named sum
    denotes_contraction / denotes_product / denotes_reduction         the four admissible operator pairs
    bridge             `ExB` (sum-product syntax with wire-term leaves): `denote (e.toTerm C) = e.toEx.eval`
    denote_norm, denote_optimize    `norm_sound` and `optimize_any_path_sound` as statements about `denote`
  Everything is generic over a `Carrier` (a commutative semiring embedded in XR whose `+` / `*` the wire
  operators compute); the instances are in Carriers.lean.  `Subs` (simultaneous renamings / numbers) and
  pointwise `Unary` nodes are covered (`denotes_subs`, `denotes_unary`).
-/
import FunsorVerif.Props.C08.Closure
import FunsorVerif.Model.Term

set_option linter.unusedSimpArgs false
set_option linter.unusedVariables false
namespace FV.Props.C08.Bridge
open FV FV.C08

/-- A carrier of the shared specification: a commutative semiring `R` embedded in `XR` so that the
    wire operators `addName` / `mulName` of `binop` compute its `+` / `*` on embedded values.
    Instances below: ℚ with (add, mul); `Tropical (WithTop ℚ)` with (min, add); `Tropical (WithTop ℚᵒᵈ)`
    with (max, add); the booleans with (or, and). -/
structure Carrier (R : Type) [CommSemiring R] where
  ι : R → XR
  addName : String
  mulName : String
  hadd : ∀ a b, binop addName (ι a) (ι b) = some (ι (a + b))
  hmul : ∀ a b, binop mulName (ι a) (ι b) = some (ι (a * b))
  add_ne_null : (addName == "null") = false
  add_plain : addName ≠ "getitem" ∧ addName ≠ "matmul"
  mul_plain : mulName ≠ "getitem" ∧ mulName ≠ "matmul"

variable {R : Type} [CommSemiring R] {C : Carrier R}

/-- `o` is a defined scalar with the embedded value `q`. -/
def Val (C : Carrier R) (o : Option Sem) (q : R) : Prop := ∃ s, o = some s ∧ s.shape = [] ∧ s.get [] = C.ι q

theorem allIdx_nil : allIdx [] = [[]] := rfl

theorem zip_scalar {name : String} {f : R → R → R}
    (hf : ∀ a b, binop name (C.ι a) (C.ι b) = some (C.ι (f a b)))
    {a b : Sem} {x y : R} (ha : a.shape = [] ∧ a.get [] = C.ι x) (hb : b.shape = [] ∧ b.get [] = C.ι y) :
    Val C (Sem.zip? (binop name) a b) (f x y) := by
  unfold Sem.zip?
  have hbc : broadcastShapes a.shape b.shape = some [] := by
    rw [ha.1, hb.1]; rfl
  rw [hbc]
  simp only [allIdx_nil, ha.1, hb.1]
  have hb0 : bcastIdx [] [] = [] := rfl
  simp only [List.mapM_cons, List.mapM_nil, hb0, ha.2, hb.2, hf]
  exact ⟨_, rfl, rfl, by simp [hb0, ha.2, hb.2, hf]⟩

theorem binop_add (a b : R) : binop C.addName (C.ι a) (C.ι b) = some (C.ι (a + b)) := C.hadd a b
theorem binop_mul (a b : R) : binop C.mulName (C.ι a) (C.ι b) = some (C.ι (a * b)) := C.hmul a b

theorem foldlM_add_fin (x : R) (xs : List R) :
    (xs.map C.ι).foldlM (fun acc y => binop C.addName acc y) (C.ι x) = some (C.ι (x + xs.sum)) := by
  induction xs generalizing x with
  | nil => simp
  | cons y ys ih =>
    simp only [List.map_cons, List.foldlM_cons, binop_add, Option.bind_eq_bind, Option.bind_some, List.sum_cons]
    rw [ih (x + y), add_assoc]

theorem foldOp_add_fin (x : R) (xs : List R) :
    foldOp C.addName ((x :: xs).map C.ι) = some (C.ι ((x :: xs).sum)) := by
  simp only [List.map_cons, foldOp, List.sum_cons]
  exact foldlM_add_fin x xs

/-- ⊕-folding a non-empty list of finite scalars gives their sum. -/
theorem foldList_scalar {vals : List Sem} {qs : List R} (hne : qs ≠ [])
    (h : List.Forall₂ (fun (s : Sem) q => s.shape = [] ∧ s.get [] = C.ι q) vals qs) :
    Val C (Sem.foldList C.addName [] vals) qs.sum := by
  have hmap : vals.map (·.get []) = qs.map C.ι := by
    clear hne
    induction h with
    | nil => rfl
    | cons hh _ ih => simp [hh.2, ih]
  unfold Sem.foldList
  simp only [allIdx_nil, List.mapM_cons, List.mapM_nil, hmap]
  cases qs with
  | nil => exact absurd rfl hne
  | cons q qs =>
    rw [foldOp_add_fin]
    refine ⟨_, rfl, rfl, ?_⟩
    simp only [hmap]
    rw [foldOp_add_fin]
    rfl

/-! ## environments -/

/-- The list environment `L` represents the assignment `env` on the names in `S`. -/
def Rep (size : Name → Nat) (S : List Name) (L : FV.Env) (env : C08.Env) : Prop :=
  ∀ n ∈ S, L.lookup n = some (Sem.ofNat (env n)) ∧ env n < size n

/-- The shared specification gives the wire term `t` the value `f env` (a finite scalar) at every
    environment that represents `env` on `S`. -/
def Denotes (C : Carrier R) (size : Name → Nat) (S : List Name) (t : Term) (f : C08.Env → R) : Prop :=
  ∀ L env, Rep size S L env → Val C (denote t L) (f env)

theorem Denotes.mono {size : Name → Nat} {S S' : List Name} {t : Term} {f : C08.Env → R} (h : Denotes C size S t f)
    (hs : ∀ n ∈ S, n ∈ S') : Denotes C size S' t f :=
  fun L env hr => h L env (fun n hn => hr n (hs n hn))

theorem lookup_cons_self (L : FV.Env) (n : Name) (v : Sem) : FV.Env.lookup ((n, v) :: L) n = some v := by
  simp [FV.Env.lookup]

theorem lookup_cons_ne (L : FV.Env) {n m : Name} (h : m ≠ n) (v : Sem) :
    FV.Env.lookup ((n, v) :: L) m = FV.Env.lookup L m := by
  have : (n == m) = false := by simpa using fun e => h e.symm
  simp [FV.Env.lookup, this]

theorem Rep.cons {size : Name → Nat} {S : List Name} {L : FV.Env} {env : C08.Env} (h : Rep size S L env) (n : Name) {i : Nat}
    (hi : i < size n) : Rep size (n :: S) ((n, Sem.ofNat i) :: L) (upd env n i) := by
  intro m hm
  by_cases e : m = n
  · subst e; rw [lookup_cons_self]; simp [upd, hi]
  · rw [lookup_cons_ne L e]
    simp only [upd, e, if_false]
    rcases List.mem_cons.mp hm with h1 | h1
    · exact absurd h1 e
    · exact h m h1

theorem denotes_num {size : Name → Nat} (S : List Name) (c : R) (dt : DType) : Denotes C size S (Term.num (C.ι c) dt) (fun _ => c) := by
  intro L env _
  exact ⟨Sem.scalar (C.ι c), by simp [denote], rfl, rfl⟩

theorem denotes_binary {size : Name → Nat} {S : List Name} {name : String} {g : R → R → R}
    (hname : name ≠ "getitem" ∧ name ≠ "matmul")
    (hg : ∀ a b, binop name (C.ι a) (C.ι b) = some (C.ι (g a b)))
    {l r : Term} {f1 f2 : C08.Env → R} (h1 : Denotes C size S l f1) (h2 : Denotes C size S r f2) (params : Sexp) :
    Denotes C size S (Term.binary ⟨name, params⟩ l r) (fun env => g (f1 env) (f2 env)) := by
  intro L env hr
  obtain ⟨a, ha, ha1, ha2⟩ := h1 L env hr
  obtain ⟨b, hb, hb1, hb2⟩ := h2 L env hr
  simp only [denote, ha, hb, evalBinary]
  split
  · exact absurd rfl hname.1
  · exact absurd rfl hname.2
  · exact zip_scalar hg ⟨ha1, ha2⟩ ⟨hb1, hb2⟩

/-! ## ⊗ of the operands -/

/-- `denoteProd` on operands that denote finite scalars: the right-nested ⊗ of their values. -/
theorem denoteProd_val {name : String} {g : R → R → R} {u : R} (hu : ∀ x, g x u = x)
    (hg : ∀ a b, binop name (C.ι a) (C.ι b) = some (C.ι (g a b))) {size : Name → Nat} {S : List Name} :
    ∀ (terms : List Term) (fs : List (C08.Env → R)), List.Forall₂ (Denotes C size S) terms fs → terms ≠ [] →
      ∀ L env, Rep size S L env → Val C (denoteProd name terms L) ((fs.map (· env)).foldr g u)
  | [], _, _, hne, _, _, _ => absurd rfl hne
  | [t], fs, h, _, L, env, hr => by
    cases h with
    | cons h1 h2 =>
      cases h2
      simp only [denoteProd, List.map_cons, List.map_nil, List.foldr_cons, List.foldr_nil, hu]
      exact h1 L env hr
  | t :: t2 :: rest, fs, h, _, L, env, hr => by
    cases h with
    | cons h1 h2 =>
      rename_i f fs'
      have ih := denoteProd_val hu hg (t2 :: rest) fs' h2 (by simp) L env hr
      obtain ⟨a, ha, ha1, ha2⟩ := h1 L env hr
      obtain ⟨b, hb, hb1, hb2⟩ := ih
      simp only [denoteProd, ha, hb, List.map_cons, List.foldr_cons]
      exact zip_scalar hg ⟨ha1, ha2⟩ ⟨hb1, hb2⟩

/-! ## assignments of the reduced variables -/

def bdom (k : Nat) : Dom := ⟨DType.bint k, []⟩

/-- The list `assignments` builds (row-major, the first variable outermost and on top). -/
def asgL : List (Name × Nat) → List FV.Env
  | [] => [[]]
  | (n, k) :: rest => (List.range k).flatMap fun i => (asgL rest).map fun t => (n, Sem.ofNat i) :: t

theorem assignments_eq (vars : List (Name × Nat)) :
    assignments (vars.map fun p => (p.1, bdom p.2)) = some (asgL vars) := by
  induction vars with
  | nil => rfl
  | cons p rest ih =>
    obtain ⟨n, k⟩ := p
    simp only [List.map_cons, assignments, bdom] at ih ⊢
    rw [ih]
    rfl

theorem Rep.push {size : Name → Nat} {S : List Name} {L : FV.Env} {env : C08.Env} (h : Rep size S L env) (n : Name) {i : Nat}
    (hi : i < size n) : Rep size (n :: S) ((n, Sem.ofNat i) :: L) (upd env n i) := Rep.cons h n hi

theorem mapM_map_opt {α β γ : Type} (f : β → Option γ) (h : α → β) (l : List α) :
    (l.map h).mapM f = l.mapM (fun a => f (h a)) := by
  induction l with
  | nil => rfl
  | cons a l ih => simp [List.mapM_cons, ih]

theorem sumVars_upd_comm (size : Name → Nat) {n : Name} {vs : List Name} (hn : n ∉ vs) (G : C08.Env → R)
    (i : Nat) (env : C08.Env) :
    sumVars (sr R) size vs (fun e => G (upd e n i)) env = sumVars (sr R) size vs G (upd env n i) := by
  induction vs generalizing env with
  | nil => rfl
  | cons m vs ih =>
    have hm : n ≠ m := fun e => hn (e ▸ List.mem_cons_self)
    have hvs : n ∉ vs := fun e => hn (List.mem_cons_of_mem _ e)
    simp only [sumVars, sum1_eq]
    refine Finset.sum_congr rfl fun j _ => ?_
    rw [ih hvs, upd_comm env hm.symm]

theorem sumN_list (k : Nat) (f : Nat → R) : sumN (sr R) k f = ((List.range k).map f).sum := by
  rw [sumN_eq]
  induction k with
  | zero => simp
  | succ k ih => rw [Finset.sum_range_succ, ih, List.range_succ]; simp

/-- The heart of the bridge: evaluating `P` at every assignment of `vars` (stacked on `top`, over `L`)
    yields finite scalars whose sum is the nested named sum. -/
theorem assignments_sum (size : Name → Nat) {S' : List Name} (P : FV.Env → Option Sem) (F : C08.Env → R)
    (hP : ∀ L' e', Rep size S' L' e' → Val C (P L') (F e')) :
    ∀ (vars : List (Name × Nat)), (vars.map (·.1)).Nodup → (∀ p ∈ vars, 0 < p.2 ∧ p.2 = size p.1) →
    ∀ (top : FV.Env) (τ : C08.Env → C08.Env) (T S : List Name) (L : FV.Env) (env : C08.Env),
      (∀ S0 L0 e0, Rep size S0 L0 e0 → Rep size (T ++ S0) (top ++ L0) (τ e0)) →
      (∀ m ∈ S', m ∈ T ∨ m ∈ vars.map (·.1) ∨ m ∈ S) →
      Rep size S L env →
      ∃ vals qs, (asgL vars).mapM (fun a => P (top ++ a ++ L)) = some vals ∧
        List.Forall₂ (fun (s : Sem) q => s.shape = [] ∧ s.get [] = C.ι q) vals qs ∧ qs ≠ [] ∧
        qs.sum = sumVars (sr R) size (vars.map (·.1)) (fun e => F (τ e)) env
  | [], _, _, top, τ, T, S, L, env, hτ, hS', hr => by
    have hrep : Rep size S' (top ++ L) (τ env) := by
      intro m hm
      have := hτ S L env hr
      apply this m
      rcases hS' m hm with h | h | h
      · exact List.mem_append.mpr (Or.inl h)
      · simp at h
      · exact List.mem_append.mpr (Or.inr h)
    obtain ⟨s, hs, hs1, hs2⟩ := hP _ _ hrep
    refine ⟨[s], [F (τ env)], ?_, ?_, by simp, by simp [sumVars]⟩
    · simp [asgL, hs]
    · exact List.Forall₂.cons ⟨hs1, hs2⟩ List.Forall₂.nil
  | (n, k) :: rest, hnd, hsz, top, τ, T, S, L, env, hτ, hS', hr => by
    have hnd' : (rest.map (·.1)).Nodup := (List.nodup_cons.mp hnd).2
    have hn : n ∉ rest.map (·.1) := (List.nodup_cons.mp hnd).1
    have hk := hsz (n, k) (by simp)
    simp only at hk
    -- the inner problem for a fixed value `i` of `n`
    have inner : ∀ i : Nat, i < size n → ∃ vals qs,
        (asgL rest).mapM (fun a => P ((top ++ [(n, Sem.ofNat i)]) ++ a ++ L)) = some vals ∧
        List.Forall₂ (fun (s : Sem) q => s.shape = [] ∧ s.get [] = C.ι q) vals qs ∧ qs ≠ [] ∧
        qs.sum = sumVars (sr R) size (rest.map (·.1)) (fun e => F (τ (upd e n i))) env := by
      intro i hi
      refine assignments_sum size P F hP rest hnd' (fun p hp => hsz p (List.mem_cons_of_mem _ hp))
        (top ++ [(n, Sem.ofNat i)]) (fun e => τ (upd e n i)) (T ++ [n]) S L env ?_ ?_ hr
      · intro S0 L0 e0 h0
        have h1 := hτ (n :: S0) ((n, Sem.ofNat i) :: L0) (upd e0 n i) (Rep.push h0 n hi)
        intro m hm
        have := h1 m (by
          simp only [List.mem_append, List.mem_cons, List.not_mem_nil, or_false] at hm ⊢
          rcases hm with (h | h) | h
          · exact Or.inl h
          · exact Or.inr (Or.inl h)
          · exact Or.inr (Or.inr h))
        simpa using this
      · intro m hm
        rcases hS' m hm with h | h | h
        · exact Or.inl (List.mem_append.mpr (Or.inl h))
        · simp only [List.map_cons, List.mem_cons] at h
          rcases h with h | h
          · exact Or.inl (List.mem_append.mpr (Or.inr (by simp [h])))
          · exact Or.inr (Or.inl h)
        · exact Or.inr (Or.inr h)
    -- glue the `k` inner results together
    have glue : ∀ is : List Nat, (∀ i ∈ is, i < size n) → ∃ vals qs,
        (is.flatMap fun i => (asgL rest).map fun t => (n, Sem.ofNat i) :: t).mapM (fun a => P (top ++ a ++ L))
          = some vals ∧
        List.Forall₂ (fun (s : Sem) q => s.shape = [] ∧ s.get [] = C.ι q) vals qs ∧ (is ≠ [] → qs ≠ []) ∧
        qs.sum = (is.map fun i => sumVars (sr R) size (rest.map (·.1)) (fun e => F (τ (upd e n i))) env).sum := by
      intro is his
      induction is with
      | nil => exact ⟨[], [], by simp, List.Forall₂.nil, by simp, by simp⟩
      | cons i is ih =>
        obtain ⟨v1, q1, h1, h2, h3, h4⟩ := inner i (his i (by simp))
        obtain ⟨v2, q2, g1, g2, _, g4⟩ := ih (fun j hj => his j (List.mem_cons_of_mem _ hj))
        refine ⟨v1 ++ v2, q1 ++ q2, ?_, ?_, ?_, ?_⟩
        · simp only [List.flatMap_cons, List.mapM_append, mapM_map_opt]
          have h1' : (asgL rest).mapM (fun a => P (top ++ (n, Sem.ofNat i) :: a ++ L)) = some v1 := by
            simpa [List.append_assoc] using h1
          rw [h1', g1]
          rfl
        · exact List.rel_append h2 g2
        · intro _ e; exact h3 (List.append_eq_nil_iff.mp e).1
        · simp only [List.sum_append, List.map_cons, List.sum_cons, h4, g4]
    obtain ⟨vals, qs, e1, e2, e3, e4⟩ := glue (List.range k) (fun i hi => by
      rw [← hk.2]; exact List.mem_range.mp hi)
    refine ⟨vals, qs, by simpa [asgL] using e1, e2, e3 (by
      intro e
      have := congrArg List.length e
      simp at this; omega), ?_⟩
    rw [e4]
    simp only [List.map_cons, sumVars, sum1]
    rw [sumN_list, ← hk.2]
    congr 1
    apply List.map_congr_left
    intro i _
    exact sumVars_upd_comm size hn (fun e => F (τ e)) i env

theorem forall2_ne_nil {vals : List Sem} {qs : List R}
    (h : List.Forall₂ (fun (s : Sem) q => s.shape = [] ∧ s.get [] = C.ι q) vals qs) (hq : qs ≠ []) :
    ∃ v vs, vals = v :: vs ∧ v.shape = [] := by
  cases h with
  | nil => exact absurd rfl hq
  | cons h1 _ => exact ⟨_, _, rfl, h1.1⟩

/-- **`Contraction(⊕, bin, vars, *terms)` under the shared `denote`** is the named sum over `vars` of
    the `bin`-fold of the operands' values (`g`, `u`: the fold `bin` denotes on finite values). -/
theorem denotes_contraction (size : Name → Nat) {S : List Name} (vars : List (Name × Nat))
    (hnd : (vars.map (·.1)).Nodup) (hsz : ∀ p ∈ vars, 0 < p.2 ∧ p.2 = size p.1)
    {binName : String} {g : R → R → R} {u : R} (hu : ∀ x, g x u = x)
    (hg : ∀ a b, binop binName (C.ι a) (C.ι b) = some (C.ι (g a b)))
    {terms : List Term} {fs : List (C08.Env → R)}
    (hts : List.Forall₂ (Denotes C size (vars.map (·.1) ++ S)) terms fs) (hne : terms ≠ []) :
    Denotes C size S (Term.contraction C.addName binName (vars.map fun p => (p.1, bdom p.2)) terms)
      (sumVars (sr R) size (vars.map (·.1)) (fun e => (fs.map (· e)).foldr g u)) := by
  intro L env hr
  have hP : ∀ L' e', Rep size (vars.map (·.1) ++ S) L' e' →
      Val C (denoteProd binName terms L') ((fs.map (· e')).foldr g u) :=
    fun L' e' h => denoteProd_val hu hg terms fs hts hne L' e' h
  obtain ⟨vals, qs, h1, h2, h3, h4⟩ := assignments_sum size (denoteProd binName terms) _ hP vars hnd hsz
    [] id [] S L env (fun S0 L0 e0 h0 => by simpa using h0)
    (fun m hm => by
      rcases List.mem_append.mp hm with h | h
      · exact Or.inr (Or.inl h)
      · exact Or.inr (Or.inr h)) hr
  obtain ⟨v, vs, rfl, hv⟩ := forall2_ne_nil h2 h3
  simp only [List.nil_append] at h1
  simp only [denote, assignments_eq, h1]
  have := C.add_ne_null
  simp only [this, Bool.false_eq_true, if_false, hv]
  have := foldList_scalar h3 h2
  rw [h4] at this
  exact this

/-- `Contraction(null, bin, {}, *terms)`: the plain `bin`-fold of the operands. -/
theorem denotes_product {size : Name → Nat} {S : List Name} {binName : String} {g : R → R → R} {u : R} (hu : ∀ x, g x u = x)
    (hg : ∀ a b, binop binName (C.ι a) (C.ι b) = some (C.ι (g a b)))
    {terms : List Term} {fs : List (C08.Env → R)}
    (hts : List.Forall₂ (Denotes C size S) terms fs) (hne : terms ≠ []) :
    Denotes C size S (Term.contraction "null" binName [] terms) (fun e => (fs.map (· e)).foldr g u) := by
  intro L env hr
  obtain ⟨s, hs, hs1, hs2⟩ := denoteProd_val hu hg terms fs hts hne L env hr
  have hasg : assignments [] = some [[]] := rfl
  simp only [denote, hasg, List.mapM_cons, List.mapM_nil, List.nil_append, hs]
  exact ⟨s, by simp, hs1, hs2⟩

/-- `Contraction(⊕, null, vars, term)` (what `Reduce` normalises to). -/
theorem denotes_reduction (size : Name → Nat) {S : List Name} (vars : List (Name × Nat))
    (hnd : (vars.map (·.1)).Nodup) (hsz : ∀ p ∈ vars, 0 < p.2 ∧ p.2 = size p.1)
    {t : Term} {f : C08.Env → R} (ht : Denotes C size (vars.map (·.1) ++ S) t f) :
    Denotes C size S (Term.contraction C.addName "null" (vars.map fun p => (p.1, bdom p.2)) [t])
      (sumVars (sr R) size (vars.map (·.1)) f) := by
  intro L env hr
  have hP : ∀ L' e', Rep size (vars.map (·.1) ++ S) L' e' → Val C (denoteProd "null" [t] L') (f e') := by
    intro L' e' h
    simp only [denoteProd]
    exact ht L' e' h
  obtain ⟨vals, qs, h1, h2, h3, h4⟩ := assignments_sum size (denoteProd "null" [t]) _ hP vars hnd hsz
    [] id [] S L env (fun S0 L0 e0 h0 => by simpa using h0)
    (fun m hm => by
      rcases List.mem_append.mp hm with h | h
      · exact Or.inr (Or.inl h)
      · exact Or.inr (Or.inr h)) hr
  obtain ⟨v, vs, rfl, hv⟩ := forall2_ne_nil h2 h3
  simp only [List.nil_append] at h1
  simp only [denote, assignments_eq, h1]
  have := C.add_ne_null
  simp only [this, Bool.false_eq_true, if_false, hv]
  have := foldList_scalar h3 h2
  rw [h4] at this
  exact this


/-! ## tensor leaves -/

theorem toNat_ofNat (k : Nat) : Sem.toNat? (Sem.ofNat k) = some k := by
  simp [Sem.toNat?, Sem.ofNat, Sem.scalar]

theorem ravel_exists : ∀ (sizes idx : List Nat), List.Forall₂ (fun i s => i < s) idx sizes →
    ∃ k, ravel sizes idx = some k
  | [], [], _ => ⟨0, rfl⟩
  | s :: ss, i :: is, h => by
    cases h with
    | cons h1 h2 =>
      obtain ⟨k, hk⟩ := ravel_exists ss is h2
      exact ⟨i * prodList ss + k, by simp [ravel, h1, hk]⟩
  | [], _ :: _, h => by cases h
  | _ :: _, [], h => by cases h

/-- The value of a scalar real Tensor with named bounded-integer inputs (row-major table lookup). -/
def tval (ins : List (Name × Nat)) (raw : Array R) (env : C08.Env) : R :=
  match ravel (ins.map (·.2)) (ins.map fun p => env p.1) with
  | some k => raw.getD k 0
  | none => 0

/-- A Tensor leaf denotes its table lookup (its inputs are in scope with their declared sizes, and the
    data array covers every in-range offset). -/
theorem denotes_tensor {size : Name → Nat} {S : List Name} (ins : List (Name × Nat)) (raw : Array R)
    (hins : ∀ p ∈ ins, p.1 ∈ S ∧ p.2 = size p.1)
    (hdata : ∀ idx k, ravel (ins.map (·.2)) idx = some k → k < raw.size) :
    Denotes C size S (Term.tensor ins ⟨DType.real, []⟩ (raw.map C.ι)) (tval ins raw) := by
  intro L env hr
  have hmap : ∀ l : List (Name × Nat), (∀ p ∈ l, p.1 ∈ S) →
      l.mapM (fun (p : Name × Nat) => (FV.Env.lookup L p.1).bind Sem.toNat?) = some (l.map fun p => env p.1) := by
    intro l hl
    induction l with
    | nil => rfl
    | cons p l ih =>
      have h1 := (hr p.1 (hl p (by simp))).1
      simp only [List.mapM_cons, h1, Option.bind_some, toNat_ofNat, List.map_cons,
        ih (fun q hq => hl q (List.mem_cons_of_mem _ hq))]
      rfl
  have hb : List.Forall₂ (fun i s => i < s) (ins.map fun p => env p.1) (ins.map (·.2)) := by
    clear hdata
    induction ins with
    | nil => exact List.Forall₂.nil
    | cons p l ih =>
      have h1 := hins p (by simp)
      have h2 := (hr p.1 h1.1).2
      refine List.Forall₂.cons ?_ (ih (fun q hq => hins q (List.mem_cons_of_mem _ hq)))
      show env p.1 < p.2
      rw [h1.2]; exact h2
  have hall_gen : ∀ (a b : List Nat), List.Forall₂ (fun i s => i < s) a b →
      ((a.zip b).all fun (i, s) => decide (i < s)) = true := by
    intro a b h
    induction h with
    | nil => rfl
    | cons h _ ih => simp [h, ih]
  have hall := hall_gen _ _ hb
  obtain ⟨k, hk⟩ := ravel_exists _ _ hb
  have hklt := hdata _ k hk
  simp only [denote, hmap ins (fun p hp => (hins p hp).1), hall, if_true]
  refine ⟨_, rfl, rfl, ?_⟩
  simp only [List.append_nil, hk, tval]
  simp [Array.getD, hklt]

/-! ## substitutions and unary ops -/

/-- The wire value of a substitution argument (`denote` ignores the domain annotations). -/
def argTerm : Arg → Term
  | .var m => Term.var m (bdom 0)
  | .lit k => Term.num (XR.fin (k : ℚ)) (DType.bint 0)

def argVal (env : C08.Env) : Arg → Nat
  | .var m => env m
  | .lit k => k

theorem denoteSubs_eq {size : Name → Nat} {S : List Name} {L : FV.Env} {env : C08.Env} (hr : Rep size S L env) :
    ∀ σ : List (Name × Arg), (∀ p ∈ σ, ∀ m, p.2 = .var m → m ∈ S) →
      denoteSubs (σ.map fun p => (p.1, argTerm p.2)) L
        = some (σ.map fun p => (p.1, Sem.ofNat (argVal env p.2)))
  | [], _ => by simp [denoteSubs]
  | (n, a) :: σ, h => by
    have ih := denoteSubs_eq hr σ (fun p hp => h p (List.mem_cons_of_mem _ hp))
    cases a with
    | var m =>
      have hm := (hr m (h (n, .var m) (by simp) m rfl)).1
      have hd : denote (argTerm (Arg.var m)) L = some (Sem.ofNat (argVal env (Arg.var m))) := by
        simp only [argTerm, denote, argVal]; exact hm
      simp only [List.map_cons, denoteSubs, hd, ih]
    | lit k =>
      have hd : denote (argTerm (Arg.lit k)) L = some (Sem.ofNat (argVal env (Arg.lit k))) := by
        simp only [argTerm, denote, argVal]; rfl
      simp only [List.map_cons, denoteSubs, hd, ih]

theorem lookup_append (A B : FV.Env) (n : Name) :
    FV.Env.lookup (A ++ B) n = (match FV.Env.lookup A n with | some v => some v | none => FV.Env.lookup B n) := by
  induction A with
  | nil => rfl
  | cons p A ih =>
    obtain ⟨k, v⟩ := p
    by_cases h : (k == n) = true
    · simp [FV.Env.lookup, h]
    · simp only [List.cons_append, FV.Env.lookup, h, Bool.false_eq_true, if_false]
      exact ih

theorem lookup_map_arg (env : C08.Env) (σ : List (Name × Arg)) (n : Name) :
    FV.Env.lookup (σ.map fun p => (p.1, Sem.ofNat (argVal env p.2))) n
      = (σ.lookup n).map (fun a => Sem.ofNat (argVal env a)) := by
  induction σ with
  | nil => rfl
  | cons p σ ih =>
    obtain ⟨k, a⟩ := p
    by_cases h : k = n
    · subst h; simp [FV.Env.lookup, List.lookup]
    · have h1 : (k == n) = false := by simpa using h
      have h2 : (n == k) = false := by simpa using fun e : n = k => h e.symm
      simp only [List.map_cons, FV.Env.lookup, h1, Bool.false_eq_true, if_false, List.lookup, h2]
      exact ih

theorem mem_of_lookup {σ : List (Name × Arg)} {n : Name} {a : Arg} (h : σ.lookup n = some a) : (n, a) ∈ σ := by
  induction σ with
  | nil => simp at h
  | cons q σ ih =>
    obtain ⟨k, b⟩ := q
    simp only [List.lookup_cons] at h
    split at h
    · rename_i hk
      have : n = k := by simpa using hk
      simp only [Option.some.injEq] at h
      rw [this, h]; simp
    · exact List.mem_cons_of_mem _ (ih h)

/-- **`Subs` with a simultaneous binding list** (renamings and numbers) under the shared `denote`:
    the argument's value at the simultaneously substituted environment. -/
theorem denotes_subs {size : Name → Nat} {S S' : List Name} {t : Term} {f : C08.Env → R}
    (σ : List (Name × Arg)) (ht : Denotes C size S' t f)
    (hS' : ∀ n ∈ S', n ∈ σ.map (·.1) ∨ n ∈ S)
    (h1 : ∀ p ∈ σ, ∀ m, p.2 = .var m → m ∈ S)
    (h2 : ∀ p ∈ σ, match p.2 with | .var m => size m = size p.1 | .lit k => k < size p.1) :
    Denotes C size S (Term.subs t (σ.map fun p => (p.1, argTerm p.2))) (fun env => f (applySubs σ env)) := by
  intro L env hr
  simp only [denote, denoteSubs_eq hr σ h1]
  apply ht
  intro n hn
  rw [lookup_append, lookup_map_arg]
  unfold applySubs
  cases hl : σ.lookup n with
  | some a =>
    have hmem := mem_of_lookup hl
    have hb := h2 (n, a) hmem
    cases a with
    | var m =>
      simp only [Option.map_some, argVal]
      refine ⟨trivial, ?_⟩
      have := (hr m (h1 (n, .var m) hmem m rfl)).2
      simp only at hb
      rw [← hb]; exact this
    | lit k =>
      simp only [Option.map_some, argVal]
      exact ⟨trivial, hb⟩
  | none =>
    simp only [Option.map_none]
    rcases hS' n hn with hk | hs
    · exfalso
      obtain ⟨p, hp, hpn⟩ := List.mem_map.mp hk
      rw [List.lookup_eq_none_iff] at hl
      have := hl p hp
      simp [hpn] at this
    · exact hr n hs

/-- A pointwise unary op whose wire implementation computes `u` on embedded values. -/
theorem denotes_unary {size : Name → Nat} {S : List Name} {name : String} {u : R → R}
    (hname : reductionOps.lookup name = none ∧ name ≠ "reshape" ∧ name ≠ "getslice")
    (hu : ∀ a, unop name (C.ι a) = some (C.ι (u a)))
    {t : Term} {f : C08.Env → R} (h : Denotes C size S t f) (params : Sexp) :
    Denotes C size S (Term.unary ⟨name, params⟩ t) (fun env => u (f env)) := by
  intro L env hr
  obtain ⟨a, ha, ha1, ha2⟩ := h L env hr
  simp only [denote, ha, Option.bind_some, evalUnary, hname.1]
  split
  · exact absurd rfl hname.2.1
  · exact absurd rfl hname.2.2
  · unfold Sem.map?
    simp only [ha1, allIdx_nil, List.mapM_cons, List.mapM_nil, ha2, hu]
    exact ⟨_, rfl, rfl, by simp [ha2, hu]⟩

/-! ## the syntactic bridge: `Ex.eval` is the shared `denote` on the sum-product fragment -/

/-- Sum-product syntax with wire-term leaves: `leaf t ins f` is any wire term `t` together with the
    value `f` the specification gives it (hypothesis `Denotes` in `OKB`; for tensors and numbers this is
    C01's leaf semantics). -/
inductive ExB (R : Type) where
  | leaf (t : Term) (ins : List Name) (f : C08.Env → R)
  | num (c : R)
  | binary (op : OpK) (l r : ExB R)
  | contr (red bin : OpK) (vars : List (Name × Nat)) (ts : List (ExB R))
  | subs (e : ExB R) (σ : List (Name × Arg))
  | unary (name : String) (u : R → R) (e : ExB R)

def opName (C : Carrier R) : OpK → String
  | .null => "null"
  | .add => C.addName
  | .mul => C.mulName

mutual
  /-- The wire term (what `fv/ser.py` sends for the corresponding funsor term). -/
  def ExB.toTerm (C : Carrier R) : ExB R → Term
    | .leaf t _ _ => t
    | .num c => Term.num (C.ι c) DType.real
    | .binary op l r => Term.binary ⟨opName C op, Sexp.list []⟩ (l.toTerm C) (r.toTerm C)
    | .contr red bin vars ts =>
        Term.contraction (opName C red) (opName C bin) (vars.map fun p => (p.1, bdom p.2)) (toTermList C ts)
    | .subs e σ => Term.subs (e.toTerm C) (σ.map fun p => (p.1, argTerm p.2))
    | .unary name _ e => Term.unary ⟨name, Sexp.list []⟩ (e.toTerm C)
  def toTermList (C : Carrier R) : List (ExB R) → List Term
    | [] => []
    | t :: ts => t.toTerm C :: toTermList C ts
end

mutual
  /-- The model term the theorems of Props/C08 speak about. -/
  def ExB.toEx : ExB R → Ex R
    | .leaf _ ins f => .leaf ins f
    | .num c => .num c
    | .binary op l r => .binary op l.toEx r.toEx
    | .contr red bin vars ts => .contr red bin (vars.map (·.1)) (toExList ts)
    | .subs e σ => .subs e.toEx σ
    | .unary _ u e => .unary .null u e.toEx
  def toExList : List (ExB R) → List (Ex R)
    | [] => []
    | t :: ts => t.toEx :: toExList ts
end

mutual
  /-- Well-formedness for the bridge: leaves denote what they claim, binders are distinct with positive
      sizes equal to the global size function, operator pairs are the ones `Contraction.__init__` admits. -/
  def OKB (C : Carrier R) (size : Name → Nat) : List Name → ExB R → Prop
    | S, .leaf t _ f => Denotes C size S t f
    | _, .num _ => True
    | S, .binary op l r => op ≠ .null ∧ OKB C size S l ∧ OKB C size S r
    | S, .contr red bin vars ts =>
        (vars.map (·.1)).Nodup ∧ (∀ p ∈ vars, 0 < p.2 ∧ p.2 = size p.1) ∧ ts ≠ [] ∧
        ((red = .add ∧ (bin = .null → ts.length = 1)) ∨ (red = .null ∧ vars = [] ∧ bin ≠ .null)) ∧
        OKBList C size (vars.map (·.1) ++ S) ts
    | S, .subs e σ =>
        OKB C size (σ.map (·.1) ++ S) e ∧ (∀ p ∈ σ, ∀ m, p.2 = .var m → m ∈ S) ∧
        (∀ p ∈ σ, match p.2 with | .var m => size m = size p.1 | .lit k => k < size p.1)
    | S, .unary name u e =>
        (reductionOps.lookup name = none ∧ name ≠ "reshape" ∧ name ≠ "getslice") ∧
        (∀ a, unop name (C.ι a) = some (C.ι (u a))) ∧ OKB C size S e
  def OKBList (C : Carrier R) (size : Name → Nat) : List Name → List (ExB R) → Prop
    | _, [] => True
    | S, t :: ts => OKB C size S t ∧ OKBList C size S ts
end

theorem Denotes.congr {size : Name → Nat} {S : List Name} {t : Term} {f f' : C08.Env → R} (h : Denotes C size S t f)
    (hf : ∀ env, f env = f' env) : Denotes C size S t f' := by
  have : f = f' := funext hf
  rw [← this]; exact h

theorem toTermList_ne {ts : List (ExB R)} (h : ts ≠ []) : toTermList C ts ≠ [] := by
  cases ts with
  | nil => exact absurd rfl h
  | cons t ts => simp [toTermList]

theorem evalList_toExList (size : Name → Nat) (ts : List (ExB R)) (env : C08.Env) :
    evalList (sr R) size (toExList ts) env = ts.map (fun t => t.toEx.eval (sr R) size env) := by
  induction ts with
  | nil => simp [toExList, evalList]
  | cons t ts ih => simp [toExList, evalList, ih]

mutual
  /-- **The bridge**: on the sum-product fragment, the shared specification `denote` of the wire term is
      the value `Ex.eval` of the model term (over R, the commutative semiring (add, mul)).  Hence every
      value-preservation theorem of Props/C08 (`norm_sound`, `optimize_any_path_sound`, the rule
      theorems), instantiated at `R = R`, is a statement about `denote`. -/
  theorem bridge (size : Name → Nat) : ∀ (e : ExB R) (S : List Name), OKB C size S e →
      Denotes C size S (e.toTerm C) (fun env => e.toEx.eval (sr R) size env)
    | .leaf t ins f, S, h => by
      simp only [OKB] at h
      simpa [ExB.toTerm, ExB.toEx, Ex.eval] using h
    | .num c, S, _ => by
      simpa [ExB.toTerm, ExB.toEx, Ex.eval] using denotes_num S c DType.real
    | .binary op l r, S, h => by
      simp only [OKB] at h
      have hl := bridge size l S h.2.1
      have hr := bridge size r S h.2.2
      cases op with
      | null => exact absurd rfl h.1
      | add =>
        simp only [ExB.toTerm, ExB.toEx, opName]
        refine (denotes_binary C.add_plain binop_add hl hr _).congr ?_
        intro env; simp [Ex.eval, binFold, sumV, sr]
      | mul =>
        simp only [ExB.toTerm, ExB.toEx, opName]
        refine (denotes_binary C.mul_plain binop_mul hl hr _).congr ?_
        intro env; simp [Ex.eval, binFold, prodV, sr]
    | .contr red bin vars ts, S, h => by
      simp only [OKB] at h
      obtain ⟨hnd, hsz, hne, hops, hts⟩ := h
      have hl := bridgeList size ts _ hts
      simp only [ExB.toTerm, ExB.toEx]
      rcases hops with ⟨rfl, hb⟩ | ⟨rfl, rfl, hb⟩
      · cases bin with
        | null =>
          obtain ⟨x, rfl⟩ := List.length_eq_one_iff.mp (hb rfl)
          simp only [toTermList, opName]
          cases hl with
          | cons h1 _ =>
            refine (denotes_reduction size vars hnd hsz h1).congr ?_
            intro env
            simp only [Ex.eval, redFold, toExList, evalList, binFold]
        | add =>
          simp only [opName]
          refine (denotes_contraction size vars hnd hsz (g := (· + ·)) (u := 0) (by simp) binop_add hl
            (toTermList_ne hne)).congr ?_
          intro env
          simp only [Ex.eval, redFold]
          apply congrFun
          apply sumVars_congr
          intro e
          rw [evalList_toExList, List.map_map]
          rfl
        | mul =>
          simp only [opName]
          refine (denotes_contraction size vars hnd hsz (g := (· * ·)) (u := 1) (by simp) binop_mul hl
            (toTermList_ne hne)).congr ?_
          intro env
          simp only [Ex.eval, redFold]
          apply congrFun
          apply sumVars_congr
          intro e
          rw [evalList_toExList, List.map_map]
          rfl
      · cases bin with
        | null => exact absurd rfl hb
        | add =>
          simp only [opName, List.map_nil, List.nil_append] at hl ⊢
          refine (denotes_product (g := (· + ·)) (u := 0) (by simp) binop_add hl (toTermList_ne hne)).congr ?_
          intro env
          simp only [Ex.eval, redFold]
          rw [evalList_toExList, List.map_map]
          rfl
        | mul =>
          simp only [opName, List.map_nil, List.nil_append] at hl ⊢
          refine (denotes_product (g := (· * ·)) (u := 1) (by simp) binop_mul hl (toTermList_ne hne)).congr ?_
          intro env
          simp only [Ex.eval, redFold]
          rw [evalList_toExList, List.map_map]
          rfl
    | .subs e σ, S, h => by
      simp only [OKB] at h
      have he := bridge size e _ h.1
      simp only [ExB.toTerm, ExB.toEx]
      refine (denotes_subs σ he (fun n hn => by simpa [List.mem_append] using hn) h.2.1 h.2.2).congr ?_
      intro env; simp only [Ex.eval]
    | .unary name u e, S, h => by
      simp only [OKB] at h
      have he := bridge size e S h.2.2
      simp only [ExB.toTerm, ExB.toEx]
      refine (denotes_unary h.1 h.2.1 he _).congr ?_
      intro env; simp only [Ex.eval]
  theorem bridgeList (size : Name → Nat) : ∀ (ts : List (ExB R)) (S : List Name), OKBList C size S ts →
      List.Forall₂ (Denotes C size S) (toTermList C ts) (ts.map fun t => fun env => t.toEx.eval (sr R) size env)
    | [], _, _ => by simp [toTermList]
    | t :: ts, S, h => by
      simp only [OKBList] at h
      simp only [toTermList, List.map_cons]
      exact List.Forall₂.cons (bridge size t S h.1) (bridgeList size ts S h.2)
end

/-! ## the theorems of Props/C08, read through the shared specification -/

/-- **`norm_sound` about `denote`**: the value the shared specification gives the wire term is the
    value of the NORMALISED model term — for every fuel, every environment. -/
theorem denote_norm {size : Name → Nat} {S : List Name} {e : ExB R} (hok : OKB C size S e) (hg : Good e.toEx)
    {isU : OpK → R → Bool} (hmul : ∀ c, isU .mul c = true → c = 1) (hadd : ∀ c, isU .add c = true → c = 0)
    (fuel : Nat) :
    Denotes C size S (e.toTerm C) (fun env => (norm isU fuel e.toEx).eval (sr R) size env) :=
  (bridge size e S hok).congr (fun env => (norm_sound size hmul hadd hg fuel env).symm)

/-- **`optimize_any_path_sound` about `denote`**: for every well-formed path, the optimizer model's
    re-bracketed contraction has the value the shared specification gives `Contraction(add, mul, vars,
    *terms)`. -/
theorem denote_optimize {size : Name → Nat} {S : List Name} (vars : List (Name × Nat))
    (hnd : (vars.map (·.1)).Nodup) (hsz : ∀ p ∈ vars, 0 < p.2 ∧ p.2 = size p.1)
    {terms : List Term} {operands : List (Operand R)}
    (hts : List.Forall₂ (Denotes C size (vars.map (·.1) ++ S)) terms (operands.map (·.sem)))
    (hne : terms ≠ []) (hwf : ∀ t ∈ operands, WFop t)
    (hcover : ∀ d ∈ vars.map (·.1), d ∈ allIns operands)
    {path : List (Nat × Nat)} (hlen : path.length + 1 = operands.length)
    {res : Operand R} {trs : List StepTrace} {fin : List Name}
    (h : optimize (sr R) size (vars.map (·.1)) operands path = some (res, trs, fin)) :
    Denotes C size S (Term.contraction C.addName C.mulName (vars.map fun p => (p.1, bdom p.2)) terms) res.sem := by
  have hs := (optimize_any_path_sound size hnd hwf hcover hlen h).1
  refine (denotes_contraction size vars hnd hsz (g := (· * ·)) (u := 1) (by simp) binop_mul hts hne).congr ?_
  intro env
  rw [hs]
  unfold contractSpec
  apply congrFun
  apply sumVars_congr
  intro e
  simp only [prodL, prodV, List.map_map]
  rfl

/-- Non-vacuity: `Σ_i f(i) · g(i)` with two Tensor leaves satisfies the bridge's hypotheses. -/
example :
    let size : Name → Nat := fun _ => 3
    let f : ExB R := .leaf (Term.tensor [("i", 3)] ⟨DType.real, []⟩ (#[1, 2, 3].map C.ι)) ["i"] (tval [("i", 3)] #[1, 2, 3])
    let g : ExB R := .leaf (Term.tensor [("i", 3)] ⟨DType.real, []⟩ (#[4, 5, 6].map C.ι)) ["i"] (tval [("i", 3)] #[4, 5, 6])
    OKB C size [] (.contr .add .mul [("i", 3)] [f, g]) := by
  intro size f g
  have hrav : ∀ idx k, ravel ([("i", 3)].map (·.2)) idx = some k → k < 3 := by
    intro idx k h
    match idx, h with
    | [], h => simp [ravel] at h
    | [i], h =>
      simp only [List.map_cons, List.map_nil, ravel] at h
      split at h
      · simp [prodList] at h; omega
      · simp at h
    | _ :: _ :: _, h => simp [ravel] at h
  simp only [OKB, OKBList, f, g]
  refine ⟨by simp, by simp [size], by simp, Or.inl (by simp), ?_, ?_, trivial⟩
  · exact denotes_tensor [("i", 3)] #[1, 2, 3] (by simp [size]) (by simpa using hrav)
  · exact denotes_tensor [("i", 3)] #[4, 5, 6] (by simp [size]) (by simpa using hrav)

end FV.Props.C08.Bridge
