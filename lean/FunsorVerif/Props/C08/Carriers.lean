/-
  Props/C08/Carriers.lean — instances of `Carrier` (Bridge.lean): the commutative semirings the check
  computes in, embedded in XR so that the wire operators compute their `+` / `*`.  With these, the generic
  `bridge`, `denote_norm`, `denote_optimize` are statements about the shared `denote` for
      (add, mul) on ℚ,  (min, add) on ℚ ∪ {+inf},  (max, add) on ℚ ∪ {-inf},  (or, and) on {0, 1}.
  Not covered: (max, mul) / (min, mul) on the non-negatives (no commutative-semiring instance in the library;
  the laws hold only on the restricted carrier), (logaddexp, add) (transcendental: outside XR).
-/
import FunsorVerif.Props.C08.Bridge
import Mathlib.Algebra.Tropical.Basic
import Mathlib.Algebra.Order.AddGroupWithTop
import Mathlib.Algebra.Order.Ring.Rat
import Mathlib.Algebra.Ring.Defs
namespace FV.Props.C08.Bridge
open FV FV.C08 Tropical

def ratCarrier : Carrier ℚ :=
  ⟨XR.fin, "add", "mul", fun _ _ => rfl, fun _ _ => rfl, by decide, by decide, by decide⟩

def minEmbW : WithTop ℚ → XR
  | ⊤ => XR.pinf
  | (q : ℚ) => XR.fin q

def minEmb (x : Tropical (WithTop ℚ)) : XR := minEmbW (untrop x)

theorem minEmbW_min (a b : WithTop ℚ) : XR.min (minEmbW a) (minEmbW b) = minEmbW (min a b) := by
  cases a with
  | top => cases b with
    | top => simp [minEmbW, XR.min, XR.le]
    | coe b => simp [minEmbW, XR.min, XR.le]
  | coe a => cases b with
    | top => simp [minEmbW, XR.min, XR.le]
    | coe b =>
      rw [← WithTop.coe_min]
      simp only [minEmbW, XR.min, XR.le, min_def]
      by_cases h : a ≤ b <;> simp [h]

theorem minEmbW_add (a b : WithTop ℚ) : XR.add (minEmbW a) (minEmbW b) = minEmbW (a + b) := by
  cases a with
  | top => cases b <;> simp [minEmbW, XR.add]
  | coe a => cases b with
    | top => simp [minEmbW, XR.add]
    | coe b => rw [← WithTop.coe_add]; simp [minEmbW, XR.add]

/-- min-plus: `Tropical (WithTop ℚ)` with (min, add), `⊤ ↦ +inf`. -/
def minAddCarrier : Carrier (Tropical (WithTop ℚ)) where
  ι := minEmb
  addName := "min"
  mulName := "add"
  hadd a b := by
    show some (XR.min (minEmb a) (minEmb b)) = some (minEmb (a + b))
    rw [minEmb, minEmb, minEmb, minEmbW_min, Tropical.untrop_add]
  hmul a b := by
    show some (XR.add (minEmb a) (minEmb b)) = some (minEmb (a * b))
    rw [minEmb, minEmb, minEmb, minEmbW_add, Tropical.untrop_mul]
  add_ne_null := by decide
  add_plain := by decide
  mul_plain := by decide

/-! max-plus: `Tropical (WithTop ℚᵒᵈ)` (the order dual turns `min` into `max`), `⊤ ↦ -inf`. -/

def maxEmbW : WithTop ℚᵒᵈ → XR
  | ⊤ => XR.ninf
  | (q : ℚᵒᵈ) => XR.fin (OrderDual.ofDual q)

def maxEmb (x : Tropical (WithTop ℚᵒᵈ)) : XR := maxEmbW (untrop x)

theorem maxEmbW_min (a b : WithTop ℚᵒᵈ) : XR.max (maxEmbW a) (maxEmbW b) = maxEmbW (min a b) := by
  cases a with
  | top => cases b with
    | top => simp [maxEmbW, XR.max, XR.le]
    | coe b => simp [maxEmbW, XR.max, XR.le]
  | coe a => cases b with
    | top => simp [maxEmbW, XR.max, XR.le]
    | coe b =>
      rw [← WithTop.coe_min]
      simp only [maxEmbW, XR.max, XR.le, min_def]
      by_cases h : a ≤ b
      · have h' : OrderDual.ofDual b ≤ OrderDual.ofDual a := h
        by_cases h2 : OrderDual.ofDual a ≤ OrderDual.ofDual b
        · have : OrderDual.ofDual a = OrderDual.ofDual b := le_antisymm h2 h'
          simp [h, h2, this]
        · simp [h, h2]
      · have h' : ¬ OrderDual.ofDual b ≤ OrderDual.ofDual a := h
        have h2 : OrderDual.ofDual a ≤ OrderDual.ofDual b := le_of_lt (not_le.mp h')
        simp [h, h2]

theorem maxEmbW_add (a b : WithTop ℚᵒᵈ) : XR.add (maxEmbW a) (maxEmbW b) = maxEmbW (a + b) := by
  cases a with
  | top => cases b <;> simp [maxEmbW, XR.add]
  | coe a => cases b with
    | top => simp [maxEmbW, XR.add]
    | coe b => rw [← WithTop.coe_add]; simp [maxEmbW, XR.add]

def maxAddCarrier : Carrier (Tropical (WithTop ℚᵒᵈ)) where
  ι := maxEmb
  addName := "max"
  mulName := "add"
  hadd a b := by
    show some (XR.max (maxEmb a) (maxEmb b)) = some (maxEmb (a + b))
    rw [maxEmb, maxEmb, maxEmb, maxEmbW_min, Tropical.untrop_add]
  hmul a b := by
    show some (XR.add (maxEmb a) (maxEmb b)) = some (maxEmb (a * b))
    rw [maxEmb, maxEmb, maxEmb, maxEmbW_add, Tropical.untrop_mul]
  add_ne_null := by decide
  add_plain := by decide
  mul_plain := by decide

/-! the boolean semiring (or, and) -/

/-- Booleans with `+ = or`, `* = and`. -/
structure BoolOA where
  val : Bool
  deriving DecidableEq

instance : Add BoolOA := ⟨fun a b => ⟨a.val || b.val⟩⟩
instance : Mul BoolOA := ⟨fun a b => ⟨a.val && b.val⟩⟩
instance : Zero BoolOA := ⟨⟨false⟩⟩
instance : One BoolOA := ⟨⟨true⟩⟩

instance : CommSemiring BoolOA where
  add_assoc := by rintro ⟨a⟩ ⟨b⟩ ⟨c⟩; cases a <;> cases b <;> cases c <;> rfl
  zero_add := by rintro ⟨a⟩; cases a <;> rfl
  add_zero := by rintro ⟨a⟩; cases a <;> rfl
  add_comm := by rintro ⟨a⟩ ⟨b⟩; cases a <;> cases b <;> rfl
  left_distrib := by rintro ⟨a⟩ ⟨b⟩ ⟨c⟩; cases a <;> cases b <;> cases c <;> rfl
  right_distrib := by rintro ⟨a⟩ ⟨b⟩ ⟨c⟩; cases a <;> cases b <;> cases c <;> rfl
  zero_mul := by rintro ⟨a⟩; cases a <;> rfl
  mul_zero := by rintro ⟨a⟩; cases a <;> rfl
  mul_assoc := by rintro ⟨a⟩ ⟨b⟩ ⟨c⟩; cases a <;> cases b <;> cases c <;> rfl
  one_mul := by rintro ⟨a⟩; cases a <;> rfl
  mul_one := by rintro ⟨a⟩; cases a <;> rfl
  mul_comm := by rintro ⟨a⟩ ⟨b⟩; cases a <;> cases b <;> rfl
  nsmul := nsmulRec
  npow := npowRec

/-- (or, and) on `{0, 1}`. -/
def orAndCarrier : Carrier BoolOA where
  ι := fun b => boolXR b.val
  addName := "or"
  mulName := "and"
  hadd := by rintro ⟨a⟩ ⟨b⟩; cases a <;> cases b <;> decide
  hmul := by rintro ⟨a⟩ ⟨b⟩; cases a <;> cases b <;> decide
  add_ne_null := by decide
  add_plain := by decide
  mul_plain := by decide


/-! ## the closure and optimizer theorems about `denote`, per carrier (instances of the generic ones) -/

theorem denote_norm_minAdd {size : Name → Nat} {S : List Name} {e : ExB (Tropical (WithTop ℚ))}
    (hok : OKB minAddCarrier size S e) (hg : Good e.toEx) {isU : OpK → Tropical (WithTop ℚ) → Bool}
    (hmul : ∀ c, isU .mul c = true → c = 1) (hadd : ∀ c, isU .add c = true → c = 0) (fuel : Nat) :
    Denotes minAddCarrier size S (e.toTerm minAddCarrier)
      (fun env => (norm isU fuel e.toEx).eval (sr _) size env) :=
  denote_norm hok hg hmul hadd fuel

theorem denote_norm_maxAdd {size : Name → Nat} {S : List Name} {e : ExB (Tropical (WithTop ℚᵒᵈ))}
    (hok : OKB maxAddCarrier size S e) (hg : Good e.toEx) {isU : OpK → Tropical (WithTop ℚᵒᵈ) → Bool}
    (hmul : ∀ c, isU .mul c = true → c = 1) (hadd : ∀ c, isU .add c = true → c = 0) (fuel : Nat) :
    Denotes maxAddCarrier size S (e.toTerm maxAddCarrier)
      (fun env => (norm isU fuel e.toEx).eval (sr _) size env) :=
  denote_norm hok hg hmul hadd fuel

theorem denote_norm_orAnd {size : Name → Nat} {S : List Name} {e : ExB BoolOA}
    (hok : OKB orAndCarrier size S e) (hg : Good e.toEx) {isU : OpK → BoolOA → Bool}
    (hmul : ∀ c, isU .mul c = true → c = 1) (hadd : ∀ c, isU .add c = true → c = 0) (fuel : Nat) :
    Denotes orAndCarrier size S (e.toTerm orAndCarrier)
      (fun env => (norm isU fuel e.toEx).eval (sr _) size env) :=
  denote_norm hok hg hmul hadd fuel

/-- The zero / one of each carrier are what `UNITS` holds for its operators (cf. Tables.lean). -/
theorem carrier_units :
    minAddCarrier.ι 0 = XR.pinf ∧ minAddCarrier.ι 1 = XR.fin 0 ∧ maxAddCarrier.ι 0 = XR.ninf ∧
    maxAddCarrier.ι 1 = XR.fin 0 ∧ orAndCarrier.ι 0 = XR.fin 0 ∧ orAndCarrier.ι 1 = XR.fin 1 ∧
    ratCarrier.ι 0 = XR.fin 0 ∧ ratCarrier.ι 1 = XR.fin 1 := by
  refine ⟨rfl, ?_, rfl, ?_, rfl, rfl, rfl, rfl⟩ <;> rfl

end FV.Props.C08.Bridge
