/-
  Props/C08/Closure.lean — the closure theorem for the bottom-up normaliser:

      norm_sound :  Good t  →  ∀ env, (norm isU fuel t).eval env = t.eval env     (every fuel)

  `Good` is the invariant that is (a) true of terms reflected from user expressions, (b) preserved by
  EVERY rule of the normalize cascade and by normalising sub-terms, (c) strong enough for every rule's
  side condition:
    * structural sanity of every Contraction / Reduce node (the transient forms the cascade passes
      through — `(add, add)`, `(null, null)` with one term — included);
    * SCOPING: no binder is re-bound below itself, and the binders below a substitution are fresh for its
      keys and for the variables it introduces.  Scoping is path-wise: SIBLINGS MAY SHARE BINDERS (the
      `red_op is bin_op` rule itself creates such siblings, and so do hash-consed user terms), and the
      normalize rules never need more;
    * leaves look only at their inputs; tagged unary / inverse-binary ops satisfy their algebraic law.
  What scoping does NOT give is freshness of an operand's binders for its ⊗-SIBLINGS, which unfold's
  pull rule needs: `pull_breaks_scoping_witness` shows that rule taking a `Good` term with sibling-shared
  binders to a term that re-binds a binder below itself and has a different value — the formal content of
  finding KF-shared-binder-unfold.  Under the extra hypothesis (`OperandOK` of Rules.lean: the operand's
  binders are fresh for its siblings) the unfold rules preserve the value (`unfoldAt_sound`); the other two
  unfold branches (distribution, fusion) preserve the invariant outright (`unfoldAt_step_of_not_pull`).
-/
import FunsorVerif.Props.C08.Rules
namespace FV.Props.C08
open FV.C08 Finset

set_option linter.unusedSectionVars false
set_option linter.unusedSimpArgs false
set_option linter.unusedVariables false

variable {R : Type} [CommSemiring R] (size : Name → Nat)

/-! ## binders -/

mutual
  /-- All names bound anywhere in the term (at any position). -/
  def bnd : Ex R → List Name
    | .leaf _ _ => []
    | .num _ => []
    | .binary _ l r => bnd l ++ bnd r
    | .reduce _ vars e => vars ++ bnd e
    | .contr _ _ vars ts => vars ++ bndList ts
    | .subs e _ => bnd e
    | .unary _ _ e => bnd e
    | .binop _ _ _ l r => bnd l ++ bnd r
  def bndList : List (Ex R) → List Name
    | [] => []
    | t :: ts => bnd t ++ bndList ts
end

theorem mem_bndList {ts : List (Ex R)} {d : Name} : d ∈ bndList ts ↔ ∃ t ∈ ts, d ∈ bnd t := by
  induction ts with
  | nil => simp [bndList]
  | cons t ts ih => simp [bndList, ih]

/-- Structural sanity of a Contraction node, transient forms included. -/
def Sane (red bin : OpK) (vars : List Name) (ts : List (Ex R)) : Prop :=
  ts ≠ [] ∧ red ≠ .mul ∧ (red = .null → vars = []) ∧ (bin = .null → ts.length = 1)

mutual
  /-- The invariant of the normaliser (see the file header). -/
  def Good : Ex R → Prop
    | .leaf ins f => DependsOn f ins
    | .num _ => True
    | .binary op l r => op ≠ .null ∧ Good l ∧ Good r
    | .reduce op vars e => op ≠ .mul ∧ (op = .null → vars = []) ∧ (∀ d ∈ vars, d ∉ bnd e) ∧ Good e
    | .contr red bin vars ts => Sane red bin vars ts ∧ (∀ d ∈ vars, d ∉ bndList ts) ∧ GoodList ts
    | .subs e σ => (∀ d ∈ bnd e, d ∉ σ.map (·.1) ∧ ∀ p ∈ σ, p.2 ≠ .var d) ∧ Good e
    | .unary hom u e =>
        (hom ≠ .null → ∀ xs : List R, u (binFold (sr R) hom xs) = binFold (sr R) hom (xs.map u)) ∧ Good e
    | .binop k u f l r =>
        (k ≠ .null → (∀ a b, f a b = binFold (sr R) k [a, u b]) ∧
          ∀ xs : List R, u (binFold (sr R) k xs) = binFold (sr R) k (xs.map u)) ∧ Good l ∧ Good r
  def GoodList : List (Ex R) → Prop
    | [] => True
    | t :: ts => Good t ∧ GoodList ts
end

theorem goodList_iff {ts : List (Ex R)} : GoodList ts ↔ ∀ t ∈ ts, Good t := by
  induction ts with
  | nil => simp [GoodList]
  | cons t ts ih => simp [GoodList, ih]

mutual
  theorem good_leavesWF : ∀ t : Ex R, Good t → LeavesWF t
    | .leaf _ _, h => by simpa [Good, LeavesWF] using h
    | .num _, _ => by simp [LeavesWF]
    | .binary _ l r, h => by
      simp only [Good] at h; simp only [LeavesWF]
      exact ⟨good_leavesWF l h.2.1, good_leavesWF r h.2.2⟩
    | .reduce op vars e, h => by
      simp only [Good] at h; simp only [LeavesWF]
      refine ⟨?_, good_leavesWF e h.2.2.2⟩
      cases op with
      | null => exact Or.inr (h.2.1 rfl)
      | add => exact Or.inl rfl
      | mul => exact absurd rfl h.1
    | .contr red bin vars ts, h => by
      simp only [Good] at h; simp only [LeavesWF]
      refine ⟨?_, goodList_leavesWF ts h.2.2⟩
      obtain ⟨_, h2, h3, _⟩ := h.1
      cases red with
      | null => exact Or.inr (h3 rfl)
      | add => exact Or.inl rfl
      | mul => exact absurd rfl h2
    | .subs e _, h => by
      simp only [Good] at h; unfold LeavesWF; exact good_leavesWF e h.2
    | .unary _ _ e, h => by
      simp only [Good] at h; unfold LeavesWF; exact good_leavesWF e h.2
    | .binop _ _ _ l r, h => by
      simp only [Good] at h; simp only [LeavesWF]
      exact ⟨good_leavesWF l h.2.1, good_leavesWF r h.2.2⟩
  theorem goodList_leavesWF : ∀ ts : List (Ex R), GoodList ts → LeavesWFList ts
    | [], _ => by simp [LeavesWFList]
    | t :: ts, h => by
      simp only [GoodList] at h; simp only [LeavesWFList]
      exact ⟨good_leavesWF t h.1, goodList_leavesWF ts h.2⟩
end

/-- One rewriting step that is fine: the result satisfies the invariant, binds no new name, and has the
    same value.  Reflexive and transitive. -/
structure StepOK (t t' : Ex R) : Prop where
  good : Good t'
  bsub : ∀ d ∈ bnd t', d ∈ bnd t
  ev : ∀ env, t'.eval (sr R) size env = t.eval (sr R) size env

theorem StepOK.refl {t : Ex R} (h : Good t) : StepOK size t t := ⟨h, fun _ hd => hd, fun _ => rfl⟩

theorem StepOK.trans {a b c : Ex R} (h1 : StepOK size a b) (h2 : StepOK size b c) : StepOK size a c :=
  ⟨h2.good, fun d hd => h1.bsub d (h2.bsub d hd), fun env => (h2.ev env).trans (h1.ev env)⟩

/-! ## list lemmas -/

theorem bndList_append (a b : List (Ex R)) : bndList (a ++ b) = bndList a ++ bndList b := by
  induction a with
  | nil => simp [bndList]
  | cons t a ih => simp [bndList, ih]

theorem goodList_append {a b : List (Ex R)} : GoodList (a ++ b) ↔ GoodList a ∧ GoodList b := by
  simp only [goodList_iff, List.mem_append]
  constructor
  · intro h; exact ⟨fun t ht => h t (Or.inl ht), fun t ht => h t (Or.inr ht)⟩
  · rintro ⟨h1, h2⟩ t (ht | ht); exact h1 t ht; exact h2 t ht

theorem good_dependsOn {t : Ex R} (h : Good t) : DependsOn (fun env => t.eval (sr R) size env) t.ins :=
  eval_dependsOn size t (good_leavesWF t h)

theorem orOp_null_right (a : OpK) : orOp a .null = a := by unfold orOp; split <;> simp_all
theorem orOp_self (a : OpK) : orOp a a = a := by unfold orOp; split <;> simp_all
theorem orOp_null_left (a : OpK) : orOp .null a = a := rfl

theorem lUnion_disjoint {a b : List Name} (h : ∀ d ∈ b, d ∉ a) : lUnion a b = a ++ b := by
  unfold lUnion
  congr 1
  apply List.filter_eq_self.mpr
  intro d hd
  simpa using h d hd

/-! ## every rule of the cascade is a good step -/

/-- Fusing a nested Contraction (cnf.py:495-511) from the invariant alone. -/
theorem fuseAt_step {red bin : OpK} {vars : List Name} {pre post : List (Ex R)} {v t' : Ex R}
    (hg : Good (.contr red bin vars (pre ++ v :: post)))
    (h : fuseAt red bin vars pre v post = some t') :
    StepOK size (.contr red bin vars (pre ++ v :: post)) t' := by
  cases v <;> try (simp [fuseAt] at h; done)
  rename_i r' b' vars' ts'
  simp only [fuseAt] at h
  split at h
  swap
  · exact absurd h (by simp)
  rename_i hc
  simp only [Option.some.injEq] at h
  simp only [Good] at hg
  obtain ⟨⟨hne, hrm, hrn, hbn⟩, hbind, hgl⟩ := hg
  rw [goodList_append] at hgl
  obtain ⟨hgpre, hgv⟩ := hgl
  simp only [GoodList, Good] at hgv
  obtain ⟨⟨⟨hne', hrm', hrn', hbn'⟩, hbind', hgts'⟩, hgpost⟩ := hgv
  -- outer binders are not bound inside `v`, in particular they are not among `vars'`
  have hbv : ∀ d ∈ vars, d ∉ vars' ∧ d ∉ bndList ts' ∧ d ∉ bndList pre ∧ d ∉ bndList post := by
    intro d hd
    have := hbind d hd
    simp only [bndList_append, bndList, bnd, List.mem_append, not_or] at this
    exact ⟨this.2.1.1, this.2.1.2, this.1, this.2.2⟩
  have hdisj : ∀ d ∈ vars', d ∉ vars := fun d hd hv => (hbv d hv).1 hd
  have hun := lUnion_disjoint hdisj
  subst h
  rcases hc with ⟨hr', hb⟩ | ⟨hb, hr'⟩
  · -- the inner node is a pure ⊗ / ⊕ with the same operator
    subst hr' hb
    have hv' : vars' = [] := hrn' rfl
    subst hv'
    rw [orOp_null_right, orOp_self, hun, List.append_nil]
    by_cases hbn0 : bin = .null
    · -- degenerate: both are `null` with a single term
      subst hbn0
      have hlen := hbn rfl
      have hlen' := hbn' rfl
      have hpp : pre = [] ∧ post = [] := by
        simp only [List.length_append, List.length_cons] at hlen
        constructor <;> apply List.eq_nil_of_length_eq_zero <;> omega
      obtain ⟨rfl, rfl⟩ := hpp
      obtain ⟨x, rfl⟩ := List.length_eq_one_iff.mp hlen'
      refine ⟨?_, ?_, ?_⟩
      · simp only [Good, List.nil_append, List.append_nil]
        refine ⟨⟨by simp, hrm, hrn, fun _ => rfl⟩, ?_, hgts'⟩
        intro d hd; exact (hbv d hd).2.1
      · intro d hd
        simp only [bnd, bndList, List.nil_append, List.append_nil, List.mem_append] at hd ⊢
        rcases hd with hd | hd
        · exact Or.inl hd
        · simp [hd]
      · intro env
        simp only [List.nil_append, List.append_nil, eval_contr, List.map_cons, List.map_nil, binFold,
          redFold_nil]
    · refine ⟨?_, ?_, ?_⟩
      · simp only [Good]
        refine ⟨⟨by simp [hne'], hrm, hrn, fun e => absurd e hbn0⟩, ?_, ?_⟩
        · intro d hd
          simp only [bndList_append, List.mem_append, not_or]
          exact ⟨⟨(hbv d hd).2.2.1, (hbv d hd).2.1⟩, (hbv d hd).2.2.2⟩
        · rw [goodList_append, goodList_append]; exact ⟨⟨hgpre, hgts'⟩, hgpost⟩
      · intro d hd
        simp only [bnd, bndList_append, bndList, List.mem_append, List.nil_append] at hd ⊢
        rcases hd with hd | (hd | hd) | hd
        · exact Or.inl hd
        · exact Or.inr (Or.inl hd)
        · exact Or.inr (Or.inr (Or.inl hd))
        · exact Or.inr (Or.inr (Or.inr hd))
      · intro env
        rw [eval_contr, eval_contr]
        apply congrFun
        apply redFold_congr
        intro e
        simp only [List.map_append, List.map_cons]
        rw [eval_contr, redFold_nil, binFold_flatten hbn0]
  · -- the outer node is a pure reduction of the inner one
    subst hb
    have hlen := hbn rfl
    have hpp : pre = [] ∧ post = [] := by
      simp only [List.length_append, List.length_cons] at hlen
      constructor <;> apply List.eq_nil_of_length_eq_zero <;> omega
    obtain ⟨rfl, rfl⟩ := hpp
    rw [orOp_null_left, hun]
    simp only [List.nil_append, List.append_nil]
    have hgood : ∀ r'' : OpK, r'' ≠ .mul → (r'' = .null → vars ++ vars' = []) →
        Good (Ex.contr r'' b' (vars ++ vars') ts') := by
      intro r'' h1 h2
      simp only [Good]
      refine ⟨⟨hne', h1, h2, hbn'⟩, ?_, hgts'⟩
      intro d hd
      rcases List.mem_append.mp hd with hd | hd
      · exact (hbv d hd).2.1
      · exact hbind' d hd
    have hbsub : ∀ r'' : OpK, ∀ d ∈ bnd (Ex.contr r'' b' (vars ++ vars') ts'),
        d ∈ bnd (Ex.contr red OpK.null vars [Ex.contr r' b' vars' ts']) := by
      intro r'' d hd
      simp only [bnd, bndList, List.mem_append, List.append_nil] at hd ⊢
      rcases hd with (hd | hd) | hd
      · exact Or.inl hd
      · exact Or.inr (Or.inl hd)
      · exact Or.inr (Or.inr hd)
    have hr'' : r' = .null ∨ (r' = red ∧ red = .add) := by
      rcases hr' with hr' | hr'
      · cases hred : red with
        | null => exact Or.inl (hr'.trans hred)
        | add => exact Or.inr ⟨hr'.trans hred, rfl⟩
        | mul => exact absurd hred hrm
      · exact Or.inl hr'
    rcases hr'' with hr' | ⟨hr', hred⟩
    · subst hr'
      have hv' : vars' = [] := hrn' rfl
      subst hv'
      rw [orOp_null_right]
      refine ⟨hgood red hrm (fun e => by simp [hrn e]), hbsub red, ?_⟩
      intro env
      simp only [List.append_nil, eval_contr, List.map_cons, List.map_nil, binFold, redFold_nil]
    · subst hr' hred
      have : orOp OpK.add OpK.add = .add := rfl
      rw [this]
      refine ⟨hgood .add (by simp) (fun e => by simp at e), hbsub .add, ?_⟩
      intro env
      simp only [eval_contr, List.map_cons, List.map_nil, binFold, redFold]
      rw [sumVars_append]

theorem scan_fuse_step {red bin : OpK} {vars : List Name} {ts : List (Ex R)} {t' : Ex R}
    (hg : Good (.contr red bin vars ts)) (h : ruleFuse (.contr red bin vars ts) = some t') :
    StepOK size (.contr red bin vars ts) t' := by
  simp only [ruleFuse] at h
  obtain ⟨a, v, b, hsplit, hf⟩ := scanSplit_some _ ts [] t' h
  simp only [List.nil_append] at hsplit
  subst hsplit
  exact fuseAt_step size hg hf

/-- **Every rule of the normalize cascade is a good step** (value preserved, invariant preserved, no new
    binder), from the invariant alone. -/
theorem normRoot_step {isU : OpK → R → Bool}
    (hmul : ∀ c, isU .mul c = true → c = 1) (hadd : ∀ c, isU .add c = true → c = 0)
    {t t' : Ex R} (hg : Good t) (h : normRoot isU t = some t') : StepOK size t t' := by
  unfold normRoot at h
  cases t with
  | leaf _ _ => simp [ruleBinary, ruleReduce, ruleBinopInv, ruleSubsContr, ruleUnaryContr, ruleNullRed, ruleSingle,
      ruleTrivial, ruleRedIsBin, ruleUnits, ruleFuse] at h
  | num _ => simp [ruleBinary, ruleReduce, ruleBinopInv, ruleSubsContr, ruleUnaryContr, ruleNullRed, ruleSingle,
      ruleTrivial, ruleRedIsBin, ruleUnits, ruleFuse] at h
  | binary op l r =>
    simp only [Good] at hg
    have hb : ruleBinary (Ex.binary op l r) = some (.contr .null op [] [l, r]) := by simp [ruleBinary, hg.1]
    rw [hb] at h
    simp only [Option.orElse_some, Option.some.injEq] at h
    subst h
    refine ⟨?_, ?_, fun env => ruleBinary_sound size hb env⟩
    · simp only [Good, GoodList]
      exact ⟨⟨by simp, by simp, fun _ => rfl, fun e => absurd e hg.1⟩, by simp, hg.2.1, hg.2.2, trivial⟩
    · intro d hd; simpa [bnd, bndList] using hd
  | reduce op vars e =>
    simp only [Good] at hg
    by_cases hop : op = .null
    · subst hop
      simp [ruleBinary, ruleReduce, ruleBinopInv, ruleSubsContr, ruleUnaryContr, ruleNullRed, ruleSingle,
        ruleTrivial, ruleRedIsBin, ruleUnits, ruleFuse] at h
    · have hb : ruleReduce (Ex.reduce op vars e) = some (.contr op .null vars [e]) := by simp [ruleReduce, hop]
      simp only [ruleBinary, Option.orElse_none, hb, Option.orElse_some, Option.some.injEq] at h
      subst h
      refine ⟨?_, ?_, fun env => ruleReduce_sound size hb env⟩
      · simp only [Good, GoodList]
        refine ⟨⟨by simp, hg.1, fun e => absurd e hop, fun _ => rfl⟩, ?_, hg.2.2.2, trivial⟩
        intro d hd; simpa [bndList] using hg.2.2.1 d hd
      · intro d hd; simpa [bnd, bndList] using hd
  | binop k u f l r =>
    simp only [Good] at hg
    by_cases hk : k = .null
    · subst hk
      simp [ruleBinary, ruleReduce, ruleBinopInv, ruleSubsContr, ruleUnaryContr, ruleNullRed, ruleSingle,
        ruleTrivial, ruleRedIsBin, ruleUnits, ruleFuse] at h
    · have hb : ruleBinopInv (Ex.binop k u f l r) = some (.binary k l (.unary k u r)) := by simp [ruleBinopInv, hk]
      simp only [ruleBinary, ruleReduce, Option.orElse_none, hb, Option.orElse_some, Option.some.injEq] at h
      subst h
      refine ⟨?_, ?_, fun env => ruleBinopInv_sound size (hg.1 hk).1 hb env⟩
      · simp only [Good]
        exact ⟨hk, hg.2.1, fun _ => (hg.1 hk).2, hg.2.2⟩
      · intro d hd; simpa [bnd] using hd
  | subs e σ =>
    simp only [Good] at hg
    cases e with
    | contr red bin vars ts =>
      have hb : ruleSubsContr (Ex.subs (.contr red bin vars ts) σ) = some (.contr red bin vars (ts.map fun t =>
          if (restrictSubs σ t.ins).isEmpty then t else .subs t (restrictSubs σ t.ins))) := rfl
      simp only [ruleBinary, ruleReduce, ruleBinopInv, Option.orElse_none, hb, Option.orElse_some,
        Option.some.injEq] at h
      subst h
      obtain ⟨hfr, hgc⟩ := hg
      simp only [Good] at hgc
      obtain ⟨⟨hne, hrm, hrn, hbn⟩, hbind, hgl⟩ := hgc
      have hbmap : ∀ d, d ∈ bndList (ts.map fun t =>
          if (restrictSubs σ t.ins).isEmpty then t else Ex.subs t (restrictSubs σ t.ins)) → d ∈ bndList ts := by
        intro d hd
        obtain ⟨t, ht, hdt⟩ := mem_bndList.mp hd
        obtain ⟨t0, ht0, rfl⟩ := List.mem_map.mp ht
        refine mem_bndList.mpr ⟨t0, ht0, ?_⟩
        split at hdt
        · exact hdt
        · simpa [bnd] using hdt
      refine ⟨?_, ?_, ?_⟩
      · simp only [Good]
        refine ⟨⟨by simpa using hne, hrm, hrn, fun e => by simpa using hbn e⟩, ?_, ?_⟩
        · intro d hd hmem; exact hbind d hd (hbmap d hmem)
        · rw [goodList_iff]
          intro t ht
          obtain ⟨t0, ht0, rfl⟩ := List.mem_map.mp ht
          have hgt0 := goodList_iff.mp hgl t0 ht0
          split
          · exact hgt0
          · simp only [Good]
            refine ⟨?_, hgt0⟩
            intro d hd
            have hdb : d ∈ bnd (Ex.contr red bin vars ts) := by
              simp only [bnd, List.mem_append]
              exact Or.inr (mem_bndList.mpr ⟨t0, ht0, hd⟩)
            obtain ⟨h1, h2⟩ := hfr d hdb
            refine ⟨?_, ?_⟩
            · intro hk
              apply h1
              obtain ⟨p, hp, hpk⟩ := List.mem_map.mp hk
              exact List.mem_map.mpr ⟨p, (List.mem_filter.mp hp).1, hpk⟩
            · intro p hp; exact h2 p (List.mem_filter.mp hp).1
      · intro d hd
        simp only [bnd, List.mem_append] at hd ⊢
        rcases hd with hd | hd
        · exact Or.inl hd
        · exact Or.inr (hbmap d hd)
      · intro env
        refine ruleSubsContr_sound size ?_ ?_ hb env
        · intro d hd
          exact hfr d (by simp [bnd, hd])
        · intro t ht
          exact good_dependsOn size (goodList_iff.mp hgl t ht)
    | _ => simp [ruleBinary, ruleReduce, ruleBinopInv, ruleSubsContr, ruleUnaryContr, ruleNullRed, ruleSingle,
        ruleTrivial, ruleRedIsBin, ruleUnits, ruleFuse] at h
  | unary hom u e =>
    simp only [Good] at hg
    cases e with
    | contr red bin vars ts =>
      cases red with
      | null =>
        by_cases hc : bin ≠ .null ∧ bin = hom
        · have hb : ruleUnaryContr (Ex.unary hom u (.contr .null bin vars ts))
              = some (.contr .null bin vars (ts.map (.unary hom u))) := by simp only [ruleUnaryContr, if_pos hc]
          simp only [ruleBinary, ruleReduce, ruleBinopInv, ruleSubsContr, Option.orElse_none, hb,
            Option.orElse_some, Option.some.injEq] at h
          subst h
          obtain ⟨hhom, hgc⟩ := hg
          simp only [Good] at hgc
          obtain ⟨⟨hne, hrm, hrn, hbn⟩, hbind, hgl⟩ := hgc
          have hv : vars = [] := hrn rfl
          obtain ⟨hbn0, rfl⟩ := hc
          have hbmap : ∀ d, d ∈ bndList (ts.map (Ex.unary bin u)) → d ∈ bndList ts := by
            intro d hd
            obtain ⟨t, ht, hdt⟩ := mem_bndList.mp hd
            obtain ⟨t0, ht0, rfl⟩ := List.mem_map.mp ht
            exact mem_bndList.mpr ⟨t0, ht0, by simpa [bnd] using hdt⟩
          refine ⟨?_, ?_, fun env => ruleUnaryContr_sound size (hhom hbn0) hv hb env⟩
          · simp only [Good]
            refine ⟨⟨by simpa using hne, hrm, hrn, fun e => absurd e hbn0⟩, ?_, ?_⟩
            · intro d hd hmem; exact hbind d hd (hbmap d hmem)
            · rw [goodList_iff]
              intro t ht
              obtain ⟨t0, ht0, rfl⟩ := List.mem_map.mp ht
              simp only [Good]
              exact ⟨hhom, goodList_iff.mp hgl t0 ht0⟩
          · intro d hd
            simp only [bnd, List.mem_append] at hd ⊢
            rcases hd with hd | hd
            · exact Or.inl hd
            · exact Or.inr (hbmap d hd)
        · simp [ruleBinary, ruleReduce, ruleBinopInv, ruleSubsContr, ruleUnaryContr, hc, ruleNullRed, ruleSingle,
            ruleTrivial, ruleRedIsBin, ruleUnits, ruleFuse] at h
      | add => simp [ruleBinary, ruleReduce, ruleBinopInv, ruleSubsContr, ruleUnaryContr, ruleNullRed, ruleSingle,
          ruleTrivial, ruleRedIsBin, ruleUnits, ruleFuse] at h
      | mul => simp [ruleBinary, ruleReduce, ruleBinopInv, ruleSubsContr, ruleUnaryContr, ruleNullRed, ruleSingle,
          ruleTrivial, ruleRedIsBin, ruleUnits, ruleFuse] at h
    | _ => simp [ruleBinary, ruleReduce, ruleBinopInv, ruleSubsContr, ruleUnaryContr, ruleNullRed, ruleSingle,
        ruleTrivial, ruleRedIsBin, ruleUnits, ruleFuse] at h
  | contr red bin vars ts =>
    have hg0 := hg
    simp only [Good] at hg
    obtain ⟨⟨hne, hrm, hrn, hbn⟩, hbind, hgl⟩ := hg
    simp only [ruleBinary, ruleReduce, ruleBinopInv, ruleSubsContr, ruleUnaryContr, Option.orElse_none] at h
    cases h1 : ruleNullRed (Ex.contr red bin vars ts) with
    | some x =>
      rw [h1] at h; simp only [Option.orElse_some, Option.some.injEq] at h; subst h
      have hev := fun env => ruleNullRed_sound size h1 env
      simp only [ruleNullRed] at h1
      split at h1
      swap
      · exact absurd h1 (by simp)
      rename_i hc
      simp only [Option.some.injEq] at h1
      subst h1
      have hv : vars = [] := List.isEmpty_iff.mp hc.1
      refine ⟨?_, fun d hd => by simpa [bnd] using hd, hev⟩
      simp only [Good]
      exact ⟨⟨hne, by simp, fun _ => hv, hbn⟩, hbind, hgl⟩
    | none =>
      rw [h1] at h; simp only [Option.orElse_none] at h
      cases h2 : ruleSingle (Ex.contr red bin vars ts) with
      | some x =>
        rw [h2] at h; simp only [Option.orElse_some, Option.some.injEq] at h; subst h
        have hev := fun env => ruleSingle_sound size h2 env
        unfold ruleSingle at h2
        split at h2
        · rename_i red' bin' vars' x heq
          simp only [Ex.contr.injEq] at heq
          obtain ⟨rfl, rfl, rfl, rfl⟩ := heq
          split at h2
          swap
          · exact absurd h2 (by simp)
          simp only [Option.some.injEq] at h2
          subst h2
          refine ⟨?_, fun d hd => by simpa [bnd] using hd, hev⟩
          simp only [Good]
          exact ⟨⟨hne, hrm, hrn, fun _ => rfl⟩, hbind, hgl⟩
        · exact absurd h2 (by simp)
      | none =>
        rw [h2] at h; simp only [Option.orElse_none] at h
        cases h3 : ruleTrivial (Ex.contr red bin vars ts) with
        | some x =>
          rw [h3] at h; simp only [Option.orElse_some, Option.some.injEq] at h; subst h
          unfold ruleTrivial at h3
          split at h3
          · rename_i vars' x rest heq
            simp only [Ex.contr.injEq] at heq
            obtain ⟨rfl, rfl, rfl, rfl⟩ := heq
            simp only [Option.some.injEq] at h3
            subst h3
            have hlen := hbn rfl
            have hrest : rest = [] := by
              simp only [List.length_cons] at hlen
              apply List.eq_nil_of_length_eq_zero; omega
            subst hrest
            simp only [GoodList] at hgl
            refine ⟨hgl.1, fun d hd => by simp [bnd, bndList, hd], ?_⟩
            intro env
            exact (ruleTrivial_sound size env).2
          · exact absurd h3 (by simp)
        | none =>
          rw [h3] at h; simp only [Option.orElse_none] at h
          cases h4 : ruleRedIsBin (Ex.contr red bin vars ts) with
          | some x =>
            rw [h4] at h; simp only [Option.orElse_some, Option.some.injEq] at h; subst h
            simp only [ruleRedIsBin] at h4
            split at h4
            swap
            · exact absurd h4 (by simp)
            rename_i hc
            simp only [Option.some.injEq] at h4
            subst h4
            obtain ⟨rfl, hnn⟩ := hc
            have hra : red = .add := by cases red <;> simp_all
            subst hra
            refine ⟨?_, ?_, fun env => (ruleRedIsBin_sound size env).2⟩
            · simp only [Good]
              refine ⟨⟨by simpa using hne, by simp, fun e => by simp at e, fun e => by simp at e⟩, by simp, ?_⟩
              rw [goodList_iff]
              intro t ht
              obtain ⟨t0, ht0, rfl⟩ := List.mem_map.mp ht
              simp only [Good]
              refine ⟨by simp, fun e => by simp at e, ?_, goodList_iff.mp hgl t0 ht0⟩
              intro d hd hmem
              exact hbind d hd (mem_bndList.mpr ⟨t0, ht0, hmem⟩)
            · intro d hd
              simp only [bnd, List.nil_append] at hd
              obtain ⟨t, ht, hdt⟩ := mem_bndList.mp hd
              obtain ⟨t0, ht0, rfl⟩ := List.mem_map.mp ht
              simp only [bnd, List.mem_append] at hdt ⊢
              rcases hdt with hdt | hdt
              · exact Or.inl hdt
              · exact Or.inr (mem_bndList.mpr ⟨t0, ht0, hdt⟩)
          | none =>
            rw [h4] at h; simp only [Option.orElse_none] at h
            cases h5 : ruleUnits isU (Ex.contr red bin vars ts) with
            | some x =>
              rw [h5] at h; simp only [Option.orElse_some, Option.some.injEq] at h; subst h
              have hev := fun env => ruleUnits_sound size hmul hadd h5 env
              simp only [ruleUnits] at h5
              split at h5
              swap
              · exact absurd h5 (by simp)
              rename_i hc
              simp only [Option.some.injEq] at h5
              subst h5
              have hsub : ∀ x, x ∈ (if (ts.filter (fun t => !isUnitNum (isU bin) t)).isEmpty then ts.take 1
                  else ts.filter (fun t => !isUnitNum (isU bin) t)) → x ∈ ts := by
                intro x hx
                split at hx
                · exact List.mem_of_mem_take hx
                · exact (List.mem_filter.mp hx).1
              have hnew : (if (ts.filter (fun t => !isUnitNum (isU bin) t)).isEmpty then ts.take 1
                  else ts.filter (fun t => !isUnitNum (isU bin) t)) ≠ [] := by
                split
                · cases ts with
                  | nil => exact absurd rfl hne
                  | cons a as => simp
                · rename_i hne2
                  intro e; rw [e] at hne2; simp at hne2
              refine ⟨?_, ?_, hev⟩
              · simp only [Good]
                refine ⟨⟨hnew, hrm, hrn, fun e => absurd e hc.1⟩, ?_, ?_⟩
                · intro d hd hmem
                  obtain ⟨t, ht, hdt⟩ := mem_bndList.mp hmem
                  exact hbind d hd (mem_bndList.mpr ⟨t, hsub t ht, hdt⟩)
                · rw [goodList_iff]; intro t ht; exact goodList_iff.mp hgl t (hsub t ht)
              · intro d hd
                simp only [bnd, List.mem_append] at hd ⊢
                rcases hd with hd | hd
                · exact Or.inl hd
                · obtain ⟨t, ht, hdt⟩ := mem_bndList.mp hd
                  exact Or.inr (mem_bndList.mpr ⟨t, hsub t ht, hdt⟩)
            | none =>
              rw [h5] at h; simp only [Option.orElse_none] at h
              exact scan_fuse_step size hg0 h

/-! ## normalising the sub-terms, and the closure -/

theorem bndList_map_sub {f : Ex R → Ex R} {ts : List (Ex R)}
    (hf : ∀ c ∈ ts, ∀ d ∈ bnd (f c), d ∈ bnd c) : ∀ d ∈ bndList (ts.map f), d ∈ bndList ts := by
  intro d hd
  obtain ⟨t, ht, hdt⟩ := mem_bndList.mp hd
  obtain ⟨t0, ht0, rfl⟩ := List.mem_map.mp ht
  exact mem_bndList.mpr ⟨t0, ht0, hf t0 ht0 d hdt⟩

/-- Replacing every direct sub-term by a good step of it is a good step of the whole term. -/
theorem mapChildren_step {f : Ex R → Ex R} (hf : ∀ c, Good c → StepOK size c (f c))
    {t : Ex R} (hg : Good t) : StepOK size t (mapChildren f t) := by
  cases t with
  | leaf _ _ => exact StepOK.refl size hg
  | num _ => exact StepOK.refl size hg
  | binary op l r =>
    simp only [Good] at hg
    have hl := hf l hg.2.1
    have hr := hf r hg.2.2
    refine ⟨?_, ?_, ?_⟩
    · simp only [mapChildren, Good]; exact ⟨hg.1, hl.good, hr.good⟩
    · intro d hd
      simp only [mapChildren, bnd, List.mem_append] at hd ⊢
      rcases hd with hd | hd
      · exact Or.inl (hl.bsub d hd)
      · exact Or.inr (hr.bsub d hd)
    · intro env; simp only [mapChildren, Ex.eval, hl.ev, hr.ev]
  | binop k u g l r =>
    simp only [Good] at hg
    have hl := hf l hg.2.1
    have hr := hf r hg.2.2
    refine ⟨?_, ?_, ?_⟩
    · simp only [mapChildren, Good]; exact ⟨hg.1, hl.good, hr.good⟩
    · intro d hd
      simp only [mapChildren, bnd, List.mem_append] at hd ⊢
      rcases hd with hd | hd
      · exact Or.inl (hl.bsub d hd)
      · exact Or.inr (hr.bsub d hd)
    · intro env; simp only [mapChildren, Ex.eval, hl.ev, hr.ev]
  | reduce op vars e =>
    simp only [Good] at hg
    have he := hf e hg.2.2.2
    refine ⟨?_, ?_, ?_⟩
    · simp only [mapChildren, Good]
      exact ⟨hg.1, hg.2.1, fun d hd hmem => hg.2.2.1 d hd (he.bsub d hmem), he.good⟩
    · intro d hd
      simp only [mapChildren, bnd, List.mem_append] at hd ⊢
      rcases hd with hd | hd
      · exact Or.inl hd
      · exact Or.inr (he.bsub d hd)
    · intro env
      simp only [mapChildren, Ex.eval]
      apply congrFun
      apply redFold_congr
      intro e'; exact he.ev e'
  | unary hom u e =>
    simp only [Good] at hg
    have he := hf e hg.2
    refine ⟨?_, ?_, ?_⟩
    · simp only [mapChildren, Good]; exact ⟨hg.1, he.good⟩
    · intro d hd; simp only [mapChildren, bnd] at hd ⊢; exact he.bsub d hd
    · intro env; simp only [mapChildren, Ex.eval, he.ev]
  | subs e σ =>
    simp only [Good] at hg
    have he := hf e hg.2
    refine ⟨?_, ?_, ?_⟩
    · simp only [mapChildren, Good]; exact ⟨fun d hd => hg.1 d (he.bsub d hd), he.good⟩
    · intro d hd; simp only [mapChildren, bnd] at hd ⊢; exact he.bsub d hd
    · intro env; simp only [mapChildren, Ex.eval, he.ev]
  | contr red bin vars ts =>
    simp only [Good] at hg
    obtain ⟨⟨hne, hrm, hrn, hbn⟩, hbind, hgl⟩ := hg
    have hc : ∀ c ∈ ts, StepOK size c (f c) := fun c hc => hf c (goodList_iff.mp hgl c hc)
    have hbs := bndList_map_sub (f := f) (ts := ts) (fun c hc => (hf c (goodList_iff.mp hgl c hc)).bsub)
    refine ⟨?_, ?_, ?_⟩
    · simp only [mapChildren, Good]
      refine ⟨⟨by simpa using hne, hrm, hrn, fun e => by simpa using hbn e⟩, ?_, ?_⟩
      · intro d hd hmem; exact hbind d hd (hbs d hmem)
      · rw [goodList_iff]
        intro t ht
        obtain ⟨t0, ht0, rfl⟩ := List.mem_map.mp ht
        exact (hc t0 ht0).good
    · intro d hd
      simp only [mapChildren, bnd, List.mem_append] at hd ⊢
      rcases hd with hd | hd
      · exact Or.inl hd
      · exact Or.inr (hbs d hd)
    · intro env
      simp only [mapChildren]
      rw [eval_contr, eval_contr]
      apply congrFun
      apply redFold_congr
      intro e'
      congr 1
      rw [List.map_map]
      apply List.map_congr_left
      intro c hcm
      exact (hc c hcm).ev e'

/-- The normaliser makes only good steps — for every amount of fuel. -/
theorem norm_step {isU : OpK → R → Bool}
    (hmul : ∀ c, isU .mul c = true → c = 1) (hadd : ∀ c, isU .add c = true → c = 0) :
    ∀ (fuel : Nat) (t : Ex R), Good t → StepOK size t (norm isU fuel t)
  | 0, t, hg => by simpa [norm] using StepOK.refl size hg
  | fuel + 1, t, hg => by
    have hchild := mapChildren_step size (f := norm isU fuel) (fun c hc => norm_step hmul hadd fuel c hc) hg
    simp only [norm]
    split
    · exact hchild
    · rename_i t'' hroot
      have hroot' := normRoot_step size hmul hadd hchild.good hroot
      exact (hchild.trans size hroot').trans size (norm_step hmul hadd fuel t'' hroot'.good)

/-- **norm_sound** — the closure theorem: on every term satisfying the invariant, bottom-up
    normalisation with any fuel preserves the value at every environment; the result again satisfies the
    invariant and binds no new names. -/
theorem norm_sound {isU : OpK → R → Bool}
    (hmul : ∀ c, isU .mul c = true → c = 1) (hadd : ∀ c, isU .add c = true → c = 0)
    {t : Ex R} (hg : Good t) (fuel : Nat) (env : Env) :
    (norm isU fuel t).eval (sr R) size env = t.eval (sr R) size env :=
  (norm_step size hmul hadd fuel t hg).ev env

theorem norm_good {isU : OpK → R → Bool}
    (hmul : ∀ c, isU .mul c = true → c = 1) (hadd : ∀ c, isU .add c = true → c = 0)
    {t : Ex R} (hg : Good t) (fuel : Nat) : Good (norm isU fuel t) :=
  (norm_step (fun _ => 1) hmul hadd fuel t hg).good

/-! ## the unfold passes other than the pull -/

/-- **Distribution and fusion under unfold preserve the invariant** (optimizer.py:35-46, 57-67): at any
    operand position where the PULL branch (optimizer.py:47-55) does not apply, the unfold step is a good
    step from the invariant alone — value, scoping and sanity preserved, no new binder.  (`hsame`: the
    operand is not a same-operator transient form, which the normalize cascade rewrites before unfold ever
    sees it.)  The pull branch is the only one that needs more (`unfoldAt_sound`'s `OperandOK`) and the only
    one that can break scoping (`pull_breaks_scoping_witness`). -/
theorem unfoldAt_step_of_not_pull {red bin : OpK} {vars : List Name} {pre post : List (Ex R)} {v t' : Ex R}
    (hg : Good (.contr red bin vars (pre ++ v :: post)))
    (hnp : ∀ r' b' vars' ts', v = .contr r' b' vars' ts' → ¬((red = r' ∨ red = .null) ∧ r' = .add ∧ bin = .mul))
    (hsame : ∀ r' b' vars' ts', v = .contr r' b' vars' ts' → r' ≠ b')
    (h : unfoldAt red bin vars pre v post = some t') :
    StepOK size (.contr red bin vars (pre ++ v :: post)) t' := by
  cases v <;> try (simp [unfoldAt] at h; done)
  rename_i r' b' vars' ts'
  have hnp' := hnp r' b' vars' ts' rfl
  have hsame' := hsame r' b' vars' ts' rfl
  simp only [unfoldAt] at h
  by_cases hA : r' = .null ∧ b' = .add ∧ bin = .mul
  · -- distribution
    rw [if_pos hA] at h
    obtain ⟨hr', hb', hbin⟩ := hA
    subst hr' hb' hbin
    simp only [Option.some.injEq] at h
    subst h
    simp only [Good] at hg
    obtain ⟨⟨hne, hrm, hrn, hbn⟩, hbind, hgl⟩ := hg
    rw [goodList_append] at hgl
    obtain ⟨hgpre, hgv⟩ := hgl
    simp only [GoodList, Good] at hgv
    obtain ⟨⟨⟨hne', hrm', hrn', hbn'⟩, hbind', hgts'⟩, hgpost⟩ := hgv
    have hv' : vars' = [] := hrn' rfl
    subst hv'
    have hsubb : ∀ vt ∈ ts', ∀ d, d ∈ bndList (pre ++ vt :: post) →
        d ∈ bndList (pre ++ Ex.contr .null .add [] ts' :: post) := by
      intro vt hvt d hd
      simp only [bndList_append, bndList, bnd, List.mem_append, List.nil_append] at hd ⊢
      rcases hd with hd | hd | hd
      · exact Or.inl hd
      · exact Or.inr (Or.inl (mem_bndList.mpr ⟨vt, hvt, hd⟩))
      · exact Or.inr (Or.inr hd)
    refine ⟨?_, ?_, ?_⟩
    · simp only [Good]
      refine ⟨⟨by simpa using hne', hrm, hrn, fun e => by simp at e⟩, ?_, ?_⟩
      · intro d hd hmem
        obtain ⟨t, ht, hdt⟩ := mem_bndList.mp hmem
        obtain ⟨vt, hvt, rfl⟩ := List.mem_map.mp ht
        simp only [bnd, List.nil_append] at hdt
        exact hbind d hd (hsubb vt hvt d hdt)
      · rw [goodList_iff]
        intro t ht
        obtain ⟨vt, hvt, rfl⟩ := List.mem_map.mp ht
        simp only [Good]
        refine ⟨⟨by simp, by simp, fun _ => rfl, fun e => by simp at e⟩, by simp, ?_⟩
        rw [goodList_append]
        exact ⟨hgpre, by simp only [GoodList]; exact ⟨goodList_iff.mp hgts' vt hvt, hgpost⟩⟩
    · intro d hd
      simp only [bnd, List.mem_append] at hd ⊢
      rcases hd with hd | hd
      · exact Or.inl hd
      · obtain ⟨t, ht, hdt⟩ := mem_bndList.mp hd
        obtain ⟨vt, hvt, rfl⟩ := List.mem_map.mp ht
        simp only [bnd, List.nil_append] at hdt
        exact Or.inr (hsubb vt hvt d hdt)
    · intro env
      rw [eval_contr, eval_contr]
      apply congrFun
      apply redFold_congr
      intro e
      simp only [binFold_add, binFold_mul, List.map_map, List.map_append, List.map_cons, List.prod_append,
        List.prod_cons, Function.comp_def, eval_contr, redFold_nil]
      have hd := distrib_list (pre.map (fun t => t.eval (sr R) size e)).prod
        (post.map (fun t => t.eval (sr R) size e)).prod (ts'.map (fun t => t.eval (sr R) size e))
      rw [List.map_map] at hd
      exact hd.symm
  · rw [if_neg hA, if_neg hnp'] at h
    by_cases hc : (r' = red ∨ r' = .null) ∧ (bin = b' ∨ bin = .null)
    swap
    · rw [if_neg hc] at h; exact absurd h (by simp)
    · rw [if_pos hc] at h
      apply fuseAt_step size hg
      simp only [fuseAt]
      have hcond : (r' = .null ∧ bin = b') ∨ (bin = .null ∧ (r' = red ∨ r' = .null)) := by
        obtain ⟨hr, hb⟩ := hc
        rcases hb with hb | hb
        · rcases hr with hr | hr
          · by_cases hnull : r' = .null
            · exact Or.inl ⟨hnull, hb⟩
            · by_cases hbn : bin = .null
              · exact Or.inr ⟨hbn, Or.inl hr⟩
              · exfalso
                simp only [Good] at hg
                obtain ⟨⟨_, hrm, _, _⟩, _, _⟩ := hg
                subst hr hb
                cases r' <;> cases bin <;> simp_all
          · exact Or.inl ⟨hr, hb⟩
        · exact Or.inr ⟨hb, hr⟩
      rw [if_pos hcond]
      exact h

/-! ## the invariant holds of reflected terms — with or without sibling sharing -/

section Examples

def exSize : Name → Nat := fun _ => 3
def exF : Ex Nat := .leaf ["i"] (fun env => env "i" + 1)
def exG : Ex Nat := .leaf ["i", "j"] (fun env => env "i" * env "j")
def exIsU : OpK → Nat → Bool := fun op c => if op = .mul then c == 1 else if op = .add then c == 0 else false

theorem exF_dep : DependsOn (fun env : Env => env "i" + 1) ["i"] := fun env env' h => by
  simp [h "i" (by simp)]
theorem exG_dep : DependsOn (fun env : Env => env "i" * env "j") ["i", "j"] := fun env env' h => by
  simp [h "i" (by simp), h "j" (by simp)]

/-- Non-vacuity: `Σ_i (f(i) · 1 · g(i,j))` as reflected syntax satisfies the invariant. -/
example : Good (Ex.reduce .add ["i"] (.binary .mul (.binary .mul exF (.num 1)) exG)) := by
  simp only [Good, exF, exG, bnd]
  refine ⟨by simp, by simp, by simp, by simp, ⟨by simp, exF_dep, trivial⟩, exG_dep⟩

/-- The invariant ALSO holds of `(Σ_i f)·(Σ_i f)` with the two factors sharing the binder `i` (what a
    hash-consed Reduce gives): the normalize rules are sound on it (`norm_sound` applies). -/
theorem shared_siblings_good :
    Good (Ex.binary .mul (.reduce .add ["i"] exF) (.reduce .add ["i"] exF)) := by
  simp only [Good, exF, bnd]
  refine ⟨by simp, ⟨by simp, by simp, by simp, exF_dep⟩, ⟨by simp, by simp, by simp, exF_dep⟩⟩

/-- **What breaks the invariant** (finding KF-shared-binder-unfold): unfold's pull rule
    (optimizer.py:47-55).  `f(i) · Σ_i f(i)` under `Σ_i` — reached from the term above by one sound pull —
    satisfies everything the normalize rules need except that the binder `i` of the operand is bound
    again by the enclosing node; the rule fires, the result re-binds `i` below itself (not `Good`) and its
    value differs (42 vs 36).  No normalize rule can do this (`normRoot_step`). -/
theorem pull_breaks_scoping_witness :
    let t : Ex Nat := .contr .add .mul ["i"] [exF, .contr .add .null ["i"] [exF]]
    ∃ t', ruleUnfold t = some t'
      ∧ (∀ d ∈ ["i"], d ∈ bndList [exF, Ex.contr .add .null ["i"] [exF]])   -- `t` already re-binds `i`
      ∧ t.eval (sr Nat) exSize (fun _ => 0) = 36 ∧ t'.eval (sr Nat) exSize (fun _ => 0) = 42 :=
  ⟨_, rfl, by decide, by decide, by decide⟩

end Examples

end FV.Props.C08
