/-
  Props/C08/OptTerminal.lean — the optimizer's loop invariant at a terminal state.

  `Props/C08.lean` proves the invariant `Inv` is preserved by every step; here the terminal reading, as
  stand-alone theorems about ANY state satisfying the invariant (not only one reached by `optLoop`):

    * `inv_finalVars`        — the variables the code still reduces at the end (`counter > 0`) are exactly
                               the reduced variables some remaining operand mentions;
    * `inv_terminal_any`     — invariant (3) read with `finalVars`: reducing the product of the remaining
                               operands over `finalVars` is the target — for ANY number of remaining operands;
    * `inv_terminal`         — all operands consumed into one (`operands = [x]`): the returned value
                               `Σ_{finalVars} x` IS the target;
    * `inv_terminal_spec`    — … and equals `⨁_reduced ⨂ terms` when the target is the initial one and
                               every reduced variable is mentioned by some original operand.
-/
import FunsorVerif.Props.C08
namespace FV.Props.C08
open FV.C08 Finset

set_option linter.unusedSectionVars false
set_option linter.unusedSimpArgs false
set_option linter.unusedVariables false

variable {R : Type} [CommSemiring R] (size : Name → Nat)

/-- At any state satisfying the invariant, `finalVars` = the reduced variables still mentioned. -/
theorem inv_finalVars {reduced : List Name} {target : Env → R} {st : OptState R}
    (hinv : Inv size reduced target st) :
    finalVars reduced st.counter = reduced.filter (fun d => mentioned st.operands d) := by
  unfold finalVars
  apply List.filter_congr
  intro d hd
  rw [hinv.cnt_ok d hd]
  have hnn := cnt_nonneg st.operands d
  have hz := cnt_eq_zero_iff st.operands d
  cases hm : mentioned st.operands d with
  | false =>
    have : cnt st.operands d = 0 := hz.mpr hm
    simp [this]
  | true =>
    have : cnt st.operands d ≠ 0 := fun h0 => by rw [hz.mp h0] at hm; cases hm
    have hpos : cnt st.operands d > 0 := by omega
    simp [hpos]

/-- **Invariant (3) at any state, in the code's terms**: reducing the product of the remaining operands
    over the variables whose counter is still positive gives the target. -/
theorem inv_terminal_any {reduced : List Name} {target : Env → R} {st : OptState R}
    (hinv : Inv size reduced target st) :
    sumVars (sr R) size (finalVars reduced st.counter) (prodL (sr R) (st.operands.map (·.sem))) = target := by
  rw [inv_finalVars size hinv]; exact hinv.val

/-- **All operands consumed**: when a single operand `x` remains, the value the code returns
    (`x.reduce(add, finalVars)`) is the target. -/
theorem inv_terminal {reduced : List Name} {target : Env → R} {st : OptState R} {x : Operand R}
    (hinv : Inv size reduced target st) (hx : st.operands = [x]) :
    sumVars (sr R) size (finalVars reduced st.counter) x.sem = target := by
  have h := inv_terminal_any size hinv
  rw [hx] at h
  rw [← h]
  apply sumVars_congr
  intro env
  simp [prodL_cons, prodL_nil]

/-- … hence the final equality with the specification `⨁_reduced ⨂ terms`, for a state whose target is
    the initial one, when every reduced variable occurs in some original operand. -/
theorem inv_terminal_spec {reduced : List Name} {terms : List (Operand R)} {st : OptState R} {x : Operand R}
    (hcover : ∀ d ∈ reduced, d ∈ allIns terms)
    (hinv : Inv size reduced
      (sumVars (sr R) size (reduced.filter (fun d => mentioned terms d)) (prodL (sr R) (terms.map (·.sem)))) st)
    (hx : st.operands = [x]) :
    sumVars (sr R) size (finalVars reduced st.counter) x.sem = contractSpec (sr R) size reduced terms := by
  rw [inv_terminal size hinv hx]
  unfold contractSpec
  congr 1
  apply List.filter_eq_self.mpr
  intro d hd
  obtain ⟨t, ht, hn⟩ := List.mem_flatMap.mp (hcover d hd)
  exact List.any_eq_true.mpr ⟨t, ht, by simpa using hn⟩

/-- Non-vacuity: the initial state of a one-operand problem is terminal and satisfies the invariant. -/
example : ∃ st : OptState Nat, st.operands = [wF] ∧
    Inv wSize ["i"]
      (sumVars (sr Nat) wSize (["i"].filter (fun d => mentioned [wF] d)) (prodL (sr Nat) ([wF].map (·.sem)))) st :=
  ⟨_, rfl, inv_init wSize ["i"] [wF] (fun t ht => by
    simp only [List.mem_singleton] at ht; subst ht; exact wF_wf)⟩

end FV.Props.C08
