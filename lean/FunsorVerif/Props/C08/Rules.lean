/-
  Props/C08/Rules.lean — soundness of the normalize rules (funsor/cnf.py:400-600) and of the unfold rules
  (funsor/optimizer.py:24-71), each as a rewrite `Ex R → Option (Ex R)` of Model/C08.lean with a
  value-preservation theorem over an arbitrary commutative semiring `R`, under exactly the side
  conditions it needs; `normalize_idempotent_flat`.
-/
import FunsorVerif.Props.C08
import Mathlib.Tactic.Ring
namespace FV.Props.C08
open FV.C08 Finset

set_option linter.unusedSectionVars false
set_option linter.unusedSimpArgs false
set_option linter.unusedVariables false

variable {R : Type} [CommSemiring R] (size : Name → Nat)

/-! ## evaluation lemmas -/

theorem evalList_eq_map (ts : List (Ex R)) (env : Env) :
    evalList (sr R) size ts env = ts.map (fun t => t.eval (sr R) size env) := by
  induction ts with
  | nil => simp [evalList]
  | cons t ts ih => simp [evalList, ih]

theorem sumV_eq (xs : List R) : sumV (sr R) xs = xs.sum := by
  unfold sumV; induction xs with
  | nil => simp [sr]
  | cons x xs ih => rw [List.foldr_cons, ih, List.sum_cons]; rfl

theorem binFold_mul (xs : List R) : binFold (sr R) .mul xs = xs.prod := by simp [binFold, prodV_eq]
theorem binFold_add (xs : List R) : binFold (sr R) .add xs = xs.sum := by simp [binFold, sumV_eq]

theorem eval_contr (red bin : OpK) (vars : List Name) (ts : List (Ex R)) (env : Env) :
    (Ex.contr red bin vars ts).eval (sr R) size env
      = redFold (sr R) size red vars (fun env' => binFold (sr R) bin (ts.map (fun t => t.eval (sr R) size env'))) env := by
  simp only [Ex.eval, evalList_eq_map]

theorem redFold_nil (red : OpK) (f : Env → R) : redFold (sr R) size red [] f = f := by
  cases red <;> rfl

theorem redFold_congr (red : OpK) (vars : List Name) {f g : Env → R} (h : ∀ env, f env = g env) :
    redFold (sr R) size red vars f = redFold (sr R) size red vars g := by
  have : f = g := funext h
  rw [this]

/-- Flattening a nested ⊕ / ⊗ of values (associativity). -/
theorem binFold_flatten {bin : OpK} (hb : bin ≠ .null) (pre xs post : List R) :
    binFold (sr R) bin (pre ++ binFold (sr R) bin xs :: post) = binFold (sr R) bin (pre ++ xs ++ post) := by
  cases bin with
  | null => exact absurd rfl hb
  | add => simp only [binFold_add, List.sum_append, List.sum_cons]; rw [add_assoc]
  | mul => simp only [binFold_mul, List.prod_append, List.prod_cons]; rw [mul_assoc]

theorem sumVars_zero (vs : List Name) : sumVars (sr R) size vs (fun _ => (0 : R)) = fun _ => 0 := by
  induction vs with
  | nil => rfl
  | cons n vs ih =>
    simp only [sumVars, ih]
    funext env
    simp [sum1_eq]

theorem sumVars_add (vs : List Name) (f g : Env → R) :
    sumVars (sr R) size vs (fun env => f env + g env)
      = fun env => sumVars (sr R) size vs f env + sumVars (sr R) size vs g env := by
  induction vs with
  | nil => rfl
  | cons n vs ih => simp only [sumVars, ih]; exact sum1_add size _ _

/-- `⨁_vars` commutes with a finite ⊕ of terms. -/
theorem sumVars_listSum (vs : List Name) (fs : List (Env → R)) :
    sumVars (sr R) size vs (fun env => (fs.map (· env)).sum)
      = fun env => (fs.map (fun f => sumVars (sr R) size vs f env)).sum := by
  induction fs with
  | nil => simpa using sumVars_zero size vs
  | cons f fs ih =>
    simp only [List.map_cons, List.sum_cons]
    rw [sumVars_add, ih]

/-! ## the scan over operands -/

theorem scanSplit_some {τ β : Type} (f : List τ → τ → List τ → Option β) :
    ∀ (rest pre : List τ) (r : β), scanSplit f pre rest = some r →
      ∃ a v b, pre ++ rest = a ++ v :: b ∧ f a v b = some r
  | [], _, _, h => by simp [scanSplit] at h
  | v :: post, pre, r, h => by
    simp only [scanSplit] at h
    split at h
    · rename_i r' hf
      simp only [Option.some.injEq] at h
      exact ⟨pre, v, post, rfl, h ▸ hf⟩
    · obtain ⟨a, v', b, h1, h2⟩ := scanSplit_some f post (pre ++ [v]) r h
      exact ⟨a, v', b, by simpa using h1, h2⟩

/-! ## normalize: the rules of cnf.py:464-524 -/

theorem ruleNullRed_sound {t t' : Ex R} (h : ruleNullRed t = some t') (env : Env) :
    t'.eval (sr R) size env = t.eval (sr R) size env := by
  cases t <;> try (simp [ruleNullRed] at h; done)
  rename_i red bin vars ts
  simp only [ruleNullRed] at h
  split at h
  · rename_i hc
    simp only [Option.some.injEq] at h
    have hv : vars = [] := List.isEmpty_iff.mp hc.1
    subst hv
    rw [← h, eval_contr, eval_contr, redFold_nil, redFold_nil]
  · exact absurd h (by simp)

theorem ruleSingle_sound {t t' : Ex R} (h : ruleSingle t = some t') (env : Env) :
    t'.eval (sr R) size env = t.eval (sr R) size env := by
  unfold ruleSingle at h
  split at h
  · rename_i red bin vars x
    split at h
    · simp only [Option.some.injEq] at h
      rw [← h, eval_contr, eval_contr]
      apply congrFun
      apply redFold_congr
      intro e
      cases bin <;> simp [binFold, prodV, sumV, sr]
    · exact absurd h (by simp)
  · exact absurd h (by simp)

/-- `Contraction(null, null, {}, t)` is `t` (the code returns `terms[0]`; there is exactly one term). -/
theorem ruleTrivial_sound {vars : List Name} {x : Ex R} (env : Env) :
    ruleTrivial (.contr .null .null vars [x]) = some x
      ∧ x.eval (sr R) size env = (Ex.contr .null .null vars [x]).eval (sr R) size env := by
  refine ⟨rfl, ?_⟩
  rw [eval_contr]
  rfl

/-- `red_op is bin_op` (cnf.py:475-477): the reduction is pushed into EVERY term. -/
theorem ruleRedIsBin_sound {vars : List Name} {ts : List (Ex R)} (env : Env) :
    ruleRedIsBin (.contr .add .add vars ts) = some (.contr .add .add [] (ts.map (.reduce .add vars)))
      ∧ (Ex.contr .add .add [] (ts.map (Ex.reduce .add vars))).eval (sr R) size env
          = (Ex.contr .add .add vars ts).eval (sr R) size env := by
  refine ⟨by simp [ruleRedIsBin], ?_⟩
  rw [eval_contr, eval_contr, redFold_nil]
  simp only [redFold, binFold_add, List.map_map]
  have := sumVars_listSum size vars (ts.map (fun t => fun env' => t.eval (sr R) size env'))
  simp only [List.map_map] at this
  have h2 := congrFun this env
  simp only [Function.comp_def] at h2 ⊢
  rw [h2]
  simp [Ex.eval, redFold]

/-- Pushing the reduction into only ONE term (what the eager rule did before 4cb8543) is wrong:
    `Σ_k (t + g_k)` with `t` independent of `k`. -/
theorem redIsBin_single_push_witness :
    let size : Name → Nat := fun _ => 4
    let t : Ex Nat := .leaf [] (fun _ => 1)
    let g : Ex Nat := .leaf ["k"] (fun env => env "k")
    (Ex.contr .add .add ["k"] [t, g]).eval (sr Nat) size (fun _ => 0) = 10
      ∧ (Ex.contr .add .add [] [t, .reduce .add ["k"] g]).eval (sr Nat) size (fun _ => 0) = 7 := by
  decide

/-- Unit removal (cnf.py:479-489) is sound when the table's entry is the operation's neutral element. -/
theorem ruleUnits_sound {isU : OpK → R → Bool}
    (hmul : ∀ c, isU .mul c = true → c = 1) (hadd : ∀ c, isU .add c = true → c = 0)
    {t t' : Ex R} (h : ruleUnits isU t = some t') (env : Env) :
    t'.eval (sr R) size env = t.eval (sr R) size env := by
  cases t <;> try (simp [ruleUnits] at h; done)
  rename_i red bin vars ts
  simp only [ruleUnits] at h
  split at h
  swap
  · exact absurd h (by simp)
  rename_i hc
  simp only [Option.some.injEq] at h
  rw [← h, eval_contr, eval_contr]
  apply congrFun
  apply redFold_congr
  intro e
  -- the unit of `bin`
  have hunit : ∀ x : Ex R, isUnitNum (isU bin) x = true →
      x.eval (sr R) size e = (if bin = .mul then 1 else 0) := by
    intro x hx
    cases x <;> try (simp [isUnitNum] at hx; done)
    simp only [isUnitNum] at hx
    rename_i c
    cases bin with
    | null => exact absurd rfl hc.1
    | add => simp [Ex.eval, hadd c hx]
    | mul => simp [Ex.eval, hmul c hx]
  have hfilter : ∀ l : List (Ex R),
      binFold (sr R) bin ((l.filter (fun t => !isUnitNum (isU bin) t)).map (fun t => t.eval (sr R) size e))
        = binFold (sr R) bin (l.map (fun t => t.eval (sr R) size e)) := by
    intro l
    induction l with
    | nil => rfl
    | cons x l ih =>
      by_cases hx : isUnitNum (isU bin) x = true
      · have := hunit x hx
        cases bin with
        | null => exact absurd rfl hc.1
        | add =>
          simp only [List.filter_cons, hx, Bool.not_true, Bool.false_eq_true, if_false, List.map_cons,
            binFold_add, List.sum_cons] at ih ⊢
          rw [ih, this]; simp
        | mul =>
          simp only [List.filter_cons, hx, Bool.not_true, Bool.false_eq_true, if_false, List.map_cons,
            binFold_mul, List.prod_cons] at ih ⊢
          rw [ih, this]; simp
      · have hx' : isUnitNum (isU bin) x = false := by simpa using hx
        cases bin with
        | null => exact absurd rfl hc.1
        | add =>
          simp only [List.filter_cons, hx', Bool.not_false, if_true, List.map_cons, binFold_add,
            List.sum_cons] at ih ⊢
          rw [ih]
        | mul =>
          simp only [List.filter_cons, hx', Bool.not_false, if_true, List.map_cons, binFold_mul,
            List.prod_cons] at ih ⊢
          rw [ih]
  split
  · -- everything was a unit: keep the first term
    rename_i hempty
    have hall : ∀ x ∈ ts, isUnitNum (isU bin) x = true := by
      intro x hx
      by_contra hne
      have : x ∈ ts.filter (fun t => !isUnitNum (isU bin) t) :=
        List.mem_filter.mpr ⟨hx, by simpa using hne⟩
      rw [List.isEmpty_iff.mp hempty] at this
      exact absurd this (by simp)
    rw [← hfilter ts, List.isEmpty_iff.mp hempty]
    cases ts with
    | nil => rfl
    | cons x rest =>
      have := hunit x (hall x (by simp))
      cases bin with
      | null => exact absurd rfl hc.1
      | add => simp [binFold_add, this]
      | mul => simp [binFold_mul, this]
  · exact hfilter ts

/-- **`unit_removal_keeps_reduce`**: whatever the unit-removal step drops, its result is again a
    Contraction with the SAME reduction (`red`, `vars`) and `bin`, over a NON-EMPTY operand list — when
    every operand was the unit, one unit is re-wrapped, so the pending reduction (multiplicity `|vars|`) is
    kept.  Together with `ruleUnits_sound` this is why the step preserves the value. -/
theorem unit_removal_keeps_reduce {isU : OpK → R → Bool} {red bin : OpK} {vars : List Name}
    {ts : List (Ex R)} (hne : ts ≠ []) {t' : Ex R} (h : ruleUnits isU (.contr red bin vars ts) = some t') :
    ∃ ts', t' = .contr red bin vars ts' ∧ ts' ≠ [] ∧ ∀ x ∈ ts', x ∈ ts := by
  simp only [ruleUnits] at h
  split at h
  swap
  · exact absurd h (by simp)
  simp only [Option.some.injEq] at h
  refine ⟨_, h.symm, ?_, ?_⟩
  · split
    · cases ts with
      | nil => exact absurd rfl hne
      | cons a as => simp
    · rename_i hne2
      intro e; rw [e] at hne2; simp at hne2
  · intro x hx
    split at hx
    · exact List.mem_of_mem_take hx
    · exact (List.mem_filter.mp hx).1

/-- **Dropping the reduction is unsound**: `Contraction(add, mul, {i}, 1, 1)` with `|i| = 3`.  The rule
    re-wraps one unit and keeps `Σ_i 1 = 3`; returning the bare unit gives `1` (seeded defect C08_13). -/
theorem drop_reduce_unsound_witness :
    let size : Name → Nat := fun _ => 3
    let isU : OpK → Nat → Bool := fun op c => if op = .mul then c == 1 else c == 0
    let t : Ex Nat := .contr .add .mul ["i"] [.num 1, .num 1]
    ∃ t₁ t₂, ruleUnits isU t = some t₁ ∧ ruleUnitsDropReduce isU t = some t₂
      ∧ t.eval (sr Nat) size (fun _ => 0) = 3 ∧ t₁.eval (sr Nat) size (fun _ => 0) = 3
      ∧ t₂.eval (sr Nat) size (fun _ => 0) = 1 :=
  ⟨_, _, rfl, rfl, by decide, by decide, by decide⟩

/-- With the entries swapped (as `UNITS[and_]`/`UNITS[or_]` were before 5eb0eed) the rule changes values. -/
theorem ruleUnits_wrong_table_witness :
    let isU : OpK → Nat → Bool := fun op c => if op = .mul then c == 0 else c == 1   -- swapped
    let x : Ex Nat := .leaf [] (fun _ => 5)
    ∃ t', ruleUnits isU (.contr .null .mul [] [x, .num 0]) = some t'
      ∧ t'.eval (sr Nat) (fun _ => 1) (fun _ => 0) = 5
      ∧ (Ex.contr .null .mul [] [x, .num 0]).eval (sr Nat) (fun _ => 1) (fun _ => 0) = 0 :=
  ⟨_, rfl, by decide, by decide⟩

/-- Fusing a nested Contraction (cnf.py:495-504): sound for well-formed Contractions when the two sets
    of reduced variables are disjoint (binders are fresh: the code takes the set union). -/
theorem fuseAt_sound {red bin : OpK} {vars : List Name} {pre post : List (Ex R)} {v t' : Ex R}
    (hwf : wfContr red bin vars (pre ++ v :: post) = true)
    (hinner : ∀ r' b' vars' ts', v = .contr r' b' vars' ts' →
        wfContr r' b' vars' ts' = true ∧ (∀ d ∈ vars', d ∉ vars))
    (h : fuseAt red bin vars pre v post = some t') (env : Env) :
    t'.eval (sr R) size env = (Ex.contr red bin vars (pre ++ v :: post)).eval (sr R) size env := by
  cases v <;> try (simp [fuseAt] at h; done)
  simp only [fuseAt] at h
  rename_i r' b' vars' ts'
  obtain ⟨hwi, hdisj⟩ := hinner r' b' vars' ts' rfl
  split at h
  swap
  · exact absurd h (by simp)
  rename_i hc
  simp only [Option.some.injEq] at h
  have hun : lUnion vars vars' = vars ++ vars' := by
    unfold lUnion
    congr 1
    apply List.filter_eq_self.mpr
    intro d hd
    simpa using hdisj d hd
  rw [← h, eval_contr, eval_contr, hun]
  rcases hc with ⟨hr', hb⟩ | ⟨hb, hr'⟩
  · -- the inner Contraction is a pure ⊗ (or ⊕) of terms with the same operator: flatten
    subst hr' hb
    have hv' : vars' = [] := by
      simp only [wfContr, beq_self_eq_true, if_true, Bool.and_eq_true, List.isEmpty_iff] at hwi
      exact hwi.2
    have hbn : bin ≠ .null := by
      intro e; subst e
      simp [wfContr] at hwi
    subst hv'
    have : orOp red .null = red := by unfold orOp; split <;> simp_all
    have hob : orOp bin bin = bin := by unfold orOp; split <;> simp_all
    rw [this, hob, List.append_nil]
    apply congrFun
    apply redFold_congr
    intro e
    simp only [List.map_append, List.map_cons]
    rw [eval_contr, redFold_nil, binFold_flatten hbn]
  · -- the outer Contraction is a pure reduction of the inner one: merge the reduced variables
    subst hb
    have hlen : pre = [] ∧ post = [] := by
      have : (pre ++ Ex.contr r' b' vars' ts' :: post).length = 1 := by
        cases red <;> simp_all [wfContr]
      simp only [List.length_append, List.length_cons] at this
      constructor <;> apply List.eq_nil_of_length_eq_zero <;> omega
    obtain ⟨rfl, rfl⟩ := hlen
    simp only [List.nil_append, List.append_nil, List.map_cons, List.map_nil, binFold]
    have hred : red = .add := by cases red <;> simp_all [wfContr]
    subst hred
    have hob : orOp .null b' = b' := rfl
    rw [hob]
    rcases hr' with hr' | hr'
    · subst hr'
      have : orOp OpK.add OpK.add = .add := rfl
      rw [this]
      simp only [redFold, eval_contr]
      rw [sumVars_append]
      rfl
    · subst hr'
      have hv' : vars' = [] := by
        simp only [wfContr, beq_self_eq_true, if_true, Bool.and_eq_true, List.isEmpty_iff] at hwi
        exact hwi.2
      subst hv'
      have : orOp OpK.add OpK.null = .add := rfl
      rw [this, List.append_nil]
      simp only [eval_contr, redFold_nil]
      rfl

theorem ruleBinary_sound {t t' : Ex R} (h : ruleBinary t = some t') (env : Env) :
    t'.eval (sr R) size env = t.eval (sr R) size env := by
  cases t <;> try (simp [ruleBinary] at h; done)
  simp only [ruleBinary] at h
  split at h
  · simp only [Option.some.injEq] at h
    rw [← h, eval_contr, redFold_nil]
    simp [Ex.eval]
  · exact absurd h (by simp)

theorem ruleReduce_sound {t t' : Ex R} (h : ruleReduce t = some t') (env : Env) :
    t'.eval (sr R) size env = t.eval (sr R) size env := by
  cases t <;> try (simp [ruleReduce] at h; done)
  simp only [ruleReduce] at h
  split at h
  · simp only [Option.some.injEq] at h
    rw [← h, eval_contr]
    simp [Ex.eval, binFold]
  · exact absurd h (by simp)

theorem scanSplit_none {τ β : Type} (f : List τ → τ → List τ → Option β) :
    ∀ (rest pre : List τ), (∀ v ∈ rest, ∀ a b, f a v b = none) → scanSplit f pre rest = none
  | [], _, _ => rfl
  | v :: post, pre, h => by
    simp only [scanSplit]
    rw [h v (by simp) pre post]
    exact scanSplit_none f post (pre ++ [v]) (fun w hw => h w (List.mem_cons_of_mem _ hw))

/-- The side conditions the rules need about an operand that is itself a Contraction: it is well
    formed, its reduced variables are disjoint from the outer ones, and they are FRESH for the sibling
    operands (no sibling's value depends on them). -/
def OperandOK (vars : List Name) (siblings : List (Ex R)) (v : Ex R) : Prop :=
  ∀ r' b' vars' ts', v = .contr r' b' vars' ts' →
    wfContr r' b' vars' ts' = true ∧ (∀ d ∈ vars', d ∉ vars) ∧
    (∀ d ∈ vars', ∀ s ∈ siblings, Indep (fun env => s.eval (sr R) size env) d)

theorem ruleFuse_sound {red bin : OpK} {vars : List Name} {ts : List (Ex R)} {t' : Ex R}
    (hwf : wfContr red bin vars ts = true)
    (hops : ∀ pre v post, ts = pre ++ v :: post → OperandOK size vars (pre ++ post) v)
    (h : ruleFuse (.contr red bin vars ts) = some t') (env : Env) :
    t'.eval (sr R) size env = (Ex.contr red bin vars ts).eval (sr R) size env := by
  simp only [ruleFuse] at h
  obtain ⟨a, v, b, hsplit, hf⟩ := scanSplit_some _ ts [] t' h
  simp only [List.nil_append] at hsplit
  subst hsplit
  exact fuseAt_sound size hwf
    (fun r' b' vars' ts' hv => let ⟨h1, h2, _⟩ := hops a v b rfl r' b' vars' ts' hv; ⟨h1, h2⟩) hf env

theorem distrib_list (a c : R) (xs : List R) :
    a * (xs.sum * c) = (xs.map (fun x => a * (x * c))).sum := by
  induction xs with
  | nil => simp
  | cons x xs ih => simp only [List.sum_cons, List.map_cons, ← ih]; ring

theorem prod_indep {l : List (Ex R)} {d : Name}
    (h : ∀ s ∈ l, Indep (fun env => s.eval (sr R) size env) d) :
    Indep (fun env => (l.map (fun s => s.eval (sr R) size env)).prod) d := by
  intro env i
  simp only
  congr 1
  apply List.map_congr_left
  intro s hs
  exact h s hs env i

/-- **The unfold rules** (optimizer.py:28-69) at one operand position: distribution needs
    `Distrib ⊕ ⊗`; pulling a reduction out of an operand (and fusing) needs the operand's binders to be
    fresh for the siblings and disjoint from the outer binders. -/
theorem unfoldAt_sound {red bin : OpK} {vars : List Name} {pre post : List (Ex R)} {v t' : Ex R}
    (hwf : wfContr red bin vars (pre ++ v :: post) = true)
    (hop : OperandOK size vars (pre ++ post) v)
    (h : unfoldAt red bin vars pre v post = some t') (env : Env) :
    t'.eval (sr R) size env = (Ex.contr red bin vars (pre ++ v :: post)).eval (sr R) size env := by
  cases v <;> try (simp [unfoldAt] at h; done)
  rename_i r' b' vars' ts'
  obtain ⟨hwi, hdisj, hfresh⟩ := hop r' b' vars' ts' rfl
  simp only [unfoldAt] at h
  split at h
  · -- distribution
    rename_i hc
    obtain ⟨hr', hb', hbin⟩ := hc
    subst hr' hb' hbin
    simp only [Option.some.injEq] at h
    have hv' : vars' = [] := by
      simp only [wfContr, beq_self_eq_true, if_true, Bool.and_eq_true, List.isEmpty_iff] at hwi
      exact hwi.2
    subst hv'
    rw [← h, eval_contr, eval_contr]
    apply congrFun
    apply redFold_congr
    intro e
    simp only [binFold_add, binFold_mul, List.map_map, List.map_append, List.map_cons, List.prod_append,
      List.prod_cons, Function.comp_def, eval_contr, redFold_nil]
    have hd := distrib_list (pre.map (fun t => t.eval (sr R) size e)).prod
      (post.map (fun t => t.eval (sr R) size e)).prod (ts'.map (fun t => t.eval (sr R) size e))
    rw [List.map_map] at hd
    exact hd.symm
  · split at h
    · -- pulling the operand's reduction out
      rename_i _ hc
      obtain ⟨hred, hr', hbin⟩ := hc
      subst hr' hbin
      simp only [Option.some.injEq] at h
      rw [← h, eval_contr]
      simp only [Ex.eval]
      apply congrFun
      apply redFold_congr
      intro e
      simp only [evalList_eq_map]
      simp only [binFold_mul, List.map_append, List.map_cons, List.prod_append, List.prod_cons, eval_contr,
        redFold, redFold_nil]
      -- Σ_vars' (A · Q · S) = A · (Σ_vars' Q) · S   since A, S do not mention vars'
      have hfun : (fun env' : Env =>
            (pre.map (fun t => t.eval (sr R) size env')).prod *
              (binFold (sr R) b' (ts'.map (fun t => t.eval (sr R) size env')) *
                (post.map (fun t => t.eval (sr R) size env')).prod))
          = fun env' => binFold (sr R) b' (ts'.map (fun t => t.eval (sr R) size env')) *
              ((pre.map (fun t => t.eval (sr R) size env')).prod *
                (post.map (fun t => t.eval (sr R) size env')).prod) := by
        funext env'; ring
      simp only [sumVars]
      rw [hfun, sumVars_mul_indep size]
      · ring
      · intro d hd env' i
        simp only
        have e1 := prod_indep size (fun s hs => hfresh d hd s (List.mem_append.mpr (Or.inl hs))) env' i
        have e2 := prod_indep size (fun s hs => hfresh d hd s (List.mem_append.mpr (Or.inr hs))) env' i
        simp only at e1 e2
        rw [e1, e2]
    · split at h
      swap
      · exact absurd h (by simp)
      -- fusing: the cases not taken by the two branches above are exactly those of normalize's rule
      rename_i hn1 hn2 hc
      apply fuseAt_sound size hwf (fun r'' b'' vars'' ts'' hv => by
        cases hv; exact ⟨hwi, hdisj⟩) _ env
      simp only [fuseAt]
      have hcond : (r' = .null ∧ bin = b') ∨ (bin = .null ∧ (r' = red ∨ r' = .null)) := by
        obtain ⟨hr, hb⟩ := hc
        rcases hb with hb | hb
        · rcases hr with hr | hr
          · -- r' = red, bin = b'
            by_cases hnull : r' = .null
            · exact Or.inl ⟨hnull, hb⟩
            · by_cases hbn : bin = .null
              · exact Or.inr ⟨hbn, Or.inl hr⟩
              · exfalso
                subst hr hb
                cases r' <;> cases bin <;> simp_all [wfContr]
          · exact Or.inl ⟨hr, hb⟩
        · exact Or.inr ⟨hb, hr⟩
      rw [if_pos hcond]
      exact h

theorem ruleUnfold_sound {red bin : OpK} {vars : List Name} {ts : List (Ex R)} {t' : Ex R}
    (hwf : wfContr red bin vars ts = true)
    (hops : ∀ pre v post, ts = pre ++ v :: post → OperandOK size vars (pre ++ post) v)
    (h : ruleUnfold (.contr red bin vars ts) = some t') (env : Env) :
    t'.eval (sr R) size env = (Ex.contr red bin vars ts).eval (sr R) size env := by
  simp only [ruleUnfold] at h
  obtain ⟨a, v, b, hsplit, hf⟩ := scanSplit_some _ ts [] t' h
  simp only [List.nil_append] at hsplit
  subst hsplit
  exact unfoldAt_sound size hwf (hops a v b rfl) hf env

/-- **The factor list is positional**: `(f ⊕ g) ⊗ (f ⊕ g)` with the two factors the SAME term (interned).
    The rule as written (`unfoldAt` with `pre = []`, `post = [s]`) keeps the second copy and preserves the
    value `(f+g)² = 9`; selecting the other factors by an identity test — any test that is reflexive on
    `s` — drops both copies and returns `f + g = 3` (seeded defect C08_5). -/
theorem distribute_by_identity_witness :
    let size : Name → Nat := fun _ => 1
    let f : Ex Nat := .leaf [] (fun _ => 1)
    let g : Ex Nat := .leaf [] (fun _ => 2)
    let s : Ex Nat := .contr .null .add [] [f, g]
    let t : Ex Nat := .contr .null .mul [] [s, s]
    ∃ t₁ t₂, unfoldAt .null .mul [] [] s [s] = some t₁
      ∧ distributeByIdentity (fun _ _ => true) .null .mul [] [s, s] s = some t₂
      ∧ t.eval (sr Nat) size (fun _ => 0) = 9 ∧ t₁.eval (sr Nat) size (fun _ => 0) = 9
      ∧ t₂.eval (sr Nat) size (fun _ => 0) = 3 :=
  ⟨_, _, rfl, rfl, by decide, by decide, by decide⟩

/-- **The freshness hypothesis is necessary** (finding KF-shared-binder-unfold): `f(i) · Σ_i f(i)` with
    the sibling `f(i)` mentioning the operand's binder `i` — what hash-consed operands sharing one
    mangled binder produce.  The rule fires and turns `(Σ_i f)²`-style values into `Σ_i Σ_i f²`. -/
theorem unfold_shared_binder_witness :
    let size : Name → Nat := fun _ => 3
    let f : Ex Nat := .leaf ["i"] (fun env => env "i" + 1)
    let t : Ex Nat := .contr .add .mul ["i"] [f, .contr .add .null ["i"] [f]]
    ∃ t', ruleUnfold t = some t' ∧ t.eval (sr Nat) size (fun _ => 0) = 36
      ∧ t'.eval (sr Nat) size (fun _ => 0) = 42 :=
  ⟨_, rfl, by decide, by decide⟩

/-! ## Subs and Unary distribute over Contractions -/

theorem lookup_restrict (σ : List (Name × Arg)) (ins : List Name) {n : Name} (hn : n ∈ ins) :
    (restrictSubs σ ins).lookup n = σ.lookup n := by
  unfold restrictSubs
  induction σ with
  | nil => rfl
  | cons p σ ih =>
    obtain ⟨k, a⟩ := p
    by_cases hk : k ∈ ins
    · simp only [List.filter_cons, hk, decide_true, if_true, List.lookup_cons]
      rw [ih]
    · have hne : (n == k) = false := by
        simp only [beq_eq_false_iff_ne, ne_eq]
        intro e; exact hk (e ▸ hn)
      simp only [List.filter_cons, hk, decide_false, Bool.false_eq_true, if_false, List.lookup_cons, hne]
      exact ih

theorem applySubs_nil (env : Env) : applySubs [] env = env := by
  funext n; simp [applySubs]

/-- A bound variable that the substitution neither binds nor introduces commutes with it. -/
theorem applySubs_upd {σ : List (Name × Arg)} {d : Name}
    (hk : d ∉ σ.map (·.1)) (hv : ∀ p ∈ σ, p.2 ≠ .var d) (env : Env) (i : Nat) :
    upd (applySubs σ env) d i = applySubs σ (upd env d i) := by
  funext n
  unfold upd applySubs
  by_cases hn : n = d
  · subst hn
    have : σ.lookup n = none := by
      rw [List.lookup_eq_none_iff]
      intro p hp
      simp only [bne_iff_ne, ne_eq]
      intro e
      exact hk (List.mem_map.mpr ⟨p, hp, e.symm⟩)
    simp [this]
  · rw [if_neg hn]
    cases hl : σ.lookup n with
    | none => simp [upd, hn]
    | some a =>
      cases a with
      | lit k => simp
      | var m =>
        have hm : m ≠ d := by
          intro e
          subst e
          obtain ⟨p, hp, hp2⟩ : ∃ p ∈ σ, p.2 = Arg.var m := by
            clear hk hv
            induction σ with
            | nil => simp at hl
            | cons q σ ih =>
              obtain ⟨k, a⟩ := q
              simp only [List.lookup_cons] at hl
              split at hl
              · exact ⟨(k, a), by simp, by simpa using hl⟩
              · obtain ⟨p, hp, hp2⟩ := ih hl
                exact ⟨p, List.mem_cons_of_mem _ hp, hp2⟩
          exact hv p hp hp2
        simp [upd, hm]

theorem sumVars_applySubs {σ : List (Name × Arg)} {vars : List Name}
    (hfresh : ∀ d ∈ vars, d ∉ σ.map (·.1) ∧ ∀ p ∈ σ, p.2 ≠ .var d) (F : Env → R) (env : Env) :
    sumVars (sr R) size vars F (applySubs σ env)
      = sumVars (sr R) size vars (fun e => F (applySubs σ e)) env := by
  induction vars generalizing env with
  | nil => rfl
  | cons d vs ih =>
    simp only [sumVars, sum1_eq]
    refine Finset.sum_congr rfl fun i _ => ?_
    rw [applySubs_upd (hfresh d (by simp)).1 (hfresh d (by simp)).2,
        ih (fun d' hd' => hfresh d' (List.mem_cons_of_mem _ hd'))]

/-- `distribute_subs_contraction` (cnf.py:551-561), for a binding LIST `σ` of any length applied
    SIMULTANEOUSLY (`applySubs σ` looks every name up in the original environment: swaps, chains and
    diagonals included): sound when the Contraction's binders are fresh for the substitution
    (alpha-mangling) and every operand looks only at its declared inputs.  Each term receives one `Subs`
    with the sub-list of the bindings it mentions, in the original order. -/
theorem ruleSubsContr_sound {red bin : OpK} {vars : List Name} {ts : List (Ex R)} {σ : List (Name × Arg)}
    (hfresh : ∀ d ∈ vars, d ∉ σ.map (·.1) ∧ ∀ p ∈ σ, p.2 ≠ .var d)
    (hdep : ∀ t ∈ ts, DependsOn (fun env => t.eval (sr R) size env) t.ins)
    {t' : Ex R} (h : ruleSubsContr (.subs (.contr red bin vars ts) σ) = some t') (env : Env) :
    t'.eval (sr R) size env = (Ex.subs (.contr red bin vars ts) σ).eval (sr R) size env := by
  simp only [ruleSubsContr, Option.some.injEq] at h
  rw [← h]
  simp only [Ex.eval]
  have hpt : ∀ e : Env,
      binFold (sr R) bin (evalList (sr R) size
        (ts.map fun t => if (restrictSubs σ t.ins).isEmpty then t else .subs t (restrictSubs σ t.ins)) e)
      = binFold (sr R) bin ((ts.map (fun t => t.eval (sr R) size (applySubs σ e)))) := by
    intro e
    rw [evalList_eq_map, List.map_map]
    congr 1
    apply List.map_congr_left
    intro t ht
    have hrestr : t.eval (sr R) size (applySubs (restrictSubs σ t.ins) e)
        = t.eval (sr R) size (applySubs σ e) := by
      apply hdep t ht
      intro n hn
      unfold applySubs
      rw [lookup_restrict σ t.ins hn]
    simp only [Function.comp_def]
    split
    · rename_i hempty
      rw [← hrestr, List.isEmpty_iff.mp hempty, applySubs_nil]
    · simp only [Ex.eval]; exact hrestr
  cases red with
  | add =>
    simp only [redFold]
    rw [sumVars_applySubs size hfresh]
    apply congrFun
    apply sumVars_congr
    intro e
    rw [hpt e, evalList_eq_map]
  | null => simp only [redFold]; rw [hpt env, evalList_eq_map]
  | mul => simp only [redFold]; rw [hpt env, evalList_eq_map]

/-- **Simultaneity is essential**: the swap `(x(i,j) · y(j))(i := j, j := i)`.  The rule as written
    (one `Subs` with the whole binding list per term) gives the transpose `x(j,i) · y(i)`; pushing the two
    bindings one after the other gives the diagonal `x(i,i) · y(i)` — a different value, and the input `j`
    is lost.  (Seeded defect C08_3; `ruleSubsContr_sound` is the positive statement.) -/
theorem subs_sequential_witness :
    let size : Name → Nat := fun _ => 3
    let x : Ex Nat := .leaf ["i", "j"] (fun env => 3 * env "i" + env "j")
    let y : Ex Nat := .leaf ["j"] (fun env => env "j" + 1)
    let t : Ex Nat := .subs (.contr .null .mul [] [x, y]) [("i", .var "j"), ("j", .var "i")]
    let env : Env := fun n => if n = "i" then 1 else if n = "j" then 2 else 0
    ∃ t₁ t₂, ruleSubsContr t = some t₁ ∧ ruleSubsContrSequential t = some t₂
      ∧ t.eval (sr Nat) size env = 14 ∧ t₁.eval (sr Nat) size env = 14 ∧ t₂.eval (sr Nat) size env = 8 :=
  ⟨_, _, rfl, rfl, by decide, by decide, by decide⟩

/-- `unary_contract` (cnf.py:592-599): a unary operation that is a homomorphism for `bin`
    (negation for `+`, reciprocal for `*`) distributes over the terms. -/
theorem ruleUnaryContr_sound {hom bin : OpK} {vars : List Name} {ts : List (Ex R)} {u : R → R}
    (hhom : ∀ xs : List R, u (binFold (sr R) hom xs) = binFold (sr R) hom (xs.map u))
    (hv : vars = [])
    {t' : Ex R} (h : ruleUnaryContr (.unary hom u (.contr .null bin vars ts)) = some t') (env : Env) :
    t'.eval (sr R) size env = (Ex.unary hom u (.contr .null bin vars ts)).eval (sr R) size env := by
  simp only [ruleUnaryContr] at h
  split at h
  swap
  · exact absurd h (by simp)
  rename_i hc
  simp only [Option.some.injEq] at h
  subst hv
  obtain ⟨_, rfl⟩ := hc
  rw [← h]
  simp only [Ex.eval, redFold, evalList_eq_map, List.map_map]
  rw [hhom]
  simp only [List.map_map, Function.comp_def, Ex.eval]

/-- `binary_subtract` / `binary_divide` (cnf.py:574-581): `a - b = a + (-b)`, `a / b = a * b⁻¹`. -/
theorem ruleBinopInv_sound {k : OpK} {u : R → R} {f : R → R → R} {l r : Ex R}
    (hf : ∀ a b, f a b = binFold (sr R) k [a, u b])
    {t' : Ex R} (h : ruleBinopInv (.binop k u f l r) = some t') (env : Env) :
    t'.eval (sr R) size env = (Ex.binop k u f l r).eval (sr R) size env := by
  simp only [ruleBinopInv] at h
  split at h
  swap
  · exact absurd h (by simp)
  simp only [Option.some.injEq] at h
  rw [← h]
  simp only [Ex.eval, hf]

/-- Subtraction in a commutative ring and division in a field are instances. -/
theorem sub_is_add_neg {S : Type} [CommRing S] (a b : S) : a - b = binFold (sr S) .add [a, -b] := by
  simp [binFold, sumV, sr, sub_eq_add_neg]

theorem div_is_mul_inv {S : Type} [Field S] (a b : S) : a / b = binFold (sr S) .mul [a, b⁻¹] := by
  simp [binFold, prodV, sr, div_eq_mul_inv]

/-- Reordering the operands of a Contraction (any permutation) preserves its value: `⊕`, `⊗` commute. -/
theorem contr_perm_sound {red bin : OpK} {vars : List Name} {ts ts' : List (Ex R)} (hb : bin ≠ .null)
    (hp : ts.Perm ts') (env : Env) :
    (Ex.contr red bin vars ts').eval (sr R) size env = (Ex.contr red bin vars ts).eval (sr R) size env := by
  rw [eval_contr, eval_contr]
  apply congrFun
  apply redFold_congr
  intro e
  cases bin with
  | null => exact absurd rfl hb
  | add => simp only [binFold_add]; exact ((hp.map _).sum_eq).symm
  | mul => simp only [binFold_mul]; exact ((hp.map _).prod_eq).symm

/-- `normalize_contraction_commutative_canonical_order` (cnf.py:413-430). -/
theorem ruleCanonOrder_sound {addK : OpK} {ground : Ex R → Option Nat} (haddK : addK ≠ .null)
    {t t' : Ex R} (h : ruleCanonOrder addK ground t = some t') (env : Env) :
    t'.eval (sr R) size env = t.eval (sr R) size env := by
  unfold ruleCanonOrder at h
  split at h
  · rename_i red bin vars a b
    split at h
    · split at h
      · rename_i hc
        simp only [Option.some.injEq] at h
        rw [← h]
        exact contr_perm_sound size (hc.1 ▸ haddK) (List.Perm.swap b a []) env
      · exact absurd h (by simp)
    · exact absurd h (by simp)
  · exact absurd h (by simp)

/-- **`canonOrder_perm`**: the canonical-order pass returns a PERMUTATION of the operand LIST — the
    multiset of operands (repetitions included), the operators and the reduced variables are unchanged. -/
theorem canonOrder_perm {addK : OpK} {ground : Ex R → Option Nat} {red bin : OpK} {vars : List Name}
    {ts : List (Ex R)} {t' : Ex R} (h : ruleCanonOrder addK ground (.contr red bin vars ts) = some t') :
    ∃ ts', t' = .contr red bin vars ts' ∧ ts'.Perm ts := by
  unfold ruleCanonOrder at h
  split at h
  · rename_i red' bin' vars' a b heq
    simp only [Ex.contr.injEq] at heq
    obtain ⟨rfl, rfl, rfl, rfl⟩ := heq
    split at h
    · split at h
      · simp only [Option.some.injEq] at h
        exact ⟨[b, a], h.symm, List.Perm.swap a b []⟩
      · exact absurd h (by simp)
    · exact absurd h (by simp)
  · exact absurd h (by simp)

/-- **A canonical-order pass over a SET of operands is unsound**: `f ⊗ f` with the two operands the same
    (interned) term and `⊗` not idempotent (`ops.add` in the tropical / log semirings, `mul` here).
    Keeping the operand once turns `f ⊗ f = 4` into `f = 2` (seeded defect C08_9); the list-based pass is a
    permutation (`canonOrder_perm`) and preserves the value (`ruleCanonOrder_sound`, `contr_perm_sound`). -/
theorem canonOrder_by_set_witness :
    let size : Name → Nat := fun _ => 1
    let f : Ex Nat := .leaf [] (fun _ => 2)
    let t : Ex Nat := .contr .null .mul [] [f, f]
    ∃ t₂, canonOrderBySet (fun _ _ => true) t = some t₂
      ∧ ruleCanonOrder .mul (fun _ => some 3) t = none
      ∧ t.eval (sr Nat) size (fun _ => 0) = 4 ∧ t₂.eval (sr Nat) size (fun _ => 0) = 2 :=
  ⟨_, rfl, rfl, by decide, by decide⟩

/-! ## the cascade and normal forms -/

/-- Iterating any sound root rewrite is sound. -/
theorem iterRoot_sound (step : Ex R → Option (Ex R)) (Good : Ex R → Prop)
    (hstep : ∀ t t', Good t → step t = some t' →
      Good t' ∧ ∀ env, t'.eval (sr R) size env = t.eval (sr R) size env) :
    ∀ (n : Nat) (t : Ex R), Good t → ∀ env, (iterRoot step n t).eval (sr R) size env = t.eval (sr R) size env
  | 0, _, _, _ => rfl
  | n + 1, t, hg, env => by
    simp only [iterRoot]
    split
    · rfl
    · rename_i t' hs
      obtain ⟨hg', he⟩ := hstep t t' hg hs
      rw [iterRoot_sound step Good hstep n t' hg' env, he env]

/-- **normalize_idempotent_flat**: on a flat sum-product form no rule of the cascade fires (the
    interpretation reflects: `reinterpret(n) is n`), hence normalising again returns the same term. -/
theorem normRoot_flat {isU : OpK → R → Bool} {t : Ex R} (hflat : isFlat isU t = true) :
    normRoot isU t = none := by
  cases t with
  | leaf _ _ => rfl
  | num _ => rfl
  | binary _ _ _ => simp [isFlat] at hflat
  | reduce _ _ _ => simp [isFlat] at hflat
  | subs _ _ => simp [isFlat] at hflat
  | unary _ _ _ => simp [isFlat] at hflat
  | binop _ _ _ _ _ => simp [isFlat] at hflat
  | contr red bin vars ts =>
    simp only [isFlat, Bool.and_eq_true, Bool.or_eq_true, bne_iff_ne, ne_eq, beq_iff_eq, Bool.not_eq_true',
      List.isEmpty_eq_false_iff, decide_eq_true_eq, List.all_eq_true] at hflat
    obtain ⟨⟨⟨⟨hwf, hne⟩, hvars⟩, hlen⟩, hops⟩ := hflat
    have h1 : ruleNullRed (Ex.contr red bin vars ts) = none := by
      simp only [ruleNullRed, ite_eq_right_iff, reduceCtorEq, imp_false, not_and, not_not]
      intro hv
      rcases hvars with h | h
      · exact h
      · exact absurd (List.isEmpty_iff.mp hv) h
    have h2 : ruleSingle (Ex.contr red bin vars ts) = none := by
      unfold ruleSingle
      split
      · rename_i heq
        simp only [Ex.contr.injEq] at heq
        obtain ⟨_, hb, _, hts⟩ := heq
        rcases hlen with h | h
        · simp [← hb, h]
        · rw [hts] at h; simp at h
      · rfl
    have h3 : ruleTrivial (Ex.contr red bin vars ts) = none := by
      cases red <;> cases bin <;> simp_all [ruleTrivial, wfContr]
    have h4 : ruleRedIsBin (Ex.contr red bin vars ts) = none := by
      simp only [ruleRedIsBin, ite_eq_right_iff, reduceCtorEq, imp_false, not_and]
      intro e; exact absurd e hne
    have hnu : ∀ x ∈ ts, isUnitNum (isU bin) x = false := by
      intro x hx
      have := hops x hx
      cases x <;> simp_all [isFlatOperand, isUnitNum]
    have h5 : ruleUnits isU (Ex.contr red bin vars ts) = none := by
      simp only [ruleUnits, ite_eq_right_iff, reduceCtorEq, imp_false, not_and]
      intro _ hany
      obtain ⟨x, hx, hu⟩ := List.any_eq_true.mp hany
      rw [hnu x hx] at hu
      exact Bool.noConfusion hu
    have h6 : ruleFuse (Ex.contr red bin vars ts) = none := by
      simp only [ruleFuse]
      apply scanSplit_none
      intro v hv a b
      have := hops v hv
      cases v <;> simp_all [isFlatOperand, fuseAt]
    simp [normRoot, ruleBinary, ruleReduce, ruleBinopInv, ruleSubsContr, ruleUnaryContr, h1, h2, h3, h4, h5, h6]

theorem norm_flatOperand {isU : OpK → R → Bool} {b : OpK} (fuel : Nat) {x : Ex R}
    (h : isFlatOperand (isU b) x = true) : norm isU fuel x = x := by
  cases fuel with
  | zero => simp [norm]
  | succ n =>
    cases x <;> simp_all [isFlatOperand, norm, mapChildren, normRoot, ruleBinary, ruleReduce, ruleBinopInv,
      ruleSubsContr, ruleUnaryContr, ruleNullRed, ruleSingle, ruleTrivial, ruleRedIsBin, ruleUnits, ruleFuse]

theorem normalize_idempotent_flat {isU : OpK → R → Bool} {t : Ex R} (hflat : isFlat isU t = true)
    (fuel : Nat) : norm isU fuel t = t := by
  cases fuel with
  | zero => simp [norm]
  | succ n =>
    cases t with
    | leaf _ _ => simp [norm, mapChildren, normRoot_flat hflat]
    | num _ => simp [norm, mapChildren, normRoot_flat hflat]
    | binary _ _ _ => simp [isFlat] at hflat
    | reduce _ _ _ => simp [isFlat] at hflat
    | subs _ _ => simp [isFlat] at hflat
    | unary _ _ _ => simp [isFlat] at hflat
    | binop _ _ _ _ _ => simp [isFlat] at hflat
    | contr red bin vars ts =>
      have hops : ∀ x ∈ ts, isFlatOperand (isU bin) x = true := by
        simp only [isFlat, Bool.and_eq_true, List.all_eq_true] at hflat
        exact hflat.2
      have hmap : ts.map (norm isU n) = ts := by
        conv_rhs => rw [← List.map_id ts]
        apply List.map_congr_left
        intro x hx
        simp [norm_flatOperand n (hops x hx)]
      simp only [norm, mapChildren, hmap, normRoot_flat hflat]

/-- Normalising the normaliser's output again changes nothing whenever that output is flat. -/
theorem normalize_idempotent {isU : OpK → R → Bool} (t : Ex R) (fuel fuel' : Nat)
    (h : isFlat isU (norm isU fuel t) = true) :
    norm isU fuel' (norm isU fuel t) = norm isU fuel t :=
  normalize_idempotent_flat h fuel'

/-- Non-vacuity: a flat form exists and the cascade really rewrites a non-flat one to it. -/
example :
    let isU : OpK → Nat → Bool := fun op c => if op = .mul then c == 1 else if op = .add then c == 0 else false
    let f : Ex Nat := .leaf ["i"] (fun env => env "i" + 1)
    let g : Ex Nat := .leaf ["i", "j"] (fun env => env "i" + env "j")
    isFlat isU (Ex.contr .add .mul ["i"] [f, g]) = true
      ∧ isFlat isU (Ex.contr .add .null ["i"] [.contr .null .mul [] [.contr .null .mul [] [f, .num 1], g]]) = false
      ∧ isFlat isU (iterRoot (normRoot isU) 5
          (Ex.contr .add .null ["i"] [.contr .null .mul [] [.contr .null .mul [] [f, .num 1], g]])) = true := by
  refine ⟨by decide, by decide, by decide⟩

/-! ## coincidence: values depend only on input names -/

mutual
  /-- Every leaf looks only at its declared inputs, and only ⊕-reductions bind variables. -/
  def LeavesWF : Ex R → Prop
    | .leaf ins f => DependsOn f ins
    | .num _ => True
    | .binary _ l r => LeavesWF l ∧ LeavesWF r
    | .reduce op vars e => (op = .add ∨ vars = []) ∧ LeavesWF e
    | .contr red _ vars ts => (red = .add ∨ vars = []) ∧ LeavesWFList ts
    | .subs e _ => LeavesWF e
    | .unary _ _ e => LeavesWF e
    | .binop _ _ _ l r => LeavesWF l ∧ LeavesWF r
  def LeavesWFList : List (Ex R) → Prop
    | [] => True
    | t :: ts => LeavesWF t ∧ LeavesWFList ts
end

theorem redFold_dependsOn {op : OpK} {vars : List Name} (hop : op = .add ∨ vars = []) {f : Env → R}
    {S : List Name} (h : DependsOn f S) : DependsOn (redFold (sr R) size op vars f) (lDiff S vars) := by
  rcases hop with rfl | rfl
  · exact sumVars_dependsOn size h
  · rw [redFold_nil]
    intro env env' hag
    exact h env env' (fun n hn => hag n (by simp [lDiff, hn]))

mutual
  /-- **Coincidence**: the value of a term depends only on its input names (`.inputs`). -/
  theorem eval_dependsOn : ∀ (t : Ex R), LeavesWF t →
      DependsOn (fun env => t.eval (sr R) size env) t.ins
    | .leaf ins f, h => by simpa [Ex.eval, Ex.ins, LeavesWF] using h
    | .num c, _ => by intro env env' _; simp [Ex.eval]
    | .binary op l r, h => by
      simp only [LeavesWF] at h
      intro env env' hag
      simp only [Ex.eval, Ex.ins] at hag ⊢
      have e1 := eval_dependsOn l h.1 env env' (fun n hn => hag n (mem_lUnion.mpr (Or.inl hn)))
      have e2 := eval_dependsOn r h.2 env env' (fun n hn => hag n (mem_lUnion.mpr (Or.inr hn)))
      simp only at e1 e2
      rw [e1, e2]
    | .reduce op vars e, h => by
      simp only [LeavesWF] at h
      simp only [Ex.eval, Ex.ins]
      exact redFold_dependsOn size h.1 (eval_dependsOn e h.2)
    | .contr red bin vars ts, h => by
      simp only [LeavesWF] at h
      simp only [Ex.eval, Ex.ins]
      apply redFold_dependsOn size h.1
      intro env env' hag
      simp only
      rw [evalList_dependsOn ts h.2 env env' hag]
    | .subs e σ, h => by
      simp only [LeavesWF] at h
      intro env env' hag
      simp only [Ex.eval, Ex.ins] at hag ⊢
      apply eval_dependsOn e h
      intro n hn
      unfold applySubs
      cases hl : σ.lookup n with
      | none =>
        simp only
        apply hag
        apply List.mem_append.mpr
        left
        rw [mem_lDiff]
        refine ⟨hn, ?_⟩
        intro hk
        obtain ⟨p, hp, hpn⟩ := List.mem_map.mp hk
        rw [List.lookup_eq_none_iff] at hl
        have := hl p hp
        simp [hpn] at this
      | some a =>
        cases a with
        | lit k => rfl
        | var m =>
          simp only
          apply hag
          apply List.mem_append.mpr
          right
          have hmem : (n, Arg.var m) ∈ σ := by
            clear hag
            induction σ with
            | nil => simp at hl
            | cons q σ ih =>
              obtain ⟨k, a⟩ := q
              simp only [List.lookup_cons] at hl
              split at hl
              · rename_i hk
                have : n = k := by simpa using hk
                simp only [Option.some.injEq] at hl
                rw [this, hl]; simp
              · exact List.mem_cons_of_mem _ (ih hl)
          exact List.mem_filterMap.mpr ⟨(n, Arg.var m), hmem, by simp [hn]⟩
    | .unary _ u e, h => by
      simp only [LeavesWF] at h
      intro env env' hag
      simp only [Ex.eval, Ex.ins] at hag ⊢
      have e1 := eval_dependsOn e h env env' hag
      simp only at e1
      rw [e1]
    | .binop _ _ f l r, h => by
      simp only [LeavesWF] at h
      intro env env' hag
      simp only [Ex.eval, Ex.ins] at hag ⊢
      have e1 := eval_dependsOn l h.1 env env' (fun n hn => hag n (mem_lUnion.mpr (Or.inl hn)))
      have e2 := eval_dependsOn r h.2 env env' (fun n hn => hag n (mem_lUnion.mpr (Or.inr hn)))
      simp only at e1 e2
      rw [e1, e2]
  theorem evalList_dependsOn : ∀ (ts : List (Ex R)), LeavesWFList ts →
      ∀ env env' : Env, (∀ n ∈ insList ts, env n = env' n) →
        evalList (sr R) size ts env = evalList (sr R) size ts env'
    | [], _, _, _, _ => rfl
    | t :: ts, h, env, env', hag => by
      simp only [LeavesWFList] at h
      simp only [evalList, insList] at hag ⊢
      have e1 := eval_dependsOn t h.1 env env' (fun n hn => hag n (mem_lUnion.mpr (Or.inl hn)))
      simp only at e1
      rw [e1, evalList_dependsOn ts h.2 env env' (fun n hn => hag n (mem_lUnion.mpr (Or.inr hn)))]
end

/-- The semantic freshness hypothesis of `unfoldAt_sound` follows from the syntactic one: a binder
    that is not an input name of a sibling is fresh for it. -/
theorem indep_of_not_mem_ins {s : Ex R} (hs : LeavesWF s) {d : Name} (hd : d ∉ s.ins) :
    Indep (fun env => s.eval (sr R) size env) d :=
  (eval_dependsOn size s hs).indep hd

/-- The side conditions of the fuse / unfold rules in SYNTACTIC form: the operand is well formed, its
    binders are not outer binders and are not input names of any sibling. -/
theorem operandOK_of_syntactic {vars : List Name} {siblings : List (Ex R)} {v : Ex R}
    (hsib : ∀ s ∈ siblings, LeavesWF s)
    (h : ∀ r' b' vars' ts', v = .contr r' b' vars' ts' →
      wfContr r' b' vars' ts' = true ∧ (∀ d ∈ vars', d ∉ vars) ∧ (∀ d ∈ vars', ∀ s ∈ siblings, d ∉ s.ins)) :
    OperandOK size vars siblings v := by
  intro r' b' vars' ts' hv
  obtain ⟨h1, h2, h3⟩ := h r' b' vars' ts' hv
  exact ⟨h1, h2, fun d hd s hs => indep_of_not_mem_ins size (hsib s hs) (h3 d hd s hs)⟩

end FV.Props.C08
