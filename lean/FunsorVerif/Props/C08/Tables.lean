/-
  Props/C08/Tables.lean — obligations over the op tables regenerated from /repo on every run
  (Gen/C08Tables.lean): the entries the normalize / unfold / optimize rules trust are the ones the
  soundness theorems assume.  Fail-closed: an entry about an op or pair not listed here breaks the build.
-/
import FunsorVerif.Gen.C08Tables
import FunsorVerif.Core.Semiring
import FunsorVerif.Model.Term
namespace FV.Props.C08.Tables
open FV FV.Gen.C08

/-- The neutral element of each associative op (the specification: `unitOf` of Model/Term.lean, plus
    `logaddexp`, whose neutral element `-inf` is `log 0`). -/
def neutral (op : String) : Option XR :=
  if op = "logaddexp" then some XR.ninf else unitOf op

def unitEntryOk (e : String × XR) : Bool := neutral e.1 == some e.2

/-- Pairs `(⊕, ⊗)` for which `⊗` distributes over `⊕` on the pair's carrier (laws proved in C15 /
    assumed by `CommSemiring` here): reals, log-space reals, max-plus, min-plus, non-negative reals with
    max/min, booleans; `sample` is `logaddexp` with a stochastic backward pass. -/
def provedPairs : List (String × String) :=
  [("add", "mul"), ("logaddexp", "add"), ("sample", "add"), ("max", "add"), ("min", "add"),
   ("max", "mul"), ("min", "mul"), ("or", "and")]

/-- Every `UNITS` entry is the op's neutral element (unit removal in cnf.py:479-489 relies on it;
    the pinned tree had `and_`/`or_` swapped, fixed in 5eb0eed). -/
theorem units_are_neutral : ∀ e ∈ units, unitEntryOk e = true := by decide

/-- Every registered distributive pair is one for which the semiring laws hold. -/
theorem distributive_pairs_proved : ∀ p ∈ distributive, p ∈ provedPairs := by decide

/-- The semirings the check computes in: `(⊕ name, ⊗ name, executable semiring)`. -/
def semirings : List (String × String × SR) :=
  [("add", "mul", SR.addMul), ("max", "add", SR.maxAdd), ("min", "add", SR.minAdd),
   ("max", "mul", SR.maxMul), ("min", "mul", SR.minMul), ("or", "and", SR.orAnd)]

/-- `(max, mul)` lives on the non-negative carrier, whose ⊕-neutral element is `0`; the table's entry
    for `max` is `-inf`, neutral on all of XR (never a value of that carrier). -/
def semiringOk (s : String × String × SR) : Bool :=
  distributive.contains (s.1, s.2.1) && units.lookup s.2.1 == some s.2.2.one &&
  (units.lookup s.1 == some s.2.2.zero || (s.1 == "max" && s.2.1 == "mul" && units.lookup s.1 == some XR.ninf))

/-- Each supported semiring is registered as distributive and its `UNITS` entries are its zero and one
    (what `ruleUnits_sound` needs: `isU ⊗ c → c = 1`, `isU ⊕ c → c = 0`). -/
theorem semiring_units_match : ∀ s ∈ semirings, semiringOk s = true := by decide

end FV.Props.C08.Tables
