/-
  Props/C08/UnfoldGood.lean — Good-preservation for the unfold model (optimizer.py:28-69).

  `Closure.lean` proves that the distribution and fusion branches of `unfoldAt` are good steps from the
  invariant `Good` alone (`unfoldAt_step_of_not_pull`) and that the PULL branch is not
  (`pull_breaks_scoping_witness`).  Here the missing piece:

    * `PullFresh vars pre post v` — the syntactic side condition of the pull branch: the binders of the
      operand are not outer binders, and are neither input names nor binders of any ⊗-sibling;
    * `unfoldAt_pull_step`   — under `Good` and `PullFresh` the pull branch is a good step (`StepOK`:
      the result is `Good`, binds no new name, has the same value);
    * `unfoldAt_step`        — EVERY branch of `unfoldAt` is a good step under `Good` + `PullFresh`
      (the latter is only used where the pull condition holds);
    * `ruleUnfold_step`, `ruleUnfold_good`, `ruleUnfold_sound_of_good` — the whole `ruleUnfold` scan;
    * `iterUnfold_step`      — iterating the root unfold (what the `unfold` interpretation's fixpoint does
      at one node) for any fuel, as long as the side condition is re-established along the way
      (stated with an invariant `P` carried by the iteration);
    * `pullFresh_needed_witness` — `PullFresh` cannot be dropped (the Closure witness restated against it).
-/
import FunsorVerif.Props.C08.Closure
namespace FV.Props.C08
open FV.C08 Finset

set_option linter.unusedSectionVars false
set_option linter.unusedSimpArgs false
set_option linter.unusedVariables false

variable {R : Type} [CommSemiring R] (size : Name → Nat)

/-- The syntactic side condition of unfold's pull branch at operand `v` with siblings `pre ++ post`:
    the operand's binders are not outer binders and are neither inputs nor binders of a sibling. -/
def PullFresh (vars : List Name) (pre post : List (Ex R)) (v : Ex R) : Prop :=
  ∀ r' b' vars' ts', v = .contr r' b' vars' ts' →
    ∀ d ∈ vars', d ∉ vars ∧ ∀ s ∈ pre ++ post, d ∉ s.ins ∧ d ∉ bnd s

/-- **The pull branch preserves the invariant under syntactic freshness** (optimizer.py:47-55). -/
theorem unfoldAt_pull_step {red bin : OpK} {vars : List Name} {pre post : List (Ex R)} {v t' : Ex R}
    (hg : Good (.contr red bin vars (pre ++ v :: post)))
    (hfr : PullFresh vars pre post v)
    (hpull : ∀ r' b' vars' ts', v = .contr r' b' vars' ts' →
      ¬(r' = .null ∧ b' = .add ∧ bin = .mul) ∧ ((red = r' ∨ red = .null) ∧ r' = .add ∧ bin = .mul))
    (h : unfoldAt red bin vars pre v post = some t') :
    StepOK size (.contr red bin vars (pre ++ v :: post)) t' := by
  cases v <;> try (simp [unfoldAt] at h; done)
  rename_i r' b' vars' ts'
  obtain ⟨hnd, hp⟩ := hpull r' b' vars' ts' rfl
  have hfr' := hfr r' b' vars' ts' rfl
  simp only [unfoldAt] at h
  rw [if_neg hnd, if_pos hp] at h
  obtain ⟨hred, hr', hbin⟩ := hp
  subst hr' hbin
  simp only [Option.some.injEq] at h
  subst h
  simp only [Good] at hg
  obtain ⟨⟨hne, hrm, hrn, hbn⟩, hbind, hgl⟩ := hg
  rw [goodList_append] at hgl
  obtain ⟨hgpre, hgv⟩ := hgl
  simp only [GoodList, Good] at hgv
  obtain ⟨⟨⟨hne', hrm', hrn', hbn'⟩, hbind', hgts'⟩, hgpost⟩ := hgv
  -- binders of the outer node against the pieces
  have hb_pre : ∀ d ∈ vars, d ∉ bndList pre := fun d hd hm =>
    hbind d hd (by simp only [bndList_append, List.mem_append]; exact Or.inl hm)
  have hb_v : ∀ d ∈ vars, d ∉ vars' ∧ d ∉ bndList ts' := fun d hd => by
    have := hbind d hd
    simp only [bndList_append, bndList, bnd, List.mem_append, not_or] at this
    exact this.2.1
  have hb_post : ∀ d ∈ vars, d ∉ bndList post := fun d hd hm =>
    hbind d hd (by simp only [bndList_append, bndList, List.mem_append]; exact Or.inr (Or.inr hm))
  have hf_pre : ∀ d ∈ vars', d ∉ bndList pre := fun d hd hm => by
    obtain ⟨s, hs, hds⟩ := mem_bndList.mp hm
    exact ((hfr' d hd).2 s (List.mem_append.mpr (Or.inl hs))).2 hds
  have hf_post : ∀ d ∈ vars', d ∉ bndList post := fun d hd hm => by
    obtain ⟨s, hs, hds⟩ := mem_bndList.mp hm
    exact ((hfr' d hd).2 s (List.mem_append.mpr (Or.inr hs))).2 hds
  refine ⟨?_, ?_, ?_⟩
  · -- Good of the result
    simp only [Good]
    refine ⟨hrm, hrn, ?_, ⟨by simp, by simp, by simp, by simp⟩, ?_, ?_⟩
    · intro d hd
      simp only [bnd, bndList_append, bndList, List.mem_append, List.nil_append, not_or]
      exact ⟨(hb_v d hd).1, hb_pre d hd, (hb_v d hd).2, hb_post d hd⟩
    · intro d hd
      simp only [bndList_append, bndList, bnd, List.mem_append, List.nil_append, not_or]
      exact ⟨hf_pre d hd, hbind' d hd, hf_post d hd⟩
    · rw [goodList_append]
      refine ⟨hgpre, ?_⟩
      simp only [GoodList, Good]
      exact ⟨⟨⟨hne', by simp, by simp, hbn'⟩, by simp, hgts'⟩, hgpost⟩
  · -- no new binder
    intro d hd
    simp only [bnd, bndList_append, bndList, List.mem_append, List.nil_append] at hd ⊢
    rcases hd with hd | hd | hd | hd | hd
    · exact Or.inl hd
    · exact Or.inr (Or.inr (Or.inl (Or.inl hd)))
    · exact Or.inr (Or.inl hd)
    · exact Or.inr (Or.inr (Or.inl (Or.inr hd)))
    · exact Or.inr (Or.inr (Or.inr hd))
  · -- same value
    intro env
    rw [eval_contr]
    simp only [Ex.eval]
    apply congrFun
    apply redFold_congr
    intro e
    simp only [evalList_eq_map]
    simp only [binFold_mul, List.map_append, List.map_cons, List.prod_append, List.prod_cons, eval_contr,
      redFold, redFold_nil]
    have hfun : (fun env' : Env =>
          (pre.map (fun t => t.eval (sr R) size env')).prod *
            (binFold (sr R) b' (ts'.map (fun t => t.eval (sr R) size env')) *
              (post.map (fun t => t.eval (sr R) size env')).prod))
        = fun env' => binFold (sr R) b' (ts'.map (fun t => t.eval (sr R) size env')) *
            ((pre.map (fun t => t.eval (sr R) size env')).prod *
              (post.map (fun t => t.eval (sr R) size env')).prod) := by
      funext env'; ring
    have hind : ∀ d ∈ vars', ∀ s ∈ pre ++ post, Indep (fun env => s.eval (sr R) size env) d := by
      intro d hd s hs
      have hgs : Good s := by
        rcases List.mem_append.mp hs with hs | hs
        · exact goodList_iff.mp hgpre s hs
        · exact goodList_iff.mp hgpost s hs
      exact indep_of_not_mem_ins size (good_leavesWF s hgs) ((hfr' d hd).2 s hs).1
    simp only [sumVars]
    rw [hfun, sumVars_mul_indep size]
    · ring
    · intro d hd env' i
      simp only
      have e1 := prod_indep size (fun s hs => hind d hd s (List.mem_append.mpr (Or.inl hs))) env' i
      have e2 := prod_indep size (fun s hs => hind d hd s (List.mem_append.mpr (Or.inr hs))) env' i
      simp only at e1 e2
      rw [e1, e2]

/-- **Every branch of unfold at one operand position is a good step** under the invariant plus the
    pull branch's freshness condition (`hsame`: the operand is not a same-operator transient form, which
    the normalize cascade rewrites before unfold sees it — as in `unfoldAt_step_of_not_pull`). -/
theorem unfoldAt_step {red bin : OpK} {vars : List Name} {pre post : List (Ex R)} {v t' : Ex R}
    (hg : Good (.contr red bin vars (pre ++ v :: post)))
    (hfr : PullFresh vars pre post v)
    (hsame : ∀ r' b' vars' ts', v = .contr r' b' vars' ts' → r' ≠ b')
    (h : unfoldAt red bin vars pre v post = some t') :
    StepOK size (.contr red bin vars (pre ++ v :: post)) t' := by
  by_cases hp : ∀ r' b' vars' ts', v = .contr r' b' vars' ts' →
      ¬(r' = .null ∧ b' = .add ∧ bin = .mul) ∧ ((red = r' ∨ red = .null) ∧ r' = .add ∧ bin = .mul)
  · exact unfoldAt_pull_step size hg hfr hp h
  · apply unfoldAt_step_of_not_pull size hg ?_ hsame h
    intro r' b' vars' ts' hv hc
    apply hp
    intro r'' b'' vars'' ts'' hv'
    rw [hv] at hv'
    cases hv'
    refine ⟨?_, hc⟩
    rintro ⟨h1, _, _⟩
    rw [hc.2.1] at h1
    cases h1

/-- **`ruleUnfold` (the whole scan over operand positions) is a good step.** -/
theorem ruleUnfold_step {red bin : OpK} {vars : List Name} {ts : List (Ex R)} {t' : Ex R}
    (hg : Good (.contr red bin vars ts))
    (hfr : ∀ pre v post, ts = pre ++ v :: post → PullFresh vars pre post v)
    (hsame : ∀ r' b' vars' ts', Ex.contr r' b' vars' ts' ∈ ts → r' ≠ b')
    (h : ruleUnfold (.contr red bin vars ts) = some t') :
    StepOK size (.contr red bin vars ts) t' := by
  simp only [ruleUnfold] at h
  obtain ⟨a, v, b, hsplit, hf⟩ := scanSplit_some _ ts [] t' h
  simp only [List.nil_append] at hsplit
  subst hsplit
  exact unfoldAt_step size hg (hfr a v b rfl)
    (fun r' b' vars' ts' hv => hsame r' b' vars' ts' (by rw [← hv]; simp)) hf

/-- **Good-preservation for unfold**: the unfold rule maps `Good` terms to `Good` terms. -/
theorem ruleUnfold_good {red bin : OpK} {vars : List Name} {ts : List (Ex R)} {t' : Ex R}
    (hg : Good (.contr red bin vars ts))
    (hfr : ∀ pre v post, ts = pre ++ v :: post → PullFresh vars pre post v)
    (hsame : ∀ r' b' vars' ts', Ex.contr r' b' vars' ts' ∈ ts → r' ≠ b')
    (h : ruleUnfold (.contr red bin vars ts) = some t') : Good t' :=
  (ruleUnfold_step (fun _ => 1) hg hfr hsame h).good

/-- Value preservation of unfold from the invariant (no `wfContr` hypotheses, unlike `ruleUnfold_sound`). -/
theorem ruleUnfold_sound_of_good {red bin : OpK} {vars : List Name} {ts : List (Ex R)} {t' : Ex R}
    (hg : Good (.contr red bin vars ts))
    (hfr : ∀ pre v post, ts = pre ++ v :: post → PullFresh vars pre post v)
    (hsame : ∀ r' b' vars' ts', Ex.contr r' b' vars' ts' ∈ ts → r' ≠ b')
    (h : ruleUnfold (.contr red bin vars ts) = some t') (env : Env) :
    t'.eval (sr R) size env = (Ex.contr red bin vars ts).eval (sr R) size env :=
  (ruleUnfold_step size hg hfr hsame h).ev env

/-- The side condition of `ruleUnfold_step` as a predicate on a term (vacuous off Contractions). -/
def UnfoldReady : Ex R → Prop
  | .contr _ _ vars ts =>
      (∀ pre v post, ts = pre ++ v :: post → PullFresh vars pre post v) ∧
      (∀ r' b' vars' ts', Ex.contr r' b' vars' ts' ∈ ts → r' ≠ b')
  | _ => True

/-- **Iterated root unfold** (the fixpoint the `unfold` interpretation runs at one node), any fuel:
    as long as an invariant `P` carried along re-establishes the side condition, the iteration is a
    good step — `Good` is preserved, no binder is invented and the value is unchanged. -/
theorem iterUnfold_step (P : Ex R → Prop)
    (hready : ∀ t, P t → UnfoldReady t)
    (hP : ∀ t t', P t → Good t → ruleUnfold t = some t' → P t')
    (fuel : Nat) (t : Ex R) (hp : P t) (hg : Good t) :
    StepOK size t (iterRoot ruleUnfold fuel t) := by
  induction fuel generalizing t with
  | zero => exact StepOK.refl size hg
  | succ n ih =>
    simp only [iterRoot]
    cases hstep : ruleUnfold t with
    | none => exact StepOK.refl size hg
    | some t' =>
      simp only
      have hs : StepOK size t t' := by
        cases t <;> try (simp [ruleUnfold] at hstep; done)
        rename_i red bin vars ts
        have hr := hready _ hp
        simp only [UnfoldReady] at hr
        exact ruleUnfold_step size hg hr.1 hr.2 hstep
      exact StepOK.trans size hs (ih t' (hP t t' hp hg hstep) hs.good)

/-! ## non-vacuity and necessity -/

section Examples

/-- `Σ_j ( g(i,j) · Σ_i f(i) )`-like shape with distinct binders: `f(k) ⊗ (Σ_i f(i))` under `Σ_k`. -/
def exFk : Ex Nat := .leaf ["k"] (fun env => env "k" + 1)
theorem exFk_dep : DependsOn (fun env : Env => env "k" + 1) ["k"] := fun env env' h => by
  simp [h "k" (by simp)]

def exPullT : Ex Nat := .contr .add .mul ["k"] [exFk, .contr .add .null ["i"] [exF]]

/-- The hypotheses of `ruleUnfold_step` are satisfiable, with the PULL branch firing. -/
example : Good exPullT ∧ UnfoldReady exPullT ∧ ∃ t', ruleUnfold exPullT = some t' ∧
    t' = .reduce .add ["k"] (.contr .add .mul ["i"] [exFk, .contr .add .null [] [exF]]) := by
  refine ⟨?_, ⟨?_, ?_⟩, _, rfl, rfl⟩
  · simp only [exPullT, Good, GoodList, Sane, exF, exFk, bndList, bnd]
    refine ⟨⟨by simp, by simp, by simp, by simp⟩, by simp, exFk_dep,
      ⟨⟨by simp, by simp, by simp, by simp⟩, by simp, exF_dep, trivial⟩, trivial⟩
  · intro pre v post hsplit r' b' vars' ts' hv d hd
    -- the only Contraction operand is the second one
    rcases pre with _ | ⟨p, pre⟩
    · simp only [List.nil_append, List.cons.injEq] at hsplit
      rw [← hsplit.1] at hv; simp [exFk] at hv
    · rcases pre with _ | ⟨q, pre⟩
      · simp only [List.cons_append, List.nil_append, List.cons.injEq] at hsplit
        obtain ⟨rfl, rfl, hpost⟩ := hsplit
        have : post = [] := by simpa using hpost.symm
        subst this
        cases hv
        simp only [List.mem_singleton] at hd
        subst hd
        simp [exFk, Ex.ins, bnd]
      · simp only [List.cons_append, List.cons.injEq] at hsplit
        have := hsplit.2.2
        simp at this
  · intro r' b' vars' ts' hm
    simp only [List.mem_cons, List.not_mem_nil, or_false, exFk] at hm
    rcases hm with hm | hm
    · cases hm
    · cases hm; simp

/-- **`PullFresh` cannot be dropped**: `Σ_k f(i) · Σ_i f(i)` violates `PullFresh` only (the operand's
    binder `i` is an input name of its sibling); the pull fires and captures the sibling's free `i`:
    the value changes (18 vs 42). -/
theorem pullFresh_needed_witness :
    let bad : Ex Nat := .contr .add .mul ["k"] [exF, .contr .add .null ["i"] [exF]]
    ¬ PullFresh ["k"] [exF] [] (Ex.contr .add .null ["i"] [exF])
    ∧ ∃ t', ruleUnfold bad = some t'
        ∧ bad.eval (sr Nat) exSize (fun _ => 0) = 18 ∧ t'.eval (sr Nat) exSize (fun _ => 0) = 42 := by
  refine ⟨?_, _, rfl, by decide, by decide⟩
  intro h
  have := (h .add .null ["i"] [exF] rfl "i" (by simp)).2 exF (by simp)
  simp [exF, Ex.ins] at this

end Examples

end FV.Props.C08
