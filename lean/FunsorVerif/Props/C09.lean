/-
  Props/C09.lean — plated sum-product equals brute-force unrolling.

  Everything is stated over an arbitrary commutative semiring `R` (add-mul, max-add on `WithBot`,
  min-add on `WithTop`, max-mul on non-negatives, logaddexp-add through `exp` are all instances).

  The unrolled value of a plated factor graph is
        Σ_{X : copies of the eliminated variables}  Π_{factors f}  Π_{i : instances of f}  f i (X ∘ look f i)
  where the copies of a variable are indexed by the assignments of the plates it lives in, the
  instances of a factor by the assignments of its own plates, and `look f i v` says which copy of `v`
  instance `i` of `f` sees (the restriction of `i` to the plates of `v`).  The statements below keep the
  index types abstract (`ι` for the leaf ordinal, `ν` for `new_plates`, `κr` for `leaf - new_plates`,
  `e : ν × κr ≃ ι` for "an assignment of the leaf plates is an assignment of the new plates together
  with one of the reduced plates"), so they hold for every plate structure, nested or not.
-/
import Mathlib.Algebra.BigOperators.Ring.Finset
import Mathlib.Data.Fintype.BigOperators
import FunsorVerif.Model.C09

set_option linter.unusedSectionVars false

namespace FV.Props.C09
open Finset

variable {R : Type*} [CommSemiring R]

/-! ## 1. the algebraic laws -/

/-- Generalized distributive law (`prod_sum_swap`): a product over the indices of a plate of sums over
    a variable local to the plate is the sum, over one copy of the variable per index, of the products.
    This is what licenses product-reducing a plate *after* summing a variable that lives in it. -/
theorem prod_sum_swap {ι : Type*} [Fintype ι] [DecidableEq ι] {δ : ι → Type*} [∀ i, Fintype (δ i)]
    (g : ∀ i, δ i → R) :
    ∏ i, ∑ d, g i d = ∑ x : ∀ i, δ i, ∏ i, g i (x i) := by
  rw [Finset.prod_univ_sum, Fintype.piFinset_univ]

/-- Independence of connected components: if the summed variables split into blocks `δ c`, one per
    component, and component `c` only reads its own block, the sum of the product is the product of
    the sums. -/
theorem partition_independent {C : Type*} [Fintype C] [DecidableEq C] {δ : C → Type*}
    [∀ c, Fintype (δ c)] (f : ∀ c, δ c → R) :
    ∑ x : ∀ c, δ c, ∏ c, f c (x c) = ∏ c, ∑ d, f c d :=
  (prod_sum_swap f).symm

/-- Binary form with the rest of the graph as a common factor. -/
theorem partition_independent₂ {α β : Type*} [Fintype α] [Fintype β] (f : α → R) (g : β → R) :
    ∑ p : α × β, f p.1 * g p.2 = (∑ a, f a) * ∑ b, g b := by
  rw [Finset.sum_mul_sum, ← Finset.sum_product']
  rfl

/-- Regrouping the product over the leaf plates into new plates × reduced plates. -/
theorem plate_regroup {ι ν κr : Type*} [Fintype ι] [Fintype ν] [Fintype κr] (e : ν × κr ≃ ι)
    (h : ι → R) : ∏ i, h i = ∏ j, ∏ k, h (e (j, k)) := by
  rw [← Fintype.prod_prod_type' (fun j k => h (e (j, k)))]
  exact (Fintype.prod_equiv e _ _ (fun _ => rfl)).symm

/-- Plate scales act as exponents = the plate repeated `s` times, with the variables living in it
    replicated for every repetition. -/
theorem scale_as_power {κ δ : Type*} [Fintype κ] [DecidableEq κ] [Fintype δ] (s : ℕ) (g : κ → δ → R) :
    (∏ k, ∑ d, g k d) ^ s = ∑ x : κ × Fin s → δ, ∏ p : κ × Fin s, g p.1 (x p) := by
  rw [← prod_sum_swap (fun (p : κ × Fin s) d => g p.1 d), Fintype.prod_prod_type]
  simp [Finset.prod_const, Finset.prod_pow]

/-- `scale_is_replication` (single plate): the product over `s` replicas of a plate is the `s`-th power of
    the plate's product — what `plate_to_scale` computes with `pow_op` (`x**s`; `s*x` in log / max-plus
    carriers, which are this statement read through `exp`). -/
theorem scale_is_replication {κ : Type*} [Fintype κ] (s : ℕ) (h : κ → R) :
    ∏ p : κ × Fin s, h p.1 = (∏ k, h k) ^ s := by
  rw [Fintype.prod_prod_type]
  simp [Finset.prod_const, Finset.prod_pow]

/-- `two_calls_eq_one` (inner-first split): the first call sums the variable local to the inner
    plate `κ₁` and multiplies that plate out, for every index of the outer plate `κ₂` (which it sees
    as an ordinary batch input); the second call multiplies out `κ₂` and sums the outer variable.
    The composite is the one-shot unrolling over the plate pair `κ₂ × κ₁`. -/
theorem two_calls_eq_one {κ₁ κ₂ δ Y : Type*} [Fintype κ₁] [DecidableEq κ₁] [Fintype κ₂] [DecidableEq κ₂]
    [Fintype δ] [Fintype Y] (g : Y → R) (f : κ₂ → κ₁ → δ → Y → R) :
    ∑ y, g y * ∏ k₂, (∏ k₁, ∑ d, f k₂ k₁ d y)
      = ∑ y, ∑ X : κ₂ × κ₁ → δ, g y * ∏ p : κ₂ × κ₁, f p.1 p.2 (X p) y := by
  refine Finset.sum_congr rfl fun y _ => ?_
  rw [← Finset.mul_sum]
  congr 1
  rw [← prod_sum_swap (fun (p : κ₂ × κ₁) d => f p.1 p.2 d y), Fintype.prod_prod_type]

/-! ## 2. one elimination step -/

section Step

variable {W V C Oth ι ν κr : Type} [Fintype W] [DecidableEq W] [Fintype V] [DecidableEq V] [Fintype C] [Fintype Oth]
  [Fintype ι] [DecidableEq ι] [Fintype ν] [Fintype κr]
  {DW : W → Type} [∀ w, Fintype (DW w)] {DV : V → Type} [∀ v, Fintype (DV v)]
  {κ : V → Type} [∀ v, Fintype (κ v)] [∀ v, DecidableEq (κ v)] {ιO : Oth → Type} [∀ o, Fintype (ιO o)]

/-- The core of a step, with the rest of the graph opaque: `A Y` is the product of all instances of
    all factors outside the group, `G i Y d` the product of the group's factors at instance `i` of the
    leaf plates given the values `d` of the group's leaf variables.  Summing one copy of the leaf
    variables per leaf index and multiplying over the leaf plates equals multiplying, over the new
    plates, the product over the reduced plates of the locally summed group. -/
theorem elim_core {𝒴 : Type*} [Fintype 𝒴] (e : ν × κr ≃ ι) (A : 𝒴 → R)
    (G : ι → 𝒴 → (∀ w, DW w) → R) :
    ∑ Z : ∀ w, ι → DW w, ∑ Y, A Y * ∏ i, G i Y (fun w => Z w i)
      = ∑ Y, A Y * ∏ j, ∏ k, ∑ d, G (e (j, k)) Y d := by
  rw [Finset.sum_comm]
  refine Finset.sum_congr rfl fun Y _ => ?_
  rw [← Finset.mul_sum]
  congr 1
  rw [← plate_regroup e (fun i => ∑ d, G i Y d), prod_sum_swap]
  exact Fintype.sum_equiv (Equiv.piComm _) _ _ (fun _ => rfl)

/-- The factor the loop appends to `ordinal_to_factors[new_plates]`:
    `reduce(prod_op, group).reduce(sum_op, group_vars).reduce(prod_op, leaf - new_plates)`. -/
def newFactor (e : ν × κr ≃ ι) (fnC : C → ι → (∀ w, DW w) → (∀ v, DV v) → R) :
    ν → (∀ v, DV v) → R :=
  fun j env => ∏ k, ∑ d, ∏ c, fnC c (e (j, k)) d env

/-- Unrolled value before the step.  Live variables: `W` (ordinal = leaf, copies indexed by `ι`) and
    `V` (copies indexed by `κ v`).  Factors: the group `C` (ordinal = leaf) and the others `Oth`, which do
    not mention `W` — the side condition "a variable whose ordinal is the leaf occurs only in the leaf
    factors of its component" is what makes this typing possible. -/
def unrollBefore (fnC : C → ι → (∀ w, DW w) → (∀ v, DV v) → R) (lookC : C → ι → ∀ v, κ v)
    (fnO : ∀ o, ιO o → (∀ v, DV v) → R) (lookO : ∀ o, ιO o → ∀ v, κ v) : R :=
  ∑ Z : ∀ w, ι → DW w, ∑ Y : ∀ v, κ v → DV v,
    (∏ o, ∏ i, fnO o i (fun v => Y v (lookO o i v))) *
      ∏ i, ∏ c, fnC c i (fun w => Z w i) (fun v => Y v (lookC c i v))

/-- Unrolled value after the step: `W` is gone, the group is replaced by `newFactor` with ordinal `ν`. -/
def unrollAfter (e : ν × κr ≃ ι) (fnC : C → ι → (∀ w, DW w) → (∀ v, DV v) → R) (look' : ν → ∀ v, κ v)
    (fnO : ∀ o, ιO o → (∀ v, DV v) → R) (lookO : ∀ o, ιO o → ∀ v, κ v) : R :=
  ∑ Y : ∀ v, κ v → DV v,
    (∏ o, ∏ i, fnO o i (fun v => Y v (lookO o i v))) *
      ∏ j, newFactor e fnC j (fun v => Y v (look' j v))

/-- **One iteration of the loop preserves the unrolled value** (for one connected component; the loop
    body handles the components of a leaf one after the other, each application leaving the other
    components among `Oth`).  Hypothesis `hlook` is exactly what the ordinal bookkeeping provides: the
    variables that remain in the new factor do not live in the plates being multiplied out, i.e. the
    copy of `v` seen from instance `e (j,k)` of the group does not depend on `k`. -/
theorem step_preserves_unroll (e : ν × κr ≃ ι)
    (fnC : C → ι → (∀ w, DW w) → (∀ v, DV v) → R) (lookC : C → ι → ∀ v, κ v)
    (fnO : ∀ o, ιO o → (∀ v, DV v) → R) (lookO : ∀ o, ιO o → ∀ v, κ v) (look' : ν → ∀ v, κ v)
    (hlook : ∀ c j k d (Y : ∀ v, κ v → DV v),
      fnC c (e (j, k)) d (fun v => Y v (lookC c (e (j, k)) v)) = fnC c (e (j, k)) d (fun v => Y v (look' j v))) :
    unrollBefore fnC lookC fnO lookO = unrollAfter e fnC look' fnO lookO := by
  unfold unrollBefore unrollAfter newFactor
  rw [elim_core e (fun Y : ∀ v, κ v → DV v => ∏ o, ∏ i, fnO o i (fun v => Y v (lookO o i v)))
        (fun i Y d => ∏ c, fnC c i d (fun v => Y v (lookC c i v)))]
  refine Finset.sum_congr rfl fun Y _ => ?_
  congr 1
  refine Finset.prod_congr rfl fun j _ => Finset.prod_congr rfl fun k _ => ?_
  refine Finset.sum_congr rfl fun d _ => Finset.prod_congr rfl fun c _ => hlook c j k d Y

/-- The syntactic form of `hlook`: a group factor reads only the variables in `vars c`, and for those
    the copy seen from `e (j,k)` is the one named by `look' j`. -/
theorem hlook_of_vars (e : ν × κr ≃ ι)
    (fnC : C → ι → (∀ w, DW w) → (∀ v, DV v) → R) (lookC : C → ι → ∀ v, κ v) (look' : ν → ∀ v, κ v)
    (vars : C → Finset V)
    (hreads : ∀ c i d (env env' : ∀ v, DV v), (∀ v ∈ vars c, env v = env' v) → fnC c i d env = fnC c i d env')
    (hres : ∀ c j k, ∀ v ∈ vars c, lookC c (e (j, k)) v = look' j v) :
    ∀ c j k d (Y : ∀ v, κ v → DV v),
      fnC c (e (j, k)) d (fun v => Y v (lookC c (e (j, k)) v)) = fnC c (e (j, k)) d (fun v => Y v (look' j v)) := by
  intro c j k d Y
  exact hreads c _ d _ _ fun v hv => by rw [hres c j k v hv]

end Step

/-! ## 3. the whole run: nested sum-products equal their flat unrolling

  Every factor the loop ever holds is either an input factor or
  `Π_{k : reduced plates} Σ_{d : group variables} Π_{c : group} child_c` — a tree (`Plan`).  `ι` is the
  index type of the node's ordinal, `E` the type of the environment of the variables that are still
  open at the node.  `Plan.eval` is what the loop computes, `Plan.inst`/`Plan.Copies` its flat
  unrolling: one copy of the variables summed at a node per index of the plates multiplied out at that
  node and at every node above it. -/

inductive Plan (R : Type) : Type → Type → Type 1
  | leaf {ι E : Type} (fn : ι → E → R) : Plan R ι E
  | node {ι ν E : Type} (κr δ C : Type) [Fintype κr] [DecidableEq κr] [Fintype δ] [Fintype C] [DecidableEq C]
      (e : ν × κr → ι) (children : C → Plan R ι (E × δ)) : Plan R ν E

namespace Plan
variable {R : Type} [CommSemiring R]

def eval : {ι E : Type} → Plan R ι E → ι → E → R
  | _, _, .leaf fn, i, env => fn i env
  | _, _, @Plan.node _ _ _ _ κr δ C _ _ _ _ _ e ch, j, env =>
      ∏ k : κr, ∑ d : δ, ∏ c : C, (ch c).eval (e (j, k)) (env, d)

def Copies : {ι E : Type} → Plan R ι E → Type
  | _, _, .leaf _ => Unit
  | _, _, @Plan.node _ _ _ _ κr δ C _ _ _ _ _ _ ch => κr → (δ × ∀ c : C, (ch c).Copies)

set_option warn.classDefReducibility false in
noncomputable def copiesFintype : {ι E : Type} → (p : Plan R ι E) → Fintype p.Copies
  | _, _, .leaf _ => (inferInstance : Fintype Unit)
  | _, _, @Plan.node _ _ _ _ κr δ C _ _ _ _ _ _ ch => by
      have := fun c => copiesFintype (ch c)
      show Fintype (κr → (δ × ∀ c : C, (ch c).Copies))
      infer_instance

noncomputable instance {ι E : Type} (p : Plan R ι E) : Fintype p.Copies := copiesFintype p

def inst : {ι E : Type} → (p : Plan R ι E) → ι → E → p.Copies → R
  | _, _, .leaf fn, i, env, _ => fn i env
  | _, _, @Plan.node _ _ _ _ κr _ C _ _ _ _ _ e ch, j, env, X =>
      ∏ k : κr, ∏ c : C, (ch c).inst (e (j, k)) (env, (X k).1) ((X k).2 c)

theorem nested_eq_unrolled : ∀ {ι E : Type} (p : Plan R ι E) (i : ι) (env : E),
    p.eval i env = ∑ X : p.Copies, p.inst i env X
  | _, _, .leaf fn, i, env => by
      show fn i env = ∑ X : Unit, fn i env
      simp
  | _, _, @Plan.node _ _ _ _ κr δ C _ _ _ _ _ e ch, j, env => by
      have ih := fun c i env' => nested_eq_unrolled (ch c) i env'
      show (∏ k : κr, ∑ d : δ, ∏ c : C, (ch c).eval (e (j, k)) (env, d))
          = ∑ X : κr → (δ × ∀ c : C, (ch c).Copies),
              ∏ k : κr, ∏ c : C, (ch c).inst (e (j, k)) (env, (X k).1) ((X k).2 c)
      simp_rw [ih]
      rw [← Fintype.piFinset_univ]
      rw [← Finset.prod_univ_sum (fun _ => univ)
            (fun (k : κr) (p : δ × ∀ c : C, (ch c).Copies) =>
              ∏ c : C, (ch c).inst (e (j, k)) (env, p.1) (p.2 c))]
      refine Finset.prod_congr rfl fun k _ => ?_
      rw [Fintype.sum_prod_type]
      refine Finset.sum_congr rfl fun d _ => ?_
      rw [Finset.prod_univ_sum, Fintype.piFinset_univ]

end Plan

/-- FULL STATEMENT (kept visible):

      sum_product_exact :  psp G = ok results  →  Π results = unroll G

    for the executable `FV.C09.psp` / `FV.C09.unroll` over a lawful commutative semiring.
    Proved (second phase, `Props/C09/Run.lean`): `FV.Props.C09.Run.sum_product_exact` — the statement for
    the SEMANTIC state machine of the loop (pending factors with their keys, fixed `var_to_ordinal`, live
    variables, results), for every plate structure and every run (any maximal leaf, any component order),
    by the loop invariant `Inv` and `compStep_val`/`elim_group`, with the copies of the unrolling concrete
    (`XS`: one copy of a live variable per assignment of its ordinal).
    Towards the executable model (`Props/C09/Exec.lean`, all about `FV.C09` itself): `chooseLeaf_max`
    (leaf maximal), `partition_perm` / `partition_closed` / `partition_groupvars_disjoint` (components are
    a partition and share no leaf variable: hypotheses `hpend`, `closed` of `Run.CompStep`), and the
    denotations of the dense-table operations `tabulate_eval`, `mulF_eval`, `reduceF_eval` (`ravel_spec`).
    Executable model, NON-PLATED case (third phase, `Props/C09/NoPlates.lean`): the full statement is
    proved for `FV.C09.psp` / `FV.C09.unroll` themselves —
      `Exec.sum_product_exact_noplates` : psp fs elim [] = ok rs → ∃ R, prodAll rs = some R ∧
                                           unroll fs elim [] free = ok (table of R over free)
    for every commutative semiring, with hypotheses only on the caller's `free` list.
    Modified/dynamic bookkeeping: `Run.modified_step_isGStep` (a HEAD step of those variants is a generalized
    step of the machine of the eliminated plates) and `Run.C09_3_witness` (dropping `& prod_vars` is not).
    Executable model, SINGLE-BUCKET class (fourth phase, `Props/C09/Bucket.lean`): one plate level — every factor
    carries all the eliminated plates, every summed variable lives in them — `Exec.sum_product_exact_bucket`,
    same statement, with the closed form of `unroll` at non-empty plate contexts (`unroll_bucket`).
    Still missing for the executable model, named precisely: graphs with SEVERAL ordinals, i.e. the PLATED cases — `component` with
    `leaf ≠ []` as the executable counterpart of `Run.elim_group` (`Asg`/`merge` realised by `points`/`++`,
    `prodOut` over `leaf - new_plates`, `addPending` filing, several loop iterations) and `unroll`'s copies
    with non-empty plate contexts (`sumCopies_pure` is already general).
    The plated cases are covered at run time by the echo `psp = unroll` on every generated case.
    The earlier partial results stay: `step_preserves_unroll` (abstract index types) and
    `sum_product_exact_partial` below (nested plans equal their path-indexed flat unrolling). -/
theorem sum_product_exact_partial {R : Type} [CommSemiring R] {Res E : Type} [Fintype Res] [DecidableEq Res]
    (results : Res → Plan R Unit E) (env : E) :
    ∏ r, (results r).eval () env
      = ∑ X : ∀ r, (results r).Copies, ∏ r, (results r).inst () env (X r) := by
  simp_rw [Plan.nested_eq_unrolled]
  rw [Finset.prod_univ_sum, Fintype.piFinset_univ]

/-- Non-vacuity of `Plan`: `Π_{k:Bool} Σ_{d:Bool} f k d` as a one-node plan over a leaf. -/
example (f : Bool → Bool → ℕ) :
    (Plan.node (R := ℕ) (ν := Unit) (E := Unit) Bool Bool Unit (fun p => p.2)
        (fun _ => Plan.leaf (fun k (env : Unit × Bool) => f k env.2))).eval () ()
      = ∏ k : Bool, ∑ d : Bool, f k d := by
  simp [Plan.eval]

/-! ## 4. where the hypotheses of the step come from: the ordinal bookkeeping -/

section Bookkeeping

variable {P Vn F : Type} [DecidableEq P]

/-- `max(ordinal_to_factors, key=len)` is inclusion-maximal: no pending key strictly contains it. -/
theorem leaf_maximal {keys : Finset (Finset P)} {L o : Finset P}
    (hmax : ∀ o ∈ keys, o.card ≤ L.card) (ho : o ∈ keys) (hsub : L ⊆ o) : o = L :=
  (Finset.eq_of_subset_of_card_le hsub (hmax o ho)).symm

/-- Loop invariant `O v ⊆ key f` for every pending factor `f` mentioning a summed variable `v`
    ⇒ a variable whose ordinal is the leaf occurs only in factors filed under the leaf.  (So the other
    factors can be typed without it: `Oth` in `step_preserves_unroll`.) -/
theorem leaf_var_only_in_leaf_factors (key : F → Finset P) (mentions : F → Vn → Prop)
    (O : Vn → Finset P) (pending : Finset F) (L : Finset P)
    (hinv : ∀ f ∈ pending, ∀ v, mentions f v → O v ⊆ key f)
    (hmax : ∀ f ∈ pending, (key f).card ≤ L.card)
    {v : Vn} {f : F} (hv : O v = L) (hf : f ∈ pending) (hm : mentions f v) : key f = L :=
  (Finset.eq_of_subset_of_card_le (hv ▸ hinv f hf v hm) (hmax f hf)).symm

/-- The invariant holds initially: `var_to_ordinal[v]` is the intersection of the ordinals of the
    factors mentioning `v`. -/
theorem invariant_initial [Fintype P] (key : F → Finset P) (mentions : F → Vn → Prop)
    [∀ f v, Decidable (mentions f v)] (pending : Finset F) (O : Vn → Finset P)
    (hO : ∀ v, O v = Finset.univ.filter fun p => ∀ f ∈ pending, mentions f v → p ∈ key f) :
    ∀ f ∈ pending, ∀ v, mentions f v → O v ⊆ key f := by
  intro f hf v hm p hp
  rw [hO v, Finset.mem_filter] at hp
  exact hp.2 f hf hm

variable [DecidableEq Vn]

/-- `new_plates ⊆ leaf`; the loop raises "intractable!" exactly when it is not a strict subset. -/
theorem newPlates_subset_leaf (O : Vn → Finset P) (remaining : Finset Vn) (L : Finset P)
    (h : ∀ v ∈ remaining, O v ⊆ L) : remaining.biUnion O ⊆ L :=
  Finset.biUnion_subset.2 h

/-- The invariant is re-established for the new factor filed under `new_plates`. -/
theorem invariant_new_factor (O : Vn → Finset P) (remaining : Finset Vn) {v : Vn} (hv : v ∈ remaining) :
    O v ⊆ remaining.biUnion O :=
  Finset.subset_biUnion_of_mem O hv

/-- The variables that remain do not live in the plates being multiplied out. -/
theorem remaining_not_in_reduced (O : Vn → Finset P) (remaining : Finset Vn) (L : Finset P)
    {v : Vn} (hv : v ∈ remaining) {p : P} (hp : p ∈ L \ remaining.biUnion O) : p ∉ O v := by
  intro hpv
  exact (Finset.mem_sdiff.1 hp).2 (Finset.mem_biUnion.2 ⟨v, hv, hpv⟩)

end Bookkeeping

/-! ### the intended index types: assignments of a set of plates -/

section Idx

variable {P : Type} [DecidableEq P] (I : P → Type)

/-- Assignments of the plates in `o` (`I p` = the index type of plate `p`). -/
abbrev Idx (o : Finset P) : Type := ∀ p : {p // p ∈ o}, I p.1

/-- Restriction to a smaller ordinal: which copy of a variable of ordinal `o'` an instance sees. -/
def res {o' o : Finset P} (h : o' ⊆ o) (i : Idx I o) : Idx I o' := fun p => i ⟨p.1, h p.2⟩

theorem res_trans {o'' o' o : Finset P} (h' : o'' ⊆ o') (h : o' ⊆ o) (i : Idx I o) :
    res I h' (res I h i) = res I (h'.trans h) i := rfl

/-- An assignment of the leaf plates = an assignment of `new_plates` and one of `leaf - new_plates`. -/
def splitIdx {N L : Finset P} (h : N ⊆ L) : Idx I N × Idx I (L \ N) ≃ Idx I L where
  toFun jk := fun p =>
    if hp : p.1 ∈ N then jk.1 ⟨p.1, hp⟩ else jk.2 ⟨p.1, Finset.mem_sdiff.2 ⟨p.2, hp⟩⟩
  invFun i := (fun p => i ⟨p.1, h p.2⟩, fun p => i ⟨p.1, (Finset.mem_sdiff.1 p.2).1⟩)
  left_inv jk := by
    rcases jk with ⟨j, k⟩
    refine Prod.ext (funext fun p => ?_) (funext fun p => ?_)
    · simp [p.2]
    · have : p.1 ∉ N := (Finset.mem_sdiff.1 p.2).2
      simp [this]
  right_inv i := by
    funext p
    by_cases hp : p.1 ∈ N <;> simp [hp]

/-- `hres` of `hlook_of_vars` in the intended model: a variable whose ordinal is inside `new_plates`
    sees, from instance `(j,k)` of the leaf, the copy determined by `j` alone. -/
theorem res_splitIdx {O N L : Finset P} (hON : O ⊆ N) (h : N ⊆ L) (j : Idx I N) (k : Idx I (L \ N)) :
    res I (hON.trans h) (splitIdx I h (j, k)) = res I hON j := by
  funext p
  simp [res, splitIdx, hON p.2]

end Idx

/-- The hypotheses of `step_preserves_unroll` are satisfiable in the intended model: one plate `p` of
    size 2 multiplied out (`leaf = {p}`, `new_plates = ∅`), a boolean variable local to the plate summed,
    a boolean variable outside the plate remaining.  (Value: both sides are the same number.) -/
example (f : Bool → Bool → Bool → ℕ) (g : Bool → ℕ) :
    unrollBefore (W := Unit) (V := Unit) (C := Unit) (Oth := Unit) (ι := Bool) (DW := fun _ => Bool)
        (DV := fun _ => Bool) (κ := fun _ => Unit) (ιO := fun _ => Unit)
        (fun _ i (d : Unit → Bool) (env : Unit → Bool) => f i (d ()) (env ())) (fun _ _ _ => ())
        (fun _ _ (env : Unit → Bool) => g (env ())) (fun _ _ _ => ())
      = unrollAfter (W := Unit) (V := Unit) (C := Unit) (Oth := Unit) (ι := Bool) (DW := fun _ => Bool)
        (DV := fun _ => Bool) (κ := fun _ => Unit) (ιO := fun _ => Unit) (ν := Unit) (κr := Bool)
        (Equiv.punitProd Bool)
        (fun _ i (d : Unit → Bool) (env : Unit → Bool) => f i (d ()) (env ())) (fun _ _ => ())
        (fun _ _ (env : Unit → Bool) => g (env ())) (fun _ _ _ => ()) :=
  step_preserves_unroll _ _ _ _ _ _ (fun _ _ _ _ _ => rfl)

/-! ## 5. facts about the executable model (`FV.C09`, any carrier, any operations) -/

section Exec
open FV.C09

variable {α : Type}

/-- `chooseLeaf` returns a pending key … -/
theorem chooseLeaf_mem : ∀ (pend : List (List Name × List (Factor α))) (L : List Name),
    chooseLeaf pend = some L → L ∈ pend.map (·.1)
  | [], L, h => by simp [chooseLeaf] at h
  | (k, fs) :: rest, L, h => by
    simp only [chooseLeaf] at h
    cases hr : chooseLeaf rest with
    | none => rw [hr] at h; simp at h; simp [h]
    | some k' =>
      rw [hr] at h
      by_cases hlt : k'.length > k.length
      · simp [hlt] at h
        have := chooseLeaf_mem rest k' hr
        simp only [List.map_cons, List.mem_cons]
        exact Or.inr (h ▸ this)
      · simp [hlt] at h; simp [h]

/-- … of maximal length (hence inclusion-maximal, `leaf_maximal`). -/
theorem chooseLeaf_max : ∀ (pend : List (List Name × List (Factor α))) (L : List Name),
    chooseLeaf pend = some L → ∀ kf ∈ pend, kf.1.length ≤ L.length
  | [], L, h => by simp [chooseLeaf] at h
  | (k, fs) :: rest, L, h => by
    simp only [chooseLeaf] at h
    intro kf hkf
    cases hr : chooseLeaf rest with
    | none =>
      rw [hr] at h; simp at h
      cases rest with
      | nil => simp at hkf; simp [hkf, ← h]
      | cons x xs =>
        simp only [chooseLeaf] at hr
        cases hx : chooseLeaf xs with
        | none => simp [hx] at hr
        | some k'' => simp only [hx] at hr; split at hr <;> simp at hr
    | some k' =>
      rw [hr] at h
      have ih := chooseLeaf_max rest k' hr
      rcases List.mem_cons.1 hkf with rfl | hmem
      · by_cases hlt : k'.length > k.length
        · simp [hlt] at h; subst h; exact Nat.le_of_lt hlt
        · simp [hlt] at h; subst h; exact Nat.le_refl _
      · by_cases hlt : k'.length > k.length
        · simp [hlt] at h; subst h; exact ih kf hmem
        · simp [hlt] at h; subst h; exact Nat.le_trans (ih kf hmem) (Nat.le_of_not_lt hlt)

/-- `intractable_raises`: when summed variables remain in a component and the union of their ordinals
    is the whole leaf (a discrete variable would have to be replicated), the component step returns
    the error, never a value. -/
theorem intractable_raises (o : Ops α) (c : Cfg) (leaf : List Name) (st : St α)
    (grp : List (Factor α) × List Name) (f : Factor α)
    (hf : (prodAll o grp.1).bind (sumOut o · (inter grp.2 c.elim)) = some f)
    (hrem : (c.S.filter f.has).isEmpty = false)
    (hnp : sset ((c.S.filter f.has).flatMap fun v => (c.O.lookup v).getD []) = leaf) :
    component o c leaf st grp = .error .intractable := by
  unfold component
  simp only [hf, hrem, hnp]
  simp

/-- An error in one component aborts the iteration … -/
theorem component_error_aborts (o : Ops α) (c : Cfg) (leaf : List Name) (st : St α)
    (grp : List (Factor α) × List Name) (rest : List (List (Factor α) × List Name)) (e : Err)
    (h : component o c leaf st grp = .error e) :
    (grp :: rest).foldlM (component o c leaf) st = .error e := by
  simp [List.foldlM, h, bind, Except.bind]

/-- … and the whole loop: no value is returned. -/
theorem loop_error_propagates (o : Ops α) (c : Cfg) (fuel : Nat) (st : St α) (leaf : List Name) (e : Err)
    (hl : chooseLeaf st.pending = some leaf)
    (h : (partition ((c.O.filter (·.2 == leaf)).map (·.1)) ((st.pending.lookup leaf).getD []).length
            ((st.pending.lookup leaf).getD [])).foldlM (component o c leaf)
          { st with pending := st.pending.filter (·.1 != leaf) } = .error e) :
    pspLoop o c (fuel + 1) st = .error e := by
  simp only [pspLoop, hl, h]

/-- The loop returns its results exactly when nothing is pending. -/
theorem loop_done (o : Ops α) (c : Cfg) (fuel : Nat) (st : St α) (h : st.pending = []) :
    pspLoop o c (fuel + 1) st = .ok st.results := by
  simp [pspLoop, h, chooseLeaf]

/-- Non-vacuity of `intractable_raises`: `f(a,b,i,j) g(a,i) h(b,j)` with everything eliminated. -/
example :
    (psp (α := Nat) ⟨(· + ·), (· * ·), 0, 1⟩
      [⟨[("a", 1), ("b", 1), ("i", 1), ("j", 1)], [1]⟩, ⟨[("a", 1), ("i", 1)], [1]⟩, ⟨[("b", 1), ("j", 1)], [1]⟩]
      ["a", "b", "i", "j"] ["i", "j"] [] false false).toOption = none := by decide

end Exec

end FV.Props.C09
