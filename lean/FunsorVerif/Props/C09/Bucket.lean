/-
  Props/C09/Bucket.lean — `sum_product_exact` for the EXECUTABLE model on the SINGLE-BUCKET class:
  every factor carries every eliminated plate (any number of them) and every summed variable lives in
  them — one plate level; `plates = []` (Props/C09/NoPlates.lean) is the special case with no plate.

    joint_exchange            Σ over the oracle's copies (v, ctx), variable-major, of a product over contexts
                              = Π_ctx Σ_{points of the variables}     (copies ≃ tuples jointly over several variables)
    instance_bucket,
    instProd_bucket           `instProd` at a NON-EMPTY plate context: the environment it builds is ctx ++ slice ++ fenv
    sumCopies_bucket,
    unroll_bucket             closed form of `FV.C09.unroll` on the class:  Π_ctx Σ_e Π_f f(ctx ++ e ++ fenv)
    psp_bucket                control flow: one iteration, leaf = all eliminated plates, one result per component
    compResL_value            value of a component's result: Π_ctx (local sum)(ctx ++ fenv)   (`newFactor_value` +
                              `prod_points_perm`: the plates as they sit in the table are a rearrangement of the oracle's)
    sum_product_exact_bucket  psp fs elim plates = ok rs → ∃ R, prodAll rs = some R ∧ unroll … = ok (table of R)

  What remains for the general plated executable statement `psp_loop_refines_plated_spec`: graphs with MORE
  THAN ONE ordinal (several loop iterations).  The per-iteration algebra is `Plated.filed_factor_exchange`
  and the oracle-side exchange is `joint_exchange`; missing are (2') the closed form of `unroll` for factors
  filed under different ordinals (`instProd_bucket` assumes one ordinal `L` for all factors: the slice of a
  variable of smaller ordinal must be read at the restricted context) and (3) the stability of the recomputed
  ordinals across iterations (semantically `Run.Inv.ord`).  Props/C09/TwoLevel.lean has the instance-level closed form
  for arbitrary ordinals (`instProd_general`) and the key stability of the filed factor (`filed_factor_key`).
-/
import FunsorVerif.Props.C09.Plated
namespace FV.Props.C09.Exec
open FV.C09
section SingleBucket
set_option linter.unusedSectionVars false
variable {α : Type} [CommSemiring α]

/-! ## copies of several variables over several contexts: the joint exchange -/

theorem asgs_append {K : Type} : ∀ (A B : List (K × Nat)),
    asgs (A ++ B) = (asgs A).flatMap fun a1 => (asgs B).map fun a2 => a2 ++ a1
  | [], B => by simp [asgs]
  | (k, sz) :: A, B => by
    simp only [List.cons_append, asgs, asgs_append A B, List.map_flatMap, List.flatMap_assoc,
      List.flatMap_map, List.map_map, Function.comp_def, List.append_assoc]

theorem asgs_keys {K : Type} : ∀ (cs : List (K × Nat)) (a : List (K × Nat)), a ∈ asgs cs →
    a.map (·.1) = (cs.map (·.1)).reverse
  | [], a, h => by simp [asgs] at h; subst h; rfl
  | (k, sz) :: cs, a, h => by
    simp only [asgs, List.mem_flatMap, List.mem_map] at h
    obtain ⟨x, _, a', ha', rfl⟩ := h
    simp [asgs_keys cs a' ha']

theorem tuples_length {β : Type} (L : List β) : ∀ (n : Nat) (xs : List β), xs ∈ tuples L n → xs.length = n
  | 0, xs, h => by simp [tuples] at h; subst h; rfl
  | n + 1, xs, h => by
    simp only [tuples, List.mem_flatMap, List.mem_map] at h
    obtain ⟨d, _, xs', hxs', rfl⟩ := h
    simp [tuples_length L n xs' hxs']

theorem lookup_none_of_key_not_mem {K V : Type} [BEq K] [LawfulBEq K] (l : List (K × V)) (k : K)
    (h : k ∉ l.map (·.1)) : l.lookup k = none := by
  rw [List.lookup_eq_none_iff]
  intro p hp
  have : k ≠ p.1 := fun hk => h (List.mem_map.2 ⟨p, hp, hk.symm⟩)
  simpa using this

/-- product over nodup keys of a function of the value stored for the key = product over the zip -/
theorem prod_lookup_zip {K : Type} [BEq K] [LawfulBEq K] (F : K → Option Nat → α) :
    ∀ (ks : List K) (xs : List Nat), ks.Nodup → xs.length = ks.length →
    (ks.map fun k => F k ((ks.zip xs).reverse.lookup k)).prod
      = (List.zipWith (fun k x => F k (some x)) ks xs).prod
  | [], xs, _, _ => by simp
  | k :: ks, [], _, h => by simp at h
  | k :: ks, x :: xs, hnd, hlen => by
    rw [List.nodup_cons] at hnd
    have hndz : (((k :: ks).zip (x :: xs)).map (·.1)).Nodup := by
      rw [List.map_fst_zip (by simp at hlen ⊢; omega)]; exact List.nodup_cons.2 hnd
    simp only [List.map_cons, List.prod_cons, List.zipWith_cons_cons]
    congr 1
    · rw [lookup_reverse_nodup _ _ hndz]; simp [List.zip_cons_cons]
    · rw [← prod_lookup_zip F ks xs hnd.2 (by simp at hlen; omega)]
      refine congrArg List.prod (List.map_congr_left fun k' hk' => ?_)
      have hndz' : ((ks.zip xs).map (·.1)).Nodup := by
        rw [List.map_fst_zip (by simp at hlen; omega)]; exact hnd.2
      rw [lookup_reverse_nodup _ _ hndz, lookup_reverse_nodup _ _ hndz', List.zip_cons_cons,
        List.lookup_cons]
      have : (k' == k) = false := by
        simpa using fun (h : k' = k) => hnd.1 (h ▸ hk')
      rw [this]

theorem lookup_isSome_of_key_mem {K V : Type} [BEq K] [LawfulBEq K] : ∀ (l : List (K × V)) (k : K),
    k ∈ l.map (·.1) → (l.lookup k).isSome = true
  | [], k, h => by simp at h
  | (k', v) :: l, k, h => by
    rw [List.lookup_cons]
    by_cases hk : k = k'
    · simp [hk]
    · have : (k == k') = false := by simpa using hk
      rw [this]
      simp only [List.map_cons, List.mem_cons] at h
      rcases h with h | h
      · exact absurd h hk
      · exact lookup_isSome_of_key_mem l k h

/-- the copies the oracle sums: one per variable and plate context -/
def copiesOf (vs : List (Name × Nat)) (ctxs : List Env) : List ((Name × Env) × Nat) :=
  vs.flatMap fun p => ctxs.map fun ctx => ((p.1, ctx), p.2)

/-- the values an accumulated assignment gives to the copies of the variables in one context -/
def slice (vs : List (Name × Nat)) (X : List ((Name × Env) × Nat)) (ctx : Env) : Env :=
  vs.filterMap fun p => (X.lookup (p.1, ctx)).map fun x => (p.1, x)

theorem copiesOf_keys_name (vs : List (Name × Nat)) (ctxs : List Env) (k : Name × Env)
    (h : k ∈ (copiesOf vs ctxs).map (·.1)) : k.1 ∈ vs.map (·.1) ∧ k.2 ∈ ctxs := by
  simp only [copiesOf, List.mem_map, List.mem_flatMap] at h
  obtain ⟨c, ⟨p, hp, ctx, hctx, rfl⟩, rfl⟩ := h
  exact ⟨List.mem_map.2 ⟨p, hp, rfl⟩, hctx⟩

theorem slice_append (vs : List (Name × Nat)) (ctxs : List Env) (a1 a2 : List ((Name × Env) × Nat))
    (ha2 : a2 ∈ asgs (copiesOf vs ctxs)) (ctx : Env) (hctx : ctx ∈ ctxs) :
    slice vs (a2 ++ a1) ctx = slice vs a2 ctx := by
  unfold slice
  refine List.filterMap_congr fun p hp => ?_
  have hkey : (p.1, ctx) ∈ a2.map (·.1) := by
    rw [asgs_keys _ a2 ha2, List.mem_reverse]
    simp only [copiesOf, List.mem_map, List.mem_flatMap]
    exact ⟨((p.1, ctx), p.2), ⟨p, hp, ctx, hctx, rfl⟩, rfl⟩
  have := lookup_isSome_of_key_mem a2 (p.1, ctx) hkey
  rw [List.lookup_append]
  cases h : a2.lookup (p.1, ctx) with
  | none => rw [h] at this; simp at this
  | some x => simp

/-- **Joint exchange over several variables and several contexts**: summing one copy of every variable
    per context (the oracle's copies, enumerated variable-major) a product over the contexts in which
    each context only reads its own copies, is the product over the contexts of the sums over the points
    of the variables. -/
theorem joint_exchange (ctxs : List Env) (hctx : ctxs.Nodup) : ∀ (vs : List (Name × Nat)),
    (vs.map (·.1)).Nodup → ∀ (H : Env → Env → α),
    ((asgs (copiesOf vs ctxs)).map fun a => (ctxs.map fun ctx => H ctx (slice vs a ctx)).prod).sum
      = (ctxs.map fun ctx => ((points vs).map (H ctx)).sum).prod
  | [], _, H => by simp [copiesOf, asgs, slice, points]
  | (v, s) :: vs, hnd, H => by
    rw [List.map_cons, List.nodup_cons] at hnd
    have hcop : copiesOf ((v, s) :: vs) ctxs
        = ((ctxs.map fun ctx => (v, ctx)).map fun k => (k, s)) ++ copiesOf vs ctxs := by
      simp [copiesOf, List.map_map, Function.comp_def]
    rw [hcop, asgs_append, List.map_flatMap, sum_flatMap']
    -- inner sum, for a fixed assignment a1 of the copies of v
    have hinner : ∀ a1 ∈ asgs ((ctxs.map fun ctx => (v, ctx)).map fun k => (k, s)),
        (((asgs (copiesOf vs ctxs)).map fun a2 => a2 ++ a1).map fun a =>
            (ctxs.map fun ctx => H ctx (slice ((v, s) :: vs) a ctx)).prod).sum
          = (ctxs.map fun ctx => ((points vs).map fun e' =>
              H ctx ((v, (a1.lookup (v, ctx)).getD 0) :: e')).sum).prod := by
      intro a1 ha1
      rw [List.map_map]
      rw [← joint_exchange ctxs hctx vs hnd.2 (fun ctx e' => H ctx ((v, (a1.lookup (v, ctx)).getD 0) :: e'))]
      refine congrArg List.sum (List.map_congr_left fun a2 ha2 => ?_)
      refine congrArg List.prod (List.map_congr_left fun ctx hc => ?_)
      congr 1
      -- the slice of a2 ++ a1 at ctx
      have hv2 : a2.lookup (v, ctx) = none := by
        refine lookup_none_of_key_not_mem a2 (v, ctx) fun hmem => ?_
        rw [asgs_keys _ a2 ha2, List.mem_reverse] at hmem
        exact hnd.1 (copiesOf_keys_name vs ctxs (v, ctx) hmem).1
      have hv1 : (a1.lookup (v, ctx)).isSome = true := by
        refine lookup_isSome_of_key_mem a1 (v, ctx) ?_
        rw [asgs_keys _ a1 ha1, List.mem_reverse]
        simp only [List.map_map, List.mem_map, Function.comp]
        exact ⟨ctx, hc, rfl⟩
      have htail := slice_append vs ctxs a1 a2 ha2 ctx hc
      unfold slice at htail ⊢
      rw [List.filterMap_cons, List.lookup_append, hv2]
      cases hl : a1.lookup (v, ctx) with
      | none => rw [hl] at hv1; simp at hv1
      | some x => simp only [Option.none_or, Option.map_some, Option.getD_some]; rw [htail]
    rw [List.map_congr_left hinner]
    -- outer sum: the copies of v are a tuple
    have hkeys : (ctxs.map fun ctx => (v, ctx)).Nodup :=
      List.Nodup.map (fun a b h => (Prod.mk.inj h).2) hctx
    rw [sum_asgs_eq_tuples s (ctxs.map fun ctx => (v, ctx))
      (fun a1 => (ctxs.map fun ctx => ((points vs).map fun e' =>
        H ctx ((v, (a1.lookup (v, ctx)).getD 0) :: e')).sum).prod)]
    have hprod : ∀ xs ∈ tuples (List.range s) (ctxs.map fun ctx => (v, ctx)).length,
        (ctxs.map fun ctx => ((points vs).map fun e' =>
          H ctx ((v, ((((ctxs.map fun ctx => (v, ctx)).zip xs).reverse).lookup (v, ctx)).getD 0) :: e')).sum).prod
        = (List.zipWith (fun (k : Name × Env) x => ((points vs).map fun e' => H k.2 ((v, x) :: e')).sum)
            (ctxs.map fun ctx => (v, ctx)) xs).prod := by
      intro xs hxs
      have := prod_lookup_zip (fun (k : Name × Env) (o : Option Nat) =>
        ((points vs).map fun e' => H k.2 ((v, o.getD 0) :: e')).sum)
        (ctxs.map fun ctx => (v, ctx)) xs hkeys (tuples_length _ _ xs hxs)
      simp only [List.map_map, Function.comp_def, Option.getD_some] at this
      exact this
    rw [List.map_congr_left hprod, ← prod_sum_exchange, List.map_map]
    refine congrArg List.prod (List.map_congr_left fun ctx _ => ?_)
    simp only [Function.comp, points, List.map_flatMap, sum_flatMap', List.map_map]
    rfl

theorem prod_map_prod_comm {β γ : Type} (l1 : List β) (l2 : List γ) (g : β → γ → α) :
    (l1.map fun x => (l2.map (g x)).prod).prod = (l2.map fun y => (l1.map (g · y)).prod).prod := by
  induction l1 with
  | nil => simp
  | cons x l1 ih => simp [ih, List.prod_map_mul]

theorem lookup_slice (X : List ((Name × Env) × Nat)) (ctx : Env) (n : Name) :
    ∀ (vs : List (Name × Nat)), (slice vs X ctx).lookup n
      = if n ∈ vs.map (·.1) then X.lookup (n, ctx) else none
  | [] => by simp [slice]
  | (v, s) :: vs => by
    have ih := lookup_slice X ctx n vs
    unfold slice at ih ⊢
    rw [List.filterMap_cons]
    by_cases hnv : n = v
    · subst hnv
      cases hl : X.lookup (n, ctx) with
      | none =>
        simp only [Option.map_none, ih, List.map_cons, List.mem_cons, true_or, if_true]
        rw [hl]; split <;> rfl
      | some x => simp
    · have hne : (n == v) = false := by simpa using hnv
      cases hl : X.lookup (v, ctx) with
      | none => simp only [Option.map_none, ih, List.map_cons, List.mem_cons, hnv, false_or]
      | some x =>
        simp only [Option.map_some, List.lookup_cons, hne, ih, List.map_cons, List.mem_cons, hnv, false_or]

/-- One instance of one factor inside the bucket: the environment `instProd` builds for context `ctx`
    is `ctx ++ slice ++ fenv` (link 1: `instProd` at a non-empty plate context). -/
theorem instance_bucket (f : Factor α) (L : List Name) (Ls vs : List (Name × Nat))
    (O : List (Name × List Name)) (fenv ctx : Env) (X : List ((Name × Env) × Nat))
    (hLs : Ls.map (·.1) = L) (hctx : ctx ∈ points Ls)
    (hO : ∀ n, O.lookup n = if n ∈ vs.map (·.1) then some L else none)
    (hsize : ∀ p ∈ f.inputs, p.1 ∈ L → p ∈ Ls) (hsf : SizeFun Ls)
    (hwf : wellFormed f = true)
    (hX : ∀ n ∈ vs.map (·.1), (X.lookup (n, ctx)).isSome = true)
    (hcov : Covers (ctx ++ (slice vs X ctx ++ fenv)) f.inputs) :
    ((f.inputs.mapM fun x : Name × Nat =>
        if L.contains x.1 then (ctx.lookup x.1).map fun y => (x.1, y % x.2)
        else match O.lookup x.1 with
          | some on => (X.lookup (x.1, ctx.filter fun q => on.contains q.1)).map fun y => (x.1, y)
          | none => (fenv.lookup x.1).map fun y => (x.1, y)).bind f.eval)
      = some (ev f (ctx ++ (slice vs X ctx ++ fenv))) := by
  have hcl := covers_points Ls ctx hsf hctx
  have hfilter : ctx.filter (fun q => L.contains q.1) = ctx := by
    rw [List.filter_eq_self]
    intro q hq
    have : q.1 ∈ ctx.map (·.1) := List.mem_map.2 ⟨q, hq, rfl⟩
    rw [points_names Ls ctx hctx, hLs] at this
    simpa using this
  have hm := mapM_pointOf (fun x : Name × Nat =>
        if L.contains x.1 then (ctx.lookup x.1).map fun y => (x.1, y % x.2)
        else match O.lookup x.1 with
          | some on => (X.lookup (x.1, ctx.filter fun q => on.contains q.1)).map fun y => (x.1, y)
          | none => (fenv.lookup x.1).map fun y => (x.1, y))
      (ctx ++ (slice vs X ctx ++ fenv)) f.inputs ?_ hcov
  · rw [hm, Option.bind_some,
      eval_congr f (pointOf _ f.inputs) (ctx ++ (slice vs X ctx ++ fenv))
        (fun p hp => lookup_pointOf _ f.inputs hcov p.1 (List.mem_map.2 ⟨p, hp, rfl⟩))]
    exact eval_some f hwf _ hcov
  · intro p hp
    by_cases hpL : p.1 ∈ L
    · have hc : L.contains p.1 = true := by simpa using hpL
      simp only [hc, if_true]
      obtain ⟨x, hx, hlt⟩ := hcl p (hsize p hp hpL)
      rw [List.lookup_append, hx]
      simp [Nat.mod_eq_of_lt hlt]
    · have hc : L.contains p.1 = false := by simpa using hpL
      have hcn : ctx.lookup p.1 = none :=
        lookup_none_of_not_mem Ls ctx p.1 hctx (by rw [hLs]; exact hpL)
      simp only [hc, Bool.false_eq_true, if_false, hO p.1]
      rw [List.lookup_append, hcn, List.lookup_append, lookup_slice]
      by_cases hv : p.1 ∈ vs.map (·.1)
      · simp only [hv, if_true, hfilter]
        have hs := hX p.1 hv
        cases hl : X.lookup (p.1, ctx) with
        | none => rw [hl] at hs; simp at hs
        | some y => simp
      · simp [hv]

/-- `instProd` on a single bucket: every factor has one instance per context of the bucket's plates. -/
theorem instProd_bucket (fs : List (Factor α)) (L : List Name) (rep : Name → Nat) (vs : List (Name × Nat))
    (O : List (Name × List Name)) (fenv : Env) (X : List ((Name × Env) × Nat))
    (hord : ∀ f ∈ fs, ordOf L f = L)
    (hO : ∀ n, O.lookup n = if n ∈ vs.map (·.1) then some L else none)
    (hsize : ∀ f ∈ fs, ∀ p ∈ f.inputs, p.1 ∈ L → p ∈ L.map fun q => (q, rep q))
    (hsf : SizeFun (L.map fun q => (q, rep q)))
    (hwf : ∀ f ∈ fs, wellFormed f = true)
    (hX : ∀ ctx ∈ points (L.map fun q => (q, rep q)), ∀ n ∈ vs.map (·.1), (X.lookup (n, ctx)).isSome = true)
    (hcov : ∀ ctx ∈ points (L.map fun q => (q, rep q)), ∀ f ∈ fs,
      Covers (ctx ++ (slice vs X ctx ++ fenv)) f.inputs) :
    instProd (srOps α) fs L O rep fenv X
      = some (((points (L.map fun q => (q, rep q))).map fun ctx =>
          (fs.map fun f => ev f (ctx ++ (slice vs X ctx ++ fenv))).prod).prod) := by
  have hLs : (L.map fun q => (q, rep q)).map (·.1) = L := by simp [List.map_map, Function.comp_def]
  unfold instProd
  refine Eq.trans (congrArg (foldOpt (· * ·) (1 : α))
    (?_ : _ = (fs.flatMap fun f => (points (L.map fun q => (q, rep q))).map fun ctx =>
      ev f (ctx ++ (slice vs X ctx ++ fenv))).map some)) ?_
  · rw [List.map_flatMap]
    refine List.flatMap_congr fun f hf => ?_
    simp only [hord f hf, List.map_map]
    refine List.map_congr_left fun ctx hctx => ?_
    exact instance_bucket f L _ vs O fenv ctx X hLs hctx hO (hsize f hf) hsf (hwf f hf)
      (hX ctx hctx) (hcov ctx hctx f hf)
  · rw [foldOpt_mul_some, prod_flatMap', prod_map_prod_comm]

theorem asgs_lookup {K : Type} [BEq K] [LawfulBEq K] : ∀ (cs : List (K × Nat)), (cs.map (·.1)).Nodup →
    ∀ a ∈ asgs cs, ∀ c ∈ cs, ∃ x, x < c.2 ∧ a.lookup c.1 = some x
  | [], _, a, _, c, hc => by simp at hc
  | (k, sz) :: cs, hnd, a, ha, c, hc => by
    simp only [List.map_cons, List.nodup_cons] at hnd
    simp only [asgs, List.mem_flatMap, List.mem_map, List.mem_range] at ha
    obtain ⟨x, hx, a', ha', rfl⟩ := ha
    rw [List.lookup_append]
    rcases List.mem_cons.1 hc with rfl | hc'
    · have : a'.lookup k = none := by
        refine lookup_none_of_key_not_mem a' k fun hmem => ?_
        rw [asgs_keys cs a' ha', List.mem_reverse] at hmem
        exact hnd.1 hmem
      exact ⟨x, hx, by simp [this]⟩
    · obtain ⟨y, hy, hl⟩ := asgs_lookup cs hnd.2 a' ha' c hc'
      exact ⟨y, hy, by simp [hl]⟩

theorem copiesOf_nodup (ctxs : List Env) (hctx : ctxs.Nodup) : ∀ (vs : List (Name × Nat)),
    (vs.map (·.1)).Nodup → ((copiesOf vs ctxs).map (·.1)).Nodup
  | [], _ => by simp [copiesOf]
  | (v, s) :: vs, hnd => by
    simp only [List.map_cons, List.nodup_cons] at hnd
    have hcop : copiesOf ((v, s) :: vs) ctxs
        = (ctxs.map fun ctx => ((v, ctx), s)) ++ copiesOf vs ctxs := by simp [copiesOf]
    rw [hcop, List.map_append, List.nodup_append]
    refine ⟨?_, copiesOf_nodup ctxs hctx vs hnd.2, ?_⟩
    · rw [List.map_map]
      exact List.Nodup.map (fun a b h => (Prod.mk.inj h).2) hctx
    · intro k hk k' hk' hkk
      subst hkk
      simp only [List.map_map, List.mem_map, Function.comp] at hk
      obtain ⟨ctx, _, rfl⟩ := hk
      exact hnd.1 (copiesOf_keys_name vs ctxs _ hk').1

theorem slice_mem_points (X : List ((Name × Env) × Nat)) (ctx : Env) : ∀ (vs : List (Name × Nat)),
    (∀ p ∈ vs, ∃ x, x < p.2 ∧ X.lookup (p.1, ctx) = some x) → slice vs X ctx ∈ points vs
  | [], _ => by simp [slice, points]
  | (v, s) :: vs, h => by
    obtain ⟨x, hx, hl⟩ := h (v, s) List.mem_cons_self
    have ih := slice_mem_points X ctx vs (fun p hp => h p (List.mem_cons_of_mem _ hp))
    unfold slice at ih ⊢
    simp only [List.filterMap_cons, hl, Option.map_some, points, List.mem_flatMap, List.mem_map,
      List.mem_range]
    exact ⟨x, hx, _, ih, rfl⟩

theorem slice_of_asgs (ctxs : List Env) (hctx : ctxs.Nodup) (vs : List (Name × Nat))
    (hnd : (vs.map (·.1)).Nodup) (a : List ((Name × Env) × Nat)) (ha : a ∈ asgs (copiesOf vs ctxs))
    (ctx : Env) (hc : ctx ∈ ctxs) :
    slice vs a ctx ∈ points vs ∧ ∀ n ∈ vs.map (·.1), (a.lookup (n, ctx)).isSome = true := by
  have hl := asgs_lookup (copiesOf vs ctxs) (copiesOf_nodup ctxs hctx vs hnd) a ha
  have hmem : ∀ p ∈ vs, ((p.1, ctx), p.2) ∈ copiesOf vs ctxs := fun p hp => by
    simp only [copiesOf, List.mem_flatMap, List.mem_map]; exact ⟨p, hp, ctx, hc, rfl⟩
  refine ⟨slice_mem_points a ctx vs fun p hp => hl _ (hmem p hp), ?_⟩
  intro n hn
  obtain ⟨p, hp, rfl⟩ := List.mem_map.1 hn
  obtain ⟨x, _, hx⟩ := hl _ (hmem p hp)
  simp [hx]

theorem points_nodup : ∀ (vs : List (Name × Nat)), (points vs).Nodup
  | [] => by simp [points]
  | (n, s) :: vs => by
    simp only [points]
    rw [List.nodup_flatMap]
    refine ⟨fun x _ => List.Nodup.map (fun a b h => (List.cons.inj h).2) (points_nodup vs), ?_⟩
    refine List.Pairwise.imp_of_mem ?_ (List.nodup_range (n := s))
    intro x y _ _ hxy
    show List.Disjoint _ _
    intro e he1 he2
    simp only [List.mem_map] at he1 he2
    obtain ⟨e1, _, rfl⟩ := he1
    obtain ⟨e2, _, h2⟩ := he2
    exact hxy (Prod.mk.inj (List.cons.inj h2).1).2.symm

/-- **The oracle on a single bucket, closed form (link 1)**: with every factor carrying all the plates `L`
    of the bucket and every summed variable living in `L`, the nested sum over the copies
    `(v, ctx)` is the product over the contexts of `L` of the sum over the points of the variables of the
    product of all factors at that context. -/
theorem sumCopies_bucket (fs : List (Factor α)) (L : List Name) (rep : Name → Nat) (vs : List (Name × Nat))
    (O : List (Name × List Name)) (fenv : Env)
    (hnd : (vs.map (·.1)).Nodup)
    (hord : ∀ f ∈ fs, ordOf L f = L)
    (hO : ∀ n, O.lookup n = if n ∈ vs.map (·.1) then some L else none)
    (hsize : ∀ f ∈ fs, ∀ p ∈ f.inputs, p.1 ∈ L → p ∈ L.map fun q => (q, rep q))
    (hsf : SizeFun (L.map fun q => (q, rep q)))
    (hwf : ∀ f ∈ fs, wellFormed f = true)
    (hcov : ∀ ctx ∈ points (L.map fun q => (q, rep q)), ∀ e ∈ points vs, ∀ f ∈ fs,
      Covers (ctx ++ (e ++ fenv)) f.inputs) :
    sumCopies (srOps α) (instProd (srOps α) fs L O rep fenv)
        (copiesOf vs (points (L.map fun q => (q, rep q)))) []
      = some (((points (L.map fun q => (q, rep q))).map fun ctx =>
          ((points vs).map fun e => (fs.map fun f => ev f (ctx ++ (e ++ fenv))).prod).sum).prod) := by
  have hcn := points_nodup (L.map fun q => (q, rep q))
  have hB : ∀ a ∈ asgs (copiesOf vs (points (L.map fun q => (q, rep q)))),
      instProd (srOps α) fs L O rep fenv (a ++ [])
        = some (((points (L.map fun q => (q, rep q))).map fun ctx =>
            (fs.map fun f => ev f (ctx ++ (slice vs a ctx ++ fenv))).prod).prod) := by
    intro a ha
    rw [List.append_nil]
    refine instProd_bucket fs L rep vs O fenv a hord hO hsize hsf hwf ?_ ?_
    · intro ctx hc; exact (slice_of_asgs _ hcn vs hnd a ha ctx hc).2
    · intro ctx hc f hf
      exact hcov ctx hc _ (slice_of_asgs _ hcn vs hnd a ha ctx hc).1 f hf
  rw [sumCopies_pure _ (fun X => (instProd (srOps α) fs L O rep fenv X).getD 0)]
  · rw [← joint_exchange _ hcn vs hnd (fun ctx e => (fs.map fun f => ev f (ctx ++ (e ++ fenv))).prod)]
    congr 2
    refine List.map_congr_left fun a ha => ?_
    rw [hB a ha]; rfl
  · intro a ha
    rw [hB a ha]; rfl

/-! ## the single-bucket class: every factor carries every eliminated plate -/

theorem sorted_ext : ∀ (l₁ l₂ : List Name), l₁.Pairwise (· < ·) → l₂.Pairwise (· < ·) →
    (∀ x, x ∈ l₁ ↔ x ∈ l₂) → l₁ = l₂
  | [], [], _, _, _ => rfl
  | [], b :: l₂, _, _, h => absurd ((h b).2 List.mem_cons_self) (by simp)
  | a :: l₁, [], _, _, h => absurd ((h a).1 List.mem_cons_self) (by simp)
  | a :: l₁, b :: l₂, h1, h2, h => by
    rw [List.pairwise_cons] at h1 h2
    have hab : a = b := by
      rcases List.mem_cons.1 ((h a).1 List.mem_cons_self) with hab | hab
      · exact hab
      · rcases List.mem_cons.1 ((h b).2 List.mem_cons_self) with hba | hba
        · exact hba.symm
        · exact absurd (lt_trans (h2.1 a hab) (h1.1 b hba)) (lt_irrefl b)
    subst hab
    congr 1
    refine sorted_ext l₁ l₂ h1.2 h2.2 fun x => ⟨fun hx => ?_, fun hx => ?_⟩
    · rcases List.mem_cons.1 ((h x).1 (List.mem_cons_of_mem _ hx)) with hxa | hx'
      · exact absurd (hxa ▸ h1.1 x hx) (lt_irrefl _)
      · exact hx'
    · rcases List.mem_cons.1 ((h x).2 (List.mem_cons_of_mem _ hx)) with hxa | hx'
      · exact absurd (hxa ▸ h2.1 x hx) (lt_irrefl _)
      · exact hx'

/-- the eliminated plates -/
def bucketPlates (elim plates : List Name) : List Name := sset (inter plates elim)

/-- every factor is inside all the eliminated plates -/
def Bucket (fs : List (Factor α)) (elim plates : List Name) : Prop :=
  ∀ f ∈ fs, ∀ p ∈ bucketPlates elim plates, f.has p = true

theorem ordOf_bucket {fs : List (Factor α)} {elim plates : List Name} (hb : Bucket fs elim plates)
    (f : Factor α) (hf : f ∈ fs) : ordOf (bucketPlates elim plates) f = bucketPlates elim plates := by
  refine sorted_ext _ _ (sset_sorted _) (sset_sorted _) fun x => ?_
  unfold ordOf
  rw [mem_sset, List.mem_filter]
  constructor
  · rintro ⟨_, hx⟩; simpa using hx
  · intro hx
    exact ⟨by simpa [Factor.has] using hb f hf x hx, by simpa using hx⟩

theorem interAll_same (L : List Name) : ∀ (os : List (List Name)), os ≠ [] → (∀ o ∈ os, o = L) →
    interAll os = L
  | [], h, _ => absurd rfl h
  | [o], _, h => by simpa [interAll] using h o (by simp)
  | o :: o' :: os, _, h => by
    have ho : o = L := h o (by simp)
    have ih := interAll_same L (o' :: os) (by simp) (fun x hx => h x (List.mem_cons_of_mem _ hx))
    simp only [interAll] at ih ⊢
    rw [ih, ho]
    simp [inter]

/-- the summed variables (those not plates of the bucket) that occur, with sizes -/
def presentVarsL (fs : List (Factor α)) (elim L : List Name) : List Name :=
  sset ((fs.flatMap Factor.names).filter ((diff (sset elim) L).contains ·))

def presentSizedL (fs : List (Factor α)) (elim L : List Name) : List (Name × Nat) :=
  (presentVarsL fs elim L).map fun v => (v, (sizeOf? fs v).getD 0)

theorem varOrdinals_bucket {fs : List (Factor α)} {elim plates : List Name} (hb : Bucket fs elim plates) :
    varOrdinals (bucketPlates elim plates) (diff (sset elim) (bucketPlates elim plates)) fs
      = (presentVarsL fs elim (bucketPlates elim plates)).map fun v => (v, bucketPlates elim plates) := by
  unfold varOrdinals presentVarsL
  refine List.map_congr_left fun v hv => ?_
  congr 1
  rw [mem_sset, List.mem_filter, List.mem_flatMap] at hv
  obtain ⟨⟨f, hf, hfv⟩, _⟩ := hv
  refine interAll_same _ _ ?_ ?_
  · intro hnil
    have : f ∈ fs.filter (·.has v) := List.mem_filter.2 ⟨hf, by simpa [Factor.has] using hfv⟩
    simp only [List.map_eq_nil_iff] at hnil
    rw [hnil] at this; simp at this
  · intro o ho
    simp only [List.mem_map, List.mem_filter] at ho
    obtain ⟨g, ⟨hg, _⟩, rfl⟩ := ho
    exact ordOf_bucket hb g hg

theorem lookup_map_const {β : Type} (b : β) (n : Name) : ∀ (l : List Name),
    (l.map fun v => (v, b)).lookup n = if n ∈ l then some b else none
  | [] => by simp
  | v :: l => by
    simp only [List.map_cons, List.lookup_cons, List.mem_cons]
    by_cases h : n = v
    · simp [h]
    · have : (n == v) = false := by simpa using h
      rw [this]; simp only [lookup_map_const b n l, h, false_or]

/-- the sized plates of the bucket, as the oracle enumerates them (no scales) -/
def bucketSized (fs : List (Factor α)) (L : List Name) : List (Name × Nat) :=
  L.map fun q => (q, (sizeOf? fs q).getD 0 * scaleOf ([] : List (Name × Nat)) q)

theorem presentVarsL_mem (fs : List (Factor α)) (elim L : List Name) (n : Name) :
    n ∈ presentVarsL fs elim L ↔ (∃ f ∈ fs, f.has n = true) ∧ n ∈ elim ∧ n ∉ L := by
  unfold presentVarsL
  rw [mem_sset, List.mem_filter, List.mem_flatMap]
  constructor
  · rintro ⟨⟨f, hf, hn⟩, hc⟩
    have : n ∈ diff (sset elim) L := by simpa using hc
    have h2 := (mem_diff n _ _).1 this
    exact ⟨⟨f, hf, by simpa [Factor.has] using hn⟩, (mem_sset n elim).1 h2.1, h2.2⟩
  · rintro ⟨⟨f, hf, hn⟩, he, hL⟩
    refine ⟨⟨f, hf, by simpa [Factor.has] using hn⟩, ?_⟩
    have : n ∈ diff (sset elim) L := (mem_diff n _ _).2 ⟨(mem_sset n elim).2 he, hL⟩
    simpa using this

theorem covers_bucket (fs : List (Factor α)) (elim L : List Name) (free : List (Name × Nat))
    (hsc : sizesConsistent fs = true) (hLnd : L.Nodup)
    (hfree : ∀ f ∈ fs, ∀ p ∈ f.inputs, p.1 ∉ elim → p ∈ free) (hfreeSF : SizeFun free)
    (fenv ctx e : Env) (hfenv : fenv ∈ points free) (hctx : ctx ∈ points (bucketSized fs L))
    (he : e ∈ points (presentSizedL fs elim L)) (f : Factor α) (hf : f ∈ fs) :
    Covers (ctx ++ (e ++ fenv)) f.inputs := by
  have hLsn : (bucketSized fs L).map (·.1) = L := by simp [bucketSized, List.map_map, Function.comp_def]
  have hvsn : (presentSizedL fs elim L).map (·.1) = presentVarsL fs elim L := by
    simp [presentSizedL, List.map_map, Function.comp_def]
  have hcl := covers_points _ ctx (sizeFun_of_nodup (by rw [hLsn]; exact hLnd)) hctx
  have hce := covers_points _ e (sizeFun_of_nodup (by rw [hvsn]; exact sset_nodup _)) he
  have hcf := covers_points free fenv hfreeSF hfenv
  intro p hp
  have hsz := sizeOf_spec hsc hf hp
  by_cases hpL : p.1 ∈ L
  · have : p ∈ bucketSized fs L := by
      refine List.mem_map.2 ⟨p.1, hpL, ?_⟩
      simp [hsz, scaleOf]
    exact covers_append_left hcl p this
  · have hcn : ctx.lookup p.1 = none :=
      lookup_none_of_not_mem _ ctx p.1 hctx (by rw [hLsn]; exact hpL)
    by_cases hpe : p.1 ∈ elim
    · have hmem : p ∈ presentSizedL fs elim L := by
        refine List.mem_map.2 ⟨p.1, (presentVarsL_mem fs elim L p.1).2
          ⟨⟨f, hf, (has_iff f p.1).2 ⟨p, hp, rfl⟩⟩, hpe, hpL⟩, ?_⟩
        simp [hsz]
      obtain ⟨x, hx, hlt⟩ := hce p hmem
      exact ⟨x, by rw [List.lookup_append, hcn, List.lookup_append, hx]; rfl, hlt⟩
    · obtain ⟨x, hx, hlt⟩ := hcf p (hfree f hf p hp hpe)
      have hen : e.lookup p.1 = none := by
        refine lookup_none_of_not_mem _ e p.1 he ?_
        rw [hvsn]
        exact fun hm => hpe ((presentVarsL_mem fs elim L p.1).1 hm).2.1
      exact ⟨x, by rw [List.lookup_append, hcn, List.lookup_append, hen, hx]; rfl, hlt⟩

/-- **`unroll` on the single-bucket class, closed form**: at every free point,
    `Π_{ctx : contexts of the eliminated plates} Σ_{e : points of the summed variables} Π_f f(ctx ++ e ++ fenv)`. -/
theorem unroll_bucket (fs : List (Factor α)) (elim plates : List Name) (free : List (Name × Nat))
    (hg : (fs.all wellFormed && sizesConsistent fs) = true) (hb : Bucket fs elim plates)
    (hfree : ∀ f ∈ fs, ∀ p ∈ f.inputs, p.1 ∉ elim → p ∈ free) (hfreeSF : SizeFun free) :
    unroll (srOps α) fs elim plates [] free = .ok ((points free).map fun fenv =>
      ((points (bucketSized fs (bucketPlates elim plates))).map fun ctx =>
        ((points (presentSizedL fs elim (bucketPlates elim plates))).map fun e =>
          (fs.map fun f => ev f (ctx ++ (e ++ fenv))).prod).sum).prod) := by
  have hwf : ∀ f ∈ fs, wellFormed f = true := by
    simp only [Bool.and_eq_true, List.all_eq_true] at hg; exact hg.1
  have hsc : sizesConsistent fs = true := by
    simp only [Bool.and_eq_true] at hg; exact hg.2
  have hLnd : (bucketPlates elim plates).Nodup := sset_nodup _
  unfold unroll
  simp only [hg, Bool.not_true, Bool.false_eq_true, if_false]
  show (match (points free).mapM (fun fenv => sumCopies (srOps α)
      (instProd (srOps α) fs (bucketPlates elim plates)
        (varOrdinals (bucketPlates elim plates) (diff (sset elim) (bucketPlates elim plates)) fs)
        (fun p => (sizeOf? fs p).getD 0 * scaleOf ([] : List (Name × Nat)) p) fenv)
      ((varOrdinals (bucketPlates elim plates) (diff (sset elim) (bucketPlates elim plates)) fs).flatMap
        fun x => (points (x.2.map fun p => (p, (sizeOf? fs p).getD 0 * scaleOf ([] : List (Name × Nat)) p))).map
          fun ctx => ((x.1, ctx), (sizeOf? fs x.1).getD 0)) []) with
    | some vs => Except.ok vs
    | none => Except.error Err.malformed) = _
  rw [varOrdinals_bucket hb]
  have hcop : ((presentVarsL fs elim (bucketPlates elim plates)).map
        fun v => (v, bucketPlates elim plates)).flatMap (fun x =>
        (points (x.2.map fun p => (p, (sizeOf? fs p).getD 0 * scaleOf ([] : List (Name × Nat)) p))).map
          fun ctx => ((x.1, ctx), (sizeOf? fs x.1).getD 0))
      = copiesOf (presentSizedL fs elim (bucketPlates elim plates))
          (points (bucketSized fs (bucketPlates elim plates))) := by
    simp [copiesOf, presentSizedL, bucketSized, List.flatMap_map]
  rw [hcop]
  have hm := mapM_some
    (fun fenv => sumCopies (srOps α)
      (instProd (srOps α) fs (bucketPlates elim plates)
        ((presentVarsL fs elim (bucketPlates elim plates)).map fun v => (v, bucketPlates elim plates))
        (fun p => (sizeOf? fs p).getD 0 * scaleOf ([] : List (Name × Nat)) p) fenv)
      (copiesOf (presentSizedL fs elim (bucketPlates elim plates))
        (points (bucketSized fs (bucketPlates elim plates)))) [])
    (fun fenv => ((points (bucketSized fs (bucketPlates elim plates))).map fun ctx =>
        ((points (presentSizedL fs elim (bucketPlates elim plates))).map fun e =>
          (fs.map fun f => ev f (ctx ++ (e ++ fenv))).prod).sum).prod)
    (points free) (fun fenv hfenv => by
      have hvsn : (presentSizedL fs elim (bucketPlates elim plates)).map (·.1)
          = presentVarsL fs elim (bucketPlates elim plates) := by
        simp [presentSizedL, List.map_map, Function.comp_def]
      refine sumCopies_bucket fs (bucketPlates elim plates) _ _ _ fenv ?_ (fun f hf => ordOf_bucket hb f hf)
        ?_ ?_ ?_ hwf ?_
      · rw [hvsn]; exact sset_nodup _
      · intro n; rw [lookup_map_const, hvsn]
      · intro f hf p hp hpL
        refine List.mem_map.2 ⟨p.1, hpL, ?_⟩
        simp [sizeOf_spec hsc hf hp, scaleOf]
      · refine sizeFun_of_nodup ?_
        simp only [List.map_map, Function.comp_def, List.map_id']; exact hLnd
      · intro ctx hctx e he f hf
        exact covers_bucket fs elim _ free hsc hLnd hfree hfreeSF fenv ctx e hfenv hctx he f hf)
  simp only [bucketSized] at hm ⊢
  rw [hm]

/-! ## the loop on a single bucket: one result per component, all plates multiplied out -/

/-- what the loop makes of one component of the bucket -/
def CompResL (o : Ops α) (elim L : List Name) (grp : List (Factor α) × List Name) (g : Factor α) : Prop :=
  ∃ pc fc, prodAll o grp.1 = some pc ∧ sumOut o pc (inter grp.2 elim) = some fc ∧
    prodOut o fc L = some g

theorem inter_self (L : List Name) : inter L L = L := by
  simp [inter]

theorem component_bucket (o : Ops α) (c : Cfg) (L : List Name) (hpv : c.prodVars = L)
    (hsc : c.scales = []) (st st' : St α) (grp : List (Factor α) × List Name)
    (hrem : ∀ pc fc, prodAll o grp.1 = some pc → sumOut o pc (inter grp.2 c.elim) = some fc →
      c.S.filter fc.has = [])
    (h : component o c L st grp = .ok st') :
    st'.pending = st.pending ∧ ∃ g, CompResL o c.elim L grp g ∧ st'.results = st.results ++ [g] := by
  unfold component at h
  cases hpc : prodAll o grp.1 with
  | none => simp [hpc] at h
  | some pc =>
    cases hfc : sumOut o pc (inter grp.2 c.elim) with
    | none => simp [hpc, hfc] at h
    | some fc =>
      have hr := hrem pc fc hpc hfc
      simp only [hpc, Option.bind_some, hfc, hr, List.isEmpty_nil, if_true, hpv, inter_self] at h
      cases hg : prodOut o fc L with
      | none => simp [hg] at h
      | some g =>
        simp only [hg] at h
        have hs : applyScale o c L g = g := by simp [applyScale, hsc]
        rw [hs] at h
        injection h with h
        subst h
        exact ⟨rfl, g, ⟨pc, fc, hpc, hfc, hg⟩, rfl⟩

theorem foldlM_component_bucket (o : Ops α) (c : Cfg) (L : List Name) (hpv : c.prodVars = L)
    (hsc : c.scales = []) :
    ∀ (groups : List (List (Factor α) × List Name)) (st st' : St α),
    (∀ grp ∈ groups, ∀ pc fc, prodAll o grp.1 = some pc →
      sumOut o pc (inter grp.2 c.elim) = some fc → c.S.filter fc.has = []) →
    groups.foldlM (component o c L) st = .ok st' →
    st'.pending = st.pending ∧
      ∃ gs, List.Forall₂ (CompResL o c.elim L) groups gs ∧ st'.results = st.results ++ gs
  | [], st, st', _, h => by
    simp [List.foldlM, pure, Except.pure] at h
    subst h
    exact ⟨rfl, [], List.Forall₂.nil, by simp⟩
  | grp :: groups, st, st', hrem, h => by
    rw [List.foldlM_cons] at h
    cases hc : component o c L st grp with
    | error e => simp [hc, bind, Except.bind] at h
    | ok st1 =>
      simp only [hc, bind, Except.bind] at h
      obtain ⟨hp1, g, hg, hr1⟩ := component_bucket o c L hpv hsc st st1 grp
        (hrem grp List.mem_cons_self) hc
      obtain ⟨hp2, gs, hgs, hr2⟩ := foldlM_component_bucket o c L hpv hsc groups st1 st'
        (fun grp' hg' => hrem grp' (List.mem_cons_of_mem _ hg')) h
      refine ⟨hp2.trans hp1, g :: gs, List.Forall₂.cons hg hgs, ?_⟩
      rw [hr2, hr1, List.append_assoc]; rfl

theorem foldl_addPending_const (L : List Name) (key : Factor α → List Name) :
    ∀ (fs g : List (Factor α)), (∀ f ∈ fs, key f = L) →
    fs.foldl (fun acc f => addPending (key f) f acc) [(L, g)] = [(L, g ++ fs)]
  | [], g, _ => by simp
  | f :: fs, g, h => by
    simp only [List.foldl_cons, addPending, h f List.mem_cons_self, beq_self_eq_true, if_true]
    rw [foldl_addPending_const L key fs (g ++ [f]) (fun f' hf' => h f' (List.mem_cons_of_mem _ hf'))]
    simp

theorem leafVars_bucket {fs : List (Factor α)} {elim plates : List Name} (hb : Bucket fs elim plates) :
    ((varOrdinals (bucketPlates elim plates) (diff (sset elim) (bucketPlates elim plates)) fs).filter
        (·.2 == bucketPlates elim plates)).map (·.1)
      = presentVarsL fs elim (bucketPlates elim plates) := by
  rw [varOrdinals_bucket hb]
  have : ∀ p ∈ (presentVarsL fs elim (bucketPlates elim plates)).map
      (fun v => (v, bucketPlates elim plates)), (p.2 == bucketPlates elim plates) = true := by
    intro p hp
    obtain ⟨v, _, rfl⟩ := List.mem_map.1 hp
    simp
  rw [List.filter_eq_self.2 this]
  simp [List.map_map, Function.comp_def]

/-- **Control flow on the single-bucket class**: the loop runs one iteration (leaf = all eliminated plates)
    and returns one factor per `_partition` component: `Π_L Σ_{component's variables} Π component`. -/
theorem psp_bucket (o : Ops α) (fs : List (Factor α)) (elim plates : List Name) (rs : List (Factor α))
    (hb : Bucket fs elim plates)
    (h : psp o fs elim plates [] false false = .ok rs) :
    (fs.all wellFormed && sizesConsistent fs) = true ∧
      List.Forall₂ (CompResL o elim (bucketPlates elim plates))
        (partition (presentVarsL fs elim (bucketPlates elim plates)) fs.length fs) rs := by
  unfold psp at h
  by_cases hg : (fs.all wellFormed && sizesConsistent fs) = true
  · refine ⟨hg, ?_⟩
    simp only [hg, Bool.not_true, Bool.false_eq_true, if_false, Bool.false_and] at h
    have hcfgP : (mkCfg fs elim plates [] false).P = bucketPlates elim plates := by
      simp [mkCfg, bucketPlates]
    have hcfgPV : (mkCfg fs elim plates [] false).prodVars = bucketPlates elim plates := by
      simp [mkCfg, bucketPlates]
    have hcfgS : (mkCfg fs elim plates [] false).S = diff (sset elim) (bucketPlates elim plates) := by
      simp [mkCfg, bucketPlates]
    have hcfgO : (mkCfg fs elim plates [] false).O
        = varOrdinals (bucketPlates elim plates) (diff (sset elim) (bucketPlates elim plates)) fs := by
      simp [mkCfg, bucketPlates]
    have hcfgE : (mkCfg fs elim plates [] false).elim = elim := rfl
    have hcfgSc : (mkCfg fs elim plates [] false).scales = [] := rfl
    generalize hc : mkCfg fs elim plates [] false = c at h hcfgP hcfgPV hcfgS hcfgO hcfgE hcfgSc
    rw [hcfgP] at h
    cases fs with
    | nil =>
      have : pspFuel c ([] : List (Factor α)).length = (2 ^ c.P.length) + 1 := by simp [pspFuel]
      rw [this] at h
      simp [pspLoop, chooseLeaf] at h
      subst h
      simp [partition]
    | cons f fs' =>
      have hpend : (f :: fs').foldl (fun acc f => addPending (ordOf (bucketPlates elim plates) f) f acc) []
          = [(bucketPlates elim plates, f :: fs')] := by
        simp only [List.foldl_cons, addPending, ordOf_bucket hb f List.mem_cons_self]
        rw [foldl_addPending_const (bucketPlates elim plates) (ordOf (bucketPlates elim plates)) fs' [f]
          (fun g hg' => ordOf_bucket hb g (List.mem_cons_of_mem _ hg'))]
        simp
      rw [hpend] at h
      obtain ⟨k, hk⟩ : ∃ k, pspFuel c (f :: fs').length = k + 1 + 1 := by
        have hpos : 0 < 2 ^ c.P.length := Nat.pow_pos (by decide)
        obtain ⟨m, hm⟩ := Nat.exists_eq_succ_of_ne_zero (Nat.pos_iff_ne_zero.1 hpos)
        refine ⟨m + fs'.length + 1, ?_⟩
        simp only [pspFuel, List.length_cons, hm]; omega
      rw [hk] at h
      simp only [pspLoop, chooseLeaf, List.lookup_cons, beq_self_eq_true, Option.getD_some] at h
      have hfilter : ([(bucketPlates elim plates, f :: fs')].filter
          (fun x => x.1 != bucketPlates elim plates)) = [] := by simp
      simp only [hfilter, hcfgO, leafVars_bucket hb] at h
      cases hfold : (partition (presentVarsL (f :: fs') elim (bucketPlates elim plates))
          (f :: fs').length (f :: fs')).foldlM
          (component o c (bucketPlates elim plates)) { pending := [], results := [] } with
      | error e => simp only [hfold] at h; exact absurd h (by simp)
      | ok st'' =>
        simp only [hfold] at h
        have hrem : ∀ grp ∈ partition (presentVarsL (f :: fs') elim (bucketPlates elim plates))
            (f :: fs').length (f :: fs'), ∀ pc fc,
            prodAll o grp.1 = some pc → sumOut o pc (inter grp.2 c.elim) = some fc →
            c.S.filter fc.has = [] := by
          intro grp hgrp pc fc hpc hfc
          rw [List.filter_eq_nil_iff]
          intro n hn hhas
          rw [hcfgS] at hn
          have hn' := (mem_diff n _ _).1 hn
          have hnE : n ∈ elim := (mem_sset n elim).1 hn'.1
          obtain ⟨p, hp, hpn⟩ := (has_iff fc n).1 hhas
          rw [reduceF_inputs hfc, List.mem_filter] at hp
          have hpcn : pc.has n = true := (has_iff pc n).2 ⟨p, hp.1, hpn⟩
          obtain ⟨f0, hf0, hf0n⟩ := (prodAll_has o n grp.1 pc hpc).1 hpcn
          have hf0fs := partition_mem _ _ _ grp hgrp f0 hf0
          have hspec := partition_groupvars_spec _ _ _ grp hgrp
          have hn2 : n ∈ grp.2 := by
            rw [hspec, List.mem_filter]
            exact ⟨(presentVarsL_mem _ elim _ n).2 ⟨⟨f0, hf0fs, hf0n⟩, hnE, hn'.2⟩,
              List.any_eq_true.2 ⟨f0, hf0, hf0n⟩⟩
          have : (inter grp.2 c.elim).contains p.1 = true := by
            rw [hpn, hcfgE]; simpa using (mem_inter n _ _).2 ⟨hn2, hnE⟩
          simp only [Bool.not_eq_eq_eq_not, Bool.not_true] at hp
          rw [this] at hp
          exact absurd hp.2 (by simp)
        obtain ⟨hp, gs, hgs, hres⟩ := foldlM_component_bucket o c _ hcfgPV hcfgSc _ _ st'' hrem hfold
        simp only at hp
        rw [hp] at h
        simp only [chooseLeaf] at h
        injection h with h
        rw [hres] at h
        simp only [List.nil_append] at h
        subst h
        rw [hcfgE] at hgs
        exact hgs
  · simp [hg] at h

/-! ## values on the bucket -/

theorem grow_nonempty (vars : List Name) : ∀ (fuel : Nat) (comp rest : List (Factor α)), comp ≠ [] →
    (grow vars fuel comp rest).1 ≠ []
  | 0, comp, rest, h => by simpa [grow] using h
  | fuel + 1, comp, rest, h => by
    unfold grow
    simp only [List.partition_eq_filter_filter]
    split
    · exact h
    · exact grow_nonempty vars fuel _ _ (by simp [h])

theorem partition_group_nonempty (vars : List Name) : ∀ (fuel : Nat) (l : List (Factor α))
    (grp : List (Factor α) × List Name), grp ∈ partition vars fuel l → grp.1 ≠ []
  | 0, l, grp, h => by simp [partition] at h
  | fuel + 1, [], grp, h => by simp [partition] at h
  | fuel + 1, f :: rest, grp, h => by
    simp only [partition] at h
    have hne := grow_nonempty vars rest.length [f] rest (by simp)
    cases hgrow : grow vars rest.length [f] rest with
    | mk comp out =>
      rw [hgrow] at h hne
      simp only at h hne
      rcases List.mem_cons.1 h with rfl | h'
      · exact hne
      · exact partition_group_nonempty vars fuel out grp h'

/-- The product over all points does not depend on the order of the plates. -/
theorem prod_points_perm {vs vs' : List (Name × Nat)} (hp : vs.Perm vs') :
    (vs.map (·.1)).Nodup → ∀ F : Env → α, LookupInv F →
      ((points vs).map F).prod = ((points vs').map F).prod := by
  induction hp with
  | nil => intro _ F _; rfl
  | cons p hperm ih =>
    intro hnd F hF
    obtain ⟨n, s⟩ := p
    simp only [List.map_cons, List.nodup_cons] at hnd
    simp only [points, List.map_flatMap, prod_flatMap', List.map_map, Function.comp_def]
    congr 1
    refine List.map_congr_left fun x _ => ?_
    exact ih hnd.2 _ (lookupInv_cons hF n x)
  | swap p q l =>
    intro hnd F hF
    obtain ⟨n, s⟩ := p
    obtain ⟨m, t⟩ := q
    simp only [List.map_cons, List.nodup_cons, List.mem_cons, not_or] at hnd
    have hne : m ≠ n := hnd.1.1
    simp only [points, List.map_flatMap, prod_flatMap', List.map_map, Function.comp_def]
    rw [prod_map_prod_comm]
    refine congrArg List.prod (List.map_congr_left fun x _ => congrArg List.prod
      (List.map_congr_left fun y _ => congrArg List.prod (List.map_congr_left fun e _ => ?_)))
    apply hF
    intro k
    simp only [List.lookup_cons]
    by_cases hkn : k = n
    · subst hkn
      have : (k == m) = false := by simpa using fun h => hne h.symm
      simp [this]
    · have : (k == n) = false := by simpa using hkn
      simp [this]
  | trans h1 h2 ih1 ih2 =>
    intro hnd F hF
    have hnd2 := (h1.map (·.1)).nodup_iff.1 hnd
    exact (ih1 hnd F hF).trans (ih2 hnd2 F hF)

/-- the eliminated names that are not plates of the bucket -/
def elimVars (elim L : List Name) : List Name := diff (sset elim) L

theorem mem_elimVars (elim L : List Name) (n : Name) : n ∈ elimVars elim L ↔ n ∈ elim ∧ n ∉ L := by
  unfold elimVars; rw [mem_diff, mem_sset]

theorem presentVars_elimVars (fs : List (Factor α)) (elim L : List Name) :
    presentVars fs (elimVars elim L) = presentVarsL fs elim L := by
  unfold presentVars presentVarsL
  congr 1
  refine List.filter_congr fun n _ => ?_
  have : n ∈ diff (sset (elimVars elim L)) [] ↔ n ∈ diff (sset elim) L := by
    rw [mem_diff, mem_sset]; simp [elimVars]
  by_cases h : n ∈ diff (sset elim) L
  · simp [h, this.2 h]
  · have h' : n ∉ diff (sset (elimVars elim L)) [] := fun hh => h (this.1 hh)
    simp [h, h']

theorem presentSized_elimVars (fs : List (Factor α)) (elim L : List Name) :
    presentSized fs (elimVars elim L) = presentSizedL fs elim L := by
  unfold presentSized presentSizedL; rw [presentVars_elimVars]

/-- **Value of a bucket component's result at a free point**: the product over the contexts of the
    eliminated plates of the component's local sum. -/
theorem compResL_value (fs : List (Factor α)) (elim plates : List Name) (free : List (Name × Nat))
    (hg : (fs.all wellFormed && sizesConsistent fs) = true) (hb : Bucket fs elim plates)
    (hfree : ∀ f ∈ fs, ∀ p ∈ f.inputs, p.1 ∉ elim → p ∈ free) (hfreeSF : SizeFun free)
    (grp : List (Factor α) × List Name)
    (hgrp : grp ∈ partition (presentVarsL fs elim (bucketPlates elim plates)) fs.length fs) (g : Factor α)
    (hres : CompResL (srOps α) elim (bucketPlates elim plates) grp g) (fenv : Env)
    (hfenv : fenv ∈ points free) :
    g.eval fenv = some (((points (bucketSized fs (bucketPlates elim plates))).map fun ctx =>
        valOfGrp (elimVars elim (bucketPlates elim plates)) grp (ctx ++ fenv)).prod) ∧
      Covers fenv g.inputs := by
  obtain ⟨pc, fc, hpc, hfc, hgo⟩ := hres
  set L := bucketPlates elim plates with hL
  have hwf : ∀ f ∈ fs, wellFormed f = true := by
    simp only [Bool.and_eq_true, List.all_eq_true] at hg; exact hg.1
  have hsc : sizesConsistent fs = true := by
    simp only [Bool.and_eq_true] at hg; exact hg.2
  have hLnd : L.Nodup := sset_nodup _
  have hLe : ∀ q ∈ L, q ∈ elim := fun q hq => ((mem_inter q _ _).1 ((mem_sset q _).1 hq)).2
  have hcf : Covers fenv free := covers_points free fenv hfreeSF hfenv
  have hgfs : ∀ f ∈ grp.1, f ∈ fs := fun f hf => partition_mem _ _ _ grp hgrp f hf
  have hspec := partition_groupvars_spec _ _ _ grp hgrp
  -- the names summed with the component: eliminated, not plates
  have hV : ∀ n, n ∈ inter grp.2 elim → n ∈ elim ∧ n ∉ L := by
    intro n hn
    have h2 := ((mem_inter n _ _).1 hn).1
    rw [hspec, List.mem_filter] at h2
    have := (presentVarsL_mem fs elim L n).1 h2.1
    exact ⟨this.2.1, this.2.2⟩
  have hVmem : ∀ f ∈ grp.1, ∀ n, f.has n = true → n ∈ elim → n ∉ L → n ∈ inter grp.2 elim := by
    intro f hf n hn he hnL
    rw [mem_inter]
    refine ⟨?_, he⟩
    rw [hspec, List.mem_filter]
    exact ⟨(presentVarsL_mem fs elim L n).2 ⟨⟨f, hgfs f hf, hn⟩, he, hnL⟩, List.any_eq_true.2 ⟨f, hf, hn⟩⟩
  have hVeq : inter grp.2 (elimVars elim L) = inter grp.2 elim := by
    unfold inter
    refine List.filter_congr fun n hn => ?_
    rw [hspec, List.mem_filter] at hn
    have := (presentVarsL_mem fs elim L n).1 hn.1
    have h1 : n ∈ elimVars elim L := (mem_elimVars elim L n).2 ⟨this.2.1, this.2.2⟩
    simp [h1, this.2.1]
  have hentry : ∀ p ∈ pc.inputs, ∃ f ∈ grp.1, p ∈ f.inputs := prodAll_inputs_mem _ grp.1 pc hpc
  have hfcin := reduceF_inputs hfc
  have hgin := reduceF_inputs hgo
  have hsfAll : ∀ p ∈ pc.inputs, ∀ q ∈ pc.inputs, p.1 = q.1 → p.2 = q.2 := by
    intro p hp q hq hpq
    obtain ⟨f, hf, hpf⟩ := hentry p hp
    obtain ⟨f', hf', hqf'⟩ := hentry q hq
    exact sizesConsistent_spec hsc p (List.mem_flatMap.2 ⟨f, hgfs f hf, hpf⟩) q
      (List.mem_flatMap.2 ⟨f', hgfs f' hf', hqf'⟩) hpq
  -- the plates multiplied out, as they sit in the table, are a rearrangement of the oracle's
  have hredPsub : ∀ p ∈ fc.inputs.filter (fun p => L.contains p.1), p ∈ pc.inputs ∧ p.1 ∈ L := by
    intro p hp
    obtain ⟨h1, h2⟩ := List.mem_filter.1 hp
    rw [hfcin] at h1
    exact ⟨(List.mem_filter.1 h1).1, by simpa using h2⟩
  have hpcnd : (pc.inputs.map (·.1)).Nodup :=
    prodAll_names_nodup _ grp.1 pc hpc (fun f hf => names_nodup_of_wf f (hwf f (hgfs f hf)))
  have hredPnd : ((fc.inputs.filter fun p => L.contains p.1).map (·.1)).Nodup := by
    rw [hfcin]
    exact hpcnd.sublist (((List.filter_sublist).trans (List.filter_sublist)).map _)
  have hperm : (fc.inputs.filter fun p => L.contains p.1).Perm (bucketSized fs L) := by
    refine (List.perm_ext_iff_of_nodup (List.Nodup.of_map _ hredPnd)
      (List.Nodup.of_map (·.1) (by
        simp only [bucketSized, List.map_map, Function.comp_def, List.map_id']; exact hLnd))).2 ?_
    intro p
    constructor
    · intro hp
      obtain ⟨hp1, hp2⟩ := hredPsub p hp
      obtain ⟨f, hf, hpf⟩ := hentry p hp1
      refine List.mem_map.2 ⟨p.1, hp2, ?_⟩
      simp [sizeOf_spec hsc (hgfs f hf) hpf, scaleOf]
    · intro hp
      obtain ⟨q, hq, rfl⟩ := List.mem_map.1 hp
      obtain ⟨f, hf⟩ := List.exists_mem_of_ne_nil _ (partition_group_nonempty _ _ _ grp hgrp)
      have hfq : f.has q = true := hb f (hgfs f hf) q hq
      have hpcq : pc.has q = true := (prodAll_has _ q grp.1 pc hpc).2 ⟨f, hf, hfq⟩
      obtain ⟨r, hr, hrq⟩ := (has_iff pc q).1 hpcq
      obtain ⟨f', hf', hrf'⟩ := hentry r hr
      have hsz := sizeOf_spec hsc (hgfs f' hf') hrf'
      have hreq : r = (q, (sizeOf? fs q).getD 0 * scaleOf ([] : List (Name × Nat)) q) := by
        rw [← hrq, hsz]; simp [scaleOf]
      rw [← hreq]
      refine List.mem_filter.2 ⟨?_, by simpa [hrq] using hq⟩
      rw [hfcin]
      refine List.mem_filter.2 ⟨hr, ?_⟩
      have : r.1 ∉ inter grp.2 elim := fun hh => (hV r.1 hh).2 (hrq ▸ hq)
      simpa using this
  -- coverage
  have hsfP : SizeFun (fc.inputs.filter fun p => L.contains p.1) := sizeFun_of_nodup hredPnd
  have hsfV : SizeFun (pc.inputs.filter fun p => (inter grp.2 elim).contains p.1) := by
    intro p hp q hq hpq
    exact hsfAll p (List.mem_filter.1 hp).1 q (List.mem_filter.1 hq).1 hpq
  have hfreeEntry : ∀ p ∈ pc.inputs, p.1 ∉ inter grp.2 elim → p.1 ∉ L → p ∈ free := by
    intro p hp hnV hnL
    obtain ⟨f, hf, hpf⟩ := hentry p hp
    have hhas : f.has p.1 = true := (has_iff f p.1).2 ⟨p, hpf, rfl⟩
    exact hfree f (hgfs f hf) p hpf (fun he => hnV (hVmem f hf p.1 hhas he hnL))
  have hcg : Covers fenv (fc.inputs.filter fun p => !L.contains p.1) := by
    intro p hp
    obtain ⟨h1, h2⟩ := List.mem_filter.1 hp
    rw [hfcin] at h1
    obtain ⟨h3, h4⟩ := List.mem_filter.1 h1
    exact hcf p (hfreeEntry p h3 (by simpa using h4) (by simpa using h2))
  have hkc : ∀ k ∈ points (fc.inputs.filter fun p => L.contains p.1),
      Covers (k ++ fenv) (pc.inputs.filter fun p => !(inter grp.2 elim).contains p.1) := by
    intro k hk p hp
    obtain ⟨h3, h4⟩ := List.mem_filter.1 hp
    by_cases hpL : p.1 ∈ L
    · refine covers_append_left (covers_points _ k hsfP hk) p (List.mem_filter.2 ⟨?_, by simpa using hpL⟩)
      rw [hfcin]; exact hp
    · obtain ⟨x, hx, hlt⟩ := hcf p (hfreeEntry p h3 (by simpa using h4) hpL)
      refine ⟨x, ?_, hlt⟩
      rw [lookup_append_skip fenv hk (fun hmem => ?_), hx]
      obtain ⟨q, hq, hqp⟩ := List.mem_map.1 hmem
      exact hpL (hqp ▸ (hredPsub q hq).2)
  have H : ∀ k ∈ points (fc.inputs.filter fun p => L.contains p.1),
      ∀ d ∈ points (pc.inputs.filter fun p => (inter grp.2 elim).contains p.1), ∀ f ∈ grp.1,
        f.eval (d ++ (k ++ fenv)) = some (ev f (d ++ (k ++ fenv))) ∧ Covers (d ++ (k ++ fenv)) f.inputs := by
    intro k hk d hd f hf
    have hc : Covers (d ++ (k ++ fenv)) f.inputs := by
      intro p hp
      have hhas : f.has p.1 = true := (has_iff f p.1).2 ⟨p, hp, rfl⟩
      have hpch : pc.has p.1 = true := (prodAll_has _ p.1 grp.1 pc hpc).2 ⟨f, hf, hhas⟩
      obtain ⟨q, hq, hqp⟩ := (has_iff pc p.1).1 hpch
      obtain ⟨f', hf', hqf'⟩ := hentry q hq
      have hsz : q.2 = p.2 := sizesConsistent_spec hsc q
        (List.mem_flatMap.2 ⟨f', hgfs f' hf', hqf'⟩) p (List.mem_flatMap.2 ⟨f, hgfs f hf, hp⟩) hqp
      have hqeq : q = p := Prod.ext hqp hsz
      subst hqeq
      by_cases hqV : q.1 ∈ inter grp.2 elim
      · exact covers_append_left (covers_points _ d hsfV hd) q
          (List.mem_filter.2 ⟨hq, by simpa using hqV⟩)
      · have hdn : d.lookup q.1 = none := by
          refine lookup_none_of_not_mem _ d q.1 hd fun hmem => ?_
          obtain ⟨r, hr, hrq⟩ := List.mem_map.1 hmem
          have : r.1 ∈ inter grp.2 elim := by simpa using (List.mem_filter.1 hr).2
          exact hqV (hrq ▸ this)
        obtain ⟨x, hx, hlt⟩ := hkc k hk q (List.mem_filter.2 ⟨hq, by simpa using hqV⟩)
        exact ⟨x, by rw [List.lookup_append, hdn]; exact hx, hlt⟩
    exact ⟨eval_some f (hwf f (hgfs f hf)) _ hc, hc⟩
  refine ⟨?_, ?_⟩
  · rw [newFactor_value grp.1 (inter grp.2 elim) L pc fc g hpc hfc hgo fenv hcg hkc H]
    congr 1
    have hF : LookupInv fun k : Env =>
        ((points (pc.inputs.filter fun p => (inter grp.2 elim).contains p.1)).map fun d =>
          (grp.1.map (ev · (d ++ (k ++ fenv)))).prod).sum := by
      intro k k' hl
      refine congrArg List.sum (List.map_congr_left fun d _ => congrArg List.prod
        (List.map_congr_left fun f _ => ev_congr f _ _ fun p _ => ?_))
      rw [List.lookup_append, List.lookup_append (l₁ := d), List.lookup_append,
        List.lookup_append (l₁ := k'), hl]
    rw [prod_points_perm hperm hredPnd _ hF]
    refine congrArg List.prod (List.map_congr_left fun ctx _ => ?_)
    simp only [valOfGrp, redOfGrp, hpc, hVeq, redOf]
  · intro p hp
    rw [hgin] at hp
    exact hcg p hp

/-- **`sum_product_exact` for the executable model on the single-bucket class** (one plate level, any
    number of eliminated plates all carried by every factor, every summed variable local to them): if
    `FV.C09.psp` returns `rs`, their product `R` is defined and its table over the free inputs is exactly
    what `FV.C09.unroll` returns.  This closes links 1 (closed form of `unroll` at non-empty plate
    contexts, copies ≃ tuples jointly over several variables), 2 (vacuous: the leaf's components are the
    whole bucket, and the other components are handled by `groups_value_eq`) and 3 (vacuous: one
    iteration) for this class, with no `_partial`. -/
theorem sum_product_exact_bucket (fs : List (Factor α)) (elim plates : List Name)
    (free : List (Name × Nat)) (rs : List (Factor α))
    (h : psp (srOps α) fs elim plates [] false false = .ok rs) (hb : Bucket fs elim plates)
    (hfree : ∀ f ∈ fs, ∀ p ∈ f.inputs, p.1 ∉ elim → p ∈ free) (hfreeSF : SizeFun free) :
    ∃ R, prodAll (srOps α) rs = some R ∧
      unroll (srOps α) fs elim plates [] free = .ok ((points free).map (ev R)) ∧
      tableOver R free = some ((points free).map (ev R)) := by
  obtain ⟨hg, hF2⟩ := psp_bucket (srOps α) fs elim plates rs hb h
  set L := bucketPlates elim plates with hL
  have hsc : sizesConsistent fs = true := by
    simp only [Bool.and_eq_true] at hg; exact hg.2
  have hdef : ∀ grp ∈ partition (presentVars fs (elimVars elim L)) fs.length fs,
      ∃ pc, prodAll (srOps α) grp.1 = some pc := by
    intro grp hgrp
    rw [presentVars_elimVars] at hgrp
    obtain ⟨g, _, pc, _, hpc, _⟩ := forall₂_left_mem hF2 grp hgrp
    exact ⟨pc, hpc⟩
  have hperm := reds_perm_present fs (elimVars elim L) hg hdef
  have htot : ∀ g ∈ rs, Total g := by
    intro g hgm
    obtain ⟨grp, _, pc, fc, _, _, hgo⟩ := forall₂_right_mem hF2 g hgm
    exact tabulate_total hgo
  have hentries : ∀ g ∈ rs, ∀ p ∈ g.inputs, p ∈ fs.flatMap (·.inputs) := by
    intro g hgm p hp
    obtain ⟨grp, hgrp, pc, fc, hpc, hfc, hgo⟩ := forall₂_right_mem hF2 g hgm
    rw [reduceF_inputs hgo] at hp
    have hp' := (List.mem_filter.1 hp).1
    rw [reduceF_inputs hfc] at hp'
    obtain ⟨f, hf, hpf⟩ := prodAll_inputs_mem _ grp.1 pc hpc p (List.mem_filter.1 hp').1
    exact List.mem_flatMap.2 ⟨f, partition_mem _ _ _ grp hgrp f hf, hpf⟩
  have hsf : SizeFun (rs.flatMap (·.inputs)) := by
    intro p hp q hq hpq
    obtain ⟨g, hg1, hpg⟩ := List.mem_flatMap.1 hp
    obtain ⟨g', hg2, hqg⟩ := List.mem_flatMap.1 hq
    exact sizesConsistent_spec hsc p (hentries g hg1 p hpg) q (hentries g' hg2 q hqg) hpq
  obtain ⟨R, hR⟩ := prodAll_defined (srOps α) rs htot hsf
  have hLsn : (bucketSized fs L).map (·.1) = L := by simp [bucketSized, List.map_map, Function.comp_def]
  have hvsn : (presentSizedL fs elim L).map (·.1) = presentVarsL fs elim L := by
    simp [presentSizedL, List.map_map, Function.comp_def]
  have hRval : ∀ fenv ∈ points free,
      R.eval fenv = some (((points (bucketSized fs L)).map fun ctx =>
        ((points (presentSizedL fs elim L)).map fun e =>
          (fs.map fun f => ev f (ctx ++ (e ++ fenv))).prod).sum).prod) := by
    intro fenv hfenv
    have hvals : ∀ g ∈ rs, g.eval fenv = some (ev g fenv) ∧ Covers fenv g.inputs := by
      intro g hgm
      obtain ⟨grp, hgrp, hres⟩ := forall₂_right_mem hF2 g hgm
      obtain ⟨h1, h2⟩ := compResL_value fs elim plates free hg hb hfree hfreeSF grp hgrp g hres fenv hfenv
      exact ⟨by rw [h1]; simp [ev, h1], h2⟩
    rw [(prodAll_eval fenv rs R hR hvals).1]
    congr 1
    have hmap : (partition (presentVarsL fs elim L) fs.length fs).map (fun grp =>
          ((points (bucketSized fs L)).map fun ctx =>
            valOfGrp (elimVars elim L) grp (ctx ++ fenv)).prod)
        = rs.map (ev · fenv) := by
      refine forall₂_map_eq hF2 fun grp g hgrp hres => ?_
      have := (compResL_value fs elim plates free hg hb hfree hfreeSF grp hgrp g hres fenv hfenv).1
      show _ = ev g fenv
      unfold ev
      rw [this]; rfl
    rw [← hmap, prod_map_prod_comm]
    refine congrArg List.prod (List.map_congr_left fun ctx hctx => ?_)
    have hgv := groups_value_eq fs (elimVars elim L) (ctx ++ fenv) hperm
    rw [presentVars_elimVars, presentSized_elimVars] at hgv
    rw [hgv]
    refine congrArg List.sum (List.map_congr_left fun e he => congrArg List.prod
      (List.map_congr_left fun f _ => ev_congr f _ _ fun p _ => ?_))
    rw [lookup_swap_append (bucketSized fs L) (presentSizedL fs elim L) ctx e fenv hctx he
      (fun m hm hm' => by
        rw [hLsn] at hm; rw [hvsn] at hm'
        exact ((presentVarsL_mem fs elim L m).1 hm').2.2 hm) p.1, List.append_assoc]
  have hevR : ∀ fenv ∈ points free, ev R fenv = ((points (bucketSized fs L)).map fun ctx =>
        ((points (presentSizedL fs elim L)).map fun e =>
          (fs.map fun f => ev f (ctx ++ (e ++ fenv))).prod).sum).prod := by
    intro fenv hfenv; simp [ev, hRval fenv hfenv]
  refine ⟨R, hR, ?_, ?_⟩
  · rw [unroll_bucket fs elim plates free hg hb hfree hfreeSF]
    congr 1
    exact List.map_congr_left fun fenv hfenv => (hevR fenv hfenv).symm
  · unfold tableOver
    exact mapM_some _ _ _ fun fenv hfenv => by rw [hRval fenv hfenv, hevR fenv hfenv]

/-- Non-vacuity: one plate `i` of size 2, one variable `a` inside it, `f(a,i)`, everything eliminated:
    the loop and the oracle both return `Π_i Σ_a f(a,i) = (1+3)·(2+4) = 24`. -/
example :
    ((psp (srOps ℕ) [⟨[("a", 2), ("i", 2)], [1, 2, 3, 4]⟩] ["a", "i"] ["i"] [] false false).toOption.bind
        (prodAll (srOps ℕ))).bind (tableOver · []) = some [24] ∧
    (unroll (srOps ℕ) [⟨[("a", 2), ("i", 2)], [1, 2, 3, 4]⟩] ["a", "i"] ["i"] [] []).toOption = some [24] := by
  decide
end SingleBucket
end FV.Props.C09.Exec
