/-
  Props/C09/Exec.lean — facts about the EXECUTABLE model (`FV.C09`, any carrier) that discharge
  hypotheses of the step relation `FV.Props.C09.Run.CompStep`:
    `partition_perm`                 hpend  : the components are a partition of the leaf factors
    `partition_closed`,
    `partition_groupvars_disjoint`   closed : the variables summed with one component occur in no other
    (`chooseLeaf_mem`/`chooseLeaf_max` in Props/C09.lean: leafmax)
  `grow` reaches its fixpoint within the fuel `partition` gives it (`grow_closed`).
  and the denotation of the dense-table operations the loop is built from:
    `ravel_spec`      row-major addressing: `ravel env` is the position of `pointOf env` in `points`
    `tabulate_eval`   a tabulated table looked up at `env` is the tabulated function at that point
    `mulF_eval`       `reduce(prod_op, group)`: pointwise product with broadcasting
    `reduceF_eval`    `.reduce(op, vars)`: the fold of `op` over the points of the reduced inputs
-/
import FunsorVerif.Model.C09
import Mathlib.Data.List.Basic
import Mathlib.Tactic.Ring
namespace FV.Props.C09.Exec
open FV.C09
variable {α : Type}

/-- no factor of `out` shares a leaf variable with a factor of `comp` -/
def ClosedWrt (vars : List Name) (comp out : List (Factor α)) : Prop :=
  ∀ g ∈ out, ∀ f ∈ comp, sharesVar vars f g = false

theorem grow_perm (vars : List Name) : ∀ (fuel : Nat) (comp rest : List (Factor α)),
    List.Perm ((grow vars fuel comp rest).1 ++ (grow vars fuel comp rest).2) (comp ++ rest)
  | 0, comp, rest => by simp [grow]
  | fuel + 1, comp, rest => by
    unfold grow
    simp only [List.partition_eq_filter_filter]
    split
    · exact List.Perm.refl _
    · refine (grow_perm vars fuel _ _).trans ?_
      rw [List.append_assoc]
      exact List.Perm.append_left comp (List.filter_append_perm _ rest)

theorem grow_length (vars : List Name) : ∀ (fuel : Nat) (comp rest : List (Factor α)),
    (grow vars fuel comp rest).2.length ≤ rest.length
  | 0, comp, rest => by simp [grow]
  | fuel + 1, comp, rest => by
    unfold grow
    simp only [List.partition_eq_filter_filter]
    split
    · exact Nat.le_refl _
    · exact Nat.le_trans (grow_length vars fuel _ _) (List.length_filter_le _ _)

theorem grow_closed (vars : List Name) : ∀ (fuel : Nat) (comp rest : List (Factor α)),
    rest.length ≤ fuel → ClosedWrt vars (grow vars fuel comp rest).1 (grow vars fuel comp rest).2
  | 0, comp, rest, h => by
    have : rest = [] := List.length_eq_zero_iff.1 (Nat.le_zero.1 h)
    subst this
    intro g hg
    simp [grow] at hg
  | fuel + 1, comp, rest, h => by
    unfold grow
    simp only [List.partition_eq_filter_filter]
    split
    · rename_i hemp
      intro g hg f hf
      have hnone : g ∉ rest.filter (fun g => comp.any (sharesVar vars · g)) := by
        rw [List.isEmpty_iff.1 hemp]; exact List.not_mem_nil
      rw [List.mem_filter] at hnone
      have : (comp.any (sharesVar vars · g)) = false := by
        cases hc : comp.any (sharesVar vars · g) with
        | false => rfl
        | true => exact absurd ⟨hg, hc⟩ hnone
      rw [List.any_eq_false] at this
      simpa using this f hf
    · rename_i hne
      refine grow_closed vars fuel _ _ ?_
      have hlen := List.length_eq_length_filter_add (l := rest) (fun g => comp.any (sharesVar vars · g))
      have hpos : 0 < (rest.filter (fun g => comp.any (sharesVar vars · g))).length := by
        cases hl : rest.filter (fun g => comp.any (sharesVar vars · g)) with
        | nil => rw [hl] at hne; simp at hne
        | cons a l => simp
      have hfl : (rest.filter (fun x => !comp.any fun x_1 => sharesVar vars x_1 x)).length
          = (rest.filter (not ∘ fun g => comp.any (sharesVar vars · g))).length := rfl
      omega

theorem partition_mem (vars : List Name) : ∀ (fuel : Nat) (l : List (Factor α))
    (grp : List (Factor α) × List Name), grp ∈ partition vars fuel l → ∀ g ∈ grp.1, g ∈ l
  | 0, l, grp, h => by simp [partition] at h
  | fuel + 1, [], grp, h => by simp [partition] at h
  | fuel + 1, f :: rest, grp, h => by
    simp only [partition] at h
    have hperm := grow_perm vars rest.length [f] rest
    cases hgrow : grow vars rest.length [f] rest with
    | mk comp out =>
      rw [hgrow] at h hperm
      simp only at h hperm
      intro g hg
      rcases List.mem_cons.1 h with rfl | h'
      · exact hperm.subset (List.mem_append_left _ hg)
      · have hgo := partition_mem vars fuel out grp h' g hg
        exact hperm.subset (List.mem_append_right _ hgo)

/-- `_partition` is not too fine: two different components share no leaf variable. -/
theorem partition_closed (vars : List Name) : ∀ (fuel : Nat) (l : List (Factor α)), l.length ≤ fuel →
    (partition vars fuel l).Pairwise (fun a b => ∀ f ∈ a.1, ∀ g ∈ b.1, sharesVar vars f g = false)
  | 0, l, _ => by simp [partition]
  | fuel + 1, [], _ => by simp [partition]
  | fuel + 1, f :: rest, h => by
    simp only [partition]
    have hclosed := grow_closed vars rest.length [f] rest (Nat.le_refl _)
    have hlen := grow_length vars rest.length [f] rest
    cases hgrow : grow vars rest.length [f] rest with
    | mk comp out =>
      rw [hgrow] at hclosed hlen
      simp only at hclosed hlen ⊢
      have hfuel : out.length ≤ fuel := by simp at h; omega
      refine List.Pairwise.cons ?_ (partition_closed vars fuel out hfuel)
      intro grp hgrp f' hf' g hg
      exact hclosed g (partition_mem vars fuel out grp hgrp g hg) f' hf'

/-- `_partition` loses and duplicates nothing: the components are a partition of the leaf factors. -/
theorem partition_perm (vars : List Name) : ∀ (fuel : Nat) (l : List (Factor α)), l.length ≤ fuel →
    List.Perm ((partition vars fuel l).map (·.1)).flatten l
  | 0, l, h => by
    have : l = [] := List.length_eq_zero_iff.1 (Nat.le_zero.1 h)
    subst this; simp [partition]
  | fuel + 1, [], _ => by simp [partition]
  | fuel + 1, f :: rest, h => by
    simp only [partition]
    have hperm := grow_perm vars rest.length [f] rest
    have hlen := grow_length vars rest.length [f] rest
    cases hgrow : grow vars rest.length [f] rest with
    | mk comp out =>
      rw [hgrow] at hperm hlen
      simp only at hperm hlen ⊢
      have hfuel : out.length ≤ fuel := by simp at h; omega
      simp only [List.map_cons, List.flatten_cons]
      exact (List.Perm.append_left comp (partition_perm vars fuel out hfuel)).trans hperm


/-- `group_vars` of a component = the leaf variables occurring in it -/
theorem partition_groupvars_spec (vars : List Name) : ∀ (fuel : Nat) (l : List (Factor α))
    (grp : List (Factor α) × List Name), grp ∈ partition vars fuel l →
    grp.2 = vars.filter fun v => grp.1.any (·.has v)
  | 0, l, grp, h => by simp [partition] at h
  | fuel + 1, [], grp, h => by simp [partition] at h
  | fuel + 1, f :: rest, grp, h => by
    simp only [partition] at h
    cases hgrow : grow vars rest.length [f] rest with
    | mk comp out =>
      rw [hgrow] at h
      simp only at h
      rcases List.mem_cons.1 h with rfl | h'
      · rfl
      · exact partition_groupvars_spec vars fuel out grp h'

theorem sharesVar_false_iff (vars : List Name) (f g : Factor α) :
    sharesVar vars f g = false ↔ ∀ v ∈ vars, ¬(f.has v = true ∧ g.has v = true) := by
  simp [sharesVar, List.any_eq_false]

theorem sharesVar_comm (vars : List Name) (f g : Factor α) : sharesVar vars f g = sharesVar vars g f := by
  simp [sharesVar, Bool.and_comm]

/-- The form used by the step theorem (`Run.CompStep`, hypothesis `closed`): the variables summed with
    one component (`group_vars`) occur in no factor of a later component … -/
theorem partition_groupvars_disjoint (vars : List Name) (l : List (Factor α)) :
    (partition vars l.length l).Pairwise (fun a b => ∀ v ∈ a.2, ∀ g ∈ b.1, g.has v = false) := by
  refine (partition_closed vars l.length l (Nat.le_refl _)).imp_of_mem ?_
  intro a b ha _ hab v hv g hg
  have hav : v ∈ vars ∧ (a.1.any (·.has v)) = true := by
    have := partition_groupvars_spec vars l.length l a ha
    rw [this] at hv
    simpa [List.mem_filter] using hv
  obtain ⟨f, hf, hfv⟩ := List.any_eq_true.1 hav.2
  have := (sharesVar_false_iff vars f g).1 (hab f hf g hg) v hav.1
  cases hgv : g.has v with
  | false => rfl
  | true => exact absurd ⟨hfv, hgv⟩ this

/-! ## dense tables -/

/-- number of points of a list of sized inputs -/
def sizeOfInputs (inputs : List (Name × Nat)) : Nat := (inputs.map (·.2)).foldr (· * ·) 1

/-- `env` gives every input a value within its size -/
def Covers (env : Env) (inputs : List (Name × Nat)) : Prop :=
  ∀ p ∈ inputs, ∃ x, env.lookup p.1 = some x ∧ x < p.2

/-- the point of the table addressed by `env` -/
def pointOf (env : Env) (inputs : List (Name × Nat)) : Env :=
  inputs.filterMap fun p => (env.lookup p.1).map fun x => (p.1, x)

theorem points_length : ∀ inputs : List (Name × Nat), (points inputs).length = sizeOfInputs inputs
  | [] => rfl
  | (n, s) :: rest => by
    have ih := points_length rest
    simp only [points, sizeOfInputs, List.map_cons, List.foldr_cons] at ih ⊢
    rw [List.length_flatMap]
    simp only [List.length_map, ih]
    simp

theorem getElem?_flatMap_range' {β : Type} (g : Nat → List β) (m : Nat) (hg : ∀ x, (g x).length = m) :
    ∀ (s k x i : Nat), x < s → i < m →
      ((List.range' k s).flatMap g)[x * m + i]? = (g (k + x))[i]?
  | 0, k, x, i, hx, _ => absurd hx (Nat.not_lt_zero x)
  | s + 1, k, 0, i, _, hi => by
    simp only [List.range'_succ, List.flatMap_cons, Nat.zero_mul, Nat.zero_add, Nat.add_zero]
    rw [List.getElem?_append_left (by rw [hg]; exact hi)]
  | s + 1, k, x + 1, i, hx, hi => by
    simp only [List.range'_succ, List.flatMap_cons]
    have hidx : (x + 1) * m + i = (g k).length + (x * m + i) := by rw [hg, Nat.succ_mul]; omega
    rw [hidx, List.getElem?_append_right (Nat.le_add_right _ _), Nat.add_sub_cancel_left]
    rw [getElem?_flatMap_range' g m hg s (k + 1) x i (Nat.lt_of_succ_lt_succ hx) hi]
    congr 2; omega

theorem sizeOfInputs_cons (n : Name) (s : Nat) (rest : List (Name × Nat)) :
    sizeOfInputs ((n, s) :: rest) = s * sizeOfInputs rest := by
  simp [sizeOfInputs]

/-- Row-major addressing: `ravel` of an environment is the position, in `points`, of the point it
    addresses. -/
theorem ravel_spec (env : Env) : ∀ (inputs : List (Name × Nat)) (acc : Nat), Covers env inputs →
    ∃ i, ravel env inputs acc = some (acc * sizeOfInputs inputs + i) ∧ i < sizeOfInputs inputs ∧
      (points inputs)[i]? = some (pointOf env inputs)
  | [], acc, _ => ⟨0, by simp [ravel, sizeOfInputs], by simp [sizeOfInputs], by simp [points, pointOf]⟩
  | (n, s) :: rest, acc, h => by
    obtain ⟨x, hx, hxs⟩ := h (n, s) List.mem_cons_self
    have hrest : Covers env rest := fun p hp => h p (List.mem_cons_of_mem _ hp)
    obtain ⟨i, hi1, hi2, hi3⟩ := ravel_spec env rest (acc * s + x) hrest
    refine ⟨x * sizeOfInputs rest + i, ?_, ?_, ?_⟩
    · simp only [ravel, hx, hxs, if_true]
      rw [hi1, sizeOfInputs_cons]
      congr 1; ring
    · rw [sizeOfInputs_cons]
      calc x * sizeOfInputs rest + i < x * sizeOfInputs rest + sizeOfInputs rest := by omega
        _ = (x + 1) * sizeOfInputs rest := by ring
        _ ≤ s * sizeOfInputs rest := Nat.mul_le_mul_right _ hxs
    · have hlen : ∀ y, ((points rest).map fun e => (n, y) :: e).length = sizeOfInputs rest := by
        intro y; rw [List.length_map, points_length]
      have := getElem?_flatMap_range' (fun y => (points rest).map fun e => (n, y) :: e)
        (sizeOfInputs rest) hlen s 0 x i hxs hi2
      simp only [points, List.range_eq_range']
      rw [this, Nat.zero_add, List.getElem?_map, hi3]
      simp [pointOf, hx]

theorem mapM_getElem? {β γ : Type} (fn : β → Option γ) : ∀ (l : List β) (d : List γ),
    l.mapM fn = some d → ∀ (i : Nat) (e : β), l[i]? = some e → ∃ y, fn e = some y ∧ d[i]? = some y
  | [], d, _, i, e, he => by simp at he
  | a :: l, d, h, i, e, he => by
    rw [List.mapM_cons] at h
    cases hfa : fn a with
    | none => simp [hfa] at h
    | some b =>
      cases hl : l.mapM fn with
      | none => simp [hfa, hl] at h
      | some bs =>
        simp [hfa, hl] at h
        subst h
        cases i with
        | zero =>
          simp at he; subst he
          exact ⟨b, hfa, by simp⟩
        | succ i =>
          simp at he
          obtain ⟨y, hy1, hy2⟩ := mapM_getElem? fn l bs hl i e he
          exact ⟨y, hy1, by simpa using hy2⟩

/-- **Denotation of a tabulated table**: looking it up at `env` is the tabulated function at the point
    addressed by `env`. -/
theorem tabulate_eval (inputs : List (Name × Nat)) (fn : Env → Option α) (t : Factor α)
    (h : tabulate inputs fn = some t) (env : Env) (hc : Covers env inputs) :
    t.eval env = fn (pointOf env inputs) := by
  unfold tabulate at h
  cases hd : (points inputs).mapM fn with
  | none => simp [hd] at h
  | some d =>
    simp [hd] at h
    subst h
    obtain ⟨i, hi1, _, hi3⟩ := ravel_spec env inputs 0 hc
    obtain ⟨y, hy1, hy2⟩ := mapM_getElem? fn _ d hd i _ hi3
    simp only [Factor.eval, hi1, Nat.zero_mul, Nat.zero_add]
    rw [hy2, hy1]

theorem ravel_congr (env env' : Env) : ∀ (inputs : List (Name × Nat)) (acc : Nat),
    (∀ p ∈ inputs, env.lookup p.1 = env'.lookup p.1) → ravel env inputs acc = ravel env' inputs acc
  | [], _, _ => rfl
  | (n, s) :: rest, acc, h => by
    have hn := h (n, s) List.mem_cons_self
    simp only at hn
    simp only [ravel, hn]
    cases env'.lookup n with
    | none => rfl
    | some x =>
      simp only
      split
      · exact ravel_congr env env' rest _ (fun p hp => h p (List.mem_cons_of_mem _ hp))
      · rfl

/-- a table only reads the names of its inputs -/
theorem eval_congr (f : Factor α) (env env' : Env)
    (h : ∀ p ∈ f.inputs, env.lookup p.1 = env'.lookup p.1) : f.eval env = f.eval env' := by
  simp only [Factor.eval, ravel_congr env env' f.inputs 0 h]

theorem lookup_pointOf (env : Env) : ∀ (inputs : List (Name × Nat)), Covers env inputs →
    ∀ n, n ∈ inputs.map (·.1) → (pointOf env inputs).lookup n = env.lookup n
  | [], _, n, hn => by simp at hn
  | (m, s) :: rest, h, n, hn => by
    obtain ⟨x, hx, _⟩ := h (m, s) List.mem_cons_self
    have hrest : Covers env rest := fun p hp => h p (List.mem_cons_of_mem _ hp)
    have hpo : pointOf env ((m, s) :: rest) = (m, x) :: pointOf env rest := by simp [pointOf, hx]
    rw [hpo, List.lookup_cons]
    by_cases hnm : n = m
    · subst hnm; simp [hx]
    · have : (n == m) = false := by simpa using hnm
      rw [this]
      simp only [List.map_cons, List.mem_cons] at hn
      rcases hn with hn | hn
      · exact absurd hn hnm
      · exact lookup_pointOf env rest hrest n hn

/-- **`mulF` is the pointwise product** (with broadcasting over the union of the inputs). -/
theorem mulF_eval (o : Ops α) (a b c : Factor α) (h : mulF o a b = some c) (env : Env)
    (hc : Covers env (a.inputs ++ b.inputs.filter fun p => !a.has p.1)) :
    c.eval env = match a.eval env, b.eval env with
      | some x, some y => some (o.mul x y)
      | _, _ => none := by
  unfold mulF at h
  rw [tabulate_eval _ _ c h env hc]
  have hlk := lookup_pointOf env _ hc
  have ha : a.eval (pointOf env (a.inputs ++ b.inputs.filter fun p => !a.has p.1)) = a.eval env := by
    refine eval_congr a _ _ fun p hp => hlk p.1 ?_
    exact List.mem_map.2 ⟨p, List.mem_append_left _ hp, rfl⟩
  have hb : b.eval (pointOf env (a.inputs ++ b.inputs.filter fun p => !a.has p.1)) = b.eval env := by
    refine eval_congr b _ _ fun p hp => hlk p.1 ?_
    by_cases hap : a.has p.1 = true
    · have : p.1 ∈ a.inputs.map (·.1) := by
        simpa [Factor.has, Factor.names] using hap
      obtain ⟨q, hq, hqp⟩ := List.mem_map.1 this
      exact List.mem_map.2 ⟨q, List.mem_append_left _ hq, hqp⟩
    · refine List.mem_map.2 ⟨p, List.mem_append_right _ (List.mem_filter.2 ⟨hp, ?_⟩), rfl⟩
      simpa using hap
  rw [ha, hb]
  cases a.eval env <;> cases b.eval env <;> rfl

theorem mem_points_lookup : ∀ (inputs : List (Name × Nat)) (r : Env), r ∈ points inputs →
    ∀ n, n ∈ inputs.map (·.1) → (r.lookup n).isSome = true
  | [], r, _, n, hn => by simp at hn
  | (m, s) :: rest, r, hr, n, hn => by
    simp only [points, List.mem_flatMap, List.mem_map] at hr
    obtain ⟨x, _, e, he, rfl⟩ := hr
    rw [List.lookup_cons]
    by_cases hnm : n = m
    · subst hnm; simp
    · have : (n == m) = false := by simpa using hnm
      rw [this]
      simp only [List.map_cons, List.mem_cons] at hn
      rcases hn with hn | hn
      · exact absurd hn hnm
      · exact mem_points_lookup rest e he n hn

/-- **`reduceF` folds the operation over the points of the reduced inputs.** -/
theorem reduceF_eval (op : α → α → α) (unit : α) (f g : Factor α) (vars : List Name)
    (h : reduceF op unit f vars = some g) (env : Env)
    (hc : Covers env (f.inputs.filter fun p => !vars.contains p.1)) :
    g.eval env = foldOpt op unit
      ((points (f.inputs.filter fun p => vars.contains p.1)).map fun r => f.eval (r ++ env)) := by
  unfold reduceF at h
  rw [tabulate_eval _ _ g h env hc]
  congr 1
  refine List.map_congr_left fun r hr => eval_congr f _ _ fun p hp => ?_
  rw [List.lookup_append, List.lookup_append]
  by_cases hv : vars.contains p.1 = true
  · have hsome := mem_points_lookup _ r hr p.1
      (List.mem_map.2 ⟨p, List.mem_filter.2 ⟨hp, hv⟩, rfl⟩)
    cases hl : r.lookup p.1 with
    | none => rw [hl] at hsome; simp at hsome
    | some x => simp
  · have := lookup_pointOf env _ hc p.1
      (List.mem_map.2 ⟨p, List.mem_filter.2 ⟨hp, by simpa using hv⟩, rfl⟩)
    rw [this]

/-- on defined values `foldOpt` is the plain left fold (so `sumOut`/`prodOut` are the semiring's finite
    sum / product over the reduced points) -/
theorem foldOpt_map_some (op : α → α → α) : ∀ (l : List α) (init : α),
    foldOpt op init (l.map some) = some (l.foldl op init)
  | [], init => rfl
  | x :: l, init => by
    have := foldOpt_map_some op l (op init x)
    simpa [foldOpt] using this

end FV.Props.C09.Exec
