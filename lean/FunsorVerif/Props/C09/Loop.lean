/-
  Props/C09/Loop.lean — the SCHEDULING of the elimination loop.

  `Gen/C09Loop.lean` is regenerated from /repo/funsor/sum_product.py on every run: for each of
  partial_sum_product / modified_ / dynamic_, the loop construct, its condition, the leaf-selection
  statement, the pop, and the keys factors are re-inserted under.  The obligations below pin that text to
  what `FV.C09.pspLoop` models: a `while ordinal_to_factors` loop that RE-SELECTS
  `leaf = max(ordinal_to_factors, key=len)` at every iteration, pops it, and re-inserts only under
  `new_plates` (and `o - {plate}` in the Gaussian branch).  A rewrite of the scheduling (a precomputed
  schedule, a different key, an extra queue) breaks `loop_selection_as_modelled` and sends the check to
  its search.
-/
import FunsorVerif.Gen.C09Loop
import FunsorVerif.Props.C09.Exec
import FunsorVerif.Props.C09

namespace FV.Props.C09.Loop
open FV.C09 FV.Gen.C09

/-- what the model implements -/
def asModelled (e : LoopEntry) : Bool :=
  e.kind == "while" && e.test == "ordinal_to_factors" &&
  e.select == "leaf = max(ordinal_to_factors, key=len)" &&
  e.pop == "leaf_factors = ordinal_to_factors.pop(leaf)" &&
  e.reinsert.all (fun k => k == "new_plates" || k == "o - {plate}") &&
  e.reinsert.contains "new_plates" && e.otherAppends.isEmpty

/-- **Obligation over the generated table**: every elimination loop in the source selects its leaf
    exactly as `FV.C09.chooseLeaf`/`pspLoop` do. -/
theorem loop_selection_as_modelled : ∀ e ∈ loops, asModelled e = true := by decide

theorem loop_functions_listed :
    loops.map (·.fn) = ["partial_sum_product", "modified_partial_sum_product", "dynamic_partial_sum_product"] := by
  decide

variable {α : Type}

/-- The model's loop, one iteration, is literally: re-select the first key of maximal length among the
    CURRENT keys, remove it from the map, run the components of its factors, continue with the new map. -/
theorem pspLoop_iteration (o : Ops α) (c : Cfg) (fuel : Nat) (st st'' : St α) (leaf : List Name)
    (hl : chooseLeaf st.pending = some leaf)
    (h : (partition ((c.O.filter (·.2 == leaf)).map (·.1)) ((st.pending.lookup leaf).getD []).length
            ((st.pending.lookup leaf).getD [])).foldlM (component o c leaf)
            { st with pending := st.pending.filter (·.1 != leaf) } = .ok st'') :
    pspLoop o c (fuel + 1) st = pspLoop o c fuel st'' := by
  simp only [pspLoop, hl, h]

/-- A factor filed under a key that was NOT in the map is found again by the very next selection:
    `addPending` makes the new key a key of the map, and `chooseLeaf` looks at all keys of the map it is
    given (`chooseLeaf_mem`, `chooseLeaf_max`) — there is no schedule that could miss it. -/
theorem addPending_key (k : List Name) (f : Factor α) :
    ∀ (pend : List (List Name × List (Factor α))), k ∈ (addPending k f pend).map (·.1)
  | [] => by simp [addPending]
  | (k', fs) :: rest => by
    unfold addPending
    split
    · rename_i h; have : k' = k := by simpa using h
      simp [this]
    · simp only [List.map_cons, List.mem_cons]
      exact Or.inr (addPending_key k f rest)

theorem addPending_mem (k : List Name) (f : Factor α) :
    ∀ (pend : List (List Name × List (Factor α))), ∃ fs, (k, fs) ∈ addPending k f pend ∧ f ∈ fs
  | [] => ⟨[f], by simp [addPending], by simp⟩
  | (k', fs) :: rest => by
    unfold addPending
    split
    · rename_i h; have : k' = k := by simpa using h
      subst this
      exact ⟨fs ++ [f], by simp, by simp⟩
    · obtain ⟨fs', h1, h2⟩ := addPending_mem k f rest
      exact ⟨fs', List.mem_cons_of_mem _ h1, h2⟩

/-- FULL STATEMENT (plated executable refinement, not proved):
      psp_loop_refines_plated_spec : psp o fs elim plates = ok rs → Π rs = unroll o fs elim plates
    Proved: the semantic machine (`Run.sum_product_exact`, every plate structure) and the executable
    model without plates (`Exec.sum_product_exact_noplates`).  The theorem below is the SCHEDULING half of
    the plated executable refinement: in every iteration the executable loop runs, the selected leaf is a
    current key of maximal size (hypothesis `leafmax` of `Run.CompStep`), and the components it processes
    are a partition of that key's factors no two of which share a leaf variable (hypotheses `hpend`,
    `closed`).  The VALUE half for `leaf ≠ []` is in Props/C09/Plated.lean: per-primitive simulation lemmas and
    `iteration_preserves_unroll_partial` (the executable `elim_core`, any number of plates left), with the
    three remaining links to `unroll` named there. -/
theorem psp_loop_refines_plated_spec_partial (c : Cfg) (st : St α) (leaf : List Name)
    (hl : chooseLeaf st.pending = some leaf) :
    leaf ∈ st.pending.map (·.1) ∧ (∀ kf ∈ st.pending, kf.1.length ≤ leaf.length) ∧
    (let vars := (c.O.filter (·.2 == leaf)).map (·.1)
     let fs := (st.pending.lookup leaf).getD []
     List.Perm ((partition vars fs.length fs).map (·.1)).flatten fs ∧
     (partition vars fs.length fs).Pairwise
       (fun a b => ∀ v ∈ a.2, ∀ g ∈ b.1, g.has v = false)) :=
  ⟨FV.Props.C09.chooseLeaf_mem _ _ hl, FV.Props.C09.chooseLeaf_max _ _ hl,
   FV.Props.C09.Exec.partition_perm _ _ _ (Nat.le_refl _),
   FV.Props.C09.Exec.partition_groupvars_disjoint _ _⟩

/-! ## witness: a schedule computed once is NOT the loop (seeded defect C09_4) -/

/-- `sorted(ordinal_to_factors, key=len, reverse=True)` (stable) -/
def insDesc (k : List Name) : List (List Name) → List (List Name)
  | [] => [k]
  | x :: xs => if x.length ≥ k.length then x :: insDesc k xs else k :: x :: xs

/-- The rewrite: walk a schedule fixed at the start; a key that only comes into existence during
    elimination is appended at the END of the schedule. -/
def schedLoop (o : Ops α) (c : Cfg) : Nat → List (List Name) → St α → Except Err (List (Factor α))
  | 0, _, _ => .error .fuel
  | _ + 1, [], st => .ok st.results
  | fuel + 1, leaf :: sched, st =>
    let leafFactors := (st.pending.lookup leaf).getD []
    let st' : St α := { st with pending := st.pending.filter (·.1 != leaf) }
    let leafVars := (c.O.filter (·.2 == leaf)).map (·.1)
    match (partition leafVars leafFactors.length leafFactors).foldlM (m := Except Err)
        (fun (acc : St α × List (List Name)) grp =>
          match component o c leaf acc.1 grp with
          | Except.error e => Except.error e
          | Except.ok s2 => Except.ok (s2, acc.2 ++ ((s2.pending.map (·.1)).filter fun k =>
              !(acc.1.pending.map (·.1)).contains k && !acc.2.contains k)))
        (st', sched) with
    | Except.error e => Except.error e
    | Except.ok (st'', sched') => schedLoop o c fuel sched' st''

def schedPsp (o : Ops α) (fs : List (Factor α)) (elim plates : List Name) : Except Err (List (Factor α)) :=
  let c := mkCfg fs elim plates [] false
  let pending := fs.foldl (fun acc f => addPending (ordOf c.P f) f acc) []
  schedLoop o c (pspFuel c fs.length + 8) ((pending.map (·.1)).foldl (fun acc k => insDesc k acc) [])
    ⟨pending, []⟩

def natOps : Ops Nat := ⟨(· + ·), (· * ·), 0, 1⟩

/-- the integrator's graph `a, abij, bik` (plates i, j, k; everything eliminated), `a` of size 2 -/
def witnessGraph : List (Factor Nat) :=
  [⟨[("a", 2)], [1, 1]⟩,
   ⟨[("a", 2), ("b", 1), ("i", 1), ("j", 1)], [1, 2]⟩,
   ⟨[("b", 1), ("i", 1), ("k", 1)], [1]⟩]

/-- **Witness**: on `a, abij, bik` the real loop (re-selecting the maximal key) returns the unrolled value
    `Σ_a 1·g(a)·1 = 3`; the fixed schedule processes the root key `{}` before the key `{i}` that is created
    during elimination, sums `a` twice, and returns `2 · 3 = 6`. -/
theorem schedule_witness :
    (unroll natOps witnessGraph ["a", "b", "i", "j", "k"] ["i", "j", "k"] [] []).toOption = some [3] ∧
    ((psp natOps witnessGraph ["a", "b", "i", "j", "k"] ["i", "j", "k"] [] false false).toOption.bind
      (prodAll natOps)).bind (tableOver · []) = some [3] ∧
    ((schedPsp natOps witnessGraph ["a", "b", "i", "j", "k"] ["i", "j", "k"]).toOption.bind
      (prodAll natOps)).bind (tableOver · []) = some [6] := by
  decide

end FV.Props.C09.Loop
