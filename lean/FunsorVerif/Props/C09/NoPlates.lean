/-
  Props/C09/NoPlates.lean — `sum_product_exact` for the EXECUTABLE model `FV.C09.psp` / `FV.C09.unroll`,
  non-plated case (pure variable elimination; the loop has the single leaf `[]`).

    list-as-set lemmas        `mem_ins` `mem_sset` `mem_inter` `mem_diff` `sset_sorted` `sset_nodup`
    inputs of table ops       `tabulate_inputs` `mulF_inputs` `reduceF_inputs` `prodAll_has` `prodAll_inputs_mem`
    control flow              `psp_noplates`: the loop returns exactly one factor per `_partition` component
    values of the loop        `prodAll_eval` `compRes_eval` `compRes_value`: `Σ_{component's variables} Π component`
    algebra on lists          `sum_points_append` `sum_points_perm` `prod_sum_groups` (independence of components)
    the oracle                `sumCopies_pure` `instProd_noplates` `sumCopies_noplates` `unroll_noplates`
    conditional result        `psp_noplates_exact` (assuming the rearrangement and definedness below)

    rearrangement             `names_nodup_of_wf` `prodAll_names_nodup` `reds_perm_present`
    definedness               `tabulate_total` `mulF_defined` `prodAll_defined`
    RESULT                    `sum_product_exact_noplates`:  psp fs elim [] = ok rs  →  ∃ R, prodAll rs = some R ∧
                                unroll fs elim [] free = ok (table of R over free) — no side hypotheses except on `free`

  Remaining, named precisely: the plated cases (one plate level and beyond) of the executable model:
  `component` with `leaf ≠ []`, i.e. the executable counterpart of `Run.elim_group`, with `Asg`/`merge`
  realised by `points`/`++` on assoc-lists, `prodOut` over `leaf - new_plates`, and `unroll`'s copies
  indexed by non-empty plate contexts (`sumCopies_pure` and `instProd` are already general in the copies).
-/
import FunsorVerif.Props.C09.Exec
import Mathlib.Algebra.BigOperators.Group.List.Basic
import Mathlib.Algebra.BigOperators.Ring.List
import Mathlib.Data.List.Nodup
import Mathlib.Data.String.Basic
namespace FV.Props.C09.Exec
open FV.C09
variable {α : Type}

/-! ## sets of names as lists -/

theorem mem_ins (x y : Name) : ∀ l : List Name, y ∈ ins x l ↔ y = x ∨ y ∈ l
  | [] => by simp [ins]
  | z :: zs => by
    unfold ins
    split
    · simp
    · split
      · rename_i h; have : x = z := by simpa using h
        subst this; simp
      · have ih := mem_ins x y zs
        simp only [List.mem_cons, ih]; tauto

theorem mem_foldl_ins (y : Name) : ∀ (l acc : List Name),
    y ∈ l.foldl (fun acc x => ins x acc) acc ↔ y ∈ l ∨ y ∈ acc
  | [], acc => by simp
  | x :: l, acc => by
    simp only [List.foldl_cons, mem_foldl_ins y l, mem_ins, List.mem_cons]; tauto

theorem mem_sset (y : Name) (l : List Name) : y ∈ sset l ↔ y ∈ l := by
  simp [sset, mem_foldl_ins]

theorem mem_inter (y : Name) (a b : List Name) : y ∈ inter a b ↔ y ∈ a ∧ y ∈ b := by
  simp [inter]

theorem mem_diff (y : Name) (a b : List Name) : y ∈ diff a b ↔ y ∈ a ∧ y ∉ b := by
  simp [diff]

theorem ordOf_nil (f : Factor α) : ordOf [] f = [] := by
  simp [ordOf, sset]

theorem interAll_nils : ∀ os : List (List Name), (∀ o ∈ os, o = []) → interAll os = []
  | [], _ => rfl
  | [o], h => by simpa [interAll] using h o (by simp)
  | o :: o' :: os, h => by
    have : o = [] := h o (by simp)
    subst this
    simp [interAll, inter]

/-! ## inputs of the table operations -/

theorem tabulate_inputs {inputs : List (Name × Nat)} {fn : Env → Option α} {t : Factor α}
    (h : tabulate inputs fn = some t) : t.inputs = inputs := by
  unfold tabulate at h
  cases hd : (points inputs).mapM fn with
  | none => simp [hd] at h
  | some d => simp [hd] at h; subst h; rfl

theorem reduceF_inputs {op : α → α → α} {u : α} {f g : Factor α} {vars : List Name}
    (h : reduceF op u f vars = some g) :
    g.inputs = f.inputs.filter fun p => !vars.contains p.1 :=
  tabulate_inputs h

theorem mulF_inputs {o : Ops α} {a b c : Factor α} (h : mulF o a b = some c) :
    c.inputs = a.inputs ++ b.inputs.filter fun p => !a.has p.1 :=
  tabulate_inputs h

theorem has_iff (f : Factor α) (n : Name) : f.has n = true ↔ ∃ p ∈ f.inputs, p.1 = n := by
  simp [Factor.has, Factor.names]

theorem mulF_has {o : Ops α} {a b c : Factor α} (h : mulF o a b = some c) (n : Name) :
    c.has n = true ↔ a.has n = true ∨ b.has n = true := by
  rw [has_iff, mulF_inputs h]
  constructor
  · rintro ⟨p, hp, rfl⟩
    rcases List.mem_append.1 hp with hp | hp
    · exact Or.inl ((has_iff a _).2 ⟨p, hp, rfl⟩)
    · exact Or.inr ((has_iff b _).2 ⟨p, (List.mem_filter.1 hp).1, rfl⟩)
  · rintro (ha | hb)
    · obtain ⟨p, hp, rfl⟩ := (has_iff a n).1 ha
      exact ⟨p, List.mem_append_left _ hp, rfl⟩
    · by_cases ha : a.has n = true
      · obtain ⟨p, hp, rfl⟩ := (has_iff a n).1 ha
        exact ⟨p, List.mem_append_left _ hp, rfl⟩
      · obtain ⟨p, hp, rfl⟩ := (has_iff b n).1 hb
        exact ⟨p, List.mem_append_right _ (List.mem_filter.2 ⟨hp, by simpa using ha⟩), rfl⟩

theorem foldl_mulF_has (o : Ops α) (n : Name) : ∀ (fs : List (Factor α)) (acc pc : Factor α),
    fs.foldl (fun acc g => acc.bind (mulF o · g)) (some acc) = some pc →
    (pc.has n = true ↔ acc.has n = true ∨ ∃ f ∈ fs, f.has n = true)
  | [], acc, pc, h => by simp at h; subst h; simp
  | g :: fs, acc, pc, h => by
    simp only [List.foldl_cons, Option.bind_some] at h
    cases hm : mulF o acc g with
    | none =>
      rw [hm] at h
      have : ∀ l : List (Factor α), l.foldl (fun acc g => acc.bind (mulF o · g)) none = none := by
        intro l; induction l with
        | nil => rfl
        | cons x l ih => simpa using ih
      rw [this] at h; exact absurd h (by simp)
    | some c =>
      rw [hm] at h
      rw [foldl_mulF_has o n fs c pc h, mulF_has hm]
      simp only [List.mem_cons, exists_eq_or_imp]; tauto

theorem prodAll_has (o : Ops α) (n : Name) (fs : List (Factor α)) (pc : Factor α)
    (h : prodAll o fs = some pc) : pc.has n = true ↔ ∃ f ∈ fs, f.has n = true := by
  cases fs with
  | nil => simp [prodAll, unitF] at h; subst h; simp [Factor.has, Factor.names]
  | cons f fs =>
    rw [foldl_mulF_has o n fs f pc h]
    simp only [List.mem_cons, exists_eq_or_imp]


/-! ## the loop without plates: one result per component -/

/-- what the loop makes of one component when nothing is multiplied out -/
def CompRes (o : Ops α) (elim : List Name) (grp : List (Factor α) × List Name) (g : Factor α) : Prop :=
  ∃ pc fc, prodAll o grp.1 = some pc ∧ sumOut o pc (inter grp.2 elim) = some fc ∧
    prodOut o fc [] = some g

theorem component_noplates (o : Ops α) (c : Cfg) (st st' : St α)
    (grp : List (Factor α) × List Name)
    (hrem : ∀ pc fc, prodAll o grp.1 = some pc → sumOut o pc (inter grp.2 c.elim) = some fc →
      c.S.filter fc.has = [])
    (h : component o c [] st grp = .ok st') :
    st'.pending = st.pending ∧ ∃ g, CompRes o c.elim grp g ∧ st'.results = st.results ++ [g] := by
  unfold component at h
  cases hpc : prodAll o grp.1 with
  | none => simp [hpc] at h
  | some pc =>
    cases hfc : sumOut o pc (inter grp.2 c.elim) with
    | none => simp [hpc, hfc] at h
    | some fc =>
      have hr := hrem pc fc hpc hfc
      simp only [hpc, Option.bind_some, hfc, hr, List.isEmpty_nil, if_true] at h
      have hin : inter ([] : List Name) c.prodVars = [] := rfl
      rw [hin] at h
      cases hg : prodOut o fc [] with
      | none => simp [hg] at h
      | some g =>
        simp only [hg] at h
        have hs : applyScale o c [] g = g := by simp [applyScale]
        rw [hs] at h
        injection h with h
        subst h
        exact ⟨rfl, g, ⟨pc, fc, hpc, hfc, hg⟩, rfl⟩

theorem foldlM_component_noplates (o : Ops α) (c : Cfg) :
    ∀ (groups : List (List (Factor α) × List Name)) (st st' : St α),
    (∀ grp ∈ groups, ∀ pc fc, prodAll o grp.1 = some pc →
      sumOut o pc (inter grp.2 c.elim) = some fc → c.S.filter fc.has = []) →
    groups.foldlM (component o c []) st = .ok st' →
    st'.pending = st.pending ∧
      ∃ gs, List.Forall₂ (CompRes o c.elim) groups gs ∧ st'.results = st.results ++ gs
  | [], st, st', _, h => by
    simp [List.foldlM, pure, Except.pure] at h
    subst h
    exact ⟨rfl, [], List.Forall₂.nil, by simp⟩
  | grp :: groups, st, st', hrem, h => by
    rw [List.foldlM_cons] at h
    cases hc : component o c [] st grp with
    | error e => simp [hc, bind, Except.bind] at h
    | ok st1 =>
      simp only [hc, bind, Except.bind] at h
      obtain ⟨hp1, g, hg, hr1⟩ := component_noplates o c st st1 grp
        (hrem grp List.mem_cons_self) hc
      obtain ⟨hp2, gs, hgs, hr2⟩ := foldlM_component_noplates o c groups st1 st'
        (fun grp' hg' => hrem grp' (List.mem_cons_of_mem _ hg')) h
      refine ⟨hp2.trans hp1, g :: gs, List.Forall₂.cons hg hgs, ?_⟩
      rw [hr2, hr1, List.append_assoc]; rfl


theorem foldl_addPending_nil : ∀ (fs g : List (Factor α)),
    fs.foldl (fun acc f => addPending ([] : List Name) f acc) [([], g)] = [([], g ++ fs)]
  | [], g => by simp
  | f :: fs, g => by
    simp only [List.foldl_cons, addPending, beq_self_eq_true, if_true]
    rw [foldl_addPending_nil fs (g ++ [f])]
    simp

/-- the summed variables that occur in some factor -/
def presentVars (fs : List (Factor α)) (elim : List Name) : List Name :=
  sset ((fs.flatMap Factor.names).filter ((diff (sset elim) []).contains ·))

theorem leafVars_noplates (fs : List (Factor α)) (S : List Name) :
    ((varOrdinals ([] : List Name) S fs).filter (·.2 == ([] : List Name))).map (·.1)
      = sset ((fs.flatMap Factor.names).filter (S.contains ·)) := by
  have hall : ∀ p ∈ varOrdinals ([] : List Name) S fs, (p.2 == ([] : List Name)) = true := by
    intro p hp
    simp only [varOrdinals, List.mem_map] at hp
    obtain ⟨v, _, rfl⟩ := hp
    have : interAll ((fs.filter (·.has v)).map (ordOf ([] : List Name))) = [] :=
      interAll_nils _ (by intro o ho; simp only [List.mem_map] at ho; obtain ⟨f, _, rfl⟩ := ho; exact ordOf_nil f)
    simp [this]
  rw [List.filter_eq_self.2 hall]
  simp [varOrdinals, List.map_map, Function.comp_def]

/-- **`partial_sum_product` without plates returns exactly one factor per connected component**:
    `Σ_{component's variables} Π component`. (Control-flow half of the refinement, non-plated case.) -/
theorem psp_noplates (o : Ops α) (fs : List (Factor α)) (elim : List Name) (rs : List (Factor α))
    (h : psp o fs elim [] [] false false = .ok rs) :
    (fs.all wellFormed && sizesConsistent fs) = true ∧
      List.Forall₂ (CompRes o elim)
        (partition (presentVars fs elim) fs.length fs) rs := by
  unfold psp at h
  by_cases hg : (fs.all wellFormed && sizesConsistent fs) = true
  · refine ⟨hg, ?_⟩
    simp only [hg, Bool.not_true, Bool.false_eq_true, if_false, Bool.false_and] at h
    have hcfgP : (mkCfg fs elim [] [] false).P = [] := by simp [mkCfg, inter, sset]
    have hcfgS : (mkCfg fs elim [] [] false).S = diff (sset elim) [] := by simp [mkCfg, inter, sset]
    have hcfgO : (mkCfg fs elim [] [] false).O = varOrdinals [] (diff (sset elim) []) fs := by
      simp [mkCfg, inter, sset]
    have hcfgE : (mkCfg fs elim [] [] false).elim = elim := rfl
    generalize hc : mkCfg fs elim [] [] false = c at h hcfgP hcfgS hcfgO hcfgE
    simp only [hcfgP, ordOf_nil] at h
    cases fs with
    | nil =>
      simp [pspFuel, hcfgP, pspLoop, chooseLeaf] at h
      subst h
      simp [partition]
    | cons f fs' =>
      have hpend : (f :: fs').foldl (fun acc f => addPending ([] : List Name) f acc) []
          = [([], f :: fs')] := by
        simp only [List.foldl_cons, addPending]
        rw [foldl_addPending_nil]; simp
      rw [hpend] at h
      have hfuel : pspFuel c (f :: fs').length = fs'.length + 1 + 1 + 1 := by
        simp only [pspFuel, hcfgP, List.length_nil, List.length_cons, Nat.pow_zero]; omega
      rw [hfuel] at h
      simp only [pspLoop, chooseLeaf, List.lookup_cons, beq_self_eq_true, Option.getD_some] at h
      have hfilter : ([(([] : List Name), f :: fs')].filter (fun x => x.1 != ([] : List Name))) = [] := by
        simp
      simp only [hfilter, hcfgO, leafVars_noplates] at h
      cases hfold : (partition (sset (((f :: fs').flatMap Factor.names).filter
          ((diff (sset elim) []).contains ·))) (f :: fs').length (f :: fs')).foldlM
          (component o c []) { pending := [], results := [] } with
      | error e => simp only [hfold] at h; exact absurd h (by simp)
      | ok st'' =>
        simp only [hfold] at h
        have hrem : ∀ grp ∈ partition (sset (((f :: fs').flatMap Factor.names).filter
            ((diff (sset elim) []).contains ·))) (f :: fs').length (f :: fs'), ∀ pc fc,
            prodAll o grp.1 = some pc → sumOut o pc (inter grp.2 c.elim) = some fc →
            c.S.filter fc.has = [] := by
          intro grp hgrp pc fc hpc hfc
          rw [List.filter_eq_nil_iff]
          intro n hn hhas
          rw [hcfgS] at hn
          have hnE : n ∈ elim := (mem_sset n elim).1 ((mem_diff n _ _).1 hn).1
          obtain ⟨p, hp, hpn⟩ := (has_iff fc n).1 hhas
          rw [reduceF_inputs hfc, List.mem_filter] at hp
          have hpcn : pc.has n = true := (has_iff pc n).2 ⟨p, hp.1, hpn⟩
          obtain ⟨f0, hf0, hf0n⟩ := (prodAll_has o n grp.1 pc hpc).1 hpcn
          have hf0fs := partition_mem _ _ _ grp hgrp f0 hf0
          have hspec := partition_groupvars_spec _ _ _ grp hgrp
          have hn2 : n ∈ grp.2 := by
            rw [hspec, List.mem_filter]
            refine ⟨?_, List.any_eq_true.2 ⟨f0, hf0, hf0n⟩⟩
            rw [mem_sset, List.mem_filter]
            refine ⟨List.mem_flatMap.2 ⟨f0, hf0fs, ?_⟩, by simpa using hn⟩
            simpa [Factor.has] using hf0n
          have : (inter grp.2 c.elim).contains p.1 = true := by
            rw [hpn, hcfgE]; simpa using (mem_inter n _ _).2 ⟨hn2, hnE⟩
          simp only [Bool.not_eq_eq_eq_not, Bool.not_true] at hp
          rw [this] at hp
          exact absurd hp.2 (by simp)
        obtain ⟨hp, gs, hgs, hres⟩ := foldlM_component_noplates o c _ _ st'' hrem hfold
        simp only at hp
        rw [hp] at h
        simp only [chooseLeaf] at h
        injection h with h
        rw [hres] at h
        simp only [List.nil_append] at h
        subst h
        rw [hcfgE] at hgs
        exact hgs
  · simp [hg] at h

end FV.Props.C09.Exec

namespace FV.Props.C09.Exec
open FV.C09

/-! ## values: the closed form of what `partial_sum_product` returns without plates -/

section Values
set_option linter.unusedSectionVars false
variable {α : Type} [CommSemiring α]

/-- the semiring's own operations -/
def srOps (α : Type) [CommSemiring α] : Ops α := ⟨(· + ·), (· * ·), 0, 1⟩

/-- total lookup (0 outside the table; only used where `eval` is defined) -/
def ev (f : Factor α) (env : Env) : α := (f.eval env).getD 0

theorem foldOpt_add_some (l : List α) : foldOpt (· + ·) 0 (l.map some) = some l.sum := by
  rw [foldOpt_map_some]
  congr 1
  have : ∀ (l : List α) (a : α), l.foldl (· + ·) a = a + l.sum := by
    intro l; induction l with
    | nil => intro a; simp
    | cons x l ih => intro a; simp [ih, add_assoc]
  simpa using this l 0

theorem foldOpt_mul_some (l : List α) : foldOpt (· * ·) 1 (l.map some) = some l.prod := by
  rw [foldOpt_map_some]
  congr 1
  have : ∀ (l : List α) (a : α), l.foldl (· * ·) a = a * l.prod := by
    intro l; induction l with
    | nil => intro a; simp
    | cons x l ih => intro a; simp [ih, mul_assoc]
  simpa using this l 1

theorem covers_mulF {a b : Factor α} {env : Env} (ha : Covers env a.inputs) (hb : Covers env b.inputs) :
    Covers env (a.inputs ++ b.inputs.filter fun p => !a.has p.1) := by
  intro p hp
  rcases List.mem_append.1 hp with hp | hp
  · exact ha p hp
  · exact hb p (List.mem_filter.1 hp).1

theorem foldl_mulF_eval (env : Env) : ∀ (fs : List (Factor α)) (acc pc : Factor α) (a : α),
    fs.foldl (fun acc g => acc.bind (mulF (srOps α) · g)) (some acc) = some pc →
    acc.eval env = some a → Covers env acc.inputs →
    (∀ f ∈ fs, f.eval env = some (ev f env) ∧ Covers env f.inputs) →
    pc.eval env = some (a * (fs.map (ev · env)).prod) ∧ Covers env pc.inputs
  | [], acc, pc, a, h, ha, hca, _ => by
    simp at h; subst h; simp [ha, hca]
  | g :: fs, acc, pc, a, h, ha, hca, hfs => by
    simp only [List.foldl_cons, Option.bind_some] at h
    cases hm : mulF (srOps α) acc g with
    | none =>
      rw [hm] at h
      have : ∀ l : List (Factor α), l.foldl (fun acc g => acc.bind (mulF (srOps α) · g)) none = none := by
        intro l; induction l with
        | nil => rfl
        | cons x l ih => simpa using ih
      rw [this] at h; exact absurd h (by simp)
    | some c =>
      rw [hm] at h
      obtain ⟨hg, hcg⟩ := hfs g List.mem_cons_self
      have hcc : Covers env c.inputs := by rw [mulF_inputs hm]; exact covers_mulF hca hcg
      have hce : c.eval env = some (a * ev g env) := by
        rw [mulF_eval _ acc g c hm env (by rw [← mulF_inputs hm]; exact hcc), ha, hg]
        rfl
      obtain ⟨h1, h2⟩ := foldl_mulF_eval env fs c pc (a * ev g env) h hce hcc
        (fun f hf => hfs f (List.mem_cons_of_mem _ hf))
      refine ⟨?_, h2⟩
      rw [h1]; simp [mul_assoc]

/-- `reduce(prod_op, group)` is the product of the group's values -/
theorem prodAll_eval (env : Env) (fs : List (Factor α)) (pc : Factor α)
    (h : prodAll (srOps α) fs = some pc)
    (hfs : ∀ f ∈ fs, f.eval env = some (ev f env) ∧ Covers env f.inputs) :
    pc.eval env = some (fs.map (ev · env)).prod ∧ Covers env pc.inputs := by
  cases fs with
  | nil =>
    simp [prodAll, unitF] at h; subst h
    exact ⟨by simp [Factor.eval, ravel, srOps], by intro p hp; simp at hp⟩
  | cons f fs =>
    obtain ⟨hf, hcf⟩ := hfs f List.mem_cons_self
    obtain ⟨h1, h2⟩ := foldl_mulF_eval env fs f pc (ev f env) h hf hcf
      (fun g hg => hfs g (List.mem_cons_of_mem _ hg))
    exact ⟨by rw [h1]; simp, h2⟩

/-! ### covering facts -/

/-- same name ⇒ same size -/
def SizeFun (vs : List (Name × Nat)) : Prop := ∀ p ∈ vs, ∀ q ∈ vs, p.1 = q.1 → p.2 = q.2

theorem sizesConsistent_spec {fs : List (Factor α)} (h : sizesConsistent fs = true) :
    SizeFun (fs.flatMap (·.inputs)) := by
  intro p hp q hq hpq
  simp only [sizesConsistent, List.all_eq_true, beq_iff_eq] at h
  have h1 := h p hp
  have h2 := h q hq
  rw [hpq, h2] at h1
  exact (Option.some.inj h1).symm

theorem foldl_mulF_inputs_mem (o : Ops α) (p : Name × Nat) : ∀ (fs : List (Factor α)) (acc pc : Factor α),
    fs.foldl (fun acc g => acc.bind (mulF o · g)) (some acc) = some pc → p ∈ pc.inputs →
    p ∈ acc.inputs ∨ ∃ f ∈ fs, p ∈ f.inputs
  | [], acc, pc, h, hp => by simp at h; subst h; exact Or.inl hp
  | g :: fs, acc, pc, h, hp => by
    simp only [List.foldl_cons, Option.bind_some] at h
    cases hm : mulF o acc g with
    | none =>
      rw [hm] at h
      have : ∀ l : List (Factor α), l.foldl (fun acc g => acc.bind (mulF o · g)) none = none := by
        intro l; induction l with
        | nil => rfl
        | cons x l ih => simpa using ih
      rw [this] at h; exact absurd h (by simp)
    | some c =>
      rw [hm] at h
      rcases foldl_mulF_inputs_mem o p fs c pc h hp with hc | ⟨f, hf, hpf⟩
      · rw [mulF_inputs hm] at hc
        rcases List.mem_append.1 hc with hc | hc
        · exact Or.inl hc
        · exact Or.inr ⟨g, List.mem_cons_self, (List.mem_filter.1 hc).1⟩
      · exact Or.inr ⟨f, List.mem_cons_of_mem _ hf, hpf⟩

theorem prodAll_inputs_mem (o : Ops α) (fs : List (Factor α)) (pc : Factor α)
    (h : prodAll o fs = some pc) (p : Name × Nat) (hp : p ∈ pc.inputs) : ∃ f ∈ fs, p ∈ f.inputs := by
  cases fs with
  | nil => simp [prodAll, unitF] at h; subst h; simp at hp
  | cons f fs =>
    rcases foldl_mulF_inputs_mem o p fs f pc h hp with h1 | ⟨g, hg, hpg⟩
    · exact ⟨f, List.mem_cons_self, h1⟩
    · exact ⟨g, List.mem_cons_of_mem _ hg, hpg⟩

/-- a point of `vs` covers `vs` when sizes are a function of names -/
theorem covers_points : ∀ (vs : List (Name × Nat)) (r : Env), SizeFun vs → r ∈ points vs → Covers r vs
  | [], r, _, _ => by intro p hp; simp at hp
  | (n, s) :: vs, r, hsf, hr => by
    simp only [points, List.mem_flatMap, List.mem_map, List.mem_range] at hr
    obtain ⟨x, hx, e, he, rfl⟩ := hr
    have hsf' : SizeFun vs := fun p hp q hq => hsf p (List.mem_cons_of_mem _ hp) q (List.mem_cons_of_mem _ hq)
    have ih := covers_points vs e hsf' he
    intro p hp
    rw [List.lookup_cons]
    by_cases hpn : p.1 = n
    · have : p.2 = s := hsf p hp (n, s) List.mem_cons_self hpn
      refine ⟨x, by simp [hpn], by rw [this]; exact hx⟩
    · have hne : (p.1 == n) = false := by simpa using hpn
      rw [hne]
      rcases List.mem_cons.1 hp with rfl | hp'
      · exact absurd rfl hpn
      · exact ih p hp'

theorem lookup_none_of_not_mem : ∀ (vs : List (Name × Nat)) (r : Env) (n : Name),
    r ∈ points vs → n ∉ vs.map (·.1) → r.lookup n = none
  | [], r, n, hr, _ => by simp [points] at hr; subst hr; rfl
  | (m, s) :: vs, r, n, hr, hn => by
    simp only [points, List.mem_flatMap, List.mem_map] at hr
    obtain ⟨x, _, e, he, rfl⟩ := hr
    simp only [List.map_cons, List.mem_cons, not_or] at hn
    rw [List.lookup_cons]
    have : (n == m) = false := by simpa using hn.1
    rw [this]
    exact lookup_none_of_not_mem vs e n he hn.2

theorem covers_append_left {r env : Env} {vs : List (Name × Nat)} (h : Covers r vs) :
    Covers (r ++ env) vs := by
  intro p hp
  obtain ⟨x, hx, hlt⟩ := h p hp
  exact ⟨x, by rw [List.lookup_append, hx]; rfl, hlt⟩

/-- the sized variables a component sums: those inputs of its product named in `V` -/
def redOf (pc : Factor α) (V : List Name) : List (Name × Nat) :=
  pc.inputs.filter fun p => V.contains p.1

/-- **Value of one component's result**: `Σ_{r : points of the summed inputs} Π_{f ∈ group} f (r ++ env)`. -/
theorem compRes_eval (elim : List Name) (grp : List (Factor α) × List Name) (g pc : Factor α)
    (hpc : prodAll (srOps α) grp.1 = some pc)
    (hg : ∃ fc, sumOut (srOps α) pc (inter grp.2 elim) = some fc ∧ prodOut (srOps α) fc [] = some g)
    (env : Env)
    (hkeep : Covers env (pc.inputs.filter fun p => !(inter grp.2 elim).contains p.1))
    (H : ∀ r ∈ points (redOf pc (inter grp.2 elim)), ∀ f ∈ grp.1,
      f.eval (r ++ env) = some (ev f (r ++ env)) ∧ Covers (r ++ env) f.inputs) :
    g.eval env = some (((points (redOf pc (inter grp.2 elim))).map fun r =>
      (grp.1.map (ev · (r ++ env))).prod).sum) := by
  obtain ⟨fc, hfc, hgo⟩ := hg
  have hfcin := reduceF_inputs hfc
  have hfce : fc.eval env = some (((points (redOf pc (inter grp.2 elim))).map fun r =>
      (grp.1.map (ev · (r ++ env))).prod).sum) := by
    unfold sumOut at hfc
    rw [reduceF_eval _ _ pc fc _ hfc env hkeep]
    have : ((points (pc.inputs.filter fun p => (inter grp.2 elim).contains p.1)).map
        fun r => pc.eval (r ++ env))
        = ((points (redOf pc (inter grp.2 elim))).map fun r =>
            (grp.1.map (ev · (r ++ env))).prod).map some := by
      rw [List.map_map]
      refine List.map_congr_left fun r hr => ?_
      exact (prodAll_eval (r ++ env) grp.1 pc hpc (H r hr)).1
    rw [this]
    exact foldOpt_add_some _
  unfold prodOut at hgo
  have hc' : Covers env (fc.inputs.filter fun p => !([] : List Name).contains p.1) := by
    intro p hp
    have hp' := (List.mem_filter.1 hp).1
    rw [hfcin] at hp'
    exact hkeep p hp'
  rw [reduceF_eval _ _ fc g _ hgo env hc']
  have hnil : (fc.inputs.filter fun p => ([] : List Name).contains p.1) = [] := by simp
  rw [hnil]
  simp only [points, List.map_cons, List.map_nil, List.nil_append, hfce]
  simp [foldOpt, srOps]

end Values
section Alg
set_option linter.unusedSectionVars false
variable {α : Type} [CommSemiring α]

theorem sum_flatMap' {β : Type} (l : List β) (f : β → List α) :
    (l.flatMap f).sum = (l.map fun x => (f x).sum).sum := by
  induction l with
  | nil => simp
  | cons x l ih => simp [List.flatMap_cons, ih]

theorem points_append : ∀ (a b : List (Name × Nat)),
    points (a ++ b) = (points a).flatMap fun ea => (points b).map fun eb => ea ++ eb
  | [], b => by simp [points]
  | (n, s) :: a, b => by
    simp only [List.cons_append, points, points_append a b, List.flatMap_assoc, List.map_flatMap,
      List.flatMap_map, List.map_map, Function.comp_def, List.cons_append]

theorem sum_points_append (a b : List (Name × Nat)) (F : Env → α) :
    ((points (a ++ b)).map F).sum
      = ((points a).map fun ea => ((points b).map fun eb => F (ea ++ eb)).sum).sum := by
  rw [points_append, List.map_flatMap, sum_flatMap']
  simp [List.map_map, Function.comp_def]

theorem sum_map_sum_comm {β γ : Type} (l1 : List β) (l2 : List γ) (g : β → γ → α) :
    (l1.map fun x => (l2.map (g x)).sum).sum = (l2.map fun y => (l1.map (g · y)).sum).sum := by
  induction l1 with
  | nil => simp
  | cons x l1 ih => simp [ih, List.sum_map_add]

/-- `F` only depends on what the environment answers to lookups -/
def LookupInv (F : Env → α) : Prop := ∀ e e' : Env, (∀ m, e.lookup m = e'.lookup m) → F e = F e'

theorem lookupInv_cons {F : Env → α} (h : LookupInv F) (n : Name) (x : Nat) :
    LookupInv fun e => F ((n, x) :: e) := by
  intro e e' hl
  apply h
  intro m
  simp only [List.lookup_cons]
  split
  · rfl
  · exact hl m

/-- The sum over all points does not depend on the order of the variables. -/
theorem sum_points_perm {vs vs' : List (Name × Nat)} (hp : vs.Perm vs') :
    (vs.map (·.1)).Nodup → ∀ F : Env → α, LookupInv F →
      ((points vs).map F).sum = ((points vs').map F).sum := by
  induction hp with
  | nil => intro _ F _; rfl
  | cons p hperm ih =>
    intro hnd F hF
    obtain ⟨n, s⟩ := p
    simp only [List.map_cons, List.nodup_cons] at hnd
    simp only [points, List.map_flatMap, sum_flatMap', List.map_map, Function.comp_def]
    congr 1
    refine List.map_congr_left fun x _ => ?_
    exact ih hnd.2 _ (lookupInv_cons hF n x)
  | swap p q l =>
    intro hnd F hF
    obtain ⟨n, s⟩ := p
    obtain ⟨m, t⟩ := q
    simp only [List.map_cons, List.nodup_cons, List.mem_cons, not_or] at hnd
    have hne : m ≠ n := hnd.1.1
    simp only [points, List.map_flatMap, sum_flatMap', List.map_map, Function.comp_def]
    rw [sum_map_sum_comm]
    refine congrArg List.sum (List.map_congr_left fun x _ => congrArg List.sum
      (List.map_congr_left fun y _ => congrArg List.sum (List.map_congr_left fun e _ => ?_)))
    apply hF
    intro k
    simp only [List.lookup_cons]
    by_cases hkn : k = n
    · subst hkn
      have : (k == m) = false := by simpa using fun h => hne h.symm
      simp [this]
    · have : (k == n) = false := by simpa using hkn
      simp [this]
  | trans h1 h2 ih1 ih2 =>
    intro hnd F hF
    have hnd2 := (h1.map (·.1)).nodup_iff.1 hnd
    exact (ih1 hnd F hF).trans (ih2 hnd2 F hF)

/-- `G` reads only the names in `N` -/
def Reads (G : Env → α) (N : List Name) : Prop :=
  ∀ e e' : Env, (∀ m ∈ N, e.lookup m = e'.lookup m) → G e = G e'

/-- a component, abstractly: the sized variables it sums, the names its factors mention, its value -/
structure Grp (α : Type) where
  red : List (Name × Nat)
  N : List Name
  G : Env → α

theorem lookup_append_skip {vs : List (Name × Nat)} {e1 : Env} (e2 : Env) {m : Name}
    (h1 : e1 ∈ points vs) (hm : m ∉ vs.map (·.1)) : (e1 ++ e2).lookup m = e2.lookup m := by
  rw [List.lookup_append, lookup_none_of_not_mem vs e1 m h1 hm]; rfl

/-- **Independence of components, list form**: the product over the components of their local sums is
    the single sum, over the points of all summed variables together, of the product of everything. -/
theorem prod_sum_groups (fenv : Env) : ∀ (gs : List (Grp α)),
    (∀ g ∈ gs, Reads g.G g.N) →
    gs.Pairwise (fun a b => (∀ m ∈ a.N, m ∉ b.red.map (·.1)) ∧ (∀ m ∈ b.N, m ∉ a.red.map (·.1))) →
    (gs.map fun g => ((points g.red).map fun r => g.G (r ++ fenv)).sum).prod
      = ((points (gs.flatMap (·.red))).map fun e => (gs.map fun g => g.G (e ++ fenv)).prod).sum
  | [], _, _ => by simp [points]
  | g :: gs, hR, hP => by
    rw [List.pairwise_cons] at hP
    have ih := prod_sum_groups fenv gs (fun g' hg' => hR g' (List.mem_cons_of_mem _ hg')) hP.2
    simp only [List.map_cons, List.prod_cons, List.flatMap_cons]
    rw [sum_points_append, ih, ← List.sum_map_mul_right]
    refine congrArg List.sum (List.map_congr_left fun e1 he1 => ?_)
    rw [← List.sum_map_mul_left]
    refine congrArg List.sum (List.map_congr_left fun e2 he2 => ?_)
    congr 1
    · -- the component itself does not read the other components' variables
      refine hR g List.mem_cons_self _ _ fun m hm => ?_
      have hnot : m ∉ (gs.flatMap (·.red)).map (·.1) := by
        intro hmem
        obtain ⟨p, hp, hpm⟩ := List.mem_map.1 hmem
        obtain ⟨g', hg', hpg'⟩ := List.mem_flatMap.1 hp
        exact (hP.1 g' hg').1 m hm (List.mem_map.2 ⟨p, hpg', hpm⟩)
      rw [List.append_assoc, List.lookup_append, List.lookup_append (l₁ := e1),
        lookup_append_skip fenv he2 hnot]
    · refine congrArg List.prod (List.map_congr_left fun g' hg' => ?_)
      refine hR g' (List.mem_cons_of_mem _ hg') _ _ fun m hm => ?_
      rw [List.append_assoc]
      exact (lookup_append_skip _ he1 ((hP.1 g' hg').2 m hm)).symm
end Alg


/-! ## the oracle without plates, in closed form -/

section Oracle
set_option linter.unusedSectionVars false
variable {α : Type} [CommSemiring α]

/-- accumulated assignments `sumCopies` runs through (most recent first) -/
def asgs {K : Type} : List (K × Nat) → List (List (K × Nat))
  | [] => [[]]
  | (k, sz) :: rest => (List.range sz).flatMap fun x => (asgs rest).map fun a => a ++ [(k, x)]

theorem sumCopies_pure (body : List ((Name × Env) × Nat) → Option α)
    (B : List ((Name × Env) × Nat) → α) :
    ∀ (cs X : List ((Name × Env) × Nat)), (∀ a ∈ asgs cs, body (a ++ X) = some (B (a ++ X))) →
      sumCopies (srOps α) body cs X = some (((asgs cs).map fun a => B (a ++ X)).sum)
  | [], X, h => by
    simp only [sumCopies, asgs, List.map_cons, List.map_nil, List.sum_cons, List.sum_nil, add_zero]
    simpa using h [] (by simp [asgs])
  | (k, sz) :: rest, X, h => by
    have ih : ∀ x ∈ List.range sz, sumCopies (srOps α) body rest ((k, x) :: X)
        = some (((asgs rest).map fun a => B (a ++ (k, x) :: X)).sum) := by
      intro x hx
      refine sumCopies_pure body B rest ((k, x) :: X) fun a ha => ?_
      have := h (a ++ [(k, x)]) (by
        simp only [asgs, List.mem_flatMap, List.mem_map]
        exact ⟨x, hx, a, ha, rfl⟩)
      simpa [List.append_assoc] using this
    simp only [sumCopies, asgs]
    have : ((List.range sz).map fun x => sumCopies (srOps α) body rest ((k, x) :: X))
        = ((List.range sz).map fun x => ((asgs rest).map fun a => B (a ++ (k, x) :: X)).sum).map some := by
      rw [List.map_map]
      exact List.map_congr_left ih
    show foldOpt (· + ·) 0 _ = _
    rw [this, foldOpt_add_some, List.map_flatMap, sum_flatMap']
    simp [List.map_map, Function.comp_def, List.append_assoc]

/-- from a point of the variables to the accumulated assignment of their (single) copies -/
def conv (e : Env) : List ((Name × Env) × Nat) := (e.map fun p => ((p.1, ([] : Env)), p.2)).reverse

theorem sum_asgs_eq_points : ∀ (vs : List (Name × Nat)) (F : List ((Name × Env) × Nat) → α),
    ((asgs (vs.map fun p => ((p.1, ([] : Env)), p.2))).map F).sum = ((points vs).map fun e => F (conv e)).sum
  | [], F => by simp [asgs, points, conv]
  | (v, s) :: vs, F => by
    simp only [List.map_cons, asgs, points, List.map_flatMap, sum_flatMap', List.map_map,
      Function.comp_def]
    refine congrArg List.sum (List.map_congr_left fun x _ => ?_)
    have := sum_asgs_eq_points vs (fun a => F (a ++ [((v, ([] : Env)), x)]))
    rw [this]
    simp [conv]

theorem lookup_map_key (e : Env) (n : Name) :
    (e.map fun p => ((p.1, ([] : Env)), p.2)).lookup (n, ([] : Env)) = e.lookup n := by
  induction e with
  | nil => rfl
  | cons p e ih =>
    obtain ⟨m, x⟩ := p
    simp only [List.map_cons, List.lookup_cons, ih]
    by_cases h : n = m
    · simp [h]
    · have h1 : (n == m) = false := by simpa using h
      have h2 : ((n, ([] : Env)) == (m, ([] : Env))) = false := by
        simp [h]
      rw [h1, h2]

theorem lookup_reverse_nodup {K V : Type} [BEq K] [LawfulBEq K] : ∀ (l : List (K × V)) (k : K),
    (l.map (·.1)).Nodup → l.reverse.lookup k = l.lookup k
  | [], k, _ => rfl
  | (ak, av) :: l, k, h => by
    simp only [List.map_cons, List.nodup_cons] at h
    rw [List.reverse_cons, List.lookup_append, lookup_reverse_nodup l k h.2, List.lookup_cons]
    by_cases hk : k = ak
    · subst hk
      have : l.lookup k = none := by
        rw [List.lookup_eq_none_iff]
        intro p hp
        have : k ≠ p.1 := fun hkp => h.1 (List.mem_map.2 ⟨p, hp, hkp.symm⟩)
        simpa using this
      simp [this]
    · have : (k == ak) = false := by simpa using hk
      simp [this, List.lookup_cons]

theorem lookup_conv (e : Env) (n : Name) (hnd : (e.map (·.1)).Nodup) :
    (conv e).lookup (n, ([] : Env)) = e.lookup n := by
  unfold conv
  rw [lookup_reverse_nodup, lookup_map_key]
  rw [List.map_map]
  have : ((fun x : (Name × Env) × Nat => x.1) ∘ fun p : Name × Nat => ((p.1, ([] : Env)), p.2))
      = fun p : Name × Nat => (p.1, ([] : Env)) := rfl
  rw [this]
  have hinj : Function.Injective (fun n : Name => (n, ([] : Env))) := fun a b h => (Prod.mk.inj h).1
  have := List.Nodup.map hinj hnd
  simpa [List.map_map, Function.comp_def] using this

theorem foldl_mul_sizes : ∀ (l : List Nat) (a : Nat), l.foldl (· * ·) a = a * l.foldr (· * ·) 1
  | [], a => by simp
  | x :: l, a => by simp [foldl_mul_sizes l, Nat.mul_assoc]

/-- a well-formed table is defined at every environment covering its inputs -/
theorem eval_some (f : Factor α) (hwf : wellFormed f = true) (env : Env) (hc : Covers env f.inputs) :
    f.eval env = some (ev f env) := by
  obtain ⟨i, hi1, hi2, _⟩ := ravel_spec env f.inputs 0 hc
  have hlen : f.data.length = sizeOfInputs f.inputs := by
    simp only [wellFormed, Bool.and_eq_true, beq_iff_eq] at hwf
    rw [hwf.1, foldl_mul_sizes]; simp [sizeOfInputs]
  simp only [ev, Factor.eval, hi1, Nat.zero_mul, Nat.zero_add]
  have : i < f.data.length := by rw [hlen]; exact hi2
  rw [List.getElem?_eq_getElem this]; rfl

theorem points_names : ∀ (vs : List (Name × Nat)) (e : Env), e ∈ points vs → e.map (·.1) = vs.map (·.1)
  | [], e, he => by simp [points] at he; subst he; rfl
  | (n, s) :: vs, e, he => by
    simp only [points, List.mem_flatMap, List.mem_map] at he
    obtain ⟨x, _, e', he', rfl⟩ := he
    simp [points_names vs e' he']

theorem mapM_pointOf (g : Name × Nat → Option (Name × Nat)) (env : Env) : ∀ (l : List (Name × Nat)),
    (∀ p ∈ l, g p = (env.lookup p.1).map fun x => (p.1, x)) → Covers env l →
    l.mapM g = some (pointOf env l)
  | [], _, _ => rfl
  | p :: l, hg, hc => by
    obtain ⟨x, hx, _⟩ := hc p List.mem_cons_self
    have ih := mapM_pointOf g env l (fun q hq => hg q (List.mem_cons_of_mem _ hq))
      (fun q hq => hc q (List.mem_cons_of_mem _ hq))
    rw [List.mapM_cons, hg p List.mem_cons_self, hx, ih]
    simp [pointOf, hx]

/-- Without plates every factor has one instance, and its value at the accumulated assignment `conv e`
    of the single copies is the factor at `e ++ fenv`. -/
theorem instProd_noplates (fs : List (Factor α)) (O : List (Name × List Name)) (rep : Name → Nat)
    (fenv e : Env) (vs : List (Name × Nat))
    (hO : ∀ n, (O.lookup n).isSome = true ↔ n ∈ vs.map (·.1))
    (he : e ∈ points vs) (hnd : (vs.map (·.1)).Nodup)
    (hwf : ∀ f ∈ fs, wellFormed f = true) (hcov : ∀ f ∈ fs, Covers (e ++ fenv) f.inputs) :
    instProd (srOps α) fs [] O rep fenv (conv e ++ []) = some ((fs.map (ev · (e ++ fenv))).prod) := by
  unfold instProd
  simp only [ordOf_nil, List.map_nil, points, List.map_cons, List.append_nil]
  have hend : (e.map (·.1)).Nodup := by rw [points_names vs e he]; exact hnd
  have hone : ∀ f ∈ fs,
      ((f.inputs.mapM fun x : Name × Nat =>
        if ([] : List Name).contains x.1 then (([] : Env).lookup x.1).map fun y => (x.1, y % x.2)
        else match O.lookup x.1 with
          | some on => ((conv e).lookup (x.1, ([] : Env).filter fun q => on.contains q.1)).map fun y => (x.1, y)
          | none => (fenv.lookup x.1).map fun y => (x.1, y)).bind f.eval)
      = some (ev f (e ++ fenv)) := by
    intro f hf
    have hm := mapM_pointOf (fun x : Name × Nat =>
        if ([] : List Name).contains x.1 then (([] : Env).lookup x.1).map fun y => (x.1, y % x.2)
        else match O.lookup x.1 with
          | some on => ((conv e).lookup (x.1, ([] : Env).filter fun q => on.contains q.1)).map fun y => (x.1, y)
          | none => (fenv.lookup x.1).map fun y => (x.1, y)) (e ++ fenv) f.inputs ?_ (hcov f hf)
    · rw [hm, Option.bind_some]
      rw [eval_congr f (pointOf (e ++ fenv) f.inputs) (e ++ fenv)
        (fun p hp => lookup_pointOf (e ++ fenv) f.inputs (hcov f hf) p.1 (List.mem_map.2 ⟨p, hp, rfl⟩))]
      exact eval_some f (hwf f hf) _ (hcov f hf)
    · intro p _
      simp only [List.contains_nil, Bool.false_eq_true, if_false, List.filter_nil]
      cases hl : O.lookup p.1 with
      | some on =>
        have hmem : p.1 ∈ vs.map (·.1) := (hO p.1).1 (by rw [hl]; rfl)
        have hsome := mem_points_lookup vs e he p.1 hmem
        rw [lookup_conv e p.1 hend, List.lookup_append]
        cases hx : e.lookup p.1 with
        | none => rw [hx] at hsome; simp at hsome
        | some x => simp
      | none =>
        have hnot : p.1 ∉ vs.map (·.1) := fun hmem => by
          have := (hO p.1).2 hmem; rw [hl] at this; simp at this
        rw [List.lookup_append, lookup_none_of_not_mem vs e p.1 he hnot]
        rfl
  have : (fs.flatMap fun f => [(f.inputs.mapM fun x : Name × Nat =>
        if ([] : List Name).contains x.1 then (([] : Env).lookup x.1).map fun y => (x.1, y % x.2)
        else match O.lookup x.1 with
          | some on => ((conv e).lookup (x.1, ([] : Env).filter fun q => on.contains q.1)).map fun y => (x.1, y)
          | none => (fenv.lookup x.1).map fun y => (x.1, y)).bind f.eval])
      = (fs.map (ev · (e ++ fenv))).map some := by
    rw [List.map_map]
    induction fs with
    | nil => rfl
    | cons f fs ih =>
      simp only [List.flatMap_cons, List.map_cons, List.singleton_append]
      rw [hone f List.mem_cons_self]
      congr 1
      exact ih (fun g hg => hwf g (List.mem_cons_of_mem _ hg)) (fun g hg => hcov g (List.mem_cons_of_mem _ hg))
        (fun g hg => hone g (List.mem_cons_of_mem _ hg))
  refine Eq.trans (congrArg (foldOpt (· * ·) (1 : α))
    (?_ : _ = (fs.map (ev · (e ++ fenv))).map some)) (foldOpt_mul_some _)
  exact this

theorem mem_asgs_conv : ∀ (vs : List (Name × Nat)) (a : List ((Name × Env) × Nat)),
    a ∈ asgs (vs.map fun p => ((p.1, ([] : Env)), p.2)) → ∃ e ∈ points vs, a = conv e
  | [], a, h => by
    simp [asgs] at h; subst h; exact ⟨[], by simp [points], rfl⟩
  | (v, s) :: vs, a, h => by
    simp only [List.map_cons, asgs, List.mem_flatMap, List.mem_map] at h
    obtain ⟨x, hx, a', ha', rfl⟩ := h
    obtain ⟨e', he', rfl⟩ := mem_asgs_conv vs a' ha'
    refine ⟨(v, x) :: e', ?_, by simp [conv]⟩
    simp only [points, List.mem_flatMap, List.mem_map]
    exact ⟨x, hx, e', he', rfl⟩

/-- **The oracle without plates, closed form**: the sum over all points of the summed variables of the
    product of all factors. -/
theorem sumCopies_noplates (fs : List (Factor α)) (O : List (Name × List Name)) (rep : Name → Nat)
    (fenv : Env) (vs : List (Name × Nat))
    (hO : ∀ n, (O.lookup n).isSome = true ↔ n ∈ vs.map (·.1)) (hnd : (vs.map (·.1)).Nodup)
    (hwf : ∀ f ∈ fs, wellFormed f = true)
    (hcov : ∀ e ∈ points vs, ∀ f ∈ fs, Covers (e ++ fenv) f.inputs) :
    sumCopies (srOps α) (instProd (srOps α) fs [] O rep fenv)
        (vs.map fun p => ((p.1, ([] : Env)), p.2)) []
      = some (((points vs).map fun e => (fs.map (ev · (e ++ fenv))).prod).sum) := by
  have hB : ∀ e ∈ points vs, instProd (srOps α) fs [] O rep fenv (conv e ++ [])
      = some ((fs.map (ev · (e ++ fenv))).prod) :=
    fun e he => instProd_noplates fs O rep fenv e vs hO he hnd hwf (hcov e he)
  rw [sumCopies_pure _ (fun X => (instProd (srOps α) fs [] O rep fenv X).getD 0)]
  · rw [sum_asgs_eq_points vs (fun a => (instProd (srOps α) fs [] O rep fenv (a ++ [])).getD 0)]
    congr 2
    refine List.map_congr_left fun e he => ?_
    rw [hB e he]; rfl
  · intro a ha
    obtain ⟨e, he, rfl⟩ := mem_asgs_conv vs a ha
    rw [hB e he]; rfl

/-! ### `sset` is strictly sorted, hence duplicate-free -/

theorem ins_sorted (x : Name) : ∀ l : List Name, l.Pairwise (· < ·) → (ins x l).Pairwise (· < ·)
  | [], _ => by simp [ins]
  | y :: ys, h => by
    rw [List.pairwise_cons] at h
    unfold ins
    split
    · rename_i hxy
      refine List.Pairwise.cons ?_ (List.Pairwise.cons h.1 h.2)
      intro z hz
      rcases List.mem_cons.1 hz with rfl | hz
      · exact hxy
      · exact lt_trans hxy (h.1 z hz)
    · split
      · exact List.Pairwise.cons h.1 h.2
      · rename_i hxy hne
        refine List.Pairwise.cons ?_ (ins_sorted x ys h.2)
        intro z hz
        rcases (mem_ins x z ys).1 hz with rfl | hz
        · rcases lt_trichotomy z y with hlt | heq | hgt
          · exact absurd hlt hxy
          · subst heq; simp at hne
          · exact hgt
        · exact h.1 z hz

theorem sset_sorted (l : List Name) : (sset l).Pairwise (· < ·) := by
  unfold sset
  have : ∀ (l acc : List Name), acc.Pairwise (· < ·) →
      (l.foldl (fun acc x => ins x acc) acc).Pairwise (· < ·) := by
    intro l
    induction l with
    | nil => intro acc h; exact h
    | cons x l ih => intro acc h; exact ih _ (ins_sorted x acc h)
  exact this l [] List.Pairwise.nil

theorem sset_nodup (l : List Name) : (sset l).Nodup :=
  (sset_sorted l).imp (fun h => ne_of_lt h)

/-- the summed variables that occur, with their sizes, in the oracle's order -/
def presentSized (fs : List (Factor α)) (elim : List Name) : List (Name × Nat) :=
  (presentVars fs elim).map fun v => (v, (sizeOf? fs v).getD 0)

theorem mapM_some {β γ : Type} (f : β → Option γ) (g : β → γ) : ∀ (l : List β),
    (∀ x ∈ l, f x = some (g x)) → l.mapM f = some (l.map g)
  | [], _ => rfl
  | x :: l, h => by
    rw [List.mapM_cons, h x List.mem_cons_self,
      mapM_some f g l (fun y hy => h y (List.mem_cons_of_mem _ hy))]
    rfl

theorem lookup_map_self {β : Type} (g : Name → β) (n : Name) : ∀ (l : List Name),
    ((l.map fun v => (v, g v)).lookup n).isSome = true ↔ n ∈ l
  | [] => by simp
  | v :: l => by
    simp only [List.map_cons, List.lookup_cons, List.mem_cons]
    by_cases h : n = v
    · simp [h]
    · have : (n == v) = false := by simpa using h
      rw [this]; simp only [lookup_map_self g n l, h, false_or]

theorem copies_noplates (sz rep : Name → Nat) : ∀ (l : List Name),
    ((l.map fun v => (v, ([] : List Name))).flatMap fun x =>
        (points (x.2.map fun p => (p, rep p))).map fun ctx => ((x.1, ctx), sz x.1))
      = (l.map fun v => (v, sz v)).map fun p => ((p.1, ([] : Env)), p.2)
  | [] => rfl
  | v :: l => by
    simp only [List.map_cons, List.flatMap_cons, copies_noplates sz rep l]
    simp [points]

theorem varOrdinals_noplates (fs : List (Factor α)) (elim : List Name) :
    varOrdinals ([] : List Name) (diff (sset elim) []) fs
      = (presentVars fs elim).map fun v => (v, ([] : List Name)) := by
  unfold varOrdinals presentVars
  refine List.map_congr_left fun v _ => ?_
  congr 1
  exact interAll_nils _ (by
    intro o ho; simp only [List.mem_map] at ho; obtain ⟨f, _, rfl⟩ := ho; exact ordOf_nil f)

/-- **`unroll` without plates** returns, at every free point, the sum over all points of the summed
    variables of the product of all factors. -/
theorem unroll_noplates (fs : List (Factor α)) (elim : List Name) (free : List (Name × Nat))
    (hg : (fs.all wellFormed && sizesConsistent fs) = true)
    (hcov : ∀ fenv ∈ points free, ∀ e ∈ points (presentSized fs elim), ∀ f ∈ fs,
      Covers (e ++ fenv) f.inputs) :
    unroll (srOps α) fs elim [] [] free = .ok ((points free).map fun fenv =>
      ((points (presentSized fs elim)).map fun e => (fs.map (ev · (e ++ fenv))).prod).sum) := by
  have hwf : ∀ f ∈ fs, wellFormed f = true := by
    simp only [Bool.and_eq_true, List.all_eq_true] at hg; exact hg.1
  unfold unroll
  simp only [hg, Bool.not_true, Bool.false_eq_true, if_false]
  have hP : sset (inter ([] : List Name) elim) = [] := rfl
  simp only [hP, varOrdinals_noplates]
  have hcop := copies_noplates (fun v => (sizeOf? fs v).getD 0)
    (fun p => (sizeOf? fs p).getD 0 * scaleOf ([] : List (Name × Nat)) p) (presentVars fs elim)
  have hm := mapM_some
    (fun fenv => sumCopies (srOps α)
      (instProd (srOps α) fs [] ((presentVars fs elim).map fun v => (v, ([] : List Name)))
        (fun p => (sizeOf? fs p).getD 0 * scaleOf ([] : List (Name × Nat)) p) fenv)
      ((presentSized fs elim).map fun p => ((p.1, ([] : Env)), p.2)) [])
    (fun fenv => ((points (presentSized fs elim)).map fun e => (fs.map (ev · (e ++ fenv))).prod).sum)
    (points free) (fun fenv hfenv => sumCopies_noplates fs _ _ fenv (presentSized fs elim)
      (fun n => by
        rw [lookup_map_self]
        simp [presentSized, List.map_map, Function.comp_def])
      (by
        simp only [presentSized, List.map_map, Function.comp_def, List.map_id']
        exact sset_nodup _)
      hwf (hcov fenv hfenv))
  simp only [presentSized] at hm hcop ⊢
  rw [show (fun x : Name × List Name => (points (x.2.map fun p =>
      (p, (sizeOf? fs p).getD 0 * scaleOf ([] : List (Name × Nat)) p))).map fun ctx =>
      ((x.1, ctx), (sizeOf? fs x.1).getD 0)) = _ from rfl] at hcop
  rw [hcop, hm]
end Oracle


/-! ## assembling the non-plated case -/

section Final
set_option linter.unusedSectionVars false
variable {α : Type} [CommSemiring α]

theorem sizeOf_spec {fs : List (Factor α)} (h : sizesConsistent fs = true) {f : Factor α} (hf : f ∈ fs)
    {p : Name × Nat} (hp : p ∈ f.inputs) : sizeOf? fs p.1 = some p.2 := by
  simp only [sizesConsistent, List.all_eq_true, beq_iff_eq] at h
  exact h p (List.mem_flatMap.2 ⟨f, hf, hp⟩)

theorem presentVars_mem (fs : List (Factor α)) (elim : List Name) (n : Name) :
    n ∈ presentVars fs elim ↔ (∃ f ∈ fs, f.has n = true) ∧ n ∈ elim := by
  unfold presentVars
  rw [mem_sset, List.mem_filter, List.mem_flatMap]
  constructor
  · rintro ⟨⟨f, hf, hn⟩, hc⟩
    refine ⟨⟨f, hf, by simpa [Factor.has] using hn⟩, ?_⟩
    have : n ∈ diff (sset elim) [] := by simpa using hc
    exact (mem_sset n elim).1 ((mem_diff n _ _).1 this).1
  · rintro ⟨⟨f, hf, hn⟩, he⟩
    refine ⟨⟨f, hf, by simpa [Factor.has] using hn⟩, ?_⟩
    have : n ∈ diff (sset elim) [] := (mem_diff n _ _).2 ⟨(mem_sset n elim).2 he, by simp⟩
    simpa using this

theorem prod_flatMap' {β : Type} (l : List β) (f : β → List α) :
    (l.flatMap f).prod = (l.map fun x => (f x).prod).prod := by
  induction l with
  | nil => simp
  | cons x l ih => simp [List.flatMap_cons, ih]

theorem sizeFun_of_nodup {vs : List (Name × Nat)} (h : (vs.map (·.1)).Nodup) : SizeFun vs := by
  intro p hp q hq hpq
  have := List.inj_on_of_nodup_map h hp hq hpq
  rw [this]

/-- in a component, a name of one of its factors is summed with it iff it is eliminated -/
theorem mem_V_iff (fs : List (Factor α)) (elim : List Name) (grp : List (Factor α) × List Name)
    (hgrp : grp ∈ partition (presentVars fs elim) fs.length fs) (f : Factor α) (hf : f ∈ grp.1)
    (n : Name) (hn : f.has n = true) : n ∈ inter grp.2 elim ↔ n ∈ elim := by
  rw [mem_inter]
  refine ⟨fun h => h.2, fun he => ⟨?_, he⟩⟩
  rw [partition_groupvars_spec _ _ _ grp hgrp, List.mem_filter]
  refine ⟨(presentVars_mem fs elim n).2 ⟨⟨f, partition_mem _ _ _ grp hgrp f hf, hn⟩, he⟩, ?_⟩
  exact List.any_eq_true.2 ⟨f, hf, hn⟩

theorem covers_mixed (elim : List Name) (free vs : List (Name × Nat)) (fenv r : Env) (f : Factor α)
    (hfree : ∀ p ∈ f.inputs, p.1 ∉ elim → p ∈ free) (hfenv : Covers fenv free)
    (hsf : SizeFun vs) (hr : r ∈ points vs)
    (h1 : ∀ p ∈ f.inputs, p.1 ∈ elim → p ∈ vs) (h2 : ∀ q ∈ vs, q.1 ∈ elim) :
    Covers (r ++ fenv) f.inputs := by
  intro p hp
  by_cases he : p.1 ∈ elim
  · exact covers_append_left (covers_points vs r hsf hr) p (h1 p hp he)
  · obtain ⟨x, hx, hlt⟩ := hfenv p (hfree p hp he)
    refine ⟨x, ?_, hlt⟩
    rw [lookup_append_skip fenv hr (fun hmem => ?_), hx]
    obtain ⟨q, hq, hqp⟩ := List.mem_map.1 hmem
    exact he (hqp ▸ h2 q hq)

/-- the sized variables summed with a component -/
def redOfGrp (elim : List Name) (grp : List (Factor α) × List Name) : List (Name × Nat) :=
  match prodAll (srOps α) grp.1 with
  | some pc => redOf pc (inter grp.2 elim)
  | none => []

/-- the value of a component at an environment -/
def valOfGrp (elim : List Name) (grp : List (Factor α) × List Name) (env : Env) : α :=
  ((points (redOfGrp elim grp)).map fun r => (grp.1.map (ev · (r ++ env))).prod).sum

theorem forall₂_map_eq {β γ δ : Type} {R : β → γ → Prop} {f : β → δ} {g : γ → δ} :
    ∀ {l₁ : List β} {l₂ : List γ}, List.Forall₂ R l₁ l₂ → (∀ a b, a ∈ l₁ → R a b → f a = g b) →
      l₁.map f = l₂.map g
  | _, _, List.Forall₂.nil, _ => rfl
  | _, _, List.Forall₂.cons h t, hfg => by
    simp only [List.map_cons]
    rw [hfg _ _ List.mem_cons_self h,
      forall₂_map_eq t (fun a b ha => hfg a b (List.mem_cons_of_mem _ ha))]

theorem forall₂_right_mem {β γ : Type} {R : β → γ → Prop} :
    ∀ {l₁ : List β} {l₂ : List γ}, List.Forall₂ R l₁ l₂ → ∀ b ∈ l₂, ∃ a ∈ l₁, R a b
  | _, _, List.Forall₂.nil, b, hb => by simp at hb
  | _, _, List.Forall₂.cons h t, b, hb => by
    rcases List.mem_cons.1 hb with rfl | hb
    · exact ⟨_, List.mem_cons_self, h⟩
    · obtain ⟨a, ha, hab⟩ := forall₂_right_mem t b hb
      exact ⟨a, List.mem_cons_of_mem _ ha, hab⟩

/-- **Value of a component's result at a free point.** -/
theorem compRes_value (fs : List (Factor α)) (elim : List Name) (free : List (Name × Nat))
    (hg : (fs.all wellFormed && sizesConsistent fs) = true)
    (hfree : ∀ f ∈ fs, ∀ p ∈ f.inputs, p.1 ∉ elim → p ∈ free) (hfreeSF : SizeFun free)
    (grp : List (Factor α) × List Name)
    (hgrp : grp ∈ partition (presentVars fs elim) fs.length fs) (g : Factor α)
    (hres : CompRes (srOps α) elim grp g) (fenv : Env) (hfenv : fenv ∈ points free) :
    g.eval fenv = some (valOfGrp elim grp fenv) ∧ Covers fenv g.inputs := by
  obtain ⟨pc, fc, hpc, hfc, hgo⟩ := hres
  have hwf : ∀ f ∈ fs, wellFormed f = true := by
    simp only [Bool.and_eq_true, List.all_eq_true] at hg; exact hg.1
  have hsc : sizesConsistent fs = true := by
    simp only [Bool.and_eq_true] at hg; exact hg.2
  have hcf : Covers fenv free := covers_points free fenv hfreeSF hfenv
  have hgfs : ∀ f ∈ grp.1, f ∈ fs := fun f hf => partition_mem _ _ _ grp hgrp f hf
  have hred : redOfGrp elim grp = redOf pc (inter grp.2 elim) := by simp [redOfGrp, hpc]
  -- inputs of the product that are not summed are free inputs
  have hkeep : Covers fenv (pc.inputs.filter fun p => !(inter grp.2 elim).contains p.1) := by
    intro p hp
    obtain ⟨hp1, hp2⟩ := List.mem_filter.1 hp
    obtain ⟨f, hf, hpf⟩ := prodAll_inputs_mem _ grp.1 pc hpc p hp1
    have hhas : f.has p.1 = true := (has_iff f p.1).2 ⟨p, hpf, rfl⟩
    have hnV : p.1 ∉ inter grp.2 elim := by simpa using hp2
    have hne : p.1 ∉ elim := fun he => hnV ((mem_V_iff fs elim grp hgrp f hf p.1 hhas).2 he)
    exact hcf p (hfree f (hgfs f hf) p hpf hne)
  have hsfred : SizeFun (redOf pc (inter grp.2 elim)) := by
    intro p hp q hq hpq
    obtain ⟨f, hf, hpf⟩ := prodAll_inputs_mem _ grp.1 pc hpc p (List.mem_filter.1 hp).1
    obtain ⟨f', hf', hqf'⟩ := prodAll_inputs_mem _ grp.1 pc hpc q (List.mem_filter.1 hq).1
    exact sizesConsistent_spec hsc p (List.mem_flatMap.2 ⟨f, hgfs f hf, hpf⟩) q
      (List.mem_flatMap.2 ⟨f', hgfs f' hf', hqf'⟩) hpq
  have H : ∀ r ∈ points (redOf pc (inter grp.2 elim)), ∀ f ∈ grp.1,
      f.eval (r ++ fenv) = some (ev f (r ++ fenv)) ∧ Covers (r ++ fenv) f.inputs := by
    intro r hr f hf
    have hc : Covers (r ++ fenv) f.inputs := by
      refine covers_mixed elim free _ fenv r f (hfree f (hgfs f hf)) hcf hsfred hr ?_ ?_
      · intro p hp he
        have hhas : f.has p.1 = true := (has_iff f p.1).2 ⟨p, hp, rfl⟩
        have hV := (mem_V_iff fs elim grp hgrp f hf p.1 hhas).2 he
        have hpch : pc.has p.1 = true := (prodAll_has _ p.1 grp.1 pc hpc).2 ⟨f, hf, hhas⟩
        obtain ⟨q, hq, hqp⟩ := (has_iff pc p.1).1 hpch
        obtain ⟨f', hf', hqf'⟩ := prodAll_inputs_mem _ grp.1 pc hpc q hq
        have hsz : q.2 = p.2 := sizesConsistent_spec hsc q
          (List.mem_flatMap.2 ⟨f', hgfs f' hf', hqf'⟩) p (List.mem_flatMap.2 ⟨f, hgfs f hf, hp⟩) hqp
        have hqeq : q = p := Prod.ext hqp hsz
        subst hqeq
        exact List.mem_filter.2 ⟨hq, by simpa using hV⟩
      · intro q hq
        have : q.1 ∈ inter grp.2 elim := by simpa using (List.mem_filter.1 hq).2
        exact ((mem_inter q.1 _ _).1 this).2
    exact ⟨eval_some f (hwf f (hgfs f hf)) _ hc, hc⟩
  refine ⟨?_, ?_⟩
  · rw [compRes_eval elim grp g pc hpc ⟨fc, hfc, hgo⟩ fenv hkeep H]
    simp [valOfGrp, hred]
  · intro p hp
    have h1 := reduceF_inputs hgo
    have h2 := reduceF_inputs hfc
    rw [h1] at hp
    have hp' := (List.mem_filter.1 hp).1
    rw [h2] at hp'
    exact hkeep p hp'

theorem redOfGrp_names (elim : List Name) (grp : List (Factor α) × List Name) (m : Name)
    (h : m ∈ (redOfGrp elim grp).map (·.1)) : m ∈ grp.2 := by
  unfold redOfGrp at h
  cases hpc : prodAll (srOps α) grp.1 with
  | none => simp [hpc] at h
  | some pc =>
    simp only [hpc, redOf, List.mem_map, List.mem_filter] at h
    obtain ⟨p, ⟨_, hp⟩, rfl⟩ := h
    have : p.1 ∈ inter grp.2 elim := by simpa using hp
    exact ((mem_inter _ _ _).1 this).1

theorem ev_congr (f : Factor α) (env env' : Env)
    (h : ∀ p ∈ f.inputs, env.lookup p.1 = env'.lookup p.1) : ev f env = ev f env' := by
  unfold ev; rw [eval_congr f env env' h]

/-- **Independence of components = the closed form of the oracle** (given that the summed variables of
    the components are, together, a rearrangement of the oracle's variables). -/
theorem groups_value_eq (fs : List (Factor α)) (elim : List Name) (fenv : Env)
    (hperm : (presentSized fs elim).Perm
      ((partition (presentVars fs elim) fs.length fs).flatMap (redOfGrp elim))) :
    ((partition (presentVars fs elim) fs.length fs).map (valOfGrp elim · fenv)).prod
      = ((points (presentSized fs elim)).map fun e => (fs.map (ev · (e ++ fenv))).prod).sum := by
  set groups := partition (presentVars fs elim) fs.length fs with hgroups
  let mk : List (Factor α) × List Name → Grp α := fun grp =>
    ⟨redOfGrp elim grp, grp.1.flatMap Factor.names, fun env => (grp.1.map (ev · env)).prod⟩
  have hL : (groups.map (valOfGrp elim · fenv)).prod
      = ((groups.map mk).map fun g => ((points g.red).map fun r => g.G (r ++ fenv)).sum).prod := by
    rw [List.map_map]; rfl
  have hReads : ∀ g ∈ groups.map mk, Reads g.G g.N := by
    intro g hg
    obtain ⟨grp, _, rfl⟩ := List.mem_map.1 hg
    intro e e' hl
    refine congrArg List.prod (List.map_congr_left fun f hf => ev_congr f e e' fun p hp => ?_)
    exact hl p.1 (List.mem_flatMap.2 ⟨f, hf, List.mem_map.2 ⟨p, hp, rfl⟩⟩)
  have hclosed := partition_closed (presentVars fs elim) fs.length fs (Nat.le_refl _)
  have hPair : (groups.map mk).Pairwise (fun a b =>
      (∀ m ∈ a.N, m ∉ b.red.map (·.1)) ∧ (∀ m ∈ b.N, m ∉ a.red.map (·.1))) := by
    rw [List.pairwise_map]
    refine List.Pairwise.imp_of_mem ?_ hclosed
    intro a b ha hb hab
    have key : ∀ (c d : List (Factor α) × List Name), c ∈ groups → d ∈ groups →
        (∀ f ∈ c.1, ∀ g ∈ d.1, sharesVar (presentVars fs elim) f g = false) →
        ∀ m ∈ c.1.flatMap Factor.names, m ∉ (redOfGrp elim d).map (·.1) := by
      intro c d _ hd hcd m hm hmem
      have hm2 := redOfGrp_names elim d m hmem
      rw [partition_groupvars_spec _ _ _ d hd, List.mem_filter] at hm2
      obtain ⟨g, hg, hgm⟩ := List.any_eq_true.1 hm2.2
      obtain ⟨f, hf, hfm⟩ := List.mem_flatMap.1 hm
      have hfm' : f.has m = true := by simpa [Factor.has] using hfm
      exact ((sharesVar_false_iff _ f g).1 (hcd f hf g hg) m hm2.1) ⟨hfm', hgm⟩
    refine ⟨key a b ha hb hab, key b a hb ha fun f hf g hg => ?_⟩
    rw [sharesVar_comm]; exact hab g hg f hf
  rw [hL, prod_sum_groups fenv (groups.map mk) hReads hPair]
  have hflat : (groups.map mk).flatMap (·.red) = groups.flatMap (redOfGrp elim) := by
    rw [List.flatMap_map]
  rw [hflat]
  have hF : LookupInv fun e : Env => (fs.map (ev · (e ++ fenv))).prod := by
    intro e e' hl
    refine congrArg List.prod (List.map_congr_left fun f _ => ev_congr f _ _ fun p _ => ?_)
    rw [List.lookup_append, List.lookup_append, hl]
  rw [sum_points_perm hperm (by
    simp only [presentSized, List.map_map, Function.comp_def, List.map_id']
    exact sset_nodup _) _ hF]
  refine congrArg List.sum (List.map_congr_left fun e _ => ?_)
  rw [List.map_map]
  have h1 : (groups.map ((fun g : Grp α => g.G (e ++ fenv)) ∘ mk)).prod
      = ((groups.flatMap (·.1)).map (ev · (e ++ fenv))).prod := by
    rw [List.map_flatMap, prod_flatMap']; rfl
  rw [h1]
  exact ((partition_perm (presentVars fs elim) fs.length fs (Nat.le_refl _)).map _).prod_eq

/-- **`sum_product_exact` for the EXECUTABLE model, non-plated case**: whenever `FV.C09.psp` (no plates)
    returns `rs` and their product table `R` is computed, the table of `R` over the free inputs is exactly
    what `FV.C09.unroll` returns — for every commutative semiring, every factor graph, every eliminate set.
    Hypotheses: `free` lists the non-eliminated inputs (with consistent sizes); `hperm`: the variables the
    components sum are together a rearrangement of the oracle's variables (decidable; see
    `reds_perm_present` in the file header for what its general proof needs). -/
theorem psp_noplates_exact (fs : List (Factor α)) (elim : List Name) (free : List (Name × Nat))
    (rs : List (Factor α)) (R : Factor α)
    (h : psp (srOps α) fs elim [] [] false false = .ok rs)
    (hR : prodAll (srOps α) rs = some R)
    (hfree : ∀ f ∈ fs, ∀ p ∈ f.inputs, p.1 ∉ elim → p ∈ free) (hfreeSF : SizeFun free)
    (hperm : (presentSized fs elim).Perm
      ((partition (presentVars fs elim) fs.length fs).flatMap (redOfGrp elim))) :
    unroll (srOps α) fs elim [] [] free = .ok ((points free).map (ev R)) ∧
      tableOver R free = some ((points free).map (ev R)) := by
  obtain ⟨hg, hF2⟩ := psp_noplates (srOps α) fs elim rs h
  have hsc : sizesConsistent fs = true := by
    simp only [Bool.and_eq_true] at hg; exact hg.2
  -- value of the product of the results at a free point
  have hRval : ∀ fenv ∈ points free,
      R.eval fenv = some (((points (presentSized fs elim)).map fun e =>
        (fs.map (ev · (e ++ fenv))).prod).sum) := by
    intro fenv hfenv
    have hvals : ∀ g ∈ rs, g.eval fenv = some (ev g fenv) ∧ Covers fenv g.inputs := by
      intro g hgm
      obtain ⟨grp, hgrp, hres⟩ := forall₂_right_mem hF2 g hgm
      obtain ⟨h1, h2⟩ := compRes_value fs elim free hg hfree hfreeSF grp hgrp g hres fenv hfenv
      exact ⟨by rw [h1]; simp [ev, h1], h2⟩
    rw [(prodAll_eval fenv rs R hR hvals).1]
    congr 1
    have hmap : (partition (presentVars fs elim) fs.length fs).map (valOfGrp elim · fenv)
        = rs.map (ev · fenv) := by
      refine forall₂_map_eq hF2 fun grp g hgrp hres => ?_
      have := (compRes_value fs elim free hg hfree hfreeSF grp hgrp g hres fenv hfenv).1
      simp [ev, this]
    rw [← hmap]
    exact groups_value_eq fs elim fenv hperm
  have hevR : ∀ fenv ∈ points free, ev R fenv = ((points (presentSized fs elim)).map fun e =>
      (fs.map (ev · (e ++ fenv))).prod).sum := by
    intro fenv hfenv; simp [ev, hRval fenv hfenv]
  refine ⟨?_, ?_⟩
  · rw [unroll_noplates fs elim free hg ?_]
    · congr 1
      exact List.map_congr_left fun fenv hfenv => (hevR fenv hfenv).symm
    · intro fenv hfenv e he f hf
      refine covers_mixed elim free _ fenv e f (hfree f hf)
        (covers_points free fenv hfreeSF hfenv) (sizeFun_of_nodup ?_) he ?_ ?_
      · simp only [presentSized, List.map_map, Function.comp_def, List.map_id']
        exact sset_nodup _
      · intro p hp hpe
        have hmem : p.1 ∈ presentVars fs elim :=
          (presentVars_mem fs elim p.1).2 ⟨⟨f, hf, (has_iff f p.1).2 ⟨p, hp, rfl⟩⟩, hpe⟩
        refine List.mem_map.2 ⟨p.1, hmem, ?_⟩
        rw [sizeOf_spec hsc hf hp]; rfl
      · intro q hq
        obtain ⟨v, hv, rfl⟩ := List.mem_map.1 hq
        exact ((presentVars_mem fs elim v).1 hv).2
  · unfold tableOver
    exact mapM_some _ _ _ fun fenv hfenv => by rw [hRval fenv hfenv, hevR fenv hfenv]
end Final

section PermSec
set_option linter.unusedSectionVars false
variable {α : Type} [CommSemiring α]

theorem length_eraseDups_le : ∀ (n : Nat) (l : List Name), l.length ≤ n → l.eraseDups.length ≤ l.length
  | 0, l, h => by
    have : l = [] := List.length_eq_zero_iff.1 (Nat.le_zero.1 h); subst this; simp
  | n + 1, [], _ => by simp
  | n + 1, a :: as, h => by
    rw [List.eraseDups_cons]
    have h1 := List.length_filter_le (fun b => !b == a) as
    have h2 := length_eraseDups_le n (as.filter fun b => !b == a) (by simp at h; omega)
    simp only [List.length_cons]; omega

theorem nodup_of_eraseDups_length : ∀ (n : Nat) (l : List Name), l.length ≤ n →
    l.eraseDups.length = l.length → l.Nodup
  | 0, l, h, _ => by
    have : l = [] := List.length_eq_zero_iff.1 (Nat.le_zero.1 h); subst this; simp
  | n + 1, [], _, _ => by simp
  | n + 1, a :: as, h, he => by
    rw [List.eraseDups_cons] at he
    have h1 := List.length_filter_le (fun b => !b == a) as
    have h2 := length_eraseDups_le _ (as.filter fun b => !b == a) (Nat.le_refl _)
    simp only [List.length_cons] at he
    have hfl : (as.filter fun b => !b == a).length = as.length := by omega
    have hfe : (as.filter fun b => !b == a) = as :=
      List.filter_eq_self.2 (List.length_filter_eq_length_iff.1 hfl)
    rw [hfe] at he
    have hnd := nodup_of_eraseDups_length n as (by simp at h; omega) (by omega)
    refine List.nodup_cons.2 ⟨fun hmem => ?_, hnd⟩
    have := List.filter_eq_self.1 hfe a hmem
    simp at this

theorem names_nodup_of_wf (f : Factor α) (h : wellFormed f = true) : f.names.Nodup := by
  simp only [wellFormed, Bool.and_eq_true, beq_iff_eq] at h
  exact nodup_of_eraseDups_length _ f.names (Nat.le_refl _) h.2

theorem mulF_names_nodup {o : Ops α} {a b c : Factor α} (h : mulF o a b = some c)
    (ha : a.names.Nodup) (hb : b.names.Nodup) : c.names.Nodup := by
  unfold Factor.names at *
  rw [mulF_inputs h, List.map_append, List.nodup_append]
  refine ⟨ha, (hb.sublist ((List.filter_sublist).map _)), ?_⟩
  intro x hx y hy hxy
  subst hxy
  obtain ⟨p, hp, rfl⟩ := List.mem_map.1 hy
  have hnot := (List.mem_filter.1 hp).2
  have : a.has p.1 = true := by simpa [Factor.has, Factor.names] using hx
  simp [this] at hnot

theorem foldl_mulF_names_nodup (o : Ops α) : ∀ (fs : List (Factor α)) (acc pc : Factor α),
    fs.foldl (fun acc g => acc.bind (mulF o · g)) (some acc) = some pc →
    acc.names.Nodup → (∀ f ∈ fs, f.names.Nodup) → pc.names.Nodup
  | [], acc, pc, h, ha, _ => by simp at h; subst h; exact ha
  | g :: fs, acc, pc, h, ha, hfs => by
    simp only [List.foldl_cons, Option.bind_some] at h
    cases hm : mulF o acc g with
    | none =>
      rw [hm] at h
      have : ∀ l : List (Factor α), l.foldl (fun acc g => acc.bind (mulF o · g)) none = none := by
        intro l; induction l with
        | nil => rfl
        | cons x l ih => simpa using ih
      rw [this] at h; exact absurd h (by simp)
    | some c =>
      rw [hm] at h
      exact foldl_mulF_names_nodup o fs c pc h
        (mulF_names_nodup hm ha (hfs g List.mem_cons_self))
        (fun f hf => hfs f (List.mem_cons_of_mem _ hf))

theorem prodAll_names_nodup (o : Ops α) (fs : List (Factor α)) (pc : Factor α)
    (h : prodAll o fs = some pc) (hfs : ∀ f ∈ fs, f.names.Nodup) : pc.names.Nodup := by
  cases fs with
  | nil => simp [prodAll, unitF] at h; subst h; simp [Factor.names]
  | cons f fs =>
    exact foldl_mulF_names_nodup o fs f pc h (hfs f List.mem_cons_self)
      (fun g hg => hfs g (List.mem_cons_of_mem _ hg))

/-- **`reds_perm_present`**: the inputs summed by the components, concatenated, are a rearrangement of
    the oracle's variables. -/
theorem reds_perm_present (fs : List (Factor α)) (elim : List Name)
    (hg : (fs.all wellFormed && sizesConsistent fs) = true)
    (hdef : ∀ grp ∈ partition (presentVars fs elim) fs.length fs,
      ∃ pc, prodAll (srOps α) grp.1 = some pc) :
    (presentSized fs elim).Perm
      ((partition (presentVars fs elim) fs.length fs).flatMap (redOfGrp elim)) := by
  have hwf : ∀ f ∈ fs, wellFormed f = true := by
    simp only [Bool.and_eq_true, List.all_eq_true] at hg; exact hg.1
  have hsc : sizesConsistent fs = true := by
    simp only [Bool.and_eq_true] at hg; exact hg.2
  set groups := partition (presentVars fs elim) fs.length fs with hgroups
  have hgfs : ∀ grp ∈ groups, ∀ f ∈ grp.1, f ∈ fs := fun grp hgrp f hf => partition_mem _ _ _ grp hgrp f hf
  have hndL : ((presentSized fs elim).map (·.1)).Nodup := by
    simp only [presentSized, List.map_map, Function.comp_def, List.map_id']
    exact sset_nodup _
  -- names of the right-hand side are duplicate-free
  have hndR : ((groups.flatMap (redOfGrp elim)).map (·.1)).Nodup := by
    rw [List.map_flatMap, List.nodup_flatMap]
    refine ⟨fun grp hgrp => ?_, ?_⟩
    · obtain ⟨pc, hpc⟩ := hdef grp hgrp
      have hnd := prodAll_names_nodup _ grp.1 pc hpc
        (fun f hf => names_nodup_of_wf f (hwf f (hgfs grp hgrp f hf)))
      simp only [redOfGrp, hpc, redOf]
      exact hnd.sublist ((List.filter_sublist).map _)
    · have hclosed := partition_closed (presentVars fs elim) fs.length fs (Nat.le_refl _)
      refine List.Pairwise.imp_of_mem ?_ hclosed
      intro a b ha hb hab
      show List.Disjoint _ _
      intro m hma hmb
      have h1 := redOfGrp_names elim a m hma
      have h2 := redOfGrp_names elim b m hmb
      rw [partition_groupvars_spec _ _ _ a ha, List.mem_filter] at h1
      rw [partition_groupvars_spec _ _ _ b hb, List.mem_filter] at h2
      obtain ⟨f, hf, hfm⟩ := List.any_eq_true.1 h1.2
      obtain ⟨g, hg', hgm⟩ := List.any_eq_true.1 h2.2
      exact ((sharesVar_false_iff _ f g).1 (hab f hf g hg') m h1.1) ⟨hfm, hgm⟩
  refine (List.perm_ext_iff_of_nodup (List.Nodup.of_map _ hndL) (List.Nodup.of_map _ hndR)).2 ?_
  intro p
  constructor
  · intro hp
    obtain ⟨v, hv, rfl⟩ := List.mem_map.1 hp
    obtain ⟨⟨f, hf, hfv⟩, hve⟩ := (presentVars_mem fs elim v).1 hv
    have hfg : f ∈ groups.flatMap (·.1) := by
      have := (partition_perm (presentVars fs elim) fs.length fs (Nat.le_refl _)).mem_iff (a := f)
      rw [List.flatMap_def]; exact this.2 hf
    obtain ⟨grp, hgrp, hfgrp⟩ := List.mem_flatMap.1 hfg
    obtain ⟨pc, hpc⟩ := hdef grp hgrp
    have hpcv : pc.has v = true := (prodAll_has _ v grp.1 pc hpc).2 ⟨f, hfgrp, hfv⟩
    obtain ⟨q, hq, hqv⟩ := (has_iff pc v).1 hpcv
    obtain ⟨f', hf', hqf'⟩ := prodAll_inputs_mem _ grp.1 pc hpc q hq
    have hsz := sizeOf_spec hsc (hgfs grp hgrp f' hf') hqf'
    rw [hqv] at hsz
    refine List.mem_flatMap.2 ⟨grp, hgrp, ?_⟩
    simp only [redOfGrp, hpc, redOf, List.mem_filter]
    have hqeq : q = (v, (sizeOf? fs v).getD 0) := by
      rw [hsz]; exact Prod.ext hqv rfl
    rw [← hqeq]
    refine ⟨hq, ?_⟩
    simpa [hqv] using (mem_V_iff fs elim grp hgrp f hfgrp v hfv).2 hve
  · intro hp
    obtain ⟨grp, hgrp, hpr⟩ := List.mem_flatMap.1 hp
    obtain ⟨pc, hpc⟩ := hdef grp hgrp
    simp only [redOfGrp, hpc, redOf, List.mem_filter] at hpr
    obtain ⟨f, hf, hpf⟩ := prodAll_inputs_mem _ grp.1 pc hpc p hpr.1
    have hV : p.1 ∈ inter grp.2 elim := by simpa using hpr.2
    have hmem : p.1 ∈ presentVars fs elim :=
      (presentVars_mem fs elim p.1).2 ⟨⟨f, hgfs grp hgrp f hf, (has_iff f p.1).2 ⟨p, hpf, rfl⟩⟩,
        ((mem_inter _ _ _).1 hV).2⟩
    refine List.mem_map.2 ⟨p.1, hmem, ?_⟩
    rw [sizeOf_spec hsc (hgfs grp hgrp f hf) hpf]; rfl

/-! ### the product of the results is defined -/

/-- defined at every environment covering its inputs -/
def Total (f : Factor α) : Prop := ∀ env, Covers env f.inputs → ∃ y, f.eval env = some y

theorem pointOf_mem_points (env : Env) (inputs : List (Name × Nat)) (hc : Covers env inputs) :
    pointOf env inputs ∈ points inputs := by
  obtain ⟨i, _, _, hi⟩ := ravel_spec env inputs 0 hc
  exact List.mem_of_getElem? hi

theorem mapM_forall_some {β γ : Type} (f : β → Option γ) : ∀ (l : List β) (d : List γ),
    l.mapM f = some d → ∀ x ∈ l, ∃ y, f x = some y
  | [], _, _, x, hx => by simp at hx
  | a :: l, d, h, x, hx => by
    rw [List.mapM_cons] at h
    cases hfa : f a with
    | none => simp [hfa] at h
    | some b =>
      cases hl : l.mapM f with
      | none => simp [hfa, hl] at h
      | some bs =>
        rcases List.mem_cons.1 hx with rfl | hx
        · exact ⟨b, hfa⟩
        · exact mapM_forall_some f l bs hl x hx

theorem mapM_defined {β γ : Type} (f : β → Option γ) : ∀ (l : List β),
    (∀ x ∈ l, ∃ y, f x = some y) → ∃ d, l.mapM f = some d
  | [], _ => ⟨[], rfl⟩
  | a :: l, h => by
    obtain ⟨b, hb⟩ := h a List.mem_cons_self
    obtain ⟨bs, hbs⟩ := mapM_defined f l (fun x hx => h x (List.mem_cons_of_mem _ hx))
    exact ⟨b :: bs, by rw [List.mapM_cons, hb, hbs]; rfl⟩

theorem tabulate_total {inputs : List (Name × Nat)} {fn : Env → Option α} {t : Factor α}
    (h : tabulate inputs fn = some t) : Total t := by
  intro env hc
  rw [tabulate_inputs h] at hc
  rw [tabulate_eval inputs fn t h env hc]
  unfold tabulate at h
  cases hd : (points inputs).mapM fn with
  | none => simp [hd] at h
  | some d => exact mapM_forall_some fn _ d hd _ (pointOf_mem_points env inputs hc)

theorem tabulate_defined (inputs : List (Name × Nat)) (fn : Env → Option α)
    (h : ∀ e ∈ points inputs, ∃ y, fn e = some y) : ∃ t, tabulate inputs fn = some t := by
  obtain ⟨d, hd⟩ := mapM_defined fn (points inputs) h
  exact ⟨⟨inputs, d⟩, by simp [tabulate, hd]⟩

theorem mulF_defined (o : Ops α) (a b : Factor α) (ha : Total a) (hb : Total b)
    (hsf : SizeFun (a.inputs ++ b.inputs)) : ∃ c, mulF o a b = some c := by
  have hsf' : SizeFun (a.inputs ++ b.inputs.filter fun p => !a.has p.1) := by
    intro p hp q hq hpq
    refine hsf p ?_ q ?_ hpq
    · rcases List.mem_append.1 hp with h | h
      · exact List.mem_append_left _ h
      · exact List.mem_append_right _ (List.mem_filter.1 h).1
    · rcases List.mem_append.1 hq with h | h
      · exact List.mem_append_left _ h
      · exact List.mem_append_right _ (List.mem_filter.1 h).1
  unfold mulF
  apply tabulate_defined
  intro e he
  have hce := covers_points _ e hsf' he
  have hca : Covers e a.inputs := fun p hp => hce p (List.mem_append_left _ hp)
  have hcb : Covers e b.inputs := by
    intro p hp
    by_cases hap : a.has p.1 = true
    · obtain ⟨q, hq, hqp⟩ := (has_iff a p.1).1 hap
      obtain ⟨x, hx, hlt⟩ := hca q hq
      have : q.2 = p.2 := hsf q (List.mem_append_left _ hq) p (List.mem_append_right _ hp) hqp
      exact ⟨x, by rw [← hqp]; exact hx, by rw [← this]; exact hlt⟩
    · exact hce p (List.mem_append_right _ (List.mem_filter.2 ⟨hp, by simpa using hap⟩))
  obtain ⟨x, hx⟩ := ha e hca
  obtain ⟨y, hy⟩ := hb e hcb
  rw [hx, hy]
  exact ⟨_, rfl⟩

theorem foldl_mulF_defined (o : Ops α) : ∀ (fs : List (Factor α)) (acc : Factor α),
    Total acc → (∀ f ∈ fs, Total f) → SizeFun (acc.inputs ++ fs.flatMap (·.inputs)) →
    ∃ pc, fs.foldl (fun acc g => acc.bind (mulF o · g)) (some acc) = some pc
  | [], acc, _, _, _ => ⟨acc, rfl⟩
  | g :: fs, acc, ha, hfs, hsf => by
    have hsf1 : SizeFun (acc.inputs ++ g.inputs) := by
      intro p hp q hq hpq
      refine hsf p ?_ q ?_ hpq <;>
      · simp only [List.flatMap_cons, List.mem_append] at *
        tauto
    obtain ⟨c, hc⟩ := mulF_defined o acc g ha (hfs g List.mem_cons_self) hsf1
    have hct : Total c := tabulate_total hc
    have hsf2 : SizeFun (c.inputs ++ fs.flatMap (·.inputs)) := by
      have hsub : ∀ p ∈ c.inputs, p ∈ acc.inputs ∨ p ∈ g.inputs := by
        intro p hp
        rw [mulF_inputs hc] at hp
        rcases List.mem_append.1 hp with h | h
        · exact Or.inl h
        · exact Or.inr (List.mem_filter.1 h).1
      intro p hp q hq hpq
      refine hsf p ?_ q ?_ hpq
      · simp only [List.flatMap_cons, List.mem_append] at hp ⊢
        rcases hp with hp | hp
        · rcases hsub p hp with h | h <;> tauto
        · tauto
      · simp only [List.flatMap_cons, List.mem_append] at hq ⊢
        rcases hq with hq | hq
        · rcases hsub q hq with h | h <;> tauto
        · tauto
    obtain ⟨pc, hpc⟩ := foldl_mulF_defined o fs c hct
      (fun f hf => hfs f (List.mem_cons_of_mem _ hf)) hsf2
    exact ⟨pc, by simp only [List.foldl_cons, Option.bind_some, hc]; exact hpc⟩

theorem prodAll_defined (o : Ops α) (fs : List (Factor α)) (ht : ∀ f ∈ fs, Total f)
    (hsf : SizeFun (fs.flatMap (·.inputs))) : ∃ pc, prodAll o fs = some pc := by
  cases fs with
  | nil => exact ⟨unitF o, rfl⟩
  | cons f fs =>
    exact foldl_mulF_defined o fs f (ht f List.mem_cons_self)
      (fun g hg => ht g (List.mem_cons_of_mem _ hg)) (by simpa [List.flatMap_cons] using hsf)

theorem forall₂_left_mem {β γ : Type} {R : β → γ → Prop} :
    ∀ {l₁ : List β} {l₂ : List γ}, List.Forall₂ R l₁ l₂ → ∀ a ∈ l₁, ∃ b ∈ l₂, R a b
  | _, _, List.Forall₂.nil, a, ha => by simp at ha
  | _, _, List.Forall₂.cons h t, a, ha => by
    rcases List.mem_cons.1 ha with rfl | ha
    · exact ⟨_, List.mem_cons_self, h⟩
    · obtain ⟨b, hb, hab⟩ := forall₂_left_mem t a ha
      exact ⟨b, List.mem_cons_of_mem _ hb, hab⟩

/-- **`sum_product_exact` for the executable model, non-plated case, without side hypotheses**:
    if `FV.C09.psp` (no plates) returns `rs`, then their product `R` is defined and its table over the
    free inputs is exactly the list `FV.C09.unroll` returns — for every commutative semiring. The only
    hypotheses concern the caller's `free` list: it contains the non-eliminated inputs, with one size per
    name. -/
theorem sum_product_exact_noplates (fs : List (Factor α)) (elim : List Name) (free : List (Name × Nat))
    (rs : List (Factor α))
    (h : psp (srOps α) fs elim [] [] false false = .ok rs)
    (hfree : ∀ f ∈ fs, ∀ p ∈ f.inputs, p.1 ∉ elim → p ∈ free) (hfreeSF : SizeFun free) :
    ∃ R, prodAll (srOps α) rs = some R ∧
      unroll (srOps α) fs elim [] [] free = .ok ((points free).map (ev R)) ∧
      tableOver R free = some ((points free).map (ev R)) := by
  obtain ⟨hg, hF2⟩ := psp_noplates (srOps α) fs elim rs h
  have hsc : sizesConsistent fs = true := by
    simp only [Bool.and_eq_true] at hg; exact hg.2
  have hdef : ∀ grp ∈ partition (presentVars fs elim) fs.length fs,
      ∃ pc, prodAll (srOps α) grp.1 = some pc := by
    intro grp hgrp
    obtain ⟨g, _, pc, _, hpc, _⟩ := forall₂_left_mem hF2 grp hgrp
    exact ⟨pc, hpc⟩
  have hperm := reds_perm_present fs elim hg hdef
  have htot : ∀ g ∈ rs, Total g := by
    intro g hgm
    obtain ⟨grp, _, pc, fc, _, _, hgo⟩ := forall₂_right_mem hF2 g hgm
    exact tabulate_total hgo
  have hentries : ∀ g ∈ rs, ∀ p ∈ g.inputs, p ∈ fs.flatMap (·.inputs) := by
    intro g hgm p hp
    obtain ⟨grp, hgrp, pc, fc, hpc, hfc, hgo⟩ := forall₂_right_mem hF2 g hgm
    rw [reduceF_inputs hgo] at hp
    have hp' := (List.mem_filter.1 hp).1
    rw [reduceF_inputs hfc] at hp'
    obtain ⟨f, hf, hpf⟩ := prodAll_inputs_mem _ grp.1 pc hpc p (List.mem_filter.1 hp').1
    exact List.mem_flatMap.2 ⟨f, partition_mem _ _ _ grp hgrp f hf, hpf⟩
  have hsf : SizeFun (rs.flatMap (·.inputs)) := by
    intro p hp q hq hpq
    obtain ⟨g, hg1, hpg⟩ := List.mem_flatMap.1 hp
    obtain ⟨g', hg2, hqg⟩ := List.mem_flatMap.1 hq
    exact sizesConsistent_spec hsc p (hentries g hg1 p hpg) q (hentries g' hg2 q hqg) hpq
  obtain ⟨R, hR⟩ := prodAll_defined (srOps α) rs htot hsf
  exact ⟨R, hR, psp_noplates_exact fs elim free rs R h hR hfree hfreeSF hperm⟩
end PermSec

/-- Non-vacuity: `f(a) = [1,2]`, `g(a,b) = [[1,2],[3,4]]`, eliminate `a`: the call returns (so the
    hypotheses of `sum_product_exact_noplates` are satisfiable) and the table of the product of the
    results over the free input `b` is `[7, 10]`, which is what `unroll` returns. -/
example :
    ((psp (srOps ℕ) [⟨[("a", 2)], [1, 2]⟩, ⟨[("a", 2), ("b", 2)], [1, 2, 3, 4]⟩] ["a"] [] [] false false).toOption.bind
        (prodAll (srOps ℕ))).bind (tableOver · [("b", 2)]) = some [7, 10] ∧
    (unroll (srOps ℕ) [⟨[("a", 2)], [1, 2]⟩, ⟨[("a", 2), ("b", 2)], [1, 2, 3, 4]⟩] ["a"] [] [] [("b", 2)]).toOption
      = some [7, 10] := by
  decide

end FV.Props.C09.Exec
