/-
  Props/C09/Plated.lean — the VALUE half of one executed iteration of the plated loop, on the
  executable dense tables (`FV.C09`), for any number of plates being left.

    prod_sum_exchange                  Π_{i∈is} Σ_{d∈L} G i d = Σ_{d̄ ∈ tuples L |is|} Π_i G i (d̄ i)   (list form of the
                                       generalized distributive law; `is` = contexts of the plates left)
    plated_step_core_list              leaf contexts = (new-key contexts) × (contexts of the plates left)
    simulation lemmas per primitive    sumOut_eval (reduceVars), prodOut_eval (prodPlates),
                                       component_pending_spec / component_results_spec (insertAt: what
                                       `component` files, and where), newFactor_value (= `Run.newFac.fn`)
    iteration_preserves_unroll_partial            the executable `elim_core` for a component, any `RPs`
    iteration_preserves_unroll_one_plate_partial  its single-plate case
    filed_factor_exchange              the same for the table `component` actually files
    sum_asgs_eq_tuples                 the oracle's copies of one variable are a tuple (towards the rest)

  The full statement `iteration_preserves_unroll` and the three named missing links are in the comment
  of `iteration_preserves_unroll_partial`.
-/
import FunsorVerif.Props.C09.NoPlates
namespace FV.Props.C09.Exec
open FV.C09
section Plated
set_option linter.unusedSectionVars false
variable {α : Type} [CommSemiring α]

/-! ## list form of the generalized distributive law -/

/-- all lists of length `n` over `L`: one choice per plate index -/
def tuples {β : Type} (L : List β) : Nat → List (List β)
  | 0 => [[]]
  | n + 1 => L.flatMap fun d => (tuples L n).map (d :: ·)

/-- `Π_{i ∈ is} Σ_{d ∈ L} G i d = Σ_{d̄ : is → L} Π_i G i (d̄ i)` — the exchange behind product-reducing a
    plate after summing a variable local to it; `is` = the contexts of the plates being left (any number
    of plates: `points` of their sized list), `L` = the points of the summed variables. -/
theorem prod_sum_exchange {ι β : Type} (L : List β) (G : ι → β → α) : ∀ (is : List ι),
    (is.map fun i => (L.map (G i)).sum).prod
      = ((tuples L is.length).map fun ds => (List.zipWith G is ds).prod).sum
  | [] => by simp [tuples]
  | i :: is => by
    simp only [List.map_cons, List.prod_cons, List.length_cons, tuples]
    rw [prod_sum_exchange L G is, List.map_flatMap, sum_flatMap', ← List.sum_map_mul_right]
    refine congrArg List.sum (List.map_congr_left fun d _ => ?_)
    rw [← List.sum_map_mul_left, List.map_map]
    rfl

/-- The list-level core of one plated step: the leaf contexts are (new plates) × (plates left). -/
theorem plated_step_core_list (N R W : List (Name × Nat)) (G : Env → Env → α) :
    ((tuples (points W) (points (N ++ R)).length).map fun ds =>
        (List.zipWith G (points (N ++ R)) ds).prod).sum
      = ((points N).map fun j => ((points R).map fun k =>
          ((points W).map (G (j ++ k))).sum).prod).prod := by
  rw [← prod_sum_exchange, points_append, List.map_flatMap, prod_flatMap']
  simp [List.map_map, Function.comp_def]

/-! ## simulation lemmas, one per primitive of the loop body -/

/-- **reduceVars** (`.reduce(sum_op, vars)`): the table returned by `sumOut` is the list sum over the
    points of the summed inputs. -/
theorem sumOut_eval (f g : Factor α) (vars : List Name) (h : sumOut (srOps α) f vars = some g) (env : Env)
    (hc : Covers env (f.inputs.filter fun p => !vars.contains p.1))
    (hdef : ∀ r ∈ points (f.inputs.filter fun p => vars.contains p.1),
      f.eval (r ++ env) = some (ev f (r ++ env))) :
    g.eval env = some (((points (f.inputs.filter fun p => vars.contains p.1)).map
      fun r => ev f (r ++ env)).sum) := by
  unfold sumOut at h
  rw [reduceF_eval _ _ f g vars h env hc]
  have : ((points (f.inputs.filter fun p => vars.contains p.1)).map fun r => f.eval (r ++ env))
      = ((points (f.inputs.filter fun p => vars.contains p.1)).map fun r => ev f (r ++ env)).map some := by
    rw [List.map_map]; exact List.map_congr_left hdef
  rw [this]; exact foldOpt_add_some _

/-- **prodPlates** (`.reduce(prod_op, plates)`): the table returned by `prodOut` is the list product over
    the points of the plates multiplied out. -/
theorem prodOut_eval (f g : Factor α) (plates : List Name) (h : prodOut (srOps α) f plates = some g)
    (env : Env) (hc : Covers env (f.inputs.filter fun p => !plates.contains p.1))
    (hdef : ∀ k ∈ points (f.inputs.filter fun p => plates.contains p.1),
      f.eval (k ++ env) = some (ev f (k ++ env))) :
    g.eval env = some (((points (f.inputs.filter fun p => plates.contains p.1)).map
      fun k => ev f (k ++ env)).prod) := by
  unfold prodOut at h
  rw [reduceF_eval _ _ f g plates h env hc]
  have : ((points (f.inputs.filter fun p => plates.contains p.1)).map fun k => f.eval (k ++ env))
      = ((points (f.inputs.filter fun p => plates.contains p.1)).map fun k => ev f (k ++ env)).map some := by
    rw [List.map_map]; exact List.map_congr_left hdef
  rw [this]; exact foldOpt_mul_some _

/-- **insertAt / the loop body on one component, pending branch**: when summed variables remain and
    `new_plates ≠ leaf`, `component` files exactly `prodOut (sumOut (prodAll group))` under `new_plates`. -/
theorem component_pending_spec (o : Ops α) (c : Cfg) (hsc : c.scales = []) (leaf np : List Name)
    (st : St α) (grp : List (Factor α) × List Name) (pc fc g : Factor α)
    (hpc : prodAll o grp.1 = some pc) (hfc : sumOut o pc (inter grp.2 c.elim) = some fc)
    (hrem : (c.S.filter fc.has).isEmpty = false)
    (hnp : np = sset ((c.S.filter fc.has).flatMap fun v => (c.O.lookup v).getD []))
    (htract : (np == leaf) = false)
    (hg : prodOut o fc (inter (diff leaf np) c.prodVars) = some g) :
    component o c leaf st grp = .ok { st with pending := addPending np g st.pending } := by
  subst hnp
  unfold component
  simp only [hpc, Option.bind_some, hfc, hrem, Bool.false_eq_true, if_false, htract, hg]
  simp [applyScale, hsc]

/-- … and the results branch: no summed variable remains, all eliminated plates of the leaf are
    multiplied out, the factor goes to `results`. -/
theorem component_results_spec (o : Ops α) (c : Cfg) (hsc : c.scales = []) (leaf : List Name) (st : St α)
    (grp : List (Factor α) × List Name) (pc fc g : Factor α)
    (hpc : prodAll o grp.1 = some pc) (hfc : sumOut o pc (inter grp.2 c.elim) = some fc)
    (hrem : (c.S.filter fc.has).isEmpty = true)
    (hg : prodOut o fc (inter leaf c.prodVars) = some g) :
    component o c leaf st grp = .ok { st with results := st.results ++ [g] } := by
  unfold component
  simp only [hpc, Option.bind_some, hfc, hrem, if_true, hg]
  simp [applyScale, hsc]

/-- **Value of the factor the loop body files** (`newFac.fn` of the semantic machine, on dense tables):
    `prodOut (sumOut (prodAll group) V) RP` at `env` is
    `Π_{k : points of the plates left} Σ_{d : points of the summed variables} Π_{f ∈ group} f (d ++ k ++ env)`. -/
theorem newFactor_value (grp : List (Factor α)) (V RP : List Name) (pc fc g : Factor α)
    (hpc : prodAll (srOps α) grp = some pc) (hfc : sumOut (srOps α) pc V = some fc)
    (hg : prodOut (srOps α) fc RP = some g) (env : Env)
    (hcg : Covers env (fc.inputs.filter fun p => !RP.contains p.1))
    (hkc : ∀ k ∈ points (fc.inputs.filter fun p => RP.contains p.1),
      Covers (k ++ env) (pc.inputs.filter fun p => !V.contains p.1))
    (H : ∀ k ∈ points (fc.inputs.filter fun p => RP.contains p.1),
      ∀ d ∈ points (pc.inputs.filter fun p => V.contains p.1), ∀ f ∈ grp,
        f.eval (d ++ (k ++ env)) = some (ev f (d ++ (k ++ env))) ∧ Covers (d ++ (k ++ env)) f.inputs) :
    g.eval env = some (((points (fc.inputs.filter fun p => RP.contains p.1)).map fun k =>
      ((points (pc.inputs.filter fun p => V.contains p.1)).map fun d =>
        (grp.map (ev · (d ++ (k ++ env)))).prod).sum).prod) := by
  have hpcv : ∀ k ∈ points (fc.inputs.filter fun p => RP.contains p.1),
      ∀ d ∈ points (pc.inputs.filter fun p => V.contains p.1),
      pc.eval (d ++ (k ++ env)) = some ((grp.map (ev · (d ++ (k ++ env)))).prod) :=
    fun k hk d hd => (prodAll_eval (d ++ (k ++ env)) grp pc hpc (H k hk d hd)).1
  have hfcv : ∀ k ∈ points (fc.inputs.filter fun p => RP.contains p.1),
      fc.eval (k ++ env) = some (((points (pc.inputs.filter fun p => V.contains p.1)).map fun d =>
        (grp.map (ev · (d ++ (k ++ env)))).prod).sum) := by
    intro k hk
    rw [sumOut_eval pc fc V hfc (k ++ env) (hkc k hk)
      (fun d hd => by rw [hpcv k hk d hd]; simp [ev, hpcv k hk d hd])]
    congr 2
    refine List.map_congr_left fun d hd => ?_
    simp [ev, hpcv k hk d hd]
  rw [prodOut_eval fc g RP hg env hcg (fun k hk => by rw [hfcv k hk]; simp [ev, hfcv k hk])]
  congr 2
  refine List.map_congr_left fun k hk => ?_
  simp [ev, hfcv k hk]

theorem lookup_swap_append (Nn RPs : List (Name × Nat)) (j k rest : Env)
    (hj : j ∈ points Nn) (hk : k ∈ points RPs)
    (hdis : ∀ m, m ∈ Nn.map (·.1) → m ∉ RPs.map (·.1)) (m : Name) :
    (k ++ (j ++ rest)).lookup m = ((j ++ k) ++ rest).lookup m := by
  by_cases hm : m ∈ Nn.map (·.1)
  · rw [lookup_append_skip _ hk (hdis m hm), List.append_assoc, List.lookup_append,
      List.lookup_append (l₁ := j)]
    have hsome := mem_points_lookup Nn j hj m hm
    cases hl : j.lookup m with
    | none => rw [hl] at hsome; simp at hsome
    | some x => simp
  · rw [List.append_assoc, lookup_append_skip (k ++ rest) hj hm, List.lookup_append,
      List.lookup_append (l₁ := k), lookup_append_skip rest hj hm]

/-- FULL STATEMENT (value half of `Loop.psp_loop_refines_plated_spec_partial`, not closed):

      iteration_preserves_unroll :
        component o c leaf st grp = ok st'  →  unroll (factors of st') = unroll (factors of st)

    for the executable `FV.C09.unroll` at every free point.  PROVED HERE, on the executable dense tables
    and for ANY number of plates being left (`RPs`; a single plate is the special case `RPs = [(p, n)]`):
    the product, over the contexts `j` of the new key, of the factor the loop files
    (`newFactor_value`: `Π_{k} Σ_{d} Π_{f∈group}`) equals the sum, over one copy `d̄ i` of the component's
    variables per leaf context `i = j ++ k`, of the product over the leaf contexts of the group —
    the executable `elim_core`/`Run.elim_group` (`prod_sum_exchange` is the list-level
    `Π_p Σ_v = Σ_{v̄ : p → V} Π_p`).
    MISSING to reach the full statement: (1) the closed form of `unroll` with non-empty plate contexts
    (`instProd` at a context `ctx ≠ []`, and `asgs copies ≃ tuples` so that the sum over copies keyed by
    `(v, ctx)` is the tuple sum below — `sumCopies_pure` is already general); (2) pulling the factors
    outside the component out of the sum (they do not read the component's copies:
    `partition_groupvars_disjoint`, `chooseLeaf_max`); (3) stability of the recomputed ordinals
    (`unroll` recomputes `var_to_ordinal` from the state's factors; it equals the original by the loop
    invariant `O v ⊆ key f`, proved semantically as `Run.Inv.ord`). -/
theorem iteration_preserves_unroll_partial (grp : List (Factor α)) (Nn RPs Ws : List (Name × Nat))
    (env : Env) (newval : Env → α)
    (hnew : ∀ j ∈ points Nn, newval j = ((points RPs).map fun k => ((points Ws).map fun d =>
      (grp.map (ev · (d ++ (k ++ (j ++ env))))).prod).sum).prod)
    (hdis : ∀ m, m ∈ Nn.map (·.1) → m ∉ RPs.map (·.1)) :
    ((points Nn).map newval).prod
      = ((tuples (points Ws) (points (Nn ++ RPs)).length).map fun ds =>
          (List.zipWith (fun i d => (grp.map (ev · (d ++ (i ++ env)))).prod)
            (points (Nn ++ RPs)) ds).prod).sum := by
  rw [plated_step_core_list Nn RPs Ws (fun i d => (grp.map (ev · (d ++ (i ++ env)))).prod)]
  refine congrArg List.prod (List.map_congr_left fun j hj => ?_)
  rw [hnew j hj]
  refine congrArg List.prod (List.map_congr_left fun k hk => ?_)
  refine congrArg List.sum (List.map_congr_left fun d _ => ?_)
  refine congrArg List.prod (List.map_congr_left fun f _ => ev_congr f _ _ fun p _ => ?_)
  rw [List.lookup_append, List.lookup_append (l₁ := d),
    lookup_swap_append Nn RPs j k env hj hk hdis p.1]

/-- single leaving plate `p` of size `n` (the first case asked for): `Π_{p} Σ_v f = Σ_{v̄ : p → V} Π_p f`. -/
theorem iteration_preserves_unroll_one_plate_partial (grp : List (Factor α)) (Nn Ws : List (Name × Nat))
    (p : Name) (n : Nat) (env : Env) (newval : Env → α)
    (hnew : ∀ j ∈ points Nn, newval j = ((points [(p, n)]).map fun k => ((points Ws).map fun d =>
      (grp.map (ev · (d ++ (k ++ (j ++ env))))).prod).sum).prod)
    (hp : p ∉ Nn.map (·.1)) :
    ((points Nn).map newval).prod
      = ((tuples (points Ws) (points (Nn ++ [(p, n)])).length).map fun ds =>
          (List.zipWith (fun i d => (grp.map (ev · (d ++ (i ++ env)))).prod)
            (points (Nn ++ [(p, n)])) ds).prod).sum :=
  iteration_preserves_unroll_partial grp Nn [(p, n)] Ws env newval hnew
    (fun m hm hmem => by simp at hmem; exact hp (hmem ▸ hm))

/-- The same, stated for the table `g` that `component` files (`component_pending_spec` /
    `component_results_spec`): with `Ws` the summed inputs of the group's product and `RPs` the plates
    multiplied out, the product of `g` over the contexts of its key is the tuple sum over the leaf. -/
theorem filed_factor_exchange (grp : List (Factor α)) (V RP : List Name) (pc fc g : Factor α)
    (hpc : prodAll (srOps α) grp = some pc) (hfc : sumOut (srOps α) pc V = some fc)
    (hg : prodOut (srOps α) fc RP = some g) (Nn : List (Name × Nat)) (env : Env)
    (hdis : ∀ m, m ∈ Nn.map (·.1) → m ∉ (fc.inputs.filter fun p => RP.contains p.1).map (·.1))
    (hcg : ∀ j ∈ points Nn, Covers (j ++ env) (fc.inputs.filter fun p => !RP.contains p.1))
    (hkc : ∀ j ∈ points Nn, ∀ k ∈ points (fc.inputs.filter fun p => RP.contains p.1),
      Covers (k ++ (j ++ env)) (pc.inputs.filter fun p => !V.contains p.1))
    (H : ∀ j ∈ points Nn, ∀ k ∈ points (fc.inputs.filter fun p => RP.contains p.1),
      ∀ d ∈ points (pc.inputs.filter fun p => V.contains p.1), ∀ f ∈ grp,
        f.eval (d ++ (k ++ (j ++ env))) = some (ev f (d ++ (k ++ (j ++ env)))) ∧
          Covers (d ++ (k ++ (j ++ env))) f.inputs) :
    ((points Nn).map fun j => ev g (j ++ env)).prod
      = ((tuples (points (pc.inputs.filter fun p => V.contains p.1))
            (points (Nn ++ fc.inputs.filter fun p => RP.contains p.1)).length).map fun ds =>
          (List.zipWith (fun i d => (grp.map (ev · (d ++ (i ++ env)))).prod)
            (points (Nn ++ fc.inputs.filter fun p => RP.contains p.1)) ds).prod).sum := by
  refine iteration_preserves_unroll_partial grp Nn _ _ env (fun j => ev g (j ++ env)) ?_ hdis
  intro j hj
  have := newFactor_value grp V RP pc fc g hpc hfc hg (j ++ env) (hcg j hj) (hkc j hj) (H j hj)
  simp [ev, this]

/-- Towards (1): for ONE replicated variable (copies keyed by its plate contexts, all of the same size),
    the oracle's nested sum over copies is the tuple sum: one value per context. -/
theorem sum_asgs_eq_tuples {K : Type} (sz : Nat) : ∀ (keys : List K) (F : List (K × Nat) → α),
    ((asgs (keys.map fun k => (k, sz))).map F).sum
      = ((tuples (List.range sz) keys.length).map fun xs => F ((keys.zip xs).reverse)).sum
  | [], F => by simp [asgs, tuples]
  | k :: keys, F => by
    simp only [List.map_cons, asgs, tuples, List.length_cons, List.map_flatMap, sum_flatMap',
      List.map_map, Function.comp_def]
    refine congrArg List.sum (List.map_congr_left fun x _ => ?_)
    have := sum_asgs_eq_tuples sz keys (fun a => F (a ++ [(k, x)]))
    rw [this]
    simp

/-! ## factor kinds: a `funsor.Constant` factor is its expansion

  `Constant({p…}, g)` has the const plates among its inputs (so they count for its ordinal) and the value
  of `g` whatever their indices.  In the model (and in what the harness sends to `unroll`/`psp`) it IS the
  table `expandF g [p…]`: same inputs as the Constant, constant along the const plates.  So replacing a
  broadcast Tensor factor by the Constant leaves `unroll` literally unchanged — the two are the same table —
  and any difference in what funsor returns is funsor's (`constant.py`: multiplicities `x*n`, `x**n`, `x+log n`). -/

/-- the table of `f` expanded over extra (const) inputs -/
def expandF (f : Factor α) (extra : List (Name × Nat)) : Option (Factor α) :=
  tabulate (extra ++ f.inputs) fun e => f.eval e

theorem expandF_inputs {f g : Factor α} {extra : List (Name × Nat)} (h : expandF f extra = some g) :
    g.inputs = extra ++ f.inputs := tabulate_inputs h

/-- the expansion has the value of the inner factor … -/
theorem expand_eval {f g : Factor α} {extra : List (Name × Nat)} (h : expandF f extra = some g) (env : Env)
    (hc : Covers env (extra ++ f.inputs)) : g.eval env = f.eval env := by
  unfold expandF at h
  rw [tabulate_eval _ _ g h env hc]
  refine eval_congr f _ _ fun p hp => lookup_pointOf env _ hc p.1 ?_
  exact List.mem_map.2 ⟨p, List.mem_append_right _ hp, rfl⟩

/-- … and ignores its const plates: two environments that agree on the inner factor's inputs give the
    same value, whatever the indices of the const plates. -/
theorem expand_ignores_const {f g : Factor α} {extra : List (Name × Nat)} (h : expandF f extra = some g)
    (env env' : Env) (hc : Covers env (extra ++ f.inputs)) (hc' : Covers env' (extra ++ f.inputs))
    (hagree : ∀ p ∈ f.inputs, env.lookup p.1 = env'.lookup p.1) : g.eval env = g.eval env' := by
  rw [expand_eval h env hc, expand_eval h env' hc']
  exact eval_congr f env env' hagree

/-- the model's `pow_op` (`applyScale`): repeated multiplication is the semiring power -/
theorem powNat_eq_pow (x : α) : ∀ k : Nat, powNat (srOps α) x k = x ^ k
  | 0 => by simp [powNat, srOps]
  | 1 => by simp [powNat]
  | k + 2 => by
    have ih := powNat_eq_pow x (k + 1)
    simp only [powNat, ih]
    show x ^ (k + 1) * x = x ^ (k + 2)
    rw [pow_succ x (k + 1)]
end Plated
end FV.Props.C09.Exec
