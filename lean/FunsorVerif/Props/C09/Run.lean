/-
  Props/C09/Run.lean — the elimination loop as a whole: `sum_product_exact` for the semantic
  state machine of `partial_sum_product`, every plate structure, every run.

  Fixed ambient types (so the state has ONE type throughout a run, no casts):
    Pn, I p      plates and their index types (`default` = the index used outside a factor's plates)
    Vn, D v      summed variables and their value types
    Ctx          a total assignment of all plates; `Asg o` = those that are `default` outside `o`
                 (the assignments of the ordinal `o`);  `rs o c` = restriction of `c` to `o`
    O v          `var_to_ordinal[v]`, fixed during the run (discrete variables)
    X v c        the copy of variable `v` in plate context `c`; only contexts in `Asg (O v)` of live
                 variables vary (`XS`), everything else is pinned to `default` — so the sum over `XS`
                 is exactly "one copy of every live variable per index of the plates it lives in".
-/
import Mathlib.Algebra.BigOperators.Ring.Finset
import Mathlib.Data.Fintype.BigOperators

set_option linter.unusedSectionVars false

namespace FV.Props.C09.Run
open Finset

variable {Pn Vn : Type} [Fintype Pn] [DecidableEq Pn] [Fintype Vn] [DecidableEq Vn]
  {I : Pn → Type} [∀ p, Fintype (I p)] [∀ p, DecidableEq (I p)] [∀ p, Inhabited (I p)]
  {D : Vn → Type} [∀ v, Fintype (D v)] [∀ v, DecidableEq (D v)] [∀ v, Inhabited (D v)]
  {R : Type} [CommSemiring R]

/-! ## plate contexts -/

abbrev Ctx (I : Pn → Type) := ∀ p, I p

/-- restriction of a context to the plates in `o` -/
def rs (o : Finset Pn) (c : Ctx I) : Ctx I := fun p => if p ∈ o then c p else default

/-- the assignments of the plates in `o` -/
def Asg (o : Finset Pn) : Finset (Ctx I) := univ.filter fun c => ∀ p, p ∉ o → c p = default

/-- an assignment of `N` together with one of the remaining plates -/
def merge (N : Finset Pn) (j k : Ctx I) : Ctx I := fun p => if p ∈ N then j p else k p

theorem mem_Asg {o : Finset Pn} {c : Ctx I} : c ∈ Asg o ↔ ∀ p, p ∉ o → c p = default := by
  simp [Asg]

theorem rs_mem_Asg (o : Finset Pn) (c : Ctx I) : rs o c ∈ Asg o := by
  rw [mem_Asg]; intro p hp; simp [rs, hp]

theorem rs_of_mem {o : Finset Pn} {c : Ctx I} (h : c ∈ Asg o) : rs o c = c := by
  funext p
  by_cases hp : p ∈ o
  · simp [rs, hp]
  · simp [rs, hp, mem_Asg.1 h p hp]

theorem rs_merge_of_subset {o N : Finset Pn} (h : o ⊆ N) (j k : Ctx I) :
    rs o (merge N j k) = rs o j := by
  funext p
  by_cases hp : p ∈ o
  · simp [rs, merge, hp, h hp]
  · simp [rs, hp]

theorem merge_agree_on {N : Finset Pn} (j k : Ctx I) : ∀ p ∈ N, merge N j k p = j p := by
  intro p hp; simp [merge, hp]

/-- Regrouping the product over the leaf plates: new plates × reduced plates (the concrete form of
    `plate_regroup` / `splitIdx`). -/
theorem prod_Asg_split {N L : Finset Pn} (h : N ⊆ L) (H : Ctx I → R) :
    ∏ i ∈ Asg L, H i = ∏ j ∈ Asg N, ∏ k ∈ Asg (L \ N), H (merge N j k) := by
  rw [← Finset.prod_product']
  refine Finset.prod_nbij' (fun c => (rs N c, rs (L \ N) c)) (fun jk => merge N jk.1 jk.2)
    ?_ ?_ ?_ ?_ ?_
  · intro c _
    exact Finset.mem_product.2 ⟨rs_mem_Asg _ _, rs_mem_Asg _ _⟩
  · intro jk hjk
    rcases Finset.mem_product.1 hjk with ⟨hj, hk⟩
    rw [mem_Asg] at hj hk ⊢
    intro p hp
    by_cases hpN : p ∈ N
    · exact absurd (h hpN) hp
    · simp only [merge, hpN, if_false]
      exact hk p (fun hp' => hp (Finset.mem_sdiff.1 hp').1)
  · intro c hc
    funext p
    by_cases hpN : p ∈ N
    · simp [merge, rs, hpN]
    · by_cases hpL : p ∈ L
      · simp [merge, rs, hpN, hpL]
      · simp [merge, rs, hpN, hpL, mem_Asg.1 hc p hpL]
  · intro jk hjk
    rcases Finset.mem_product.1 hjk with ⟨hj, hk⟩
    rw [mem_Asg] at hj hk
    refine Prod.ext (funext fun p => ?_) (funext fun p => ?_)
    · by_cases hpN : p ∈ N
      · simp [merge, rs, hpN]
      · simp [rs, hpN, hj p hpN]
    · by_cases hpN : p ∈ N
      · have : p ∉ L \ N := fun hp' => (Finset.mem_sdiff.1 hp').2 hpN
        simp [rs, this, hk p this]
      · by_cases hpL : p ∈ L
        · simp [merge, rs, hpN, hpL]
        · have : p ∉ L \ N := fun hp' => hpL (Finset.mem_sdiff.1 hp').1
          simp [rs, this, hk p this]
  · intro c hc
    congr 1
    funext p
    by_cases hpN : p ∈ N
    · simp [merge, rs, hpN]
    · by_cases hpL : p ∈ L
      · simp [merge, rs, hpN, hpL]
      · simp [merge, rs, hpN, hpL, mem_Asg.1 hc p hpL]

/-! ## replicated assignments -/

/-- `X v c` = value of the copy of `v` in context `c`. -/
abbrev XAsg (I : Pn → Type) (D : Vn → Type) := ∀ v, Ctx I → D v

/-- The assignments summed by the unrolling: free exactly at the copies `(v, c)`, `v` live,
    `c` an assignment of the ordinal of `v`; pinned to `default` elsewhere. -/
def XS (O : Vn → Finset Pn) (live : Finset Vn) : Finset (XAsg I D) :=
  univ.filter fun X => ∀ v c, ¬(v ∈ live ∧ c ∈ Asg (O v)) → X v c = default

theorem mem_XS {O : Vn → Finset Pn} {live : Finset Vn} {X : XAsg I D} :
    X ∈ XS O live ↔ ∀ v c, ¬(v ∈ live ∧ c ∈ Asg (O v)) → X v c = default := by
  simp [XS]

/-- overwrite the variables in `W` -/
def comb (W : Finset Vn) (X Z : XAsg I D) : XAsg I D := fun v => if v ∈ W then Z v else X v

/-- Fubini for the pinned assignment sets: split off the copies of the variables in `W`. -/
theorem sum_XS_split (O : Vn → Finset Pn) {W live : Finset Vn} (hW : W ⊆ live) (F : XAsg I D → R) :
    ∑ X ∈ XS O live, F X = ∑ X' ∈ XS O (live \ W), ∑ Z ∈ XS O W, F (comb W X' Z) := by
  rw [← Finset.sum_product']
  symm
  refine Finset.sum_nbij' (fun p => comb W p.1 p.2)
    (fun X => (fun v => if v ∈ W then (fun _ => default) else X v,
               fun v => if v ∈ W then X v else fun _ => default)) ?_ ?_ ?_ ?_ ?_
  · intro p hp
    rcases Finset.mem_product.1 hp with ⟨h1, h2⟩
    rw [mem_XS] at h1 h2 ⊢
    intro v c hvc
    by_cases hv : v ∈ W
    · simp only [comb, hv, if_true]
      exact h2 v c (fun h => hvc ⟨hW h.1, h.2⟩)
    · simp only [comb, hv, if_false]
      exact h1 v c (fun h => hvc ⟨(Finset.mem_sdiff.1 h.1).1, h.2⟩)
  · intro X hX
    rw [mem_XS] at hX
    refine Finset.mem_product.2 ⟨mem_XS.2 ?_, mem_XS.2 ?_⟩
    · intro v c hvc
      by_cases hv : v ∈ W
      · simp [hv]
      · simp only [hv, if_false]
        exact hX v c (fun h => hvc ⟨Finset.mem_sdiff.2 ⟨h.1, hv⟩, h.2⟩)
    · intro v c hvc
      by_cases hv : v ∈ W
      · simp only [hv, if_true]
        exact hX v c (fun h => hvc ⟨hv, h.2⟩)
      · simp [hv]
  · intro p hp
    rcases Finset.mem_product.1 hp with ⟨h1, h2⟩
    rw [mem_XS] at h1 h2
    refine Prod.ext (funext fun v => ?_) (funext fun v => ?_)
    · by_cases hv : v ∈ W
      · simp only [hv, if_true]
        funext c
        exact (h1 v c (fun h => (Finset.mem_sdiff.1 h.1).2 hv)).symm
      · simp [comb, hv]
    · by_cases hv : v ∈ W
      · simp [comb, hv]
      · simp only [hv, if_false]
        funext c
        exact (h2 v c (fun h => hv h.1)).symm
  · intro X _
    funext v
    by_cases hv : v ∈ W <;> simp [comb, hv]
  · intro p _
    rfl

/-! ## the generalized distributive law on pinned sets -/

/-- joint values of the variables in `W` (pinned to `default` outside `W`) -/
def WS (W : Finset Vn) : Finset (∀ v, D v) := univ.filter fun d => ∀ v, v ∉ W → d v = default

theorem mem_WS {W : Finset Vn} {d : ∀ v, D v} : d ∈ WS W ↔ ∀ v, v ∉ W → d v = default := by
  simp [WS]

/-- Summing one copy of the variables `W` (all of ordinal `L`) per assignment of `L` and multiplying
    over the assignments of `L` = multiplying the local sums: `prod_sum_swap` for the concrete copies. -/
theorem dist_pinned (O : Vn → Finset Pn) {W : Finset Vn} {L : Finset Pn} (hOW : ∀ w ∈ W, O w = L)
    (G : Ctx I → (∀ v, D v) → R) :
    ∑ Z ∈ XS (I := I) (D := D) O W, ∏ i ∈ Asg L, G i (fun v => Z v i)
      = ∏ i ∈ Asg L, ∑ d ∈ WS W, G i d := by
  classical
  let t : Ctx I → Finset (∀ v, D v) := fun c => if c ∈ Asg L then WS W else {default}
  let g : Ctx I → (∀ v, D v) → R := fun c d => if c ∈ Asg L then G c d else 1
  have h1 : ∏ i ∈ Asg L, ∑ d ∈ WS W, G i d = ∏ c : Ctx I, ∑ d ∈ t c, g c d := by
    rw [← Finset.univ_inter (Asg (I := I) L), ← Finset.prod_ite_mem]
    refine Finset.prod_congr rfl fun c _ => ?_
    by_cases hc : c ∈ Asg L
    · simp [t, g, hc]
    · simp [t, g, hc]
  rw [h1, Finset.prod_univ_sum]
  refine Finset.sum_nbij' (fun Z c v => Z v c) (fun x v c => x c v) ?_ ?_ ?_ ?_ ?_
  · intro Z hZ
    rw [mem_XS] at hZ
    rw [Fintype.mem_piFinset]
    intro c
    by_cases hc : c ∈ Asg L
    · simp only [t, hc, if_true, mem_WS]
      intro v hv
      exact hZ v c (fun h => hv h.1)
    · simp only [t, hc, if_false, Finset.mem_singleton]
      funext v
      refine hZ v c (fun h => hc ?_)
      rw [← hOW v h.1]; exact h.2
  · intro x hx
    rw [Fintype.mem_piFinset] at hx
    rw [mem_XS]
    intro v c hvc
    have hxc := hx c
    by_cases hc : c ∈ Asg L
    · simp only [t, hc, if_true, mem_WS] at hxc
      refine hxc v (fun hv => hvc ⟨hv, ?_⟩)
      rw [hOW v hv]; exact hc
    · simp only [t, hc, if_false, Finset.mem_singleton] at hxc
      rw [hxc]; rfl
  · intro Z _; rfl
  · intro x _; rfl
  · intro Z _
    rw [← Finset.univ_inter (Asg (I := I) L), ← Finset.prod_ite_mem]

/-! ## factors, instances, the unrolled value -/

/-- A factor as the loop sees it: the ordinal it is filed under, the summed variables it mentions,
    and its value as a function of the plate context and the local values of the variables
    (free inputs / kept plates are fixed parameters of the whole development). -/
structure SFac (I : Pn → Type) (D : Vn → Type) (R : Type) where
  key : Finset Pn
  vars : Finset Vn
  fn : Ctx I → (∀ v, D v) → R

/-- the value only depends on the plates of `key` and the variables of `vars` -/
def SFac.WF (f : SFac I D R) : Prop :=
  ∀ c c' e e', (∀ p ∈ f.key, c p = c' p) → (∀ v ∈ f.vars, e v = e' v) → f.fn c e = f.fn c' e'

/-- product of all instances of `f`: instance `i` sees the copy of `v` in context `i` restricted to `O v` -/
def inst (O : Vn → Finset Pn) (X : XAsg I D) (f : SFac I D R) : R :=
  ∏ i ∈ Asg f.key, f.fn i (fun v => X v (rs (O v) i))

/-- **The unrolled value** of a multiset of factors with live variables `live`. -/
def U (O : Vn → Finset Pn) (live : Finset Vn) (facs : Multiset (SFac I D R)) : R :=
  ∑ X ∈ XS O live, (facs.map (inst O X)).prod

def override (W : Finset Vn) (e d : ∀ v, D v) : ∀ v, D v := fun v => if v ∈ W then d v else e v

/-- `reduce(prod_op, group).reduce(sum_op, W).reduce(prod_op, L - N)`, filed under `N`. -/
def newFac (L N : Finset Pn) (W nv : Finset Vn) (group : Multiset (SFac I D R)) : SFac I D R where
  key := N
  vars := nv
  fn := fun c e => ∏ k ∈ Asg (L \ N), ∑ d ∈ WS W,
    (group.map fun f => f.fn (merge N c k) (override W e d)).prod

theorem prod_map_finset_prod {α β : Type} (m : Multiset α) (s : Finset β) (g : α → β → R) :
    (m.map fun a => ∏ b ∈ s, g a b).prod = ∏ b ∈ s, (m.map fun a => g a b).prod := by
  induction m using Multiset.induction_on with
  | empty => simp
  | cons a m ih => simp [ih, Finset.prod_mul_distrib]

/-- **One component step preserves the unrolled value** (concrete copies, fixed types). -/
theorem elim_group (O : Vn → Finset Pn) {live W nv : Finset Vn} {L N : Finset Pn}
    (group rest : Multiset (SFac I D R))
    (hW : W ⊆ live) (hOW : ∀ w ∈ W, O w = L) (hkey : ∀ f ∈ group, f.key = L) (hN : N ⊆ L)
    (hrem : ∀ f ∈ group, ∀ v ∈ f.vars, v ∉ W → O v ⊆ N)
    (hwf : ∀ f ∈ group, f.WF) (hrest : ∀ f ∈ rest, f.WF ∧ Disjoint f.vars W) :
    U O live (group + rest) = U O (live \ W) (newFac L N W nv group ::ₘ rest) := by
  unfold U
  rw [sum_XS_split O hW]
  refine Finset.sum_congr rfl fun X' _ => ?_
  simp only [Multiset.map_add, Multiset.prod_add, Multiset.map_cons, Multiset.prod_cons]
  -- the factors outside the group do not see the copies of `W`
  have hA : ∀ Z : XAsg I D, (rest.map (inst O (comb W X' Z))).prod = (rest.map (inst O X')).prod := by
    intro Z
    refine congrArg Multiset.prod (Multiset.map_congr rfl fun f hf => ?_)
    unfold inst
    refine Finset.prod_congr rfl fun i _ => ?_
    refine (hrest f hf).1 _ _ _ _ (fun _ _ => rfl) (fun v hv => ?_)
    have : v ∉ W := fun hvW => (Finset.disjoint_left.1 (hrest f hf).2) hv hvW
    simp [comb, this]
  simp only [hA]
  rw [← Finset.sum_mul]
  congr 1
  -- the group: one function of the leaf context and the local values of `W`
  let G : Ctx I → (∀ v, D v) → R := fun i d =>
    (group.map fun f => f.fn i (fun v => if v ∈ W then d v else X' v (rs (O v) i))).prod
  have hG : ∀ Z : XAsg I D, (group.map (inst O (comb W X' Z))).prod
      = ∏ i ∈ Asg L, G i (fun v => Z v i) := by
    intro Z
    rw [← prod_map_finset_prod]
    refine congrArg Multiset.prod (Multiset.map_congr rfl fun f hf => ?_)
    unfold inst
    rw [hkey f hf]
    refine Finset.prod_congr rfl fun i hi => ?_
    congr 1
    funext v
    by_cases hv : v ∈ W
    · simp only [comb, hv, if_true]
      rw [hOW v hv, rs_of_mem hi]
    · simp [comb, hv]
  simp only [hG]
  rw [dist_pinned O hOW G, prod_Asg_split hN]
  unfold inst newFac
  refine Finset.prod_congr rfl fun j _ => Finset.prod_congr rfl fun k _ =>
    Finset.sum_congr rfl fun d _ => ?_
  refine congrArg Multiset.prod (Multiset.map_congr rfl fun f hf => ?_)
  refine hwf f hf _ _ _ _ (fun _ _ => rfl) (fun v hv => ?_)
  by_cases hvW : v ∈ W
  · simp [override, hvW]
  · simp only [override, hvW, if_false]
    rw [rs_merge_of_subset (hrem f hf v hv hvW)]

theorem newFac_WF {L N : Finset Pn} {W nv : Finset Vn} {group : Multiset (SFac I D R)}
    (hwf : ∀ f ∈ group, f.WF)
    (hnv : ∀ f ∈ group, ∀ v ∈ f.vars, v ∉ W → v ∈ nv) : (newFac L N W nv group).WF := by
  intro c c' e e' hc he
  unfold newFac
  refine Finset.prod_congr rfl fun k _ => Finset.sum_congr rfl fun d _ => ?_
  refine congrArg Multiset.prod (Multiset.map_congr rfl fun f hf => ?_)
  refine hwf f hf _ _ _ _ (fun p _ => ?_) (fun v hv => ?_)
  · by_cases hp : p ∈ N
    · simp only [merge, hp, if_true]; exact hc p hp
    · simp [merge, hp]
  · by_cases hvW : v ∈ W
    · simp [override, hvW]
    · simp only [override, hvW, if_false]; exact he v (hnv f hf v hv hvW)

/-! ## the state machine of the loop -/

/-- `ordinal_to_factors` (as a multiset of factors each carrying its key), the summed variables not
    yet eliminated, `results`. `var_to_ordinal` is the fixed `O`. -/
structure St (I : Pn → Type) (D : Vn → Type) (R : Type) where
  live : Finset Vn
  pending : Multiset (SFac I D R)
  results : Multiset (SFac I D R)

/-- unrolled value of a state: all remaining copies summed, all instances of pending factors and
    results multiplied -/
def St.val (O : Vn → Finset Pn) (s : St I D R) : R := U O s.live (s.pending + s.results)

/-- The loop invariant. -/
structure Inv (O : Vn → Finset Pn) (s : St I D R) : Prop where
  wf : ∀ f ∈ s.pending + s.results, f.WF
  /-- a summed variable's ordinal is inside the key of every pending factor mentioning it -/
  ord : ∀ f ∈ s.pending, ∀ v ∈ f.vars, O v ⊆ f.key
  pvars : ∀ f ∈ s.pending, f.vars ⊆ s.live
  occurs : ∀ v ∈ s.live, ∃ f ∈ s.pending, v ∈ f.vars
  rclosed : ∀ f ∈ s.results, f.vars = ∅ ∧ f.key = ∅

/-- One pass of the body of `for group_factors, group_vars in _partition(leaf_factors, leaf_vars)`,
    for ANY choice the code leaves open: any leaf of maximal size, any component in any order, the
    other components of the same leaf simply staying pending.
      `L`      the leaf,  `group`  the component,  `W`  = `group_vars & eliminate`,
      `nv`     = `remaining_sum_vars`,  `N` = `new_plates`.
    No step exists when `N = L` (the code raises "intractable!"). -/
inductive CompStep (O : Vn → Finset Pn) : St I D R → St I D R → Prop
  | toPending (s : St I D R) (L : Finset Pn) (group rest : Multiset (SFac I D R)) (W nv : Finset Vn)
      (hpend : s.pending = group + rest)
      (leafmax : ∀ f ∈ s.pending, f.key.card ≤ L.card)
      (gkey : ∀ f ∈ group, f.key = L)
      (hWl : ∀ w ∈ W, w ∈ s.live ∧ O w = L)
      (closed : ∀ f ∈ rest, f.key = L → Disjoint f.vars W)
      (hnv1 : ∀ f ∈ group, ∀ v ∈ f.vars, v ∉ W → v ∈ nv)
      (hnv2 : ∀ v ∈ nv, v ∉ W ∧ ∃ f ∈ group, v ∈ f.vars)
      (hne : nv.Nonempty) (htract : nv.biUnion O ≠ L) :
      CompStep O s ⟨s.live \ W, newFac L (nv.biUnion O) W nv group ::ₘ rest, s.results⟩
  | toResults (s : St I D R) (L : Finset Pn) (group rest : Multiset (SFac I D R)) (W : Finset Vn)
      (hpend : s.pending = group + rest)
      (leafmax : ∀ f ∈ s.pending, f.key.card ≤ L.card)
      (gkey : ∀ f ∈ group, f.key = L)
      (hWl : ∀ w ∈ W, w ∈ s.live ∧ O w = L)
      (closed : ∀ f ∈ rest, f.key = L → Disjoint f.vars W)
      (hnv1 : ∀ f ∈ group, ∀ v ∈ f.vars, v ∈ W) :
      CompStep O s ⟨s.live \ W, rest, newFac L ∅ W ∅ group ::ₘ s.results⟩

/-- what maximality of the leaf buys: the variables summed now occur in no factor outside the group -/
theorem rest_disjoint {O : Vn → Finset Pn} {s : St I D R} (hinv : Inv O s) {L : Finset Pn}
    {group rest : Multiset (SFac I D R)} {W : Finset Vn}
    (hpend : s.pending = group + rest) (leafmax : ∀ f ∈ s.pending, f.key.card ≤ L.card)
    (hWl : ∀ w ∈ W, w ∈ s.live ∧ O w = L) (closed : ∀ f ∈ rest, f.key = L → Disjoint f.vars W) :
    ∀ f ∈ rest, Disjoint f.vars W := by
  intro f hf
  have hfp : f ∈ s.pending := by rw [hpend]; exact Multiset.mem_add.2 (Or.inr hf)
  by_cases hk : f.key = L
  · exact closed f hf hk
  · rw [Finset.disjoint_left]
    intro v hv hvW
    have hsub : L ⊆ f.key := (hWl v hvW).2 ▸ hinv.ord f hfp v hv
    exact hk (Finset.eq_of_subset_of_card_le hsub (leafmax f hfp)).symm

/-- The GENERALIZED step (what soundness needs, nothing more): a group of pending factors filed under
    the same key `L`, a set `W` of live variables of ordinal `L` that no other factor mentions, the
    group replaced by `Π_{L \ N} Σ_W Π group` filed under ANY `N` with `new_plates ⊆ N ⊆ L`.
    * `N = new_plates`, leaf of maximal size: a step of a single call (`CompStep` below);
    * `N ⊋ new_plates`: a step of one of SEVERAL successive calls, which multiplies out only the plates
      the current call eliminates and leaves the others to a later call;
    * `N = L`: nothing is multiplied out — sound but no progress on plates; here the code raises
      "intractable!" when a summed variable remains. -/
inductive GStep (O : Vn → Finset Pn) : St I D R → St I D R → Prop
  | toPending (s : St I D R) (L N : Finset Pn) (group rest : Multiset (SFac I D R)) (W nv : Finset Vn)
      (hpend : s.pending = group + rest)
      (gkey : ∀ f ∈ group, f.key = L)
      (hWl : ∀ w ∈ W, w ∈ s.live ∧ O w = L)
      (hdis : ∀ f ∈ rest, Disjoint f.vars W)
      (hnv1 : ∀ f ∈ group, ∀ v ∈ f.vars, v ∉ W → v ∈ nv)
      (hnv2 : ∀ v ∈ nv, v ∉ W ∧ ∃ f ∈ group, v ∈ f.vars)
      (hN1 : nv.biUnion O ⊆ N) (hN2 : N ⊆ L) :
      GStep O s ⟨s.live \ W, newFac L N W nv group ::ₘ rest, s.results⟩
  | toResults (s : St I D R) (L : Finset Pn) (group rest : Multiset (SFac I D R)) (W : Finset Vn)
      (hpend : s.pending = group + rest)
      (gkey : ∀ f ∈ group, f.key = L)
      (hWl : ∀ w ∈ W, w ∈ s.live ∧ O w = L)
      (hdis : ∀ f ∈ rest, Disjoint f.vars W)
      (hnv1 : ∀ f ∈ group, ∀ v ∈ f.vars, v ∈ W) :
      GStep O s ⟨s.live \ W, rest, newFac L ∅ W ∅ group ::ₘ s.results⟩

/-- **A generalized step preserves the invariant and the unrolled value.** -/
theorem gStep_val {O : Vn → Finset Pn} {s s' : St I D R} (hinv : Inv O s) (h : GStep O s s') :
    Inv O s' ∧ s'.val O = s.val O := by
  cases h with
  | toPending L N group rest W nv hpend gkey hWl hdis hnv1 hnv2 hN1 hN2 =>
    have hgp : ∀ f ∈ group, f ∈ s.pending := fun f hf => by
      rw [hpend]; exact Multiset.mem_add.2 (Or.inl hf)
    have hrp : ∀ f ∈ rest, f ∈ s.pending := fun f hf => by
      rw [hpend]; exact Multiset.mem_add.2 (Or.inr hf)
    have hwfg : ∀ f ∈ group, f.WF := fun f hf => hinv.wf f (Multiset.mem_add.2 (Or.inl (hgp f hf)))
    refine ⟨⟨?_, ?_, ?_, ?_, hinv.rclosed⟩, ?_⟩
    · intro f hf
      rcases Multiset.mem_add.1 hf with hf | hf
      · rcases Multiset.mem_cons.1 hf with rfl | hf
        · exact newFac_WF hwfg hnv1
        · exact hinv.wf f (Multiset.mem_add.2 (Or.inl (hrp f hf)))
      · exact hinv.wf f (Multiset.mem_add.2 (Or.inr hf))
    · intro f hf v hv
      rcases Multiset.mem_cons.1 hf with rfl | hf
      · exact (Finset.subset_biUnion_of_mem O hv).trans hN1
      · exact hinv.ord f (hrp f hf) v hv
    · intro f hf v hv
      rcases Multiset.mem_cons.1 hf with rfl | hf
      · obtain ⟨hvW, g, hg, hvg⟩ := hnv2 v hv
        exact Finset.mem_sdiff.2 ⟨hinv.pvars g (hgp g hg) hvg, hvW⟩
      · exact Finset.mem_sdiff.2 ⟨hinv.pvars f (hrp f hf) hv,
          fun hvW => Finset.disjoint_left.1 (hdis f hf) hv hvW⟩
    · intro v hv
      obtain ⟨hvl, hvW⟩ := Finset.mem_sdiff.1 hv
      obtain ⟨f, hf, hvf⟩ := hinv.occurs v hvl
      rw [hpend] at hf
      rcases Multiset.mem_add.1 hf with hf | hf
      · exact ⟨_, Multiset.mem_cons_self _ _, hnv1 f hf v hvf hvW⟩
      · exact ⟨f, Multiset.mem_cons_of_mem hf, hvf⟩
    · unfold St.val
      simp only
      rw [hpend, add_assoc, Multiset.cons_add]
      refine (elim_group O group (rest + s.results) (fun w hw => (hWl w hw).1)
        (fun w hw => (hWl w hw).2) gkey hN2
        (fun f hf v hv hvW => (Finset.subset_biUnion_of_mem O (hnv1 f hf v hv hvW)).trans hN1) hwfg ?_).symm
      intro f hf
      rcases Multiset.mem_add.1 hf with hf | hf
      · exact ⟨hinv.wf f (Multiset.mem_add.2 (Or.inl (hrp f hf))), hdis f hf⟩
      · refine ⟨hinv.wf f (Multiset.mem_add.2 (Or.inr hf)), ?_⟩
        rw [(hinv.rclosed f hf).1]; exact Finset.disjoint_empty_left _
  | toResults L group rest W hpend gkey hWl hdis hnv1 =>
    have hgp : ∀ f ∈ group, f ∈ s.pending := fun f hf => by
      rw [hpend]; exact Multiset.mem_add.2 (Or.inl hf)
    have hrp : ∀ f ∈ rest, f ∈ s.pending := fun f hf => by
      rw [hpend]; exact Multiset.mem_add.2 (Or.inr hf)
    have hwfg : ∀ f ∈ group, f.WF := fun f hf => hinv.wf f (Multiset.mem_add.2 (Or.inl (hgp f hf)))
    refine ⟨⟨?_, ?_, ?_, ?_, ?_⟩, ?_⟩
    · intro f hf
      rcases Multiset.mem_add.1 hf with hf | hf
      · exact hinv.wf f (Multiset.mem_add.2 (Or.inl (hrp f hf)))
      · rcases Multiset.mem_cons.1 hf with rfl | hf
        · exact newFac_WF hwfg (fun f hf v hv hvW => absurd (hnv1 f hf v hv) hvW)
        · exact hinv.wf f (Multiset.mem_add.2 (Or.inr hf))
    · intro f hf v hv
      exact hinv.ord f (hrp f hf) v hv
    · intro f hf v hv
      exact Finset.mem_sdiff.2 ⟨hinv.pvars f (hrp f hf) hv,
        fun hvW => Finset.disjoint_left.1 (hdis f hf) hv hvW⟩
    · intro v hv
      obtain ⟨hvl, hvW⟩ := Finset.mem_sdiff.1 hv
      obtain ⟨f, hf, hvf⟩ := hinv.occurs v hvl
      rw [hpend] at hf
      rcases Multiset.mem_add.1 hf with hf | hf
      · exact absurd (hnv1 f hf v hvf) hvW
      · exact ⟨f, hf, hvf⟩
    · intro f hf
      rcases Multiset.mem_cons.1 hf with rfl | hf
      · exact ⟨rfl, rfl⟩
      · exact hinv.rclosed f hf
    · unfold St.val
      simp only
      rw [hpend, add_assoc, Multiset.add_cons]
      refine (elim_group (nv := ∅) O group (rest + s.results) (fun w hw => (hWl w hw).1)
        (fun w hw => (hWl w hw).2) gkey (Finset.empty_subset L)
        (fun f hf v hv hvW => absurd (hnv1 f hf v hv) hvW) hwfg ?_).symm
      intro f hf
      rcases Multiset.mem_add.1 hf with hf | hf
      · exact ⟨hinv.wf f (Multiset.mem_add.2 (Or.inl (hrp f hf))), hdis f hf⟩
      · refine ⟨hinv.wf f (Multiset.mem_add.2 (Or.inr hf)), ?_⟩
        rw [(hinv.rclosed f hf).1]; exact Finset.disjoint_empty_left _


/-- A step of the code is a generalized step: maximality of the leaf and closedness of the component
    give `hdis` (`rest_disjoint`), the invariant gives `new_plates ⊆ leaf`. -/
theorem CompStep.toG {O : Vn → Finset Pn} {s s' : St I D R} (hinv : Inv O s) (h : CompStep O s s') :
    GStep O s s' := by
  cases h with
  | toPending L group rest W nv hpend leafmax gkey hWl closed hnv1 hnv2 hne htract =>
    refine GStep.toPending s L _ group rest W nv hpend gkey hWl
      (rest_disjoint hinv hpend leafmax hWl closed) hnv1 hnv2 (Finset.Subset.refl _) ?_
    refine Finset.biUnion_subset.2 fun v hv => ?_
    obtain ⟨_, f, hf, hvf⟩ := hnv2 v hv
    have hfp : f ∈ s.pending := by rw [hpend]; exact Multiset.mem_add.2 (Or.inl hf)
    exact gkey f hf ▸ hinv.ord f hfp v hvf
  | toResults L group rest W hpend leafmax gkey hWl closed hnv1 =>
    exact GStep.toResults s L group rest W hpend gkey hWl
      (rest_disjoint hinv hpend leafmax hWl closed) hnv1

theorem compStep_val {O : Vn → Finset Pn} {s s' : St I D R} (hinv : Inv O s) (h : CompStep O s s') :
    Inv O s' ∧ s'.val O = s.val O :=
  gStep_val hinv (h.toG hinv)

/-! ## runs -/

/-- any sequence of component steps: every leaf choice, every component order, every interleaving -/
def Reaches (O : Vn → Finset Pn) : St I D R → St I D R → Prop := Relation.ReflTransGen (CompStep O)

/-- The invariant and the unrolled value are preserved along every run. -/
theorem run_val {O : Vn → Finset Pn} {s s' : St I D R} (hinv : Inv O s) (h : Reaches O s s') :
    Inv O s' ∧ s'.val O = s.val O := by
  induction h with
  | refl => exact ⟨hinv, rfl⟩
  | tail _ hstep ih =>
    obtain ⟨hi, hv⟩ := ih
    obtain ⟨hi', hv'⟩ := compStep_val hi hstep
    exact ⟨hi', hv'.trans hv⟩

theorem XS_empty (O : Vn → Finset Pn) : XS (I := I) (D := D) O ∅ = {fun _ _ => default} := by
  ext X
  rw [mem_XS, Finset.mem_singleton]
  constructor
  · intro h; funext v c; exact h v c (fun hh => absurd hh.1 (Finset.notMem_empty v))
  · intro h v c _; rw [h]

theorem Asg_empty : Asg (I := I) ∅ = {default} := by
  ext c
  rw [mem_Asg, Finset.mem_singleton]
  constructor
  · intro h; funext p; exact h p (Finset.notMem_empty p)
  · intro h p _; rw [h]; rfl

/-- When nothing is pending the unrolled value is the product of the results (`sum_product`). -/
theorem final_val {O : Vn → Finset Pn} {s : St I D R} (hinv : Inv O s) (hp : s.pending = 0) :
    s.val O = (s.results.map fun f => f.fn default default).prod := by
  have hlive : s.live = ∅ := by
    refine Finset.eq_empty_of_forall_notMem fun v hv => ?_
    obtain ⟨f, hf, _⟩ := hinv.occurs v hv
    rw [hp] at hf
    exact absurd hf (Multiset.notMem_zero f)
  unfold St.val U
  rw [hlive, XS_empty, Finset.sum_singleton, hp, zero_add]
  refine congrArg Multiset.prod (Multiset.map_congr rfl fun f hf => ?_)
  unfold inst
  rw [(hinv.rclosed f hf).2, Asg_empty, Finset.prod_singleton]
  rfl

/-- The invariant holds initially: `var_to_ordinal[v]` is the intersection of the ordinals of the
    factors mentioning `v`, the live variables are the summed variables that occur somewhere. -/
theorem inv_initial (O : Vn → Finset Pn) (facs : Multiset (SFac I D R)) (live : Finset Vn)
    (hwf : ∀ f ∈ facs, f.WF) (hvars : ∀ f ∈ facs, f.vars ⊆ live)
    (hocc : ∀ v ∈ live, ∃ f ∈ facs, v ∈ f.vars)
    (hO : ∀ v p, p ∈ O v ↔ ∀ f ∈ facs, v ∈ f.vars → p ∈ f.key) :
    Inv O (⟨live, facs, 0⟩ : St I D R) where
  wf := fun f hf => hwf f (by simpa using hf)
  ord := fun f hf v hv p hp => (hO v p).1 hp f hf hv
  pvars := hvars
  occurs := hocc
  rclosed := fun f hf => absurd hf (Multiset.notMem_zero f)

/-- **`sum_product_exact`** (semantic state machine, every plate structure, every run):
    start from the input factors filed under their ordinals, apply component steps in ANY order the
    code could choose (any maximal leaf, any component first); if the loop finishes — it did not stop
    at a component with `new_plates = leaf`, for which no step exists ("intractable!") — then the product
    of the results is the unrolled value of the original graph: one copy of every summed variable per
    assignment of the plates it lives in, one instance of every factor per assignment of its plates. -/
theorem sum_product_exact (O : Vn → Finset Pn) (facs : Multiset (SFac I D R)) (live : Finset Vn)
    (hwf : ∀ f ∈ facs, f.WF) (hvars : ∀ f ∈ facs, f.vars ⊆ live)
    (hocc : ∀ v ∈ live, ∃ f ∈ facs, v ∈ f.vars)
    (hO : ∀ v p, p ∈ O v ↔ ∀ f ∈ facs, v ∈ f.vars → p ∈ f.key)
    {s : St I D R} (hrun : Reaches O ⟨live, facs, 0⟩ s) (hdone : s.pending = 0) :
    (s.results.map fun f => f.fn default default).prod = U O live facs := by
  obtain ⟨hinv, hval⟩ := run_val (inv_initial O facs live hwf hvars hocc hO) hrun
  rw [← final_val hinv hdone, hval]
  simp [St.val]

/-- Several successive calls: if the steps taken by the first call are steps of the one-shot machine
    (which is what an inner-first split guarantees: the first call never multiplies out a plate that a
    kept variable lives in, and sees the not-yet-eliminated plates uniformly), the second call simply
    continues the run, and the composite equals the one-shot unrolling.  Any number of calls. -/
theorem calls_compose (O : Vn → Finset Pn) (facs : Multiset (SFac I D R)) (live : Finset Vn)
    (hwf : ∀ f ∈ facs, f.WF) (hvars : ∀ f ∈ facs, f.vars ⊆ live)
    (hocc : ∀ v ∈ live, ∃ f ∈ facs, v ∈ f.vars)
    (hO : ∀ v p, p ∈ O v ↔ ∀ f ∈ facs, v ∈ f.vars → p ∈ f.key)
    {s₁ s₂ : St I D R} (hcall₁ : Reaches O ⟨live, facs, 0⟩ s₁) (hcall₂ : Reaches O s₁ s₂)
    (hdone : s₂.pending = 0) :
    (s₂.results.map fun f => f.fn default default).prod = U O live facs :=
  sum_product_exact O facs live hwf hvars hocc hO (Relation.ReflTransGen.trans hcall₁ hcall₂) hdone

/-- After the first of several calls the value is already the same: what the first call returns
    (pending factors and results together) unrolls to the original value. -/
theorem partial_call_exact (O : Vn → Finset Pn) (facs : Multiset (SFac I D R)) (live : Finset Vn)
    (hwf : ∀ f ∈ facs, f.WF) (hvars : ∀ f ∈ facs, f.vars ⊆ live)
    (hocc : ∀ v ∈ live, ∃ f ∈ facs, v ∈ f.vars)
    (hO : ∀ v p, p ∈ O v ↔ ∀ f ∈ facs, v ∈ f.vars → p ∈ f.key)
    {s₁ : St I D R} (hcall₁ : Reaches O ⟨live, facs, 0⟩ s₁) :
    U O s₁.live (s₁.pending + s₁.results) = U O live facs := by
  have := (run_val (inv_initial O facs live hwf hvars hocc hO) hcall₁).2
  simpa [St.val] using this

/-! ## several successive calls -/

/-- any sequence of generalized steps -/
def ReachesG (O : Vn → Finset Pn) : St I D R → St I D R → Prop := Relation.ReflTransGen (GStep O)

theorem runG_val {O : Vn → Finset Pn} {s s' : St I D R} (hinv : Inv O s) (h : ReachesG O s s') :
    Inv O s' ∧ s'.val O = s.val O := by
  induction h with
  | refl => exact ⟨hinv, rfl⟩
  | tail _ hstep ih =>
    obtain ⟨hi, hv⟩ := ih
    obtain ⟨hi', hv'⟩ := gStep_val hi hstep
    exact ⟨hi', hv'.trans hv⟩

/-- a run of the code is a run of generalized steps -/
theorem Reaches.toG {O : Vn → Finset Pn} {s s' : St I D R} (hinv : Inv O s) (h : Reaches O s s') :
    ReachesG O s s' := by
  induction h with
  | refl => exact Relation.ReflTransGen.refl
  | tail hrun hstep ih =>
    exact Relation.ReflTransGen.tail ih (hstep.toG (run_val hinv hrun).1)

/-- **`calls_exact`** — `partial_sum_product` applied in one or in SEVERAL successive calls: any finite
    sequence of generalized steps (each call multiplying out only the plates it eliminates, summing only
    the variables it eliminates, in any order and with any grouping into calls) that ends with nothing
    pending returns the unrolled value of the original graph.  This subsumes `sum_product_exact`
    (`Reaches.toG`) and the two-plate schema `two_calls_eq_one` of Props/C09.lean; what is NOT proved is
    that the steps of a call with `eliminate = E₁` on the real code are generalized steps of the
    one-shot machine exactly when the split is inner-first (`split_valid` of the harness): that is
    checked by the correspondence (4087 valid splits per quick run, 0 mismatches). -/
theorem calls_exact (O : Vn → Finset Pn) (facs : Multiset (SFac I D R)) (live : Finset Vn)
    (hwf : ∀ f ∈ facs, f.WF) (hvars : ∀ f ∈ facs, f.vars ⊆ live)
    (hocc : ∀ v ∈ live, ∃ f ∈ facs, v ∈ f.vars)
    (hO : ∀ v p, p ∈ O v ↔ ∀ f ∈ facs, v ∈ f.vars → p ∈ f.key)
    {s : St I D R} (hrun : ReachesG O ⟨live, facs, 0⟩ s) (hdone : s.pending = 0) :
    (s.results.map fun f => f.fn default default).prod = U O live facs := by
  obtain ⟨hinv, hval⟩ := runG_val (inv_initial O facs live hwf hvars hocc hO) hrun
  rw [← final_val hinv hdone, hval]
  simp [St.val]

/-- … and after any prefix of the calls the factors returned so far still unroll to the original value. -/
theorem calls_prefix_exact (O : Vn → Finset Pn) (facs : Multiset (SFac I D R)) (live : Finset Vn)
    (hwf : ∀ f ∈ facs, f.WF) (hvars : ∀ f ∈ facs, f.vars ⊆ live)
    (hocc : ∀ v ∈ live, ∃ f ∈ facs, v ∈ f.vars)
    (hO : ∀ v p, p ∈ O v ↔ ∀ f ∈ facs, v ∈ f.vars → p ∈ f.key)
    {s₁ : St I D R} (hcalls : ReachesG O ⟨live, facs, 0⟩ s₁) :
    U O s₁.live (s₁.pending + s₁.results) = U O live facs := by
  have := (runG_val (inv_initial O facs live hwf hvars hocc hO) hcalls).2
  simpa [St.val] using this

/-! ## the `modified_` / `dynamic_partial_sum_product` bookkeeping (empty Markov steps)

  These variants file factors under ordinals over ALL plates of `plate_to_step` (`Lc`, `Oc`: "code" keys,
  kept plates included) and, on HEAD, multiply out `(leaf - new_plates) & prod_vars` (pending branch) and
  `leaf & prod_vars` (results branch).  In the machine of the ELIMINATED plates `Pe` (kept plates are
  parameters, like free variables) a factor's key is `Lc ∩ Pe` and a variable's ordinal `Oc v ∩ Pe`. -/

theorem inter_sdiff_inter (Lc Nc Pe : Finset Pn) (h : Nc ⊆ Lc) :
    (Lc ∩ Pe) \ ((Lc \ Nc) ∩ Pe) = Nc ∩ Pe := by
  ext p
  simp only [Finset.mem_sdiff, Finset.mem_inter, not_and]
  constructor
  · rintro ⟨⟨hL, hP⟩, h2⟩
    exact ⟨by_contra fun hN => absurd hP (fun hP => by
      have := h2 ⟨hL, hN⟩; exact this hP), hP⟩
  · rintro ⟨hN, hP⟩
    exact ⟨⟨h hN, hP⟩, fun h3 _ => h3.2 hN⟩

/-- **A step of the modified/dynamic variants (as on HEAD) is a generalized step** of the machine of the
    eliminated plates: leaf `Lc ∩ Pe`, new key `new_plates ∩ Pe`, the plates multiplied out are exactly
    `(Lc - new_plates) & prod_vars`.  Hence `calls_exact` covers these variants too. -/
theorem modified_step_isGStep (Pe : Finset Pn) (Oc : Vn → Finset Pn) (s : St I D R)
    (Lc : Finset Pn) (group rest : Multiset (SFac I D R)) (W nv : Finset Vn)
    (hpend : s.pending = group + rest)
    (gkey : ∀ f ∈ group, f.key = Lc ∩ Pe)
    (hWl : ∀ w ∈ W, w ∈ s.live ∧ Oc w = Lc)
    (hdis : ∀ f ∈ rest, Disjoint f.vars W)
    (hnv1 : ∀ f ∈ group, ∀ v ∈ f.vars, v ∉ W → v ∈ nv)
    (hnv2 : ∀ v ∈ nv, v ∉ W ∧ ∃ f ∈ group, v ∈ f.vars)
    (hsub : nv.biUnion Oc ⊆ Lc) :
    GStep (fun v => Oc v ∩ Pe) s
      ⟨s.live \ W,
       newFac (Lc ∩ Pe) ((Lc ∩ Pe) \ ((Lc \ nv.biUnion Oc) ∩ Pe)) W nv group ::ₘ rest, s.results⟩ := by
  rw [inter_sdiff_inter Lc _ Pe hsub]
  refine GStep.toPending s (Lc ∩ Pe) (nv.biUnion Oc ∩ Pe) group rest W nv hpend gkey
    (fun w hw => ⟨(hWl w hw).1, by rw [(hWl w hw).2]⟩) hdis hnv1 hnv2 ?_ ?_
  · intro p hp
    obtain ⟨v, hv, hpv⟩ := Finset.mem_biUnion.1 hp
    exact Finset.mem_inter.2 ⟨Finset.mem_biUnion.2 ⟨v, hv, (Finset.mem_inter.1 hpv).1⟩,
      (Finset.mem_inter.1 hpv).2⟩
  · exact Finset.inter_subset_inter_right hsub

/-- **Witness for seeded defect C09_3** (`& prod_vars` dropped in `dynamic_partial_sum_product`, a partial
    revert of fix f15cd2e): `f(a) = [1,2]`, `g(a,i) = [[1,2],[3,4]]`, eliminate `{a}`, plate `i` KEPT.
    The mutant multiplies the kept plate out, i.e. performs the step of the machine in which `i` IS
    eliminated, and returns `Σ_a f a · Π_i g a i = 26`; the property demands `Σ_a f a · g a i` at each
    kept index: `7` and `10`.  Multiplying out a plate outside `Pe` is therefore not value-preserving —
    the guard `& prod_vars` in `modified_step_isGStep` is necessary. -/
theorem C09_3_witness :
    let f : Bool → ℕ := fun a => if a then 2 else 1
    let g : Bool → Bool → ℕ := fun a i => if a then (if i then 4 else 3) else (if i then 2 else 1)
    (∑ a, f a * ∏ i, g a i) = 26 ∧ (∑ a, f a * g a false) = 7 ∧ (∑ a, f a * g a true) = 10 ∧
      (∑ a, f a * ∏ i, g a i) ≠ ∑ a, f a * g a false ∧ (∑ a, f a * ∏ i, g a i) ≠ ∑ a, f a * g a true := by
  decide

/-! ## non-vacuity: a concrete finished run -/

section Example

/-- one plate of size 2, one boolean variable living in it, one factor `g(i, x)` -/
def exFac (g : Bool → Bool → ℕ) : SFac (fun _ : Unit => Bool) (fun _ : Unit => Bool) ℕ :=
  ⟨Finset.univ, Finset.univ, fun c e => g (c ()) (e ())⟩

/-- The hypotheses of `sum_product_exact` are satisfiable and a finished run exists: the loop sums `x`
    inside the plate and multiplies the plate out, `Π_i Σ_x g i x`, which is the unrolled value
    `Σ_{x₀ x₁} g 0 x₀ * g 1 x₁`. -/
example (g : Bool → Bool → ℕ) :
    (newFac (Finset.univ : Finset Unit) ∅ (Finset.univ : Finset Unit) ∅ {exFac g}).fn default default
      = U (fun _ : Unit => (Finset.univ : Finset Unit)) Finset.univ {exFac g} := by
  have hrun : Reaches (fun _ : Unit => (Finset.univ : Finset Unit))
      (⟨Finset.univ, {exFac g}, 0⟩ : St (fun _ : Unit => Bool) (fun _ : Unit => Bool) ℕ)
      ⟨Finset.univ \ Finset.univ, 0, newFac Finset.univ ∅ Finset.univ ∅ {exFac g} ::ₘ 0⟩ :=
    Relation.ReflTransGen.single
      (CompStep.toResults ⟨Finset.univ, {exFac g}, 0⟩ Finset.univ {exFac g} 0 Finset.univ
        (by simp) (by simp [exFac]) (by simp [exFac]) (by simp) (by simp) (by simp))
  have := sum_product_exact (fun _ : Unit => (Finset.univ : Finset Unit)) {exFac g} Finset.univ
    (by
      intro f hf c c' e e' hc he
      rw [Multiset.mem_singleton] at hf
      subst hf
      simp only [exFac] at hc he ⊢
      rw [hc () (Finset.mem_univ _), he () (Finset.mem_univ _)])
    (by simp [exFac]) (by intro v _; exact ⟨exFac g, by simp, by simp [exFac]⟩)
    (by intro v p; simp [exFac]) hrun rfl
  simpa using this

end Example

end FV.Props.C09.Run
