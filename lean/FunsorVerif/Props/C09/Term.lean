/-
  Props/C09/Term.lean — leaf selection is total / first-maximal, and the elimination loop terminates.

  (a) `psp_loop_refines_plated_spec_total`: the scheduling half of the plated executable refinement
      (`Loop.psp_loop_refines_plated_spec_partial`) with its hypothesis `chooseLeaf st.pending = some leaf`
      WEAKENED to `st.pending ≠ []` (the `while ordinal_to_factors` test): the selection cannot fail on a
      non-empty map, the selected key is the FIRST key of maximal length (python's `max(..., key=len)`
      tie-break, `chooseLeaf_first_max`), and the loop really continues with that key.
  (b) termination: the measure `mu pending = Σ_(k,fs) (1 + |fs|·(|k|+1))` strictly decreases in every
      iteration (`iteration_measure_decreases`) as soon as a re-filed key is strictly shorter than the leaf
      (`Descending`; in the source `new_plates ⊊ leaf`: the `new_plates == leaf` case raises
      "intractable!"), hence `pspLoop` never runs out of fuel once `fuel > mu` (`pspLoop_terminates`),
      and more fuel never changes an answer (`pspLoop_fuel_mono`).  Hypothesis-free facts used on the way:
      `_partition` yields at most as many components as factors (`partition_length_le`), one component
      files at most one factor and never under the leaf key (`component_pending_shape`).

  FULL STATEMENT (not proved): `psp o fs elim plates scales m p ≠ .error .fuel` for every input.  Missing:
  `Descending (mkCfg …) leaf` along every reachable state, i.e. the stability of recomputed ordinals
  (every summed variable left in a factor filed under `k` has its `var_to_ordinal` ⊆ `k`) — the same
  missing link as for the value half (Props/C09/Plated.lean).
-/
import FunsorVerif.Props.C09.Loop
import FunsorVerif.Props.C09.NoPlates

namespace FV.Props.C09.Term
open FV.C09

variable {α : Type}

abbrev Pend (α : Type) := List (List Name × List (Factor α))

/-! ## (a) leaf selection -/

/-- `max(ordinal_to_factors, key=len)` fails exactly on the empty map. -/
theorem chooseLeaf_eq_none_iff : ∀ (p : Pend α), chooseLeaf p = none ↔ p = []
  | [] => by simp [chooseLeaf]
  | (k, fs) :: rest => by
    simp only [chooseLeaf]
    cases chooseLeaf rest with
    | none => simp
    | some k' => by_cases h : k'.length > k.length <;> simp [h]

theorem chooseLeaf_total (p : Pend α) (h : p ≠ []) : ∃ leaf, chooseLeaf p = some leaf := by
  cases hc : chooseLeaf p with
  | none => exact absurd ((chooseLeaf_eq_none_iff p).1 hc) h
  | some l => exact ⟨l, rfl⟩

/-- The selected key is the FIRST key of maximal length: everything before it is strictly shorter,
    everything after it is at most as long. -/
theorem chooseLeaf_first_max : ∀ (p : Pend α) (leaf : List Name), chooseLeaf p = some leaf →
    ∃ pre fs post, p = pre ++ (leaf, fs) :: post ∧ (∀ kf ∈ pre, kf.1.length < leaf.length) ∧
      (∀ kf ∈ post, kf.1.length ≤ leaf.length)
  | [], leaf, h => by simp [chooseLeaf] at h
  | (k, fs) :: rest, leaf, h => by
    simp only [chooseLeaf] at h
    cases hr : chooseLeaf rest with
    | none =>
      rw [hr] at h
      have hk : k = leaf := by simpa using h
      have : rest = [] := (chooseLeaf_eq_none_iff rest).1 hr
      subst this; subst hk
      exact ⟨[], fs, [], rfl, by simp, by simp⟩
    | some k' =>
      rw [hr] at h
      by_cases hlt : k'.length > k.length
      · have hk : k' = leaf := by simpa [hlt] using h
        subst hk
        obtain ⟨pre, fs', post, e, h1, h2⟩ := chooseLeaf_first_max rest k' hr
        refine ⟨(k, fs) :: pre, fs', post, by simp [e], ?_, h2⟩
        intro kf hkf
        rcases List.mem_cons.1 hkf with rfl | hkf
        · exact hlt
        · exact h1 kf hkf
      · have hk : k = leaf := by simpa [hlt] using h
        subst hk
        refine ⟨[], fs, rest, rfl, by simp, ?_⟩
        intro kf hkf
        have := FV.Props.C09.chooseLeaf_max rest k' hr kf hkf
        omega

/-- With the first-maximal decomposition the popped factors are those of that entry. -/
theorem lookup_first_max (pre post : Pend α) (leaf : List Name) (fs : List (Factor α))
    (h1 : ∀ kf ∈ pre, kf.1.length < leaf.length) :
    (pre ++ (leaf, fs) :: post).lookup leaf = some fs := by
  induction pre with
  | nil => simp
  | cons x pre ih =>
    have hx : x.1.length < leaf.length := h1 x (by simp)
    have hne : (leaf == x.1) = false := by
      apply beq_false_of_ne; intro e; rw [e] at hx; omega
    obtain ⟨xk, xv⟩ := x
    simp only [List.cons_append, List.lookup, hne]
    exact ih (fun kf hkf => h1 kf (List.mem_cons_of_mem _ hkf))

/-- **Scheduling half of the plated refinement, hypothesis weakened**: `Loop.psp_loop_refines_plated_spec_partial`
    assumed `chooseLeaf st.pending = some leaf`; here only the loop test `st.pending ≠ []` is assumed.
    The selection then succeeds, selects the first key of maximal length, pops exactly that entry's
    factors, partitions them into components no two of which share a leaf variable, and the loop
    continues with the popped map (or stops with the component's error). -/
theorem psp_loop_refines_plated_spec_total (o : Ops α) (c : Cfg) (st : St α) (fuel : Nat)
    (hne : st.pending ≠ []) :
    ∃ leaf pre fs post,
      chooseLeaf st.pending = some leaf ∧
      st.pending = pre ++ (leaf, fs) :: post ∧
      (∀ kf ∈ pre, kf.1.length < leaf.length) ∧ (∀ kf ∈ post, kf.1.length ≤ leaf.length) ∧
      (let vars := (c.O.filter (·.2 == leaf)).map (·.1)
       List.Perm ((partition vars fs.length fs).map (·.1)).flatten fs ∧
       (partition vars fs.length fs).Pairwise (fun a b => ∀ v ∈ a.2, ∀ g ∈ b.1, g.has v = false) ∧
       pspLoop o c (fuel + 1) st =
         match (partition vars fs.length fs).foldlM (component o c leaf)
             { st with pending := st.pending.filter (·.1 != leaf) } with
         | .error e => .error e
         | .ok st'' => pspLoop o c fuel st'') := by
  obtain ⟨leaf, hl⟩ := chooseLeaf_total st.pending hne
  obtain ⟨pre, fs, post, e, h1, h2⟩ := chooseLeaf_first_max st.pending leaf hl
  have hlk : (st.pending.lookup leaf).getD [] = fs := by
    rw [e, lookup_first_max pre post leaf fs h1]; rfl
  refine ⟨leaf, pre, fs, post, hl, e, h1, h2, ?_, ?_, ?_⟩
  · exact FV.Props.C09.Exec.partition_perm _ _ _ (Nat.le_refl _)
  · exact FV.Props.C09.Exec.partition_groupvars_disjoint _ _
  · simp only [pspLoop, hl, hlk]
    rfl

example : ∃ st : St Nat, st.pending ≠ [] := ⟨⟨[([], [])], []⟩, by simp⟩

/-! ## (b) termination -/

/-- the loop measure: one unit per key, `|k|+1` per factor filed under `k` -/
def mu : Pend α → Nat
  | [] => 0
  | (k, fs) :: rest => 1 + fs.length * (k.length + 1) + mu rest

/-- `new_plates` of a factor, as computed in `component` -/
def newPlatesOf (c : Cfg) (f : Factor α) : List Name :=
  sset ((c.S.filter f.has).flatMap fun v => (c.O.lookup v).getD [])

/-- what the source guarantees by `new_plates ⊆ leaf`, `new_plates ≠ leaf`: a re-filed key is shorter -/
def Descending (α : Type) (c : Cfg) (leaf : List Name) : Prop :=
  ∀ f : Factor α, newPlatesOf c f ≠ leaf → (newPlatesOf c f).length < leaf.length

theorem partition_length_le (vars : List Name) : ∀ (fuel : Nat) (l : List (Factor α)),
    (partition vars fuel l).length ≤ l.length
  | 0, l => by simp [partition]
  | _ + 1, [] => by simp [partition]
  | fuel + 1, f :: rest => by
    simp only [partition, List.length_cons]
    have h1 := partition_length_le vars fuel (grow vars rest.length [f] rest).2
    have h2 := FV.Props.C09.Exec.grow_length vars rest.length [f] rest
    omega

theorem mu_addPending_le (k : List Name) (f : Factor α) : ∀ (p : Pend α),
    mu (addPending k f p) ≤ mu p + (k.length + 2)
  | [] => by simp [addPending, mu]; omega
  | (k', fs) :: rest => by
    unfold addPending
    split
    · rename_i h
      have : k' = k := by simpa using h
      subst this
      simp only [mu, List.length_append, List.length_cons, List.length_nil, Nat.add_mul]
      omega
    · simp only [mu]
      have := mu_addPending_le k f rest
      omega

theorem mu_pop (leaf : List Name) : ∀ (p : Pend α), leaf ∈ p.map (·.1) →
    mu (p.filter (·.1 != leaf)) + 1 + ((p.lookup leaf).getD []).length * (leaf.length + 1) ≤ mu p
  | [], h => by simp at h
  | (k, fs) :: rest, h => by
    have hmono : ∀ q : Pend α, mu (q.filter (·.1 != leaf)) ≤ mu q := by
      intro q
      induction q with
      | nil => simp [mu]
      | cons x q ih =>
        obtain ⟨xk, xv⟩ := x
        by_cases hx : (xk != leaf) = true
        · simp only [List.filter_cons, hx, if_true, mu]; omega
        · simp only [List.filter_cons, hx, mu]; simp only [Bool.false_eq_true, if_false]; omega
    by_cases hk : k = leaf
    · subst hk
      simp only [List.filter_cons, bne_self_eq_false, Bool.false_eq_true, if_false, List.lookup,
        beq_self_eq_true, Option.getD_some, mu]
      have := hmono rest
      omega
    · have hne : (k != leaf) = true := by simpa using hk
      have hne' : (leaf == k) = false := by
        apply beq_false_of_ne; exact fun e => hk e.symm
      have hin : leaf ∈ rest.map (·.1) := by
        simp only [List.map_cons, List.mem_cons] at h
        rcases h with h | h
        · exact absurd h.symm hk
        · exact h
      simp only [List.filter_cons, hne, if_true, List.lookup, hne', mu]
      have := mu_pop leaf rest hin
      omega

/-- One component files at most one factor, never under the leaf key, and only in the pending map. -/
theorem component_pending_shape (o : Ops α) (c : Cfg) (leaf : List Name) (st st' : St α)
    (grp : List (Factor α) × List Name) (h : component o c leaf st grp = .ok st') :
    st'.pending = st.pending ∨
    ∃ f g : Factor α, newPlatesOf c f ≠ leaf ∧ st'.pending = addPending (newPlatesOf c f) g st.pending := by
  unfold component at h
  split at h
  · cases h
  · rename_i f hf
    simp only at h
    split at h
    · split at h
      · cases h
      · injection h with h; subst h; exact Or.inl rfl
    · split at h
      · cases h
      · rename_i hnp
        split at h
        · cases h
        · injection h with h; subst h
          refine Or.inr ⟨f, _, ?_, rfl⟩
          simpa [newPlatesOf] using hnp

theorem component_mu (o : Ops α) (c : Cfg) (leaf : List Name) (hd : Descending α c leaf) (st st' : St α)
    (grp : List (Factor α) × List Name) (h : component o c leaf st grp = .ok st') :
    mu st'.pending ≤ mu st.pending + (leaf.length + 1) := by
  rcases component_pending_shape o c leaf st st' grp h with e | ⟨f, g, hne, e⟩
  · rw [e]; omega
  · rw [e]
    have h1 := mu_addPending_le (newPlatesOf c f) g st.pending
    have h2 := hd f hne
    omega

theorem foldlM_component_mu (o : Ops α) (c : Cfg) (leaf : List Name) (hd : Descending α c leaf) :
    ∀ (comps : List (List (Factor α) × List Name)) (st st' : St α),
      comps.foldlM (component o c leaf) st = .ok st' →
      mu st'.pending ≤ mu st.pending + comps.length * (leaf.length + 1)
  | [], st, st', h => by
    simp only [List.foldlM, pure, Except.pure] at h
    injection h with h; subst h; simp
  | grp :: comps, st, st', h => by
    simp only [List.foldlM, bind, Except.bind] at h
    split at h
    · cases h
    · rename_i s1 h1
      have a := component_mu o c leaf hd st s1 grp h1
      have b := foldlM_component_mu o c leaf hd comps s1 st' h
      simp only [List.length_cons, Nat.add_mul] at *
      omega

/-- **The loop measure strictly decreases in every iteration** (leaf selected by the loop, re-filed keys
    shorter than the leaf). -/
theorem iteration_measure_decreases (o : Ops α) (c : Cfg) (st st'' : St α) (leaf : List Name)
    (hl : chooseLeaf st.pending = some leaf) (hd : Descending α c leaf)
    (h : (partition ((c.O.filter (·.2 == leaf)).map (·.1)) ((st.pending.lookup leaf).getD []).length
            ((st.pending.lookup leaf).getD [])).foldlM (component o c leaf)
            { st with pending := st.pending.filter (·.1 != leaf) } = .ok st'') :
    mu st''.pending < mu st.pending := by
  have h1 := foldlM_component_mu o c leaf hd _ _ _ h
  have h2 := mu_pop leaf st.pending (FV.Props.C09.chooseLeaf_mem _ _ hl)
  have h3 := partition_length_le ((c.O.filter (·.2 == leaf)).map (·.1))
    ((st.pending.lookup leaf).getD []).length ((st.pending.lookup leaf).getD [])
  have h4 := Nat.mul_le_mul_right (leaf.length + 1) h3
  simp only at h1
  omega

theorem component_no_fuel (o : Ops α) (c : Cfg) (leaf : List Name) (st : St α)
    (grp : List (Factor α) × List Name) : component o c leaf st grp ≠ .error .fuel := by
  unfold component
  split
  · simp
  · simp only
    split
    · split <;> simp
    · split
      · simp
      · split <;> simp

theorem foldlM_no_fuel (o : Ops α) (c : Cfg) (leaf : List Name) :
    ∀ (comps : List (List (Factor α) × List Name)) (st : St α),
      comps.foldlM (component o c leaf) st ≠ .error .fuel
  | [], st => by simp [List.foldlM, pure, Except.pure]
  | grp :: comps, st => by
    simp only [List.foldlM, bind, Except.bind]
    split
    · rename_i e he
      intro hc; injection hc with hc; subst hc
      exact component_no_fuel o c leaf st grp he
    · exact foldlM_no_fuel o c leaf comps _

/-- **Termination**: with more fuel than the measure the loop never reports `fuel`. -/
theorem pspLoop_terminates (o : Ops α) (c : Cfg) (hd : ∀ leaf, Descending α c leaf) :
    ∀ (fuel : Nat) (st : St α), mu st.pending < fuel → pspLoop o c fuel st ≠ .error .fuel
  | 0, st, h => by omega
  | fuel + 1, st, h => by
    unfold pspLoop
    split
    · simp
    · rename_i leaf hl
      simp only
      split
      · rename_i e he
        intro hc
        injection hc with hc; subst hc
        exact foldlM_no_fuel o c leaf _ _ he
      · rename_i st'' h2
        have := iteration_measure_decreases o c st st'' leaf hl (hd leaf) h2
        exact pspLoop_terminates o c hd fuel st'' (by omega)

/-- More fuel never changes an answer that was not `fuel`. -/
theorem pspLoop_fuel_mono (o : Ops α) (c : Cfg) : ∀ (fuel : Nat) (st : St α),
    pspLoop o c fuel st ≠ .error .fuel → pspLoop o c (fuel + 1) st = pspLoop o c fuel st
  | 0, st, h => by simp [pspLoop] at h
  | fuel + 1, st, h => by
    simp only [pspLoop] at h ⊢
    cases hl : chooseLeaf st.pending with
    | none => rfl
    | some leaf =>
      simp only [hl] at h ⊢
      generalize List.foldlM (component o c leaf) _ _ = X at h ⊢
      cases X with
      | error e => rfl
      | ok st'' =>
        simp only at h ⊢
        exact pspLoop_fuel_mono o c fuel st'' h

/-- Termination relative to a loop invariant `I` (take `I := fun _ => True` for `pspLoop_terminates`):
    `Descending` is only needed at the leaves the loop actually selects in states satisfying `I`. -/
theorem pspLoop_terminates_inv (o : Ops α) (c : Cfg) (I : St α → Prop)
    (hI : ∀ st leaf st'', I st → chooseLeaf st.pending = some leaf →
      (partition ((c.O.filter (·.2 == leaf)).map (·.1)) ((st.pending.lookup leaf).getD []).length
            ((st.pending.lookup leaf).getD [])).foldlM (component o c leaf)
            { st with pending := st.pending.filter (·.1 != leaf) } = .ok st'' → I st'')
    (hd : ∀ st leaf, I st → chooseLeaf st.pending = some leaf → Descending α c leaf) :
    ∀ (fuel : Nat) (st : St α), I st → mu st.pending < fuel → pspLoop o c fuel st ≠ .error .fuel
  | 0, st, _, h => by omega
  | fuel + 1, st, hi, h => by
    unfold pspLoop
    split
    · simp
    · rename_i leaf hl
      simp only
      split
      · rename_i e he
        intro hc
        injection hc with hc; subst hc
        exact foldlM_no_fuel o c leaf _ _ he
      · rename_i st'' h2
        have := iteration_measure_decreases o c st st'' leaf hl (hd st leaf hi hl) h2
        exact pspLoop_terminates_inv o c I hI hd fuel st'' (hI st leaf st'' hi hl h2) (by omega)

/-! ### `Descending` from set inclusion (what the source has: `new_plates ⊆ leaf`, `new_plates ≠ leaf`) -/

/-- strictly sorted lists: a proper subset is strictly shorter -/
theorem length_lt_of_sorted_subset (a b : List Name) (ha : a.Pairwise (· < ·)) (hb : b.Pairwise (· < ·))
    (hsub : a ⊆ b) (hne : a ≠ b) : a.length < b.length := by
  have hnd : a.Nodup := ha.imp (fun h => ne_of_lt h)
  have hsp := List.subperm_of_subset hnd hsub
  have hle := hsp.length_le
  rcases Nat.lt_or_ge a.length b.length with h | h
  · exact h
  · exfalso
    apply hne
    have hp := hsp.perm_of_length_le h
    exact List.Perm.eq_of_pairwise (le := (· < ·))
      (fun x y _ _ h1 h2 => absurd h2 (lt_asymm h1)) ha hb hp

theorem newPlatesOf_subset (c : Cfg) (leaf : List Name) (f : Factor α)
    (ho : ∀ v ∈ c.S, f.has v = true → ∀ on, c.O.lookup v = some on → on ⊆ leaf) :
    newPlatesOf c f ⊆ leaf := by
  intro x hx
  rw [newPlatesOf, FV.Props.C09.Exec.mem_sset] at hx
  obtain ⟨v, hv, hxv⟩ := List.mem_flatMap.1 hx
  rw [List.mem_filter] at hv
  cases hlk : c.O.lookup v with
  | none => rw [hlk] at hxv; simp at hxv
  | some on => rw [hlk] at hxv; exact ho v hv.1 hv.2 on hlk hxv

/-- If the leaf is a (sorted) ordinal and every summed variable's ordinal is inside the leaf, then every
    re-filed key is strictly shorter than the leaf. -/
theorem descending_of_ordinals (c : Cfg) (leaf : List Name) (hs : leaf.Pairwise (· < ·))
    (ho : ∀ v ∈ c.S, ∀ on, c.O.lookup v = some on → on ⊆ leaf) : Descending α c leaf := by
  intro f hne
  exact length_lt_of_sorted_subset _ _ (FV.Props.C09.Exec.sset_sorted _) hs
    (newPlatesOf_subset c leaf f (fun v hv _ on hon => ho v hv on hon)) hne

example : (["i", "j"] : List Name).Pairwise (· < ·) ∧
    (∀ v ∈ (["x"] : List Name), ∀ on, ([("x", ["i"])] : List (Name × List Name)).lookup v = some on →
      on ⊆ ["i", "j"]) := by
  refine ⟨by decide, ?_⟩
  intro v hv on h
  have : v = "x" := by simpa using hv
  subst this
  have : on = ["i"] := by simpa [List.lookup] using h.symm
  subst this
  simp

/-- `Descending` is satisfiable for every leaf: no summed variable carries an ordinal. -/
example : ∀ leaf, Descending Nat ⟨[], [], [], [], [], [], false⟩ leaf := by
  intro leaf f h
  have : newPlatesOf ⟨[], [], [], [], [], [], false⟩ f = [] := by simp [newPlatesOf, sset]
  rw [this] at h ⊢
  cases leaf with
  | nil => exact absurd rfl h
  | cons a l => simp

example : ∃ (st : St Nat) (leaf : List Name), chooseLeaf st.pending = some leaf :=
  ⟨⟨[(["i"], [])], []⟩, ["i"], by decide⟩

end FV.Props.C09.Term
