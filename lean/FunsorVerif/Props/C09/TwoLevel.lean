/-
  Props/C09/TwoLevel.lean — lemmas towards the executable statement beyond a single bucket (two ordinals,
  an inner bucket L = P_out ∪ P_in filing a factor at the outer ordinal P_out, then the outer bucket).

  PROVED (general in the ordinals, not only two levels):
    instance_general, instProd_general   closed form of `instProd` when factors sit at DIFFERENT ordinals: the
                                         environment built for a context `ctx` of the factor's own ordinal is
                                         ctx ++ sliceR ++ fenv, where `sliceR` reads every variable at `ctx`
                                         RESTRICTED to the variable's ordinal  (link 2')
    filter_points                        that restriction is a context of the smaller ordinal
    sliceR_const                         on a single bucket `sliceR` is `slice` (Bucket.lean is the special case)
    ordOf_reduceF, ordOf_sumOut, ordOf_prodOut, ordOf_prodAll_same,
    filed_factor_key                     stability of the recomputed ordinal of the filed factor: the table
                                         `component` files has, recomputed from its inputs, exactly the key
                                         `L - (plates multiplied out)` it was filed under  (link 3, per iteration)

  NOT CLOSED — `sum_product_exact_two_level` (statement: as `sum_product_exact_bucket`, for graphs whose
  factors sit at two nested ordinals).  Missing, precisely:
    (a) the two-family version of `Bucket.joint_exchange`: the oracle's copies are enumerated variable-major
        with inner variables (contexts of L) and outer variables (contexts of P_out) interleaved in name
        order; needed: invariance of the `asgs` sum under permuting the copies list (the `asgs` analogue of
        `sum_points_perm`), then `joint_exchange` for the inner family at a fixed outer assignment, the
        regrouping Π_{L} = Π_{P_out} Π_{P_in} (`prod_points_perm` + `points_append`), and `joint_exchange`
        for the outer family;
    (b) the control flow of TWO iterations (`psp_bucket` twice: leaf L, then leaf P_out with the filed factors
        appended by `addPending` — `Loop.addPending_key`/`addPending_mem`, `Plated.component_pending_spec`);
    (c) the composition: values of the second iteration's factors are `Plated.newFactor_value` of the first.
  With (a)-(c) the proof is the one of `sum_product_exact_bucket` applied to the outer bucket whose factor list
  contains the filed factors, `filed_factor_key` guaranteeing that they are in that bucket.
-/
import FunsorVerif.Props.C09.Bucket
namespace FV.Props.C09.Exec
open FV.C09
section TwoLevel
set_option linter.unusedSectionVars false
variable {α : Type} [CommSemiring α]

/-! ## `instProd` for ARBITRARY ordinals: every variable is read at the context restricted to its ordinal -/

/-- the values an accumulated assignment gives, in context `ctx`, to the copies of the variables — each
    variable `v` read at `ctx` restricted to its own ordinal `ordv v` -/
def sliceR (vs : List (Name × Nat)) (ordv : Name → List Name) (X : List ((Name × Env) × Nat)) (ctx : Env) : Env :=
  vs.filterMap fun p => (X.lookup (p.1, ctx.filter fun q => (ordv p.1).contains q.1)).map fun x => (p.1, x)

theorem lookup_sliceR (ordv : Name → List Name) (X : List ((Name × Env) × Nat)) (ctx : Env) (n : Name) :
    ∀ (vs : List (Name × Nat)), (sliceR vs ordv X ctx).lookup n
      = if n ∈ vs.map (·.1) then X.lookup (n, ctx.filter fun q => (ordv n).contains q.1) else none
  | [] => by simp [sliceR]
  | (v, s) :: vs => by
    have ih := lookup_sliceR ordv X ctx n vs
    unfold sliceR at ih ⊢
    rw [List.filterMap_cons]
    by_cases hnv : n = v
    · subst hnv
      cases hl : X.lookup (n, ctx.filter fun q => (ordv n).contains q.1) with
      | none =>
        simp only [Option.map_none, ih, List.map_cons, List.mem_cons, true_or, if_true]
        rw [hl]; split <;> rfl
      | some x => simp
    · have hne : (n == v) = false := by simpa using hnv
      cases hl : X.lookup (v, ctx.filter fun q => (ordv v).contains q.1) with
      | none => simp only [Option.map_none, ih, List.map_cons, List.mem_cons, hnv, false_or]
      | some x =>
        simp only [Option.map_some, List.lookup_cons, hne, ih, List.map_cons, List.mem_cons, hnv, false_or]

/-- **One instance of one factor, any ordinals** (link 2'): for a factor filed under `ord` and an
    assignment `O` of ordinals to the summed variables, the environment `instProd` builds for the context
    `ctx` of `ord` is `ctx ++ sliceR ++ fenv` — a variable whose ordinal is smaller than `ord` is read at
    the RESTRICTED context. -/
theorem instance_general (f : Factor α) (ord : List Name) (Ls vs : List (Name × Nat))
    (O : List (Name × List Name)) (ordv : Name → List Name) (fenv ctx : Env) (X : List ((Name × Env) × Nat))
    (hLs : Ls.map (·.1) = ord) (hctx : ctx ∈ points Ls)
    (hO : ∀ n, O.lookup n = if n ∈ vs.map (·.1) then some (ordv n) else none)
    (hsize : ∀ p ∈ f.inputs, p.1 ∈ ord → p ∈ Ls) (hsf : SizeFun Ls)
    (hwf : wellFormed f = true)
    (hX : ∀ p ∈ f.inputs, p.1 ∈ vs.map (·.1) → p.1 ∉ ord →
      (X.lookup (p.1, ctx.filter fun q => (ordv p.1).contains q.1)).isSome = true)
    (hcov : Covers (ctx ++ (sliceR vs ordv X ctx ++ fenv)) f.inputs) :
    ((f.inputs.mapM fun x : Name × Nat =>
        if ord.contains x.1 then (ctx.lookup x.1).map fun y => (x.1, y % x.2)
        else match O.lookup x.1 with
          | some on => (X.lookup (x.1, ctx.filter fun q => on.contains q.1)).map fun y => (x.1, y)
          | none => (fenv.lookup x.1).map fun y => (x.1, y)).bind f.eval)
      = some (ev f (ctx ++ (sliceR vs ordv X ctx ++ fenv))) := by
  have hcl := covers_points Ls ctx hsf hctx
  have hm := mapM_pointOf (fun x : Name × Nat =>
        if ord.contains x.1 then (ctx.lookup x.1).map fun y => (x.1, y % x.2)
        else match O.lookup x.1 with
          | some on => (X.lookup (x.1, ctx.filter fun q => on.contains q.1)).map fun y => (x.1, y)
          | none => (fenv.lookup x.1).map fun y => (x.1, y))
      (ctx ++ (sliceR vs ordv X ctx ++ fenv)) f.inputs ?_ hcov
  · rw [hm, Option.bind_some,
      eval_congr f (pointOf _ f.inputs) (ctx ++ (sliceR vs ordv X ctx ++ fenv))
        (fun p hp => lookup_pointOf _ f.inputs hcov p.1 (List.mem_map.2 ⟨p, hp, rfl⟩))]
    exact eval_some f hwf _ hcov
  · intro p hp
    by_cases hpL : p.1 ∈ ord
    · have hc : ord.contains p.1 = true := by simpa using hpL
      simp only [hc, if_true]
      obtain ⟨x, hx, hlt⟩ := hcl p (hsize p hp hpL)
      rw [List.lookup_append, hx]
      simp [Nat.mod_eq_of_lt hlt]
    · have hc : ord.contains p.1 = false := by simpa using hpL
      have hcn : ctx.lookup p.1 = none :=
        lookup_none_of_not_mem Ls ctx p.1 hctx (by rw [hLs]; exact hpL)
      simp only [hc, Bool.false_eq_true, if_false, hO p.1]
      rw [List.lookup_append, hcn, List.lookup_append, lookup_sliceR]
      by_cases hv : p.1 ∈ vs.map (·.1)
      · simp only [hv, if_true]
        have hs := hX p hp hv hpL
        cases hl : X.lookup (p.1, ctx.filter fun q => (ordv p.1).contains q.1) with
        | none => rw [hl] at hs; simp at hs
        | some y => simp
      · simp [hv]

/-- **`instProd` for arbitrary ordinals**: the product over the factors and over the contexts of each
    factor's own ordinal of the factor at `ctx ++ sliceR ++ fenv`. -/
theorem instProd_general (fs : List (Factor α)) (P : List Name) (rep : Name → Nat) (vs : List (Name × Nat))
    (O : List (Name × List Name)) (ordv : Name → List Name) (fenv : Env) (X : List ((Name × Env) × Nat))
    (hO : ∀ n, O.lookup n = if n ∈ vs.map (·.1) then some (ordv n) else none)
    (hsize : ∀ f ∈ fs, ∀ p ∈ f.inputs, p.1 ∈ ordOf P f → p ∈ (ordOf P f).map fun q => (q, rep q))
    (hwf : ∀ f ∈ fs, wellFormed f = true)
    (hX : ∀ f ∈ fs, ∀ ctx ∈ points ((ordOf P f).map fun q => (q, rep q)), ∀ p ∈ f.inputs,
      p.1 ∈ vs.map (·.1) → p.1 ∉ ordOf P f →
      (X.lookup (p.1, ctx.filter fun q => (ordv p.1).contains q.1)).isSome = true)
    (hcov : ∀ f ∈ fs, ∀ ctx ∈ points ((ordOf P f).map fun q => (q, rep q)),
      Covers (ctx ++ (sliceR vs ordv X ctx ++ fenv)) f.inputs) :
    instProd (srOps α) fs P O rep fenv X
      = some ((fs.map fun f => ((points ((ordOf P f).map fun q => (q, rep q))).map fun ctx =>
          ev f (ctx ++ (sliceR vs ordv X ctx ++ fenv))).prod).prod) := by
  unfold instProd
  refine Eq.trans (congrArg (foldOpt (· * ·) (1 : α))
    (?_ : _ = (fs.flatMap fun f => (points ((ordOf P f).map fun q => (q, rep q))).map fun ctx =>
      ev f (ctx ++ (sliceR vs ordv X ctx ++ fenv))).map some)) ?_
  · rw [List.map_flatMap]
    refine List.flatMap_congr fun f hf => ?_
    simp only [List.map_map]
    refine List.map_congr_left fun ctx hctx => ?_
    have hLs : ((ordOf P f).map fun q => (q, rep q)).map (·.1) = ordOf P f := by
      simp [List.map_map, Function.comp_def]
    have hsf : SizeFun ((ordOf P f).map fun q => (q, rep q)) := by
      refine sizeFun_of_nodup ?_
      rw [hLs]; exact sset_nodup _
    exact instance_general f (ordOf P f) _ vs O ordv fenv ctx X hLs hctx hO (hsize f hf) hsf (hwf f hf)
      (hX f hf ctx hctx) (hcov f hf ctx hctx)
  · rw [foldOpt_mul_some, prod_flatMap']

/-- the restriction of a context of the leaf to a smaller ordinal is a context of that ordinal -/
theorem filter_points (S : List Name) : ∀ (vs : List (Name × Nat)) (ctx : Env), ctx ∈ points vs →
    ctx.filter (fun q => S.contains q.1) ∈ points (vs.filter fun p => S.contains p.1)
  | [], ctx, h => by simp [points] at h; subst h; simp [points]
  | (n, s) :: vs, ctx, h => by
    simp only [points, List.mem_flatMap, List.mem_map, List.mem_range] at h
    obtain ⟨x, hx, e, he, rfl⟩ := h
    have ih := filter_points S vs e he
    by_cases hn : S.contains n = true
    · simp only [List.filter_cons, hn, if_true, points, List.mem_flatMap, List.mem_map, List.mem_range]
      exact ⟨x, hx, _, ih, rfl⟩
    · simp only [List.filter_cons, hn, Bool.false_eq_true, if_false]
      exact ih

/-- on a single bucket the restricted slice is the slice (`Bucket.lean` is the special case) -/
theorem sliceR_const (vs Ls : List (Name × Nat)) (L : List Name) (hLs : Ls.map (·.1) = L)
    (X : List ((Name × Env) × Nat)) (ctx : Env) (hctx : ctx ∈ points Ls) :
    sliceR vs (fun _ => L) X ctx = slice vs X ctx := by
  have hfilter : ctx.filter (fun q => L.contains q.1) = ctx := by
    rw [List.filter_eq_self]
    intro q hq
    have : q.1 ∈ ctx.map (·.1) := List.mem_map.2 ⟨q, hq, rfl⟩
    rw [points_names Ls ctx hctx, hLs] at this
    simpa using this
  simp only [sliceR, slice, hfilter]

/-! ## stability of the key of the factor the loop files (link 3, per primitive) -/

theorem ordOf_reduceF (P : List Name) (op : α → α → α) (u : α) (f g : Factor α) (vars : List Name)
    (h : reduceF op u f vars = some g) :
    ordOf P g = diff (ordOf P f) vars := by
  have hin := reduceF_inputs h
  have hsorted : (diff (ordOf P f) vars).Pairwise (· < ·) :=
    (sset_sorted _).sublist List.filter_sublist
  refine sorted_ext _ _ (sset_sorted _) hsorted fun x => ?_
  unfold ordOf Factor.names
  rw [mem_sset, mem_diff, mem_sset, List.mem_filter, List.mem_filter, hin]
  simp only [List.mem_map, List.mem_filter]
  constructor
  · rintro ⟨⟨p, ⟨hp, hnv⟩, rfl⟩, hP⟩
    exact ⟨⟨⟨p, hp, rfl⟩, hP⟩, by simpa using hnv⟩
  · rintro ⟨⟨⟨p, hp, rfl⟩, hP⟩, hnv⟩
    exact ⟨⟨p, ⟨hp, by simpa using hnv⟩, rfl⟩, hP⟩

/-- summing variables that are not plates does not change the key -/
theorem ordOf_sumOut (P : List Name) (f g : Factor α) (vars : List Name)
    (h : sumOut (srOps α) f vars = some g) (hdis : ∀ v ∈ vars, v ∉ P) : ordOf P g = ordOf P f := by
  unfold sumOut at h
  rw [ordOf_reduceF P _ _ f g vars h]
  unfold diff
  rw [List.filter_eq_self]
  intro x hx
  have : x ∈ P := by
    unfold ordOf at hx
    rw [mem_sset, List.mem_filter] at hx
    simpa using hx.2
  have hnv : x ∉ vars := fun hv => hdis x hv this
  simpa using hnv

/-- multiplying plates out removes exactly them from the key: the factor filed under
    `new_plates = key - (plates multiplied out)` really has that key (what `unroll` recomputes from the
    returned factors is the key it was filed under) -/
theorem ordOf_prodOut (P : List Name) (f g : Factor α) (red : List Name)
    (h : prodOut (srOps α) f red = some g) : ordOf P g = diff (ordOf P f) red := by
  unfold prodOut at h
  exact ordOf_reduceF P _ _ f g red h

theorem ordOf_prodAll_same (P L : List Name) (grp : List (Factor α)) (pc : Factor α)
    (hpc : prodAll (srOps α) grp = some pc) (hne : grp ≠ []) (hkey : ∀ f ∈ grp, ordOf P f = L) :
    ordOf P pc = L := by
  obtain ⟨f0, hf0⟩ := List.exists_mem_of_ne_nil _ hne
  have hLs : L.Pairwise (· < ·) := hkey f0 hf0 ▸ sset_sorted _
  refine sorted_ext _ _ (sset_sorted _) hLs fun x => ?_
  have hmem : ∀ f : Factor α, x ∈ ordOf P f ↔ f.has x = true ∧ x ∈ P := by
    intro f
    unfold ordOf
    rw [mem_sset, List.mem_filter]
    simp [Factor.has]
  rw [hmem pc, prodAll_has _ x grp pc hpc]
  constructor
  · rintro ⟨⟨f, hf, hfx⟩, hP⟩
    rw [← hkey f hf]; exact (hmem f).2 ⟨hfx, hP⟩
  · intro hx
    rw [← hkey f0 hf0] at hx
    exact ⟨⟨f0, hf0, ((hmem f0).1 hx).1⟩, ((hmem f0).1 hx).2⟩

/-- **Stability of the recomputed ordinal of the filed factor**: the factor `component` files
    (`prodOut (sumOut (prodAll group) V) red`, all group factors filed under `L`, `V` containing no plate)
    has, when `unroll`/the next call recomputes it from the table's inputs, exactly the key
    `L - red` it was filed under. -/
theorem filed_factor_key (P L V red : List Name) (grp : List (Factor α)) (pc fc g : Factor α)
    (hpc : prodAll (srOps α) grp = some pc) (hfc : sumOut (srOps α) pc V = some fc)
    (hg : prodOut (srOps α) fc red = some g) (hne : grp ≠ []) (hkey : ∀ f ∈ grp, ordOf P f = L)
    (hV : ∀ v ∈ V, v ∉ P) : ordOf P g = diff L red := by
  rw [ordOf_prodOut P fc g red hg, ordOf_sumOut P pc fc V hfc hV,
    ordOf_prodAll_same P L grp pc hpc hne hkey]
end TwoLevel
end FV.Props.C09.Exec
