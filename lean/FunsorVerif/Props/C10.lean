/-
  Props/C10.lean — Markov products equal the explicit left-to-right fold over time.
  All theorems hold in any semigroup (`f` associative), for lists of any length.

  Further modules of this property:
    Props/C10/Sarkka.lean   sarkka_bilmes_product: name / period / slice / block arithmetic, `sarkka_eq_naive`
                            on the window chain (all periods, durations, num_periods, prefix recursion)
    Props/C10/Sem.lean      the same in a function semantics over absolute time steps (`sarkkaFull_eq_naive`),
                            and `sarkka_eq_naive_partial` (what is proved / what is missing)
    Props/C10/Terms.lean    relative-name term semantics of what sarkka / naive build; `sarkka_terms_eq_naive_terms_*`
    Props/C10/Carrier.lean  driver `Mat.mul sr` = Mathlib matrix product on the NaN-free carrier (add-mul, max-add)
    Props/C10/Const.lean    the time-homogeneous branch for EVERY duration: returns ⇔ duration = 2^k, value = fold
    Props/C10/Gen.lean      obligations over Gen/C10Sarkka.lean (extracted index expressions) + the max(lags)-bound witness
    Props/C10/Eager.lean    the four branches of eager_markov_product (`markov_eager_empty_step`, …)
    Props/C10/Matrix.lean   instantiation at Mathlib's `Matrix n n R` over a semiring (`matrix_mul_assoc`, …)
-/
import FunsorVerif.Model.C10
import Mathlib.Tactic.Ring
namespace FV.Props.C10
open FV.C10

variable {α : Type} (f : α → α → α)

def Assoc : Prop := ∀ a b c : α, f (f a b) c = f a (f b c)

theorem foldl_assoc (h : Assoc f) (a b : α) (l : List α) :
    l.foldl f (f a b) = f a (l.foldl f b) := by
  induction l generalizing b with
  | nil => rfl
  | cons c l ih => simp only [List.foldl_cons]; rw [h a b c]; exact ih (f b c)

/-- The naive pop/pop/append loop (right-nested product) equals the left fold. -/
theorem naive_eq_fold (h : Assoc f) : ∀ l : List α, naive f l = fold1 f l
  | [] => rfl
  | [a] => rfl
  | a :: b :: rest => by
      have ih := naive_eq_fold h (b :: rest)
      simp only [naive, ih, fold1, Option.map_some, List.foldl_cons]
      rw [foldl_assoc f h]

/-- The halving round preserves the ordered product. -/
theorem fold1_halve (h : Assoc f) : ∀ l : List α, fold1 f (halve f l) = fold1 f l
  | [] => rfl
  | [a] => rfl
  | [a, b] => rfl
  | a :: b :: c :: rest => by
      have ih := fold1_halve h (c :: rest)
      cases hh : halve f (c :: rest) with
      | nil => simp [halve, hh, fold1] at ih
      | cons x xs =>
        rw [hh] at ih
        simp only [fold1, Option.some.injEq, List.foldl_cons] at ih
        simp only [halve, fold1, List.foldl_cons, Option.some.injEq]
        rw [hh]
        simp only [List.foldl_cons]
        rw [foldl_assoc f h, ih, ← foldl_assoc f h]

/-- sequential_sum_product (parallel halving with an odd tail) = left fold, any duration ≥ 1. -/
theorem scan_eq_fold (h : Assoc f) (l : List α) : scan f l = fold1 f l := by
  fun_induction scan f l with
  | case1 => rfl
  | case2 a => rfl
  | case3 a b rest ih => rw [ih, fold1_halve f h]

theorem scan_isSome (l : List α) (hl : l ≠ []) (h : Assoc f) : (scan f l).isSome := by
  rw [scan_eq_fold f h]; cases l with
  | nil => exact absurd rfl hl
  | cons a l => rfl

/-- The Slice/Cat index arithmetic of the code denotes exactly the structural round. -/
theorem halveIdx_eq_halve : ∀ l : List α, halveIdx f l = halve f l := by
  intro l
  induction l using List.rec with
  | nil => simp [halveIdx, halve]
  | cons a l _ =>
    -- strong induction on length via two-step structure
    revert a
    suffices H : ∀ n, ∀ l : List α, l.length = n → halveIdx f l = halve f l from
      fun a => H _ (a :: l) rfl
    intro n
    induction n using Nat.strongRecOn with
    | _ n ih =>
      intro l hl
      match l, hl with
      | [], _ => simp [halveIdx, halve]
      | [a], _ => simp [halveIdx, halve]
      | a :: b :: rest, hl =>
        have ihr := ih rest.length (by simp at hl; omega) rest rfl
        simp only [halve]
        rw [← ihr]
        simp only [halveIdx, List.length_cons]
        have e1 : (rest.length + 1 + 1) / 2 * 2 / 2 = rest.length / 2 * 2 / 2 + 1 := by omega
        have e2 : (rest.length + 1 + 1 > (rest.length + 1 + 1) / 2 * 2) ↔
            (rest.length > rest.length / 2 * 2) := by omega
        rw [e1, List.range_succ_eq_map]
        simp only [List.filterMap_cons, Nat.mul_zero, Nat.add_zero, List.getElem?_cons_zero,
          List.getElem?_cons_succ, List.filterMap_map]
        have e3 : ∀ i, (a :: b :: rest)[0 + 2 * (i + 1)]? = rest[0 + 2 * i]? := by
          intro i
          have : 0 + 2 * (i + 1) = (0 + 2 * i) + 1 + 1 := by omega
          rw [this]; simp
        have e4 : ∀ i, (a :: b :: rest)[1 + 2 * (i + 1)]? = rest[1 + 2 * i]? := by
          intro i
          have : 1 + 2 * (i + 1) = (1 + 2 * i) + 1 + 1 := by omega
          rw [this]; simp
        have e5 : (a :: b :: rest)[rest.length + 1 + 1 - 1]? =
            if rest.length = 0 then some b else rest[rest.length - 1]? := by
          cases rest with
          | nil => simp
          | cons c r => simp
        simp only [Function.comp_def, Nat.succ_eq_add_one, e3, e4]
        by_cases hgt : rest.length > rest.length / 2 * 2
        · have hgt' := e2.mpr hgt
          have : rest.length ≠ 0 := by omega
          simp only [hgt, hgt', if_true, e5, this, if_false, List.cons_append]
        · have hgt' : ¬ (rest.length + 1 + 1 > (rest.length + 1 + 1) / 2 * 2) := fun h => hgt (e2.mp h)
          simp only [hgt, hgt', if_false]

theorem scanIdx_eq_scan : ∀ (fuel : Nat) (l : List α), l.length ≤ fuel → l ≠ [] →
    scanIdx f fuel l = scan f l := by
  intro fuel
  induction fuel with
  | zero => intro l hl hne; cases l <;> simp_all
  | succ n ih =>
    intro l hl hne
    match l, hne with
    | [a], _ => simp [scanIdx, scan]
    | a :: b :: rest, _ =>
      have hlt := halve_length_lt f a b rest
      have hne' : halve f (a :: b :: rest) ≠ [] := by simp [halve]
      simp only [scanIdx, List.length_cons]
      rw [if_pos (by omega), halveIdx_eq_halve, ih _ (by simp at hl hlt ⊢; omega) hne']
      rw [scan]

theorem fold1_append (h : Assoc f) (l₁ l₂ : List α) (x y : α)
    (h1 : fold1 f l₁ = some x) (h2 : fold1 f l₂ = some y) :
    fold1 f (l₁ ++ l₂) = some (f x y) := by
  cases l₁ with
  | nil => simp [fold1] at h1
  | cons a l₁ =>
    cases l₂ with
    | nil => simp [fold1] at h2
    | cons b l₂ =>
      simp only [fold1, Option.some.injEq] at h1 h2
      simp only [fold1, List.cons_append, List.foldl_append, List.foldl_cons, Option.some.injEq]
      rw [h1, foldl_assoc f h, h2]

theorem fold1_isSome_of_ne_nil : ∀ l : List α, l ≠ [] → ∃ x, fold1 f l = some x
  | [], h => absurd rfl h
  | a :: l, _ => ⟨_, rfl⟩

/-- Folding a list cut into `k` consecutive blocks of length `seg`, block by block. -/
theorem fold1_blocks (h : Assoc f) (seg : Nat) (hseg : seg > 0) :
    ∀ (k : Nat) (l : List α), l.length = k * seg → k > 0 →
      ∃ rs, (List.range k).mapM (fun i => fold1 f ((l.drop (i * seg)).take seg)) = some rs ∧
        fold1 f rs = fold1 f l := by
  intro k
  induction k with
  | zero => intro l _ hk; omega
  | succ k ih =>
    intro l hl _
    rw [List.range_succ_eq_map, List.mapM_cons]
    simp only [Nat.zero_mul, List.drop_zero, List.mapM_map, Function.comp_def]
    have hne0 : l.take seg ≠ [] := by
      intro he; have := congrArg List.length he
      rw [List.length_take, Nat.succ_mul] at *
      simp only [List.length_nil] at this
      omega
    obtain ⟨r0, h0⟩ := fold1_isSome_of_ne_nil f _ hne0
    rw [h0]
    have hshift : ∀ i, (l.drop ((i + 1) * seg)).take seg = ((l.drop seg).drop (i * seg)).take seg := by
      intro i; rw [List.drop_drop]; congr 2; rw [Nat.add_mul]; omega
    simp only [Nat.succ_eq_add_one, hshift]
    by_cases hk0 : k = 0
    · subst hk0
      have : l.take seg = l := List.take_of_length_le (by omega)
      rw [this] at h0
      refine ⟨[r0], by simp, ?_⟩
      rw [h0]; rfl
    · have hlen : (l.drop seg).length = k * seg := by
        rw [List.length_drop, hl, Nat.add_mul]; omega
      obtain ⟨rs', hm, ih'⟩ := ih (l.drop seg) hlen (by omega)
      rw [hm]
      refine ⟨r0 :: rs', by simp, ?_⟩
      have hrne : l.drop seg ≠ [] := by
        intro he; have := congrArg List.length he
        rw [hlen] at this; simp at this
        have : k * seg > 0 := Nat.mul_pos (by omega) hseg
        omega
      obtain ⟨y, hrest⟩ := fold1_isSome_of_ne_nil f _ hrne
      rw [hrest] at ih'
      have h1 := fold1_append f h (l.take seg) (l.drop seg) r0 y h0 hrest
      rw [List.take_append_drop] at h1
      rw [h1]
      have := fold1_append f h [r0] rs' r0 y rfl ih'
      simpa using this

/-- mixed_sequential_sum_product = left fold, for every duration ≥ 1, every num_segments ≥ 1
    (including the uneven-segments remainder recursion), given two levels of fuel. -/
theorem mixed_eq_fold (h : Assoc f) (k : Nat) (hk : k > 0) :
    ∀ (fuel : Nat) (l : List α), fuel ≥ 2 → l ≠ [] → mixed f k fuel l = fold1 f l := by
  -- first: the case d % k = 0 or d < k (no remainder recursion) with fuel ≥ 1
  have base : ∀ (fuel : Nat) (l : List α), fuel ≥ 1 → l ≠ [] →
      ¬ (l.length % k ≠ 0 ∧ l.length - l.length % k > 0) → mixed f k fuel l = fold1 f l := by
    intro fuel l hf hne hcond
    match fuel, hf with
    | fuel + 1, _ =>
      have hd : l.length ≠ 0 := by simpa [List.length_eq_zero_iff] using hne
      simp only [mixed]
      rw [if_neg (by omega), if_neg hcond]
      by_cases hk1 : k = 1
      · rw [if_pos hk1]; exact naive_eq_fold f h l
      · rw [if_neg hk1]
        by_cases hkd : k ≥ l.length
        · rw [if_pos hkd]; exact scan_eq_fold f h l
        · rw [if_neg hkd]
          have hmod : l.length % k = 0 := by
            apply Decidable.byContradiction
            intro hm
            apply hcond
            refine ⟨hm, ?_⟩
            have := Nat.mod_lt l.length hk
            have : l.length % k ≤ l.length := Nat.mod_le _ _
            have : l.length % k < k := Nat.mod_lt _ hk
            omega
          have hlen : l.length = k * (l.length / k) := by
            have := Nat.div_add_mod l.length k; rw [hmod] at this; omega
          have hseg : l.length / k > 0 := Nat.div_pos (by omega) hk
          simp only [naive_eq_fold f h]
          obtain ⟨rs, hfs, hrs⟩ := fold1_blocks f h _ hseg k l hlen hk
          rw [hfs]
          simp only []
          rw [scan_eq_fold f h]
          exact hrs
  intro fuel l hf hne
  match fuel, hf with
  | fuel + 1, hf' =>
    by_cases hcond : l.length % k ≠ 0 ∧ l.length - l.length % k > 0
    · have hd : l.length ≠ 0 := by simpa [List.length_eq_zero_iff] using hne
      simp only [mixed]
      rw [if_neg (by omega), if_pos hcond]
      have hine : l.take (l.length - l.length % k) ≠ [] := by
        intro he
        have := congrArg List.length he
        simp at this; omega
      have hilen : (l.take (l.length - l.length % k)).length = l.length - l.length % k := by
        simp
      have hrec := base fuel (l.take (l.length - l.length % k)) (by omega) hine (by
        rw [hilen]
        intro ⟨hm, _⟩
        apply hm
        have := Nat.div_add_mod l.length k
        have : l.length - l.length % k = k * (l.length / k) := by omega
        rw [this]; simp)
      rw [hrec]
      cases hi : fold1 f (l.take (l.length - l.length % k)) with
      | none =>
        exfalso
        cases ht : l.take (l.length - l.length % k) with
        | nil => exact hine ht
        | cons a t => rw [ht] at hi; simp [fold1] at hi
      | some ie =>
        simp only []
        rw [naive_eq_fold f h]
        have hrne : l.drop (l.length - l.length % k) ≠ [] := by
          intro he
          have := congrArg List.length he
          simp at this
          have : l.length % k ≤ l.length := Nat.mod_le _ _
          omega
        cases hr : fold1 f (l.drop (l.length - l.length % k)) with
        | none =>
          exfalso
          cases ht : l.drop (l.length - l.length % k) with
          | nil => exact hrne ht
          | cons a t => rw [ht] at hr; simp [fold1] at hr
        | some y =>
          have h1 := fold1_append f h _ _ ie y hi hr
          rw [List.take_append_drop] at h1
          have h2 := fold1_append f h [ie] _ ie y rfl hr
          rw [h1]; simpa using h2
    · exact base (fuel + 1) l (by omega) hne hcond

end FV.Props.C10

namespace FV.Props.C10
open FV.C10

variable {α : Type} (f : α → α → α)

/-- Iterated squaring: the value the time-independent branch computes after `k` rounds. -/
def sqIter (x : α) : Nat → α
  | 0 => x
  | k + 1 => sqIter (f x x) k

/-- Time-independent transition, duration a power of two: the loop returns the `k`-fold squaring. -/
theorem scanConst_pow2 (x : α) : ∀ (k fuel : Nat), fuel > k →
    scanConst f x fuel (2 ^ k) = some (sqIter f x k) := by
  intro k
  induction k generalizing x with
  | zero => intro fuel hf; cases fuel with
    | zero => omega
    | succ n => simp [scanConst, sqIter]
  | succ k ih =>
    intro fuel hf
    cases fuel with
    | zero => omega
    | succ n =>
      have h2 : (2:Nat) ^ (k + 1) > 1 := by
        have : (2:Nat) ^ k ≥ 1 := Nat.one_le_two_pow
        rw [Nat.pow_succ]; omega
      have hmod : (2:Nat) ^ (k + 1) % 2 = 0 := by rw [Nat.pow_succ]; omega
      have hdiv : (2:Nat) ^ (k + 1) / 2 = 2 ^ k := by rw [Nat.pow_succ]; omega
      simp only [scanConst]
      rw [if_neg (by omega), if_neg (by omega), hdiv]
      exact ih (f x x) n (by omega)

/-- Squaring `k` times is the `2^k`-fold product (so the power-of-two branch equals the fold of
    `2^k` equal factors). -/
theorem sqIter_eq_fold (h : Assoc f) (x : α) : ∀ k, fold1 f (List.replicate (2 ^ k) x) = some (sqIter f x k) := by
  intro k
  induction k generalizing x with
  | zero => simp [fold1, sqIter]
  | succ k ih =>
    have hsplit : List.replicate (2 ^ (k + 1)) x = List.replicate (2 ^ k) x ++ List.replicate (2 ^ k) x := by
      rw [List.replicate_append_replicate]; congr 1; rw [Nat.pow_succ]; omega
    -- halving a list of equal factors gives a list of their squares
    have hhalve : ∀ n, halve f (List.replicate (2 * n) x) = List.replicate n (f x x) := by
      intro n
      induction n with
      | zero => simp [halve]
      | succ n ihn =>
        have : 2 * (n + 1) = (2 * n) + 1 + 1 := by omega
        rw [this, List.replicate_succ, List.replicate_succ, halve, ihn, List.replicate_succ]
    have h2 : (2:Nat) ^ (k + 1) = 2 * 2 ^ k := by rw [Nat.pow_succ]; omega
    rw [← fold1_halve f h, h2, hhalve, ih (f x x)]
    rfl

/-- An odd duration > 1 makes the time-independent branch decline (Cat refuses the odd tail). -/
theorem scanConst_odd_declines (x : α) (fuel d : Nat) (hd : d > 1) (hodd : d % 2 = 1) :
    scanConst f x (fuel + 1) d = none := by
  simp only [scanConst]
  rw [if_neg (by omega), if_pos hodd]

/-- Non-vacuity: a concrete non-commutative semigroup (2×2 integer matrices as 4-tuples) where the
    three algorithms agree with the fold on a duration-5 chain. -/
def mm (a b : Int × Int × Int × Int) : Int × Int × Int × Int :=
  let (a1, a2, a3, a4) := a
  let (b1, b2, b3, b4) := b
  (a1 * b1 + a2 * b3, a1 * b2 + a2 * b4, a3 * b1 + a4 * b3, a3 * b2 + a4 * b4)

theorem mm_assoc : Assoc mm := by
  intro ⟨a1, a2, a3, a4⟩ ⟨b1, b2, b3, b4⟩ ⟨c1, c2, c3, c4⟩
  simp only [mm, Prod.mk.injEq]
  refine ⟨?_, ?_, ?_, ?_⟩ <;> ring

example : scan mm [(1,2,3,4), (0,1,1,0), (2,0,0,2), (1,1,0,1), (1,0,2,1)]
    = fold1 mm [(1,2,3,4), (0,1,1,0), (2,0,0,2), (1,1,0,1), (1,0,2,1)] := scan_eq_fold mm mm_assoc _


example : scanIdx mm 6 [(1,2,3,4), (0,1,1,0), (2,0,0,2), (1,1,0,1), (1,0,2,1)] = some (16, 6, 36, 14) := by decide
example : fold1 mm [(1,2,3,4), (0,1,1,0), (2,0,0,2), (1,1,0,1), (1,0,2,1)] = some (16, 6, 36, 14) := by decide
example : mm (mm (1,2,3,4) (0,1,1,0)) (2,0,0,2) ≠ mm (mm (0,1,1,0) (1,2,3,4)) (2,0,0,2) := by decide

end FV.Props.C10
