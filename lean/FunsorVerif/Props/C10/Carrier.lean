/-
  Props/C10/Carrier.lean — the driver's semiring matrix product `Mat.mul sr` (lists of rows over XR = ℚ ∪ {±∞, NaN})
  agrees, on the NaN-free carrier, with Mathlib's `Matrix` product over the corresponding semiring:
     add-mul, finite rational entries          ↔  Matrix (Fin n) (Fin n) ℚ                  (`mul_addMul_ofRat`)
     max-add, entries in ℚ ∪ {−∞}              ↔  Matrix … (Tropical (WithTop ℚᵒᵈ))         (`mul_maxAdd_ofMaxPlus`)
  (`mul_ofFun` is the entrywise description of `Mat.mul` on well-formed n×n matrices for every driver semiring.)
  With the transport lemmas the theorems of Props/C10/Matrix.lean apply to what the driver computes
  (`scan_driver_addMul`, `scan_driver_maxAdd`), and for the decidable predicates `Finite n m` (all entries finite
  rationals) / `FiniteOrZeroMaxAdd n m` (finite or −∞) on the driver's own lists of rows:
  `driver_scan_addMul_eq_fold`, `driver_mixed_addMul_eq_fold`, `driver_scan_maxAdd_eq_fold`,
  `driver_mul_assoc_addMul`, `finite_mul`.
-/
import FunsorVerif.Core.Semiring
import FunsorVerif.Props.C10
import FunsorVerif.Props.C10.Matrix
import Mathlib.Data.Matrix.Mul
import Mathlib.Algebra.Ring.Rat
import Mathlib.Algebra.BigOperators.Fin
import Mathlib.Algebra.Tropical.Basic
import Mathlib.Algebra.Order.Monoid.OrderDual
import Mathlib.Algebra.Order.Ring.Rat

namespace FV.Props.C10.Carrier
open FV FV.C10

/-- the ⊕-fold `Mat.mul` uses for one entry: starts from the first term -/
def sum1 (sr : SR) : List XR → XR
  | [] => sr.zero
  | t :: ts => ts.foldl sr.add t

/-- a well-formed n×n driver matrix given by its entries -/
def ofFun {n : Nat} (f : Fin n → Fin n → XR) : Mat := List.ofFn fun i => List.ofFn (f i)

theorem ncols_ofFun {n : Nat} (f : Fin n → Fin n → XR) : Mat.ncols (ofFun f) = n := by
  cases n with
  | zero => simp [Mat.ncols, ofFun]
  | succ n => simp [Mat.ncols, ofFun, List.ofFn_succ]

theorem col_ofFun {n : Nat} (g : Fin n → Fin n → XR) (k : Fin n) :
    Mat.col (ofFun g) k = List.ofFn fun j => g j k := by
  simp only [Mat.col, ofFun, List.map_ofFn]
  congr 1; funext j
  simp [Function.comp, List.getD_eq_getElem?_getD]

/-- `Mat.mul` on well-formed matrices, entry by entry (any semiring of the driver). -/
theorem mul_ofFun (sr : SR) {n : Nat} (f g : Fin n → Fin n → XR) :
    Mat.mul sr (ofFun f) (ofFun g)
      = ofFun fun i k => sum1 sr (List.ofFn fun j => sr.mul (f i j) (g j k)) := by
  unfold Mat.mul
  rw [ncols_ofFun]
  apply List.ext_getElem
  · simp [ofFun]
  · intro i h1 h2
    have hi : i < n := by simpa [ofFun] using h2
    simp only [List.getElem_map]
    have hrow : (ofFun f)[i]'(by simpa [ofFun] using hi) = List.ofFn (f ⟨i, hi⟩) := by
      simp [ofFun]
    rw [hrow]
    have hr : (ofFun fun i k => sum1 sr (List.ofFn fun j => sr.mul (f i j) (g j k)))[i]'h2
        = List.ofFn fun k => sum1 sr (List.ofFn fun j => sr.mul (f ⟨i, hi⟩ j) (g j k)) := by
      simp [ofFun]
    rw [hr]
    apply List.ext_getElem
    · simp
    · intro k hk1 hk2
      have hk : k < n := by simpa using hk2
      simp only [List.getElem_map, List.getElem_range, List.getElem_ofFn]
      have hcol := col_ofFun g ⟨k, hk⟩
      simp only [] at hcol
      rw [hcol]
      have hz : List.zipWith sr.mul (List.ofFn (f ⟨i, hi⟩)) (List.ofFn fun j => g j ⟨k, hk⟩)
          = List.ofFn fun j => sr.mul (f ⟨i, hi⟩ j) (g j ⟨k, hk⟩) := by
        apply List.ext_getElem
        · simp
        · intro j _ _; simp
      rw [hz]
      cases hl : (List.ofFn fun j => sr.mul (f ⟨i, hi⟩ j) (g j ⟨k, hk⟩)) with
      | nil => simp [sum1]
      | cons t ts => simp [sum1]

/-! ### add-mul on finite rationals = Mathlib's matrix product over ℚ -/

def ofRat {n : Nat} (A : Matrix (Fin n) (Fin n) ℚ) : Mat := ofFun fun i j => XR.fin (A i j)

theorem foldl_add_fin (l : List ℚ) (a : ℚ) :
    (l.map XR.fin).foldl XR.add (XR.fin a) = XR.fin (a + l.sum) := by
  induction l generalizing a with
  | nil => simp
  | cons b l ih => simp only [List.map_cons, List.foldl_cons, List.sum_cons, XR.add, ih]; congr 1; ring

theorem sum1_addMul_fin (l : List ℚ) : sum1 SR.addMul (l.map XR.fin) = XR.fin l.sum := by
  cases l with
  | nil => rfl
  | cons a l =>
    simp only [sum1, List.map_cons, SR.addMul, List.sum_cons]
    exact foldl_add_fin l a

/-- **the driver's add-mul matrix product on finite rational matrices is Mathlib's `Matrix` product over ℚ** -/
theorem mul_addMul_ofRat {n : Nat} (A B : Matrix (Fin n) (Fin n) ℚ) :
    Mat.mul SR.addMul (ofRat A) (ofRat B) = ofRat (A * B) := by
  unfold ofRat
  rw [mul_ofFun]
  congr 1; funext i k
  have : (List.ofFn fun j => SR.addMul.mul (XR.fin (A i j)) (XR.fin (B j k)))
      = (List.ofFn fun j => A i j * B j k).map XR.fin := by
    rw [List.map_ofFn]; rfl
  rw [this, sum1_addMul_fin, List.sum_ofFn, Matrix.mul_apply]


/-! ### max-add on ℚ ∪ {−∞} = Mathlib's matrix product over the tropical semiring of `WithTop ℚᵒᵈ`
    (order-dual: the tropical ⊕ = min of the dual order = max; ⊤ = −∞; tropical ⊗ = +) -/

abbrev MaxPlus := Tropical (WithTop ℚᵒᵈ)

def fromW (x : WithTop ℚᵒᵈ) : XR := WithTop.recTopCoe XR.ninf (fun q => XR.fin (OrderDual.ofDual q)) x
def fromMP (a : MaxPlus) : XR := fromW (Tropical.untrop a)

theorem fromW_add (x y : WithTop ℚᵒᵈ) : fromW (x + y) = XR.add (fromW x) (fromW y) := by
  cases x using WithTop.recTopCoe with
  | top => cases y using WithTop.recTopCoe <;> simp [fromW, XR.add]
  | coe a =>
    cases y using WithTop.recTopCoe with
    | top => simp [fromW, XR.add]
    | coe b => simp only [fromW, ← WithTop.coe_add, WithTop.recTopCoe_coe, XR.add]; rfl

theorem fromW_min (x y : WithTop ℚᵒᵈ) : fromW (min x y) = XR.max (fromW x) (fromW y) := by
  cases x using WithTop.recTopCoe with
  | top => cases y using WithTop.recTopCoe <;> simp [fromW, XR.max, XR.le]
  | coe a =>
    cases y using WithTop.recTopCoe with
    | top => simp [fromW, XR.max, XR.le]
    | coe b =>
      simp only [fromW, ← WithTop.coe_min, WithTop.recTopCoe_coe, XR.max, XR.le, ofDual_min]
      by_cases h : OrderDual.ofDual a ≤ OrderDual.ofDual b
      · simp [h, max_eq_right h]
      · simp [h, max_eq_left (le_of_not_ge h)]

theorem fromMP_mul (a b : MaxPlus) : fromMP (a * b) = XR.add (fromMP a) (fromMP b) := by
  simp only [fromMP, Tropical.untrop_mul, fromW_add]

theorem fromMP_add (a b : MaxPlus) : fromMP (a + b) = XR.max (fromMP a) (fromMP b) := by
  simp only [fromMP, Tropical.untrop_add, fromW_min]

theorem foldl_max_fromMP (l : List MaxPlus) (a : MaxPlus) :
    (l.map fromMP).foldl XR.max (fromMP a) = fromMP (a + l.sum) := by
  induction l generalizing a with
  | nil => simp
  | cons b l ih => simp only [List.map_cons, List.foldl_cons, List.sum_cons, ← fromMP_add, ih, add_assoc]

theorem sum1_maxAdd_fromMP (l : List MaxPlus) : sum1 SR.maxAdd (l.map fromMP) = fromMP l.sum := by
  cases l with
  | nil => simp [sum1, SR.maxAdd, fromMP, fromW]
  | cons a l =>
    simp only [sum1, List.map_cons, SR.maxAdd, List.sum_cons]
    exact foldl_max_fromMP l a

def ofMaxPlus {n : Nat} (A : Matrix (Fin n) (Fin n) MaxPlus) : Mat := ofFun fun i j => fromMP (A i j)

/-- **the driver's max-add matrix product on matrices over ℚ ∪ {−∞} is Mathlib's `Matrix` product over the
    max-plus (tropical) semiring** -/
theorem mul_maxAdd_ofMaxPlus {n : Nat} (A B : Matrix (Fin n) (Fin n) MaxPlus) :
    Mat.mul SR.maxAdd (ofMaxPlus A) (ofMaxPlus B) = ofMaxPlus (A * B) := by
  unfold ofMaxPlus
  rw [mul_ofFun]
  congr 1; funext i k
  have : (List.ofFn fun j => SR.maxAdd.mul (fromMP (A i j)) (fromMP (B j k)))
      = (List.ofFn fun j => A i j * B j k).map fromMP := by
    rw [List.map_ofFn]; congr 1; funext j; simp only [Function.comp, fromMP_mul]; rfl
  rw [this, sum1_maxAdd_fromMP, List.sum_ofFn, Matrix.mul_apply]

/-- every finite-or-(−∞) driver value is in the image of `fromMP` (so `ofMaxPlus` reaches every well-formed
    max-add matrix without NaN / +∞) -/
theorem fromMP_surj_fin (q : ℚ) : fromMP (Tropical.trop ((OrderDual.toDual q : ℚᵒᵈ) : WithTop ℚᵒᵈ)) = XR.fin q := by
  simp [fromMP, fromW]
theorem fromMP_zero : fromMP (0 : MaxPlus) = XR.ninf := by simp [fromMP, fromW]


/-! ### transport: the algorithms commute with a product-preserving map, so on driver matrices that come from
    NaN-free entries the driver's results are the images of the Mathlib-matrix results (= the fold) -/

section transport
variable {α β : Type} (f : α → α → α) (g : β → β → β) (h : α → β)

theorem fold1_map_hom (hh : ∀ a b, g (h a) (h b) = h (f a b)) (l : List α) :
    fold1 g (l.map h) = (fold1 f l).map h := by
  cases l with
  | nil => rfl
  | cons a l =>
    simp only [List.map_cons, fold1, Option.map_some, Option.some.injEq]
    induction l generalizing a with
    | nil => rfl
    | cons b l ih => simp only [List.map_cons, List.foldl_cons, hh]; exact ih (f a b)

theorem naive_map_hom (hh : ∀ a b, g (h a) (h b) = h (f a b)) : ∀ l : List α,
    naive g (l.map h) = (naive f l).map h
  | [] => rfl
  | [a] => rfl
  | a :: b :: rest => by
    have ih := naive_map_hom hh (b :: rest)
    simp only [List.map_cons] at ih ⊢
    simp only [naive, ih, Option.map_map]
    congr 1; funext x; simp [Function.comp, hh]

theorem halve_map_hom (hh : ∀ a b, g (h a) (h b) = h (f a b)) : ∀ l : List α,
    halve g (l.map h) = (halve f l).map h
  | [] => rfl
  | [a] => rfl
  | a :: b :: rest => by
    simp only [List.map_cons, halve, hh, halve_map_hom hh rest]

theorem scan_map_hom (hh : ∀ a b, g (h a) (h b) = h (f a b)) (l : List α) :
    scan g (l.map h) = (scan f l).map h := by
  fun_induction scan f l with
  | case1 => simp [scan]
  | case2 a => simp [scan]
  | case3 a b rest ih =>
    rw [← ih, ← halve_map_hom f g h hh]
    simp only [List.map_cons]
    rw [scan]

end transport

/-- sequential_sum_product / naive on driver matrices with finite rational entries (add-mul): the driver's
    result is the image of Mathlib's ordered matrix product. -/
theorem scan_driver_addMul {n : Nat} (l : List (Matrix (Fin n) (Fin n) ℚ)) :
    scan (Mat.mul SR.addMul) (l.map ofRat) = (fold1 (fun a b => a * b) l).map ofRat ∧
    naive (Mat.mul SR.addMul) (l.map ofRat) = (fold1 (fun a b => a * b) l).map ofRat ∧
    fold1 (Mat.mul SR.addMul) (l.map ofRat) = (fold1 (fun a b => a * b) l).map ofRat := by
  have hh : ∀ A B : Matrix (Fin n) (Fin n) ℚ, Mat.mul SR.addMul (ofRat A) (ofRat B) = ofRat (A * B) :=
    mul_addMul_ofRat
  refine ⟨?_, ?_, fold1_map_hom _ _ _ hh l⟩
  · rw [scan_map_hom _ _ _ hh, scan_matrix_eq_fold]
  · rw [naive_map_hom _ _ _ hh, naive_matrix_eq_fold]

/-- the same for max-add on matrices over ℚ ∪ {−∞}. -/
theorem scan_driver_maxAdd {n : Nat} (l : List (Matrix (Fin n) (Fin n) MaxPlus)) :
    scan (Mat.mul SR.maxAdd) (l.map ofMaxPlus) = (fold1 (fun a b => a * b) l).map ofMaxPlus ∧
    naive (Mat.mul SR.maxAdd) (l.map ofMaxPlus) = (fold1 (fun a b => a * b) l).map ofMaxPlus ∧
    fold1 (Mat.mul SR.maxAdd) (l.map ofMaxPlus) = (fold1 (fun a b => a * b) l).map ofMaxPlus := by
  have hh : ∀ A B : Matrix (Fin n) (Fin n) MaxPlus,
      Mat.mul SR.maxAdd (ofMaxPlus A) (ofMaxPlus B) = ofMaxPlus (A * B) := mul_maxAdd_ofMaxPlus
  refine ⟨?_, ?_, fold1_map_hom _ _ _ hh l⟩
  · rw [scan_map_hom _ _ _ hh, scan_matrix_eq_fold]
  · rw [naive_map_hom _ _ _ hh, naive_matrix_eq_fold]

/-! ### the decidable NaN-free predicate on what the driver actually receives -/

def isFinB : XR → Bool
  | .fin _ => true
  | _ => false

def ratOf : XR → ℚ
  | .fin q => q
  | _ => 0

/-- `Finite n m`: m is a well-formed n×n driver matrix all of whose entries are finite rationals
    (for add-mul the semiring zero is the finite 0). -/
def Finite (n : Nat) (m : Mat) : Bool :=
  m.length == n && m.all fun r => r.length == n && r.all isFinB

def toRatMat (n : Nat) (m : Mat) : Matrix (Fin n) (Fin n) ℚ :=
  fun i j => ratOf ((m.getD i []).getD j XR.nan)

theorem fin_ratOf (x : XR) (h : isFinB x = true) : XR.fin (ratOf x) = x := by
  cases x <;> simp_all [isFinB, ratOf]

theorem finite_eq_ofRat (n : Nat) (m : Mat) (h : Finite n m = true) : m = ofRat (toRatMat n m) := by
  simp only [Finite, Bool.and_eq_true, beq_iff_eq, List.all_eq_true] at h
  obtain ⟨hlen, hrows⟩ := h
  apply List.ext_getElem
  · simp [ofRat, ofFun, hlen]
  · intro i h1 h2
    have hi : i < n := by omega
    have hr := hrows m[i] (List.getElem_mem h1)
    simp only [ofRat, ofFun, List.getElem_ofFn]
    apply List.ext_getElem
    · simp [hr.1]
    · intro j hj1 hj2
      simp only [List.getElem_ofFn, toRatMat]
      have e1 : m.getD i [] = m[i] := by simp [List.getD_eq_getElem?_getD, h1]
      have e2 : (m[i]).getD j XR.nan = m[i][j] := by simp [List.getD_eq_getElem?_getD, hj1]
      rw [e1, e2, fin_ratOf _ (hr.2 _ (List.getElem_mem hj1))]

theorem finite_list_eq_map (n : Nat) (l : List Mat) (hl : ∀ m ∈ l, Finite n m = true) :
    l = (l.map (toRatMat n)).map ofRat := by
  rw [List.map_map]
  conv => lhs; rw [← List.map_id l]
  apply List.map_congr_left
  intro m hm
  exact finite_eq_ofRat n m (hl m hm)

/-- **The executable scan the driver runs is covered by the fold theorem**: on any non-empty list of NaN-free
    finite n×n driver matrices, the index-level `scanIdx` (what `C10 scan add-mul …` computes), the structural
    `scan` and `naive` all equal the left fold with the driver's own `Mat.mul SR.addMul`. -/
theorem driver_scan_addMul_eq_fold (n : Nat) (l : List Mat) (hl : ∀ m ∈ l, Finite n m = true) (hne : l ≠ []) :
    scanIdx (Mat.mul SR.addMul) (l.length + 1) l = fold1 (Mat.mul SR.addMul) l ∧
    scan (Mat.mul SR.addMul) l = fold1 (Mat.mul SR.addMul) l ∧
    naive (Mat.mul SR.addMul) l = fold1 (Mat.mul SR.addMul) l := by
  have hmap := finite_list_eq_map n l hl
  obtain ⟨h1, h2, h3⟩ := scan_driver_addMul (l.map (toRatMat n))
  rw [← hmap] at h1 h2 h3
  refine ⟨?_, by rw [h1, h3], by rw [h2, h3]⟩
  rw [scanIdx_eq_scan _ _ l (by omega) hne, h1, h3]

/-- … and the driver's product is associative on NaN-free finite matrices (the hypothesis `Assoc` of the generic
    theorems, restricted to the carrier the correspondence uses). -/
theorem driver_mul_assoc_addMul (n : Nat) (a b c : Mat) (ha : Finite n a = true) (hb : Finite n b = true)
    (hc : Finite n c = true) :
    Mat.mul SR.addMul (Mat.mul SR.addMul a b) c = Mat.mul SR.addMul a (Mat.mul SR.addMul b c) := by
  rw [finite_eq_ofRat n a ha, finite_eq_ofRat n b hb, finite_eq_ofRat n c hc]
  simp only [mul_addMul_ofRat, Matrix.mul_assoc]

/-- closure: the product of NaN-free finite matrices is NaN-free finite -/
theorem finite_ofRat {n : Nat} (A : Matrix (Fin n) (Fin n) ℚ) : Finite n (ofRat A) = true := by
  simp [Finite, ofRat, ofFun, List.all_eq_true, List.mem_ofFn, isFinB]

theorem finite_mul (n : Nat) (a b : Mat) (ha : Finite n a = true) (hb : Finite n b = true) :
    Finite n (Mat.mul SR.addMul a b) = true := by
  rw [finite_eq_ofRat n a ha, finite_eq_ofRat n b hb, mul_addMul_ofRat]
  exact finite_ofRat _

/-- the hypothesis is satisfiable and decidable: a concrete chain the driver could receive -/
example : Finite 2 [[1, 2], [3, 4]] = true := by decide
example : Finite 2 [[1, XR.nan], [3, 4]] = false := by decide
example :
    scanIdx (Mat.mul SR.addMul) 4 [[[1, 2], [3, 4]], [[0, 1], [1, 0]], [[2, 0], [0, 2]]]
      = fold1 (Mat.mul SR.addMul) [[[1, 2], [3, 4]], [[0, 1], [1, 0]], [[2, 0], [0, 2]]] :=
  (driver_scan_addMul_eq_fold 2 _ (by decide) (by simp)).1

/-! max-add: entries finite or the semiring's zero −∞ -/

def isFinOrNinfB : XR → Bool
  | .fin _ => true
  | .ninf => true
  | _ => false

def toMP : XR → MaxPlus
  | .fin q => Tropical.trop ((OrderDual.toDual q : ℚᵒᵈ) : WithTop ℚᵒᵈ)
  | _ => 0

def FiniteOrZeroMaxAdd (n : Nat) (m : Mat) : Bool :=
  m.length == n && m.all fun r => r.length == n && r.all isFinOrNinfB

def toMPMat (n : Nat) (m : Mat) : Matrix (Fin n) (Fin n) MaxPlus :=
  fun i j => toMP ((m.getD i []).getD j XR.nan)

theorem fromMP_toMP (x : XR) (h : isFinOrNinfB x = true) : fromMP (toMP x) = x := by
  cases x with
  | fin q => exact fromMP_surj_fin q
  | ninf => exact fromMP_zero
  | pinf => simp [isFinOrNinfB] at h
  | nan => simp [isFinOrNinfB] at h

theorem clean_eq_ofMaxPlus (n : Nat) (m : Mat) (h : FiniteOrZeroMaxAdd n m = true) :
    m = ofMaxPlus (toMPMat n m) := by
  simp only [FiniteOrZeroMaxAdd, Bool.and_eq_true, beq_iff_eq, List.all_eq_true] at h
  obtain ⟨hlen, hrows⟩ := h
  apply List.ext_getElem
  · simp [ofMaxPlus, ofFun, hlen]
  · intro i h1 h2
    have hr := hrows m[i] (List.getElem_mem h1)
    simp only [ofMaxPlus, ofFun, List.getElem_ofFn]
    apply List.ext_getElem
    · simp [hr.1]
    · intro j hj1 hj2
      simp only [List.getElem_ofFn, toMPMat]
      have e1 : m.getD i [] = m[i] := by simp [List.getD_eq_getElem?_getD, h1]
      have e2 : (m[i]).getD j XR.nan = m[i][j] := by simp [List.getD_eq_getElem?_getD, hj1]
      rw [e1, e2, fromMP_toMP _ (hr.2 _ (List.getElem_mem hj1))]

/-- the same coverage statement for max-add on matrices with entries in ℚ ∪ {−∞} -/
theorem driver_scan_maxAdd_eq_fold (n : Nat) (l : List Mat) (hl : ∀ m ∈ l, FiniteOrZeroMaxAdd n m = true)
    (hne : l ≠ []) :
    scanIdx (Mat.mul SR.maxAdd) (l.length + 1) l = fold1 (Mat.mul SR.maxAdd) l ∧
    scan (Mat.mul SR.maxAdd) l = fold1 (Mat.mul SR.maxAdd) l ∧
    naive (Mat.mul SR.maxAdd) l = fold1 (Mat.mul SR.maxAdd) l := by
  have hmap : l = (l.map (toMPMat n)).map ofMaxPlus := by
    rw [List.map_map]
    conv => lhs; rw [← List.map_id l]
    apply List.map_congr_left
    intro m hm
    exact clean_eq_ofMaxPlus n m (hl m hm)
  obtain ⟨h1, h2, h3⟩ := scan_driver_maxAdd (l.map (toMPMat n))
  rw [← hmap] at h1 h2 h3
  refine ⟨?_, by rw [h1, h3], by rw [h2, h3]⟩
  rw [scanIdx_eq_scan _ _ l (by omega) hne, h1, h3]

example : FiniteOrZeroMaxAdd 2 [[1, XR.ninf], [XR.ninf, 4]] = true := by decide

/-! transport of mixed_sequential_sum_product -/

theorem mapM_map_opt {ι α β : Type} (F : ι → Option α) (h : α → β) : ∀ l : List ι,
    l.mapM (fun i => (F i).map h) = (l.mapM F).map (List.map h) := by
  intro l
  induction l with
  | nil => rfl
  | cons a l ih =>
    rw [List.mapM_cons, List.mapM_cons, ih]
    cases F a with
    | none => rfl
    | some x =>
      cases l.mapM F with
      | none => rfl
      | some xs => rfl

theorem mixed_map_hom {α β : Type} (f : α → α → α) (g : β → β → β) (h : α → β)
    (hh : ∀ a b, g (h a) (h b) = h (f a b)) (k : Nat) : ∀ (fuel : Nat) (l : List α),
    mixed g k fuel (l.map h) = (mixed f k fuel l).map h := by
  intro fuel
  induction fuel with
  | zero => intro l; rfl
  | succ fuel ih =>
    intro l
    simp only [mixed, List.length_map]
    by_cases h0 : k = 0 ∨ l.length = 0
    · rw [if_pos h0, if_pos h0]; rfl
    · rw [if_neg h0, if_neg h0]
      by_cases h1 : l.length % k ≠ 0 ∧ l.length - l.length % k > 0
      · rw [if_pos h1, if_pos h1, ← List.map_take, ← List.map_drop, ih]
        cases mixed f k fuel (l.take (l.length - l.length % k)) with
        | none => rfl
        | some ie =>
          simp only [Option.map_some]
          rw [← List.map_cons, naive_map_hom f g h hh]
      · rw [if_neg h1, if_neg h1]
        by_cases h2 : k = 1
        · rw [if_pos h2, if_pos h2, naive_map_hom f g h hh]
        · rw [if_neg h2, if_neg h2]
          by_cases h3 : k ≥ l.length
          · rw [if_pos h3, if_pos h3, scan_map_hom f g h hh]
          · rw [if_neg h3, if_neg h3]
            have e : (fun i => naive g (List.take (l.length / k) (List.drop (i * (l.length / k)) (l.map h))))
                = fun i => (naive f (List.take (l.length / k) (List.drop (i * (l.length / k)) l))).map h := by
              funext i
              rw [← List.map_drop, ← List.map_take, naive_map_hom f g h hh]
            rw [e, mapM_map_opt]
            cases (List.range k).mapM
                (fun i => naive f (List.take (l.length / k) (List.drop (i * (l.length / k)) l))) with
            | none => rfl
            | some rs =>
              simp only [Option.map_some]
              rw [scan_map_hom f g h hh]

/-- mixed_sequential_sum_product as the driver runs it (`C10 mixed add-mul K …`, fuel 2): equals the fold on
    NaN-free finite matrices, every num_segments ≥ 1. -/
theorem driver_mixed_addMul_eq_fold (n k : Nat) (hk : k > 0) (l : List Mat)
    (hl : ∀ m ∈ l, Finite n m = true) (hne : l ≠ []) :
    mixed (Mat.mul SR.addMul) k 2 l = fold1 (Mat.mul SR.addMul) l := by
  have hmap := finite_list_eq_map n l hl
  have hne' : l.map (toRatMat n) ≠ [] := by simpa using hne
  rw [hmap, mixed_map_hom _ _ ofRat mul_addMul_ofRat, mixed_matrix_eq_fold k hk _ hne',
    fold1_map_hom _ _ ofRat mul_addMul_ofRat]

end FV.Props.C10.Carrier
