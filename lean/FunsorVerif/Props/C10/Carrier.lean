/-
  Props/C10/Carrier.lean — the driver's semiring matrix product `Mat.mul sr` (lists of rows over XR = ℚ ∪ {±∞, NaN})
  agrees, on the NaN-free carrier, with Mathlib's `Matrix` product over the corresponding semiring:
     add-mul, finite rational entries          ↔  Matrix (Fin n) (Fin n) ℚ                  (`mul_addMul_ofRat`)
     max-add, entries in ℚ ∪ {−∞}              ↔  Matrix … (Tropical (WithTop ℚᵒᵈ))         (`mul_maxAdd_ofMaxPlus`)
  (`mul_ofFun` is the entrywise description of `Mat.mul` on well-formed n×n matrices for every driver semiring.)
  With the transport lemmas the theorems of Props/C10/Matrix.lean apply to what the driver computes
  (`scan_driver_addMul`, `scan_driver_maxAdd`).
-/
import FunsorVerif.Core.Semiring
import FunsorVerif.Props.C10
import FunsorVerif.Props.C10.Matrix
import Mathlib.Data.Matrix.Mul
import Mathlib.Algebra.Ring.Rat
import Mathlib.Algebra.BigOperators.Fin
import Mathlib.Algebra.Tropical.Basic
import Mathlib.Algebra.Order.Monoid.OrderDual
import Mathlib.Algebra.Order.Ring.Rat

namespace FV.Props.C10.Carrier
open FV FV.C10

/-- the ⊕-fold `Mat.mul` uses for one entry: starts from the first term -/
def sum1 (sr : SR) : List XR → XR
  | [] => sr.zero
  | t :: ts => ts.foldl sr.add t

/-- a well-formed n×n driver matrix given by its entries -/
def ofFun {n : Nat} (f : Fin n → Fin n → XR) : Mat := List.ofFn fun i => List.ofFn (f i)

theorem ncols_ofFun {n : Nat} (f : Fin n → Fin n → XR) : Mat.ncols (ofFun f) = n := by
  cases n with
  | zero => simp [Mat.ncols, ofFun]
  | succ n => simp [Mat.ncols, ofFun, List.ofFn_succ]

theorem col_ofFun {n : Nat} (g : Fin n → Fin n → XR) (k : Fin n) :
    Mat.col (ofFun g) k = List.ofFn fun j => g j k := by
  simp only [Mat.col, ofFun, List.map_ofFn]
  congr 1; funext j
  simp [Function.comp, List.getD_eq_getElem?_getD]

/-- `Mat.mul` on well-formed matrices, entry by entry (any semiring of the driver). -/
theorem mul_ofFun (sr : SR) {n : Nat} (f g : Fin n → Fin n → XR) :
    Mat.mul sr (ofFun f) (ofFun g)
      = ofFun fun i k => sum1 sr (List.ofFn fun j => sr.mul (f i j) (g j k)) := by
  unfold Mat.mul
  rw [ncols_ofFun]
  apply List.ext_getElem
  · simp [ofFun]
  · intro i h1 h2
    have hi : i < n := by simpa [ofFun] using h2
    simp only [List.getElem_map]
    have hrow : (ofFun f)[i]'(by simpa [ofFun] using hi) = List.ofFn (f ⟨i, hi⟩) := by
      simp [ofFun]
    rw [hrow]
    have hr : (ofFun fun i k => sum1 sr (List.ofFn fun j => sr.mul (f i j) (g j k)))[i]'h2
        = List.ofFn fun k => sum1 sr (List.ofFn fun j => sr.mul (f ⟨i, hi⟩ j) (g j k)) := by
      simp [ofFun]
    rw [hr]
    apply List.ext_getElem
    · simp
    · intro k hk1 hk2
      have hk : k < n := by simpa using hk2
      simp only [List.getElem_map, List.getElem_range, List.getElem_ofFn]
      have hcol := col_ofFun g ⟨k, hk⟩
      simp only [] at hcol
      rw [hcol]
      have hz : List.zipWith sr.mul (List.ofFn (f ⟨i, hi⟩)) (List.ofFn fun j => g j ⟨k, hk⟩)
          = List.ofFn fun j => sr.mul (f ⟨i, hi⟩ j) (g j ⟨k, hk⟩) := by
        apply List.ext_getElem
        · simp
        · intro j _ _; simp
      rw [hz]
      cases hl : (List.ofFn fun j => sr.mul (f ⟨i, hi⟩ j) (g j ⟨k, hk⟩)) with
      | nil => simp [sum1]
      | cons t ts => simp [sum1]

/-! ### add-mul on finite rationals = Mathlib's matrix product over ℚ -/

def ofRat {n : Nat} (A : Matrix (Fin n) (Fin n) ℚ) : Mat := ofFun fun i j => XR.fin (A i j)

theorem foldl_add_fin (l : List ℚ) (a : ℚ) :
    (l.map XR.fin).foldl XR.add (XR.fin a) = XR.fin (a + l.sum) := by
  induction l generalizing a with
  | nil => simp
  | cons b l ih => simp only [List.map_cons, List.foldl_cons, List.sum_cons, XR.add, ih]; congr 1; ring

theorem sum1_addMul_fin (l : List ℚ) : sum1 SR.addMul (l.map XR.fin) = XR.fin l.sum := by
  cases l with
  | nil => rfl
  | cons a l =>
    simp only [sum1, List.map_cons, SR.addMul, List.sum_cons]
    exact foldl_add_fin l a

/-- **the driver's add-mul matrix product on finite rational matrices is Mathlib's `Matrix` product over ℚ** -/
theorem mul_addMul_ofRat {n : Nat} (A B : Matrix (Fin n) (Fin n) ℚ) :
    Mat.mul SR.addMul (ofRat A) (ofRat B) = ofRat (A * B) := by
  unfold ofRat
  rw [mul_ofFun]
  congr 1; funext i k
  have : (List.ofFn fun j => SR.addMul.mul (XR.fin (A i j)) (XR.fin (B j k)))
      = (List.ofFn fun j => A i j * B j k).map XR.fin := by
    rw [List.map_ofFn]; rfl
  rw [this, sum1_addMul_fin, List.sum_ofFn, Matrix.mul_apply]


/-! ### max-add on ℚ ∪ {−∞} = Mathlib's matrix product over the tropical semiring of `WithTop ℚᵒᵈ`
    (order-dual: the tropical ⊕ = min of the dual order = max; ⊤ = −∞; tropical ⊗ = +) -/

abbrev MaxPlus := Tropical (WithTop ℚᵒᵈ)

def fromW (x : WithTop ℚᵒᵈ) : XR := WithTop.recTopCoe XR.ninf (fun q => XR.fin (OrderDual.ofDual q)) x
def fromMP (a : MaxPlus) : XR := fromW (Tropical.untrop a)

theorem fromW_add (x y : WithTop ℚᵒᵈ) : fromW (x + y) = XR.add (fromW x) (fromW y) := by
  cases x using WithTop.recTopCoe with
  | top => cases y using WithTop.recTopCoe <;> simp [fromW, XR.add]
  | coe a =>
    cases y using WithTop.recTopCoe with
    | top => simp [fromW, XR.add]
    | coe b => simp only [fromW, ← WithTop.coe_add, WithTop.recTopCoe_coe, XR.add]; rfl

theorem fromW_min (x y : WithTop ℚᵒᵈ) : fromW (min x y) = XR.max (fromW x) (fromW y) := by
  cases x using WithTop.recTopCoe with
  | top => cases y using WithTop.recTopCoe <;> simp [fromW, XR.max, XR.le]
  | coe a =>
    cases y using WithTop.recTopCoe with
    | top => simp [fromW, XR.max, XR.le]
    | coe b =>
      simp only [fromW, ← WithTop.coe_min, WithTop.recTopCoe_coe, XR.max, XR.le, ofDual_min]
      by_cases h : OrderDual.ofDual a ≤ OrderDual.ofDual b
      · simp [h, max_eq_right h]
      · simp [h, max_eq_left (le_of_not_ge h)]

theorem fromMP_mul (a b : MaxPlus) : fromMP (a * b) = XR.add (fromMP a) (fromMP b) := by
  simp only [fromMP, Tropical.untrop_mul, fromW_add]

theorem fromMP_add (a b : MaxPlus) : fromMP (a + b) = XR.max (fromMP a) (fromMP b) := by
  simp only [fromMP, Tropical.untrop_add, fromW_min]

theorem foldl_max_fromMP (l : List MaxPlus) (a : MaxPlus) :
    (l.map fromMP).foldl XR.max (fromMP a) = fromMP (a + l.sum) := by
  induction l generalizing a with
  | nil => simp
  | cons b l ih => simp only [List.map_cons, List.foldl_cons, List.sum_cons, ← fromMP_add, ih, add_assoc]

theorem sum1_maxAdd_fromMP (l : List MaxPlus) : sum1 SR.maxAdd (l.map fromMP) = fromMP l.sum := by
  cases l with
  | nil => simp [sum1, SR.maxAdd, fromMP, fromW]
  | cons a l =>
    simp only [sum1, List.map_cons, SR.maxAdd, List.sum_cons]
    exact foldl_max_fromMP l a

def ofMaxPlus {n : Nat} (A : Matrix (Fin n) (Fin n) MaxPlus) : Mat := ofFun fun i j => fromMP (A i j)

/-- **the driver's max-add matrix product on matrices over ℚ ∪ {−∞} is Mathlib's `Matrix` product over the
    max-plus (tropical) semiring** -/
theorem mul_maxAdd_ofMaxPlus {n : Nat} (A B : Matrix (Fin n) (Fin n) MaxPlus) :
    Mat.mul SR.maxAdd (ofMaxPlus A) (ofMaxPlus B) = ofMaxPlus (A * B) := by
  unfold ofMaxPlus
  rw [mul_ofFun]
  congr 1; funext i k
  have : (List.ofFn fun j => SR.maxAdd.mul (fromMP (A i j)) (fromMP (B j k)))
      = (List.ofFn fun j => A i j * B j k).map fromMP := by
    rw [List.map_ofFn]; congr 1; funext j; simp only [Function.comp, fromMP_mul]; rfl
  rw [this, sum1_maxAdd_fromMP, List.sum_ofFn, Matrix.mul_apply]

/-- every finite-or-(−∞) driver value is in the image of `fromMP` (so `ofMaxPlus` reaches every well-formed
    max-add matrix without NaN / +∞) -/
theorem fromMP_surj_fin (q : ℚ) : fromMP (Tropical.trop ((OrderDual.toDual q : ℚᵒᵈ) : WithTop ℚᵒᵈ)) = XR.fin q := by
  simp [fromMP, fromW]
theorem fromMP_zero : fromMP (0 : MaxPlus) = XR.ninf := by simp [fromMP, fromW]


/-! ### transport: the algorithms commute with a product-preserving map, so on driver matrices that come from
    NaN-free entries the driver's results are the images of the Mathlib-matrix results (= the fold) -/

section transport
variable {α β : Type} (f : α → α → α) (g : β → β → β) (h : α → β)

theorem fold1_map_hom (hh : ∀ a b, g (h a) (h b) = h (f a b)) (l : List α) :
    fold1 g (l.map h) = (fold1 f l).map h := by
  cases l with
  | nil => rfl
  | cons a l =>
    simp only [List.map_cons, fold1, Option.map_some, Option.some.injEq]
    induction l generalizing a with
    | nil => rfl
    | cons b l ih => simp only [List.map_cons, List.foldl_cons, hh]; exact ih (f a b)

theorem naive_map_hom (hh : ∀ a b, g (h a) (h b) = h (f a b)) : ∀ l : List α,
    naive g (l.map h) = (naive f l).map h
  | [] => rfl
  | [a] => rfl
  | a :: b :: rest => by
    have ih := naive_map_hom hh (b :: rest)
    simp only [List.map_cons] at ih ⊢
    simp only [naive, ih, Option.map_map]
    congr 1; funext x; simp [Function.comp, hh]

theorem halve_map_hom (hh : ∀ a b, g (h a) (h b) = h (f a b)) : ∀ l : List α,
    halve g (l.map h) = (halve f l).map h
  | [] => rfl
  | [a] => rfl
  | a :: b :: rest => by
    simp only [List.map_cons, halve, hh, halve_map_hom hh rest]

theorem scan_map_hom (hh : ∀ a b, g (h a) (h b) = h (f a b)) (l : List α) :
    scan g (l.map h) = (scan f l).map h := by
  fun_induction scan f l with
  | case1 => simp [scan]
  | case2 a => simp [scan]
  | case3 a b rest ih =>
    rw [← ih, ← halve_map_hom f g h hh]
    simp only [List.map_cons]
    rw [scan]

end transport

/-- sequential_sum_product / naive on driver matrices with finite rational entries (add-mul): the driver's
    result is the image of Mathlib's ordered matrix product. -/
theorem scan_driver_addMul {n : Nat} (l : List (Matrix (Fin n) (Fin n) ℚ)) :
    scan (Mat.mul SR.addMul) (l.map ofRat) = (fold1 (fun a b => a * b) l).map ofRat ∧
    naive (Mat.mul SR.addMul) (l.map ofRat) = (fold1 (fun a b => a * b) l).map ofRat ∧
    fold1 (Mat.mul SR.addMul) (l.map ofRat) = (fold1 (fun a b => a * b) l).map ofRat := by
  have hh : ∀ A B : Matrix (Fin n) (Fin n) ℚ, Mat.mul SR.addMul (ofRat A) (ofRat B) = ofRat (A * B) :=
    mul_addMul_ofRat
  refine ⟨?_, ?_, fold1_map_hom _ _ _ hh l⟩
  · rw [scan_map_hom _ _ _ hh, scan_matrix_eq_fold]
  · rw [naive_map_hom _ _ _ hh, naive_matrix_eq_fold]

/-- the same for max-add on matrices over ℚ ∪ {−∞}. -/
theorem scan_driver_maxAdd {n : Nat} (l : List (Matrix (Fin n) (Fin n) MaxPlus)) :
    scan (Mat.mul SR.maxAdd) (l.map ofMaxPlus) = (fold1 (fun a b => a * b) l).map ofMaxPlus ∧
    naive (Mat.mul SR.maxAdd) (l.map ofMaxPlus) = (fold1 (fun a b => a * b) l).map ofMaxPlus ∧
    fold1 (Mat.mul SR.maxAdd) (l.map ofMaxPlus) = (fold1 (fun a b => a * b) l).map ofMaxPlus := by
  have hh : ∀ A B : Matrix (Fin n) (Fin n) MaxPlus,
      Mat.mul SR.maxAdd (ofMaxPlus A) (ofMaxPlus B) = ofMaxPlus (A * B) := mul_maxAdd_ofMaxPlus
  refine ⟨?_, ?_, fold1_map_hom _ _ _ hh l⟩
  · rw [scan_map_hom _ _ _ hh, scan_matrix_eq_fold]
  · rw [naive_map_hom _ _ _ hh, naive_matrix_eq_fold]

end FV.Props.C10.Carrier
