/-
  C10 — driver-matrix transport for the MIN-ADD semiring (Props/C10/Carrier.lean has add-mul and max-add), and the
  mixed_sequential_sum_product transport for max-add and min-add (Carrier.lean has it for add-mul only).

  min-add on ℚ ∪ {+∞} = Mathlib's matrix product over the tropical semiring `Tropical (WithTop ℚ)`
  (tropical ⊕ = min, ⊤ = +∞ = the semiring zero, tropical ⊗ = +).

    * `mul_minAdd_ofMinPlus`          the driver's `Mat.mul SR.minAdd` IS Mathlib's product on that carrier;
    * `scan_driver_minAdd`            scan / naive / fold on images of tropical matrices;
    * `driver_scan_minAdd_eq_fold`    on every list of well-formed driver matrices with entries finite or +∞ (decidable
                                      predicate `FiniteOrZeroMinAdd`): scanIdx = scan = naive = fold1;
    * `driver_mixed_minAdd_eq_fold`, `driver_mixed_maxAdd_eq_fold`   the same for `mixed`, every num_segments ≥ 1.
-/
import FunsorVerif.Props.C10.Carrier

namespace FV.Props.C10.Carrier
open FV FV.C10

abbrev MinPlus := Tropical (WithTop ℚ)

def fromWm (x : WithTop ℚ) : XR := WithTop.recTopCoe XR.pinf (fun q => XR.fin q) x
def fromMinP (a : MinPlus) : XR := fromWm (Tropical.untrop a)

theorem fromWm_add (x y : WithTop ℚ) : fromWm (x + y) = XR.add (fromWm x) (fromWm y) := by
  cases x using WithTop.recTopCoe with
  | top => cases y using WithTop.recTopCoe <;> simp [fromWm, XR.add]
  | coe a =>
    cases y using WithTop.recTopCoe with
    | top => simp [fromWm, XR.add]
    | coe b => simp only [fromWm, ← WithTop.coe_add, WithTop.recTopCoe_coe, XR.add]

theorem fromWm_min (x y : WithTop ℚ) : fromWm (min x y) = XR.min (fromWm x) (fromWm y) := by
  cases x using WithTop.recTopCoe with
  | top => cases y using WithTop.recTopCoe <;> simp [fromWm, XR.min, XR.le]
  | coe a =>
    cases y using WithTop.recTopCoe with
    | top => simp [fromWm, XR.min, XR.le]
    | coe b =>
      simp only [fromWm, ← WithTop.coe_min, WithTop.recTopCoe_coe, XR.min, XR.le]
      by_cases h : a ≤ b
      · simp [h]
      · simp [h, min_eq_right (le_of_not_ge h)]

theorem fromMinP_mul (a b : MinPlus) : fromMinP (a * b) = XR.add (fromMinP a) (fromMinP b) := by
  simp only [fromMinP, Tropical.untrop_mul, fromWm_add]

theorem fromMinP_add (a b : MinPlus) : fromMinP (a + b) = XR.min (fromMinP a) (fromMinP b) := by
  simp only [fromMinP, Tropical.untrop_add, fromWm_min]

theorem foldl_min_fromMinP (l : List MinPlus) (a : MinPlus) :
    (l.map fromMinP).foldl XR.min (fromMinP a) = fromMinP (a + l.sum) := by
  induction l generalizing a with
  | nil => simp
  | cons b l ih => simp only [List.map_cons, List.foldl_cons, List.sum_cons, ← fromMinP_add, ih, add_assoc]

theorem sum1_minAdd_fromMinP (l : List MinPlus) : sum1 SR.minAdd (l.map fromMinP) = fromMinP l.sum := by
  cases l with
  | nil => simp [sum1, SR.minAdd, fromMinP, fromWm]
  | cons a l =>
    simp only [sum1, List.map_cons, SR.minAdd, List.sum_cons]
    exact foldl_min_fromMinP l a

def ofMinPlus {n : Nat} (A : Matrix (Fin n) (Fin n) MinPlus) : Mat := ofFun fun i j => fromMinP (A i j)

/-- **the driver's min-add matrix product on matrices over ℚ ∪ {+∞} is Mathlib's `Matrix` product over the
    min-plus (tropical) semiring** -/
theorem mul_minAdd_ofMinPlus {n : Nat} (A B : Matrix (Fin n) (Fin n) MinPlus) :
    Mat.mul SR.minAdd (ofMinPlus A) (ofMinPlus B) = ofMinPlus (A * B) := by
  unfold ofMinPlus
  rw [mul_ofFun]
  congr 1; funext i k
  have : (List.ofFn fun j => SR.minAdd.mul (fromMinP (A i j)) (fromMinP (B j k)))
      = (List.ofFn fun j => A i j * B j k).map fromMinP := by
    rw [List.map_ofFn]; congr 1; funext j; simp only [Function.comp, fromMinP_mul]; rfl
  rw [this, sum1_minAdd_fromMinP, List.sum_ofFn, Matrix.mul_apply]

theorem fromMinP_fin (q : ℚ) : fromMinP (Tropical.trop ((q : ℚ) : WithTop ℚ)) = XR.fin q := by
  simp [fromMinP, fromWm]
theorem fromMinP_zero : fromMinP (0 : MinPlus) = XR.pinf := by simp [fromMinP, fromWm]

/-- sequential_sum_product / naive / fold on driver matrices that are images of min-plus matrices -/
theorem scan_driver_minAdd {n : Nat} (l : List (Matrix (Fin n) (Fin n) MinPlus)) :
    scan (Mat.mul SR.minAdd) (l.map ofMinPlus) = (fold1 (fun a b => a * b) l).map ofMinPlus ∧
    naive (Mat.mul SR.minAdd) (l.map ofMinPlus) = (fold1 (fun a b => a * b) l).map ofMinPlus ∧
    fold1 (Mat.mul SR.minAdd) (l.map ofMinPlus) = (fold1 (fun a b => a * b) l).map ofMinPlus := by
  have hh : ∀ A B : Matrix (Fin n) (Fin n) MinPlus,
      Mat.mul SR.minAdd (ofMinPlus A) (ofMinPlus B) = ofMinPlus (A * B) := mul_minAdd_ofMinPlus
  refine ⟨?_, ?_, fold1_map_hom _ _ _ hh l⟩
  · rw [scan_map_hom _ _ _ hh, scan_matrix_eq_fold]
  · rw [naive_map_hom _ _ _ hh, naive_matrix_eq_fold]

/-! min-add: entries finite or the semiring's zero +∞ -/

def isFinOrPinfB : XR → Bool
  | .fin _ => true
  | .pinf => true
  | _ => false

def toMinP : XR → MinPlus
  | .fin q => Tropical.trop ((q : ℚ) : WithTop ℚ)
  | _ => 0

def FiniteOrZeroMinAdd (n : Nat) (m : Mat) : Bool :=
  m.length == n && m.all fun r => r.length == n && r.all isFinOrPinfB

def toMinPMat (n : Nat) (m : Mat) : Matrix (Fin n) (Fin n) MinPlus :=
  fun i j => toMinP ((m.getD i []).getD j XR.nan)

theorem fromMinP_toMinP (x : XR) (h : isFinOrPinfB x = true) : fromMinP (toMinP x) = x := by
  cases x with
  | fin q => exact fromMinP_fin q
  | pinf => exact fromMinP_zero
  | ninf => simp [isFinOrPinfB] at h
  | nan => simp [isFinOrPinfB] at h

theorem clean_eq_ofMinPlus (n : Nat) (m : Mat) (h : FiniteOrZeroMinAdd n m = true) :
    m = ofMinPlus (toMinPMat n m) := by
  simp only [FiniteOrZeroMinAdd, Bool.and_eq_true, beq_iff_eq, List.all_eq_true] at h
  obtain ⟨hlen, hrows⟩ := h
  apply List.ext_getElem
  · simp [ofMinPlus, ofFun, hlen]
  · intro i h1 h2
    have hr := hrows m[i] (List.getElem_mem h1)
    simp only [ofMinPlus, ofFun, List.getElem_ofFn]
    apply List.ext_getElem
    · simp [hr.1]
    · intro j hj1 hj2
      simp only [List.getElem_ofFn, toMinPMat]
      have e1 : m.getD i [] = m[i] := by simp [List.getD_eq_getElem?_getD, h1]
      have e2 : (m[i]).getD j XR.nan = m[i][j] := by simp [List.getD_eq_getElem?_getD, hj1]
      rw [e1, e2, fromMinP_toMinP _ (hr.2 _ (List.getElem_mem hj1))]

theorem minAdd_list_eq_map (n : Nat) (l : List Mat) (hl : ∀ m ∈ l, FiniteOrZeroMinAdd n m = true) :
    l = (l.map (toMinPMat n)).map ofMinPlus := by
  rw [List.map_map]
  conv => lhs; rw [← List.map_id l]
  apply List.map_congr_left
  intro m hm
  exact clean_eq_ofMinPlus n m (hl m hm)

theorem maxAdd_list_eq_map (n : Nat) (l : List Mat) (hl : ∀ m ∈ l, FiniteOrZeroMaxAdd n m = true) :
    l = (l.map (toMPMat n)).map ofMaxPlus := by
  rw [List.map_map]
  conv => lhs; rw [← List.map_id l]
  apply List.map_congr_left
  intro m hm
  exact clean_eq_ofMaxPlus n m (hl m hm)

/-- **driver_scan_minAdd_eq_fold**: on every non-empty list of well-formed n×n driver matrices with entries in
    ℚ ∪ {+∞}, what the driver runs for `C10 scan/naive min-add …` equals `C10 fold min-add …`. -/
theorem driver_scan_minAdd_eq_fold (n : Nat) (l : List Mat) (hl : ∀ m ∈ l, FiniteOrZeroMinAdd n m = true)
    (hne : l ≠ []) :
    scanIdx (Mat.mul SR.minAdd) (l.length + 1) l = fold1 (Mat.mul SR.minAdd) l ∧
    scan (Mat.mul SR.minAdd) l = fold1 (Mat.mul SR.minAdd) l ∧
    naive (Mat.mul SR.minAdd) l = fold1 (Mat.mul SR.minAdd) l := by
  have hmap := minAdd_list_eq_map n l hl
  obtain ⟨h1, h2, h3⟩ := scan_driver_minAdd (l.map (toMinPMat n))
  rw [← hmap] at h1 h2 h3
  refine ⟨?_, by rw [h1, h3], by rw [h2, h3]⟩
  rw [scanIdx_eq_scan _ _ l (by omega) hne, h1, h3]

/-- mixed_sequential_sum_product as the driver runs it (fuel 2), min-add, every num_segments ≥ 1 -/
theorem driver_mixed_minAdd_eq_fold (n k : Nat) (hk : k > 0) (l : List Mat)
    (hl : ∀ m ∈ l, FiniteOrZeroMinAdd n m = true) (hne : l ≠ []) :
    mixed (Mat.mul SR.minAdd) k 2 l = fold1 (Mat.mul SR.minAdd) l := by
  have hmap := minAdd_list_eq_map n l hl
  have hne' : l.map (toMinPMat n) ≠ [] := by simpa using hne
  rw [hmap, mixed_map_hom _ _ ofMinPlus mul_minAdd_ofMinPlus, mixed_matrix_eq_fold k hk _ hne',
    fold1_map_hom _ _ ofMinPlus mul_minAdd_ofMinPlus]

/-- … and max-add -/
theorem driver_mixed_maxAdd_eq_fold (n k : Nat) (hk : k > 0) (l : List Mat)
    (hl : ∀ m ∈ l, FiniteOrZeroMaxAdd n m = true) (hne : l ≠ []) :
    mixed (Mat.mul SR.maxAdd) k 2 l = fold1 (Mat.mul SR.maxAdd) l := by
  have hmap := maxAdd_list_eq_map n l hl
  have hne' : l.map (toMPMat n) ≠ [] := by simpa using hne
  rw [hmap, mixed_map_hom _ _ ofMaxPlus mul_maxAdd_ofMaxPlus, mixed_matrix_eq_fold k hk _ hne',
    fold1_map_hom _ _ ofMaxPlus mul_maxAdd_ofMaxPlus]

example : FiniteOrZeroMinAdd 2 [[1, XR.pinf], [XR.pinf, 4]] = true := by decide

example : scan (Mat.mul SR.minAdd) [[[1, XR.pinf], [XR.pinf, 4]], [[0, 2], [3, XR.pinf]], [[5, 6], [7, 8]]]
    = fold1 (Mat.mul SR.minAdd) [[[1, XR.pinf], [XR.pinf, 4]], [[0, 2], [3, XR.pinf]], [[5, 6], [7, 8]]] :=
  (driver_scan_minAdd_eq_fold 2 _ (by decide) (by simp)).2.1

end FV.Props.C10.Carrier
