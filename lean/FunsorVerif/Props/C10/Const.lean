/-
  Props/C10/Const.lean — the time-homogeneous branch of sequential_sum_product (a transition that does not
  mention `time`), for EVERY duration.

  Source form (sum_product.py:690-701): `while duration > 1:` pair up → `contracted` (no time input, since
  `trans` had none); `if duration > even_duration: Cat(time, (contracted, extra))` — Cat refuses parts without
  the time input (AssertionError); `duration = (duration + 1) // 2`.  So the loop survives a level iff the
  current duration is even (or ≤ 1): the model `scanConst`.  Hence:

    scanConst_returns_iff_pow2   the code returns a value  ⇔  duration = 2^k
    scanConst_eq_fold            whenever it returns, the value is the fold of `duration` equal factors
    scanConst_declines           for every other duration ≥ 1 it declines (never a wrong value)
-/
import FunsorVerif.Props.C10
import FunsorVerif.Props.C10.Eager
namespace FV.Props.C10
open FV.C10 FV.C10.SB

variable {α : Type} (f : α → α → α)

theorem pow2_half (d : Nat) (hd : d ≥ 2) (heven : d % 2 = 0) : (∃ k, d = 2 ^ k) ↔ ∃ k, d / 2 = 2 ^ k := by
  constructor
  · rintro ⟨k, hk⟩
    cases k with
    | zero => simp at hk; omega
    | succ k => exact ⟨k, by rw [hk, Nat.pow_succ]; omega⟩
  · rintro ⟨k, hk⟩
    exact ⟨k + 1, by rw [Nat.pow_succ, ← hk]; omega⟩

theorem odd_not_pow2 (d : Nat) (hd : d ≥ 2) (hodd : d % 2 = 1) : ¬ ∃ k, d = 2 ^ k := by
  rintro ⟨k, hk⟩
  cases k with
  | zero => simp at hk; omega
  | succ k => rw [Nat.pow_succ] at hk; omega

/-- **The homogeneous branch returns a value exactly on the durations 2^k** (fuel ≥ duration, as in the
    driver: fuel = duration + 1). -/
theorem scanConst_returns_iff_pow2 : ∀ (d : Nat) (x : α) (fuel : Nat), d ≥ 1 → fuel ≥ d →
    ((scanConst f x fuel d).isSome ↔ ∃ k, d = 2 ^ k) := by
  intro d
  induction d using Nat.strongRecOn with
  | _ d ih =>
    intro x fuel hd hf
    cases fuel with
    | zero => omega
    | succ n =>
      simp only [scanConst]
      by_cases h1 : d ≤ 1
      · rw [if_pos h1]
        have : d = 1 := by omega
        subst this
        simp only [Option.isSome_some, true_iff]
        exact ⟨0, rfl⟩
      · rw [if_neg h1]
        by_cases hodd : d % 2 = 1
        · rw [if_pos hodd]
          simp only [Option.isSome_none, Bool.false_eq_true, false_iff]
          exact odd_not_pow2 d (by omega) hodd
        · rw [if_neg hodd, ih (d / 2) (by omega) (f x x) n (by omega) (by omega)]
          exact (pow2_half d (by omega) (by omega)).symm

/-- **Whenever the homogeneous branch returns, the value is the fold of `duration` copies** — for every
    duration ≥ 1, not only the ones known in advance to be powers of two. -/
theorem scanConst_eq_fold (h : Assoc f) (d : Nat) (x v : α) (fuel : Nat) (hd : d ≥ 1) (hf : fuel ≥ d)
    (hv : scanConst f x fuel d = some v) : fold1 f (List.replicate d x) = some v := by
  have hs : (scanConst f x fuel d).isSome := by rw [hv]; rfl
  obtain ⟨k, hk⟩ := (scanConst_returns_iff_pow2 f d x fuel hd hf).mp hs
  subst hk
  rw [scanConst_pow2 f x k fuel (by have := @Nat.lt_two_pow_self k; omega)] at hv
  rw [sqIter_eq_fold f h x k, hv]

/-- On every other duration the branch declines (AssertionError in Cat): never a wrong value. -/
theorem scanConst_declines (d : Nat) (x : α) (fuel : Nat) (hd : d ≥ 1) (hf : fuel ≥ d)
    (hnp : ¬ ∃ k, d = 2 ^ k) : scanConst f x fuel d = none := by
  have := (scanConst_returns_iff_pow2 f d x fuel hd hf).not.mpr hnp
  cases hsc : scanConst f x fuel d with
  | none => rfl
  | some v => rw [hsc] at this; simp at this

/-- the same through the eager rule of MarkovProduct (non-empty step, transition without `time`) -/
theorem markov_eager_step_const (h : Assoc f) (smul npow : α → Nat → α) (kind : ProdKind) (x : α) (T : Nat)
    (hT : T ≥ 1) :
    ((markovEager f smul npow kind true T (.const x)).isSome ↔ ∃ k, T = 2 ^ k) ∧
    ∀ v, markovEager f smul npow kind true T (.const x) = some v →
      fold1 f ((Trans.const x).slices T) = some v := by
  simp only [markovEager, if_true, Trans.slices]
  exact ⟨scanConst_returns_iff_pow2 f T x (T + 1) hT (by omega),
    fun v hv => scanConst_eq_fold f h T x v (T + 1) hT (by omega) hv⟩

example : scanConst mm (1, 1, 0, 1) 7 6 = none := by decide
example : scanConst mm (1, 1, 0, 1) 9 8 = some (1, 8, 0, 1) := by decide

end FV.Props.C10
