/-
  Props/C10/Eager.lean — the four branches of eager_markov_product (sum_product.py:1049-1064) all return the
  fold of the T time slices of the transition.
-/
import FunsorVerif.Model.C10.Sarkka
import FunsorVerif.Props.C10
import Mathlib.Algebra.Ring.Defs
import Mathlib.Algebra.Group.Defs
import Mathlib.Data.Nat.Cast.Defs
namespace FV.Props.C10
open FV.C10 FV.C10.SB

variable {α : Type} (f : α → α → α)

/-- What `trans * T` (for prod_op = add) and `trans ** T` (for prod_op = mul) must satisfy w.r.t. prod_op. -/
def ScaleLaw (sc : α → Nat → α) : Prop :=
  (∀ x, sc x 1 = x) ∧ ∀ x n, n ≥ 1 → sc x (n + 1) = f (sc x n) x

theorem fold1_replicate (sc : α → Nat → α) (hs : ScaleLaw f sc) (x : α) :
    ∀ T, T ≥ 1 → fold1 f (List.replicate T x) = some (sc x T) := by
  intro T hT
  induction T with
  | zero => omega
  | succ n ih =>
    by_cases hn : n = 0
    · subst hn; simp [fold1, hs.1]
    · have ih' := ih (by omega)
      rw [List.replicate_succ'] 
      have := fold1_append_single f (List.replicate n x) x (sc x n) ih'
      rw [this, hs.2 x n (by omega)]
where
  fold1_append_single (f : α → α → α) (l : List α) (x y : α) (h : fold1 f l = some y) :
      fold1 f (l ++ [x]) = some (f y x) := by
    cases l with
    | nil => simp [fold1] at h
    | cons a l =>
      simp only [fold1, Option.some.injEq] at h
      simp [fold1, List.foldl_append, h]

/-- **Empty step** (`MarkovProduct(..., step={})`): `trans.reduce(prod_op, time)` when the transition
    mentions time, `trans * T` for prod_op = add, `trans ** T` for prod_op = mul — each is the fold of the T
    time slices under prod_op. -/
theorem markov_eager_empty_step (smul npow : α → Nat → α) (kind : ProdKind)
    (hadd : kind = .add → ScaleLaw f smul) (hmul : kind = .mul → ScaleLaw f npow) (hk : kind ≠ .other)
    (T : Nat) (hT : T ≥ 1) (tr : Trans α) (hlen : ∀ l, tr = .seq l → l.length = T) :
    markovEager f smul npow kind false T tr = fold1 f (tr.slices T) := by
  cases tr with
  | seq l =>
    have := hlen l rfl
    simp [markovEager, Trans.slices, this]
  | const x =>
    cases kind with
    | add => simp only [markovEager, Trans.slices]; exact (fold1_replicate f smul (hadd rfl) x T hT).symm
    | mul => simp only [markovEager, Trans.slices]; exact (fold1_replicate f npow (hmul rfl) x T hT).symm
    | other => exact absurd rfl hk

/-- Empty step, time-independent transition, prod_op neither add nor mul: NotImplementedError. -/
theorem markov_eager_other_declines (smul npow : α → Nat → α) (T : Nat) (x : α) :
    markovEager f smul npow .other false T (.const x) = none := rfl

/-- **Non-empty step**, transition mentions time: sequential_sum_product = fold, any duration ≥ 1. -/
theorem markov_eager_step (h : Assoc f) (smul npow : α → Nat → α) (kind : ProdKind) (l : List α)
    (hne : l ≠ []) : markovEager f smul npow kind true l.length (.seq l) = fold1 f l := by
  simp only [markovEager, ne_eq, not_true_eq_false, if_false, if_true]
  rw [scanIdx_eq_scan f _ l (by omega) hne, scan_eq_fold f h]

/-- Non-empty step, time-independent transition: a value (the fold of 2^k equal slices) exactly when the
    duration is a power of two … -/
theorem markov_eager_step_const_pow2 (h : Assoc f) (smul npow : α → Nat → α) (kind : ProdKind) (x : α)
    (k : Nat) : markovEager f smul npow kind true (2 ^ k) (.const x)
      = fold1 f ((Trans.const x).slices (2 ^ k)) := by
  simp only [markovEager, if_true, Trans.slices]
  rw [scanConst_pow2 f x k _ (by have := @Nat.lt_two_pow_self k; omega), sqIter_eq_fold f h]

/-- … and a decline for an odd duration > 1 (Cat refuses the odd tail). -/
theorem markov_eager_step_const_odd (smul npow : α → Nat → α) (kind : ProdKind) (x : α) (T : Nat)
    (hT : T > 1) (hodd : T % 2 = 1) : markovEager f smul npow kind true T (.const x) = none := by
  simp only [markovEager, if_true]
  exact scanConst_odd_declines f x T T hT hodd

/-! Instances of the scale law: any semiring (`x * T` under +), any monoid (`x ^ T` under *). -/

theorem scaleLaw_mul_nat {R : Type} [Semiring R] :
    ScaleLaw (fun a b : R => a + b) (fun x n => x * (n : R)) := by
  refine ⟨fun x => by simp, fun x n _ => ?_⟩
  simp only [Nat.cast_succ, mul_add, mul_one]

theorem scaleLaw_pow {R : Type} [Monoid R] :
    ScaleLaw (fun a b : R => a * b) (fun x n => x ^ n) := by
  refine ⟨fun x => pow_one x, fun x n _ => pow_succ x n⟩

/-- prod_op = add in any semiring (also the tropical ones, where the semiring product is +):
    `trans * T` is the T-fold sum. -/
theorem markov_eager_add_semiring {R : Type} [Semiring R] (npow : R → Nat → R) (T : Nat) (hT : T ≥ 1)
    (x : R) :
    markovEager (fun a b : R => a + b) (fun x n => x * (n : R)) npow .add false T (.const x)
      = fold1 (fun a b : R => a + b) (List.replicate T x) :=
  markov_eager_empty_step _ _ _ _ (fun _ => scaleLaw_mul_nat) (fun h => by cases h) (by decide) T hT _
    (fun l h => by cases h)

/-- prod_op = mul in any monoid: `trans ** T` is the T-fold product. -/
theorem markov_eager_mul_monoid {R : Type} [Monoid R] (smul : R → Nat → R) (T : Nat) (hT : T ≥ 1) (x : R) :
    markovEager (fun a b : R => a * b) smul (fun x n => x ^ n) .mul false T (.const x)
      = fold1 (fun a b : R => a * b) (List.replicate T x) :=
  markov_eager_empty_step _ _ _ _ (fun h => by cases h) (fun _ => scaleLaw_pow) (by decide) T hT _
    (fun l h => by cases h)

/-! Names: `Subs(result, step_names)` and `MarkovProduct.eager_subs`. -/

/-- With the default step_names (identity) the result's inputs are the transition's inputs minus time. -/
theorem markovInputs_default (step : List String) (time : String) (ins : List String) :
    markovInputs (step.map fun k => (k, k)) time ins = ins.filter (· ≠ time) := by
  simp only [markovInputs]
  conv => rhs; rw [← List.map_id (ins.filter (· ≠ time))]
  apply List.map_congr_left
  intro k _
  cases hlk : (step.map fun k => (k, k)).lookup k with
  | none => rfl
  | some v =>
    have : v = k := by
      induction step with
      | nil => simp at hlk
      | cons a step ih =>
        simp only [List.map_cons, List.lookup_cons] at hlk
        split at hlk
        · next heq => simp at heq hlk; rw [← hlk, heq]
        · exact ih hlk
    simp [this]

/-- eager_subs composes the renaming with step_names: looking a bound name up afterwards gives the renamed
    target. -/
theorem renameStepNames_lookup (rename stepNames : List (String × String)) (k : String) :
    (renameStepNames rename stepNames).lookup k
      = (stepNames.lookup k).map fun v => (rename.lookup v).getD v := by
  induction stepNames with
  | nil => rfl
  | cons kv rest ih =>
    obtain ⟨k', v'⟩ := kv
    simp only [renameStepNames, List.map_cons, List.lookup_cons] at ih ⊢
    split
    · rfl
    · exact ih

end FV.Props.C10
