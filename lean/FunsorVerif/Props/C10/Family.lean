/-
  C10 — sequential_sum_product on a TIME-INDEXED FAMILY with an explicit duration (one level closer to the code
  than the list model of Props/C10.lean).

  The code never holds a list: it holds ONE funsor `trans` with a `time` input of size `duration` and runs
      while duration > 1:
          even = duration // 2 * 2
          x = trans(time=Slice(time, 0, even, 2, duration), …);  y = trans(time=Slice(time, 1, even, 2, duration), …)
          contracted = Contraction(sum, prod, {drop}, x, y)
          if duration > even:  contracted = Cat(time, (contracted, trans(time=Slice(time, duration-1, duration))))
          trans = contracted;  duration = (duration + 1) // 2
      return trans(time=0)
  Here `x : Nat → α` is the family of time slices (`x t = trans(time=t)`), `roundFn` is one pass of the loop body
  as a function of the NEW time index (`i < duration/2` reads the contracted pair, the index `duration/2` of an odd
  duration reads the unpaired last slice through `Cat`), and `scanFn` is the loop.

  Theorems (all durations, all families, any associative ⊗):
    * `round_toList`      one loop pass = the structural `halve` of Props/C10.lean (odd tail included);
    * `scanFn_eq_scan`, `scanFn_eq_fold`   the loop = `scan` = the left fold over time;
    * `scanFn_eq_naive`   = naive_sequential_sum_product;
    * `scanFn_snoc`       the unpaired/last slice is carried through EVERY remaining round unchanged in position:
                          result on duration T+1 = (result on the first T slices) ⊗ x T   (so in particular for odd T+1);
    * `scanFn_pointwise`  batch inputs / free parameters: a transition that depends on a batch point b is scanned
                          pointwise (no associativity needed — the loop itself commutes with evaluation at b);
    * `scanFn_pointwise_eq_fold`  the two together: the property's statement per batch point.
    * `sumR_joint`        (term semantics of Props/C10/Terms.lean) summing out ONE joint state σ₁ × σ₂ at a name is
                          summing out the two base variables one after the other — the "several base variables are
                          one joint state" modelling choice of `sarkka_terms_eq_naive_terms` loses nothing.
-/
import FunsorVerif.Props.C10
import FunsorVerif.Props.C10.Terms

namespace FV.Props.C10.Family
open FV.C10 FV.Props.C10

variable {α : Type} (f : α → α → α)

/-- the time slices of a family of duration T, in time order -/
def toList (T : Nat) (x : Nat → α) : List α := (List.range T).map x

/-- one pass of the loop body, as a function of the new time index -/
def roundFn (T : Nat) (x : Nat → α) : Nat → α :=
  fun i => if i < T / 2 then f (x (2 * i)) (x (2 * i + 1)) else x (T - 1)

/-- `while duration > 1: …; duration = (duration + 1) // 2`, then `trans(time=0)` -/
def scanFn : Nat → Nat → (Nat → α) → Option α
  | 0, _, _ => none
  | fuel + 1, T, x =>
    if T = 0 then none
    else if T = 1 then some (x 0)
    else scanFn fuel ((T + 1) / 2) (roundFn f T x)

theorem toList_succ (T : Nat) (x : Nat → α) : toList (T + 1) x = x 0 :: toList T (fun i => x (i + 1)) := by
  simp [toList, List.range_succ_eq_map, List.map_map, Function.comp_def]

theorem toList_snoc (T : Nat) (x : Nat → α) : toList (T + 1) x = toList T x ++ [x T] := by
  simp [toList, List.range_succ]

theorem toList_congr (T : Nat) (x y : Nat → α) (h : ∀ i, i < T → x i = y i) : toList T x = toList T y := by
  unfold toList
  apply List.map_congr_left
  intro i hi
  exact h i (List.mem_range.mp hi)

theorem toList_length (T : Nat) (x : Nat → α) : (toList T x).length = T := by simp [toList]

/-- **round_toList**: one loop pass on the family is the structural halving round on its slices — the pairs
    (0,1), (2,3), … contracted, and for an odd duration the last slice appended at index duration/2. -/
theorem round_toList : ∀ (T : Nat) (x : Nat → α),
    toList ((T + 1) / 2) (roundFn f T x) = halve f (toList T x) := by
  intro T
  induction T using Nat.twoStepInduction with
  | zero => intro x; simp [toList, halve]
  | one => intro x; simp [toList, halve, roundFn]
  | more T ih _ =>
    intro x
    have e : (T + 2 + 1) / 2 = (T + 1) / 2 + 1 := by omega
    rw [e, toList_succ, toList_succ (T + 1), toList_succ T, halve, ← ih]
    have h0 : roundFn f (T + 2) x 0 = f (x 0) (x (0 + 1)) := by
      simp [roundFn]
    rw [h0]
    congr 1
    apply toList_congr
    intro i hi
    unfold roundFn
    have e1 : (T + 2) / 2 = T / 2 + 1 := by omega
    by_cases hlt : i < T / 2
    · have hlt' : i + 1 < (T + 2) / 2 := by omega
      rw [if_pos hlt, if_pos hlt']
      have a1 : 2 * (i + 1) = 2 * i + 1 + 1 := by omega
      rw [a1]
    · have hlt' : ¬ (i + 1 < (T + 2) / 2) := by omega
      rw [if_neg hlt, if_neg hlt']
      have a3 : T + 2 - 1 = T - 1 + 1 + 1 := by omega
      rw [a3]

/-- the loop on the family = the structural scan on its slices -/
theorem scanFn_eq_scan : ∀ (fuel T : Nat) (x : Nat → α), T ≤ fuel → T ≥ 1 →
    scanFn f fuel T x = scan f (toList T x) := by
  intro fuel
  induction fuel with
  | zero => intro T x h1 h2; omega
  | succ n ih =>
    intro T x hle hge
    rw [scanFn, if_neg (by omega)]
    by_cases h1 : T = 1
    · subst h1; simp [toList, scan]
    · rw [if_neg h1, ih _ _ (by omega) (by omega), round_toList]
      obtain ⟨T', rfl⟩ : ∃ T', T = T' + 2 := ⟨T - 2, by omega⟩
      rw [toList_succ, toList_succ T']
      conv => rhs; rw [scan]

/-- **scanFn_eq_fold**: sequential_sum_product on a time-indexed family of ANY duration ≥ 1 (odd, even, power of
    two or not) returns the slices folded left to right in time order. -/
theorem scanFn_eq_fold (h : Assoc f) (fuel T : Nat) (x : Nat → α) (hle : T ≤ fuel) (hge : T ≥ 1) :
    scanFn f fuel T x = fold1 f (toList T x) := by
  rw [scanFn_eq_scan f fuel T x hle hge, scan_eq_fold f h]

/-- … and is what naive_sequential_sum_product returns on the same slices. -/
theorem scanFn_eq_naive (h : Assoc f) (fuel T : Nat) (x : Nat → α) (hle : T ≤ fuel) (hge : T ≥ 1) :
    scanFn f fuel T x = naive f (toList T x) := by
  rw [scanFn_eq_fold f h fuel T x hle hge, naive_eq_fold f h]

/-- closed form -/
theorem scanFn_eq_foldl (h : Assoc f) (fuel T : Nat) (x : Nat → α) (hle : T + 1 ≤ fuel) :
    scanFn f fuel (T + 1) x = some ((toList T (fun i => x (i + 1))).foldl f (x 0)) := by
  rw [scanFn_eq_fold f h fuel (T + 1) x hle (by omega), toList_succ, fold1]

/-- **scanFn_snoc**: the last slice — the one every odd round leaves unpaired and `Cat`s back — ends up multiplied
    on the right of everything before it: duration T+1 = (duration T on the same family) ⊗ x T.  For all T ≥ 1
    (the odd-duration case T+1 = 2m+1 is the instance the code's `if duration > even` branch is about). -/
theorem scanFn_snoc (h : Assoc f) (fuel fuel' T : Nat) (x : Nat → α) (hle : T + 1 ≤ fuel) (hle' : T ≤ fuel')
    (hge : T ≥ 1) :
    scanFn f fuel (T + 1) x = (scanFn f fuel' T x).map (fun r => f r (x T)) := by
  rw [scanFn_eq_fold f h fuel (T + 1) x hle (by omega), scanFn_eq_fold f h fuel' T x hle' hge, toList_snoc]
  obtain ⟨T', rfl⟩ : ∃ T', T = T' + 1 := ⟨T - 1, by omega⟩
  rw [toList_succ]
  simp [fold1, List.foldl_append]

/-! ### batch inputs / free parameters: the loop commutes with evaluation at a batch point -/

variable {β : Type}

/-- ⊗ on transitions that also depend on a batch point -/
def liftOp (f : α → α → α) : (β → α) → (β → α) → (β → α) := fun a c b => f (a b) (c b)

theorem roundFn_pointwise (T : Nat) (x : Nat → β → α) (b : β) (i : Nat) :
    roundFn (liftOp f) T x i b = roundFn f T (fun t => x t b) i := by
  unfold roundFn
  by_cases hlt : i < T / 2
  · simp only [if_pos hlt, liftOp]
  · simp only [if_neg hlt]

/-- **scanFn_pointwise**: for a transition with batch inputs (time-dependent or not, any batch type), evaluating
    the result at a batch point = running the loop on the slices evaluated at that point.  No associativity. -/
theorem scanFn_pointwise : ∀ (fuel T : Nat) (x : Nat → β → α) (b : β),
    (scanFn (liftOp f) fuel T x).map (fun r => r b) = scanFn f fuel T (fun t => x t b) := by
  intro fuel
  induction fuel with
  | zero => intro T x b; rfl
  | succ n ih =>
    intro T x b
    rw [scanFn, scanFn]
    by_cases h0 : T = 0
    · rw [if_pos h0, if_pos h0]; rfl
    · rw [if_neg h0, if_neg h0]
      by_cases h1 : T = 1
      · rw [if_pos h1, if_pos h1]; rfl
      · rw [if_neg h1, if_neg h1, ih]
        congr 1
        funext i
        exact roundFn_pointwise f T x b i

/-- **scanFn_pointwise_eq_fold**: the property per batch point — sequential_sum_product of a batched transition,
    read at batch point b, is the time-ordered fold of the slices at b. -/
theorem scanFn_pointwise_eq_fold (h : Assoc f) (fuel T : Nat) (x : Nat → β → α) (b : β) (hle : T ≤ fuel)
    (hge : T ≥ 1) :
    (scanFn (liftOp f) fuel T x).map (fun r => r b) = fold1 f (toList T (fun t => x t b)) := by
  rw [scanFn_pointwise, scanFn_eq_fold f h fuel T _ hle hge]

theorem liftOp_assoc (h : Assoc f) : Assoc (liftOp (β := β) f) := by
  intro a c d
  funext b
  exact h (a b) (c b) (d b)

/-! ### the hypotheses are satisfiable: 2×2 integer matrices, duration 5 (odd → 3 (odd) → 2 → 1) -/

example (x : Nat → Int × Int × Int × Int) :
    scanFn mm 5 5 x = some (mm (mm (mm (mm (x 0) (x 1)) (x 2)) (x 3)) (x 4)) := by
  rw [scanFn_eq_fold mm mm_assoc 5 5 x (Nat.le_refl _) (by omega)]
  rfl

example (x : Nat → Bool → Int × Int × Int × Int) (b : Bool) :
    (scanFn (liftOp mm) 3 3 x).map (fun r => r b) = some (mm (mm (x 0 b) (x 1 b)) (x 2 b)) := by
  rw [scanFn_pointwise_eq_fold mm mm_assoc 3 3 x b (Nat.le_refl _) (by omega)]
  rfl

example (x : Nat → Int × Int × Int × Int) :
    scanFn mm 7 7 x = (scanFn mm 6 6 x).map (fun r => mm r (x 6)) :=
  scanFn_snoc mm mm_assoc 7 6 6 x (Nat.le_refl _) (Nat.le_refl _) (by omega)

end FV.Props.C10.Family

/-! ### joint state = several base variables (term semantics of Props/C10/Terms.lean) -/

namespace FV.Props.C10.Terms
open FV.Props.C10.Sem

/-- **sumR_joint**: with the state at each name a PAIR (two base variables x, y sharing the shift count — what
    `sarkka_bilmes_product` has when `trans` mentions `x, _PREV_x, y, _PREV_y`), `reduce(sum, {x_s, y_s})` over
    the joint state is `reduce(sum, x_s)` after `reduce(sum, y_s)`. -/
theorem sumR_joint {σ₁ σ₂ R : Type} [Fintype σ₁] [Fintype σ₂] [CommSemiring R]
    (s : Nat) (g : RF (σ₁ × σ₂) R) (ρ : REnv (σ₁ × σ₂)) :
    sumR s g ρ = ∑ a : σ₁, ∑ c : σ₂, g (Function.update ρ s (a, c)) := by
  unfold sumR
  exact Fintype.sum_prod_type _

/-- the two base variables can be summed in either order -/
theorem sumR_joint_comm {σ₁ σ₂ R : Type} [Fintype σ₁] [Fintype σ₂] [CommSemiring R]
    (s : Nat) (g : RF (σ₁ × σ₂) R) (ρ : REnv (σ₁ × σ₂)) :
    sumR s g ρ = ∑ c : σ₂, ∑ a : σ₁, g (Function.update ρ s (a, c)) := by
  rw [sumR_joint, Finset.sum_comm]

example (g : RF (Bool × Bool) Nat) (ρ : REnv (Bool × Bool)) :
    sumR 1 g ρ = ∑ a : Bool, ∑ c : Bool, g (Function.update ρ 1 (a, c)) := sumR_joint 1 g ρ

/-- **scanFn_contract_eq_fold**: the family loop instantiated with the term-level chain contraction of
    Props/C10/Terms.lean (`Contraction(sum, prod, {drop}, x, y)` on relative-name funsors over any commutative
    semiring): sequential_sum_product of a time-indexed family of such funsors is their time-ordered fold. -/
theorem scanFn_contract_eq_fold {σ R : Type} [Fintype σ] [CommSemiring R] (p fuel T : Nat) (x : Nat → RF σ R)
    (hle : T ≤ fuel) (hge : T ≥ 1) :
    Family.scanFn (contract p) fuel T x = FV.C10.fold1 (contract p) (Family.toList T x) :=
  Family.scanFn_eq_fold _ (contract_assoc p) fuel T x hle hge

end FV.Props.C10.Terms
