/-
  Props/C10/Gen.lean — obligations over the expressions extracted from /repo/funsor/sum_product.py
  (Gen/C10Sarkka.lean, regenerated on every run): the source still has the forms the model FV.C10.SB transcribes,
  in particular the bound of the block_step comprehension is `period` — and the witness that a smaller bound
  (e.g. max(lags), seeded defect C10_7) is unsound.
-/
import FunsorVerif.Gen.C10Sarkka
import FunsorVerif.Model.C10.Sarkka
import FunsorVerif.Props.C10.Sarkka
namespace FV.Props.C10
open FV.C10 FV.C10.SB

/-- block_step = {_shift_name(name, period): name for name in block_trans.inputs
                  if name not in global_vars and _get_shift(name) < period}  — `SB.blockStep`: filter (· < p),
    pair (s + p, s). -/
theorem gen_blockStep_reviewed :
    FV.Gen.C10.blockStepKey = "_shift_name(name, period)" ∧
    FV.Gen.C10.blockStepValue = "name" ∧
    FV.Gen.C10.blockStepIter = "block_trans.inputs" ∧
    FV.Gen.C10.blockStepConds = ["name not in global_vars", "_get_shift(name) < period"] :=
  ⟨rfl, rfl, rfl, rfl⟩

/-- period (`SB.period`/`lcmStep`), slice_t (`SB.blockSlices`), the block shift (`SB.blockShift`), the block time
    size and num_segments (`SB.sarkka`), final_sum_vars (`SB.finalSumShifts`), the final renaming (`downBy (p-1)`). -/
theorem gen_sarkka_forms_reviewed :
    FV.Gen.C10.period = "int(reduce(lambda a, b: a * b // gcd(a, b), list(lags)))" ∧
    FV.Gen.C10.sliceT = "Slice(time, t, duration - period + t + 1, period, duration)" ∧
    FV.Gen.C10.blockShift = "period - t - 1" ∧
    FV.Gen.C10.blockTime = "Variable(time_var.name, Bint[duration // period])" ∧
    FV.Gen.C10.numSegments = "max(1, duration // (period * num_periods))" ∧
    FV.Gen.C10.finalSumVars
      = "frozenset((_shift_name(name, t) for name in original_names for t in range(1, period)))" ∧
    FV.Gen.C10.finalRename = "result(**{name: _shift_name(name, -period + 1) for name in result.inputs})" :=
  ⟨rfl, rfl, rfl, rfl, rfl, rfl, rfl⟩

/-- MarkovProduct.eager_subs (sum_product.py:1021-1038): the split of `subs` into renames and other values, the
    SIMULTANEITY GUARD `any(name in dict(lazy) for name in rename.values())` → `return None` (added by fix 49bc2e2;
    seeded defect C10_9 iterates the rename KEYS instead, so the guard never fires) and the new step_names.
    This is the source form of the name-level decision modelled and proved in C04:
    `FV.C04.mpDecide` (Model/C04/Classes2.lean: `renames.isEmpty || renames.any (fun x => lazy.contains x)` → none,
    else `stepNames.map (k, rename.get(v, v))` + the remaining lazy keys) with
    `FV.Props.C04.mpDecide_none_iff` / `mpDecide_some_spec` (Props/C04/Classes3.lean: it declines exactly when
    renaming first would not be simultaneous, and otherwise denotes the simultaneous substitution).  Not duplicated
    here; this obligation only pins that the code still has the reviewed form, from C10's side. -/
theorem gen_markov_eager_subs_reviewed :
    FV.Gen.C10.subsRename = "{k: v.name for k, v in subs if isinstance(v, Variable)}" ∧
    FV.Gen.C10.subsLazy = "tuple(((k, v) for k, v in subs if not isinstance(v, Variable)))" ∧
    FV.Gen.C10.subsGuard = "any((name in dict(lazy) for name in rename.values()))" ∧
    FV.Gen.C10.subsGuardBody = "return None" ∧
    FV.Gen.C10.subsStepNames = "frozenset(((k, rename.get(v, v)) for k, v in self.step_names.items()))" :=
  ⟨rfl, rfl, rfl, rfl, rfl⟩

/-- block_step with an arbitrary bound on the shift of the paired names -/
def blockStepBounded (bound p : Nat) (shifts : List Nat) : List (Nat × Nat) :=
  ((shifts.filter (· < bound)).eraseDups).map fun s => (s + p, s)

theorem blockStep_eq_bounded_period (p : Nat) (shifts : List Nat) :
    blockStep p shifts = blockStepBounded p p shifts := rfl

/-- **Any bound below the period is unsound**: the block's curr name with shift = bound is then paired with
    nothing, although the same relative name denotes different original time steps in consecutive blocks (the scan
    would treat it as a shared batch input and identify x_{bp+p-1-s} with x_{(b+1)p+p-1-s}). -/
theorem blockStep_bound_lt_period_unsound (p bound : Nat) (lags : List Nat) (hb : bound < p) :
    ∃ s ∈ blockShifts p lags, s < p ∧
      (∀ q, (q, s) ∉ blockStepBounded bound p (blockShifts p lags)) ∧
      ∀ b, absTime p (b + 1) s ≠ absTime p b s := by
  refine ⟨bound, blockShifts_curr p lags bound hb, hb, ?_, ?_⟩
  · intro q hq
    simp only [blockStepBounded, List.mem_map, List.mem_eraseDups, List.mem_filter, decide_eq_true_eq,
      Prod.mk.injEq] at hq
    obtain ⟨a, ⟨_, ha⟩, _, h2⟩ := hq
    omega
  · intro b
    simp only [absTime, Nat.succ_mul]
    omega

/-- The witness for seeded defect C10_7: lags {2,3}, period 6, bound max(lags) = 3: the curr names with shifts
    3, 4, 5 occur in every block and are left unpaired. -/
theorem blockStep_maxlag_unsound_witness :
    period [2, 3] = some 6 ∧
    blockStepBounded 3 6 (blockShifts 6 [2, 3]) = [(8, 2), (7, 1), (6, 0)] ∧
    blockStep 6 (blockShifts 6 [2, 3]) = [(11, 5), (10, 4), (9, 3), (8, 2), (7, 1), (6, 0)] ∧
    [3, 4, 5].all (fun s => s ∈ blockShifts 6 [2, 3]) = true ∧
    absTime 6 1 3 ≠ absTime 6 0 3 := by
  refine ⟨by decide, by decide, by decide, by decide, by decide⟩

end FV.Props.C10
