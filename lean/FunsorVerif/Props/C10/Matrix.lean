/-
  Props/C10/Matrix.lean — the generic semigroup theorems instantiated at square matrices over a semiring
  (Mathlib's `Matrix n n R`, product `Matrix.mul`): matrix product over any (non-unital) semiring is
  associative, hence every Markov-product algorithm of the model equals the left fold of the per-step
  transition matrices.  `R` may be ℕ, ℚ, ℝ (add-mul) or a tropical semiring (max-add, min-add).
-/
import FunsorVerif.Model.C10.Sarkka
import FunsorVerif.Props.C10
import FunsorVerif.Props.C10.Sarkka
import Mathlib.Data.Matrix.Mul
namespace FV.Props.C10
open FV.C10 FV.C10.SB

variable {n : Type} [Fintype n] {R : Type} [NonUnitalSemiring R]

/-- Matrix product over a semiring is associative: `Assoc` holds for `Matrix.mul`. -/
theorem matrix_mul_assoc : Assoc (fun a b : Matrix n n R => a * b) :=
  fun a b c => Matrix.mul_assoc a b c

/-- sequential_sum_product on transition matrices = ordered matrix product. -/
theorem scan_matrix_eq_fold (l : List (Matrix n n R)) :
    scan (fun a b : Matrix n n R => a * b) l = fold1 (fun a b => a * b) l :=
  scan_eq_fold _ matrix_mul_assoc l

theorem scanIdx_matrix_eq_fold (l : List (Matrix n n R)) (hne : l ≠ []) :
    scanIdx (fun a b : Matrix n n R => a * b) (l.length + 1) l = fold1 (fun a b => a * b) l := by
  rw [scanIdx_eq_scan _ _ l (by omega) hne]; exact scan_matrix_eq_fold l

theorem naive_matrix_eq_fold (l : List (Matrix n n R)) :
    naive (fun a b : Matrix n n R => a * b) l = fold1 (fun a b => a * b) l :=
  naive_eq_fold _ matrix_mul_assoc l

theorem mixed_matrix_eq_fold (k : Nat) (hk : k > 0) (l : List (Matrix n n R)) (hne : l ≠ []) :
    mixed (fun a b : Matrix n n R => a * b) k 2 l = fold1 (fun a b => a * b) l :=
  mixed_eq_fold _ matrix_mul_assoc k hk 2 l (by omega) hne

/-- sarkka_bilmes_product on window transition matrices = naive_sarkka_bilmes_product. -/
theorem sarkka_matrix_eq_naive (p np : Nat) (hp : p > 0) (hnp : np > 0) (l : List (Matrix n n R))
    (hne : l ≠ []) :
    sarkka (fun a b : Matrix n n R => a * b) p np 2 l = naiveSarkka (fun a b => a * b) l :=
  sarkka_eq_naive _ matrix_mul_assoc p np hp hnp l hne

/-- With a unit (a semiring), the fold is Mathlib's ordered list product. -/
theorem fold1_matrix_eq_prod {R : Type} [Semiring R] [DecidableEq n] (l : List (Matrix n n R))
    (hne : l ≠ []) : fold1 (fun a b : Matrix n n R => a * b) l = some l.prod := by
  cases l with
  | nil => exact absurd rfl hne
  | cons a l =>
    simp only [fold1, List.prod_cons, Option.some.injEq]
    rw [List.prod_eq_foldl]
    have := foldl_assoc (fun a b : Matrix n n R => a * b) matrix_mul_assoc a 1 l
    simp only [mul_one] at this
    exact this

end FV.Props.C10
