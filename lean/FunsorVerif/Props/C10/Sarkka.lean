/-
  Props/C10/Sarkka.lean — sarkka_bilmes_product equals its naive counterpart / the fold over time.

  A. name arithmetic: `_get_shift` / `_shift_name` on strings agree with arithmetic on shift counts;
  B. period = lcm of the lags: every lag divides it (hence max lag ≤ period: the block chain is first order);
  C. slice / block index arithmetic: every original time step occurs in exactly one (block, offset) pair, in
     order; the relative names of block b's outputs are block b+1's inputs (block_step) and denote the same
     original time steps; the final renaming agrees with the naive one;
  D. `sarkka_eq_naive`: on the window chain, for every period ≥ 1, num_periods ≥ 1 and duration ≥ 1
     (including the truncated-prefix recursion), sarkka = naiveSarkka = left fold.
-/
import FunsorVerif.Model.C10.Sarkka
import FunsorVerif.Props.C10
namespace FV.Props.C10
open FV.C10 FV.C10.SB

/-! ### A. names -/

theorem prevs_add (a b : Nat) : prevs (a + b) = prevs a ++ prevs b := by
  induction a with
  | zero => simp [prevs]
  | succ a ih => rw [Nat.succ_add]; simp only [prevs, ih, List.append_assoc]

theorem prevs_length (n : Nat) : (prevs n).length = 6 * n := by
  induction n with
  | zero => rfl
  | succ n ih => simp only [prevs, List.length_append, ih, prevTag, List.length_cons, List.length_nil]; omega

theorem getShiftS_tag (s : List Char) : getShiftS (prevTag ++ s) = getShiftS s + 1 := by
  simp [prevTag, getShiftS]

/-- `_get_shift(n * "_PREV_" + base) = n + _get_shift(base)` -/
theorem getShiftS_prevs (n : Nat) (b : List Char) : getShiftS (prevs n ++ b) = n + getShiftS b := by
  induction n with
  | zero => simp [prevs]
  | succ n ih => simp only [prevs, List.append_assoc, getShiftS_tag, ih]; omega

/-- For a base that does not itself start with the tag, `_get_shift` reads back the shift count. -/
theorem getShiftS_render (n : SName) (h : getShiftS n.base = 0) : getShiftS n.render = n.shift := by
  simp [SName.render, getShiftS_prevs, h]

theorem replaceFirst_prefix (pat s : List Char) (h : pat.isPrefixOf s = true) :
    replaceFirst pat s = s.drop pat.length := by
  cases s with
  | nil =>
    cases pat with
    | nil => rfl
    | cons a p => simp [List.isPrefixOf] at h
  | cons c cs => simp [replaceFirst, h]

theorem replaceFirst_absent (pat s : List Char) (h : occurs pat s = false) : replaceFirst pat s = s := by
  induction s with
  | nil => rfl
  | cons c cs ih =>
    simp only [occurs, Bool.or_eq_false_iff] at h
    simp [replaceFirst, h.1, ih h.2]

/-- `_shift_name(name, t)` for t ≥ 0 adds t to the shift count. -/
theorem shiftNameS_up (n : SName) (t : Nat) : shiftNameS n.render (t : Int) = (n.shiftBy t).render := by
  simp only [shiftNameS, SName.render, SName.shiftBy, shiftIdx, Int.natCast_nonneg, ge_iff_le, if_true,
    Int.toNat_natCast]
  rw [Nat.add_comm n.shift t, prevs_add, List.append_assoc]

/-- `_shift_name(name, -t)` removes t tags when the name carries at least t of them. -/
theorem shiftNameS_down (n : SName) (t : Nat) (h : t ≤ n.shift) :
    shiftNameS n.render (-(t : Int)) = (n.shiftBy (-(t : Int))).render := by
  by_cases ht : t = 0
  · subst ht; simp [shiftNameS, SName.render, SName.shiftBy, shiftIdx, prevs]
  · have hneg : ¬ (-(t : Int) ≥ 0) := by omega
    simp only [shiftNameS, SName.render, SName.shiftBy, shiftIdx, hneg, if_false, Int.neg_neg,
      Int.toNat_natCast, h, if_true]
    have hs : n.shift = t + (n.shift - t) := by omega
    have hpre : (prevs t).isPrefixOf (prevs n.shift ++ n.base) = true := by
      rw [hs, prevs_add, List.append_assoc, List.isPrefixOf_iff_prefix]
      exact List.prefix_append _ _
    rw [replaceFirst_prefix _ _ hpre]
    conv => lhs; rw [hs, prevs_add, List.append_assoc]
    rw [List.drop_left]

/-- `_shift_name(name, -t)` leaves a name alone when the tag run does not occur in it (the current-state
    names and global names in the final renamings). -/
theorem shiftNameS_absent (name : List Char) (t : Nat) (h : occurs (prevs t) name = false) :
    shiftNameS name (-(t : Int)) = name := by
  by_cases ht : t = 0
  · subst ht; simp [shiftNameS, prevs]
  · have hneg : ¬ (-(t : Int) ≥ 0) := by omega
    simp only [shiftNameS, hneg, if_false, Int.neg_neg, Int.toNat_natCast]
    exact replaceFirst_absent _ _ h

example : getShiftS "_PREV__PREV_x".toList = 2 := by decide
example : shiftNameS "_PREV_x".toList 2 = "_PREV__PREV__PREV_x".toList := by decide
example : shiftNameS "_PREV__PREV__PREV_x".toList (-2) = "_PREV_x".toList := by decide
example : shiftNameS "x".toList (-2) = "x".toList := by decide

/-! ### B. period -/

theorem lcmStep_eq_lcm (a b : Nat) : lcmStep a b = Nat.lcm a b := rfl

theorem foldl_lcm_dvd (rest : List Nat) : ∀ a : Nat,
    a ∣ rest.foldl lcmStep a ∧ ∀ l ∈ rest, l ∣ rest.foldl lcmStep a := by
  induction rest with
  | nil => intro a; simp
  | cons b rest ih =>
    intro a
    have ⟨h1, h2⟩ := ih (lcmStep a b)
    simp only [List.foldl_cons, List.mem_cons]
    refine ⟨Nat.dvd_trans (Nat.dvd_lcm_left a b) h1, ?_⟩
    intro l hl
    cases hl with
    | inl h => subst h; exact Nat.dvd_trans (Nat.dvd_lcm_right a l) h1
    | inr h => exact h2 l h

theorem foldl_lcm_least (rest : List Nat) (m : Nat) : ∀ a : Nat, a ∣ m → (∀ l ∈ rest, l ∣ m) →
    rest.foldl lcmStep a ∣ m := by
  induction rest with
  | nil => intro a ha _; simpa using ha
  | cons b rest ih =>
    intro a ha hl
    simp only [List.foldl_cons]
    exact ih _ (Nat.lcm_dvd ha (hl b (by simp))) (fun l h => hl l (by simp [h]))

/-- Every lag divides the period. -/
theorem period_dvd (lags : List Nat) (p : Nat) (hp : period lags = some p) : ∀ l ∈ lags, l ∣ p := by
  cases lags with
  | nil => simp [period] at hp
  | cons a rest =>
    simp only [period, Option.some.injEq] at hp
    subst hp
    have ⟨h1, h2⟩ := foldl_lcm_dvd rest a
    intro l hl
    cases List.mem_cons.mp hl with
    | inl h => subst h; exact h1
    | inr h => exact h2 l h

/-- The period is the least common multiple: it divides every common multiple. -/
theorem period_least (lags : List Nat) (p m : Nat) (hp : period lags = some p) (hm : ∀ l ∈ lags, l ∣ m) :
    p ∣ m := by
  cases lags with
  | nil => simp [period] at hp
  | cons a rest =>
    simp only [period, Option.some.injEq] at hp
    subst hp
    exact foldl_lcm_least rest m a (hm a (by simp)) (fun l h => hm l (by simp [h]))

/-- The iteration order of the Python set `lags` does not matter. -/
theorem period_perm (lags lags' : List Nat) (p p' : Nat) (h : ∀ l, l ∈ lags ↔ l ∈ lags')
    (hp : period lags = some p) (hp' : period lags' = some p') : p = p' :=
  Nat.dvd_antisymm
    (period_least lags p p' hp fun l hl => period_dvd lags' p' hp' l ((h l).mp hl))
    (period_least lags' p' p hp' fun l hl => period_dvd lags p hp l ((h l).mpr hl))

theorem period_pos (lags : List Nat) (p : Nat) (hpos : ∀ l ∈ lags, l > 0) (hp : period lags = some p) :
    p > 0 := by
  cases lags with
  | nil => simp [period] at hp
  | cons a rest =>
    simp only [period, Option.some.injEq] at hp
    subst hp
    have : ∀ (rest : List Nat) (a : Nat), a > 0 → (∀ l ∈ rest, l > 0) → rest.foldl lcmStep a > 0 := by
      intro rest
      induction rest with
      | nil => intro a ha _; simpa using ha
      | cons b rest ih =>
        intro a ha hl
        simp only [List.foldl_cons]
        exact ih _ (Nat.lcm_pos ha (hl b (by simp))) (fun l h => hl l (by simp [h]))
    exact this rest a (hpos a (by simp)) (fun l h => hpos l (by simp [h]))

/-- max lag ≤ period: what makes the block chain a first-order chain. -/
theorem lag_le_period (lags : List Nat) (p : Nat) (hpos : ∀ l ∈ lags, l > 0) (hp : period lags = some p) :
    ∀ l ∈ lags, l ≤ p :=
  fun l hl => Nat.le_of_dvd (period_pos lags p hpos hp) (period_dvd lags p hp l hl)

theorem lagsOf_pos (shifts : List Nat) : ∀ l ∈ lagsOf shifts, l > 0 := by
  intro l hl
  simp only [lagsOf, List.mem_eraseDups, List.mem_filter, ne_eq, decide_eq_true_eq] at hl
  omega

example : period [1, 2, 3] = some 6 := by decide
example : period [2, 3] = some 6 := by decide
example : period [2] = some 2 := by decide

/-! ### C. slices, blocks, relative names -/

/-- The slice of offset t, for a duration that is a multiple n·p of the period, selects exactly the time
    steps t, t+p, …, t+(n-1)p: it has `duration // period` elements and its b-th element is t + p·b. -/
theorem sliceList_block (n p t : Nat) (hp : p > 0) (ht : t < p) :
    sliceList t (n * p - p + t + 1) p (n * p) = (List.range n).map fun b => t + p * b := by
  unfold sliceList
  have hcount : (min (n * p) (max t (n * p - p + t + 1)) + p - 1 - t) / p = n := by
    cases n with
    | zero =>
      simp only [Nat.zero_mul, Nat.zero_le, Nat.min_eq_left]
      apply Nat.div_eq_of_lt; omega
    | succ n =>
      have h1 : (n + 1) * p = n * p + p := Nat.succ_mul n p
      have h2 : min ((n + 1) * p) (max t ((n + 1) * p - p + t + 1)) = n * p + t + 1 := by
        rw [h1]; omega
      rw [h2]
      have : n * p + t + 1 + p - 1 - t = p * (n + 1) := by
        rw [Nat.mul_succ, Nat.mul_comm p n]; omega
      rw [this, Nat.mul_div_cancel_left _ hp]
  simp only [hcount]

theorem blockSlices_eq (n p : Nat) (hp : p > 0) :
    blockSlices (n * p) p = (List.range p).map fun t => (List.range n).map fun b => t + p * b := by
  unfold blockSlices
  apply List.map_congr_left
  intro t ht
  exact sliceList_block n p t hp (List.mem_range.mp ht)

/-- Block-major enumeration of (block, offset) pairs lists every time step exactly once, in order:
    each original time step t' < n·p is the step of exactly one pair (b, t) with t' = t + p·b. -/
theorem block_cover (n p : Nat) :
    ((List.range n).flatMap fun b => (List.range p).map fun t => t + p * b) = List.range (n * p) := by
  induction n with
  | zero => simp
  | succ n ih =>
    rw [List.range_succ, List.flatMap_append, ih, Nat.succ_mul]
    simp only [List.flatMap_cons, List.flatMap_nil, List.append_nil]
    rw [List.range_add]
    congr 1
    apply List.map_congr_left
    intro t _
    rw [Nat.mul_comm p n, Nat.add_comm]

theorem block_cover_unique (p b t b' t' : Nat) (ht : t < p) (ht' : t' < p)
    (h : t + p * b = t' + p * b') : b = b' ∧ t = t' := by
  have hp : p > 0 := by omega
  have e1 : (t + p * b) % p = t := by rw [Nat.add_mul_mod_self_left]; exact Nat.mod_eq_of_lt ht
  have e2 : (t' + p * b') % p = t' := by rw [Nat.add_mul_mod_self_left]; exact Nat.mod_eq_of_lt ht'
  have ht_eq : t = t' := by rw [← e1, ← e2, h]
  subst ht_eq
  have : p * b = p * b' := by omega
  exact ⟨Nat.eq_of_mul_eq_mul_left hp this, rfl⟩

/-- Inside block b the factor of offset t (time step t + p·b, shifted by p-t-1) names its current state
    with the shift that denotes exactly that time step … -/
theorem absTime_current (p b t : Nat) (ht : t < p) :
    absTime p b (0 + blockShift p t) = ((t + p * b : Nat) : Int) := by
  simp only [absTime, blockShift]
  rw [Nat.mul_comm p b]
  omega

/-- … and its lag-l state with the shift that denotes time step (t + p·b) - l. -/
theorem absTime_lag (p b t l : Nat) (ht : t < p) :
    absTime p b (l + blockShift p t) = ((t + p * b : Nat) : Int) - l := by
  simp only [absTime, blockShift]
  rw [Nat.mul_comm p b]
  omega

/-- block_step is coherent: the prev name (shift s + p) in block b+1 denotes the same original time step as
    the curr name (shift s) in block b — "the shifted names of block b's outputs are block b+1's inputs". -/
theorem blockStep_coherent (p b s : Nat) : absTime p (b + 1) (s + p) = absTime p b s := by
  simp only [absTime, Nat.succ_mul]
  omega

/-- First-order condition: with every lag ≤ period, each name of a block has shift < 2·period, i.e. it is
    either a curr name (shift < p) or the prev partner (shift - p < p) of one. -/
theorem blockShifts_lt (p : Nat) (lags : List Nat) (hl : ∀ l ∈ lags, l ≤ p) :
    ∀ s ∈ blockShifts p lags, s < 2 * p := by
  intro s hs
  simp only [blockShifts, List.mem_flatMap, List.mem_range, List.mem_map, List.mem_cons] at hs
  obtain ⟨t, ht, l, hl', rfl⟩ := hs
  simp only [blockShift]
  cases hl' with
  | inl h => subst h; omega
  | inr h => have := hl l h; omega

/-- Every curr shift 0..p-1 is mentioned by the block (as the current state of offset p-1-s), so block_step
    pairs every window position. -/
theorem blockShifts_curr (p : Nat) (lags : List Nat) (s : Nat) (hs : s < p) : s ∈ blockShifts p lags := by
  simp only [blockShifts, List.mem_flatMap, List.mem_range, List.mem_map, List.mem_cons]
  exact ⟨p - 1 - s, by omega, 0, Or.inl rfl, by simp only [blockShift]; omega⟩

/-- Every name of a block with shift ≥ p is a key of block_step (so nothing time-dependent is left over
    after the chain contraction), given the first-order condition. -/
theorem blockStep_covers (p : Nat) (lags : List Nat) (hl : ∀ l ∈ lags, l ≤ p) :
    ∀ s ∈ blockShifts p lags, s ≥ p → (s, s - p) ∈ blockStep p (blockShifts p lags) := by
  intro s hs hge
  have hlt := blockShifts_lt p lags hl s hs
  simp only [blockStep, List.mem_map, List.mem_eraseDups, List.mem_filter, decide_eq_true_eq]
  refine ⟨s - p, ⟨blockShifts_curr p lags (s - p) ?_, ?_⟩, ?_⟩
  · omega
  · omega
  · rw [Nat.sub_add_cancel hge]

/-- The final renaming by -(period-1) sends the prev window name of x_{-j} (block 0) to shift j, which is the
    name the naive renaming by -(duration-1) gives it. -/
theorem final_rename_agrees (p T j : Nat) (hp : p > 0) (hT : T > 0) (hj : j ≥ 1) :
    absTime p 0 (p - 1 + j) = -(j : Int) ∧ absTimeNaive T (T - 1 + j) = -(j : Int) ∧
    shiftIdx (p - 1 + j) (-((p - 1 : Nat) : Int)) = j ∧ shiftIdx (T - 1 + j) (-((T - 1 : Nat) : Int)) = j := by
  refine ⟨by simp only [absTime]; omega, by simp only [absTimeNaive]; omega, ?_, ?_⟩
  · simp only [shiftIdx]
    by_cases h : p - 1 = 0
    · simp [h]
    · rw [if_neg (by omega)]; simp only [Int.neg_neg, Int.toNat_natCast]; rw [if_pos (by omega)]; omega
  · simp only [shiftIdx]
    by_cases h : T - 1 = 0
    · simp [h]
    · rw [if_neg (by omega)]; simp only [Int.neg_neg, Int.toNat_natCast]; rw [if_pos (by omega)]; omega

/-- The shifts summed out at the end (1..p-1 of the last block) denote x_{T-p}, …, x_{T-2}; together with the
    windows contracted by the chain (x_0 … x_{T-p-1}) these are exactly the variables the naive loop sums. -/
theorem finalSum_absTime (p n s : Nat) (hn : n > 0) (hs : s ∈ finalSumShifts p) :
    absTime p (n - 1) s = ((n * p : Nat) : Int) - 1 - s ∧ 1 ≤ s ∧ s < p := by
  simp only [finalSumShifts, List.mem_filter, List.mem_range, decide_eq_true_eq] at hs
  refine ⟨?_, hs.2, hs.1⟩
  simp only [absTime]
  have : (n - 1) * p + p = n * p := by
    cases n with
    | zero => omega
    | succ n => simp [Nat.succ_mul]
  rw [this]

/-- Truncated prefix: the recursive call runs on the time steps r, r+1, …, T-1. -/
theorem sliceList_tail (r T : Nat) (h : r ≤ T) :
    sliceList r T 1 T = (List.range (T - r)).map fun i => r + i := by
  have h1 : (min T (max r T) + 1 - 1 - r) / 1 = T - r := by
    rw [Nat.div_one]; omega
  simp only [sliceList, h1]
  apply List.map_congr_left
  intro i _
  omega

/-- Truncated prefix naming: factor t < r is shifted by r - t, so its current state gets shift r - t; in the
    recursive result (duration T - r, last step T-1) shift j denotes x_{T-1-j} … the combine loop sums shift
    r - t = x_t and the final renaming by -r sends shift r + j (x_{-j}) to j. -/
theorem prefix_rename (r j : Nat) (hj : j ≥ 1) : shiftIdx (r + j) (-(r : Int)) = j := by
  simp only [shiftIdx]
  by_cases h : r = 0
  · subst h; simp
  · rw [if_neg (by omega)]; simp only [Int.neg_neg, Int.toNat_natCast]; rw [if_pos (by omega)]; omega

/-! ### D. the window chain -/

variable {α : Type} (f : α → α → α)

theorem mapM_congr_opt {β γ : Type} (g g' : β → Option γ) :
    ∀ l : List β, (∀ x ∈ l, g x = g' x) → l.mapM g = l.mapM g' := by
  intro l
  induction l with
  | nil => intro _; rfl
  | cons a l ih =>
    intro h
    rw [List.mapM_cons, List.mapM_cons, h a (by simp), ih (fun x hx => h x (by simp [hx]))]

/-- Gathering the indices r, r+1, …, r+n-1. -/
theorem gather_range (l : List α) : ∀ (n r : Nat), r + n ≤ l.length →
    ((List.range n).map fun i => r + i).mapM (l[·]?) = some ((l.drop r).take n) := by
  intro n
  induction n with
  | zero => intro r _; simp
  | succ n ih =>
    intro r h
    rw [List.range_succ_eq_map, List.map_cons, List.mapM_cons, List.map_map]
    have hr : r < l.length := by omega
    have e : (fun i => r + i) ∘ Nat.succ = fun i => (r + 1) + i := by
      funext i; simp only [Function.comp, Nat.succ_eq_add_one]; omega
    rw [e, ih (r + 1) (by omega)]
    simp only [Nat.add_zero, List.getElem?_eq_getElem hr]
    rw [List.drop_eq_getElem_cons hr, List.take_succ_cons]
    rfl

theorem gather_tail (l : List α) (r : Nat) (h : r ≤ l.length) :
    gather l (sliceList r l.length 1 l.length) = some (l.drop r) := by
  rw [gather, sliceList_tail r l.length h, gather_range l _ r (by omega)]
  congr 1
  apply List.take_of_length_le
  simp

theorem naiveSarkka_eq_naive : ∀ l : List α, naiveSarkka f l = naive f l := by
  intro l
  induction l with
  | nil => rfl
  | cons a l ih =>
    cases l with
    | nil => rfl
    | cons b rest =>
      simp only [naive]
      rw [← ih]
      simp only [naiveSarkka, List.reverse_cons]
      generalize hrev : rest.reverse ++ [b] = rv
      cases rv with
      | nil => simp at hrev
      | cons last revInit =>
        simp only [List.cons_append, List.foldl_append, List.foldl_cons, List.foldl_nil, Option.map_some]

/-- The sequential combine loop of the truncated prefix. -/
theorem tailCombine_eq (h : Assoc f) (l : List α) : ∀ (t : Nat) (res : α), t < l.length →
    fold1 f (l.drop t) = some res → tailCombine f l t res = fold1 f l := by
  intro t
  induction t with
  | zero => intro res _ hres; simpa [tailCombine] using hres.symm
  | succ t ih =>
    intro res ht hres
    have ht' : t < l.length := by omega
    simp only [tailCombine, List.getElem?_eq_getElem ht', Option.bind_some]
    apply ih _ ht'
    rw [List.drop_eq_getElem_cons ht']
    have := fold1_append f h [l[t]] (l.drop (t + 1)) l[t] res rfl hres
    simpa using this

/-- The block chain built through the slice indices is the chain of per-block products, and folding it gives
    the fold of the whole chain. -/
theorem sarkkaBlocks_fold (h : Assoc f) (p n : Nat) (hp : p > 0) (hn : n > 0) (l : List α)
    (hl : l.length = n * p) :
    ∃ rs, sarkkaBlocks f p l = some rs ∧ rs ≠ [] ∧ fold1 f rs = fold1 f l := by
  have hdiv : l.length / p = n := by rw [hl]; exact Nat.mul_div_cancel n hp
  obtain ⟨rs, hrs, hfold⟩ := fold1_blocks f h p hp n l hl hn
  refine ⟨rs, ?_, ?_, hfold⟩
  · unfold sarkkaBlocks
    simp only [hdiv]
    rw [hl, blockSlices_eq n p hp]
    have hall : ((List.range p).map fun t => (List.range n).map fun b => t + p * b).all
        (fun sl => sl.length == n) = true := by
      simp [List.all_eq_true]
    rw [if_pos hall, ← hrs]
    apply mapM_congr_opt
    intro b hb
    have hb' : b < n := List.mem_range.mp hb
    rw [List.mapM_map]
    have e : ((fun sl : List Nat => (sl[b]?).bind (l[·]?)) ∘ fun t => (List.range n).map fun b => t + p * b)
        = fun t => l[b * p + t]? := by
      funext t
      simp only [Function.comp, List.getElem?_map, List.getElem?_range hb', Option.map_some,
        Option.bind_some]
      rw [Nat.mul_comm p b, Nat.add_comm]
    rw [e]
    have hle : b * p + p ≤ l.length := by
      rw [hl]
      have : (b + 1) * p ≤ n * p := Nat.mul_le_mul_right p hb'
      rw [Nat.succ_mul] at this; exact this
    have := gather_range l p (b * p) hle
    rw [List.mapM_map] at this
    have e2 : ((fun x => l[x]?) ∘ fun i => b * p + i) = fun t => l[b * p + t]? := by
      funext t; rfl
    rw [e2] at this
    rw [this]; rfl
  · intro he
    rw [he] at hfold
    cases l with
    | nil => simp at hl; have := Nat.mul_pos hn hp; omega
    | cons a l => simp [fold1] at hfold

/-- sarkka_bilmes_product, duration a multiple of the period (no truncated prefix): equals the fold. -/
theorem sarkka_eq_fold_aligned (h : Assoc f) (p np : Nat) (hp : p > 0) (hnp : np > 0) (fuel : Nat)
    (hf : fuel ≥ 1) (l : List α) (hne : l ≠ []) (hmod : l.length % p = 0) :
    sarkka f p np fuel l = fold1 f l := by
  match fuel, hf with
  | fuel + 1, _ =>
    have hd : l.length ≠ 0 := by simpa [List.length_eq_zero_iff] using hne
    simp only [sarkka]
    rw [if_neg (by omega), if_neg (by omega)]
    have hl : l.length = (l.length / p) * p := by
      have := Nat.div_add_mod l.length p; rw [hmod] at this
      rw [Nat.mul_comm]; omega
    have hn : l.length / p > 0 := Nat.div_pos (Nat.le_of_dvd (by omega) (Nat.dvd_of_mod_eq_zero hmod)) hp
    obtain ⟨rs, hrs, hrne, hfold⟩ := sarkkaBlocks_fold f h p (l.length / p) hp hn l hl
    rw [hrs]
    simp only []
    rw [mixed_eq_fold f h _ (by omega) 2 rs (by omega) hrne, hfold]

/-- **sarkka_bilmes_product = left fold over time**, on the window chain: every period ≥ 1 (whatever the
    lag set it is the lcm of), every num_periods ≥ 1, every duration ≥ 1, including the truncated-prefix
    recursion (`duration % period ≠ 0`, with and without a complete period) — given two levels of fuel. -/
theorem sarkka_eq_fold (h : Assoc f) (p np : Nat) (hp : p > 0) (hnp : np > 0) (fuel : Nat)
    (hf : fuel ≥ 2) (l : List α) (hne : l ≠ []) : sarkka f p np fuel l = fold1 f l := by
  by_cases hmod : l.length % p = 0
  · exact sarkka_eq_fold_aligned f h p np hp hnp fuel (by omega) l hne hmod
  · match fuel, hf with
    | fuel + 1, hf' =>
      have hd : l.length ≠ 0 := by simpa [List.length_eq_zero_iff] using hne
      have hr : l.length % p ≤ l.length := Nat.mod_le _ _
      have hrp : l.length % p < p := Nat.mod_lt _ hp
      simp only [sarkka]
      rw [if_neg (by omega), if_pos hmod]
      by_cases htr : l.length - l.length % p = 0
      · -- fewer time steps than one period: purely sequential
        rw [if_pos htr]
        have hrl : l.length % p = l.length := by omega
        have hlt : l.length - 1 < l.length := by omega
        rw [hrl, List.getElem?_eq_getElem hlt]
        simp only [Option.map_some]
        apply tailCombine_eq f h l _ _ hlt
        rw [List.drop_eq_getElem_cons hlt]
        have : l.drop (l.length - 1 + 1) = [] := List.drop_of_length_le (by omega)
        rw [this]; rfl
      · rw [if_neg htr, gather_tail l _ hr]
        simp only []
        have hne' : l.drop (l.length % p) ≠ [] := by
          intro he; have := congrArg List.length he; simp at this; omega
        have hmod' : (l.drop (l.length % p)).length % p = 0 := by
          rw [List.length_drop]
          have := Nat.div_add_mod l.length p
          have e : l.length - l.length % p = p * (l.length / p) := by omega
          rw [e]; exact Nat.mul_mod_right _ _
        rw [sarkka_eq_fold_aligned f h p np hp hnp fuel (by omega) _ hne' hmod']
        obtain ⟨y, hy⟩ := fold1_isSome_of_ne_nil f _ hne'
        rw [hy]
        simp only [Option.map_some]
        have hpos : l.length % p > 0 := by omega
        have hlt : l.length % p < l.length := by omega
        exact tailCombine_eq f h l _ _ hlt hy

/-- **sarkka_bilmes_product = naive_sarkka_bilmes_product** on the window chain (all lag sets through their
    period, all durations, all num_periods). -/
theorem sarkka_eq_naive (h : Assoc f) (p np : Nat) (hp : p > 0) (hnp : np > 0) (l : List α) (hne : l ≠ []) :
    sarkka f p np 2 l = naiveSarkka f l := by
  rw [sarkka_eq_fold f h p np hp hnp 2 (by omega) l hne, naiveSarkka_eq_naive, naive_eq_fold f h]

/-- Lag set {1}: period 1, every block is a single factor, the window is the state itself, and the algorithm
    is literally `mixed_sequential_sum_product` on the original chain — no modelling gap. -/
theorem sarkka_lag1 (np : Nat) (l : List α) (hne : l ≠ []) (hnp : np > 0) :
    period (lagsOf [0, 1]) = some 1 ∧ sarkkaBlocks f 1 l = some l ∧
    sarkka f 1 np 2 l = mixed f (max 1 (l.length / (1 * np))) 2 l := by
  have hb : sarkkaBlocks f 1 l = some l := by
    unfold sarkkaBlocks
    have hs := blockSlices_eq l.length 1 (by omega)
    rw [Nat.mul_one] at hs
    simp only [Nat.div_one, hs]
    simp only [List.range_one, List.map_cons, List.map_nil, List.all_cons, List.all_nil,
      List.length_map, List.length_range, beq_self_eq_true, Bool.and_true, if_true, List.mapM_cons,
      List.mapM_nil]
    rw [mapM_congr_opt _ (l[·]?) _ (by
      intro b hb
      have hb' := List.mem_range.mp hb
      simp [List.getElem?_range hb', List.getElem?_eq_getElem hb', fold1])]
    have := gather_range l l.length 0 (by omega)
    simp only [Nat.zero_add, List.map_id', List.drop_zero, List.take_length] at this
    exact this
  refine ⟨by decide, hb, ?_⟩
  have hd : l.length ≠ 0 := by simpa [List.length_eq_zero_iff] using hne
  simp only [sarkka]
  rw [if_neg (by omega), if_neg (by simp [Nat.mod_one]), hb]

/-- Lag set {1..k}: the period lcm(1..k) is a multiple of every lag and ≥ k, so the chain of blocks of that
    many steps is first order and `sarkka_eq_naive` applies (k = 2: period 2, k = 3: period 6, k = 4: 12). -/
theorem sarkka_lags_upto (k : Nat) (hk : k ≥ 1) (p : Nat)
    (hp : period ((List.range k).map (· + 1)) = some p) :
    p > 0 ∧ k ≤ p ∧ (∀ l, 1 ≤ l → l ≤ k → l ∣ p) ∧
    ∀ (α : Type) (f : α → α → α), Assoc f → ∀ (np : Nat), np > 0 → ∀ l : List α, l ≠ [] →
      sarkka f p np 2 l = naiveSarkka f l := by
  have hpos : ∀ l ∈ (List.range k).map (· + 1), l > 0 := by
    intro l hl; simp only [List.mem_map, List.mem_range] at hl; obtain ⟨i, _, rfl⟩ := hl; omega
  have hp0 := period_pos _ p hpos hp
  have hmem : ∀ l, 1 ≤ l → l ≤ k → l ∈ (List.range k).map (· + 1) := by
    intro l h1 h2; simp only [List.mem_map, List.mem_range]; exact ⟨l - 1, by omega, by omega⟩
  refine ⟨hp0, lag_le_period _ p hpos hp k (hmem k hk (Nat.le_refl k)),
    fun l h1 h2 => period_dvd _ p hp l (hmem l h1 h2), ?_⟩
  intro α f h np hnp l hne
  exact sarkka_eq_naive f h p np hp0 hnp l hne

example : sarkka mm 2 1 2 [(1,2,3,4), (0,1,1,0), (2,0,0,2), (1,1,0,1), (1,0,2,1)] = some (16, 6, 36, 14) := by
  rw [sarkka_eq_fold mm mm_assoc 2 1 (by omega) (by omega) 2 (by omega) _ (by simp)]; decide
example : sarkkaBlocks mm 2 [(1,2,3,4), (0,1,1,0), (2,0,0,2), (1,1,0,1)] = some [(2, 1, 4, 3), (2, 2, 0, 2)] := by
  decide
example : blockSlices 6 2 = [[0, 2, 4], [1, 3, 5]] := by decide
example : blockShifts 2 [1, 2] = [1, 2, 3, 0, 1, 2] := by decide
example : blockStep 2 (blockShifts 2 [1, 2]) = [(3, 1), (2, 0)] := by decide

end FV.Props.C10
